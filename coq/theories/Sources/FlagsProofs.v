(* Proofs for property C12 (flag sources). *)
From Coq Require Import String.
From Coq Require Import List NArith ZArith Bool Lia.
From Dials Require Import Base.Outcome Base.Runes Reflect.Ty Reflect.Ptrify Stack.Overlay Text.CaseConv
  Text.ParseInt Text.ParseIntProofs Text.Split Text.ParseText Sources.Flatten Sources.FlattenSpec Sources.FlattenProofs Sources.Env Sources.EnvSpec
  Sources.EnvProofs Sources.Flags.
Import ListNotations.
Open Scope list_scope.

(* the per-flag view of Parse: Set folded over a flag's own texts *)
Fixpoint set_all (k : fkind) (st : fstate) (texts : list str) : outcome fstate :=
  match texts with
  | [] => Ok st
  | t :: r => st' <- flag_set k st t ;; set_all k st' r
  end.

Fixpoint texts_of (n : str) (occs : list (str * str)) : list str :=
  match occs with
  | [] => []
  | (m, t) :: r => if str_eqb n m then t :: texts_of n r else texts_of n r
  end.

Definition flag_keys (p : pkg) (fs : fields) : fields := alias_fields (flag_alias_keys p) (ptrify_fields fs).

Lemma flag_regs_ok p ne te fs tmpl regs :
  flag_regs p ne te fs tmpl = Ok regs ->
  exists ls, flatten (flag_cfg ne te) (flag_keys p fs) = Ok ls /\
             regs = map (mk_reg p fs tmpl) ls /\ reg_errors p [] regs = None.
Proof.
  unfold flag_regs, flag_keys. intros H. apply obind_ok in H as (ls & Hls & H).
  destruct (has_dup (map lf_name ls)); [discriminate|].
  destruct (reg_errors p [] (map (mk_reg p fs tmpl) ls)) eqn:E; [discriminate|].
  inversion H; subst. eauto.
Qed.

Lemma Forall2_map_l {A B C} (R : B -> C -> Prop) (g : A -> B) la lc :
  Forall2 (fun a c => R (g a) c) la lc -> Forall2 R (map g la) lc.
Proof. induction 1; simpl; constructor; auto. Qed.

Lemma src_tag_other p :
  str_eqb (src_tag p) dials_tag = false /\ str_eqb (src_tag p) fieldpath_tag = false.
Proof. destruct p; split; reflexivity. Qed.

(* ---- flag_names ---- *)
Theorem flag_names_l p ne te fs tmpl regs :
  flag_regs p ne te fs tmpl = Ok regs ->
  Forall2 (fun r pt => exists parts, raw_parts (fst pt) = Ok parts /\
             rg_name r = match tag_lookup (src_tag p) (leaf_tags (fst pt)) with
                         | Some n => n
                         | None => tag_enc te parts
                         end)
          regs (paths (flag_keys p fs)).
Proof.
  intros H. apply flag_regs_ok in H as (ls & Hfl & -> & _).
  apply flat_paths in Hfl. apply Forall2_map_l.
  eapply Forall2_imp; [|exact Hfl].
  intros l pt (sfx & parts & Hp & Hne & Hr & Ht & Ho & Hty). simpl in Hp. subst sfx.
  exists parts. split; auto. simpl. unfold mkname.
  destruct (src_tag_other p) as [H1 H2]. rewrite (Ho _ H1 H2).
  destruct (tag_lookup (src_tag p) (leaf_tags (fst pt))); auto.
Qed.

(* ---- defaults ---- *)
Theorem flag_defaults_l p ne te fs tmpl regs :
  flag_regs p ne te fs tmpl = Ok regs ->
  Forall (fun r => rg_init r = template_value fs tmpl (rg_leaf r) /\
                   forall k, rg_kind r = Some k ->
                             In (rg_name r, canon_default k (template_value fs tmpl (rg_leaf r)))
                                (flag_advertised regs)) regs.
Proof.
  intros H. apply flag_regs_ok in H as (ls & _ & -> & _).
  apply Forall_forall. intros r Hin. split.
  - apply in_map_iff in Hin as (l & <- & _). reflexivity.
  - intros k Hk. unfold flag_advertised. apply in_flat_map. exists r. split; auto.
    rewrite Hk. apply in_map_iff in Hin as (l & <- & _). simpl. auto.
Qed.

(* ---- Parse as independent folds ---- *)
Lemma st_lookup_put n m s l :
  st_lookup n (st_put m s l) = if str_eqb n m then Some s else st_lookup n l.
Proof.
  induction l as [|[k v] l IH]; simpl.
  - destruct (str_eqb n m); reflexivity.
  - destruct (str_eqb m k) eqn:E; simpl.
    + apply str_eqb_eq in E. subst k. destruct (str_eqb n m); reflexivity.
    + destruct (str_eqb n k) eqn:E2.
      * destruct (str_eqb n m) eqn:E3; auto.
        apply str_eqb_eq in E2. apply str_eqb_eq in E3. subst. now rewrite str_eqb_refl in E.
      * exact IH.
Qed.

Lemma run_occs_visited regs : forall occs st0 st,
  run_occs regs st0 occs = Ok st ->
  forall n, st_lookup n st <> None <-> (st_lookup n st0 <> None \/ In n (map fst occs)).
Proof.
  induction occs as [|[m t] occs IH]; intros st0 st H n; simpl in H.
  - inversion H; subst. simpl. tauto.
  - destruct (find_reg m regs) as [r|]; [|discriminate].
    destruct (rg_kind r) as [k|]; [|discriminate].
    apply obind_ok in H as (st' & Hs & H).
    rewrite (IH _ _ H n), st_lookup_put. simpl.
    destruct (str_eqb n m) eqn:E.
    + apply str_eqb_eq in E. subst m. split; intros _.
      * right. left. reflexivity.
      * left. discriminate.
    + split; [tauto|]. intros [A|[A|A]]; auto.
      subst. now rewrite str_eqb_refl in E.
Qed.

Lemma run_occs_project regs : forall occs st0 st,
  run_occs regs st0 occs = Ok st ->
  forall n r k, find_reg n regs = Some r -> rg_kind r = Some k ->
    let start := match st_lookup n st0 with Some s => s | None => mkFstate (rg_init r) true end in
    match texts_of n occs with
    | [] => st_lookup n st = st_lookup n st0
    | ts => exists s', set_all k start ts = Ok s' /\ st_lookup n st = Some s'
    end.
Proof.
  induction occs as [|[m t] occs IH]; intros st0 st H n r k Hr Hk; simpl in H |- *.
  - now inversion H.
  - destruct (find_reg m regs) as [r'|] eqn:Er'; [|discriminate].
    destruct (rg_kind r') as [k'|] eqn:Ek'; [|discriminate].
    apply obind_ok in H as (st' & Hs & H).
    specialize (IH _ _ H n r k Hr Hk). cbv zeta in IH. rewrite st_lookup_put in IH.
    destruct (str_eqb n m) eqn:E.
    + apply str_eqb_eq in E. subst m. rewrite Hr in Er'. inversion Er'; subst r'.
      rewrite Hk in Ek'. inversion Ek'; subst k'.
      change (set_all k ?s (t :: ?ts)) with (st'' <- flag_set k s t ;; set_all k st'' ts).
      rewrite Hs. simpl obind.
      destruct (texts_of n occs) as [|t2 ts]; [exists st'; split; auto|exact IH].
    + exact IH.
Qed.

(* ---- only visited flags set their leaves ---- *)
Theorem flag_only_visited_set_l p ne te fs tmpl occs vs :
  alias_free (flag_alias_keys p) (ptrify_fields fs) = true -> wf_fields (ptrify_fields fs) = true ->
  flag_value p ne te fs tmpl occs = Ok vs ->
  exists regs states,
    flag_regs p ne te fs tmpl = Ok regs /\ run_occs regs [] occs = Ok states /\
    Forall2 (fun r x =>
               (* a leaf whose flag does not occur stays unset *)
               (~ In (rg_name r) (map fst occs) -> x = VNil) /\
               (* a leaf whose flag occurs holds what Value writes for the flag's final state *)
               (forall st k, st_lookup (rg_name r) states = Some st -> rg_kind r = Some k ->
                             write_leaf p k (lf_ty (rg_leaf r)) (st_val st) = Ok x))
            regs (leaves_of (ptrify_fields fs) vs).
Proof.
  intros Haf Hwf H. unfold flag_value, flag_value_with in H.
  apply obind_ok in H as (regs & Hregs & H). apply obind_ok in H as (states & Hst & H).
  apply obind_ok in H as (vals & Hvals & H). apply obind_ok in H as (vs0 & Hpop & H).
  rewrite alias_fields_id in Hpop by assumption.
  rewrite (populate_unalias_id _ _ _ _ Hwf Haf Hpop) in H. inversion H; subst vs0.
  exists regs, states. repeat split; auto.
  rewrite (populate_leaves _ _ _ Hwf Hpop). apply omapM_ok in Hvals.
  eapply Forall2_imp; [|exact Hvals]. intros r x Hx. cbv beta in Hx. split.
  - intros Hn. destruct (st_lookup (rg_name r) states) eqn:E.
    + exfalso. apply Hn.
      destruct (proj1 (run_occs_visited regs occs [] states Hst (rg_name r))) as [A|A]; auto.
      * rewrite E. discriminate.
      * simpl in A. congruence.
    + try rewrite E in Hx. now inversion Hx.
  - intros st k Hl Hk. now rewrite Hl, Hk in Hx.
Qed.

(* ---- accumulation ---- *)
Lemma set_all_strslice native : forall texts st wss,
  Forall2 (fun t ws => flag_set (FkStrSlice native) (mkFstate VNil true) t = Ok (mkFstate (VList (map VStr ws)) false))
          texts wss ->
  texts <> [] ->
  exists st', set_all (FkStrSlice native) st texts = Ok st' /\
              st_val st' = VList ((if st_defaulted st then [] else vlist_of (st_val st)) ++ map VStr (concat wss)) /\
              st_defaulted st' = false.
Proof.
  induction texts as [|t texts IH]; intros st wss HF Hne; [congruence|].
  inversion HF as [|? ws ? wss' Ht HF']; subst.
  assert (Hstep : flag_set (FkStrSlice native) st t =
                  Ok (mkFstate (VList ((if st_defaulted st then [] else vlist_of (st_val st)) ++ map VStr ws)) false)).
  { unfold flag_set in *. simpl in Ht.
    destruct (if native then _ else _) as [ws0| |]; simpl in *; try discriminate.
    inversion Ht. reflexivity. }
  change (set_all (FkStrSlice native) st (t :: texts))
    with (st'' <- flag_set (FkStrSlice native) st t ;; set_all (FkStrSlice native) st'' texts).
  rewrite Hstep. simpl obind.
  destruct texts as [|t2 texts].
  - inversion HF'; subst. simpl. rewrite app_nil_r. eauto.
  - destruct (IH (mkFstate (VList ((if st_defaulted st then [] else vlist_of (st_val st)) ++ map VStr ws)) false) wss' HF')
      as (st' & Hs & Hv & Hd); [discriminate|].
    exists st'. split; auto. split; auto. rewrite Hv. simpl.
    now rewrite map_app, app_assoc.
Qed.

(* the first occurrence replaces the template's default, later ones append *)
Theorem flag_accumulate_l native dflt texts wss :
  Forall2 (fun t ws => flag_set (FkStrSlice native) (mkFstate VNil true) t = Ok (mkFstate (VList (map VStr ws)) false))
          texts wss ->
  texts <> [] ->
  exists st', set_all (FkStrSlice native) (mkFstate dflt true) texts = Ok st' /\
              st_val st' = VList (map VStr (concat wss)).
Proof.
  intros HF Hne. destruct (set_all_strslice native texts (mkFstate dflt true) wss HF Hne) as (st' & Hs & Hv & _).
  exists st'. split; auto.
Qed.

(* maps and sets: one step - the first occurrence replaces, later ones merge *)
Theorem flag_accumulate_maps_l st text :
  (forall kvs, map_ss_parse isp0 text = Ok kvs ->
     flag_set FkStrMap st text =
     Ok (mkFstate (VMap (fold_left (fun m kv => map_put (VStr (fst kv)) (VStr (snd kv)) m) kvs
                                   (if st_defaulted st then [] else vmap_of (st_val st)))) false)) /\
  (forall ws, string_set isp0 text = Ok ws ->
     flag_set FkStrSet st text =
     Ok (mkFstate (VMap (fold_left (fun m w => map_put (VStr w) set_unit m) ws
                                   (if st_defaulted st then [] else vmap_of (st_val st)))) false)) /\
  (forall kvs, mss_parse isp0 text = Ok kvs ->
     flag_set FkStrSliceMap st text =
     Ok (mkFstate (VMap (merge_mss kvs (if st_defaulted st then [] else vmap_of (st_val st)))) false)).
Proof.
  repeat split; intros; unfold flag_set; rewrite H; reflexivity.
Qed.

(* ---- out of range ---- *)
(* the packages' own integer setters, at the flag's bit size (pflag: the
   leaf's width): C15's characterisation of strconv.ParseInt - the value of
   the literal, inside the range of that size, or an error *)
Lemma parse_int_range b s z : good_bits b -> parse_int s b = Ok z ->
  lit_value s = Some z /\ (- Z.of_N (2 ^ (b - 1)) <= z < Z.of_N (2 ^ (b - 1)))%Z.
Proof. intros Hb H. now apply parse_int_spec in H. Qed.

(* std package: a value outside the leaf's integer type is an error *)
Lemma write_leaf_overflow k w nm z :
  (match k with FkInt _ | FkUint _ | FkDuration => True | _ => False end) ->
  in_int_range w z = false ->
  write_leaf PStd k (TPtr (TBasic (KInt w) nm)) (VInt z) = Err 31.
Proof. intros Hk Hr. destruct k; try contradiction; simpl; now rewrite Hr. Qed.

Lemma write_leaf_overflow_u k w nm z :
  (match k with FkInt _ | FkUint _ | FkDuration => True | _ => False end) ->
  ((0 <=? z)%Z && in_uint_range w (Z.to_N z)) = false ->
  write_leaf PStd k (TPtr (TBasic (KUint w) nm)) (VInt z) = Err 31.
Proof. intros Hk Hr. destruct k; try contradiction; simpl; now rewrite Hr. Qed.

Lemma write_leaf_overflow_f32 nm z :
  (float_max 32 * 1024 < Z.abs z)%Z -> Z.abs z <> float_inf ->
  write_leaf PStd (FkFloat 64) (TPtr (TBasic (KFloat 32) nm)) (VFloat z) = Err 31.
Proof.
  intros H Hi. unfold write_leaf, fits.
  destruct (Z.abs z <=? float_max 32 * 1024)%Z eqn:E; [apply Z.leb_le in E; lia|].
  destruct (Z.abs z =? float_inf)%Z eqn:E2; [apply Z.eqb_eq in E2; contradiction|reflexivity].
Qed.

(* whatever the package: if some visited flag cannot be written, or an
   occurrence does not parse, Value yields no value *)
Theorem flag_bad_value_is_error_l p ne te fs tmpl occs regs states r st k :
  flag_regs p ne te fs tmpl = Ok regs -> run_occs regs [] occs = Ok states ->
  In r regs -> st_lookup (rg_name r) states = Some st -> rg_kind r = Some k ->
  (forall x, write_leaf p k (lf_ty (rg_leaf r)) (st_val st) <> Ok x) ->
  forall vs, flag_value p ne te fs tmpl occs <> Ok vs.
Proof.
  intros Hregs Hst Hin Hl Hk Hbad vs H. unfold flag_value, flag_value_with in H.
  rewrite Hregs in H. simpl in H. rewrite Hst in H. simpl in H.
  apply obind_ok in H as (vals & Hvals & _). apply omapM_ok in Hvals.
  clear Hregs Hst.
  induction Hvals as [|r' x regs' vals' Hc _ IH].
  - inversion Hin.
  - destruct Hin as [Heq|Hin].
    + subst r'. cbv beta in Hc. rewrite Hl, Hk in Hc. exact (Hbad _ Hc).
    + exact (IH Hin).
Qed.

Theorem flag_parse_error_is_error_l p ne te fs tmpl occs regs c :
  flag_regs p ne te fs tmpl = Ok regs -> run_occs regs [] occs = Err c ->
  flag_value p ne te fs tmpl occs = Err c.
Proof.
  intros Hregs Hst. unfold flag_value, flag_value_with. rewrite Hregs. simpl. now rewrite Hst.
Qed.

(* ---- registration never shadows: two leaves never share a flag name ---- *)
Definition named (n : str) : bool := negb (str_eqb n dash).

Lemma str_eqb_sym a b : str_eqb a b = str_eqb b a.
Proof.
  destruct (str_eqb a b) eqn:E; destruct (str_eqb b a) eqn:E2; auto.
  - apply str_eqb_eq in E. subst. now rewrite str_eqb_refl in E2.
  - apply str_eqb_eq in E2. subst. now rewrite str_eqb_refl in E.
Qed.

Lemma reg_errors_none p : forall regs seen,
  reg_errors p seen regs = None ->
  forallb (fun r => negb (named (rg_name r)) || negb (existsb (str_eqb (rg_name r)) seen)) regs = true /\
  has_dup (filter named (map rg_name regs)) = false /\
  (p = PStd -> forallb (fun r => dash_tag p (rg_leaf r) || negb (bad_std_name (rg_name r))) regs = true).
Proof.
  induction regs as [|r regs IH]; intros seen H; simpl in *; [auto|].
  destruct (negb (str_eqb (rg_name r) dash) && existsb (str_eqb (rg_name r)) seen) eqn:E1; [discriminate|].
  assert (Hhead : negb (named (rg_name r)) || negb (existsb (str_eqb (rg_name r)) seen) = true).
  { unfold named. destruct (str_eqb (rg_name r) dash); simpl in *; auto. now rewrite E1. }
  assert (Hrest : reg_errors p (rg_name r :: seen) regs = None /\
                  (p = PStd -> dash_tag p (rg_leaf r) || negb (bad_std_name (rg_name r)) = true)).
  { destruct (dash_tag p (rg_leaf r)); [split; auto|].
    destruct p; simpl in *.
    - destruct (bad_std_name (rg_name r)); [discriminate|]. split; auto.
    - split; auto. discriminate. }
  destruct Hrest as [Hrest Hbad]. destruct (IH _ Hrest) as (Hf & Hd & Hs).
  rewrite Hhead. simpl. repeat split.
  - apply forallb_forall. intros x Hx. rewrite forallb_forall in Hf. specialize (Hf x Hx).
    simpl in Hf. destruct (named (rg_name x)); simpl in *; auto.
    apply negb_true_iff in Hf. apply orb_false_iff in Hf as [_ Hf]. now rewrite Hf.
  - destruct (named (rg_name r)) eqn:En; simpl; auto. rewrite Hd, orb_false_r.
    (* no later named flag has this name *)
    clear -Hf. induction regs as [|x regs IHr]; simpl in *; auto.
    apply andb_true_iff in Hf as [Hx Hf]. destruct (named (rg_name x)) eqn:Ex; simpl in *; auto.
    apply negb_true_iff in Hx. apply orb_false_iff in Hx as [Hx _].
    rewrite str_eqb_sym, Hx. simpl. auto.
  - intros Hp. rewrite (Hbad Hp), (Hs Hp). reflexivity.
Qed.

Theorem flag_registration_never_shadows_l p ne te fs tmpl regs :
  flag_regs p ne te fs tmpl = Ok regs ->
  has_dup (filter named (map rg_name regs)) = false /\
  (p = PStd -> forallb (fun r => dash_tag p (rg_leaf r) || negb (bad_std_name (rg_name r))) regs = true).
Proof.
  intros H. apply flag_regs_ok in H as (ls & _ & _ & He).
  destruct (reg_errors_none p regs [] He) as (_ & Hd & Hs). auto.
Qed.
