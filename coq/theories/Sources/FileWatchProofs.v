(* PROOFS about the model of sources/file/file.go (Sources/FileWatch.v).
   Everything is by induction over arbitrary traces (unbounded histories). *)
From Coq Require Import List NArith Bool Lia.
From Dials Require Import Base.Outcome Base.Runes Sources.FileWatch.
Import ListNotations.
Open Scope N_scope.

(* ------------------------------------------------------------------ paths and watch sets *)

Lemma path_eqbP a b : reflect (a = b) (path_eqb a b).
Proof.
  unfold path_eqb. destruct (strs_eqb a b) eqn:E; constructor.
  - apply strs_eqb_eq; exact E.
  - intro H. apply strs_eqb_eq in H. congruence.
Qed.

Lemma path_eqb_refl a : path_eqb a a = true.
Proof. destruct (path_eqbP a a); congruence. Qed.

Lemma path_eqb_sym a b : path_eqb a b = path_eqb b a.
Proof. destruct (path_eqbP a b), (path_eqbP b a); congruence. Qed.

Lemma mem_wadd q p w : mem q (wadd p w) = path_eqb q p || mem q w.
Proof.
  unfold wadd. destruct (mem p w) eqn:E.
  - destruct (path_eqbP q p) as [->|]; simpl; [now rewrite E | reflexivity].
  - reflexivity.
Qed.

Lemma mem_wremove q p w : mem q (wremove p w) = negb (path_eqb q p) && mem q w.
Proof.
  unfold wremove, mem. induction w as [|x w IH]; simpl.
  - now rewrite andb_false_r.
  - destruct (path_eqbP p x) as [->|Hne]; simpl.
    + rewrite IH. destruct (path_eqbP q x); simpl; reflexivity.
    + rewrite IH. destruct (path_eqbP q x) as [->|]; simpl.
      * destruct (path_eqbP x p); [congruence | reflexivity].
      * reflexivity.
Qed.

Lemma mem_singleton (q p : path) : mem q [p] = path_eqb q p.
Proof. unfold mem. cbn. apply orb_false_r. Qed.

Lemma wadd_mem p w : mem p w = true -> wadd p w = w.
Proof. intro H. unfold wadd. now rewrite H. Qed.

Lemma removelast_length {A} (l : list A) : length (removelast l) = Nat.pred (length l).
Proof.
  induction l as [|x [|y l] IH]; [reflexivity|reflexivity|].
  change (removelast (x :: y :: l)) with (x :: removelast (y :: l)).
  cbn [length] in *. rewrite IH. reflexivity.
Qed.

Lemma dir_neq (p : path) : p <> [] -> dir p <> p.
Proof.
  intros Hp H. apply (f_equal (@length _)) in H. unfold dir in H.
  rewrite removelast_length in H. destruct p; [congruence|]. cbn [length] in H. lia.
Qed.

(* ------------------------------------------------------------------ the model, section-wide *)

Local Arguments mem : simpl never.
Local Arguments dir : simpl never.
Local Arguments wadd : simpl never.
Local Arguments wremove : simpl never.
Local Arguments path_eqb : simpl never.

Section Proofs.
Variable decode : content -> option value.
Variable hmac : content -> csum.

Notation source_value := (source_value decode hmac).
Notation read_phase := (read_phase decode hmac).
Notation reload := (reload decode hmac).
Notation step := (step decode hmac).
Notation step_read := (step_read decode hmac).
Notation run := (run decode hmac).
Notation run1 := (run1 decode hmac).
Notation init_state := (init_state hmac).
Notation trace_ok := (trace_ok decode hmac).
Notation notified := (notified decode hmac).
Notation e_notify := (e_notify decode hmac).
Notation after := (after decode hmac).
Notation fs_after := (fs_after decode hmac).
Notation start := (start hmac).

(* --- projections of the two halves of a pass --- *)

Lemma read_proj f st :
  st_csum (read_phase f st) = snd (source_value (st_csum st) (fs_read f)) /\
  st_reports (read_phase f st) = report_of (fst (source_value (st_csum st) (fs_read f))) (st_reports st).
Proof.
  unfold FileWatch.read_phase. destruct (source_value (st_csum st) (fs_read f)) as [vr cs].
  split; reflexivity.
Qed.

Lemma read_pending f st :
  st_pending (read_phase f st) = Some (match fs_read f with NotExist => false | _ => true end).
Proof.
  unfold FileWatch.read_phase, FileWatch.source_value. destruct (fs_read f) as [|c|]; [reflexivity| |reflexivity].
  destruct (decode c); [|reflexivity]. destruct (csum_is (st_csum st) (hmac c)); reflexivity.
Qed.

Lemma read_fields f st :
  st_watching (read_phase f st) = st_watching st /\ st_resolved (read_phase f st) = st_resolved st /\
  st_watches (read_phase f st) = st_watches st /\ st_running (read_phase f st) = true /\
  st_recheck (read_phase f st) = st_recheck st /\ st_exists (read_phase f st) = st_exists st /\
  st_dropped (read_phase f st) = st_dropped st.
Proof.
  unfold FileWatch.read_phase. destruct (source_value (st_csum st) (fs_read f)) as [vr cs].
  repeat split; reflexivity.
Qed.

Lemma cont_phase_proj udw cfg f st :
  st_csum (cont_phase udw cfg f st) = st_csum st /\
  st_reports (cont_phase udw cfg f st) = st_reports st.
Proof.
  unfold cont_phase. destruct (st_pending st) as [[|]|]; [| |split; reflexivity].
  - destruct (st_watching st), (fs_addfile_ok f); split; reflexivity.
  - destruct (fs_linkres f); split; reflexivity.
Qed.

Lemma reload_proj udw cfg f st :
  st_csum (reload udw cfg f st) = snd (source_value (st_csum st) (fs_read f)) /\
  st_reports (reload udw cfg f st) = report_of (fst (source_value (st_csum st) (fs_read f))) (st_reports st).
Proof.
  unfold FileWatch.reload. destruct (cont_phase_proj udw cfg f (read_phase f st)) as [-> ->].
  apply read_proj.
Qed.

Lemma read_reports udw cfg f st : st_reports (read_phase f st) = st_reports (reload udw cfg f st).
Proof. destruct (read_proj f st) as [_ ->]. destruct (reload_proj udw cfg f st) as [_ ->]. reflexivity. Qed.

Lemma cont_phase_running udw cfg f st :
  st_running st = true -> st_running (cont_phase udw cfg f st) = true.
Proof.
  intro R. unfold cont_phase. destruct (st_pending st) as [[|]|]; [| |exact R].
  - destruct (st_watching st), (fs_addfile_ok f); reflexivity.
  - destruct (fs_linkres f); reflexivity.
Qed.

Lemma reload_running udw cfg f st : st_running (reload udw cfg f st) = true.
Proof. unfold FileWatch.reload. apply cont_phase_running. apply read_fields. Qed.

Lemma read_running f st : st_running (read_phase f st) = true.
Proof. apply read_fields. Qed.

Lemma at_select_false_step cfg body f st i :
  at_select st = false -> step_with cfg body f st i = st.
Proof. intro H. unfold step_with. now rewrite H. Qed.

Lemma not_running_at_select st : st_running st = false -> at_select st = false.
Proof. intro H. unfold at_select. now rewrite H. Qed.

Lemma drop_not_running cfg p st : st_running st = false -> drop cfg p st = st.
Proof. intro H. unfold drop. now rewrite H. Qed.

Lemma cont_not_running udw cfg f st : st_running st = false -> cont udw cfg f st = st.
Proof. intro H. unfold cont. now rewrite H. Qed.

Lemma run_app udw cfg t1 t2 x : run udw cfg (t1 ++ t2) x = run udw cfg t2 (run udw cfg t1 x).
Proof. unfold FileWatch.run. apply fold_left_app. Qed.

Lemma run_cons udw cfg it t x : run udw cfg (it :: t) x = run udw cfg t (run1 udw cfg x it).
Proof. reflexivity. Qed.

(* one received input: either the body ran on the state with the token taken,
   or nothing was reported *)
Lemma step_with_cases cfg body f st i :
  (step_with cfg body f st i = body f (take i st) /\ receives cfg st i = true) \/
  (st_reports (step_with cfg body f st i) = st_reports st /\ receives cfg st i = false).
Proof.
  unfold step_with, receives. destruct (at_select st); cbn [negb andb]; [|right; split; reflexivity].
  destruct (stops i); cbn [negb andb]; [right; split; reflexivity|].
  destruct (triggers cfg st i); [left; split; reflexivity | right; split; reflexivity].
Qed.

Lemma take_proj i st :
  st_csum (take i st) = st_csum st /\ st_reports (take i st) = st_reports st /\
  st_watching (take i st) = st_watching st /\ st_resolved (take i st) = st_resolved st /\
  st_watches (take i st) = st_watches st /\ st_running (take i st) = st_running st /\
  st_pending (take i st) = st_pending st /\ st_exists (take i st) = st_exists st /\
  st_dropped (take i st) = st_dropped st.
Proof. destruct i; repeat split; reflexivity. Qed.

(* ------------------------------------------------------------------ 1. the checksum invariant and dedupe *)

Definition J (cs : option csum) (l : list report) : Prop :=
  cs = option_map (fun cv => hmac (fst cv)) (last_value l) /\
  (forall c v, last_value l = Some (c, v) -> decode c = Some v).

Definition JInv (st : lstate) : Prop := J (st_csum st) (st_reports st).

Lemma JInv_ext st st' :
  st_csum st' = st_csum st -> st_reports st' = st_reports st -> JInv st -> JInv st'.
Proof. unfold JInv. intros -> ->. auto. Qed.

Lemma csum_is_spec a k : csum_is a k = true <-> a = Some k.
Proof.
  unfold csum_is. destruct a as [x|]; [|split; discriminate].
  rewrite N.eqb_eq. split; congruence.
Qed.

Lemma J_source_value cs l r :
  J cs l -> J (snd (source_value cs r)) (report_of (fst (source_value cs r)) l).
Proof.
  intros [J1 J2]. unfold FileWatch.source_value. destruct r as [|c|]; [split; assumption| |split; assumption].
  destruct (decode c) as [v|] eqn:D; [|split; assumption].
  destruct (csum_is cs (hmac c)) eqn:K; cbn.
  - apply csum_is_spec in K. split; [rewrite <- J1; now symmetry | exact J2].
  - split; [reflexivity|]. intros c' v' H. inversion H; subst. exact D.
Qed.

Lemma JInv_read f st : JInv st -> JInv (read_phase f st).
Proof.
  intro Jst. unfold JInv. destruct (read_proj f st) as [-> ->]. apply J_source_value. exact Jst.
Qed.

Lemma JInv_reload udw cfg f st : JInv st -> JInv (reload udw cfg f st).
Proof.
  intro Jst. unfold JInv. destruct (reload_proj udw cfg f st) as [-> ->].
  apply J_source_value. exact Jst.
Qed.

Lemma JInv_take i st : JInv st -> JInv (take i st).
Proof. apply JInv_ext; apply take_proj. Qed.

Lemma JInv_step_with cfg body f st i :
  (forall f st, JInv st -> JInv (body f st)) -> JInv st -> JInv (step_with cfg body f st i).
Proof.
  intros Hb Jst. unfold step_with. destruct (negb (at_select st)); [exact Jst|].
  destruct (stops i); [exact Jst|].
  destruct (triggers cfg st i); [apply Hb, JInv_take; exact Jst | exact Jst].
Qed.

Lemma JInv_step udw cfg f st i : JInv st -> JInv (step udw cfg f st i).
Proof. apply JInv_step_with. intros; now apply JInv_reload. Qed.

Lemma JInv_step_read cfg f st i : JInv st -> JInv (step_read cfg f st i).
Proof. apply JInv_step_with. intros; now apply JInv_read. Qed.

Lemma JInv_cont udw cfg f st : JInv st -> JInv (cont udw cfg f st).
Proof.
  intro Jst. unfold cont. destruct (st_running st); [|exact Jst].
  eapply JInv_ext; [apply cont_phase_proj | apply cont_phase_proj | exact Jst].
Qed.

Lemma JInv_drop cfg p st : JInv st -> JInv (drop cfg p st).
Proof. intro Jst. unfold drop. destruct (negb (st_running st)); exact Jst. Qed.

Lemma JInv_run1 udw cfg x it : JInv (snd x) -> JInv (snd (run1 udw cfg x it)).
Proof.
  destruct x as [f st]. cbn [snd]. intro Jst. destruct it; cbn [FileWatch.run1 snd];
    auto using JInv_step, JInv_step_read, JInv_cont, JInv_drop.
Qed.

Lemma JInv_run udw cfg t f st : JInv st -> JInv (snd (run udw cfg t (f, st))).
Proof.
  revert f st. induction t as [|it t IH]; intros f st Jst; [exact Jst|].
  rewrite run_cons. pose proof (JInv_run1 udw cfg (f, st) it Jst) as H.
  destruct (run1 udw cfg (f, st) it) as [f' st']. apply IH. exact H.
Qed.

Lemma JInv_init cfg c0 v0 r0 : decode c0 = Some v0 -> JInv (init_state cfg c0 v0 r0).
Proof.
  intro D. split; [reflexivity|]. cbn. intros c v H. inversion H; subst. exact D.
Qed.

(* reading a decodable content c: the report is suppressed iff c is the
   content of the last reported value; otherwise exactly that value is reported *)
Lemma dedupe_reload udw cfg f st c v :
  (forall a b, hmac a = hmac b -> a = b) ->
  JInv st -> fs_read f = Content c -> decode c = Some v ->
  (st_reports (reload udw cfg f st) = st_reports st <-> view st = Some (c, v)) /\
  (st_reports (reload udw cfg f st) = st_reports st \/
   st_reports (reload udw cfg f st) = RValue c v :: st_reports st).
Proof.
  intros Hinj [J1 J2] E D.
  destruct (reload_proj udw cfg f st) as [_ ->].
  unfold FileWatch.source_value. rewrite E, D.
  destruct (csum_is (st_csum st) (hmac c)) eqn:K; cbn.
  - apply csum_is_spec in K.
    assert (view st = Some (c, v)) as V.
    { unfold view. rewrite J1 in K. destruct (last_value (st_reports st)) as [[c' v']|] eqn:Vw; [|discriminate].
      cbn in K. inversion K as [K']. apply Hinj in K'. subst c'.
      specialize (J2 _ _ eq_refl). congruence. }
    split; [split; [intros _; exact V | reflexivity] | left; reflexivity].
  - assert (view st <> Some (c, v)) as V.
    { unfold view. intro V. rewrite J1, V in K. cbn in K. rewrite N.eqb_refl in K. discriminate. }
    assert (forall l : list report, RValue c v :: l <> l) as Hne.
    { intros l H. apply (f_equal (@length _)) in H. simpl in H. lia. }
    split; [split; [intro H; exfalso; exact (Hne _ H) | intro H; exfalso; exact (V H)] | right; reflexivity].
Qed.

(* ------------------------------------------------------------------ 2. errors are forwarded, not-exist is tolerated *)

Lemma reload_bad udw cfg f st :
  bad_read decode (fs_read f) -> st_reports (reload udw cfg f st) = RError :: st_reports st.
Proof.
  intro B. destruct (reload_proj udw cfg f st) as [_ ->].
  destruct B as [E|(c & E & D)]; unfold FileWatch.source_value; rewrite E; [|rewrite D]; reflexivity.
Qed.

Lemma reload_notexist_reports udw cfg f st :
  fs_read f = NotExist -> st_reports (reload udw cfg f st) = st_reports st.
Proof.
  intro E. destruct (reload_proj udw cfg f st) as [_ ->].
  unfold FileWatch.source_value. rewrite E. reflexivity.
Qed.

(* ------------------------------------------------------------------ 3. the watch-set invariant *)

Definition WInv (cfg : path) (st : lstate) : Prop :=
  path_eqb (dir (st_resolved st)) cfg = false /\
  (st_running st = true ->
   mem (dir cfg) (st_watches st) = true /\
   mem (dir (st_resolved st)) (st_watches st) = true /\
   (st_exists st = true -> st_watching st = true) /\
   (st_watching st = true -> st_dropped st = false -> mem cfg (st_watches st) = true) /\
   (st_watching st = false -> mem cfg (st_watches st) = false)).

Lemma WInv_winv cfg st : WInv cfg st -> winv cfg st = true.
Proof.
  intros [_ H]. unfold winv. destruct (st_running st); [|reflexivity].
  destruct (H eq_refl) as (A & B & C & D & E). cbn. rewrite A, B. cbn.
  destruct (st_exists st), (st_watching st), (st_dropped st); cbn in *;
    try reflexivity; try (specialize (C eq_refl); discriminate);
    try (rewrite D by reflexivity; reflexivity); try (rewrite E by reflexivity; reflexivity).
Qed.

Lemma WInv_ext cfg st st' :
  st_resolved st' = st_resolved st -> st_running st' = st_running st -> st_watches st' = st_watches st ->
  st_exists st' = st_exists st -> st_watching st' = st_watching st -> st_dropped st' = st_dropped st ->
  WInv cfg st -> WInv cfg st'.
Proof. unfold WInv. intros -> -> -> -> -> ->. auto. Qed.

Lemma WInv_read cfg f st : st_running st = true -> WInv cfg st -> WInv cfg (read_phase f st).
Proof.
  intros R. destruct (read_fields f st) as (A & B & C & D & _ & F & G).
  apply WInv_ext; auto. congruence.
Qed.

Lemma WInv_take cfg i st : WInv cfg st -> WInv cfg (take i st).
Proof. apply WInv_ext; apply take_proj. Qed.

Lemma WInv_exists_branch cfg f st :
  cfg <> [] -> fs_ok cfg f = true -> adds_ok f = true -> st_pending st = Some true ->
  WInv cfg st -> st_running st = true ->
  WInv cfg (cont_phase update_dir_watches cfg f st).
Proof.
  intros Hcfg Hok1 Hadd Hp [Hres Hw] Hrun. destruct (Hw Hrun) as (A & B & C & D & E). clear Hw.
  unfold fs_ok in Hok1. apply andb_true_iff in Hok1 as [Hok1 _]. apply andb_true_iff in Hadd as [Ha Hd].
  unfold cont_phase. rewrite Hp, Ha, Hd.
  set (res := match fs_resolved f with Some r => r | None => st_resolved st end).
  assert (path_eqb (dir res) cfg = false) as Hres'.
  { unfold res. destruct (fs_resolved f); [now apply negb_true_iff in Hok1 | exact Hres]. }
  destruct (st_watching st) eqn:Wt; cbn; (split; [exact Hres'|]); intros _;
    unfold update_dir_watches; cbn;
    destruct (path_eqbP (dir (st_resolved st)) (dir res)) as [Heq|Hne].
  - rewrite <- Heq. rewrite (wadd_mem _ _ B). rewrite A, B. repeat split; try discriminate; auto.
  - destruct (path_eqbP (dir (st_resolved st)) (dir cfg)) as [Heq2|Hne2].
    + rewrite !mem_wadd, A, path_eqb_refl. cbn. rewrite orb_true_r.
      repeat split; try discriminate; auto.
      intros _ Hdr. rewrite D by (assumption || reflexivity). apply orb_true_r.
    + rewrite !mem_wremove, !mem_wadd, A, path_eqb_refl. cbn.
      rewrite orb_true_r.
      replace (path_eqb (dir cfg) (dir (st_resolved st))) with false
        by (symmetry; destruct (path_eqbP (dir cfg) (dir (st_resolved st))); congruence).
      replace (path_eqb (dir res) (dir (st_resolved st))) with false
        by (symmetry; destruct (path_eqbP (dir res) (dir (st_resolved st))); congruence).
      cbn. repeat split; try discriminate; auto.
      intros _ Hdr. rewrite D by (assumption || reflexivity). rewrite orb_true_r.
      rewrite path_eqb_sym, Hres. reflexivity.
  - rewrite <- Heq. rewrite !mem_wadd, A, B, ?path_eqb_refl. cbn. rewrite ?orb_true_r.
    repeat split; try discriminate; auto.
  - destruct (path_eqbP (dir (st_resolved st)) (dir cfg)) as [Heq2|Hne2].
    + rewrite !mem_wadd, A, !path_eqb_refl. cbn. rewrite !orb_true_r.
      repeat split; try discriminate; auto.
    + rewrite !mem_wremove, !mem_wadd, A, !path_eqb_refl. cbn. rewrite !orb_true_r.
      replace (path_eqb (dir cfg) (dir (st_resolved st))) with false
        by (symmetry; destruct (path_eqbP (dir cfg) (dir (st_resolved st))); congruence).
      replace (path_eqb (dir res) (dir (st_resolved st))) with false
        by (symmetry; destruct (path_eqbP (dir res) (dir (st_resolved st))); congruence).
      rewrite (path_eqb_sym cfg), Hres. cbn.
      repeat split; try discriminate; auto.
Qed.

Lemma WInv_notexist_link cfg f st r :
  cfg <> [] -> fs_ok cfg f = true -> fs_linkres f = Some r -> fs_adddir_ok f = true ->
  st_pending st = Some false -> WInv cfg st -> st_running st = true ->
  WInv cfg (cont_phase update_dir_watches cfg f st).
Proof.
  intros Hcfg Hok Hl Hd Hp [Hres Hw] Hrun. destruct (Hw Hrun) as (A & B & C & D & E). clear Hw.
  assert (path_eqb cfg (dir cfg) = false) as Hcd.
  { destruct (path_eqbP cfg (dir cfg)) as [H|]; [|reflexivity]. symmetry in H. now apply dir_neq in H. }
  unfold fs_ok in Hok. apply andb_true_iff in Hok as [_ Hok2]. rewrite Hl in Hok2. apply negb_true_iff in Hok2.
  unfold cont_phase. rewrite Hp, Hl, Hd. split; [exact Hok2|]. cbn. intros _.
  set (w0 := if st_watching st then wremove cfg (st_watches st) else st_watches st).
  assert (mem (dir cfg) w0 = true /\ mem (dir (st_resolved st)) w0 = true /\ mem cfg w0 = false) as (A0 & B0 & E0).
  { unfold w0. destruct (st_watching st) eqn:Wt.
    - rewrite !mem_wremove, A, B, path_eqb_refl. rewrite path_eqb_sym, Hcd, Hres. cbn. repeat split; reflexivity.
    - repeat split; auto. }
  unfold update_dir_watches. cbn.
  destruct (path_eqbP (dir (st_resolved st)) (dir r)) as [Heq|Hne].
  - rewrite <- Heq. rewrite (wadd_mem _ _ B0). rewrite A0, B0, E0. repeat split; try discriminate; auto.
  - destruct (path_eqbP (dir (st_resolved st)) (dir cfg)) as [Heq2|Hne2].
    + rewrite !mem_wadd, A0, E0, path_eqb_refl. cbn. rewrite orb_true_r, (path_eqb_sym cfg), Hok2. cbn.
      repeat split; try discriminate; auto.
    + rewrite !mem_wremove, !mem_wadd, A0, E0, path_eqb_refl. cbn. rewrite orb_true_r.
      replace (path_eqb (dir cfg) (dir (st_resolved st))) with false
        by (symmetry; destruct (path_eqbP (dir cfg) (dir (st_resolved st))); congruence).
      replace (path_eqb (dir r) (dir (st_resolved st))) with false
        by (symmetry; destruct (path_eqbP (dir r) (dir (st_resolved st))); congruence).
      rewrite (path_eqb_sym cfg (dir r)), Hok2. cbn. rewrite andb_false_r.
      repeat split; try discriminate; auto.
Qed.

Lemma WInv_cont_phase cfg f st :
  cfg <> [] -> fs_ok cfg f = true ->
  match st_pending st with Some true => adds_ok f | Some false => linkadd_ok f | None => true end = true ->
  WInv cfg st -> st_running st = true ->
  WInv cfg (cont_phase update_dir_watches cfg f st).
Proof.
  intros Hcfg Hok Hadd HW Hrun. destruct (st_pending st) as [[|]|] eqn:Hp.
  - apply WInv_exists_branch; assumption.
  - (* not exist *)
    unfold linkadd_ok in Hadd. destruct (fs_linkres f) as [r|] eqn:Hl.
    + eapply WInv_notexist_link; eauto.
    + destruct HW as [Hres Hw]. destruct (Hw Hrun) as (A & B & C & D & E). clear Hw.
      assert (path_eqb cfg (dir cfg) = false) as Hcd.
      { destruct (path_eqbP cfg (dir cfg)) as [H|]; [|reflexivity]. symmetry in H. now apply dir_neq in H. }
      unfold cont_phase. rewrite Hp, Hl. split; [exact Hres|]. cbn. intros _.
      destruct (st_watching st) eqn:Wt.
      * rewrite !mem_wremove. rewrite A, B. rewrite path_eqb_sym, Hcd, Hres. cbn.
        rewrite path_eqb_refl. cbn. repeat split; try discriminate; reflexivity.
      * rewrite A, B. repeat split; try discriminate. intros _. now apply E.
  - unfold cont_phase. rewrite Hp. exact HW.
Qed.

Lemma WInv_reload cfg f st :
  cfg <> [] -> fs_ok cfg f = true ->
  match fs_read f with NotExist => linkadd_ok f | _ => adds_ok f end = true ->
  WInv cfg st -> st_running st = true ->
  WInv cfg (reload update_dir_watches cfg f st).
Proof.
  intros Hcfg Hok Hadd HW Hrun. unfold FileWatch.reload.
  apply WInv_cont_phase; [assumption|assumption| |now apply WInv_read|apply read_running].
  rewrite read_pending. destruct (fs_read f); assumption.
Qed.

Lemma WInv_stop cfg st : WInv cfg st -> WInv cfg (stop st).
Proof. intros [H _]. split; [exact H|]. cbn. discriminate. Qed.

Lemma at_select_running st : at_select st = true -> st_running st = true.
Proof. unfold at_select. now intros H%andb_true_iff. Qed.

Lemma WInv_step_with cfg body f st i :
  (forall st, st_running st = true -> WInv cfg st -> WInv cfg (body f st)) ->
  WInv cfg st -> WInv cfg (step_with cfg body f st i).
Proof.
  intros Hb HW. unfold step_with.
  destruct (at_select st) eqn:R; cbn [negb]; [|exact HW].
  destruct (stops i); [apply WInv_stop; exact HW|].
  destruct (triggers cfg st i); [|exact HW].
  apply Hb; [|apply WInv_take; exact HW].
  destruct (take_proj i st) as (_ & _ & _ & _ & _ & -> & _). now apply at_select_running.
Qed.

Lemma WInv_cont cfg f st :
  cfg <> [] -> fs_ok cfg f = true ->
  match st_pending st with Some true => adds_ok f | Some false => linkadd_ok f | None => true end = true ->
  WInv cfg st -> WInv cfg (cont update_dir_watches cfg f st).
Proof.
  intros Hcfg Hok Hadd HW. unfold cont. destruct (st_running st) eqn:R; [|exact HW].
  apply WInv_cont_phase; assumption.
Qed.

Lemma WInv_drop cfg p st :
  path_eqb p (dir cfg) = false -> path_eqb p (dir (st_resolved st)) = false ->
  WInv cfg st -> WInv cfg (drop cfg p st).
Proof.
  intros H1 H2 [Hres Hw]. unfold drop.
  destruct (st_running st) eqn:R; cbn [negb]; [|split; [exact Hres | rewrite R; discriminate]].
  destruct (Hw eq_refl) as (A & B & C & D & E).
  split; [exact Hres|]. cbn. intros _.
  rewrite !mem_wremove, A, B. rewrite (path_eqb_sym (dir cfg)), H1, (path_eqb_sym (dir (st_resolved st))), H2. cbn.
  repeat split; try exact C.
  - intros Wt Hd. apply orb_false_iff in Hd as [Hd1 Hd2]. rewrite Wt, andb_true_r in Hd2.
    rewrite path_eqb_sym, Hd2. cbn. now apply D.
  - intro Wt. rewrite (E Wt). apply andb_false_r.
Qed.

Lemma WInv_init cfg c0 v0 r0 :
  cfg <> [] -> path_eqb (dir r0) cfg = false -> WInv cfg (init_state cfg c0 v0 r0).
Proof.
  intros Hcfg Hr. split; [exact Hr|]. cbn. intros _. unfold init_watches.
  destruct (path_eqbP cfg r0) as [<-|Hne].
  - repeat split; try discriminate; intros;
      repeat rewrite mem_wadd; repeat rewrite mem_singleton; repeat rewrite path_eqb_refl;
      cbn; repeat rewrite orb_true_r; reflexivity.
  - repeat split; try discriminate; intros;
      repeat rewrite mem_wadd; repeat rewrite mem_singleton; repeat rewrite path_eqb_refl;
      cbn; repeat rewrite orb_true_r; reflexivity.
Qed.

Lemma fs_ok_init cfg c0 r0 : path_eqb (dir r0) cfg = false -> fs_ok cfg (init_fs cfg c0 r0) = true.
Proof. intro H. unfold fs_ok, init_fs. cbn. destruct (path_eqb cfg r0); cbn; now rewrite H. Qed.

Lemma WInv_run cfg t f st :
  cfg <> [] -> fs_ok cfg f = true -> WInv cfg st ->
  trace_ok update_dir_watches cfg t f st = true ->
  WInv cfg (snd (run update_dir_watches cfg t (f, st))) /\
  fs_ok cfg (fst (run update_dir_watches cfg t (f, st))) = true.
Proof.
  intro Hcfg. revert f st. induction t as [|it t IH]; intros f st Hok HW Ht; [split; assumption|].
  rewrite run_cons. destruct it as [f'|i|i| |p]; cbn [FileWatch.run1]; cbn [FileWatch.trace_ok] in Ht.
  - apply andb_true_iff in Ht as [Hf Ht]. apply IH; assumption.
  - apply andb_true_iff in Ht as [Ha Ht]. apply IH; [assumption | | assumption].
    apply WInv_step_with; [|exact HW]. intros st' R HW'. apply WInv_reload; assumption.
  - apply IH; [assumption | | assumption].
    apply WInv_step_with; [|exact HW]. intros st' R HW'. apply WInv_read; assumption.
  - apply andb_true_iff in Ht as [Ha Ht]. apply IH; [assumption | | assumption].
    apply WInv_cont; assumption.
  - apply andb_true_iff in Ht as [Hp Ht]. apply andb_true_iff in Hp as [Hp1 Hp2].
    apply negb_true_iff in Hp1, Hp2.
    apply IH; [assumption | apply WInv_drop; assumption | assumption].
Qed.

Lemma trace_ok_app udw cfg t1 t2 f st :
  trace_ok udw cfg (t1 ++ t2) f st = true ->
  trace_ok udw cfg t1 f st = true /\
  trace_ok udw cfg t2 (fst (run udw cfg t1 (f, st))) (snd (run udw cfg t1 (f, st))) = true.
Proof.
  revert f st. induction t1 as [|it t1 IH]; intros f st H; [split; [reflexivity | exact H]|].
  rewrite run_cons. destruct it as [f'|i|i| |p]; cbn [app FileWatch.trace_ok FileWatch.run1] in *.
  - apply andb_true_iff in H as [H1 H]. destruct (IH _ _ H) as [I1 I2]. rewrite H1, I1. split; [reflexivity | exact I2].
  - apply andb_true_iff in H as [H1 H]. destruct (IH _ _ H) as [I1 I2]. rewrite H1, I1. split; [reflexivity | exact I2].
  - apply IH; exact H.
  - apply andb_true_iff in H as [H1 H]. destruct (IH _ _ H) as [I1 I2]. rewrite H1, I1. split; [reflexivity | exact I2].
  - apply andb_true_iff in H as [H1 H]. destruct (IH _ _ H) as [I1 I2]. rewrite H1, I1. split; [reflexivity | exact I2].
Qed.

Lemma e_notify_app udw cfg t1 t2 f st :
  e_notify udw cfg (t1 ++ t2) f st = true ->
  e_notify udw cfg t2 (fst (run udw cfg t1 (f, st))) (snd (run udw cfg t1 (f, st))) = true.
Proof.
  revert f st. induction t1 as [|it t1 IH]; intros f st H; [exact H|].
  rewrite run_cons. destruct it as [f'|i|i| |p]; cbn [app FileWatch.e_notify FileWatch.run1] in *;
    try (apply IH; exact H).
  apply andb_true_iff in H as [_ H]. apply IH; exact H.
Qed.

(* ------------------------------------------------------------------ 4. convergence *)

(* st1: the state when the file system reached its final state f *)
Definition Conv (f : fs) (st1 st : lstate) : Prop :=
  match fs_read f with
  | Content c =>
      match decode c with
      | Some v => view st = Some (c, v)
      | None => view st = view st1 /\ last_is_error (st_reports st) = true
      end
  | IOErr => view st = view st1 /\ last_is_error (st_reports st) = true
  | NotExist => st_reports st = st_reports st1
  end.

Definition Pre (f : fs) (st1 st : lstate) : Prop :=
  match fs_read f with
  | Content c => match decode c with Some _ => True | None => view st = view st1 end
  | IOErr => view st = view st1
  | NotExist => st_reports st = st_reports st1
  end.

Lemma Pre_of_Conv f st1 st : Conv f st1 st -> Pre f st1 st.
Proof.
  unfold Conv, Pre. destruct (fs_read f) as [|c|]; [auto| |tauto].
  destruct (decode c); tauto.
Qed.

Lemma Conv_ext f st1 st st' : st_reports st' = st_reports st -> Conv f st1 st -> Conv f st1 st'.
Proof. intros E. unfold Conv, view. rewrite E. auto. Qed.

Lemma Pre_ext f st1 st st' : st_reports st' = st_reports st -> Pre f st1 st -> Pre f st1 st'.
Proof. intros E. unfold Pre, view. rewrite E. auto. Qed.

Lemma drop_reports cfg p st : st_reports (drop cfg p st) = st_reports st.
Proof. unfold drop. destruct (negb (st_running st)); reflexivity. Qed.

Lemma cont_reports udw cfg f st : st_reports (cont udw cfg f st) = st_reports st.
Proof. unfold cont. destruct (st_running st); [apply cont_phase_proj | reflexivity]. Qed.

Section Convergence.
Hypothesis hmac_inj : forall a b, hmac a = hmac b -> a = b.

Lemma Conv_reload udw cfg f st1 st :
  JInv st -> Pre f st1 st -> Conv f st1 (reload udw cfg f st).
Proof.
  intros Jst HP. unfold Conv, Pre in *. destruct (fs_read f) as [|c|] eqn:E.
  - rewrite reload_notexist_reports by exact E. exact HP.
  - destruct (decode c) as [v|] eqn:D.
    + destruct (dedupe_reload udw cfg f st c v hmac_inj Jst E D) as [[H1 _] [H2|H2]].
      * unfold view. rewrite H2. apply H1. exact H2.
      * unfold view. rewrite H2. reflexivity.
    + unfold view. rewrite reload_bad by (right; eauto). cbn. split; [exact HP | reflexivity].
  - unfold view. rewrite reload_bad by (left; exact E). cbn. split; [exact HP | reflexivity].
Qed.

(* a body whose reports are those of a whole pass *)
Definition reports_like_reload (body : fs -> lstate -> lstate) : Prop :=
  forall f st, st_reports (body f st) = st_reports (reload update_dir_watches [] f st).

Lemma Conv_body body f st1 st i :
  reports_like_reload body -> JInv st -> Pre f st1 st -> Conv f st1 (body f (take i st)).
Proof.
  intros Hb Jst HP. eapply Conv_ext; [apply Hb|].
  apply Conv_reload; [apply JInv_take; exact Jst|].
  eapply Pre_ext; [apply take_proj | exact HP].
Qed.

Lemma reload_like udw cfg : reports_like_reload (reload udw cfg).
Proof. intros f st. rewrite <- !(read_reports _ _ f st). reflexivity. Qed.

Lemma read_like : reports_like_reload read_phase.
Proof. intros f st. apply read_reports. Qed.

Lemma conv_run udw cfg f st1 t st :
  forallb (fun it => negb (is_fs it)) t = true -> JInv st ->
  (Conv f st1 st -> Conv f st1 (snd (run udw cfg t (f, st)))) /\
  (Pre f st1 st -> notified udw cfg t f st = true -> Conv f st1 (snd (run udw cfg t (f, st)))).
Proof.
  revert st. induction t as [|it t IH]; intros st Hfs Jst.
  - split; [auto | discriminate].
  - cbn [forallb] in Hfs. apply andb_true_iff in Hfs as [Hit Hfs].
    rewrite run_cons. destruct it as [f'|i|i| |p]; [discriminate| | | |]; cbn [FileWatch.run1 FileWatch.notified].
    + destruct (IH (step udw cfg f st i) Hfs (JInv_step udw cfg f st i Jst)) as [IH1 IH2].
      destruct (step_with_cases cfg (reload udw cfg) f st i) as [[Es R]|[Er Ef]].
      * rewrite R. cbn [orb]. unfold FileWatch.step in *. rewrite Es in *.
        split; intros H; [|intros _]; apply IH1, Conv_body; auto using Pre_of_Conv, reload_like.
      * rewrite Ef. cbn [orb]. split.
        -- intro H. apply IH1. eapply Conv_ext; eauto.
        -- intros H N. apply IH2; [eapply Pre_ext; eauto | exact N].
    + destruct (IH (step_read cfg f st i) Hfs (JInv_step_read cfg f st i Jst)) as [IH1 IH2].
      destruct (step_with_cases cfg read_phase f st i) as [[Es R]|[Er Ef]].
      * rewrite R. cbn [orb]. unfold FileWatch.step_read in *. rewrite Es in *.
        split; intros H; [|intros _]; apply IH1, Conv_body; auto using Pre_of_Conv, read_like.
      * rewrite Ef. cbn [orb]. split.
        -- intro H. apply IH1. eapply Conv_ext; eauto.
        -- intros H N. apply IH2; [eapply Pre_ext; eauto | exact N].
    + destruct (IH (cont udw cfg f st) Hfs (JInv_cont udw cfg f st Jst)) as [IH1 IH2].
      split.
      * intro H. apply IH1. eapply Conv_ext; [apply cont_reports | exact H].
      * intros H N. apply IH2; [eapply Pre_ext; [apply cont_reports | exact H] | exact N].
    + destruct (IH (drop cfg p st) Hfs (JInv_drop cfg p st Jst)) as [IH1 IH2].
      split.
      * intro H. apply IH1. eapply Conv_ext; [apply drop_reports | exact H].
      * intros H N. apply IH2; [eapply Pre_ext; [apply drop_reports | exact H] | exact N].
Qed.

Lemma Pre_refl f st : Pre f st st.
Proof. unfold Pre. destruct (fs_read f) as [|c|]; auto. destruct (decode c); auto. Qed.

Lemma converges_l cfg c0 v0 r0 t1 f t2 :
  decode c0 = Some v0 -> cfg <> [] -> path_eqb (dir r0) cfg = false ->
  forallb (fun it => negb (is_fs it)) t2 = true ->
  trace_ok update_dir_watches cfg (t1 ++ Fs f :: t2) (init_fs cfg c0 r0) (init_state cfg c0 v0 r0) = true ->
  e_notify update_dir_watches cfg (t1 ++ Fs f :: t2) (init_fs cfg c0 r0) (init_state cfg c0 v0 r0) = true ->
  Conv f (snd (run update_dir_watches cfg t1 (init_fs cfg c0 r0, init_state cfg c0 v0 r0)))
         (snd (run update_dir_watches cfg (t1 ++ Fs f :: t2) (init_fs cfg c0 r0, init_state cfg c0 v0 r0))).
Proof.
  intros D Hcfg Hr Hfs Hok Hen.
  set (x0 := (init_fs cfg c0 r0, init_state cfg c0 v0 r0)) in *.
  apply trace_ok_app in Hok as [Hok1 _].
  destruct (WInv_run cfg t1 _ _ Hcfg (fs_ok_init cfg c0 r0 Hr) (WInv_init cfg c0 v0 r0 Hcfg Hr) Hok1) as [HW _].
  apply e_notify_app in Hen. cbn [FileWatch.e_notify] in Hen. apply andb_true_iff in Hen as [Hn _].
  fold x0 in HW, Hn. rewrite (WInv_winv _ _ HW) in Hn. cbn [implb] in Hn.
  rewrite run_app, run_cons.
  destruct (run update_dir_watches cfg t1 x0) as [f1 st1] eqn:E1. cbn [snd FileWatch.run1] in *.
  assert (JInv st1) as J1.
  { replace st1 with (snd (run update_dir_watches cfg t1 x0)) by now rewrite E1.
    apply JInv_run, JInv_init. exact D. }
  destruct (conv_run update_dir_watches cfg f st1 t2 st1 Hfs J1) as [_ H2].
  apply H2; [apply Pre_refl | exact Hn].
Qed.

End Convergence.

(* ------------------------------------------------------------------ 5. exit on cancel *)

Definition QInv (st : lstate) : Prop := st_running st = false -> st_watches st = [].

Lemma QInv_step_with cfg body f st i :
  (forall f st, st_running (body f st) = true) -> QInv st -> QInv (step_with cfg body f st i).
Proof.
  intros Hb Q. unfold step_with. destruct (at_select st) eqn:R; cbn [negb]; [|exact Q].
  destruct (stops i); [intros _; reflexivity|].
  destruct (triggers cfg st i); [|exact Q].
  intro H. rewrite Hb in H. discriminate.
Qed.

Lemma QInv_cont udw cfg f st : QInv st -> QInv (cont udw cfg f st).
Proof.
  intro Q. unfold cont. destruct (st_running st) eqn:R; [|exact Q].
  intro H. rewrite cont_phase_running in H by exact R. discriminate.
Qed.

Lemma QInv_drop cfg p st : QInv st -> QInv (drop cfg p st).
Proof.
  intro Q. unfold drop. destruct (st_running st) eqn:R; cbn [negb]; [cbn; discriminate | exact Q].
Qed.

Lemma QInv_run udw cfg t f st : QInv st -> QInv (snd (run udw cfg t (f, st))).
Proof.
  revert f st. induction t as [|it t IH]; intros f st Q; [exact Q|].
  rewrite run_cons. destruct it; cbn [FileWatch.run1]; apply IH.
  - exact Q.
  - apply QInv_step_with; [intros; apply reload_running | exact Q].
  - apply QInv_step_with; [intros; apply read_running | exact Q].
  - apply QInv_cont; exact Q.
  - apply QInv_drop; exact Q.
Qed.

Lemma run_stopped udw cfg t f st :
  st_running st = false -> snd (run udw cfg t (f, st)) = st.
Proof.
  revert f st. induction t as [|it t IH]; intros f st R; [reflexivity|].
  rewrite run_cons. destruct it; cbn [FileWatch.run1].
  - apply IH; exact R.
  - unfold FileWatch.step. rewrite at_select_false_step by (now apply not_running_at_select). apply IH; exact R.
  - unfold FileWatch.step_read. rewrite at_select_false_step by (now apply not_running_at_select). apply IH; exact R.
  - rewrite cont_not_running by exact R. apply IH; exact R.
  - rewrite drop_not_running by exact R. apply IH; exact R.
Qed.

(* a stop input is received when the loop is at its select, or the loop has
   already returned; a pass in progress finishes first *)
Lemma step_stops udw cfg f st i :
  stops i = true -> st_pending st = None -> st_running (step udw cfg f st i) = false.
Proof.
  intros S P. unfold FileWatch.step, step_with, at_select. rewrite P.
  destruct (st_running st) eqn:R; cbn [negb andb]; [|exact R].
  rewrite S. reflexivity.
Qed.

Lemma loop_exits_l udw cfg c0 v0 r0 t1 i t2 :
  stops i = true ->
  let x0 := (init_fs cfg c0 r0, init_state cfg c0 v0 r0) in
  st_pending (snd (run udw cfg t1 x0)) = None ->
  let st := snd (run udw cfg (t1 ++ In i :: t2) x0) in
  st_running st = false /\ st_watches st = [] /\
  st = snd (run udw cfg (t1 ++ [In i]) x0).
Proof.
  intros S x0 P st. subst st. rewrite !run_app, !run_cons.
  destruct (run udw cfg t1 x0) as [f1 st1] eqn:E1. cbn [FileWatch.run1 FileWatch.run fold_left snd] in *.
  assert (QInv st1) as Q.
  { replace st1 with (snd (run udw cfg t1 x0)) by now rewrite E1. apply QInv_run. intro H; discriminate. }
  pose proof (step_stops udw cfg f1 st1 i S P) as R.
  change (fold_left (run1 udw cfg) t2 (f1, step udw cfg f1 st1 i)) with (run udw cfg t2 (f1, step udw cfg f1 st1 i)).
  rewrite run_stopped by exact R.
  split; [exact R|]. split; [|reflexivity].
  apply (QInv_step_with cfg (reload udw cfg) f1 st1 i); [intros; apply reload_running | exact Q | exact R].
Qed.

(* ------------------------------------------------------------------ 6. identical content: no report at all *)

Lemma identical_content_l udw cfg c v t f st :
  (forall a b, hmac a = hmac b -> a = b) ->
  JInv st -> view st = Some (c, v) -> fs_read f = Content c ->
  forallb (same_content c) t = true ->
  st_reports (snd (run udw cfg t (f, st))) = st_reports st.
Proof.
  intros Hinj. revert f st. induction t as [|it t IH]; intros f st Jst V E H; [reflexivity|].
  cbn [forallb] in H. apply andb_true_iff in H as [Hit H]. rewrite run_cons.
  assert (forall st', st_csum st' = st_csum st -> st_reports st' = st_reports st ->
                        st_reports (reload udw cfg f st') = st_reports st) as Hre.
  { intros st' E1 E2. rewrite <- E2.
    assert (JInv st') as J' by (eapply JInv_ext; eauto).
    destruct Jst as [J1 J2]. pose proof (J2 _ _ V) as D.
    apply (dedupe_reload udw cfg f st' c v Hinj J' E D). unfold view. rewrite E2. exact V. }
  destruct it as [f'|i|i| |p]; cbn [FileWatch.run1].
  - cbn in Hit. destruct (fs_read f') as [|c'|] eqn:E'; try discriminate.
    apply N.eqb_eq in Hit. subst c'. apply IH; assumption.
  - assert (st_reports (step udw cfg f st i) = st_reports st) as R.
    { destruct (step_with_cases cfg (reload udw cfg) f st i) as [[Es _]|[Er _]]; [|exact Er].
      unfold FileWatch.step. rewrite Es. apply Hre; apply take_proj. }
    rewrite <- R. apply IH; auto using JInv_step.
    unfold view. rewrite R. exact V.
  - assert (st_reports (step_read cfg f st i) = st_reports st) as R.
    { destruct (step_with_cases cfg read_phase f st i) as [[Es _]|[Er _]]; [|exact Er].
      unfold FileWatch.step_read. rewrite Es. rewrite (read_reports udw cfg). apply Hre; apply take_proj. }
    rewrite <- R. apply IH; auto using JInv_step_read.
    unfold view. rewrite R. exact V.
  - rewrite <- (cont_reports udw cfg f st). apply IH; auto using JInv_cont.
    unfold view. rewrite cont_reports. exact V.
  - rewrite <- (drop_reports cfg p st). apply IH; auto using JInv_drop.
    unfold view. rewrite drop_reports. exact V.
Qed.

(* ------------------------------------------------------------------ 7. the recheck token *)

(* whenever the second half of a pass adds a watch, a token is left in the
   recheck channel, so the file is read once more with the watch in place *)
Lemma recheck_after_new_watch_l cfg f st p :
  mem (dir (st_resolved st)) (st_watches st) = true ->
  path_eqb (dir (st_resolved st)) cfg = false ->
  mem p (st_watches st) = false ->
  mem p (st_watches (cont_phase update_dir_watches cfg f st)) = true ->
  st_recheck (cont_phase update_dir_watches cfg f st) = true.
Proof.
  intros HB Hres H0. unfold cont_phase. destruct (st_pending st) as [[|]|]; [| |congruence].
  - set (res := match fs_resolved f with Some r => r | None => st_resolved st end).
    unfold update_dir_watches.
    destruct (st_watching st); [|destruct (fs_addfile_ok f)]; cbn;
      destruct (path_eqbP (dir (st_resolved st)) (dir res)) as [Heq|]; cbn;
      try (rewrite <- Heq); destruct (fs_adddir_ok f); cbn;
      rewrite ?(wadd_mem _ _ HB); intro H; try congruence; rewrite ?orb_true_r; try reflexivity.
    (* the file watch was just added and the believed directory refreshed *)
    all: rewrite ?mem_wadd in H; rewrite ?orb_true_r; try reflexivity.
  - set (w0 := if st_watching st then wremove cfg (st_watches st) else st_watches st).
    assert (mem p w0 = false) as H1.
    { unfold w0. destruct (st_watching st); [|exact H0]. rewrite mem_wremove, H0. apply andb_false_r. }
    assert (mem (dir (st_resolved st)) w0 = true) as HB0.
    { unfold w0. destruct (st_watching st); [|exact HB]. rewrite mem_wremove, HB, Hres. reflexivity. }
    destruct (fs_linkres f) as [r|]; cbn; [|fold w0; congruence].
    unfold update_dir_watches. fold w0.
    destruct (path_eqbP (dir (st_resolved st)) (dir r)) as [Heq|]; cbn; intro H.
    + rewrite <- Heq in H. destruct (fs_adddir_ok f); rewrite ?(wadd_mem _ _ HB0) in H; congruence.
    + apply orb_true_r.
Qed.

(* a waiting token is received like any other input and makes the loop re-read *)
Lemma recheck_token_rereads_l udw cfg f st :
  at_select st = true -> st_recheck st = true ->
  step udw cfg f st IRecheck = reload udw cfg f (take IRecheck st) /\
  st_recheck (take IRecheck st) = false /\ receives cfg st IRecheck = true.
Proof.
  intros A R. unfold FileWatch.step, step_with, receives. rewrite A. cbn. rewrite R.
  repeat split; reflexivity.
Qed.

(* ------------------------------------------------------------------ the statements of Properties/C17.v *)

Lemma JInv_after udw cfg c0 v0 r0 t : decode c0 = Some v0 -> JInv (after udw cfg c0 v0 r0 t).
Proof. intro D. apply JInv_run, JInv_init. exact D. Qed.

Lemma dedupe_sound_l udw cfg c0 v0 r0 t f c v :
  (forall a b, hmac a = hmac b -> a = b) -> decode c0 = Some v0 ->
  fs_read f = Content c -> decode c = Some v ->
  let st := after udw cfg c0 v0 r0 t in
  (st_reports (reload udw cfg f st) = st_reports st <-> view st = Some (c, v)) /\
  (st_reports (reload udw cfg f st) = st_reports st \/
   st_reports (reload udw cfg f st) = RValue c v :: st_reports st).
Proof. intros Hinj D. apply dedupe_reload; [exact Hinj | apply JInv_after; exact D]. Qed.

Lemma identical_content_no_new_version_l udw cfg c0 v0 r0 t1 t2 c v :
  (forall a b, hmac a = hmac b -> a = b) -> decode c0 = Some v0 ->
  view (after udw cfg c0 v0 r0 t1) = Some (c, v) ->
  fs_read (fs_after udw cfg c0 v0 r0 t1) = Content c ->
  forallb (same_content c) t2 = true ->
  st_reports (after udw cfg c0 v0 r0 (t1 ++ t2)) = st_reports (after udw cfg c0 v0 r0 t1).
Proof.
  intros Hinj D V E H. pose proof (JInv_after udw cfg c0 v0 r0 t1 D) as Jst.
  unfold FileWatch.after, FileWatch.fs_after in *. rewrite run_app.
  destruct (run udw cfg t1 (start cfg c0 v0 r0)) as [f1 st1]. cbn [fst snd] in *.
  apply (identical_content_l udw cfg c v t2 f1 st1 Hinj); assumption.
Qed.

Lemma errors_forwarded_l udw cfg f st i :
  receives cfg st i = true ->
  (bad_read decode (fs_read f) -> st_reports (step udw cfg f st i) = RError :: st_reports st) /\
  (fs_read f = NotExist -> st_reports (step udw cfg f st i) = st_reports st).
Proof.
  intros R. destruct (step_with_cases cfg (reload udw cfg) f st i) as [[Es _]|[_ Ef]]; [|congruence].
  unfold FileWatch.step. rewrite Es.
  destruct (take_proj i st) as (_ & <- & _).
  split; [apply reload_bad | apply reload_notexist_reports].
Qed.

Lemma loop_exits_on_cancel_l udw cfg c0 v0 r0 t1 i t2 :
  stops i = true -> st_pending (after udw cfg c0 v0 r0 t1) = None ->
  st_running (after udw cfg c0 v0 r0 (t1 ++ In i :: t2)) = false /\
  st_watches (after udw cfg c0 v0 r0 (t1 ++ In i :: t2)) = [] /\
  after udw cfg c0 v0 r0 (t1 ++ In i :: t2) = after udw cfg c0 v0 r0 (t1 ++ [In i]).
Proof. intros S P. exact (loop_exits_l udw cfg c0 v0 r0 t1 i t2 S P). Qed.

Lemma watchset_invariant_l cfg c0 v0 r0 t :
  cfg <> [] -> path_eqb (dir r0) cfg = false ->
  trace_ok update_dir_watches cfg t (init_fs cfg c0 r0) (init_state cfg c0 v0 r0) = true ->
  winv cfg (after update_dir_watches cfg c0 v0 r0 t) = true.
Proof.
  intros Hcfg Hr Hok. apply WInv_winv.
  apply (WInv_run cfg t _ _ Hcfg (fs_ok_init cfg c0 r0 Hr) (WInv_init cfg c0 v0 r0 Hcfg Hr) Hok).
Qed.

Lemma converges_given_notification_l cfg c0 v0 r0 t1 f t2 :
  (forall a b, hmac a = hmac b -> a = b) -> decode c0 = Some v0 ->
  cfg <> [] -> path_eqb (dir r0) cfg = false ->
  forallb (fun it => negb (is_fs it)) t2 = true ->
  trace_ok update_dir_watches cfg (t1 ++ Fs f :: t2) (init_fs cfg c0 r0) (init_state cfg c0 v0 r0) = true ->
  e_notify update_dir_watches cfg (t1 ++ Fs f :: t2) (init_fs cfg c0 r0) (init_state cfg c0 v0 r0) = true ->
  let st1 := after update_dir_watches cfg c0 v0 r0 t1 in
  let st := after update_dir_watches cfg c0 v0 r0 (t1 ++ Fs f :: t2) in
  match fs_read f with
  | Content c =>
      match decode c with
      | Some v => view st = Some (c, v)
      | None => view st = view st1 /\ last_is_error (st_reports st) = true
      end
  | IOErr => view st = view st1 /\ last_is_error (st_reports st) = true
  | NotExist => st_reports st = st_reports st1
  end.
Proof.
  intros Hinj D Hcfg Hr Hfs Hok Hen.
  exact (converges_l Hinj cfg c0 v0 r0 t1 f t2 D Hcfg Hr Hfs Hok Hen).
Qed.

End Proofs.
