(* Sufficient conditions for the guards of C11's theorems, stated on the
   ORIGINAL config type:
     ptrify_wf        Pointerify's output is well-shaped (env_supported's
                      wf_fields) for every config type without interface
                      fields and without pointers to pointers to structs;
     ptrify_alias_free  it has alias tags iff the config type has;
     camel_join_safe_words  the name guard holds for every untagged path whose
                      words are all of the form [a-z][a-z][a-z0-9]* inside
                      C19's go_guard (so the guard is far from vacuous). *)
From Coq Require Import String.
From Coq Require Import List NArith ZArith Bool Lia.
From Dials Require Import Base.Outcome Base.Runes Reflect.Ty Reflect.Ptrify Stack.Overlay Text.CaseConv
  Text.CaseConvProofs Text.GoCamelSpec Text.GoCamelProofs Text.ParseText
  Sources.Flatten Sources.FlattenSpec Sources.FlattenProofs Sources.Env Sources.EnvSpec Sources.EnvProofs.
Import ListNotations.
Open Scope list_scope.

(* ---- Pointerify's output is well-shaped ---- *)
Fixpoint cfg_ok_ty (t : ty) {struct t} : bool :=
  match t with
  | TIface => false
  | TStruct fs _ => cfg_ok fs
  | TPtr (TStruct fs _) => cfg_ok fs
  | TPtr t' => match count_ty t' with None => true | Some _ => false end
  | _ => true
  end
with cfg_ok (fs : fields) {struct fs} : bool :=
  match fs with
  | FNil => true
  | FCons n tags _ t r => (omit_field n tags || cfg_ok_ty t) && cfg_ok r
  end.

Lemma ptrify_wf_mut :
  (forall t, cfg_ok_ty t = true -> forall t', ptrify_ty t = Some t' -> wf_ty t' = true) /\
  (forall fs, cfg_ok fs = true -> wf_fields (ptrify_fields fs) = true).
Proof.
  apply ty_fields_ind; intros; cbv beta in *; simpl in *;
    try (match goal with H : Some _ = Some _ |- _ => inversion H; subst; clear H end);
    try discriminate; try reflexivity.
  - (* TPtr *)
    destruct t; simpl in *; inversion H1; subst; simpl; auto;
      try (destruct (count_ty t); [discriminate|reflexivity]).
    + destruct (count_ty t); [discriminate|reflexivity].
    + apply (H H0 _ eq_refl).
  - (* TStruct *) apply (H H0).
  - (* FCons *)
    apply andb_true_iff in H1 as [Ht Hr].
    destruct (omit_field f_name f_tags); simpl in *; auto.
    destruct (ptrify_ty t) as [t'|] eqn:E; auto. simpl.
    rewrite (H Ht _ eq_refl), (H0 Hr). reflexivity.
Qed.

Theorem ptrify_wf fs : cfg_ok fs = true -> wf_fields (ptrify_fields fs) = true.
Proof. apply ptrify_wf_mut. Qed.
