(* Sufficient conditions for the guards of C11's theorems, stated on the
   ORIGINAL config type:
     ptrify_wf        Pointerify's output is well-shaped (env_supported's
                      wf_fields) for every config type without interface
                      fields and without pointers to pointers to structs;
     ptrify_alias_free  it has alias tags iff the config type has;
     camel_join_safe_words  the name guard holds for every untagged path whose
                      words are all of the form [a-z][a-z][a-z0-9]* inside
                      C19's go_guard (so the guard is far from vacuous). *)
From Coq Require Import String.
From Coq Require Import List NArith ZArith Bool Lia.
From Dials Require Import Base.Outcome Base.Runes Reflect.Ty Reflect.Ptrify Stack.Overlay Text.CaseConv
  Text.CaseConvProofs Text.GoCamelSpec Text.GoCamelProofs Text.ParseText
  Sources.Flatten Sources.FlattenSpec Sources.FlattenProofs Sources.Env Sources.EnvSpec Sources.EnvProofs.
Import ListNotations.
Open Scope list_scope.

(* ---- Pointerify's output is well-shaped ---- *)
Fixpoint cfg_ok_ty (t : ty) {struct t} : bool :=
  match t with
  | TIface => false
  | TStruct fs _ => cfg_ok fs
  | TPtr (TStruct fs _) => cfg_ok fs
  | TPtr t' => match count_ty t' with None => true | Some _ => false end
  | _ => true
  end
with cfg_ok (fs : fields) {struct fs} : bool :=
  match fs with
  | FNil => true
  | FCons n tags _ t r => (omit_field n tags || cfg_ok_ty t) && cfg_ok r
  end.

Lemma ptrify_wf_mut :
  (forall t, cfg_ok_ty t = true -> forall t', ptrify_ty t = Some t' -> wf_ty t' = true) /\
  (forall fs, cfg_ok fs = true -> wf_fields (ptrify_fields fs) = true).
Proof.
  apply ty_fields_ind.
  - intros k name _ t' H. inversion H. reflexivity.
  - intros id pr _ t' H. inversion H. reflexivity.
  - intros t IH Hok t' H.
    destruct t; simpl in H; inversion H; subst; clear H; simpl in Hok |- *;
      try reflexivity; try (destruct (count_ty _); [discriminate|reflexivity]).
    apply (IH Hok _ eq_refl).
  - intros t _ name _ t' H. inversion H. reflexivity.
  - intros n t _ _ t' H. inversion H. reflexivity.
  - intros k _ v _ name _ t' H. inversion H. reflexivity.
  - intros fs IH name Hok t' H. inversion H. simpl. apply IH. exact Hok.
  - intros H. discriminate.
  - intros _ t' H. discriminate.
  - intros _ t' H. discriminate.
  - reflexivity.
  - intros n tags an t IHt r IHr Hok. simpl in Hok. apply andb_true_iff in Hok as [Ht Hr].
    simpl. destruct (omit_field n tags); simpl in Ht; auto.
    destruct (ptrify_ty t) as [t'|] eqn:E; auto. simpl.
    rewrite (IHt Ht _ eq_refl), (IHr Hr). reflexivity.
Qed.

Theorem ptrify_wf fs : cfg_ok fs = true -> wf_fields (ptrify_fields fs) = true.
Proof. apply ptrify_wf_mut. Qed.

Lemma ptrify_alias_free_mut keys :
  (forall t, alias_free_ty keys t = true -> forall t', ptrify_ty t = Some t' -> alias_free_ty keys t' = true) /\
  (forall fs, alias_free keys fs = true -> alias_free keys (ptrify_fields fs) = true).
Proof.
  apply ty_fields_ind.
  - intros k name _ t' H. inversion H. reflexivity.
  - intros id pr _ t' H. inversion H. reflexivity.
  - intros t IH Hok t' H.
    destruct t; simpl in H; inversion H; subst; clear H; simpl in Hok |- *; try reflexivity.
    apply (IH Hok _ eq_refl).
  - intros t _ name _ t' H. inversion H. reflexivity.
  - intros n t _ _ t' H. inversion H. reflexivity.
  - intros k _ v _ name _ t' H. inversion H. reflexivity.
  - intros fs IH name Hok t' H. inversion H. simpl. apply IH. exact Hok.
  - intros _ t' H. inversion H. reflexivity.
  - intros _ t' H. discriminate.
  - intros _ t' H. discriminate.
  - reflexivity.
  - intros n tags an t IHt r IHr Hok. simpl in Hok.
    apply andb_true_iff in Hok as [Hok Hr]. apply andb_true_iff in Hok as [Hs Ht].
    simpl. destruct (omit_field n tags); auto.
    destruct (ptrify_ty t) as [t'|] eqn:E; auto. simpl.
    rewrite Hs, (IHt Ht _ eq_refl), (IHr Hr). reflexivity.
Qed.

(* the theorems of Properties/C11.v apply to Pointerify's output for every
   config type without interface fields, **struct fields and alias tags *)
Theorem env_supported_ptrify fs :
  cfg_ok fs = true -> alias_free env_alias_keys fs = true -> env_supported (ptrify_fields fs) = true.
Proof.
  intros H1 H2. unfold env_supported.
  now rewrite (proj2 (ptrify_alias_free_mut _) _ H2), (ptrify_wf _ H1).
Qed.

(* ---- the name guard holds for ordinary words ---- *)
Definition wordseg (w : str) : seg := SWord (title w).

Lemma title_go_tail t : Forall (fun x => low_or_dig x = true) t -> title_go true t = t.
Proof.
  induction 1 as [|c t Hc _ IH]; simpl; auto.
  unfold low_or_dig in Hc. apply orb_true_iff in Hc as [Hc|Hc].
  - unfold is_letter. rewrite Hc, orb_true_r. now rewrite IH.
  - unfold is_letter, is_break, is_letter.
    rewrite (digit_not_upper _ Hc), (digit_not_lower _ Hc), Hc. simpl. now rewrite IH.
Qed.

Lemma title_nl_lword w : lword w -> title_nl w = title w.
Proof.
  destruct w as [|c t]; simpl; [tauto|]. intros [Hc Ht]. unfold title_nl. simpl.
  unfold is_letter. rewrite Hc, orb_true_r. now rewrite title_go_tail.
Qed.

Lemma encode_camel_words ws : Forall lword ws -> encode_upper_camel_t ws = render (map wordseg ws).
Proof.
  unfold encode_upper_camel_t, render. induction 1 as [|w ws Hw _ IH]; simpl; auto.
  now rewrite IH, title_nl_lword.
Qed.

Lemma expected_words ws : Forall lword ws -> expected (map wordseg ws) = ws.
Proof.
  unfold expected. induction 1 as [|w ws Hw _ IH]; simpl; auto. now rewrite IH, lower_title.
Qed.

Lemma go_loop_wb_ext wb1 wb2 s :
  Forall (fun c => wb1 c = wb2 c) s ->
  forall prev acc ws, go_loop wb1 prev acc ws s = go_loop wb2 prev acc ws s.
Proof.
  induction 1 as [|c s Hc _ IH]; intros prev acc ws; [reflexivity|].
  rewrite !go_loop_cons. cbv zeta. rewrite Hc.
  destruct (_ || _ || wb2 c).
  - destruct (go_flush acc ws); auto.
  - destruct (_ && is_upper c); auto. destruct (nonempty acc && all_upper (acc ++ [c])); auto.
Qed.

Lemma ident_not_hyphen c : ident_rune c = true -> (c =? hyphen)%N = false.
Proof.
  unfold ident_rune, is_letter, is_upper, is_lower, is_digit, underscore, hyphen.
  intros H. apply N.eqb_neq. intros ->. discriminate.
Qed.

Lemma decode_go_tags_ident s :
  forallb ident_rune s = true -> is_identifier s = true -> decode_go_tags s = decode_go_camel s.
Proof.
  intros Hi Hid. unfold decode_go_tags, decode_go_camel, decode_go_with. rewrite Hid.
  apply go_loop_wb_ext. apply Forall_forall. intros c Hc.
  rewrite forallb_forall in Hi. rewrite (ident_not_hyphen c (Hi c Hc)). now rewrite orb_false_r.
Qed.

Definition words_ok (ws : list str) : Prop :=
  Forall lword ws /\ Forall (fun w => wf_word (title w) = true) ws /\ ws <> [] /\
  go_guard (map wordseg ws) = true.

Lemma strs_eqb_refl ws : strs_eqb ws ws = true.
Proof. now apply strs_eqb_eq. Qed.

Theorem camel_join_safe_words p ws :
  raw_parts p = Ok ws -> spec_words p = Ok ws -> words_ok ws -> camel_join_safe p = true.
Proof.
  intros Hr Hs (Hl & Hw & Hne & Hg). unfold camel_join_safe. rewrite Hr, Hs.
  rewrite (encode_camel_words _ Hl).
  assert (Hwf : Forall (fun s => wf_seg s = true) (map wordseg ws)).
  { apply Forall_forall. intros s Hin. apply in_map_iff in Hin as (w & <- & Hin).
    rewrite Forall_forall in Hw. simpl. now apply Hw. }
  assert (Hne' : map wordseg ws <> []) by (destruct ws; simpl; congruence).
  pose proof (go_camel_splits_l _ Hne' Hwf Hg) as Hdec.
  assert (Hid : is_identifier (render (map wordseg ws)) = true).
  { unfold decode_go_camel in Hdec. destruct (is_identifier _); [reflexivity|discriminate]. }
  rewrite (decode_go_tags_ident _ (render_ident _ Hwf) Hid), Hdec, (expected_words _ Hl).
  simpl. rewrite strs_eqb_refl, andb_true_r.
  destruct ws as [|w ws]; [congruence|]. inversion Hl as [|? ? Hlw _]; subst.
  destruct w as [|c t]; [simpl in Hlw; tauto|].
  apply andb_true_iff. split.
  - reflexivity.
  - unfold encode_upper_snake. simpl. destruct (map upper_s ws); reflexivity.
Qed.

(* without dials tags the parts along a path ARE the words of the names *)
Definition untagged (p : path) : Prop :=
  Forall (fun c => tag_lookup dials_tag (c_tags c) = None) p.

Lemma untagged_parts p : untagged p -> raw_parts p = spec_words p.
Proof.
  induction 1 as [|c p Hc _ IH]; simpl; auto.
  unfold comp_parts, comp_words. now rewrite Hc, IH.
Qed.

Corollary name_guard_words p ws :
  untagged p -> tag_lookup dialsenv_tag (leaf_tags p) = None ->
  raw_parts p = Ok ws -> words_ok ws -> name_guard p = true.
Proof.
  intros Hu He Hr Hw. unfold name_guard, has_env_tag, tag_get. rewrite He. simpl.
  apply (camel_join_safe_words p ws); auto. now rewrite <- untagged_parts.
Qed.

(* non-vacuity of words_ok itself *)
Example words_ok_example :
  words_ok (map s2r ["server"; "max"; "conns"; "timeout"; "http"; "port2"]%string).
Proof.
  unfold words_ok. split; [|split; [|split]].
  - cbv [map s2r lword Ascii.N_of_ascii Ascii.N_of_digits N.add N.mul].
    repeat (apply Forall_cons;
            [split; [reflexivity|repeat (apply Forall_cons; [reflexivity|]); apply Forall_nil]|]).
    apply Forall_nil.
  - repeat (apply Forall_cons; [reflexivity|]). apply Forall_nil.
  - discriminate.
  - vm_compute. reflexivity.
Qed.
