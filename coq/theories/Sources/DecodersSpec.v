(* Specification side of the file decoders (property C13): a strict decoder
   over abstract documents directed, per field, by the format-specific tag if
   the field has one and else by its dials tag; durations may be written as
   strings of the duration grammar or as integer nanoseconds in every format;
   a timestamp is read from the format's own way of writing one (TOML: its
   datetime token; the others: a string) by time.Parse(RFC3339);
   an absent key leaves the field as it is. *)
From Coq Require Import String.
From Coq Require Import List NArith ZArith Bool.
From Dials Require Import Base.Outcome Base.Runes Reflect.Ty Stack.Overlay Text.ParseText
  Sources.Flatten Sources.TimeText Sources.Decoders.
Import ListNotations.
Open Scope list_scope.
Open Scope N_scope.

(* specification: a strict decoder directed by the format tag if the field
   has one, else by its dials tag; durations in both forms *)
Definition spec_key (f : format) (n : str) (tags : list (str * str)) : str :=
  match tag_get (fmt_tag f) tags with
  | [] => match tag_get dials_tag tags with [] => n | k => k end
  | k => k
  end.

Definition spec_ty (f : format) : doc -> ty -> outcome val := keyed_decode (lib_native_time f) true (spec_key f).
Definition spec_fields (f : format) : list (str * doc) -> fields -> outcome (list val) :=
  keyed_fields (lib_native_time f) true (spec_key f).

Definition spec_decode (f : format) (d : doc) (pfs : fields) : outcome (list val) :=
  match d with DMap kvs => spec_fields f kvs pfs | _ => Err 43 end.


(* with the set-slice wrapper: sets are read as lists *)
Definition spec_wrapped (f : format) (d : doc) (pfs : fields) : outcome (list val) :=
  omap (unset_fields pfs) (spec_decode f d (setslice_fields pfs)).

(* the types the dials side fully reaches: a struct may sit at a field, behind
   one pointer, or as the element of a slice / array field - not inside map
   values or nested slices (those structs are neither tag-copied nor
   duration-substituted by the transformer: known finding C13/2) *)
Fixpoint scalarish (t : ty) {struct t} : bool :=
  match t with
  | TStruct _ _ => false
  | TPtr t' => scalarish t'
  | TSlice e _ => scalarish e
  | TArray _ e => scalarish e
  | TMap k v _ => scalarish k && scalarish v
  | _ => true
  end.

Fixpoint dec_ok_ty (t : ty) {struct t} : bool :=
  match t with
  | TStruct fs _ => dec_ok fs
  | TPtr (TStruct fs _) => dec_ok fs
  | TSlice (TStruct fs _) _ => dec_ok fs
  | TArray _ (TStruct fs _) => dec_ok fs
  | _ => scalarish t
  end
with dec_ok (fs : fields) {struct fs} : bool :=
  match fs with
  | FNil => true
  | FCons _ _ _ t r => dec_ok_ty t && dec_ok r
  end.

(* no explicitly empty format tag (`json:""`): the copied tag would be
   shadowed by it *)
Definition tag_wf (f : format) (tags : list (str * str)) : bool :=
  match tag_lookup (fmt_tag f) tags with Some [] => false | _ => true end.

Fixpoint tags_wf_ty (f : format) (t : ty) {struct t} : bool :=
  match t with
  | TStruct fs _ => tags_wf f fs
  | TPtr t' => tags_wf_ty f t'
  | TSlice e _ => tags_wf_ty f e
  | TArray _ e => tags_wf_ty f e
  | TMap _ v _ => tags_wf_ty f v
  | _ => true
  end
with tags_wf (f : format) (fs : fields) {struct fs} : bool :=
  match fs with
  | FNil => true
  | FCons _ tags _ t r => tag_wf f tags && tags_wf_ty f t && tags_wf f r
  end.

(* no format-specific tags at all: then the four formats use the same keys *)
Definition no_fmt (tags : list (str * str)) : bool :=
  match tag_lookup json_tag tags, tag_lookup yaml_tag tags, tag_lookup toml_tag tags with
  | None, None, None => true | _, _, _ => false end.

Fixpoint no_fmt_ty (t : ty) {struct t} : bool :=
  match t with
  | TStruct fs _ => no_fmt_fields fs
  | TPtr t' => no_fmt_ty t'
  | TSlice e _ => no_fmt_ty e
  | TArray _ e => no_fmt_ty e
  | TMap _ v _ => no_fmt_ty v
  | _ => true
  end
with no_fmt_fields (fs : fields) {struct fs} : bool :=
  match fs with
  | FNil => true
  | FCons _ tags _ t r => no_fmt tags && no_fmt_ty t && no_fmt_fields r
  end.

(* no time.Time leaf anywhere *)
Fixpoint time_free_ty (t : ty) {struct t} : bool :=
  match t with
  | TTextU id true => negb (str_eqb id time_name)
  | TPtr t' => time_free_ty t'
  | TSlice e _ => time_free_ty e
  | TArray _ e => time_free_ty e
  | TMap _ v _ => time_free_ty v
  | TStruct fs _ => time_free fs
  | _ => true
  end
with time_free (fs : fields) {struct fs} : bool :=
  match fs with
  | FNil => true
  | FCons _ _ _ t r => time_free_ty t && time_free r
  end.

(* the document writes its timestamps as timestamps: no string in it is one *)
Fixpoint no_time_str (d : doc) : bool :=
  match d with
  | DStr s => match rfc3339 s with None => true | Some _ => false end
  | DList l => forallb no_time_str l
  | DMap kvs => forallb (fun kv => no_time_str (snd kv)) kvs
  | _ => true
  end.

(* list view of a field list *)
Fixpoint fields_list (fs : fields) : list (str * list (str * str) * ty) :=
  match fs with
  | FNil => []
  | FCons n tags _ t r => (n, tags, t) :: fields_list r
  end.
