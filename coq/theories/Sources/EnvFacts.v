(* Examples (non-vacuity) and refutation witnesses for property C11. *)
From Coq Require Import String.
From Coq Require Import List NArith ZArith Bool.
From Dials Require Import Base.Outcome Base.Runes Reflect.Ty Reflect.Ptrify Stack.Overlay Text.CaseConv
  Text.ParseText Sources.Flatten Sources.FlattenSpec Sources.Env Sources.EnvSpec.
Import ListNotations.
Open Scope string_scope.
Open Scope list_scope.

Definition S := s2r.
Definition tint (w : N) (n : string) := TBasic (KInt w) (S n).
Definition tstring := TBasic KString (S "string").
Definition tbool := TBasic KBool (S "bool").

(* struct {
     Name   string
     Server struct { Port int16 `dials:"port_num"`; TLS *struct{ Enabled bool }; hidden int }
     Path   string `dialsenv:"configpath"`
     Skip   int    `dials:"-"`
     Common struct { LogLevel uint8 }   (embedded)
   } *)
Definition ex_fs : fields :=
  FCons (S "Name") [] false tstring
 (FCons (S "Server") [] false
    (TStruct (FCons (S "Port") [(S "dials", S "port_num")] false (tint 16 "int16")
             (FCons (S "TLS") [] false (TPtr (TStruct (FCons (S "Enabled") [] false tbool FNil) []))
             (FCons (S "hidden") [] false (tint 0 "int") FNil))) [])
 (FCons (S "Path") [(S "dialsenv", S "configpath")] false tstring
 (FCons (S "Skip") [(S "dials", S "-")] false (tint 0 "int")
 (FCons (S "Common") [] true
    (TStruct (FCons (S "LogLevel") [] false (TBasic (KUint 8) (S "uint8")) FNil) []) FNil)))).

Definition ex_pfs := ptrify_fields ex_fs.

Example ex_supported : env_supported ex_pfs = true.
Proof. vm_compute. reflexivity. Qed.

Example ex_guards : forallb (fun pt => name_guard (fst pt)) (paths ex_pfs) = true.
Proof. vm_compute. reflexivity. Qed.

Example ex_plan_vars :
  omap (map snd) (env_plan (S "APP") ex_pfs) =
  Ok [S "APP_NAME"; S "APP_SERVER_PORT_NUM"; S "APP_SERVER_TLS_ENABLED"; S "APP_configpath"; S "APP_LOG_LEVEL"].
Proof. vm_compute. reflexivity. Qed.

(* two variables present, decoys around them; the TLS struct is not allocated *)
Example ex_value :
  env_value (S "APP") ex_pfs
    [(S "APP_SERVER_PORT_NUM", S "0x1F90"); (S "APP_LOG_LEVEL", S "7");
     (S "SERVER_PORT_NUM", S "1"); (S "APP_SERVER_PORT", S "2"); (S "APP_NAME_X", S "decoy");
     (S "APPNAME", S "decoy"); (S "app_name", S "decoy")] =
  Ok [VNil; VPtr (VStruct [VPtr (VInt 8080); VNil]); VNil; VPtr (VStruct [VPtr (VInt 7)])].
Proof. vm_compute. reflexivity. Qed.

Example ex_value_nested_ptr :
  env_value [] ex_pfs [(S "SERVER_TLS_ENABLED", S "T"); (S "configpath", S "")] =
  Ok [VNil; VPtr (VStruct [VNil; VPtr (VStruct [VPtr (VBool true)])]); VPtr (VStr []); VNil].
Proof. vm_compute. reflexivity. Qed.

(* out of range for int16 / uint8, malformed: errors, never a truncated value *)
Example ex_overflow : class_of (env_value [] ex_pfs [(S "SERVER_PORT_NUM", S "32768")]) = CErr.
Proof. vm_compute. reflexivity. Qed.
Example ex_overflow_u8 : class_of (env_value [] ex_pfs [(S "LOG_LEVEL", S "256")]) = CErr.
Proof. vm_compute. reflexivity. Qed.
Example ex_malformed : class_of (env_value [] ex_pfs [(S "SERVER_TLS_ENABLED", S "yes")]) = CErr.
Proof. vm_compute. reflexivity. Qed.
Example ex_empty_int : class_of (env_value [] ex_pfs [(S "LOG_LEVEL", S "")]) = CErr.
Proof. vm_compute. reflexivity. Qed.

(* ---- the guard of env_name_spec is not vacuous (DESIGN finding 8) ---- *)
(* struct { A struct { B int; C int `dials:"c_tag"` } } *)
Definition ref_fs : fields :=
  FCons (S "A") [] false
    (TStruct (FCons (S "B") [] false (tint 0 "int")
             (FCons (S "C") [(S "dials", S "c_tag")] false (tint 0 "int") FNil)) []) FNil.
Definition ref_pfs := ptrify_fields ref_fs.

Lemma env_name_refuted_l :
  env_supported ref_pfs = true /\
  omap (map snd) (env_plan [] ref_pfs) = Ok [S "AB"; S "AC_TAG"] /\
  map (fun pt => spec_var [] (fst pt)) (paths ref_pfs) = [Ok (S "A_B"); Ok (S "A_C_TAG")] /\
  map (fun pt => camel_join_safe (fst pt)) (paths ref_pfs) = [false; false].
Proof. vm_compute. repeat split; reflexivity. Qed.

(* the documented variable is ignored, the fused one is read *)
Example ref_reads_fused :
  env_value [] ref_pfs [(S "A_B", S "1"); (S "AB", S "2")] = Ok [VPtr (VStruct [VPtr (VInt 2); VNil])].
Proof. vm_compute. reflexivity. Qed.

(* an embedded field shadowed by an outer field of the same name: the two
   flattened fields have one Go name - an error (TranslateType reports it since
   the repository fix; reflect.StructOf panicked before: former class C11/4) *)
Definition dup_pfs := ptrify_fields
  (FCons (S "Base") [] true (TStruct (FCons (S "Port") [] false (tint 0 "int") FNil) [])
  (FCons (S "Port") [] false (tint 0 "int") FNil)).
Example dup_is_error : class_of (env_value [] dup_pfs []) = CErr.
Proof. vm_compute. reflexivity. Qed.

(* a tag made of separators only names no variable: an error (the pinned code
   panicked with "empty dialsenv tag"); a separator-only tag on an inner level
   or next to real words is harmless *)
Definition sep_pfs := ptrify_fields (FCons (S "X") [(S "dials", S "_")] false (tint 0 "int") FNil).
Example sep_only_tag_is_error : env_value [] sep_pfs [(S "X", S "1")] = Err 5.
Proof. vm_compute. reflexivity. Qed.
Example sep_edges_are_harmless :
  omap (map snd) (env_plan (S "P")
     (ptrify_fields (FCons (S "A") [(S "dials", S "--")] false
                       (TStruct (FCons (S "B") [(S "dials", S "-x_")] false (tint 0 "int") FNil) []) FNil))) =
  Ok [S "P_X"].
Proof. vm_compute. reflexivity. Qed.
