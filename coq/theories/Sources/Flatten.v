(* The part of the mangler chain shared by the environment and the two flag
   sources, at the level the sources use it (definitions only):

     transform/alias_mangler.go     Mangle (duplicate a field that carries a
                                    `<tag>alias` tag), Unmangle (either / both
                                    is an error), applied recursively to
                                    struct and *struct fields (ShouldRecurse)
     transform/flatten_mangler.go   Mangle/flattenStruct/getTag (one output
                                    field per leaf, depth first; name and tag
                                    derivation along the path), Unmangle/
                                    populateStruct (same depth-first order,
                                    a parent is allocated only if a child is set)
     cases.Title(English, NoLower)  as used by EncodeUpperCamelCase on tag
                                    strings (ASCII; validated for the charset
                                    [A-Za-z0-9_-] and space)

   Inputs are POINTERIFIED field lists (what a source receives).  The
   per-field bookkeeping of transform.Transformer (offsets, mState) is the
   subject of property C10 and is not repeated here: leaves are kept in one
   list in depth-first order.

   Outcome codes.  Err: 3 field name is not a Go identifier (DecodeGoCamelCase),
   10 top-level field is not nil-able ("expected pointerized fields"), 20 both
   alias and original set.  Panic: 2 index out of range, 3 reflect.Set of a
   non-assignable value. *)
From Coq Require Import String.
From Coq Require Import List NArith ZArith Bool.
From Dials Require Import Base.Outcome Base.Runes Reflect.Ty Stack.Overlay Text.CaseConv.
Import ListNotations.
Open Scope list_scope.
Open Scope N_scope.

(* ---- struct tags as association lists ---- *)
Definition tag_get (k : str) (tags : list (str * str)) : str :=
  match tag_lookup k tags with Some v => v | None => [] end.

(* structtag.Tags.Set: replace in place, else append *)
Fixpoint tag_set (k v : str) (tags : list (str * str)) : list (str * str) :=
  match tags with
  | [] => [(k, v)]
  | (k', v') :: r => if str_eqb k k' then (k, v) :: r else (k', v') :: tag_set k v r
  end.

Fixpoint tag_del (k : str) (tags : list (str * str)) : list (str * str) :=
  match tags with
  | [] => []
  | (k', v') :: r => if str_eqb k k' then tag_del k r else (k', v') :: tag_del k r
  end.

Definition fieldpath_tag : str := s2r "dialsfieldpath"%string.
Definition comma : rune := 44.

(* ---- cases.Title(language.English, cases.NoLower).String ----
   The first letter of every word is upper-cased, nothing is lower-cased.  A
   word ends at a break character; letters, digits and '_' do not break. *)
Definition is_break (c : rune) : bool := negb (is_letter c || is_digit c || (c =? underscore)).

Fixpoint title_go (mid : bool) (s : str) : str :=
  match s with
  | [] => []
  | c :: r =>
      if is_letter c then (if mid then c else to_upper c) :: title_go true r
      else c :: title_go (if is_break c then false else mid) r
  end.
Definition title_nl : str -> str := title_go false.

(* EncodeUpperCamelCase on arbitrary components (tags included) *)
Definition encode_upper_camel_t (ws : list str) : str := concat (map title_nl ws).

(* ---- alias mangler ---- *)
Definition alias_suffix : str := s2r "_alias9wr876rw3"%string.
Definition alias_key (tag : str) : str := tag ++ s2r "alias"%string.

Fixpoint alias_found (keys : list str) (tags : list (str * str)) : list (str * str) :=
  match keys with
  | [] => []
  | k :: r => match tag_lookup (alias_key k) tags with
              | Some a => (k, a) :: alias_found r tags
              | None => alias_found r tags
              end
  end.

(* None: no alias tag, the field is passed through.  Some (o, a): tags of the
   original and of the alias field (the amended dialsdesc help text of the
   alias field is not modelled: it is not observable in the source's value). *)
Definition alias_split (keys : list str) (tags : list (str * str))
  : option (list (str * str) * list (str * str)) :=
  match alias_found keys tags with
  | [] => None
  | found =>
      let stripped := fold_left (fun tg k => tag_del (alias_key k) tg) keys tags in
      let aliased := fold_left (fun tg ka => tag_set (fst ka) (snd ka) tg) found stripped in
      (* every key after the first (the source-specific tags) that has no alias
         of its own is dropped from the ALIAS COPY, so that the copy does not
         share the original's name in that source (repository fix e1b17e1) *)
      Some (stripped,
            fold_left (fun tg k => if existsb (fun ka => str_eqb (fst ka) k) found then tg else tag_del k tg)
                      (tl keys) aliased)
  end.

(* recursion of the transformer into struct / *struct fields ([]struct and
   [N]struct elements are transformed too by the code, but they are opaque
   leaves for these sources and their element type is not observable) *)
Fixpoint alias_ty (keys : list str) (t : ty) {struct t} : ty :=
  match t with
  | TPtr (TStruct fs n) => TPtr (TStruct (alias_fields keys fs) n)
  | TStruct fs n => TStruct (alias_fields keys fs) n
  | _ => t
  end
with alias_fields (keys : list str) (fs : fields) {struct fs} : fields :=
  match fs with
  | FNil => FNil
  | FCons n tags an t r =>
      let t' := alias_ty keys t in
      match alias_split keys tags with
      | None => FCons n tags an t' (alias_fields keys r)
      | Some (o, a) => FCons n o an t' (FCons (n ++ alias_suffix) a an t' (alias_fields keys r))
      end
  end.

(* AliasMangler.Unmangle after the recursive inverse transformation of the
   field values; `fs` is the ORIGINAL field list, `vs` the values of the
   aliased struct *)
Fixpoint unalias_ty (keys : list str) (t : ty) (v : val) {struct t} : outcome val :=
  match t, v with
  | TPtr (TStruct fs _), VPtr (VStruct vs) => r <- unalias_fields keys fs vs ;; Ok (VPtr (VStruct r))
  | TStruct fs _, VStruct vs => r <- unalias_fields keys fs vs ;; Ok (VStruct r)
  | _, _ => Ok v
  end
with unalias_fields (keys : list str) (fs : fields) (vs : list val) {struct fs} : outcome (list val) :=
  match fs with
  | FNil => Ok []
  | FCons n tags an t r =>
      match alias_split keys tags with
      | None =>
          match vs with
          | v :: vs' => v' <- unalias_ty keys t v ;; r' <- unalias_fields keys r vs' ;; Ok (v' :: r')
          | [] => Panic 2
          end
      | Some _ =>
          match vs with
          | v1 :: v2 :: vs' =>
              a <- unalias_ty keys t v1 ;;
              b <- unalias_ty keys t v2 ;;
              if negb (is_vnil a) && negb (is_vnil b) then Err 20
              else r' <- unalias_fields keys r vs' ;; Ok ((if is_vnil a then b else a) :: r')
          | _ => Panic 2
          end
      end
  end.

(* ---- flatten mangler ---- *)
Record flat_cfg := mkFlatCfg {
  fc_name_enc : list str -> str;     (* nameEncodeCasing *)
  fc_tag_enc : list str -> str       (* tagEncodeCasing *)
}.

Record leaf := mkLeaf {
  lf_name : str;                     (* Go name of the flattened field *)
  lf_tags : list (str * str);        (* its struct tag after getTag *)
  lf_ty : ty;                        (* its (pointerified) type *)
  lf_path : list str                 (* dialsfieldpath *)
}.

(* FlattenMangler.getTag *)
Definition get_tag (cfg : flat_cfg) (n : str) (tags : list (str * str)) (an : bool)
    (tagp path : list str) : outcome (list (str * str) * list str) :=
  tagp' <- match tag_lookup dials_tag tags with
           | Some t => Ok (tagp ++ [t])
           | None => if an then Ok tagp else ws <- decode_go_camel n ;; Ok (tagp ++ ws)
           end ;;
  Ok (tag_set fieldpath_tag (join comma path) (tag_set dials_tag (fc_tag_enc cfg tagp') tags), tagp').

Definition top_kind_ok (t : ty) : bool :=
  match t with TPtr _ | TMap _ _ _ | TSlice _ _ | TIface => true | _ => false end.

(* Mangle (top = true) and flattenStruct (top = false).  flat_ty strips
   pointers (getUnderlyingKindType) and answers None for a non-struct. *)
Fixpoint flat_ty (cfg : flat_cfg) (t : ty) (names tagp path : list str) {struct t}
  : option (outcome (list leaf)) :=
  match t with
  | TPtr t' => flat_ty cfg t' names tagp path
  | TStruct fs _ => Some (flat_fields cfg fs false names tagp path)
  | _ => None
  end
with flat_fields (cfg : flat_cfg) (fs : fields) (top : bool) (names tagp path : list str) {struct fs}
  : outcome (list leaf) :=
  match fs with
  | FNil => Ok []
  | FCons n tags an t r =>
      if top && negb (top_kind_ok t) then Err 10 else
      let names' := if an then names else names ++ [n] in
      let path' := path ++ [n] in
      tt <- get_tag cfg n tags an tagp path' ;;
      here <- match flat_ty cfg t names' (snd tt) path' with
              | Some o => o
              | None => Ok [mkLeaf (fc_name_enc cfg (if top then [n] else names')) (fst tt) t path']
              end ;;
      rest <- flat_fields cfg r top names tagp path ;;
      Ok (here ++ rest)
  end.

Definition flatten (cfg : flat_cfg) (fs : fields) : outcome (list leaf) :=
  flat_fields cfg fs true [] [] [].

(* reflect.StructOf panics on duplicate field names *)
Fixpoint has_dup (l : list str) : bool :=
  match l with
  | [] => false
  | x :: r => existsb (str_eqb x) r || has_dup r
  end.

(* populateStruct: consumes the leaf values in the same depth-first order.
   Result: field values, unconsumed values, "any child set". *)
Definition wrap_struct (t : ty) (v : val) : outcome val :=
  match t with TPtr (TStruct _ _) => Ok (VPtr v) | _ => Panic 3 end.

Fixpoint pop_ty (t : ty) (vs : list val) {struct t} : option (outcome (list val * list val * bool)) :=
  match t with
  | TPtr t' => pop_ty t' vs
  | TStruct fs _ => Some (pop_fields fs vs)
  | _ => None
  end
with pop_fields (fs : fields) (vs : list val) {struct fs} : outcome (list val * list val * bool) :=
  match fs with
  | FNil => Ok ([], vs, false)
  | FCons n tags an t r =>
      x <- match pop_ty t vs with
           | Some o =>
               r1 <- o ;;
               if snd r1 then v <- wrap_struct t (VStruct (fst (fst r1))) ;; Ok (v, snd (fst r1), true)
               else Ok (zero t, snd (fst r1), false)
           | None =>
               match vs with
               | v :: rest => Ok (v, rest, negb (is_vnil v))
               | [] => Panic 2
               end
           end ;;
      y <- pop_fields r (snd (fst x)) ;;
      Ok (fst (fst x) :: fst (fst y), snd (fst y), snd x || snd y)
  end.

(* all leaf values must be consumed (Unmangle's final count check is per
   top-level field in the code; see C10 for the partition) *)
Definition populate (fs : fields) (vs : list val) : outcome (list val) :=
  r <- pop_fields fs vs ;;
  match snd (fst r) with [] => Ok (fst (fst r)) | _ => Err 11 end.

(* transform.GetField on a template value: follow the path, the zero value
   of the leaf's concrete type when an intermediate pointer is nil *)
Fixpoint strip_ptr_ty (t : ty) : ty := match t with TPtr t' => strip_ptr_ty t' | _ => t end.
Fixpoint strip_ptr_val (v : val) : option val :=
  match v with VNil => None | VPtr v' => strip_ptr_val v' | _ => Some v end.
