(* Model of the dials side of the four file decoders (definitions only):
     decoders/json/json.go   Duration -> jsontypes.ParsingDuration substitution,
                             tag copy dials -> json, encoding/json, reverse
     decoders/cue/cue.go     the same chain (tag json), cue Value.Decode
     decoders/yaml/yaml.go   tag copy dials -> yaml, yaml.v2 (FlattenAnonymous off)
     decoders/toml/toml.go   tag copy dials -> toml, go-toml
   tagformat/expand_tags.go  TagCopyingMangler: an existing format tag wins
   transform/single_type_substitution_mangler.go   subType through pointer,
                             slice, array, map; recursion into struct fields by
                             the transformer (ShouldRecurse)
   jsontypes/jsonduration.go ParsingDuration: a string in the duration grammar
                             or an integer number of nanoseconds

   The third-party decoders are ONE defined function over abstract documents,
   generic_decode: a strict, tag-directed decoder.  That encoding/json,
   yaml.v2, go-toml and cue behave like it on the generated input class is
   assumed and sampled by the correspondence check, not proved.  Its
   parameter `nd` (native duration) says whether the library itself reads a
   duration string into a time.Duration field (yaml.v2, go-toml: yes;
   encoding/json, cue: no - which is why dials substitutes the type); `nt`
   (native time) whether the format has a datetime token of its own from which
   - and only from which - a time.Time field is read (go-toml).

   Values: the reverse translation (Convert ParsingDuration -> Duration, struct
   conversion ignoring tags) is the identity on tree values.

   Err codes: 40 kind mismatch, 41 integer out of range for the field,
   42 duration string into a plain time.Duration (library cannot), 1/2 from the
   duration grammar, 43 document is not a mapping at struct position, 44 not a
   timestamp (Sources/TimeText.v). *)
From Coq Require Import String.
From Coq Require Import List NArith ZArith Bool.
From Dials Require Import Base.Outcome Base.Runes Reflect.Ty Stack.Overlay Text.ParseText Sources.Flatten Sources.TimeText.
Import ListNotations.
Open Scope list_scope.
Open Scope N_scope.

(* abstract documents: scalars, lists, string-keyed maps.  DTime is a
   timestamp written the way the format writes timestamps: TOML has a datetime
   token of its own, the other three syntaxes write a string (so their texts
   never abstract to a DTime node; a generated DTime is rendered as a string) *)
Inductive doc :=
| DBool (b : bool)
| DInt (z : Z)
| DStr (s : str)
| DTime (s : str)
| DBytes (s : str)      (* a Cue bytes literal 'abc' (only Cue texts abstract to it): text for a TextUnmarshaler, ill-typed elsewhere *)
| DList (l : list doc)
| DMap (kvs : list (str * doc)).

Fixpoint doc_lookup (k : str) (kvs : list (str * doc)) : option doc :=
  match kvs with
  | [] => None
  | (k', d) :: r => if str_eqb k k' then Some d else doc_lookup k r
  end.

Definition json_tag : str := s2r "json"%string.
Definition yaml_tag : str := s2r "yaml"%string.
Definition toml_tag : str := s2r "toml"%string.
Definition parsing_duration_name : str := s2r "jsontypes.ParsingDuration"%string.

(* the key a library uses for a field: its format tag; without one the
   libraries fall back to (a variant of) the field name - outside the
   property, which is about fields carrying dials tags *)
Definition field_key (keytag : str) (n : str) (tags : list (str * str)) : str :=
  match tag_get keytag tags with [] => n | k => k end.

Definition decode_int (w : N) (z : Z) : outcome val :=
  if in_int_range w z then Ok (VInt z) else Err 41.
Definition decode_uint (w : N) (z : Z) : outcome val :=
  if (0 <=? z)%Z && in_uint_range w (Z.to_N z) then Ok (VInt z) else Err 41.

Definition decode_basic (native_dur : bool) (k : kind) (name : str) (d : doc) : outcome val :=
  if str_eqb name parsing_duration_name || (str_eqb name duration_name && native_dur) then
    match d with
    | DStr s => omap VInt (parse_duration s)
    | DInt z => decode_int 64 z
    | _ => Err 40
    end
  else if str_eqb name duration_name then
    match d with
    | DInt z => decode_int 64 z
    | DStr _ => Err 42
    | _ => Err 40
    end
  else
    match k, d with
    | KBool, DBool b => Ok (VBool b)
    | KString, DStr s => Ok (VStr s)
    | KInt w, DInt z => decode_int w z
    | KUint w, DInt z => decode_uint w z
    | _, _ => Err 40
    end.

(* maps are returned sorted by key, as the harness prints them *)
Fixpoint str_ltb (a b : str) : bool :=
  match a, b with
  | [], [] => false
  | [], _ :: _ => true
  | _ :: _, [] => false
  | x :: a', y :: b' => if x <? y then true else if y <? x then false else str_ltb a' b'
  end.

Fixpoint kv_ins (k : str) (v : val) (l : list (val * val)) : list (val * val) :=
  match l with
  | [] => [(VStr k, v)]
  | (VStr k', v') :: r =>
      if str_eqb k k' then (VStr k, v) :: r                (* a repeated key: the later value *)
      else if str_ltb k k' then (VStr k, v) :: l
      else (VStr k', v') :: kv_ins k v r
  | x :: r => x :: kv_ins k v r
  end.

(* a time.Time leaf: from the format's datetime token where it has one
   (nt, go-toml: "Can't convert ...(string) to time.Time"), else from a string *)
Definition decode_time (nt : bool) (d : doc) : outcome val :=
  match d with
  | DTime s => time_value s
  | DStr s => if nt then Err e_time else time_value s    (* a string is not a timestamp there *)
  | _ => Err 40
  end.

(* the decoder, parametrised by how a field's key is found from its name and
   tags; a library uses the key function `field_key keytag` *)
Fixpoint keyed_decode (nt nd : bool) (key : str -> list (str * str) -> str) (d : doc) (t : ty) {struct t}
  : outcome val :=
  match t with
  | TBasic k name => decode_basic nd k name d
  | TTextU id true =>
      if str_eqb id time_name then decode_time nt d
      else                                   (* the palette's pointer-receiver TextUnmarshaler stores the text *)
      match d with DStr s | DBytes s => Ok (VText s) | _ => Err 40 end
  | TPtr t' => omap VPtr (keyed_decode nt nd key d t')
  | TSlice e n =>
      if netip e n then                      (* net.IP: a TextUnmarshaler whose kind is slice *)
        match d with DStr s | DBytes s => parse_ip s | _ => Err 40 end
      else
      match d with
      | DList l =>
          omap VList ((fix go (l : list doc) : outcome (list val) :=
                         match l with
                         | [] => Ok []
                         | x :: r => v <- keyed_decode nt nd key x e ;; vs <- go r ;; Ok (v :: vs)
                         end) l)
      | _ => Err 40
      end
  | TMap (TBasic KString _) e _ =>
      match d with
      | DMap kvs =>
          omap VMap ((fix go (l : list (str * doc)) : outcome (list (val * val)) :=
                        match l with
                        | [] => Ok []
                        | (k, x) :: r => v <- keyed_decode nt nd key x e ;; m <- go r ;; Ok (kv_ins k v m)
                        end) (rev kvs))
      | _ => Err 40
      end
  | TStruct fs _ =>
      match d with
      | DMap kvs => omap VStruct (keyed_fields nt nd key kvs fs)
      | _ => Err 43
      end
  | _ => Err e_unmodelled
  end
with keyed_fields (nt nd : bool) (key : str -> list (str * str) -> str) (kvs : list (str * doc)) (fs : fields)
    {struct fs} : outcome (list val) :=
  match fs with
  | FNil => Ok []
  | FCons n tags _ t r =>
      v <- match doc_lookup (key n tags) kvs with
           | Some d => keyed_decode nt nd key d t
           | None => Ok (zero t)                     (* absent key: the field is left as it is *)
           end ;;
      vs <- keyed_fields nt nd key kvs r ;;
      Ok (v :: vs)
  end.

Definition generic_decode (nt nd : bool) (keytag : str) : doc -> ty -> outcome val :=
  keyed_decode nt nd (field_key keytag).
Definition generic_fields (nt nd : bool) (keytag : str) : list (str * doc) -> fields -> outcome (list val) :=
  keyed_fields nt nd (field_key keytag).

(* ---- TagCopyingMangler (recursively through struct, *struct, []struct, [N]struct) ---- *)
Definition copy_tag (src new : str) (tags : list (str * str)) : list (str * str) :=
  match tag_get src tags with
  | [] => tags
  | v => match tag_get new tags with [] => tags ++ [(new, v)] | _ => tags end
  end.

Fixpoint tagcopy_ty (src new : str) (t : ty) {struct t} : ty :=
  match t with
  | TStruct fs n => TStruct (tagcopy_fields src new fs) n
  | TPtr (TStruct fs n) => TPtr (TStruct (tagcopy_fields src new fs) n)
  | TSlice (TStruct fs n) m => TSlice (TStruct (tagcopy_fields src new fs) n) m
  | TArray k (TStruct fs n) => TArray k (TStruct (tagcopy_fields src new fs) n)
  | _ => t
  end
with tagcopy_fields (src new : str) (fs : fields) {struct fs} : fields :=
  match fs with
  | FNil => FNil
  | FCons n tags an t r => FCons n (copy_tag src new tags) an (tagcopy_ty src new t) (tagcopy_fields src new r)
  end.

(* ---- SingleTypeSubstitutionMangler[time.Duration, ParsingDuration] ----
   subType: through pointer, slice, array and map down to the named scalar
   (a struct stops it); the transformer then recurses into struct, *struct,
   []struct and [N]struct fields. *)
Fixpoint sub_type (t : ty) {struct t} : ty :=
  match t with
  | TBasic k name => if str_eqb name duration_name then TBasic k parsing_duration_name else t
  | TPtr t' => TPtr (sub_type t')
  | TSlice e n => TSlice (sub_type e) n
  | TArray k e => TArray k (sub_type e)
  | TMap kt e n => TMap (sub_type kt) (sub_type e) n
  | _ => t
  end.

Fixpoint subst_ty (t : ty) {struct t} : ty :=
  match t with
  | TStruct fs n => TStruct (subst_fields fs) n
  | TPtr (TStruct fs n) => TPtr (TStruct (subst_fields fs) n)
  | TSlice (TStruct fs n) m => TSlice (TStruct (subst_fields fs) n) m
  | TArray k (TStruct fs n) => TArray k (TStruct (subst_fields fs) n)
  | _ => sub_type t
  end
with subst_fields (fs : fields) {struct fs} : fields :=
  match fs with
  | FNil => FNil
  | FCons n tags an t r => FCons n tags an (subst_ty t) (subst_fields r)
  end.

(* ---- SetSliceMangler (ez wraps every file decoder with it): a set
   map[K]struct{} is presented to the decoder as []K; the decoded list is
   turned into the set (nil stays nil) ---- *)
Definition is_unit_struct (t : ty) : bool := match t with TStruct FNil _ => true | _ => false end.

Fixpoint setslice_ty (t : ty) {struct t} : ty :=
  match t with
  | TMap k v n => if is_unit_struct v then TSlice k [] else t
  | TStruct fs n => TStruct (setslice_fields fs) n
  | TPtr (TStruct fs n) => TPtr (TStruct (setslice_fields fs) n)
  | TSlice (TStruct fs n) m => TSlice (TStruct (setslice_fields fs) n) m
  | TArray k (TStruct fs n) => TArray k (TStruct (setslice_fields fs) n)
  | _ => t
  end
with setslice_fields (fs : fields) {struct fs} : fields :=
  match fs with
  | FNil => FNil
  | FCons n tags an t r => FCons n tags an (setslice_ty t) (setslice_fields r)
  end.

Fixpoint set_of_list (l : list val) : list (val * val) :=
  match l with
  | [] => []
  | VStr k :: r => kv_ins k (VStruct []) (set_of_list r)
  | x :: r => (x, VStruct []) :: set_of_list r          (* non-string keys: not generated *)
  end.

Fixpoint unset_ty (t : ty) (v : val) {struct t} : val :=
  match t, v with
  | TMap k e n, VList l => if is_unit_struct e then VMap (set_of_list l) else v
  | TStruct fs _, VStruct vs => VStruct (unset_fields fs vs)
  | TPtr (TStruct fs _), VPtr (VStruct vs) => VPtr (VStruct (unset_fields fs vs))
  | TSlice (TStruct fs _) _, VList l => VList (map (fun x => match x with VStruct vs => VStruct (unset_fields fs vs) | _ => x end) l)
  | _, _ => v
  end
with unset_fields (fs : fields) (vs : list val) {struct fs} : list val :=
  match fs, vs with
  | FCons _ _ _ t r, v :: vs' => unset_ty t v :: unset_fields r vs'
  | _, _ => []
  end.

(* ---- the four decoders ---- *)
Inductive format := FJson | FYaml | FToml | FCue.

Definition fmt_tag (f : format) : str :=
  match f with FJson | FCue => json_tag | FYaml => yaml_tag | FToml => toml_tag end.

Definition lib_native_dur (f : format) : bool :=
  match f with FYaml | FToml => true | FJson | FCue => false end.

Definition lib_native_time (f : format) : bool :=
  match f with FToml => true | _ => false end.

Definition translated (f : format) (pfs : fields) : fields :=
  match f with
  | FJson | FCue => tagcopy_fields dials_tag json_tag (subst_fields pfs)
  | FYaml => tagcopy_fields dials_tag yaml_tag pfs
  | FToml => tagcopy_fields dials_tag toml_tag pfs
  end.

(* Decoder.Decode on the pointerified config type pfs *)
Definition decode (f : format) (d : doc) (pfs : fields) : outcome (list val) :=
  match d with
  | DMap kvs => generic_fields (lib_native_time f) (lib_native_dur f) (fmt_tag f) kvs (translated f pfs)
  | _ => Err 43
  end.

(* sourcewrap.NewTransformingDecoder(dec, &transform.SetSliceMangler{}) *)
Definition decode_wrapped (f : format) (d : doc) (pfs : fields) : outcome (list val) :=
  vs <- decode f d (setslice_fields pfs) ;; Ok (unset_fields pfs vs).
