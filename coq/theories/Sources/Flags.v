(* Model of /repo/sources/flag/flag.go and /repo/sources/pflag/pflag.go
   (definitions only): NewSetWithArgs -> registerFlags, the flag packages'
   Parse as a fold of Set over an ordered list of (flag name, text)
   occurrences (argv tokenisation is outside dials), flaghelper's
   accumulating Set methods, and Set.Value.

   registerFlags: alias + flatten (NameConfig casings) on the pointerified
   type; per flattened field: mkname (source tag if present, else the dials
   tag flatten derived), no registration for a `-` source tag or an
   unsupported kind, default = transform.GetField(field, template), kind
   dispatch (std: small ints/uints ride on Int/Uint flags, float32 on Float64;
   pflag: native widths).
   Value: only visited flags are written into the all-nil translated struct -
   std: exact type / willOverflow / Convert; pflag: the flag's own pointer or
   Convert - then ReverseTranslate (populateStruct, alias Unmangle).

   Outcome codes added here.  Err: 30 flag provided but not defined, 31 value
   overflows the leaf type (willOverflow), 32 two leaves map to the same flag
   name, 33 a flag name the std package rejects, 4 two flattened fields with one Go
   name (TranslateType's error since the fix). *)
From Coq Require Import String.
From Coq Require Import List NArith ZArith Bool.
From Dials Require Import Base.Outcome Base.Runes Reflect.Ty Reflect.Ptrify Stack.Overlay Text.CaseConv
  Text.ParseInt Text.Quote Text.Split Text.ParseText Sources.Flatten Sources.Env Sources.TimeText.
Import ListNotations.
Open Scope list_scope.
Open Scope N_scope.

Inductive pkg := PStd | PPflag.

Definition dialsflag_tag : str := s2r "dialsflag"%string.
Definition dialspflag_tag : str := s2r "dialspflag"%string.
Definition dialspflagshort_tag : str := s2r "dialspflagshort"%string.

Definition src_tag (p : pkg) : str := match p with PStd => dialsflag_tag | PPflag => dialspflag_tag end.
Definition flag_alias_keys (p : pkg) : list str :=
  match p with
  | PStd => [dials_tag; dialsflag_tag]
  | PPflag => [dials_tag; dialspflag_tag; dialspflagshort_tag]
  end.

(* NameConfig: indices into the encoders the harness draws from *)
Definition name_enc (i : N) : list str -> str :=
  match i with 0 => encode_upper_camel_t | _ => encode_cp_snake end.
Definition tag_enc (i : N) : list str -> str :=
  match i with
  | 0 => encode_kebab | 1 => encode_lower_snake | 2 => encode_cp_snake
  | 3 => encode_upper_snake | _ => encode_upper_camel_t
  end.
Definition flag_cfg (ne te : N) : flat_cfg := mkFlatCfg (name_enc ne) (tag_enc te).

(* ---- mkname ---- *)
Definition mkname (p : pkg) (l : leaf) : str :=
  match tag_lookup (src_tag p) (lf_tags l) with
  | Some n => n
  | None => tag_get dials_tag (lf_tags l)      (* always present after flatten *)
  end.

(* ---- kinds of flags ---- *)
Inductive fkind :=
| FkString | FkBool
| FkInt (bits : N)            (* bit size the flag package parses with *)
| FkUint (bits : N)
| FkFloat (bits : N) | FkComplex (bits : N) | FkDuration
| FkText (ptr_recv : bool)    (* MarshalWrapper around a TextUnmarshaler struct *)
| FkTime                      (* time.Time: flaghelper.TimeWrapper (std) / MarshalWrapper (pflag) *)
| FkEnum (words : list str)   (* the palette's TextUnmarshalers of scalar kind: exactly these texts *)
| FkIP                        (* MarshalWrapper around net.IP *)
| FkStrSlice (native : bool)  (* flaghelper.StringSliceFlag / pflag's own StringSlice *)
| FkIntSlice (signed : bool) (bits : N)
| FkStrMap | FkStrSet | FkStrSliceMap.

(* rty.NSeverity (an integer with names) and rty.NMode (a string enum): leaves
   of scalar KIND whose text is what their UnmarshalText accepts *)
Definition severity_name : str := s2r "rty.NSeverity"%string.
Definition mode_name : str := s2r "rty.NMode"%string.
Definition severity_words : list str := map s2r ["DEBUG"; "INFO"; "WARN"; "ERROR"]%string.
Definition mode_words : list str := map s2r ["fast"; "slow"]%string.

Definition plain (name : str) : bool := match name with [] => true | _ => false end.

(* t: the leaf type with all pointers stripped *)
Definition flag_kind (p : pkg) (t : ty) : option fkind :=
  match t with
  | TTextU id recv =>
      if recv && str_eqb id time_name then Some FkTime
      else if str_eqb id severity_name then Some (FkEnum severity_words)
      else if str_eqb id mode_name then Some (FkEnum mode_words)
      else Some (FkText recv)
  | TBasic k name =>
      if str_eqb name duration_name then Some FkDuration else
      match k with
      | KString => Some FkString
      | KBool => Some FkBool
      | KFloat b => Some (FkFloat (match p with PStd => 64 | PPflag => b end))
      | KComplex b => Some (FkComplex b)
      | KInt w => Some (FkInt (match p with PStd => 64 | PPflag => int_bits w end))
      | KUint w => Some (FkUint (match p with PStd => 64 | PPflag => if w =? 1 then 64 else int_bits w end))
      end
  | TSlice e name =>
      if is_netip t then Some FkIP
      else if negb (plain name) then None
      else match e with
           | TBasic k en =>
               if negb (predeclared en) then None else
               match k with
               | KString => Some (FkStrSlice (match p with PStd => false | PPflag => true end))
               | KInt w => Some (FkIntSlice true (int_bits w))
               | KUint w => Some (FkIntSlice false (if w =? 1 then 64 else int_bits w))
               | _ => None
               end
           | _ => None
           end
  | TMap (TBasic KString kn) v name =>
      if negb (plain name && predeclared kn) then None
      else match v with
           | TBasic KString vn => if predeclared vn then Some FkStrMap else None
           | TStruct FNil [] => Some FkStrSet
           | TSlice (TBasic KString vn) [] => if predeclared vn then Some FkStrSliceMap else None
           | _ => None
           end
  | _ => None
  end.

(* ---- transform.GetField on the template (a value of the ORIGINAL type) ---- *)
Fixpoint field_by_name (n : str) (fs : fields) (vs : list val) : option (ty * val) :=
  match fs, vs with
  | FCons n' _ _ t r, v :: vs' => if str_eqb n n' then Some (t, v) else field_by_name n r vs'
  | _, _ => None
  end.

(* stripPtrs on a typed value: None = invalid (nil pointer) *)
Fixpoint strip_ptrs (t : ty) (v : val) : option (ty * val) :=
  match t, v with
  | TPtr t', VPtr v' => strip_ptrs t' v'
  | TPtr _, _ => None
  | _, _ => Some (t, v)
  end.

Fixpoint get_field (path : list str) (cur : option (ty * val)) : option val :=
  match path with
  | [] => match cur with Some (t, v) => option_map snd (strip_ptrs t v) | None => None end
  | n :: rest =>
      match cur with
      | Some (t, v) =>
          match strip_ptrs t v with
          | Some (TStruct fs _, VStruct vs) => get_field rest (field_by_name n fs vs)
          | _ => None
          end
      | None => None
      end
  end.

(* the flag's initial value: the template's concrete value of the leaf, or
   the zero value of the leaf's concrete type *)
Definition template_value (fs : fields) (tmpl : list val) (l : leaf) : val :=
  match get_field (lf_path l) (Some (TStruct fs [], VStruct tmpl)) with
  | Some v => v
  | None => zero (strip_ptr_ty (lf_ty l))
  end.

(* ---- flag state and Set ---- *)
Record fstate := mkFstate { st_val : val; st_defaulted : bool }.

Definition vlist_of (v : val) : list val := match v with VList l => l | _ => [] end.
Definition vmap_of (v : val) : list (val * val) := match v with VMap l => l | _ => [] end.

Fixpoint map_put (k v : val) (m : list (val * val)) : list (val * val) :=
  match m with
  | [] => [(k, v)]
  | (k', v') :: r => if val_eqb k k' then (k, v) :: r else (k', v') :: map_put k v r
  end.
Fixpoint map_find (k : val) (m : list (val * val)) : option val :=
  match m with
  | [] => None
  | (k', v') :: r => if val_eqb k k' then Some v' else map_find k r
  end.

Fixpoint has_dup_key (l : list str) : bool :=
  match l with [] => false | x :: r => existsb (str_eqb x) r || has_dup_key r end.

Definition set_unit : val := VStruct [].

(* MapStringStringSliceFlag: the parsed lists are appended per key *)
Definition merge_mss (parsed : list (str * list str)) (m0 : list (val * val)) : list (val * val) :=
  fold_left (fun m kv => map_put (VStr (fst kv))
                                 (VList (vlist_of (match map_find (VStr (fst kv)) m with Some x => x | None => VNil end)
                                         ++ map VStr (snd kv))) m) parsed m0.

(* flag.Value.Set for each kind.  The packages' own setters are
   strconv.ParseBool / ParseInt / ParseUint at the flag's bit size
   (Text/ParseInt.v), flaghelper's go through package parse (Text/Split.v,
   Text/ParseInt.v: the models of property C15).  TextUnmarshaler structs are
   the palette's: pointer receiver stores the text, value receiver is a no-op. *)
Definition flag_set (k : fkind) (st : fstate) (text : str) : outcome fstate :=
  let upd v := Ok (mkFstate v false) in
  match k with
  | FkString => upd (VStr text)
  | FkBool => b <- PS.parse_bool text ;; upd (VBool b)
  | FkInt b => z <- parse_int text b ;; upd (VInt z)
  | FkUint b => n <- ures_out (parse_uint text b) ;; upd (VInt (Z.of_N n))
  | FkFloat b => z <- parse_float b text ;; upd (VFloat z)
  | FkComplex b => v <- parse_complex b text ;; upd v
  | FkDuration => z <- parse_duration text ;; upd (VInt z)
  | FkTime => v <- time_value text ;; upd v      (* Time.UnmarshalText: Sources/TimeText.v *)
  | FkEnum ws => if existsb (str_eqb text) ws then upd (VText text) else Err e_syntax
  | FkText true => upd (VText text)
  | FkText false => upd (st_val st)
  | FkIP => v <- parse_ip text ;; upd v
  | FkStrSlice native =>
      (* pflag reads the text with encoding/csv (empty fields are kept);
         flaghelper.StringSliceFlag uses parse.StringSlice *)
      ws <- (if native then pflag_csv text else string_slice isp0 text) ;;
      upd (VList ((if st_defaulted st then [] else vlist_of (st_val st)) ++ map VStr ws))
  | FkIntSlice signed bits =>
      vs <- (if signed then omap (map VInt) (signed_slice (sw_of bits) text)
             else omap (map (fun n => VInt (Z.of_N n))) (unsigned_slice (uw_of bits) text)) ;;
      upd (VList ((if st_defaulted st then [] else vlist_of (st_val st)) ++ vs))
  | FkStrMap =>
      kvs <- map_ss_parse isp0 text ;;           (* parse.Map: a repeated key is an error *)
      upd (VMap (fold_left (fun m kv => map_put (VStr (fst kv)) (VStr (snd kv)) m) kvs
                           (if st_defaulted st then [] else vmap_of (st_val st))))
  | FkStrSet =>
      ws <- string_set isp0 text ;;              (* parse.StringSet: a repeated member is an error *)
      upd (VMap (fold_left (fun m w => map_put (VStr w) set_unit m) ws
                           (if st_defaulted st then [] else vmap_of (st_val st))))
  | FkStrSliceMap =>
      kvs <- mss_parse isp0 text ;;
      upd (VMap (merge_mss kvs (if st_defaulted st then [] else vmap_of (st_val st))))
  end.

(* ---- registration ---- *)
Record reg := mkReg {
  rg_name : str;
  rg_leaf : leaf;
  rg_kind : option fkind;        (* None: no flag registered for this leaf *)
  rg_init : val                  (* template value of the leaf *)
}.

Definition dash_tag (p : pkg) (l : leaf) : bool :=
  match tag_lookup (src_tag p) (lf_tags l) with Some v => str_eqb v dash | None => false end.

Definition mk_reg (p : pkg) (fs : fields) (tmpl : list val) (l : leaf) : reg :=
  mkReg (mkname p l) l
        (if dash_tag p l then None else flag_kind p (strip_ptr_ty (lf_ty l)))
        (template_value fs tmpl l).

(* names the std flag package rejects (flag.Var panics on them; registerFlags
   returns an error since the fix) *)
Definition bad_std_name (n : str) : bool :=
  match n with 45 :: _ => true | _ => existsb (N.eqb 61) n end.

(* the registration loop: a flag name already taken by an earlier leaf is an
   error (since the fix; before, the later flag was silently not registered
   and the earlier flag's value written into the later field); "-" suppresses
   registration; a name the std package rejects is an error *)
Fixpoint reg_errors (p : pkg) (seen : list str) (regs : list reg) : option N :=
  match regs with
  | [] => None
  | r :: rest =>
      let n := rg_name r in
      if negb (str_eqb n dash) && existsb (str_eqb n) seen then Some 32
      else if dash_tag p (rg_leaf r) then reg_errors p (n :: seen) rest
      else if match p with PStd => bad_std_name n | PPflag => false end then Some 33
      else reg_errors p (n :: seen) rest
  end.

Definition flag_regs (p : pkg) (ne te : N) (fs : fields) (tmpl : list val) : outcome (list reg) :=
  let pfs := ptrify_fields fs in
  ls <- flatten (flag_cfg ne te) (alias_fields (flag_alias_keys p) pfs) ;;
  if has_dup (map lf_name ls) then Err 4 else
  let regs := map (mk_reg p fs tmpl) ls in
  match reg_errors p [] regs with Some c => Err c | None => Ok regs end.

(* what FlagSet.VisitAll shows: name and default of every registered flag;
   a nil slice / map default and an empty one render alike *)
Definition canon_default (k : fkind) (v : val) : val :=
  match k with
  | FkStrSlice true =>          (* pflag renders [""] and [] alike *)
      match vlist_of v with [VStr []] => VList [] | l => VList l end
  | FkStrSlice false | FkIntSlice _ _ => VList (vlist_of v)
  | FkStrMap | FkStrSet => VMap (vmap_of v)
  | FkStrSliceMap =>            (* a key with an empty list has no "k:v" rendering (DESIGN finding 11) *)
      VMap (filter (fun kv => match snd kv with VList (_ :: _) => true | _ => false end) (vmap_of v))
  | FkIP => VOpaque 2           (* rendering of IPs and of a TextUnmarshaler without MarshalText *)
  | FkText false => VOpaque 3   (* is not compared *)
  | _ => v
  end.

Definition flag_advertised (regs : list reg) : list (str * val) :=
  flat_map (fun r => match rg_kind r with
                     | Some k => [(rg_name r, canon_default k (rg_init r))]
                     | None => [] end) regs.

(* ---- Parse: fold the occurrences ---- *)
Fixpoint find_reg (n : str) (regs : list reg) : option reg :=
  match regs with
  | [] => None
  | r :: rest => if str_eqb n (rg_name r) then Some r else find_reg n rest
  end.

Fixpoint st_lookup (n : str) (l : list (str * fstate)) : option fstate :=
  match l with
  | [] => None
  | (k, v) :: r => if str_eqb n k then Some v else st_lookup n r
  end.

Fixpoint st_put (n : str) (st : fstate) (l : list (str * fstate)) : list (str * fstate) :=
  match l with
  | [] => [(n, st)]
  | (k, v) :: r => if str_eqb n k then (n, st) :: r else (k, v) :: st_put n st r
  end.

(* the packages' Parse: every occurrence calls Set on its flag, in order; an
   undefined flag or a failing Set aborts with an error *)
Fixpoint run_occs (regs : list reg) (states : list (str * fstate)) (occs : list (str * str))
  : outcome (list (str * fstate)) :=
  match occs with
  | [] => Ok states
  | (n, text) :: rest =>
      match find_reg n regs with
      | Some r =>
          match rg_kind r with
          | Some k =>
              let cur := match st_lookup n states with
                         | Some st => st
                         | None => mkFstate (rg_init r) true end in
              st' <- flag_set k cur text ;;
              run_occs regs (st_put n st' states) rest
          | None => Err 30
          end
      | None => Err 30
      end
  end.

(* ---- Value: write one visited flag into its (nil) field ---- *)
Definition fits (e : ty) (v : val) : bool :=
  match e, v with
  | TBasic (KInt w) _, VInt z => in_int_range w z
  | TBasic (KUint w) _, VInt z => (0 <=? z)%Z && in_uint_range w (Z.to_N z)
  | TBasic (KFloat b) _, VFloat z =>
      (* OverflowFloat: MaxFloat32 < |x| <= MaxFloat64 (no rounding first; an infinity does not overflow) *)
      (Z.abs z <=? float_max b * 1024)%Z || (Z.abs z =? float_inf)%Z
  | _, _ => true
  end.

(* lt: pointerified type of the leaf; v: the flag's current value.
   std: exact type, else willOverflow (flag.go:452-456), else Convert;
   pflag: the natively typed flag cannot hold an out-of-range value.
   A non-struct TextUnmarshaler (net.IP) is held by the field as it is; the
   std source handles it since the fix for DESIGN finding 17, and dereferences
   the complex helpers' pointer for a declared complex leaf type since the fix
   for named complex leaves. *)
Definition write_leaf (p : pkg) (k : fkind) (lt : ty) (v : val) : outcome val :=
  match k with
  | FkStrSlice _ | FkIntSlice _ _ | FkStrMap | FkStrSet | FkStrSliceMap | FkIP =>
      (* held as it is; behind a user-declared pointer to a slice or map as a pointer to it *)
      match lt with TPtr _ => Ok (VPtr v) | _ => Ok v end
  | _ =>
      match lt with
      | TPtr e =>
          match p with
          | PStd => if fits e v then Ok (VPtr v) else Err 31
          | PPflag => Ok (VPtr v)
          end
      | _ => Panic 3
      end
  end.

(* the pinned std source (before the fix): Convert from pointer-to-net.IP to net.IP panics *)
Definition write_leaf_pre_fix (p : pkg) (k : fkind) (lt : ty) (v : val) : outcome val :=
  match p, k with PStd, FkIP => Panic 3 | _, _ => write_leaf p k lt v end.

(* the std source before the second fix: the complex flag helpers hand out a
   pointer (complex64 / complex128 behind it); for a leaf of a DECLARED complex
   type that pointer was neither the field's type nor convertible to it *)
Definition write_leaf_pre_fix2 (p : pkg) (k : fkind) (lt : ty) (v : val) : outcome val :=
  match p, k, lt with
  | PStd, FkComplex _, TPtr (TBasic _ name) => if predeclared name then write_leaf p k lt v else Panic 3
  | _, _, _ => write_leaf p k lt v
  end.

Definition flag_value_with (wl : pkg -> fkind -> ty -> val -> outcome val)
    (p : pkg) (ne te : N) (fs : fields) (tmpl : list val) (occs : list (str * str))
  : outcome (list val) :=
  let pfs := ptrify_fields fs in
  regs <- flag_regs p ne te fs tmpl ;;
  states <- run_occs regs [] occs ;;
  vals <- omapM (fun r => match st_lookup (rg_name r) states, rg_kind r with
                          | Some st, Some k => wl p k (lf_ty (rg_leaf r)) (st_val st)
                          | _, _ => Ok VNil
                          end) regs ;;
  vs <- populate (alias_fields (flag_alias_keys p) pfs) vals ;;
  unalias_fields (flag_alias_keys p) pfs vs.

Definition flag_value := flag_value_with write_leaf.
