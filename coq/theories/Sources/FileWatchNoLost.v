(* PROOF of no_lost_update (property C17): in the split-pass model the file
   system may change anywhere - in particular between a pass's read phase
   (InRead) and its second half (Cont) - and the environment promises an event
   only for changes that a watch in place AT THAT MOMENT can see (e_covered).
   The recheck token left by every added watch closes the window for every
   interleaving: once the loop is idle, a read has happened after the last
   change, hence the view is decode(final) (or last good + error). *)
From Coq Require Import List NArith Bool Lia.
From Dials Require Import Base.Outcome Base.Runes Sources.FileWatch Sources.FileWatchProofs.
Import ListNotations.
Open Scope N_scope.

Local Arguments mem : simpl never.
Local Arguments dir : simpl never.
Local Arguments wadd : simpl never.
Local Arguments wremove : simpl never.
Local Arguments path_eqb : simpl never.

Lemma mem_In_eq d l : mem d l = true -> exists d', List.In d' l /\ d = d'.
Proof.
  unfold mem. intro H. apply existsb_exists in H as (d' & Hin & He).
  exists d'. split; [exact Hin|]. destruct (path_eqbP d d'); congruence.
Qed.

Lemma not_covered w f' d :
  covered w f' = false -> mem d (fs_where f') = true -> mem d w = false.
Proof.
  intros Hc Hm. apply mem_In_eq in Hm as (d' & Hin & ->).
  unfold covered in Hc. destruct (mem d' w) eqn:E; [|reflexivity].
  exfalso. assert (existsb (fun d => mem d w) (fs_where f') = true) as X.
  { apply existsb_exists. exists d'. split; assumption. }
  congruence.
Qed.

Section NoLost.
Variable decode : content -> option value.
Variable hmac : content -> csum.
Variable cfg : path.
Hypothesis cfg_ne : cfg <> [].

Notation udw := update_dir_watches.
Notation read_phase := (read_phase decode hmac).
Notation reload := (reload decode hmac udw cfg).
Notation step := (step decode hmac udw cfg).
Notation step_read := (step_read decode hmac cfg).
Notation run := (run decode hmac udw cfg).
Notation trace_ok := (trace_ok decode hmac udw cfg).
Notation env_ok := (env_ok decode hmac udw cfg).
Notation e_covered := (e_covered decode hmac udw cfg).
Notation notified := (notified decode hmac udw cfg).
Notation stale_run := (stale_run decode hmac udw cfg).
Notation cont := (cont udw cfg).
Notation cont_phase := (cont_phase udw cfg).

(* ---- small facts about the phases ---- *)

Lemma read_phase_pending f st : st_pending (read_phase f st) <> None.
Proof. rewrite read_pending. discriminate. Qed.

Lemma at_select_pending st : at_select st = true -> st_pending st = None.
Proof.
  unfold at_select. intros H%andb_true_iff. destruct H as [_ H].
  destruct (st_pending st); [discriminate | reflexivity].
Qed.

Lemma run_running t f st :
  st_running (snd (run t (f, st))) = true -> st_running st = true.
Proof.
  intro H. destruct (st_running st) eqn:R; [reflexivity|].
  rewrite (run_stopped decode hmac udw cfg t f st R) in H. congruence.
Qed.

Lemma unreceived cfg' body f st i :
  receives cfg' st i = false ->
  step_with cfg' body f st i = st \/ st_running (step_with cfg' body f st i) = false.
Proof.
  unfold receives, step_with. destruct (at_select st); cbn [negb andb]; [|left; reflexivity].
  destruct (stops i); cbn [negb andb]; [intros _; right; reflexivity|].
  intros ->. left; reflexivity.
Qed.

Lemma recheck_mono_cont f st : st_recheck st = true -> st_recheck (cont_phase f st) = true.
Proof.
  intro R. unfold FileWatch.cont_phase. destruct (st_pending st) as [[|]|]; [| |exact R].
  - destruct (st_watching st), (fs_addfile_ok f); cbn; rewrite R; reflexivity.
  - destruct (fs_linkres f); cbn; [rewrite R; reflexivity | exact R].
Qed.

(* the resolved path the second half ends with *)
Lemma cont_phase_resolved_exists f st r :
  st_pending st = Some true -> fs_resolved f = Some r -> st_resolved (cont_phase f st) = r.
Proof.
  intros P E. unfold FileWatch.cont_phase. rewrite P, E.
  destruct (st_watching st), (fs_addfile_ok f); reflexivity.
Qed.

Lemma cont_phase_resolved_link f st r :
  st_pending st = Some false -> fs_linkres f = Some r -> st_resolved (cont_phase f st) = r.
Proof. intros P E. unfold FileWatch.cont_phase. rewrite P, E. reflexivity. Qed.

Definition phase_adds (f : fs) (st : lstate) : bool :=
  match st_pending st with Some true => adds_ok f | Some false => linkadd_ok f | None => true end.

(* C1: after the second half either the file's directory is watched or a token waits *)
Lemma cont_covers f st b :
  st_pending st = Some b -> st_running st = true -> WInv cfg st ->
  fs_ok cfg f = true -> fs_shape cfg f = true -> phase_adds f st = true ->
  uncov f (cont_phase f st) = false \/ st_recheck (cont_phase f st) = true.
Proof.
  intros P R HW Hok Hsh Hadd.
  assert (WInv cfg (cont_phase f st)) as HW'.
  { apply WInv_cont_phase; auto. }
  assert (st_running (cont_phase f st) = true) as R' by (now apply cont_phase_running).
  destruct HW' as [_ HW']. destruct (HW' R') as (A' & B' & _).
  unfold uncov, loc. unfold fs_shape in Hsh.
  destruct b.
  - destruct (fs_resolved f) as [r|] eqn:Er.
    + left. rewrite (cont_phase_resolved_exists f st r P Er) in B'. rewrite B'. reflexivity.
    + right. destruct (fs_read f) eqn:Rd; try discriminate.
      unfold FileWatch.cont_phase. rewrite P, Er, Rd.
      destruct (st_watching st), (fs_addfile_ok f); cbn; rewrite ?orb_true_r; reflexivity.
  - destruct (fs_linkres f) as [r'|] eqn:El.
    + left. rewrite (cont_phase_resolved_link f st r' P El) in B'.
      destruct (fs_resolved f) as [r|] eqn:Er.
      * destruct (fs_read f); try discriminate;
          (destruct (path_eqbP r r') as [->|]; [|discriminate]); rewrite B'; reflexivity.
      * rewrite B'. reflexivity.
    + left. destruct (fs_resolved f) as [r|] eqn:Er; [|reflexivity].
      destruct (fs_read f); try discriminate;
        (destruct (path_eqbP (dir r) (dir cfg)) as [->|]; [|discriminate]); rewrite A'; reflexivity.
Qed.

(* C2: a second half that runs while the file's directory is unwatched leaves a token *)
Lemma cont_tokens f st b :
  st_pending st = Some b -> st_running st = true -> WInv cfg st ->
  fs_shape cfg f = true -> uncov f st = true ->
  st_recheck (cont_phase f st) = true.
Proof.
  intros P R [_ HW] Hsh Hu. destruct (HW R) as (A & B & _).
  unfold uncov, loc in Hu. unfold fs_shape in Hsh.
  assert (forall r, mem (dir r) (st_watches st) = false ->
                    path_eqb (dir (st_resolved st)) (dir r) = false) as Hne.
  { intros r Hm. destruct (path_eqbP (dir (st_resolved st)) (dir r)) as [E|]; [|reflexivity].
    rewrite E in B. congruence. }
  unfold FileWatch.cont_phase. rewrite P. destruct b.
  - destruct (fs_resolved f) as [r|] eqn:Er.
    + apply negb_true_iff in Hu. rewrite (Hne r Hu).
      destruct (st_watching st), (fs_addfile_ok f); cbn; rewrite ?orb_true_r; reflexivity.
    + destruct (fs_read f); try discriminate.
      destruct (st_watching st), (fs_addfile_ok f); cbn; rewrite ?orb_true_r; reflexivity.
  - destruct (fs_linkres f) as [r'|] eqn:El.
    + destruct (fs_resolved f) as [r|] eqn:Er.
      * destruct (fs_read f); try discriminate;
          (destruct (path_eqbP r r') as [->|]; [|discriminate]);
          apply negb_true_iff in Hu; cbn; rewrite (Hne r' Hu); apply orb_true_r.
      * apply negb_true_iff in Hu. cbn. rewrite (Hne r' Hu). apply orb_true_r.
    + destruct (fs_resolved f) as [r|] eqn:Er; [|discriminate].
      exfalso. destruct (fs_read f); try discriminate;
        (destruct (path_eqbP (dir r) (dir cfg)) as [E|]; [|discriminate]);
        rewrite E, A in Hu; discriminate.
Qed.

(* ---- the two invariants, relative to the rest of the trace ---- *)

Definition Kp (t : list item) (f : fs) (st : lstate) : Prop :=
  uncov f st = true ->
  st_pending st <> None \/ st_recheck st = true \/ notified t f st = true.

Definition Mp (t : list item) (f : fs) (s : bool) (st : lstate) : Prop :=
  s = true ->
  st_recheck st = true \/ notified t f st = true \/ (st_pending st <> None /\ uncov f st = true).

Lemma uncov_drop f st p :
  match loc f with Some r => negb (path_eqb p (dir r)) | None => true end = true ->
  st_running st = true -> uncov f (drop cfg p st) = uncov f st.
Proof.
  intros H R. unfold uncov, drop. rewrite R. cbn. destruct (loc f) as [r|]; [|reflexivity].
  rewrite mem_wremove. apply negb_true_iff in H. rewrite path_eqb_sym, H. reflexivity.
Qed.

Lemma nlu_run t : forall f st s,
  WInv cfg st -> fs_ok cfg f = true -> fs_shape cfg f = true ->
  trace_ok t f st = true -> env_ok t f st = true -> e_covered t f st = true ->
  Kp t f st -> Mp t f s st ->
  idle (snd (run t (f, st))) = true ->
  stale_run t f st s = false.
Proof.
  induction t as [|it t IH]; intros f st s HW Hok Hsh Ht He Hc HK HM Hidle.
  - cbn in *. destruct s; [|reflexivity]. exfalso.
    unfold idle in Hidle. apply andb_true_iff in Hidle as [Hsel Hrk]. apply negb_true_iff in Hrk.
    destruct (HM eq_refl) as [H|[H|[H _]]]; [congruence | discriminate |].
    apply H. now apply at_select_pending.
  - assert (st_running st = true) as R.
    { unfold idle in Hidle. apply andb_true_iff in Hidle as [Hsel _].
      apply at_select_running in Hsel. eapply run_running. exact Hsel. }
    rewrite run_cons in Hidle.
    destruct it as [f'|i|i| |p]; cbn [FileWatch.run1 FileWatch.stale_run] in *;
      cbn [FileWatch.trace_ok FileWatch.env_ok FileWatch.e_covered] in Ht, He, Hc.
    + (* the file system changes *)
      apply andb_true_iff in Ht as [Hok' Ht]. apply andb_true_iff in He as [Hch He].
      apply andb_true_iff in Hc as [Hcov Hc].
      unfold change_ok in Hch. apply andb_true_iff in Hch as [Hch C3]. apply andb_true_iff in Hch as [Hsh' C2].
      destruct HW as [Hres HWr]. destruct (HWr R) as (A & _).
      (* what an unseen change implies *)
      assert (covered (st_watches st) f' = false ->
              uncov f st = true /\ loc f' = loc f) as Hun.
      { intro Hnc.
        assert (mem (dir cfg) (fs_where f') = false) as Hnd.
        { destruct (mem (dir cfg) (fs_where f')) eqn:E; [|reflexivity].
          rewrite (not_covered _ _ _ Hnc E) in A. discriminate. }
        rewrite Hnd in C2, C3. cbn [orb] in C2. rewrite orb_false_r in C3.
        destruct (loc f) as [r|] eqn:El; [|discriminate].
        split.
        - unfold uncov. rewrite El. rewrite (not_covered _ _ _ Hnc C2). reflexivity.
        - unfold opt_path_eqb in C3. destruct (loc f') as [r'|]; [|discriminate].
          destruct (path_eqbP r r') as [->|]; [reflexivity | discriminate]. }
      apply (IH f' st true); auto.
      * split; assumption.
      * (* Kp *)
        intro Hu. destruct (covered (st_watches st) f') eqn:Cv.
        -- right; right. exact Hcov.
        -- destruct (Hun eq_refl) as [Hu0 _]. exact (HK Hu0).
      * (* Mp *)
        intros _. destruct (covered (st_watches st) f') eqn:Cv.
        -- right; left. exact Hcov.
        -- destruct (Hun eq_refl) as [Hu0 Hl]. destruct (HK Hu0) as [H|[H|H]].
           ++ right; right. split; [exact H|]. unfold uncov in *. rewrite Hl. exact Hu0.
           ++ left; exact H.
           ++ right; left; exact H.
    + (* an input, whole pass *)
      apply andb_true_iff in Ht as [Hadd Ht].
      destruct (receives cfg st i) eqn:Rc.
      * destruct (step_with_cases cfg reload f st i) as [[Es _]|[_ Ef]]; [|congruence].
        unfold FileWatch.step in *. rewrite Es in *.
        rewrite andb_false_r.
        assert (st_running (take i st) = true) as Rt
          by (destruct (take_proj i st) as (_ & _ & _ & _ & _ & -> & _); exact R).
        assert (WInv cfg (take i st)) as HWt by (now apply WInv_take).
        set (sr := read_phase f (take i st)) in *.
        assert (st_running sr = true) as Rr by apply read_running.
        assert (WInv cfg sr) as HWr by (now apply WInv_read).
        assert (phase_adds f sr = true) as Hpa.
        { unfold phase_adds, sr. rewrite read_pending. destruct (fs_read f); assumption. }
        unfold FileWatch.reload in *. fold sr in Ht, He, Hc, Hidle |- *.
        assert (exists b, st_pending sr = Some b) as [b Hb].
        { unfold sr. rewrite read_pending. eauto. }
        apply (IH f (cont_phase f sr) false); auto.
        -- apply WInv_cont_phase; auto.
        -- intro Hu. destruct (cont_covers f sr b Hb Rr HWr Hok Hsh Hpa) as [H|H]; [congruence|].
           right; left; exact H.
        -- intro H; discriminate.
      * rewrite andb_true_r.
        destruct (unreceived cfg reload f st i Rc) as [E|E].
        -- unfold FileWatch.step in *. rewrite E in *.
           apply (IH f st s); auto.
           ++ intro Hu. destruct (HK Hu) as [H|[H|H]]; auto.
              cbn [FileWatch.notified] in H. unfold FileWatch.step in H. rewrite Rc, E in H. auto.
           ++ intro Hs. destruct (HM Hs) as [H|[H|H]]; auto.
              cbn [FileWatch.notified] in H. unfold FileWatch.step in H. rewrite Rc, E in H. auto.
        -- exfalso. unfold idle in Hidle. apply andb_true_iff in Hidle as [Hsel _].
           apply at_select_running in Hsel. apply run_running in Hsel.
           unfold FileWatch.step in Hsel. congruence.
    + (* an input, read phase only *)
      destruct (receives cfg st i) eqn:Rc.
      * destruct (step_with_cases cfg read_phase f st i) as [[Es _]|[_ Ef]]; [|congruence].
        unfold FileWatch.step_read in *. rewrite Es in *.
        rewrite andb_false_r.
        assert (st_running (take i st) = true) as Rt
          by (destruct (take_proj i st) as (_ & _ & _ & _ & _ & -> & _); exact R).
        apply (IH f (read_phase f (take i st)) false); auto.
        -- apply WInv_read; [exact Rt | now apply WInv_take].
        -- intros _. left. apply read_phase_pending.
        -- intro H; discriminate.
      * rewrite andb_true_r.
        destruct (unreceived cfg read_phase f st i Rc) as [E|E].
        -- unfold FileWatch.step_read in *. rewrite E in *.
           apply (IH f st s); auto.
           ++ intro Hu. destruct (HK Hu) as [H|[H|H]]; auto.
              cbn [FileWatch.notified] in H. unfold FileWatch.step_read in H. rewrite Rc, E in H. auto.
           ++ intro Hs. destruct (HM Hs) as [H|[H|H]]; auto.
              cbn [FileWatch.notified] in H. unfold FileWatch.step_read in H. rewrite Rc, E in H. auto.
        -- exfalso. unfold idle in Hidle. apply andb_true_iff in Hidle as [Hsel _].
           apply at_select_running in Hsel. apply run_running in Hsel.
           unfold FileWatch.step_read in Hsel. congruence.
    + (* the second half of a pass *)
      apply andb_true_iff in Ht as [Hadd Ht].
      unfold FileWatch.cont in *. rewrite R in *.
      destruct (st_pending st) as [b|] eqn:P.
      * assert (phase_adds f st = true) as Hpa by (unfold phase_adds; rewrite P; destruct b; exact Hadd).
        apply (IH f (cont_phase f st) s); auto.
        -- apply WInv_cont_phase; auto; rewrite P; destruct b; exact Hadd.
        -- intro Hu. destruct (cont_covers f st b P R HW Hok Hsh Hpa) as [H|H]; [congruence|].
           right; left; exact H.
        -- intro Hs. destruct (HM Hs) as [H|[H|[_ H]]].
           ++ left. now apply recheck_mono_cont.
           ++ right; left. cbn [FileWatch.notified] in H. unfold FileWatch.cont in H. rewrite R in H. exact H.
           ++ left. eapply cont_tokens; eauto.
      * assert (cont_phase f st = st) as E by (unfold FileWatch.cont_phase; now rewrite P).
        rewrite E in *. apply (IH f st s); auto.
        -- intro Hu. destruct (HK Hu) as [H|[H|H]]; auto.
           cbn [FileWatch.notified] in H. unfold FileWatch.cont in H. rewrite R, E in H. auto.
        -- intro Hs. destruct (HM Hs) as [H|[H|H]]; auto.
           cbn [FileWatch.notified] in H. unfold FileWatch.cont in H. rewrite R, E in H. auto.
    + (* the kernel drops a watch *)
      apply andb_true_iff in Ht as [Hp Ht]. apply andb_true_iff in Hp as [Hp1 Hp2].
      apply negb_true_iff in Hp1, Hp2. apply andb_true_iff in He as [Hl He].
      assert (st_pending (drop cfg p st) = st_pending st /\ st_recheck (drop cfg p st) = st_recheck st) as [Ep Er].
      { unfold drop. rewrite R. split; reflexivity. }
      apply (IH f (drop cfg p st) s); auto.
      * apply WInv_drop; assumption.
      * intro Hu. rewrite (uncov_drop f st p Hl R) in Hu. rewrite Ep, Er. exact (HK Hu).
      * intro Hs. rewrite Ep, Er, (uncov_drop f st p Hl R). exact (HM Hs).
Qed.

(* ---- from "not stale" to "a read was received after the last change" ---- *)

Lemma stale_notified t : forall f st s,
  forallb (fun it => negb (is_fs it)) t = true ->
  stale_run t f st s = false -> s = false \/ notified t f st = true.
Proof.
  induction t as [|it t IH]; intros f st s Hfs H; [left; exact H|].
  cbn [forallb] in Hfs. apply andb_true_iff in Hfs as [Hit Hfs].
  destruct it as [f'|i|i| |p]; [discriminate| | | |]; cbn [FileWatch.stale_run FileWatch.notified] in *.
  - destruct (IH _ _ _ Hfs H) as [E|E]; [|right; rewrite E; apply orb_true_r].
    apply andb_false_iff in E as [E|E]; [left; exact E|].
    apply negb_false_iff in E. right. rewrite E. reflexivity.
  - destruct (IH _ _ _ Hfs H) as [E|E]; [|right; rewrite E; apply orb_true_r].
    apply andb_false_iff in E as [E|E]; [left; exact E|].
    apply negb_false_iff in E. right. rewrite E. reflexivity.
  - exact (IH _ _ _ Hfs H).
  - exact (IH _ _ _ Hfs H).
Qed.

Lemma stale_app t1 : forall t2 f st s,
  stale_run (t1 ++ t2) f st s =
  stale_run t2 (fst (run t1 (f, st))) (snd (run t1 (f, st))) (stale_run t1 f st s).
Proof.
  induction t1 as [|it t1 IH]; intros t2 f st s; [reflexivity|].
  rewrite run_cons. destruct it; cbn [app FileWatch.stale_run FileWatch.run1]; apply IH.
Qed.

Section Final.
Hypothesis hmac_inj : forall a b, hmac a = hmac b -> a = b.

Lemma no_lost_update_l c0 v0 r0 t1 f t2 :
  decode c0 = Some v0 -> path_eqb (dir r0) cfg = false ->
  forallb (fun it => negb (is_fs it)) t2 = true ->
  let t := t1 ++ Fs f :: t2 in
  let x0 := (init_fs cfg c0 r0, init_state hmac cfg c0 v0 r0) in
  trace_ok t (fst x0) (snd x0) = true ->
  env_ok t (fst x0) (snd x0) = true ->
  e_covered t (fst x0) (snd x0) = true ->
  idle (snd (run t x0)) = true ->
  let st1 := snd (run t1 x0) in
  let st := snd (run t x0) in
  match fs_read f with
  | Content c =>
      match decode c with
      | Some v => view st = Some (c, v)
      | None => view st = view st1 /\ last_is_error (st_reports st) = true
      end
  | IOErr => view st = view st1 /\ last_is_error (st_reports st) = true
  | NotExist => st_reports st = st_reports st1
  end.
Proof.
  intros D Hr Hfs t x0 Ht He Hc Hidle st1 st.
  assert (WInv cfg (snd x0)) as HW0 by (apply WInv_init; assumption).
  assert (fs_ok cfg (fst x0) = true) as Hok0 by (apply fs_ok_init; exact Hr).
  assert (fs_shape cfg (fst x0) = true) as Hsh0.
  { cbn. destruct (path_eqbP cfg r0) as [<-|N]; [apply path_eqb_refl | apply path_eqb_refl]. }
  assert (stale_run t (fst x0) (snd x0) false = false) as Hst.
  { apply nlu_run; auto.
    - intro Hu. exfalso. cbn in Hu. unfold uncov, loc in Hu. cbn in Hu.
      destruct HW0 as [_ HW0]. destruct (HW0 eq_refl) as (_ & B & _). cbn in B. rewrite B in Hu. discriminate.
    - intro H; discriminate. }
  unfold t in Hst. rewrite stale_app in Hst. cbn [FileWatch.stale_run] in Hst.
  assert (stale_run t2 f (snd (run t1 x0)) true = false) as Hst' by exact Hst. clear Hst.
  change (Conv decode f st1 st).
  unfold st, t. rewrite (run_app decode hmac), (run_cons decode hmac).
  destruct (run t1 x0) as [f1 s1] eqn:E1. cbn [fst snd FileWatch.run1] in *.
  assert (JInv decode hmac s1) as J1.
  { replace s1 with (snd (run t1 x0)) by now rewrite E1.
    apply JInv_run, JInv_init. exact D. }
  destruct (stale_notified t2 f s1 true Hfs Hst') as [X|Hn]; [discriminate|].
  assert (st1 = s1) as Es by (unfold st1; first [reflexivity | rewrite E1; reflexivity]).
  rewrite Es.
  destruct (conv_run decode hmac hmac_inj udw cfg f s1 t2 s1 Hfs J1) as [_ H2].
  apply H2; [apply Pre_refl | exact Hn].
Qed.

End Final.
End NoLost.
