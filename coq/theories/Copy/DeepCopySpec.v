(* Specification side of C03 (definitions only): well-formed input heaps
   (decidable), the relation R = ptrMap U mapMap and bisimilarity under it. *)
From Coq Require Import List NArith ZArith Bool Lia.
From Dials Require Import Base.Outcome Base.Runes Reflect.Ty Reflect.Heap Copy.DeepCopy.
Import ListNotations.
Open Scope N_scope.

(* ---- well-formed finite input heaps ---- *)

(* every reference is an address below n0 *)
Definition refs_below (n0 : N) (rs : list (rkind * addr)) : Prop :=
  forall k b, In (k, b) rs -> b < n0.

Definition refs_belowb (n0 : N) (rs : list (rkind * addr)) : bool :=
  forallb (fun kb => snd kb <? n0) rs.

(* h is a finite heap whose objects all live below n0 and is closed: no
   object mentions an address outside [0, n0).  (A dangling or ill-kinded
   reference makes the copier return IllFormed, never OutOfFuel.) *)
Definition wf_heap (h : heap) (n0 : N) : Prop :=
  forall a o, hget h a = Some o -> a < n0 /\ refs_below n0 (obj_refs o).

Definition wf_heapb (h : heap) (n0 : N) : bool :=
  forallb (fun ao => (fst ao <? n0) && refs_belowb n0 (obj_refs (snd ao))) h.

(* slices held inline by the contents of an object *)
Definition obj_islices (o : obj) : list sref :=
  match o with
  | OCell v => inline_slices v
  | OMap kvs => flat_map (fun kv => inline_slices (fst kv) ++ inline_slices (snd kv)) kvs
  | OArr es => flat_map inline_slices es
  end.

(* The copier has no memo for slices, so a chain of slices that never passes
   a pointer or a map must be finite: rk ranks the backing arrays such that
   a slice held inline in an array's elements refers to an array of smaller
   rank (a cycle made of slices and interface values only, s[0] = s with
   s []interface{}, has no such ranking and is outside C03).  R bounds the
   ranks, D the nesting depth of inline values. *)
Definition rank_of (rk : list (addr * nat)) (a : addr) : nat :=
  (fix go (l : list (addr * nat)) : nat :=
     match l with
     | [] => O
     | (b, r) :: t => if a =? b then r else go t
     end) rk.

Definition wf_rank (h : heap) (R D : nat) (rk : list (addr * nat)) : Prop :=
  forall a o, hget h a = Some o ->
    (obj_depth o <= D)%nat /\
    (forall s, In s (obj_islices o) -> (rank_of rk (s_arr s) < R)%nat) /\
    (forall es, o = OArr es -> forall s, In s (obj_islices o) -> (rank_of rk (s_arr s) < rank_of rk a)%nat).

Definition wf_rankb (h : heap) (R D : nat) (rk : list (addr * nat)) : bool :=
  forallb (fun ao =>
    let o := snd ao in
    Nat.leb (obj_depth o) D &&
    forallb (fun s => Nat.ltb (rank_of rk (s_arr s)) R) (obj_islices o) &&
    match o with
    | OArr _ => forallb (fun s => Nat.ltb (rank_of rk (s_arr s)) (rank_of rk (fst ao))) (obj_islices o)
    | _ => true
    end) h.

Definition wf_root (n0 : N) (R D : nat) (rk : list (addr * nat)) (v : hv) : Prop :=
  refs_below n0 (refs v) /\ (depth v <= D)%nat /\ (forall s, In s (inline_slices v) -> (rank_of rk (s_arr s) < R)%nat).

Definition wf_rootb (n0 : N) (R D : nat) (rk : list (addr * nat)) (v : hv) : bool :=
  refs_belowb n0 (refs v) && Nat.leb (depth v) D &&
  forallb (fun s => Nat.ltb (rank_of rk (s_arr s)) R) (inline_slices v).

(* the decidable guard of the C03 theorems *)
Definition c03_guard (h : heap) (n0 : N) (R D : nat) (rk : list (addr * nat)) (v : hv) : bool :=
  wf_heapb h n0 && wf_rankb h R D rk && wf_rootb n0 R D rk v.

(* ---- the relation R and bisimilarity ---- *)

(* v (in the input) and v' (in the output) are related: same shape and
   contents, pointers related by ptrMap, maps by mapMap, unexported fields
   identical; slices have no identity: same len and cap and related windows *)
Inductive vrel (pm mm : amap) (H : heap) : hv -> hv -> Prop :=
| vr_leaf : forall x, vrel pm mm H (HLeaf x) (HLeaf x)
| vr_priv : forall x, vrel pm mm H (HPriv x) (HPriv x)
| vr_niface : vrel pm mm H HNilIface HNilIface
| vr_pnil : vrel pm mm H (HPtr None) (HPtr None)
| vr_mnil : vrel pm mm H (HMap None) (HMap None)
| vr_snil : vrel pm mm H (HSlice None) (HSlice None)
| vr_ptr : forall a a', In (a, a') pm -> vrel pm mm H (HPtr (Some a)) (HPtr (Some a'))
| vr_map : forall a a', In (a, a') mm -> vrel pm mm H (HMap (Some a)) (HMap (Some a'))
| vr_slice : forall s s' es es',
    hget H (s_arr s) = Some (OArr es) -> hget H (s_arr s') = Some (OArr es') ->
    s_len s = s_len s' -> s_cap s = s_cap s' ->
    vrels pm mm H (window es (s_off s) (s_cap s)) (window es' (s_off s') (s_cap s')) ->
    vrel pm mm H (HSlice (Some s)) (HSlice (Some s'))
| vr_iface : forall t x x', vrel pm mm H x x' -> vrel pm mm H (HIface t x) (HIface t x')
| vr_struct : forall l l', vrels pm mm H l l' -> vrel pm mm H (HStruct l) (HStruct l')
| vr_array : forall l l', vrels pm mm H l l' -> vrel pm mm H (HArray l) (HArray l')
with vrels (pm mm : amap) (H : heap) : list hv -> list hv -> Prop :=
| vrs_nil : vrels pm mm H [] []
| vrs_cons : forall x x' l l', vrel pm mm H x x' -> vrels pm mm H l l' -> vrels pm mm H (x :: l) (x' :: l').

Scheme vrel_ind2 := Induction for vrel Sort Prop
  with vrels_ind2 := Induction for vrels Sort Prop.
Combined Scheme vrel_vrels_ind from vrel_ind2, vrels_ind2.

Inductive kvrels (pm mm : amap) (H : heap) : list (hv * hv) -> list (hv * hv) -> Prop :=
| kvr_nil : kvrels pm mm H [] []
| kvr_cons : forall k k' v v' l l', vrel pm mm H k k' -> vrel pm mm H v v' -> kvrels pm mm H l l' ->
    kvrels pm mm H ((k, v) :: l) ((k', v') :: l').

(* R = pm U mm is a bisimulation on H: related nodes have related contents *)
Definition bisim (pm mm : amap) (H : heap) : Prop :=
  (forall a a', In (a, a') pm ->
     exists x x', hget H a = Some (OCell x) /\ hget H a' = Some (OCell x') /\ vrel pm mm H x x') /\
  (forall m m', In (m, m') mm ->
     exists kvs kvs', hget H m = Some (OMap kvs) /\ hget H m' = Some (OMap kvs') /\ kvrels pm mm H kvs kvs').

(* a relation given as an association list is functional / injective *)
Definition functional (m : amap) : Prop := forall a b b', In (a, b) m -> In (a, b') m -> b = b'.
Definition injective (m : amap) : Prop := forall a a' b, In (a, b) m -> In (a', b) m -> a = a'.

(* one step of the points-to graph: object a holds (through exported fields) a reference to b *)
Definition edge (H : heap) (a b : addr) : Prop :=
  exists o k, hget H a = Some o /\ In (k, b) (obj_refs o).

(* pointer and map nodes reachable from a value through exported fields; a
   slice gives access to its window [off, off+cap) of the backing array only *)
Inductive wreach (H : heap) : hv -> rkind -> addr -> Prop :=
| wr_ptr : forall a, wreach H (HPtr (Some a)) RCell a
| wr_ptr_in : forall a x k b, hget H a = Some (OCell x) -> wreach H x k b -> wreach H (HPtr (Some a)) k b
| wr_map : forall m, wreach H (HMap (Some m)) RMap m
| wr_map_key : forall m kvs ky vl k b, hget H m = Some (OMap kvs) -> In (ky, vl) kvs -> wreach H ky k b ->
    wreach H (HMap (Some m)) k b
| wr_map_val : forall m kvs ky vl k b, hget H m = Some (OMap kvs) -> In (ky, vl) kvs -> wreach H vl k b ->
    wreach H (HMap (Some m)) k b
| wr_slice : forall s es x k b, hget H (s_arr s) = Some (OArr es) -> In x (window es (s_off s) (s_cap s)) ->
    wreach H x k b -> wreach H (HSlice (Some s)) k b
| wr_iface : forall t x k b, wreach H x k b -> wreach H (HIface t x) k b
| wr_struct : forall l x k b, In x l -> wreach H x k b -> wreach H (HStruct l) k b
| wr_array : forall l x k b, In x l -> wreach H x k b -> wreach H (HArray l) k b.

(* a is related to a' by R = pm U mm, as a node of kind k *)
Definition related (pm mm : amap) (k : rkind) (a a' : addr) : Prop :=
  match k with RCell => In (a, a') pm | RMap => In (a, a') mm | RArr => False end.

(* ---- kind-correct heaps: what makes the copier succeed (never IllFormed) ---- *)
(* the dynamic value of an interface is a concrete value *)
Fixpoint shape_ok (v : hv) : bool :=
  match v with
  | HIface _ x => match x with HPriv _ | HNilIface | HIface _ _ => false | _ => shape_ok x end
  | HStruct l | HArray l => forallb shape_ok l
  | _ => true
  end.

(* every reference leads to an object of the right kind; every slice lies inside its backing array *)
Definition refs_ok (h : heap) (rs : list (rkind * addr)) : bool :=
  forallb (fun kb => match hget h (snd kb) with Some o => rkind_eqb (obj_kind o) (fst kb) | None => false end) rs.

Definition slices_ok (h : heap) (ss : list sref) : bool :=
  forallb (fun s => match hget h (s_arr s) with Some (OArr es) => slice_ok s es | _ => false end) ss.

Definition obj_shape_ok (o : obj) : bool :=
  match o with
  | OCell v => shape_ok v
  | OMap kvs => forallb (fun kv => shape_ok (fst kv) && shape_ok (snd kv)) kvs
  | OArr es => forallb shape_ok es
  end.

Definition wf_kindsb (h : heap) : bool :=
  forallb (fun ao => refs_ok h (obj_refs (snd ao)) && slices_ok h (obj_islices (snd ao)) && obj_shape_ok (snd ao)) h.

(* propositional form (per binding that hget can see) *)
Definition wf_kinds (h : heap) : Prop :=
  forall a o, hget h a = Some o ->
    refs_ok h (obj_refs o) = true /\ slices_ok h (obj_islices o) = true /\ obj_shape_ok o = true.

Definition root_kindsb (h : heap) (v : hv) : bool :=
  refs_ok h (refs v) && slices_ok h (inline_slices v) && shape_ok v.

(* the full decidable guard: finite, closed, ranked, kind-correct *)
Definition c03_guard_total (h : heap) (n0 : N) (R D : nat) (rk : list (addr * nat)) (v : hv) : bool :=
  c03_guard h n0 R D rk v && wf_kindsb h && root_kindsb h v.
