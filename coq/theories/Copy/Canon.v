(* Canonical forms of rooted heap graphs (definitions only; used by the
   correspondence checks of C02 and C03, evaluated by vm_compute).

   canon split fuel h c v  walks the graph below v depth first (struct fields,
   elements and map entries in order), gives every pointer cell, map and
   backing array the number of its first visit and returns the renumbered
   value together with the renumbered objects in order of completion.  Two
   rooted graphs have the same canonical form iff they are isomorphic: same
   contents, same dynamic types, and the same alias partition (which
   references are identical), hence cycles of the same shape.

   split = false: backing arrays are nodes with identity (offset, len, cap and
                  the whole array are kept): exact comparison of two outputs.
                  Slices of capacity 0 own no memory and have no identity: each
                  occurrence gets a number of its own (two struct fields holding
                  the same empty slice header are not "sharing" anything).
   split = true : every slice occurrence is unfolded into its own copy of its
                  window [off, off+cap): identity of backing arrays is ignored,
                  as reflect.DeepEqual does and as the copier does by design
                  (slices sharing an array are split); used to compare an
                  input with its copy.
   HPriv is kept verbatim (the copier carries unexported fields over). *)
From Coq Require Import List NArith ZArith Bool.
From Dials Require Import Base.Outcome Base.Runes Reflect.Ty Reflect.Heap Copy.DeepCopy.
Import ListNotations.
Open Scope N_scope.

Record cn := mk_cn { n_seen : amap; n_next : N; n_out : list (N * obj) }.

Definition cn0 : cn := mk_cn [] 0 [].

Definition cn_visit (c : cn) (a : addr) : cn := mk_cn ((a, n_next c) :: n_seen c) (n_next c + 1) (n_out c).
Definition cn_fresh (c : cn) : cn := mk_cn (n_seen c) (n_next c + 1) (n_out c).
Definition cn_emit (c : cn) (k : N) (o : obj) : cn := mk_cn (n_seen c) (n_next c) ((k, o) :: n_out c).

Fixpoint canon (split : bool) (fuel : nat) (h : heap) (c : cn) (v : hv) {struct fuel} : res (cn * hv) :=
  match fuel with
  | O => OutOfFuel
  | S f =>
    match v with
    | HLeaf _ | HNilIface | HPriv _ | HPtr None | HMap None | HSlice None => Done (c, v)
    | HStruct l => p <~ map_st (canon split f h) c l ;; Done (fst p, HStruct (snd p))
    | HArray l => p <~ map_st (canon split f h) c l ;; Done (fst p, HArray (snd p))
    | HIface t x => p <~ canon split f h c x ;; Done (fst p, HIface t (snd p))
    | HPtr (Some a) =>
        match alookup (n_seen c) a with
        | Some k => Done (c, HPtr (Some k))
        | None =>
            match hget h a with
            | Some (OCell x) =>
                let k := n_next c in
                p <~ canon split f h (cn_visit c a) x ;;
                Done (cn_emit (fst p) k (OCell (snd p)), HPtr (Some k))
            | _ => IllFormed
            end
        end
    | HMap (Some a) =>
        match alookup (n_seen c) a with
        | Some k => Done (c, HMap (Some k))
        | None =>
            match hget h a with
            | Some (OMap kvs) =>
                let k := n_next c in
                p <~ map_kvs (canon split f h) (cn_visit c a) kvs ;;
                Done (cn_emit (fst p) k (OMap (snd p)), HMap (Some k))
            | _ => IllFormed
            end
        end
    | HSlice (Some s) =>
        match hget h (s_arr s) with
        | Some (OArr es) =>
            if negb (slice_ok s es) then IllFormed
            else if split then
              let k := n_next c in
              p <~ map_st (canon split f h) (cn_fresh c) (window es (s_off s) (s_cap s)) ;;
              Done (cn_emit (fst p) k (OArr (snd p)), HSlice (Some (mk_sref k 0 (s_len s) (s_cap s))))
            else if s_cap s =? 0 then
              (* a slice of capacity 0 owns no memory (Go hands out runtime.zerobase or keeps
                 any pointer): no identity - numbered per occurrence, as the walker does *)
              let k := n_next c in
              Done (cn_emit (cn_fresh c) k (OArr []), HSlice (Some (mk_sref k 0 (s_len s) 0)))
            else
              match alookup (n_seen c) (s_arr s) with
              | Some k => Done (c, HSlice (Some (mk_sref k (s_off s) (s_len s) (s_cap s))))
              | None =>
                  let k := n_next c in
                  p <~ map_st (canon split f h) (cn_visit c (s_arr s)) es ;;
                  Done (cn_emit (fst p) k (OArr (snd p)), HSlice (Some (mk_sref k (s_off s) (s_len s) (s_cap s))))
              end
        | _ => IllFormed
        end
    end
  end.

Fixpoint out_eqb (a b : list (N * obj)) : bool :=
  match a, b with
  | [], [] => true
  | (k, o) :: a', (k', o') :: b' => (k =? k') && obj_eqb o o' && out_eqb a' b'
  | _, _ => false
  end.

(* canonical form of the graph below v in h *)
Definition canon_of (split : bool) (fuel : nat) (h : heap) (v : hv) : res (list (N * obj) * hv) :=
  p <~ canon split fuel h cn0 v ;; Done (n_out (fst p), snd p).

Definition canon_eqb (a b : res (list (N * obj) * hv)) : bool :=
  match a, b with
  | Done (oa, va), Done (ob, vb) => hv_eqb va vb && out_eqb oa ob
  | _, _ => false
  end.

(* addresses of the objects reachable from v (through exported fields) *)
Definition reach_addrs (fuel : nat) (h : heap) (v : hv) : res (list addr) :=
  p <~ canon false fuel h cn0 v ;; Done (map fst (n_seen (fst p))).

Definition all_ge (n : N) (l : list addr) : bool := forallb (fun a => n <=? a) l.
Definition all_lt (n : N) (l : list addr) : bool := forallb (fun a => a <? n) l.

Fixpoint mem (a : addr) (l : list addr) : bool :=
  match l with [] => false | b :: r => (a =? b) || mem a r end.
Definition disjointb (l1 l2 : list addr) : bool := forallb (fun a => negb (mem a l2)) l1.

(* a fuel that is enough for every walk over h (depth of the recursion) *)
Definition heap_depth (h : heap) : nat := fold_right (fun ao m => Nat.max (obj_depth (snd ao)) m) O h.
Definition walk_fuel (h : heap) (v : hv) : nat :=
  ((2 * length h + 2) * (length h + 2) * (Nat.max (heap_depth h) (depth v) + 2))%nat.

(* ---- a ranking of the backing arrays for the slice-acyclicity guard wf_rankb,
   computed by a fuelled DFS: rank a = 0 when no element of a holds a slice
   inline, else 1 + the largest rank of the arrays those slices refer to.  (The
   guard itself re-checks the ranking, so nothing has to be proved about this
   computation; on a cycle made of slices only it runs out of fuel and the guard
   fails.) ---- *)
Definition obj_inline_slices (o : obj) : list sref :=
  match o with
  | OCell v => inline_slices v
  | OMap kvs => flat_map (fun kv => inline_slices (fst kv) ++ inline_slices (snd kv)) kvs
  | OArr es => flat_map inline_slices es
  end.

(* longest-path ranks over an edge list, by n rounds of relaxation (polynomial:
   rounds x nodes x out-degree x lookup; a naive recursive longest-path is
   exponential on diamond-shaped graphs).  rank a = 0 without successors, else
   1 + the largest rank of a successor as of the previous round; after as many
   rounds as there are nodes the ranks of an acyclic graph are final, on a cycle
   they keep growing and the guard that re-checks them fails. *)
Definition rank_lookup (rk : list (addr * nat)) (a : addr) : nat :=
  (fix go (l : list (addr * nat)) : nat :=
     match l with [] => O | (b, r) :: t => if a =? b then r else go t end) rk.

Definition rank_round (edges : list (addr * list addr)) (rk : list (addr * nat)) : list (addr * nat) :=
  map (fun e => (fst e, fold_right (fun b m => Nat.max (S (rank_lookup rk b)) m) O (snd e))) edges.

Fixpoint iter_ranks (n : nat) (edges : list (addr * list addr)) (rk : list (addr * nat)) : list (addr * nat) :=
  match n with O => rk | S k => iter_ranks k edges (rank_round edges rk) end.

(* backing arrays and the arrays the slices held inline in their elements refer to *)
Definition arr_edges (h : heap) : list (addr * list addr) :=
  flat_map (fun ao => match snd ao with
                      | OArr es => [(fst ao, map s_arr (flat_map inline_slices es))]
                      | _ => []
                      end) h.

Definition compute_rk (h : heap) : list (addr * nat) :=
  let edges := arr_edges h in iter_ranks (S (length edges)) edges [].

Definition rank_bound (rk : list (addr * nat)) : nat := S (fold_right (fun ar m => Nat.max (snd ar) m) O rk).

(* ---- type graphs (finding 15): nodes are struct types, an edge for every
   exported, non-omitted field whose type is that struct or a pointer to it.
   Pointerify recurses along exactly these edges whatever the values are, so
   it cannot terminate iff a cycle is reachable from the root. ---- *)
Definition tgraph := list (N * list N).

Fixpoint tg_succ (g : tgraph) (t : N) : list N :=
  match g with
  | [] => []
  | (u, l) :: r => if t =? u then l else tg_succ r t
  end.

Fixpoint tg_cyclic (fuel : nat) (g : tgraph) (path : list N) (t : N) : bool :=
  if mem t path then true
  else match fuel with
       | O => false
       | S f => existsb (tg_cyclic f g (t :: path)) (tg_succ g t)
       end.

Definition type_reaches_itself (g : tgraph) (root : N) : bool :=
  tg_cyclic (S (length g)) g [] root.
