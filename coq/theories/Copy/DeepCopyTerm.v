(* Termination of the fixed deep copier with an explicit fuel bound:
   measure = (number of pointer / map nodes not yet in a memo table,
              rank of the backing array being walked, inline nesting depth). *)
From Coq Require Import List NArith ZArith Bool Lia Arith.
From Dials Require Import Base.Outcome Base.Runes Reflect.Ty Reflect.Heap Copy.DeepCopy Copy.DeepCopySpec
  Copy.DeepCopyBasics Copy.DeepCopyInv.
Import ListNotations.
Open Scope N_scope.
Local Arguments hset : simpl never.
Local Arguments hget : simpl never.

(* ---- the shape of an out-of-fuel run ---- *)
Lemma map_st_oof {S} (g : S -> hv -> res (S * hv)) : forall l st,
  map_st g st l = OutOfFuel ->
  exists l1 x l2 st1 l1', l = l1 ++ x :: l2 /\ map_st g st l1 = Done (st1, l1') /\ g st1 x = OutOfFuel.
Proof.
  induction l as [|x r IH]; intros st H; [discriminate|].
  simpl in H. apply rbind_oof in H as [H|[[st1 x'] [H1 H]]].
  - exists [], x, r, st, []. auto.
  - apply rbind_oof in H as [H|[[st2 r'] [H2 H]]]; [|discriminate].
    simpl in H. apply IH in H as (l1 & y & l2 & st3 & l1' & -> & Hm & Hg).
    exists (x :: l1), y, l2, st3, (x' :: l1'). split; [reflexivity|]. split; auto.
    simpl. rewrite H1. simpl. rewrite Hm. reflexivity.
Qed.

Lemma map_kvs_oof {S} (g : S -> hv -> res (S * hv)) : forall l st,
  map_kvs g st l = OutOfFuel ->
  exists l1 k v l2 st1 l1', l = l1 ++ (k, v) :: l2 /\ map_kvs g st l1 = Done (st1, l1') /\
    (g st1 k = OutOfFuel \/ exists st2 k', g st1 k = Done (st2, k') /\ g st2 v = OutOfFuel).
Proof.
  induction l as [|[k v] r IH]; intros st H; [discriminate|].
  simpl in H. apply rbind_oof in H as [H|[[st1 k'] [H1 H]]].
  - exists [], k, v, r, st, []. auto.
  - apply rbind_oof in H as [H|[[st2 v'] [H2 H]]].
    + simpl in H. exists [], k, v, r, st, []. split; [reflexivity|]. split; [reflexivity|]. right. eauto.
    + apply rbind_oof in H as [H|[[st3 r'] [H3 H]]]; [|discriminate].
      simpl in H, H2. apply IH in H as (l1 & k2 & v2 & l2 & st4 & l1' & -> & Hm & Hg).
      exists ((k, v) :: l1), k2, v2, l2, st4, ((k', v') :: l1'). split; [reflexivity|]. split; auto.
      simpl. rewrite H1. simpl. rewrite H2. simpl. rewrite Hm. reflexivity.
Qed.

Inductive oof_step (f : nat) (st : cst) : hv -> Prop :=
| os_struct : forall l, map_st (copy true f) st l = OutOfFuel -> oof_step f st (HStruct l)
| os_array : forall l, map_st (copy true f) st l = OutOfFuel -> oof_step f st (HArray l)
| os_ptr : forall a x, alookup (c_pm st) a = None -> hget (c_heap st) a = Some (OCell x) ->
    copy true f (st_alloc_pm st a) x = OutOfFuel -> oof_step f st (HPtr (Some a))
| os_map : forall m kvs, alookup (c_mm st) m = None -> hget (c_heap st) m = Some (OMap kvs) ->
    map_kvs (copy true f) (st_alloc_mm st m) kvs = OutOfFuel -> oof_step f st (HMap (Some m))
| os_slice : forall s es, hget (c_heap st) (s_arr s) = Some (OArr es) ->
    map_st (copy true f) (st_alloc st) (window es (s_off s) (s_cap s)) = OutOfFuel -> oof_step f st (HSlice (Some s))
| os_iface : forall t x, copy true f st x = OutOfFuel -> oof_step f st (HIface t x).

Lemma copy_oof_inv f st v : copy true (S f) st v = OutOfFuel -> oof_step f st v.
Proof.
  intro H. simpl in H.
  destruct v as [x| [a|] | [m|] | [s|] | | t x | x | l | l]; try discriminate.
  - destruct (alookup (c_pm st) a) eqn:Hl; [discriminate|].
    destruct (hget (c_heap st) a) as [[x|?|?]|] eqn:Hg; try discriminate.
    apply rbind_oof in H as [H|[[? ?] [? H]]]; [|discriminate]. eapply os_ptr; eauto.
  - destruct (alookup (c_mm st) m) eqn:Hl; [discriminate|].
    destruct (hget (c_heap st) m) as [[?|kvs|?]|] eqn:Hg; try discriminate.
    apply rbind_oof in H as [H|[[? ?] [? H]]]; [|discriminate]. eapply os_map; eauto.
  - destruct (hget (c_heap st) (s_arr s)) as [[?|?|es]|] eqn:Hg; try discriminate.
    destruct (slice_ok s es); try discriminate.
    apply rbind_oof in H as [H|[[? ?] [? H]]]; [|discriminate]. eapply os_slice; eauto.
  - destruct x as [y| p | [m|] | s | | t' y | y | l | l]; try discriminate;
      (apply rbind_oof in H as [H|[[? ?] [? H]]]; [|discriminate]; apply os_iface; auto).
  - apply rbind_oof in H as [H|[[? ?] [? H]]]; [|discriminate]. apply os_struct; auto.
  - apply rbind_oof in H as [H|[[? ?] [? H]]]; [|discriminate]. apply os_array; auto.
Qed.

(* ---- counting ---- *)
Lemma bounded_nodup_length (l : list N) (n : N) :
  NoDup l -> (forall x, In x l -> x < n) -> (length l <= N.to_nat n)%nat.
Proof.
  intros Hnd Hb.
  assert (Hincl : incl l (map N.of_nat (seq 0 (N.to_nat n)))).
  { intros x Hx. apply Hb in Hx. apply in_map_iff. exists (N.to_nat x). split; [lia|].
    apply in_seq. lia. }
  apply NoDup_incl_length in Hincl; auto. rewrite map_length, seq_length in Hincl. exact Hincl.
Qed.

Section Term.
Variables (h0 : heap) (n0 : N) (R D : nat) (rk : list (addr * nat)).
Hypothesis Hwf : wf_heap h0 n0.
Hypothesis Hrk : wf_rank h0 R D rk.

Definition srank (ss : list sref) : nat :=
  fold_right (fun s m => Nat.max (S (rank_of rk (s_arr s))) m) O ss.

Lemma srank_cons s r : srank (s :: r) = Nat.max (S (rank_of rk (s_arr s))) (srank r).
Proof. reflexivity. Qed.

Lemma srank_le ss n : (forall s, In s ss -> (rank_of rk (s_arr s) < n)%nat) -> (srank ss <= n)%nat.
Proof.
  induction ss as [|s r IH]; intro H; [simpl; lia|].
  rewrite srank_cons. apply Nat.max_lub; [apply H; left; auto|apply IH; intros; apply H; right; auto].
Qed.

Lemma srank_in s ss : In s ss -> (rank_of rk (s_arr s) < srank ss)%nat.
Proof.
  induction ss as [|y r IH]; [intros []|]. rewrite srank_cons.
  intros [->|H]; [lia|]. apply IH in H. lia.
Qed.

Lemma srank_incl a b : incl a b -> (srank a <= srank b)%nat.
Proof. intro Hi. apply srank_le. intros s Hs. apply srank_in. apply Hi. exact Hs. Qed.

Lemma depth_in x l : In x l -> (depth x <= depth_list l)%nat.
Proof.
  unfold depth_list. induction l as [|y r IH]; simpl; [contradiction|].
  intros [->|H]; [lia|]. apply IH in H. lia.
Qed.

Lemma depth_pos v : (1 <= depth v)%nat.
Proof. destruct v; simpl; lia. Qed.

Definition unvisited (st : cst) : nat :=
  ((N.to_nat n0 - length (c_pm st)) + (N.to_nat n0 - length (c_mm st)))%nat.

Definition K : nat := ((R + 1) * (D + 1))%nat.

Definition bound (st : cst) (v : hv) : nat :=
  (unvisited st * K + srank (inline_slices v) * (D + 1) + depth v)%nat.

Lemma ext_unvisited st st' : ext st st' -> (unvisited st' <= unvisited st)%nat.
Proof.
  intros [_ _ [d [Hp _]] [e [Hm _]]]. unfold unvisited. rewrite Hp, Hm, !app_length. lia.
Qed.

Lemma pm_room st a : inv h0 n0 st -> a < n0 -> alookup (c_pm st) a = None ->
  (length (c_pm st) < N.to_nat n0)%nat.
Proof.
  intros I Ha Hl.
  assert (H : (length (a :: map fst (c_pm st)) <= N.to_nat n0)%nat).
  { apply bounded_nodup_length.
    - constructor; [apply alookup_None; auto|apply (i_pm_nd _ _ _ I)].
    - intros x [<-|Hx]; auto. apply in_map_iff in Hx as [[p q] [<- Hin]]. apply (i_pm _ _ _ I) in Hin. tauto. }
  simpl in H. rewrite map_length in H. lia.
Qed.

Lemma mm_room st a : inv h0 n0 st -> a < n0 -> alookup (c_mm st) a = None ->
  (length (c_mm st) < N.to_nat n0)%nat.
Proof.
  intros I Ha Hl.
  assert (H : (length (a :: map fst (c_mm st)) <= N.to_nat n0)%nat).
  { apply bounded_nodup_length.
    - constructor; [apply alookup_None; auto|apply (i_mm_nd _ _ _ I)].
    - intros x [<-|Hx]; auto. apply in_map_iff in Hx as [[p q] [<- Hin]]. apply (i_mm _ _ _ I) in Hin. tauto. }
  simpl in H. rewrite map_length in H. lia.
Qed.

(* facts about the contents of input objects *)
Lemma obj_facts st a o : inv h0 n0 st -> a < n0 -> hget (c_heap st) a = Some o ->
  (obj_depth o <= D)%nat /\ (srank (obj_islices o) <= R)%nat /\
  (forall es, o = OArr es -> (srank (obj_islices o) <= rank_of rk a)%nat).
Proof.
  intros I Ha H. rewrite (i_frame _ _ _ I) in H by auto. apply Hrk in H as (Hd & Hr & Ha').
  split; [auto|split].
  - apply srank_le. auto.
  - intros es E. apply srank_le. eauto.
Qed.

Lemma inline_in_list x l : In x l -> incl (inline_slices x) (flat_map inline_slices l).
Proof. intros Hx s Hs. apply in_flat_map. exists x; auto. Qed.

Section Step.
Variable f : nat.
Hypothesis IH : forall st v, inv h0 n0 st -> refs_below n0 (refs v) -> (bound st v <= f)%nat ->
  copy true f st v <> OutOfFuel.

(* every element fits: no element of the list runs out of fuel *)
Lemma map_st_no_oof l st u sr d :
  inv h0 n0 st -> refs_below n0 (refs_list l) ->
  (unvisited st <= u)%nat ->
  (forall x, In x l -> (srank (inline_slices x) <= sr)%nat /\ (depth x <= d)%nat) ->
  (u * K + sr * (D + 1) + d <= f)%nat ->
  map_st (copy true f) st l <> OutOfFuel.
Proof.
  intros I Hb Hu Hx Hf Hoof.
  apply map_st_oof in Hoof as (l1 & x & l2 & st1 & l1' & -> & Hm & Hg).
  unfold refs_list in Hb. rewrite flat_map_app in Hb. apply refs_below_app in Hb as [Hb1 Hb2].
  simpl in Hb2. apply refs_below_app in Hb2 as [Hbx _].
  apply (map_st_copy_post h0 n0 Hwf) in Hm as (I1 & E1 & _); auto.
  revert Hg. apply IH; auto.
  destruct (Hx x) as [Hs Hd]; [apply in_or_app; right; left; auto|].
  apply ext_unvisited in E1. unfold bound.
  assert (unvisited st1 * K <= u * K)%nat by (apply Nat.mul_le_mono_r; lia).
  assert (srank (inline_slices x) * (D + 1) <= sr * (D + 1))%nat by (apply Nat.mul_le_mono_r; lia).
  lia.
Qed.

Lemma map_kvs_no_oof l st u sr d :
  inv h0 n0 st -> refs_below n0 (refs_kvs l) ->
  (unvisited st <= u)%nat ->
  (forall k v, In (k, v) l -> (srank (inline_slices k) <= sr)%nat /\ (depth k <= d)%nat /\
                              (srank (inline_slices v) <= sr)%nat /\ (depth v <= d)%nat) ->
  (u * K + sr * (D + 1) + d <= f)%nat ->
  map_kvs (copy true f) st l <> OutOfFuel.
Proof.
  intros I Hb Hu Hx Hf Hoof.
  apply map_kvs_oof in Hoof as (l1 & k & v & l2 & st1 & l1' & -> & Hm & Hg).
  unfold refs_kvs in Hb. rewrite flat_map_app in Hb. apply refs_below_app in Hb as [Hb1 Hb2].
  simpl in Hb2. apply refs_below_app in Hb2 as [Hbkv _]. apply refs_below_app in Hbkv as [Hbk Hbv].
  apply (map_kvs_copy_post h0 n0 Hwf) in Hm as (I1 & E1 & _); auto.
  destruct (Hx k v) as (Hsk & Hdk & Hsv & Hdv); [apply in_or_app; right; left; auto|].
  apply ext_unvisited in E1.
  assert (unvisited st1 * K <= u * K)%nat by (apply Nat.mul_le_mono_r; lia).
  destruct Hg as [Hg|(st2 & k' & Hk & Hg)].
  - revert Hg. apply IH; auto. unfold bound.
    assert (srank (inline_slices k) * (D + 1) <= sr * (D + 1))%nat by (apply Nat.mul_le_mono_r; lia).
    lia.
  - apply (copy_post h0 n0 Hwf) in Hk as (I2 & E2 & _); auto.
    revert Hg. apply IH; auto. unfold bound. apply ext_unvisited in E2.
    assert (unvisited st2 * K <= u * K)%nat by (apply Nat.mul_le_mono_r; lia).
    assert (srank (inline_slices v) * (D + 1) <= sr * (D + 1))%nat by (apply Nat.mul_le_mono_r; lia).
    lia.
Qed.

Lemma step_no_oof st v : inv h0 n0 st -> refs_below n0 (refs v) -> (bound st v <= S f)%nat ->
  ~ oof_step f st v.
Proof.
  intros I Hb Hf Hs. unfold bound in Hf. destruct Hs.
  - (* struct *) revert H. simpl in Hf.
    eapply map_st_no_oof with (u := unvisited st) (sr := srank (flat_map inline_slices l)) (d := depth_list l); auto.
    + intros x Hx. split; [apply srank_incl, inline_in_list; auto|apply depth_in; auto].
    + unfold depth_list. lia.
  - revert H. simpl in Hf.
    eapply map_st_no_oof with (u := unvisited st) (sr := srank (flat_map inline_slices l)) (d := depth_list l); auto.
    + intros x Hx. split; [apply srank_incl, inline_in_list; auto|apply depth_in; auto].
    + unfold depth_list. lia.
  - (* pointer *)
    assert (Ha : a < n0) by (apply (Hb RCell a); simpl; auto).
    destruct (obj_facts st a _ I Ha H0) as (Hd & Hr & _). simpl in Hd, Hr.
    pose proof (pm_room st a I Ha H) as Hroom.
    revert H1. apply IH.
    + apply inv_alloc_pm; auto.
    + eapply cell_refs_below; eauto.
    + unfold bound. simpl in Hf.
      assert (Hu : (unvisited (st_alloc_pm st a) + 1 = unvisited st)%nat).
      { unfold unvisited; simpl. lia. }
      assert (srank (inline_slices x) * (D + 1) <= R * (D + 1))%nat by (apply Nat.mul_le_mono_r; lia).
      assert (unvisited st * K = unvisited (st_alloc_pm st a) * K + K)%nat by (rewrite <- Hu; lia).
      unfold K in *. lia.
  - (* map *)
    assert (Ha : m < n0) by (apply (Hb RMap m); simpl; auto).
    destruct (obj_facts st m _ I Ha H0) as (Hd & Hr & _). simpl in Hd, Hr.
    pose proof (mm_room st m I Ha H) as Hroom.
    assert (Hu : (unvisited (st_alloc_mm st m) + 1 = unvisited st)%nat).
    { unfold unvisited; simpl. lia. }
    revert H1. simpl in Hf.
    eapply map_kvs_no_oof with (u := unvisited (st_alloc_mm st m)) (sr := R) (d := D); auto.
    + apply inv_alloc_mm; auto.
    + eapply map_refs_below; eauto.
    + intros k v Hin.
      assert (Hk : incl (inline_slices k) (flat_map (fun kv => inline_slices (fst kv) ++ inline_slices (snd kv)) kvs)).
      { intros s Hs. apply in_flat_map. exists (k, v). split; auto. simpl. apply in_or_app; auto. }
      assert (Hv : incl (inline_slices v) (flat_map (fun kv => inline_slices (fst kv) ++ inline_slices (snd kv)) kvs)).
      { intros s Hs. apply in_flat_map. exists (k, v). split; auto. simpl. apply in_or_app; auto. }
      apply srank_incl in Hk, Hv.
      assert (Hdd : (depth k <= D /\ depth v <= D)%nat).
      { clear - Hin Hd. induction kvs as [|[k1 v1] r IHr]; simpl in *; [contradiction|].
        destruct Hin as [E|Hin]; [inversion E; subst; lia|]. apply IHr; auto. lia. }
      lia.
    + assert (unvisited st * K = unvisited (st_alloc_mm st m) * K + K)%nat by (rewrite <- Hu; lia).
      unfold K in *. lia.
  - (* slice *)
    assert (Ha : s_arr s < n0) by (apply (Hb RArr (s_arr s)); simpl; auto).
    destruct (obj_facts st (s_arr s) _ I Ha H) as (Hd & Hr & Hlt). simpl in Hd, Hr.
    specialize (Hlt es eq_refl). simpl in Hlt.
    revert H0. simpl in Hf.
    eapply map_st_no_oof with (u := unvisited st) (sr := rank_of rk (s_arr s)) (d := D); auto.
    + apply inv_alloc; auto.
    + apply window_refs_below. eapply arr_refs_below; eauto.
    + intros x Hx. apply window_incl in Hx. split.
      * etransitivity; [apply srank_incl, inline_in_list; eauto|auto].
      * etransitivity; [apply depth_in; eauto|auto].
    + lia.
  - (* interface *)
    revert H. apply IH; auto. unfold bound. simpl in Hf. lia.
Qed.

End Step.

Lemma copy_no_oof : forall f st v, inv h0 n0 st -> refs_below n0 (refs v) -> (bound st v <= f)%nat ->
  copy true f st v <> OutOfFuel.
Proof.
  induction f; intros st v I Hb Hf.
  - unfold bound in Hf. pose proof (depth_pos v). lia.
  - intro H. apply copy_oof_inv in H. revert H. apply step_no_oof; auto.
Qed.

End Term.

(* boolean guards imply the propositional ones *)
Lemma wf_heapb_ok h n0 : wf_heapb h n0 = true -> wf_heap h n0.
Proof.
  intros H a o Hg. apply hget_In in Hg. unfold wf_heapb in H. rewrite forallb_forall in H.
  apply H in Hg. simpl in Hg. apply andb_true_iff in Hg as [H1 H2]. split; [apply N.ltb_lt; auto|].
  intros k b Hin. unfold refs_belowb in H2. rewrite forallb_forall in H2. apply H2 in Hin. apply N.ltb_lt; auto.
Qed.

Lemma wf_rankb_ok h R D rk : wf_rankb h R D rk = true -> wf_rank h R D rk.
Proof.
  intros H a o Hg. apply hget_In in Hg. unfold wf_rankb in H. rewrite forallb_forall in H.
  apply H in Hg. simpl in Hg. apply andb_true_iff in Hg as [Hg H3]. apply andb_true_iff in Hg as [H1 H2].
  split; [apply Nat.leb_le; auto|split].
  - intros s Hs. rewrite forallb_forall in H2. apply H2 in Hs. apply Nat.ltb_lt; auto.
  - intros es -> s Hs. rewrite forallb_forall in H3. apply H3 in Hs. apply Nat.ltb_lt; auto.
Qed.

Lemma wf_rootb_ok n0 R D rk v : wf_rootb n0 R D rk v = true -> wf_root n0 R D rk v.
Proof.
  unfold wf_rootb. intro H. apply andb_true_iff in H as [H H3]. apply andb_true_iff in H as [H1 H2].
  split; [|split].
  - intros k b Hin. unfold refs_belowb in H1. rewrite forallb_forall in H1. apply H1 in Hin. apply N.ltb_lt; auto.
  - apply Nat.leb_le; auto.
  - intros s Hs. rewrite forallb_forall in H3. apply H3 in Hs. apply Nat.ltb_lt; auto.
Qed.

Theorem deep_copy_terminates_l : forall h n0 R D rk v fuel,
  c03_guard h n0 R D rk v = true -> (copy_fuel n0 R D <= fuel)%nat ->
  deep_copy true fuel h n0 v <> OutOfFuel.
Proof.
  intros h n0 R D rk v fuel Hg Hf. unfold c03_guard in Hg.
  apply andb_true_iff in Hg as [Hg H3]. apply andb_true_iff in Hg as [H1 H2].
  apply wf_heapb_ok in H1. apply wf_rankb_ok in H2. apply wf_rootb_ok in H3 as (Hb & Hd & Hr).
  unfold deep_copy. eapply copy_no_oof; eauto.
  - apply inv_init; auto.
  - unfold bound, unvisited, copy_fuel in *. simpl.
    assert (srank rk (inline_slices v) <= R)%nat by (apply srank_le; auto).
    assert (srank rk (inline_slices v) * (D + 1) <= R * (D + 1))%nat by (apply Nat.mul_le_mono_r; lia).
    unfold K. nia.
Qed.
