(* Examples (non-vacuity of the guards), refutation witnesses for the pinned
   code (finding 2a), and the theorems in the form used by Properties/C03.v
   (decidable guards). *)
From Coq Require Import List NArith ZArith Bool Lia.
From Dials Require Import Base.Outcome Base.Runes Reflect.Ty Reflect.Heap Copy.DeepCopy Copy.DeepCopySpec
  Copy.DeepCopyBasics Copy.DeepCopyInv Copy.DeepCopyTerm Copy.DeepCopyBisim Copy.DeepCopySharing Copy.DeepCopyTotal Copy.Canon.
Import ListNotations.
Open Scope N_scope.

Lemma refs_belowb_ok n0 rs : refs_belowb n0 rs = true -> refs_below n0 rs.
Proof.
  intros H k b Hin. unfold refs_belowb in H. rewrite forallb_forall in H. apply H in Hin. apply N.ltb_lt; auto.
Qed.

(* ---- IN{Any; Anys; MA; Tag}: n.Any = n ---- *)
Definition h_any : heap :=
  [(0, OCell (HStruct [HIface 1 (HPtr (Some 0)); HSlice None; HMap None; HLeaf (VInt 0)]))].
Definition v_any : hv := HPtr (Some 0).

Example any_guard : c03_guard h_any 1 0 3 [] v_any = true.
Proof. vm_compute. reflexivity. Qed.

Example any_fixed_copies :
  match deep_copy true (copy_fuel 1 0 3) h_any 1 v_any with
  | Done (st, v) => hv_eqb v (HPtr (Some 1)) &&
      match hget (c_heap st) 1 with
      | Some o => obj_eqb o (OCell (HStruct [HIface 1 (HPtr (Some 1)); HSlice None; HMap None; HLeaf (VInt 0)]))
      | None => false
      end
  | _ => false
  end = true.
Proof. vm_compute. reflexivity. Qed.

(* finding 2a on the pinned code: the statement of deep_copy_terminates is
   false for fx = false - the copier re-allocates the payload forever *)
Theorem c03_unfixed_refuted :
  c03_guard h_any 1 0 3 [] v_any = true /\
  deep_copy false (copy_fuel 1 0 3) h_any 1 v_any = OutOfFuel.
Proof. split; vm_compute; reflexivity. Qed.

(* m["self"] = m *)
Definition h_mapself : heap :=
  [(0, OCell (HStruct [HNilIface; HSlice None; HMap (Some 1); HLeaf (VInt 0)]));
   (1, OMap [(HLeaf (VStr [115]), HIface 2 (HMap (Some 1)))])].

Theorem c03_unfixed_refuted_map :
  c03_guard h_mapself 2 0 3 [] v_any = true /\
  deep_copy false (copy_fuel 2 0 3) h_mapself 2 v_any = OutOfFuel /\
  (exists r, deep_copy true (copy_fuel 2 0 3) h_mapself 2 v_any = Done r).
Proof. split; [|split]; [vm_compute; reflexivity|vm_compute; reflexivity|eexists; vm_compute; reflexivity]. Qed.

(* a.Anys[0] = a *)
Definition h_anys : heap :=
  [(0, OCell (HStruct [HNilIface; HSlice (Some (mk_sref 1 0 1 1)); HMap None; HLeaf (VInt 0)]));
   (1, OArr [HIface 1 (HPtr (Some 0))])].

Theorem c03_unfixed_refuted_slice :
  c03_guard h_anys 2 1 3 [] v_any = true /\
  deep_copy false (copy_fuel 2 1 3) h_anys 2 v_any = OutOfFuel /\
  (exists r, deep_copy true (copy_fuel 2 1 3) h_anys 2 v_any = Done r).
Proof. split; [|split]; [vm_compute; reflexivity|vm_compute; reflexivity|eexists; vm_compute; reflexivity]. Qed.

(* sharing through interface values is split by the pinned code: x held twice *)
Definition h_share : heap :=
  [(0, OCell (HStruct [HIface 1 (HPtr (Some 1)); HSlice (Some (mk_sref 2 0 2 2)); HMap None; HLeaf (VInt 0)]));
   (1, OCell (HStruct [HNilIface; HSlice None; HMap None; HLeaf (VInt 1)]));
   (2, OArr [HIface 1 (HPtr (Some 1)); HIface 1 (HPtr (Some 1))])].

Example share_unfixed_splits :
  match deep_copy false (copy_fuel 3 1 3) h_share 3 v_any with
  | Done (st, v) => negb (canon_eqb (canon_of true 100 h_share v_any) (canon_of true 100 (c_heap st) v))
  | _ => false
  end = true.
Proof. vm_compute. reflexivity. Qed.

Example share_fixed_keeps :
  match deep_copy true (copy_fuel 3 1 3) h_share 3 v_any with
  | Done (st, v) => canon_eqb (canon_of true 100 h_share v_any) (canon_of true 100 (c_heap st) v)
  | _ => false
  end = true.
Proof. vm_compute. reflexivity. Qed.

(* ---- a graph with every kind of edge: slice elements, map values, array
   elements, a shared map, a 3-cycle, a slice held inline in a backing array
   (rank 2), cap > len, an unexported field and a chan token ---- *)
Definition h_mix : heap :=
  [(0, OCell (HStruct [HLeaf (VStr [97]); HSlice (Some (mk_sref 1 0 2 3)); HMap (Some 3);
                       HArray [HPtr (Some 2); HPtr None]; HLeaf (VOpaque 1); HPriv (HLeaf (VInt 7))]));
   (1, OArr [HPtr (Some 2); HPtr (Some 0); HPtr (Some 2)]);
   (2, OCell (HStruct [HLeaf (VStr [98]); HSlice (Some (mk_sref 1 1 1 2)); HMap (Some 3);
                       HArray [HPtr (Some 4); HPtr (Some 2)]; HLeaf VNil; HPriv (HLeaf (VInt 8))]));
   (3, OMap [(HLeaf (VStr [107]), HPtr (Some 4))]);
   (4, OCell (HStruct [HIface 5 (HSlice (Some (mk_sref 5 0 1 1))); HPtr (Some 0)]));
   (5, OArr [HSlice (Some (mk_sref 6 0 1 1))]);
   (6, OArr [HIface 1 (HPtr (Some 4))])].

Example mix_guard : c03_guard h_mix 7 3 4 [(5, 2%nat); (1, 1%nat); (6, 1%nat)] v_any = true.
Proof. vm_compute. reflexivity. Qed.

Example mix_copies :
  match deep_copy true (copy_fuel 7 3 4) h_mix 7 v_any with
  | Done (st, v) =>
      canon_eqb (canon_of true 200 h_mix v_any) (canon_of true 200 (c_heap st) v) &&
      match reach_addrs 200 (c_heap st) v with Done l => all_ge 7 l | _ => false end
  | _ => false
  end = true.
Proof. vm_compute. reflexivity. Qed.

Example any_guard_total : c03_guard_total h_any 1 0 3 [] v_any = true.
Proof. vm_compute. reflexivity. Qed.

Example mix_guard_total : c03_guard_total h_mix 7 3 4 [(5, 2%nat); (1, 1%nat); (6, 1%nat)] v_any = true.
Proof. vm_compute. reflexivity. Qed.

(* a slice-only cycle (s[0] = s with s []interface{}) has no ranking: outside the guard *)
Definition h_slicecycle : heap := [(0, OArr [HIface 1 (HSlice (Some (mk_sref 0 0 1 1)))])].
Example slicecycle_outside_guard : forall r, wf_rankb h_slicecycle 5 5 [(0, r)] = false.
Proof. intro r. unfold wf_rankb. simpl. rewrite Nat.ltb_irrefl. rewrite !andb_false_r. reflexivity. Qed.

(* ---- the theorems with decidable guards ---- *)
Theorem deep_copy_expands_once_b : forall h n0 v fuel st' v',
  wf_heapb h n0 = true -> refs_belowb n0 (refs v) = true ->
  deep_copy true fuel h n0 v = Done (st', v') ->
  NoDup (map fst (c_pm st')) /\ NoDup (map fst (c_mm st')).
Proof. intros. eapply deep_copy_expands_once_l; eauto using wf_heapb_ok, refs_belowb_ok. Qed.

Theorem deep_copy_bisimilar_b : forall h n0 v fuel st' v',
  wf_heapb h n0 = true -> refs_belowb n0 (refs v) = true ->
  deep_copy true fuel h n0 v = Done (st', v') ->
  vrel (c_pm st') (c_mm st') (c_heap st') v v' /\ bisim (c_pm st') (c_mm st') (c_heap st').
Proof. intros. eapply deep_copy_bisimilar_l; eauto using wf_heapb_ok, refs_belowb_ok. Qed.

Theorem deep_copy_sharing_b : forall h n0 v fuel st' v',
  wf_heapb h n0 = true -> refs_belowb n0 (refs v) = true ->
  deep_copy true fuel h n0 v = Done (st', v') ->
  let pm := c_pm st' in let mm := c_mm st' in let H := c_heap st' in
  functional pm /\ functional mm /\ injective (pm ++ mm) /\
  (forall k a, wreach h v k a -> exists a', related pm mm k a a' /\ wreach H v' k a') /\
  (forall a a' x x', In (a, a') pm -> hget H a = Some (OCell x) -> hget H a' = Some (OCell x') ->
     wreach H x RCell a -> wreach H x' RCell a').
Proof. intros h n0 v fuel st' v' H1 H2 H3. eapply deep_copy_sharing_l; eauto using wf_heapb_ok, refs_belowb_ok. Qed.

Theorem deep_copy_fresh_b : forall h n0 v fuel st' v',
  wf_heapb h n0 = true -> refs_belowb n0 (refs v) = true ->
  deep_copy true fuel h n0 v = Done (st', v') ->
  (forall a b, In (a, b) (c_pm st' ++ c_mm st') -> n0 <= b < c_next st' /\ hget h b = None) /\
  refs_fresh n0 (c_next st') (refs v') /\
  (forall a o, hget (c_heap st') a = Some o -> n0 <= a -> refs_fresh n0 (c_next st') (obj_refs o)) /\
  (forall a, a < n0 -> hget (c_heap st') a = hget h a).
Proof. intros. eapply deep_copy_fresh_l; eauto using wf_heapb_ok, refs_belowb_ok. Qed.
