(* The deep copier is parametric in the allocator position: running it with
   the allocator dl further up yields the same result with every new address
   shifted by dl.  (Used for C02: two stackings of the same inputs.) *)
From Coq Require Import List NArith ZArith Bool Lia.
From Dials Require Import Base.Outcome Base.Runes Reflect.Ty Reflect.Heap Copy.DeepCopy Copy.DeepCopySpec
  Copy.DeepCopyBasics Copy.DeepCopyInv.
Import ListNotations.
Open Scope N_scope.
Local Arguments hset : simpl never.
Local Arguments hget : simpl never.

Definition shift_vals (dl : N) (m : amap) : amap := map (fun ab => (fst ab, snd ab + dl)) m.

Lemma alookup_shift dl m a : alookup (shift_vals dl m) a = option_map (fun b => b + dl) (alookup m a).
Proof.
  induction m as [|[x y] r IH]; simpl; auto. destruct (a =? x); auto.
Qed.

Section Shift.
Variables (h0 : heap) (n0 dl : N).
Hypothesis Hwf : wf_heap h0 n0.

Definition F : hv -> hv := map_addr (fun a => a + dl).
Definition Fo : obj -> obj := map_addr_obj (fun a => a + dl).

(* the second heap agrees with the first on the inputs and holds, dl further
   up, the shifted image of every object the first run allocated *)
Definition hsim (h h2 : heap) : Prop :=
  (forall a, a < n0 -> hget h2 a = hget h a) /\
  (forall a o, n0 <= a -> hget h a = Some o -> hget h2 (a + dl) = Some (Fo o)).

Record ssim (st st2 : cst) : Prop := {
  s_heap : hsim (c_heap st) (c_heap st2);
  s_next : c_next st2 = c_next st + dl;
  s_pm : c_pm st2 = shift_vals dl (c_pm st);
  s_mm : c_mm st2 = shift_vals dl (c_mm st) }.

Lemma hsim_set h h2 a o : hsim h h2 -> n0 <= a -> hsim (hset h a o) (hset h2 (a + dl) (Fo o)).
Proof.
  intros [S1 S2] Ha. split.
  - intros x Hx. rewrite !hget_hset_ne by lia. auto.
  - intros x o' Hx Hg. destruct (N.eq_dec x a).
    + subst. rewrite hget_hset_eq in Hg. inversion Hg; subst. apply hget_hset_eq.
    + rewrite hget_hset_ne in Hg by auto. rewrite hget_hset_ne by lia. auto.
Qed.

Lemma ssim_alloc_pm st st2 a : ssim st st2 -> ssim (st_alloc_pm st a) (st_alloc_pm st2 a).
Proof.
  intros [A B C D]. split; simpl; auto; try lia. rewrite B, C. reflexivity.
Qed.
Lemma ssim_alloc_mm st st2 a : ssim st st2 -> ssim (st_alloc_mm st a) (st_alloc_mm st2 a).
Proof.
  intros [A B C D]. split; simpl; auto; try lia. rewrite B, D. reflexivity.
Qed.
Lemma ssim_alloc st st2 : ssim st st2 -> ssim (st_alloc st) (st_alloc st2).
Proof. intros [A B C D]. split; simpl; auto; lia. Qed.

Lemma ssim_set st st2 a o : ssim st st2 -> n0 <= a -> ssim (set_obj st a o) (set_obj st2 (a + dl) (Fo o)).
Proof. intros [A B C D] Ha. split; simpl; auto. apply hsim_set; auto. Qed.

Lemma iface_rec_eq f st t x : iface_rec x = true ->
  copy true (S f) st (HIface t x) = (q <~ copy true f st x ;; Done (fst q, HIface t (snd q))).
Proof. destruct x as [ | | [|] | | | | | | ]; simpl; intro H; try discriminate; reflexivity. Qed.

Notation inv := (inv h0 n0).

Section Step.
Variable f : nat.
Hypothesis IH : forall st v st' v' st2, inv st -> refs_below n0 (refs v) -> ssim st st2 ->
  copy true f st v = Done (st', v') ->
  exists st2', copy true f st2 v = Done (st2', F v') /\ ssim st' st2'.

Lemma map_st_shift : forall l st st' l' st2, inv st -> refs_below n0 (refs_list l) -> ssim st st2 ->
  map_st (copy true f) st l = Done (st', l') ->
  exists st2', map_st (copy true f) st2 l = Done (st2', map F l') /\ ssim st' st2'.
Proof.
  induction l as [|x r IHl]; intros st st' l' st2 I Hb S H.
  - simpl in H. inversion H; subst. exists st2. split; auto.
  - apply map_st_cons_done in H as (st1 & x' & r' & H1 & H2 & ->).
    unfold refs_list in Hb; simpl in Hb. apply refs_below_app in Hb as [Hbx Hbr].
    pose proof (copy_post h0 n0 Hwf _ _ _ _ _ I Hbx H1) as (I1 & _ & _).
    destruct (IH _ _ _ _ _ I Hbx S H1) as (st3 & G1 & S1).
    destruct (IHl _ _ _ _ I1 Hbr S1 H2) as (st4 & G2 & S2).
    exists st4. split; auto. simpl. rewrite G1. simpl. rewrite G2. reflexivity.
Qed.

Lemma map_kvs_shift : forall l st st' l' st2, inv st -> refs_below n0 (refs_kvs l) -> ssim st st2 ->
  map_kvs (copy true f) st l = Done (st', l') ->
  exists st2', map_kvs (copy true f) st2 l = Done (st2', map (fun kv => (F (fst kv), F (snd kv))) l') /\ ssim st' st2'.
Proof.
  induction l as [|[k v] r IHl]; intros st st' l' st2 I Hb S H.
  - simpl in H. inversion H; subst. exists st2. split; auto.
  - apply map_kvs_cons_done in H as (st1 & k' & st1' & v' & r' & H1 & H2 & H3 & ->).
    unfold refs_kvs in Hb; simpl in Hb. apply refs_below_app in Hb as [Hbkv Hbr].
    apply refs_below_app in Hbkv as [Hbk Hbv].
    pose proof (copy_post h0 n0 Hwf _ _ _ _ _ I Hbk H1) as (I1 & _ & _).
    pose proof (copy_post h0 n0 Hwf _ _ _ _ _ I1 Hbv H2) as (I2 & _ & _).
    destruct (IH _ _ _ _ _ I Hbk S H1) as (st3 & G1 & S1).
    destruct (IH _ _ _ _ _ I1 Hbv S1 H2) as (st4 & G2 & S2).
    destruct (IHl _ _ _ _ I2 Hbr S2 H3) as (st5 & G3 & S3).
    exists st5. split; auto. simpl. rewrite G1. simpl. rewrite G2. simpl. rewrite G3. reflexivity.
Qed.

Lemma copy_step_shift st v st' v' st2 :
  inv st -> refs_below n0 (refs v) -> ssim st st2 -> copy_step f st v st' v' ->
  exists st2', copy true (S f) st2 v = Done (st2', F v') /\ ssim st' st2'.
Proof.
  intros I Hb S Hs. destruct Hs.
  - exists st2. unfold F. rewrite H2. split; auto.
  - destruct (map_st_shift _ _ _ _ _ I Hb S H) as (st3 & G & S3).
    exists st3. split; auto. simpl. rewrite G. reflexivity.
  - destruct (map_st_shift _ _ _ _ _ I Hb S H) as (st3 & G & S3).
    exists st3. split; auto. simpl. rewrite G. reflexivity.
  - exists st2. split; auto.
    assert (Hl2 : alookup (c_pm st2) a = Some (a' + dl)) by (rewrite (s_pm _ _ S), alookup_shift, H; reflexivity).
    simpl. rewrite Hl2. reflexivity.
  - (* new pointer *)
    assert (Ha : a < n0) by (apply (Hb RCell a); simpl; auto).
    pose proof (inv_alloc_pm h0 n0 st a I Ha H) as I1.
    assert (Hbx : refs_below n0 (refs x)) by (eapply cell_refs_below; eauto).
    destruct (IH _ _ _ _ _ I1 Hbx (ssim_alloc_pm _ _ a S) H1) as (st3 & G & S3).
    exists (set_obj st3 (c_next st2) (OCell (F x'))). split.
    + assert (Hl2 : alookup (c_pm st2) a = None) by (rewrite (s_pm _ _ S), alookup_shift, H; reflexivity).
      assert (Hg2 : hget (c_heap st2) a = Some (OCell x)) by (rewrite (proj1 (s_heap _ _ S)) by auto; auto).
      simpl. rewrite Hl2, Hg2.
      change (mk_cst (c_heap st2) (c_next st2 + 1) ((a, c_next st2) :: c_pm st2) (c_mm st2)) with (st_alloc_pm st2 a).
      rewrite G. simpl. rewrite (s_next _ _ S). reflexivity.
    + rewrite (s_next _ _ S). apply (ssim_set _ _ _ (OCell x') S3). apply (i_next _ _ _ I).
  - exists st2. split; auto.
    assert (Hl2 : alookup (c_mm st2) m = Some (m' + dl)) by (rewrite (s_mm _ _ S), alookup_shift, H; reflexivity).
    simpl. rewrite Hl2. reflexivity.
  - (* new map *)
    assert (Ha : m < n0) by (apply (Hb RMap m); simpl; auto).
    pose proof (inv_alloc_mm h0 n0 st m I Ha H) as I1.
    assert (Hbx : refs_below n0 (refs_kvs kvs)) by (eapply map_refs_below; eauto).
    destruct (map_kvs_shift _ _ _ _ _ I1 Hbx (ssim_alloc_mm _ _ m S) H1) as (st3 & G & S3).
    exists (set_obj st3 (c_next st2) (OMap (map (fun kv => (F (fst kv), F (snd kv))) kvs'))). split.
    + assert (Hl2 : alookup (c_mm st2) m = None) by (rewrite (s_mm _ _ S), alookup_shift, H; reflexivity).
      assert (Hg2 : hget (c_heap st2) m = Some (OMap kvs)) by (rewrite (proj1 (s_heap _ _ S)) by auto; auto).
      simpl. rewrite Hl2, Hg2.
      change (mk_cst (c_heap st2) (c_next st2 + 1) (c_pm st2) ((m, c_next st2) :: c_mm st2)) with (st_alloc_mm st2 m).
      rewrite G. simpl. rewrite (s_next _ _ S). reflexivity.
    + rewrite (s_next _ _ S). apply (ssim_set _ _ _ (OMap kvs') S3). apply (i_next _ _ _ I).
  - (* slice *)
    assert (Ha : s_arr s < n0) by (apply (Hb RArr (s_arr s)); simpl; auto).
    pose proof (inv_alloc h0 n0 st I) as I1.
    assert (Hbx : refs_below n0 (refs_list (window es (s_off s) (s_cap s)))).
    { apply window_refs_below. eapply arr_refs_below; eauto. }
    destruct (map_st_shift _ _ _ _ _ I1 Hbx (ssim_alloc _ _ S) H1) as (st3 & G & S3).
    exists (set_obj st3 (c_next st2) (OArr (map F es'))). split.
    + assert (Hg2 : hget (c_heap st2) (s_arr s) = Some (OArr es)) by (rewrite (proj1 (s_heap _ _ S)) by auto; auto).
      simpl. rewrite Hg2, H0.
      change (mk_cst (c_heap st2) (c_next st2 + 1) (c_pm st2) (c_mm st2)) with (st_alloc st2).
      rewrite G. simpl. rewrite (s_next _ _ S). reflexivity.
    + rewrite (s_next _ _ S). apply (ssim_set _ _ _ (OArr es') S3). apply (i_next _ _ _ I).
  - destruct (IH st x st' x' st2 I Hb S H0) as (st3 & G & S3).
    exists st3. split; auto. rewrite iface_rec_eq by auto. rewrite G. reflexivity.
Qed.

End Step.

Theorem copy_shift : forall f st v st' v' st2, inv st -> refs_below n0 (refs v) -> ssim st st2 ->
  copy true f st v = Done (st', v') ->
  exists st2', copy true f st2 v = Done (st2', F v') /\ ssim st' st2'.
Proof.
  induction f; intros st v st' v' st2 I Hb S H; [discriminate|].
  apply copy_inv in H. eapply copy_step_shift; eauto.
Qed.

End Shift.
