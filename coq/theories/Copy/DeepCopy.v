(* Model of /repo/deep_copy.go at node granularity (definitions only).

   State of one deepCopier: the heap, a monotone allocator (`c_next`: every
   allocation returns c_next and increments it), ptrMap (input pointer ->
   output pointer) and mapMap (input map -> output map).

   copy fx fuel st v  mirrors the method deepCopier.deepCopy(in, out)  for the value
   `in` = v and returns the value left in `out`:
     deepCopyPtr     nil: unchanged.  Memo hit: the recorded output pointer.
                     Otherwise reflect.New, record in ptrMap, copy the pointee.
     deepCopyStruct  exported fields only; an unexported field (HPriv) keeps
                     what the initial out.Set(in) put there - so do chan and
                     func values and every leaf.
     deepCopySlice   no memo: a fresh backing array of `cap` elements, every
                     element of in[0:cap] copied (slices sharing an array are
                     split, by design); result has offset 0, same len and cap.
     deepCopyArray   element by element.
     deepCopyMap     memo (mapMap), else MakeMap, record, copy keys and values.
     deepCopyIface   per kind of the payload.  fx = true is the code after the
                     commit "fix: deep copy of interface values consults the
                     pointer and map memos": pointer and map payloads go
                     through deepCopyPtr / deepCopyMap with a temporary slot.
                     fx = false is the pinned code (finding 2a): a pointer
                     payload is re-allocated unconditionally (registerPair
                     then overwrites the memo entry; a nil pointer payload
                     panics in reflect.Value.Set), a map payload is re-made
                     unconditionally because the memo is only consulted for
                     settable destinations.
   The output object of a pointer / map / slice is reserved when the Go code
   allocates it and its contents are recorded when the copy of the contents
   returns; Go fills it progressively, which is unobservable (one goroutine,
   the copier never reads what it wrote).

   Fuel bounds the recursion DEPTH (every recursive call, inline or through
   a reference, takes one unit).  OutOfFuel is a distinct outcome; the
   theorems exclude it by the explicit bound `copy_fuel`. *)
From Coq Require Import List NArith ZArith Bool.
From Dials Require Import Base.Outcome Base.Runes Reflect.Ty Reflect.Heap.
Import ListNotations.
Open Scope N_scope.

Inductive res (A : Type) : Type :=
| Done (a : A)
| OutOfFuel
| RErr (code : N)        (* the Go function returned an error *)
| RPanic (code : N)      (* the Go code panicked *)
| IllFormed.             (* the input heap is not well formed (dangling reference, wrong object kind, slice out of range) *)
Arguments Done {A} a.
Arguments OutOfFuel {A}.
Arguments RErr {A} code.
Arguments RPanic {A} code.
Arguments IllFormed {A}.

Definition rbind {A B} (r : res A) (f : A -> res B) : res B :=
  match r with
  | Done a => f a
  | OutOfFuel => OutOfFuel
  | RErr c => RErr c
  | RPanic c => RPanic c
  | IllFormed => IllFormed
  end.

Notation "x <~ a ;; b" := (rbind a (fun x => b))
  (at level 61, a at next level, right associativity).

Record cst := mk_cst { c_heap : heap; c_next : addr; c_pm : amap; c_mm : amap }.

(* a new deepCopier working on heap h with the allocator at n *)
Definition init_cst (h : heap) (n : addr) : cst := mk_cst h n [] [].

Definition set_obj (st : cst) (a : addr) (o : obj) : cst :=
  mk_cst (hset (c_heap st) a o) (c_next st) (c_pm st) (c_mm st).

Fixpoint map_st {S : Type} (g : S -> hv -> res (S * hv)) (st : S) (l : list hv) : res (S * list hv) :=
  match l with
  | [] => Done (st, [])
  | x :: r =>
      p <~ g st x ;;
      q <~ map_st g (fst p) r ;;
      Done (fst q, snd p :: snd q)
  end.

Fixpoint map_kvs {S : Type} (g : S -> hv -> res (S * hv)) (st : S) (l : list (hv * hv))
  : res (S * list (hv * hv)) :=
  match l with
  | [] => Done (st, [])
  | (k, v) :: r =>
      p <~ g st k ;;
      p' <~ g (fst p) v ;;
      q <~ map_kvs g (fst p') r ;;
      Done (fst q, (snd p, snd p') :: snd q)
  end.

Definition slice_ok (s : sref) (es : list hv) : bool :=
  (s_off s + s_cap s <=? N.of_nat (length es)) && (s_len s <=? s_cap s).

Fixpoint copy (fx : bool) (fuel : nat) (st : cst) (v : hv) {struct fuel} : res (cst * hv) :=
  match fuel with
  | O => OutOfFuel
  | S f =>
    match v with
    | HLeaf _ | HNilIface | HPriv _ | HPtr None | HMap None | HSlice None => Done (st, v)
    | HStruct l => p <~ map_st (copy fx f) st l ;; Done (fst p, HStruct (snd p))
    | HArray l => p <~ map_st (copy fx f) st l ;; Done (fst p, HArray (snd p))
    | HPtr (Some a) =>
        match alookup (c_pm st) a with
        | Some a' => Done (st, HPtr (Some a'))
        | None =>
            match hget (c_heap st) a with
            | Some (OCell x) =>
                let a' := c_next st in
                let st1 := mk_cst (c_heap st) (a' + 1) ((a, a') :: c_pm st) (c_mm st) in
                p <~ copy fx f st1 x ;;
                Done (set_obj (fst p) a' (OCell (snd p)), HPtr (Some a'))
            | _ => IllFormed
            end
        end
    | HMap (Some m) =>
        match alookup (c_mm st) m with
        | Some m' => Done (st, HMap (Some m'))
        | None =>
            match hget (c_heap st) m with
            | Some (OMap kvs) =>
                let m' := c_next st in
                let st1 := mk_cst (c_heap st) (m' + 1) (c_pm st) ((m, m') :: c_mm st) in
                p <~ map_kvs (copy fx f) st1 kvs ;;
                Done (set_obj (fst p) m' (OMap (snd p)), HMap (Some m'))
            | _ => IllFormed
            end
        end
    | HSlice (Some s) =>
        match hget (c_heap st) (s_arr s) with
        | Some (OArr es) =>
            if slice_ok s es then
              let b' := c_next st in
              let st1 := mk_cst (c_heap st) (b' + 1) (c_pm st) (c_mm st) in
              p <~ map_st (copy fx f) st1 (window es (s_off s) (s_cap s)) ;;
              Done (set_obj (fst p) b' (OArr (snd p)), HSlice (Some (mk_sref b' 0 (s_len s) (s_cap s))))
            else IllFormed
        | _ => IllFormed
        end
    | HIface tag x =>
        match x with
        | HPtr p =>
            if fx then q <~ copy fx f st x ;; Done (fst q, HIface tag (snd q))
            else
              match p with
              | None => RPanic 7   (* reflect: call of reflect.Value.Set on zero Value *)
              | Some a =>
                  match hget (c_heap st) a with
                  | Some (OCell y) =>
                      (* reflect.New unconditionally; registerPair(in.Elem(), new.Elem())
                         overwrites the ptrMap entry *)
                      let a' := c_next st in
                      let st1 := mk_cst (c_heap st) (a' + 1) ((a, a') :: c_pm st) (c_mm st) in
                      q <~ copy fx f st1 y ;;
                      Done (set_obj (fst q) a' (OCell (snd q)), HIface tag (HPtr (Some a')))
                  | _ => IllFormed
                  end
              end
        | HMap None => Done (st, v)
        | HMap (Some m) =>
            if fx then q <~ copy fx f st x ;; Done (fst q, HIface tag (snd q))
            else
              match hget (c_heap st) m with
              | Some (OMap kvs) =>
                  (* MakeMapWithSize unconditionally; the destination out.Elem() is not
                     settable, so deepCopyMap skips the memo lookup but still records *)
                  let m' := c_next st in
                  let st1 := mk_cst (c_heap st) (m' + 1) (c_pm st) ((m, m') :: c_mm st) in
                  q <~ map_kvs (copy fx f) st1 kvs ;;
                  Done (set_obj (fst q) m' (OMap (snd q)), HIface tag (HMap (Some m')))
              | _ => IllFormed
              end
        | HSlice _ | HStruct _ | HArray _ =>
            q <~ copy fx f st x ;; Done (fst q, HIface tag (snd q))
        | HLeaf _ => Done (st, v)
        | HPriv _ | HNilIface | HIface _ _ => IllFormed   (* the dynamic value of an interface is a concrete value *)
        end
    end
  end.

(* deepCopyValue / realDeepCopy: a new copier per call *)
Definition deep_copy (fx : bool) (fuel : nat) (h : heap) (n : addr) (v : hv) : res (cst * hv) :=
  copy fx fuel (init_cst h n) v.

(* ---- the explicit fuel bound of the termination theorem ----
   n0 : every input address is below n0;  D : bound on the nesting depth of
   the root and of every object's contents;  R : bound on the rank of backing
   arrays (rank = how many slice hops can follow each other without passing
   a pointer or a map; 1 when no backing array holds a slice inline). *)
Definition copy_fuel (n0 : N) (R D : nat) : nat :=
  ((2 * N.to_nat n0 + 1) * ((R + 1) * (D + 1)))%nat.
