(* The output of the fixed copier satisfies the C03 guards again: the heap
   after a copy is finite and closed (DeepCopyInv), depth-bounded and RANKED
   (every new backing array inherits the rank of the array it was copied from)
   and kind-correct.  Hence a second copy (Config: entry copy, then compose's
   copy) terminates and succeeds by the same theorems. *)
From Coq Require Import List NArith ZArith Bool Lia Arith.
From Dials Require Import Base.Outcome Base.Runes Reflect.Ty Reflect.Heap Copy.DeepCopy Copy.DeepCopySpec
  Copy.DeepCopyBasics Copy.DeepCopyInv Copy.DeepCopyTerm Copy.DeepCopyBisim Copy.DeepCopyTotal.
Import ListNotations.
Open Scope N_scope.
Local Arguments hset : simpl never.
Local Arguments hget : simpl never.

Definition payload_ok (v : hv) : bool :=
  match v with HPriv _ | HNilIface | HIface _ _ => false | _ => true end.

Lemma shape_iface t x : shape_ok (HIface t x) = payload_ok x && shape_ok x.
Proof. destruct x; reflexivity. Qed.

Lemma rank_of_cons rk b r a : rank_of ((b, r) :: rk) a = if a =? b then r else rank_of rk a.
Proof. reflexivity. Qed.

Lemma depth_list_cons x l : depth_list (x :: l) = Nat.max (depth x) (depth_list l).
Proof. reflexivity. Qed.

Lemma depth_list_le l n : (forall x, In x l -> (depth x <= n)%nat) -> (depth_list l <= n)%nat.
Proof.
  induction l as [|x r IH]; intro H; [unfold depth_list; simpl; lia|].
  rewrite depth_list_cons. apply Nat.max_lub; [apply H; left; auto|apply IH; intros; apply H; right; auto].
Qed.

Lemma depth_list_window es off cap : (depth_list (window es off cap) <= depth_list es)%nat.
Proof. apply depth_list_le. intros x Hx. apply depth_in. eapply window_incl; eauto. Qed.

Lemma map_st_length {S} (g : S -> hv -> res (S * hv)) : forall l st st' l',
  map_st g st l = Done (st', l') -> length l' = length l.
Proof.
  induction l as [|x r IH]; intros st st' l' H.
  - simpl in H. inversion H; auto.
  - apply map_st_cons_done in H as (st1 & x' & r' & H1 & H2 & ->). simpl. f_equal. eauto.
Qed.

Section Guard.
Variables (h0 : heap) (n0 : N) (R D : nat) (rk0 : list (addr * nat)).
Hypothesis Hwf : wf_heap h0 n0.
Hypothesis Hrk : wf_rank h0 R D rk0.
Hypothesis Hk : wf_kinds h0.

Notation inv := (inv h0 n0).
Notation vok := (vok h0).

(* where a reference of a NEW value / object leads *)
Definition rtarget (st : cst) (k : rkind) (b : addr) : Prop :=
  match k with
  | RCell => In b (map snd (c_pm st))
  | RMap => In b (map snd (c_mm st))
  | RArr => exists es, hget (c_heap st) b = Some (OArr es)
  end.

Definition sl_ok (st : cst) (s : sref) : Prop :=
  exists es, hget (c_heap st) (s_arr s) = Some (OArr es) /\ slice_ok s es = true.

Definition refs_tg (st : cst) (rs : list (rkind * addr)) : Prop :=
  forall k b, In (k, b) rs -> rtarget st k b.

(* the new slices ss' are in order and ranked below the input slices ss they were copied from *)
Definition slices_le (st : cst) (rk : list (addr * nat)) (ss' ss : list sref) : Prop :=
  forall s', In s' ss' -> sl_ok st s' /\
    exists s, In s ss /\ (rank_of rk (s_arr s') <= rank_of rk0 (s_arr s))%nat.

Record gobj (st : cst) (rk : list (addr * nat)) (a : addr) (o : obj) : Prop := {
  g_depth : (obj_depth o <= D)%nat;
  g_rankR : forall s, In s (obj_islices o) -> (rank_of rk (s_arr s) < R)%nat;
  g_rankA : forall es, o = OArr es -> forall s, In s (obj_islices o) -> (rank_of rk (s_arr s) < rank_of rk a)%nat;
  g_shape : obj_shape_ok o = true;
  g_refs : refs_tg st (obj_refs o);
  g_slices : forall s, In s (obj_islices o) -> sl_ok st s }.

Definition ginv (st : cst) (rk : list (addr * nat)) : Prop :=
  (forall a o, hget (c_heap st) a = Some o -> n0 <= a -> gobj st rk a o) /\
  (forall a, a < n0 -> rank_of rk a = rank_of rk0 a).

(* rk' agrees with rk on every address below n *)
Definition rext (n : N) (rk rk' : list (addr * nat)) : Prop :=
  forall a, a < n -> rank_of rk' a = rank_of rk a.

Record gval (st : cst) (rk : list (addr * nat)) (v v' : hv) : Prop := {
  gv_depth : (depth v' <= depth v)%nat;
  gv_shape : shape_ok v = true -> shape_ok v' = true;
  gv_payload : payload_ok v = true -> payload_ok v' = true;
  gv_slices : slices_le st rk (inline_slices v') (inline_slices v);
  gv_refs : refs_tg st (refs v') }.

Record gvals (st : cst) (rk : list (addr * nat)) (l l' : list hv) : Prop := {
  gl_depth : (depth_list l' <= depth_list l)%nat;
  gl_shape : forallb shape_ok l = true -> forallb shape_ok l' = true;
  gl_slices : slices_le st rk (flat_map inline_slices l') (flat_map inline_slices l);
  gl_refs : refs_tg st (refs_list l') }.

Definition kv_islices (kvs : list (hv * hv)) : list sref :=
  flat_map (fun kv => inline_slices (fst kv) ++ inline_slices (snd kv)) kvs.
Definition kv_shape (kvs : list (hv * hv)) : bool :=
  forallb (fun kv => shape_ok (fst kv) && shape_ok (snd kv)) kvs.

Record gkvs (st : cst) (rk : list (addr * nat)) (l l' : list (hv * hv)) : Prop := {
  gk_depth : (obj_depth (OMap l') <= obj_depth (OMap l))%nat;
  gk_shape : kv_shape l = true -> kv_shape l' = true;
  gk_slices : slices_le st rk (kv_islices l') (kv_islices l);
  gk_refs : refs_tg st (refs_kvs l') }.

(* ---- monotonicity ---- *)
Definition st_le (st st' : cst) : Prop :=
  (forall a o, hget (c_heap st) a = Some o -> hget (c_heap st') a = Some o) /\
  incl (map snd (c_pm st)) (map snd (c_pm st')) /\ incl (map snd (c_mm st)) (map snd (c_mm st')).

Lemma st_le_refl st : st_le st st.
Proof. split; [auto|split; apply incl_refl]. Qed.

Lemma st_le_trans a b c : st_le a b -> st_le b c -> st_le a c.
Proof.
  intros (A1 & A2 & A3) (B1 & B2 & B3). split; [auto|split; eapply incl_tran; eauto].
Qed.

Lemma ext_st_le st st' : inv st -> ext st st' -> st_le st st'.
Proof.
  intros I E. split; [|split].
  - intros a o H. rewrite (e_frame _ _ E); auto. eapply i_bound; eauto.
  - destruct (e_pm _ _ E) as [d [-> _]]. rewrite map_app. apply incl_appr, incl_refl.
  - destruct (e_mm _ _ E) as [d [-> _]]. rewrite map_app. apply incl_appr, incl_refl.
Qed.

Lemma rtarget_le st st' k b : st_le st st' -> rtarget st k b -> rtarget st' k b.
Proof.
  intros (A & B & C) H. destruct k; simpl in *; auto. destruct H as [es H]. exists es. auto.
Qed.

Lemma sl_ok_le st st' s : st_le st st' -> sl_ok st s -> sl_ok st' s.
Proof. intros (A & _) [es [H1 H2]]. exists es. auto. Qed.

Lemma refs_tg_le st st' rs : st_le st st' -> refs_tg st rs -> refs_tg st' rs.
Proof. intros L H k b Hin. eapply rtarget_le; eauto. Qed.

(* only the ranks of arrays (objects) that exist in st matter *)
Definition rext_h (st : cst) (rk rk' : list (addr * nat)) : Prop :=
  forall z o, hget (c_heap st) z = Some o -> rank_of rk' z = rank_of rk z.

Lemma rext_rext_h st rk rk' : inv st -> rext (c_next st) rk rk' -> rext_h st rk rk'.
Proof. intros I X z o H. apply X. eapply i_bound; eauto. Qed.

Lemma slices_le_le st st' rk rk' ss' ss : st_le st st' -> rext_h st rk rk' ->
  slices_le st rk ss' ss -> slices_le st' rk' ss' ss.
Proof.
  intros L X H s' Hin. destruct (H s' Hin) as [Hok (s & Hs & Hr)]. split; [eapply sl_ok_le; eauto|].
  exists s. split; auto. destruct Hok as [es [Hg _]]. rewrite (X _ _ Hg); auto.
Qed.

Lemma gval_le st st' rk rk' v v' : st_le st st' -> rext_h st rk rk' ->
  gval st rk v v' -> gval st' rk' v v'.
Proof.
  intros L X [A B C E F]. split; auto; [eapply slices_le_le; eauto|eapply refs_tg_le; eauto].
Qed.

Lemma gobj_le st st' rk rk' a o : st_le st st' -> rext_h st rk rk' ->
  hget (c_heap st) a = Some o -> gobj st rk a o -> gobj st' rk' a o.
Proof.
  intros L X Hg [A B C E F G].
  assert (Hs : forall s, In s (obj_islices o) -> rank_of rk' (s_arr s) = rank_of rk (s_arr s)).
  { intros s Hs. destruct (G s Hs) as [es [Hes _]]. eapply X; eauto. }
  split; auto.
  - intros s Hs'. rewrite Hs; auto.
  - intros es Eo s Hs'. rewrite Hs by auto. rewrite (X a o Hg). eauto.
  - eapply refs_tg_le; eauto.
  - intros s Hs'. eapply sl_ok_le; eauto.
Qed.

Lemma ginv_le st st' rk : c_heap st' = c_heap st -> st_le st st' -> ginv st rk -> ginv st' rk.
Proof.
  intros Hh L [G1 G2]. split; auto. intros a o Hg Ha. rewrite Hh in Hg.
  eapply gobj_le; eauto. intros x ? _. reflexivity.
Qed.

Lemma rext_refl n rk : rext n rk rk.
Proof. intros a _. reflexivity. Qed.

Lemma rext_trans n m rk1 rk2 rk3 : n <= m -> rext n rk1 rk2 -> rext m rk2 rk3 -> rext n rk1 rk3.
Proof. intros L A B a Ha. rewrite B by lia. apply A; auto. Qed.

(* ---- writing the reserved object ---- *)
Lemma ginv_set st rk c o : inv st -> hget (c_heap st) c = None -> n0 <= c ->
  ginv st rk -> gobj (set_obj st c o) rk c o -> ginv (set_obj st c o) rk.
Proof.
  intros I Hc Hn [G1 G2] Go. split; auto. intros a o' Hg Ha. simpl in Hg.
  destruct (N.eq_dec a c) as [->|Hne].
  - rewrite hget_hset_eq in Hg. inversion Hg; subst. exact Go.
  - rewrite hget_hset_ne in Hg by auto.
    assert (L : st_le st (set_obj st c o)).
    { split; [|split; apply incl_refl]. intros x ox Hx. simpl. rewrite hget_hset_ne; auto. congruence. }
    eapply gobj_le; eauto. intros z ? _. reflexivity.
Qed.

(* ---- input side ---- *)
Lemma input_obj st a o : inv st -> a < n0 -> hget (c_heap st) a = Some o ->
  hget h0 a = Some o.
Proof. intros I Ha H. rewrite (i_frame _ _ _ I) in H; auto. Qed.

Lemma in_window_islices es off cap x s :
  In x (window es off cap) -> In s (inline_slices x) -> In s (flat_map inline_slices es).
Proof. intros Hx Hs. apply in_flat_map. exists x. split; auto. eapply window_incl; eauto. Qed.

Section Step.
Variable f : nat.
Hypothesis IH : forall st v st' v' rk, inv st -> refs_below n0 (refs v) -> vok v -> ginv st rk ->
  copy true f st v = Done (st', v') ->
  exists rk', ginv st' rk' /\ rext (c_next st) rk rk' /\ gval st' rk' v v'.

Lemma map_st_g : forall l st st' l' rk, inv st -> refs_below n0 (refs_list l) -> lok h0 l -> ginv st rk ->
  map_st (copy true f) st l = Done (st', l') ->
  exists rk', ginv st' rk' /\ rext (c_next st) rk rk' /\ gvals st' rk' l l'.
Proof.
  induction l as [|x r IHl]; intros st st' l' rk I Hb Hl G H.
  - simpl in H. inversion H; subst. exists rk. split; [auto|split; [apply rext_refl|]].
    split; simpl; auto; [intros ? []|intros ? ? []].
  - apply map_st_cons_done in H as (st1 & x' & r' & H1 & H2 & ->).
    unfold refs_list in Hb; simpl in Hb. apply refs_below_app in Hb as [Hbx Hbr].
    pose proof (copy_post h0 n0 Hwf _ _ _ _ _ I Hbx H1) as (I1 & E1 & _).
    pose proof (map_st_copy_post h0 n0 Hwf _ _ _ _ _ I1 Hbr H2) as (I2 & E2 & _).
    destruct (IH _ _ _ _ _ I Hbx (Hl x (or_introl eq_refl)) G H1) as (rk1 & G1 & X1 & V1).
    destruct (IHl _ _ _ _ I1 Hbr (fun y Hy => Hl y (or_intror Hy)) G1 H2) as (rk2 & G2 & X2 & V2).
    exists rk2. split; [auto|split].
    + eapply rext_trans; [apply (e_next _ _ E1)|eauto|eauto].
    + pose proof (gval_le _ _ _ _ _ _ (ext_st_le _ _ I1 E2) (rext_rext_h _ _ _ I1 X2) V1) as [A B C E F].
      destruct V2 as [A2 B2 E2' F2]. split.
      * rewrite !depth_list_cons. lia.
      * simpl. rewrite !andb_true_iff. intros [S1 S2]. auto.
      * intros s' Hin. simpl in Hin. apply in_app_or in Hin as [Hin|Hin].
        -- destruct (E s' Hin) as [Ok (s & Hs & Hr)]. split; auto. exists s. split; auto. simpl. apply in_or_app; auto.
        -- destruct (E2' s' Hin) as [Ok (s & Hs & Hr)]. split; auto. exists s. split; auto. simpl. apply in_or_app; auto.
      * intros kk bb Hin. unfold refs_list in Hin. simpl in Hin. apply in_app_or in Hin as [Hin|Hin]; auto.
Qed.

Lemma map_kvs_g : forall l st st' l' rk, inv st -> refs_below n0 (refs_kvs l) ->
  (forall k v, In (k, v) l -> vok k /\ vok v) -> ginv st rk ->
  map_kvs (copy true f) st l = Done (st', l') ->
  exists rk', ginv st' rk' /\ rext (c_next st) rk rk' /\ gkvs st' rk' l l'.
Proof.
  induction l as [|[k v] r IHl]; intros st st' l' rk I Hb Hl G H.
  - simpl in H. inversion H; subst. exists rk. split; [auto|split; [apply rext_refl|]].
    split; simpl; auto; [intros ? []|intros ? ? []].
  - apply map_kvs_cons_done in H as (st1 & k' & st2 & v' & r' & H1 & H2 & H3 & ->).
    unfold refs_kvs in Hb; simpl in Hb. apply refs_below_app in Hb as [Hbkv Hbr].
    apply refs_below_app in Hbkv as [Hbk Hbv].
    pose proof (copy_post h0 n0 Hwf _ _ _ _ _ I Hbk H1) as (I1 & E1 & _).
    pose proof (copy_post h0 n0 Hwf _ _ _ _ _ I1 Hbv H2) as (I2 & E2 & _).
    pose proof (map_kvs_copy_post h0 n0 Hwf _ _ _ _ _ I2 Hbr H3) as (I3 & E3 & _).
    destruct (Hl k v (or_introl eq_refl)) as [Vk Vv].
    destruct (IH _ _ _ _ _ I Hbk Vk G H1) as (rk1 & G1 & X1 & V1).
    destruct (IH _ _ _ _ _ I1 Hbv Vv G1 H2) as (rk2 & G2 & X2 & V2).
    destruct (IHl _ _ _ _ I2 Hbr (fun a b Hab => Hl a b (or_intror Hab)) G2 H3) as (rk3 & G3 & X3 & V3).
    exists rk3. split; [auto|split].
    + eapply rext_trans; [apply (e_next _ _ E1)|eauto|].
      eapply rext_trans; [apply (e_next _ _ E2)|eauto|eauto].
    + assert (X23 : rext (c_next st1) rk1 rk3).
      { eapply rext_trans; [apply (e_next _ _ E2)|eauto|eauto]. }
      pose proof (gval_le _ _ _ _ _ _ (ext_st_le _ _ I1 (ext_trans _ _ _ E2 E3)) (rext_rext_h _ _ _ I1 X23) V1) as [A1 B1 C1 S1 F1].
      pose proof (gval_le _ _ _ _ _ _ (ext_st_le _ _ I2 E3) (rext_rext_h _ _ _ I2 X3) V2) as [A2 B2 C2 S2 F2].
      destruct V3 as [A3 B3 S3 F3]. split.
      * simpl in *. lia.
      * unfold kv_shape in *. simpl. rewrite !andb_true_iff. intros [[Q1 Q2] Q3]. auto.
      * intros s' Hin. unfold kv_islices in Hin. simpl in Hin. rewrite <- app_assoc in Hin.
        apply in_app_or in Hin as [Hin|Hin]; [|apply in_app_or in Hin as [Hin|Hin]].
        -- destruct (S1 s' Hin) as [Ok (s & Hs & Hr)]. split; auto. exists s. split; auto.
           unfold kv_islices. simpl. apply in_or_app. left. apply in_or_app. auto.
        -- destruct (S2 s' Hin) as [Ok (s & Hs & Hr)]. split; auto. exists s. split; auto.
           unfold kv_islices. simpl. apply in_or_app. left. apply in_or_app. auto.
        -- destruct (S3 s' Hin) as [Ok (s & Hs & Hr)]. split; auto. exists s. split; auto.
           unfold kv_islices. simpl. apply in_or_app. auto.
      * intros kk bb Hin. unfold refs_kvs in Hin. simpl in Hin. rewrite <- app_assoc in Hin.
        apply in_app_or in Hin as [Hin|Hin]; [|apply in_app_or in Hin as [Hin|Hin]]; auto.
Qed.

Lemma st_le_alloc_pm st a : st_le st (st_alloc_pm st a).
Proof. split; [auto|split; simpl; [apply incl_tl|]; apply incl_refl]. Qed.
Lemma st_le_alloc_mm st a : st_le st (st_alloc_mm st a).
Proof. split; [auto|split; simpl; [|apply incl_tl]; apply incl_refl]. Qed.
Lemma st_le_alloc st : st_le st (st_alloc st).
Proof. split; [auto|split; simpl; apply incl_refl]. Qed.

Lemma st_le_set st c o : hget (c_heap st) c = None -> st_le st (set_obj st c o).
Proof.
  intro Hc. split; [|split; apply incl_refl]. intros x ox Hx. simpl. rewrite hget_hset_ne; auto. congruence.
Qed.

Lemma copy_step_g st v st' v' rk :
  inv st -> refs_below n0 (refs v) -> vok v -> ginv st rk -> copy_step f st v st' v' ->
  exists rk', ginv st' rk' /\ rext (c_next st) rk rk' /\ gval st' rk' v v'.
Proof.
  intros I Hb V G Hs. destruct Hs.
  - (* identity *)
    exists rk. split; [auto|split; [apply rext_refl|]]. split; auto.
    + rewrite H0. intros ? [].
    + rewrite H. intros ? ? [].
  - (* struct *)
    destruct (map_st_g _ _ _ _ _ I Hb (vok_children h0 _ V) G H) as (rk' & G' & X & [A B E F]).
    exists rk'. split; [auto|split; [auto|]]. split; simpl; auto. unfold depth_list in A. lia.
  - destruct (map_st_g _ _ _ _ _ I Hb (vok_children_arr h0 _ V) G H) as (rk' & G' & X & [A B E F]).
    exists rk'. split; [auto|split; [auto|]]. split; simpl; auto. unfold depth_list in A. lia.
  - (* pointer, memo hit *)
    exists rk. split; [auto|split; [apply rext_refl|]]. split; simpl; auto; [intros ? []|].
    intros k b [E|[]]. inversion E; subst. simpl. apply alookup_In in H. eapply in_snd; eauto.
  - (* new pointer *)
    assert (Ha : a < n0) by (apply (Hb RCell a); simpl; auto).
    pose proof (inv_alloc_pm h0 n0 st a I Ha H) as I1.
    assert (Hbx : refs_below n0 (refs x)) by (eapply cell_refs_below; eauto).
    pose proof (input_obj _ _ _ I Ha H0) as Hin.
    destruct (obj_ok h0 Hk _ _ Hin) as (Kr & Ks & Kp). simpl in Kr, Ks, Kp.
    destruct (Hrk _ _ Hin) as (Dd & Dr & _). simpl in Dd, Dr.
    pose proof (copy_post h0 n0 Hwf _ _ _ _ _ I1 Hbx H1) as (I2 & E2 & F2).
    assert (G1 : ginv (st_alloc_pm st a) rk) by (apply (ginv_le st (st_alloc_pm st a) rk eq_refl (st_le_alloc_pm st a) G)).
    destruct (IH _ _ _ _ _ I1 Hbx (conj Kr (conj Ks Kp)) G1 H1) as (rk2 & G2 & X2 & [A B C E F]).
    pose proof (e_next _ _ E2) as Hn; simpl in Hn. pose proof (i_next _ _ _ I) as Hn0.
    assert (Hun : hget (c_heap st2) (c_next st) = None).
    { rewrite (e_frame _ _ E2) by (simpl; lia). simpl. apply (unwritten h0 n0); auto. }
    pose proof (st_le_set st2 (c_next st) (OCell x') Hun) as L3.
    exists rk2. split; [|split].
    + apply ginv_set; auto. split; simpl; auto.
      * lia.
      * intros s Hs. destruct (E s Hs) as [_ (s0 & Hs0 & Hr)]. specialize (Dr s0 Hs0). lia.
      * intros es Eo. discriminate.
      * eapply refs_tg_le; eauto.
      * intros s Hs. destruct (E s Hs) as [Ok _]. eapply sl_ok_le; eauto.
    + intros y Hy. apply X2. simpl. lia.
    + split; simpl; auto; [intros ? []|].
      intros k b [Eq|[]]. inversion Eq; subst. simpl.
      destruct (e_pm _ _ E2) as [d [-> _]]. rewrite map_app. apply in_or_app. right. simpl. auto.
  - (* map, memo hit *)
    exists rk. split; [auto|split; [apply rext_refl|]]. split; simpl; auto; [intros ? []|].
    intros k b [E|[]]. inversion E; subst. simpl. apply alookup_In in H. eapply in_snd; eauto.
  - (* new map *)
    assert (Ha : m < n0) by (apply (Hb RMap m); simpl; auto).
    pose proof (inv_alloc_mm h0 n0 st m I Ha H) as I1.
    assert (Hbx : refs_below n0 (refs_kvs kvs)) by (eapply map_refs_below; eauto).
    pose proof (input_obj _ _ _ I Ha H0) as Hin.
    destruct (obj_ok h0 Hk _ _ Hin) as (Kr & Ks & Kp). simpl in Kr, Ks, Kp.
    destruct (Hrk _ _ Hin) as (Dd & Dr & _). simpl in Dr.
    pose proof (map_kvs_copy_post h0 n0 Hwf _ _ _ _ _ I1 Hbx H1) as (I2 & E2 & F2).
    assert (G1 : ginv (st_alloc_mm st m) rk) by (apply (ginv_le st (st_alloc_mm st m) rk eq_refl (st_le_alloc_mm st m) G)).
    destruct (map_kvs_g _ _ _ _ _ I1 Hbx (fun k v Hkv => kvs_ok h0 kvs k v Kr Ks Kp Hkv) G1 H1)
      as (rk2 & G2 & X2 & [A B E F]).
    pose proof (e_next _ _ E2) as Hn; simpl in Hn. pose proof (i_next _ _ _ I) as Hn0.
    assert (Hun : hget (c_heap st2) (c_next st) = None).
    { rewrite (e_frame _ _ E2) by (simpl; lia). simpl. apply (unwritten h0 n0); auto. }
    pose proof (st_le_set st2 (c_next st) (OMap kvs') Hun) as L3.
    exists rk2. split; [|split].
    + apply ginv_set; auto. split; auto.
      * lia.
      * intros s Hs. destruct (E s Hs) as [_ (s0 & Hs0 & Hr)]. specialize (Dr s0 Hs0). lia.
      * intros es Eo. discriminate.
      * eapply refs_tg_le; eauto.
      * intros s Hs. destruct (E s Hs) as [Ok _]. eapply sl_ok_le; eauto.
    + intros y Hy. apply X2. simpl. lia.
    + split; simpl; auto; [intros ? []|].
      intros k b [Eq|[]]. inversion Eq; subst. simpl.
      destruct (e_mm _ _ E2) as [d [-> _]]. rewrite map_app. apply in_or_app. right. simpl. auto.
  - (* slice *)
    assert (Ha : s_arr s < n0) by (apply (Hb RArr (s_arr s)); simpl; auto).
    pose proof (inv_alloc h0 n0 st I) as I1.
    assert (Hbx : refs_below n0 (refs_list (window es (s_off s) (s_cap s)))).
    { apply window_refs_below. eapply arr_refs_below; eauto. }
    pose proof (input_obj _ _ _ I Ha H) as Hin.
    destruct (obj_ok h0 Hk _ _ Hin) as (Kr & Ks & Kp). simpl in Kr, Ks, Kp.
    destruct (Hrk _ _ Hin) as (Dd & Dr & Da). simpl in Dd, Dr. specialize (Da es eq_refl). simpl in Da.
    pose proof (map_st_copy_post h0 n0 Hwf _ _ _ _ _ I1 Hbx H1) as (I2 & E2 & F2).
    assert (G1 : ginv (st_alloc st) rk) by (apply (ginv_le st (st_alloc st) rk eq_refl (st_le_alloc st) G)).
    assert (Lw : lok h0 (window es (s_off s) (s_cap s))).
    { intros x Hx. apply window_incl in Hx. split; [|split].
      - eapply forallb_flat_map; eauto.
      - eapply forallb_flat_map; eauto.
      - rewrite forallb_forall in Kp. auto. }
    destruct (map_st_g _ _ _ _ _ I1 Hbx Lw G1 H1) as (rk2 & G2 & X2 & [A B E F]).
    pose proof (e_next _ _ E2) as Hn; simpl in Hn. pose proof (i_next _ _ _ I) as Hn0.
    assert (Hun : hget (c_heap st2) (c_next st) = None).
    { rewrite (e_frame _ _ E2) by (simpl; lia). simpl. apply (unwritten h0 n0); auto. }
    pose proof (st_le_set st2 (c_next st) (OArr es') Hun) as L3.
    set (b' := c_next st) in *.
    set (rk3 := (b', rank_of rk0 (s_arr s)) :: rk2).
    assert (X3 : forall y, y <> b' -> rank_of rk3 y = rank_of rk2 y).
    { intros y Hy. unfold rk3. rewrite rank_of_cons. destruct (N.eqb_spec y b'); congruence. }
    assert (Hr3 : rank_of rk3 b' = rank_of rk0 (s_arr s)).
    { unfold rk3. rewrite rank_of_cons, N.eqb_refl. reflexivity. }
    assert (Hexists : forall s', sl_ok st2 s' -> s_arr s' <> b').
    { intros s' [es0 [Hg _]] Eq. rewrite Eq in Hg. congruence. }
    assert (Gbase : ginv st2 rk3).
    { destruct G2 as [Q1 Q2]. split.
      - intros y o Hy Hge. eapply gobj_le; [apply st_le_refl| |exact Hy|apply Q1; auto].
        intros z oz Hz. apply X3. intro; subst z. congruence.
      - intros y Hy. rewrite X3 by (unfold b'; lia). auto. }
    assert (Hlen : length es' = N.to_nat (s_cap s)).
    { rewrite (map_st_length _ _ _ _ _ H1). apply window_length.
      apply andb_true_iff in H0 as [Q _]. apply N.leb_le in Q. exact Q. }
    exists rk3. split; [|split].
    + apply ginv_set; auto. split; auto.
      * simpl. etransitivity; [exact A|]. etransitivity; [apply depth_list_window|exact Dd].
      * intros s' Hs'. simpl in Hs'. destruct (E s' Hs') as [Ok (s0 & Hs0 & Hr)].
        rewrite X3 by (apply Hexists; auto).
        assert (In s0 (flat_map inline_slices es)).
        { apply in_flat_map in Hs0 as [x [Hx Hsx]]. eapply in_window_islices; eauto. }
        specialize (Dr s0 H2). lia.
      * intros es0 Eo s' Hs'. simpl in Hs'. destruct (E s' Hs') as [Ok (s0 & Hs0 & Hr)].
        rewrite X3 by (apply Hexists; auto). rewrite Hr3.
        assert (In s0 (flat_map inline_slices es)).
        { apply in_flat_map in Hs0 as [x [Hx Hsx]]. eapply in_window_islices; eauto. }
        specialize (Da s0 H2). lia.
      * simpl. apply B.
        assert (Hall : forall x, In x (window es (s_off s) (s_cap s)) -> shape_ok x = true).
        { intros x Hx. apply window_incl in Hx. rewrite forallb_forall in Kp. auto. }
        apply forallb_forall. exact Hall.
      * eapply refs_tg_le; eauto.
      * intros s' Hs'. simpl in Hs'. destruct (E s' Hs') as [Ok _]. eapply sl_ok_le; eauto.
    + intros y Hy. rewrite X3 by (unfold b'; lia). apply X2. simpl. unfold b'. lia.
    + split; simpl; auto.
      * intros s' [<-|[]]. split.
        -- exists es'. simpl. split; [apply hget_hset_eq|].
           unfold slice_ok. simpl. apply andb_true_iff in H0 as [_ Q2]. rewrite Q2, andb_true_r.
           apply N.leb_le. rewrite Hlen. lia.
        -- exists s. split; [left; auto|]. cbn [s_arr]. rewrite Hr3. lia.
      * intros k b [Eq|[]]. inversion Eq; subst. simpl. exists es'. apply hget_hset_eq.
  - (* interface *)
    assert (Vx : vok x).
    { destruct V as (A & B & C). rewrite shape_iface in C. apply andb_true_iff in C as [_ C]. split; [|split]; auto. }
    destruct (IH st x st' x' rk I Hb Vx G H0) as (rk' & G' & X & [A B C E F]).
    exists rk'. split; [auto|split; [auto|]]. split.
    + simpl. lia.
    + rewrite !shape_iface. intro Q. apply andb_true_iff in Q as [Q1 Q2]. rewrite C, B; auto.
    + simpl. intro; discriminate.
    + exact E.
    + exact F.
Qed.

End Step.

Lemma copy_g : forall f st v st' v' rk, inv st -> refs_below n0 (refs v) -> vok v -> ginv st rk ->
  copy true f st v = Done (st', v') ->
  exists rk', ginv st' rk' /\ rext (c_next st) rk rk' /\ gval st' rk' v v'.
Proof.
  induction f; intros st v st' v' rk I Hb V G H; [discriminate|].
  apply copy_inv in H. eapply copy_step_g; eauto.
Qed.

End Guard.

(* ---- the guards hold again for the heap a copy leaves behind ---- *)
Lemma hv_ind_nested (P : hv -> Prop) :
  (forall x, P (HLeaf x)) -> (forall a, P (HPtr a)) -> (forall a, P (HMap a)) -> (forall s, P (HSlice s)) ->
  P HNilIface -> (forall t x, P x -> P (HIface t x)) -> (forall x, P (HPriv x)) ->
  (forall l, Forall P l -> P (HStruct l)) -> (forall l, Forall P l -> P (HArray l)) ->
  forall v, P v.
Proof.
  intros H1 H2 H3 H4 H5 H6 H7 H8 H9. fix IH 1.
  intros [x|a|a|s| |t x|x|l|l]; [apply H1|apply H2|apply H3|apply H4|apply H5|apply H6; apply IH|apply H7| |].
  - apply H8. induction l as [|y r IHl]; constructor; [apply IH|exact IHl].
  - apply H9. induction l as [|y r IHl]; constructor; [apply IH|exact IHl].
Qed.

Lemma islice_ref_v : forall v s, In s (inline_slices v) -> In (RArr, s_arr s) (refs v).
Proof.
  induction v using hv_ind_nested; intros s0 Hs; simpl in *; try contradiction.
  - destruct s as [s1|]; [|contradiction]. destruct Hs as [<-|[]]. left; auto.
  - auto.
  - apply in_flat_map in Hs as [y [Hy Hs]]. apply in_flat_map. exists y. split; auto.
    rewrite Forall_forall in H. auto.
  - apply in_flat_map in Hs as [y [Hy Hs]]. apply in_flat_map. exists y. split; auto.
    rewrite Forall_forall in H. auto.
Qed.

Lemma islice_ref o s : In s (obj_islices o) -> In (RArr, s_arr s) (obj_refs o).
Proof.
  destruct o as [v|kvs|es]; simpl; intro Hs.
  - apply islice_ref_v; auto.
  - apply in_flat_map in Hs as [[k v] [Hkv Hs]]. simpl in Hs. unfold refs_kvs. apply in_flat_map.
    exists (k, v). split; auto. simpl. apply in_app_or in Hs as [Hs|Hs]; apply in_or_app; auto using islice_ref_v.
  - apply in_flat_map in Hs as [y [Hy Hs]]. unfold refs_list. apply in_flat_map. exists y. split; auto using islice_ref_v.
Qed.

Lemma refs_ok_mono h h' rs : (forall a o, hget h a = Some o -> hget h' a = Some o) ->
  refs_ok h rs = true -> refs_ok h' rs = true.
Proof.
  intros Hm. unfold refs_ok. rewrite !forallb_forall. intros H kb Hin. specialize (H kb Hin).
  destruct (hget h (snd kb)) as [o|] eqn:G; [|discriminate]. rewrite (Hm _ _ G). exact H.
Qed.

Lemma slices_ok_mono h h' ss : (forall a o, hget h a = Some o -> hget h' a = Some o) ->
  slices_ok h ss = true -> slices_ok h' ss = true.
Proof.
  intros Hm. unfold slices_ok. rewrite !forallb_forall. intros H s Hin. specialize (H s Hin).
  destruct (hget h (s_arr s)) as [[?|?|es]|] eqn:G; try discriminate. rewrite (Hm _ _ G). exact H.
Qed.

Theorem deep_copy_guard_l : forall h n0 R D rk v fuel st' v',
  wf_heap h n0 -> wf_rank h R D rk -> wf_kinds h -> wf_root n0 R D rk v -> vok h v ->
  deep_copy true fuel h n0 v = Done (st', v') ->
  exists rk', wf_heap (c_heap st') (c_next st') /\ wf_rank (c_heap st') R D rk' /\ wf_kinds (c_heap st') /\
              wf_root (c_next st') R D rk' v' /\ vok (c_heap st') v'.
Proof.
  intros h n0 R D rk v fuel st' v' Hwf Hrk Hk (Hb & Hd & Hr) V Hc. unfold deep_copy in Hc.
  pose proof (inv_init h n0 Hwf) as I0.
  destruct (copy_post h n0 Hwf _ _ _ _ _ I0 Hb Hc) as (I & E & F).
  destruct (deep_copy_bisimilar_l h n0 v fuel st' v' Hwf Hb Hc) as [_ [Bp Bm]].
  assert (G0 : ginv n0 R D rk (init_cst h n0) rk).
  { split; [|auto]. intros a o Hg Ha. simpl in Hg. apply Hwf in Hg. lia. }
  destruct (copy_g h n0 R D rk Hwf Hrk Hk _ _ _ _ _ _ I0 Hb V G0 Hc) as (rk' & [G1 G2] & X & [A B C S T]).
  assert (Hsub : forall a o, hget h a = Some o -> hget (c_heap st') a = Some o).
  { intros a o Hg. rewrite (i_frame _ _ _ I); auto. apply Hwf in Hg. tauto. }
  assert (Hold : forall a o, a < n0 -> hget (c_heap st') a = Some o -> hget h a = Some o).
  { intros a o Ha Hg. rewrite (i_frame _ _ _ I) in Hg; auto. }
  (* what a target of a new reference is *)
  assert (Htg : forall k b, rtarget st' k b -> exists o, hget (c_heap st') b = Some o /\ obj_kind o = k).
  { intros k b Hr'. destruct k; simpl in Hr'.
    - apply in_map_iff in Hr' as [[x y] [Ey Hin]]. simpl in Ey; subst y.
      destruct (Bp x b Hin) as (c & c' & _ & Hc' & _). exists (OCell c'). auto.
    - apply in_map_iff in Hr' as [[x y] [Ey Hin]]. simpl in Ey; subst y.
      destruct (Bm x b Hin) as (c & c' & _ & Hc' & _). exists (OMap c'). auto.
    - destruct Hr' as [es Hes]. exists (OArr es). auto. }
  assert (Hrefs : forall rs, refs_tg st' rs -> refs_ok (c_heap st') rs = true).
  { intros rs Hrs. unfold refs_ok. apply forallb_forall. intros [k b] Hin. simpl.
    destruct (Htg k b (Hrs k b Hin)) as (o & Ho & Hkd). rewrite Ho, Hkd. destruct k; reflexivity. }
  assert (Hsl : forall ss, (forall s, In s ss -> sl_ok st' s) -> slices_ok (c_heap st') ss = true).
  { intros ss Hss. unfold slices_ok. apply forallb_forall. intros s Hin.
    destruct (Hss s Hin) as [es [Hes Hok]]. rewrite Hes. exact Hok. }
  exists rk'. split; [|split; [|split; [|split]]].
  - (* finite and closed *)
    intros a o Hg. split; [eapply i_bound; eauto|]. destruct (N.lt_ge_cases a n0) as [Hlt|Hge].
    + apply Hold in Hg; auto. apply Hwf in Hg as [_ Hr']. intros k b Hin. apply Hr' in Hin.
      pose proof (i_next _ _ _ I). lia.
    + intros k b Hin. apply (i_fresh _ _ _ I _ _ Hg Hge) in Hin. lia.
  - (* ranked, depth-bounded *)
    intros a o Hg. destruct (N.lt_ge_cases a n0) as [Hlt|Hge].
    + apply Hold in Hg; auto. destruct (Hrk _ _ Hg) as (Q1 & Q2 & Q3).
      assert (Hsr : forall s, In s (obj_islices o) -> rank_of rk' (s_arr s) = rank_of rk (s_arr s)).
      { intros s Hs. apply G2. apply islice_ref in Hs. apply Hwf in Hg as [_ Hr']. eapply Hr'; eauto. }
      split; [auto|split].
      * intros s Hs. rewrite Hsr; auto.
      * intros es Eo s Hs. rewrite Hsr by auto. rewrite (G2 a Hlt). eauto.
    + destruct (G1 _ _ Hg Hge) as [Q1 Q2 Q3 Q4 Q5 Q6]. split; [auto|split; auto].
  - (* kind-correct *)
    intros a o Hg. destruct (N.lt_ge_cases a n0) as [Hlt|Hge].
    + apply Hold in Hg; auto. destruct (Hk _ _ Hg) as (Q1 & Q2 & Q3).
      split; [eapply refs_ok_mono; eauto|split; [eapply slices_ok_mono; eauto|auto]].
    + destruct (G1 _ _ Hg Hge) as [Q1 Q2 Q3 Q4 Q5 Q6]. split; [auto|split; auto].
  - (* the root *)
    split; [|split].
    + intros k b Hin. apply F in Hin. lia.
    + lia.
    + intros s' Hs'. destruct (S s' Hs') as [_ (s & Hs & Hle)]. specialize (Hr s Hs). lia.
  - destruct V as (V1 & V2 & V3). split; [auto|split; auto].
    apply Hsl. intros s Hs. destruct (S s Hs) as [Ok _]. exact Ok.
Qed.

(* success of a copy under the propositional guards *)
Theorem deep_copy_succeeds_P : forall h n0 R D rk v fuel,
  wf_heap h n0 -> wf_rank h R D rk -> wf_kinds h -> wf_root n0 R D rk v -> vok h v ->
  (copy_fuel n0 R D <= fuel)%nat ->
  exists st' v', deep_copy true fuel h n0 v = Done (st', v').
Proof.
  intros h n0 R D rk v fuel Hwf Hrk Hk (Hb & Hd & Hr) V Hf.
  pose proof (inv_init h n0 Hwf) as I0.
  assert (Hn : copy true fuel (init_cst h n0) v <> OutOfFuel).
  { eapply copy_no_oof; eauto.
    unfold bound, unvisited, copy_fuel in *. simpl.
    assert (srank rk (inline_slices v) <= R)%nat by (apply srank_le; auto).
    assert (srank rk (inline_slices v) * (D + 1) <= R * (D + 1))%nat by (apply Nat.mul_le_mono_r; lia).
    unfold K. nia. }
  pose proof (copy_good h n0 Hwf Hk fuel (init_cst h n0) v I0 Hb V) as Hg.
  unfold deep_copy. destruct (copy true fuel (init_cst h n0) v) as [[st' v']| | | |]; try discriminate.
  - eauto.
  - congruence.
Qed.
