(* The result of the fixed deep copier is bisimilar to its input under
   R = ptrMap U mapMap.  Invariant: every memo entry whose output object has
   been recorded ("finished") relates objects with related contents; entries
   added by a call are finished when the call returns. *)
From Coq Require Import List NArith ZArith Bool Lia.
From Dials Require Import Base.Outcome Base.Runes Reflect.Ty Reflect.Heap Copy.DeepCopy Copy.DeepCopySpec
  Copy.DeepCopyBasics Copy.DeepCopyInv.
Import ListNotations.
Open Scope N_scope.
Local Arguments hset : simpl never.
Local Arguments hget : simpl never.

Lemma vrel_mono pm mm H pm' mm' H' :
  incl pm pm' -> incl mm mm' -> (forall a o, hget H a = Some o -> hget H' a = Some o) ->
  (forall v v', vrel pm mm H v v' -> vrel pm' mm' H' v v') /\
  (forall l l', vrels pm mm H l l' -> vrels pm' mm' H' l l').
Proof.
  intros Hp Hm Hh. apply vrel_vrels_ind; intros; try (econstructor; eauto; fail).
Qed.

Lemma kvrels_mono pm mm H pm' mm' H' :
  incl pm pm' -> incl mm mm' -> (forall a o, hget H a = Some o -> hget H' a = Some o) ->
  forall l l', kvrels pm mm H l l' -> kvrels pm' mm' H' l l'.
Proof.
  intros Hp Hm Hh l l' Hr. destruct (vrel_mono pm mm H pm' mm' H' Hp Hm Hh) as [Hv _].
  induction Hr; constructor; auto.
Qed.

Lemma vrels_length pm mm H l l' : vrels pm mm H l l' -> length l = length l'.
Proof. induction 1; simpl; auto. Qed.

Lemma nodup_app_disj {A} (l1 l2 : list A) x : NoDup (l1 ++ l2) -> In x l1 -> In x l2 -> False.
Proof.
  induction l1 as [|y r IH]; simpl; intros Hnd H1 H2; [contradiction|].
  inversion Hnd; subst. destruct H1 as [->|H1].
  - apply H3. apply in_or_app; auto.
  - eauto.
Qed.

Lemma nodup_snd_inj (m : amap) a a' b : NoDup (map snd m) -> In (a, b) m -> In (a', b) m -> a = a'.
Proof.
  induction m as [|[x y] r IH]; simpl; intros Hnd H1 H2; [contradiction|].
  inversion Hnd; subst. destruct H1 as [E1|H1], H2 as [E2|H2].
  - congruence.
  - inversion E1; subst. exfalso. apply H3. eapply in_snd; eauto.
  - inversion E2; subst. exfalso. apply H3. eapply in_snd; eauto.
  - eauto.
Qed.

Lemma nodup_app_l {A} (l1 l2 : list A) : NoDup (l1 ++ l2) -> NoDup l1.
Proof. induction l1; simpl; intro H; [constructor|]. inversion H; subst. constructor; auto. intro; apply H2; apply in_or_app; auto. Qed.
Lemma nodup_app_r {A} (l1 l2 : list A) : NoDup (l1 ++ l2) -> NoDup l2.
Proof. induction l1; simpl; intro H; auto. inversion H; auto. Qed.

Definition pair_dec (x y : addr * addr) : {x = y} + {x <> y}.
Proof. decide equality; apply N.eq_dec. Defined.

Section Bisim.
Variables (h0 : heap) (n0 : N).
Hypothesis Hwf : wf_heap h0 n0.

Notation inv := (inv h0 n0).

Definition done_ok (st : cst) : Prop :=
  (forall a a', In (a, a') (c_pm st) -> hget (c_heap st) a' <> None ->
     exists x x', hget (c_heap st) a = Some (OCell x) /\ hget (c_heap st) a' = Some (OCell x') /\
                  vrel (c_pm st) (c_mm st) (c_heap st) x x') /\
  (forall m m', In (m, m') (c_mm st) -> hget (c_heap st) m' <> None ->
     exists kvs kvs', hget (c_heap st) m = Some (OMap kvs) /\ hget (c_heap st) m' = Some (OMap kvs') /\
                  kvrels (c_pm st) (c_mm st) (c_heap st) kvs kvs').

Definition new_done (st st' : cst) : Prop :=
  (forall a a', In (a, a') (c_pm st') -> ~ In (a, a') (c_pm st) -> hget (c_heap st') a' <> None) /\
  (forall m m', In (m, m') (c_mm st') -> ~ In (m, m') (c_mm st) -> hget (c_heap st') m' <> None).

(* what an extension preserves *)
Lemma ext_incl_pm st st' : ext st st' -> incl (c_pm st) (c_pm st').
Proof. intros [_ _ [d [-> _]] _] x Hx. apply in_or_app; auto. Qed.
Lemma ext_incl_mm st st' : ext st st' -> incl (c_mm st) (c_mm st').
Proof. intros [_ _ _ [d [-> _]]] x Hx. apply in_or_app; auto. Qed.
Lemma ext_heap_mono st st' : inv st -> ext st st' ->
  forall a o, hget (c_heap st) a = Some o -> hget (c_heap st') a = Some o.
Proof. intros I E a o H. rewrite (e_frame _ _ E); auto. eapply i_bound; eauto. Qed.

Lemma vrel_ext st st' v v' : inv st -> ext st st' ->
  vrel (c_pm st) (c_mm st) (c_heap st) v v' -> vrel (c_pm st') (c_mm st') (c_heap st') v v'.
Proof.
  intros I E. apply vrel_mono; [apply ext_incl_pm|apply ext_incl_mm|apply ext_heap_mono]; auto.
Qed.
Lemma vrels_ext st st' l l' : inv st -> ext st st' ->
  vrels (c_pm st) (c_mm st) (c_heap st) l l' -> vrels (c_pm st') (c_mm st') (c_heap st') l l'.
Proof.
  intros I E. apply vrel_mono; [apply ext_incl_pm|apply ext_incl_mm|apply ext_heap_mono]; auto.
Qed.

Lemma new_done_refl st : new_done st st.
Proof. split; intros; contradiction. Qed.

Lemma new_done_trans st st1 st2 : inv st1 -> ext st1 st2 ->
  new_done st st1 -> new_done st1 st2 -> new_done st st2.
Proof.
  intros I1 E [Np1 Nm1] [Np2 Nm2]. split.
  - intros a a' Hin Hnot. destruct (in_dec pair_dec (a, a') (c_pm st1)) as [Hi|Hn].
    + specialize (Np1 a a' Hi Hnot). destruct (hget (c_heap st1) a') eqn:Hg; [|congruence].
      rewrite (ext_heap_mono st1 st2 I1 E _ _ Hg). discriminate.
    + apply (Np2 a a'); auto.
  - intros a a' Hin Hnot. destruct (in_dec pair_dec (a, a') (c_mm st1)) as [Hi|Hn].
    + specialize (Nm1 a a' Hi Hnot). destruct (hget (c_heap st1) a') eqn:Hg; [|congruence].
      rewrite (ext_heap_mono st1 st2 I1 E _ _ Hg). discriminate.
    + apply (Nm2 a a'); auto.
Qed.

Definition bpost (st : cst) (st' : cst) : Prop := (done_ok st -> done_ok st') /\ new_done st st'.

(* reserving an address keeps done_ok: the new entry is unfinished *)
Lemma unwritten st : inv st -> hget (c_heap st) (c_next st) = None.
Proof.
  intro I. destruct (hget (c_heap st) (c_next st)) eqn:H; auto. apply (i_bound _ _ _ I) in H. lia.
Qed.

Lemma done_ok_alloc_pm st a : inv st -> done_ok st -> done_ok (st_alloc_pm st a).
Proof.
  intros I [Dp Dm]. split; simpl.
  - intros b b' [E|Hin] Hne.
    + inversion E; subst. rewrite (unwritten st I) in Hne. congruence.
    + destruct (Dp b b' Hin Hne) as (x & x' & H1 & H2 & Hr). exists x, x'. split; [auto|split; [auto|]].
      eapply vrel_mono; [| | |exact Hr]; auto using incl_tl, incl_refl.
  - intros m m' Hin Hne. destruct (Dm m m' Hin Hne) as (x & x' & H1 & H2 & Hr). exists x, x'.
    split; [auto|split; [auto|]]. eapply kvrels_mono; [| | |exact Hr]; auto using incl_tl, incl_refl.
Qed.

Lemma done_ok_alloc_mm st a : inv st -> done_ok st -> done_ok (st_alloc_mm st a).
Proof.
  intros I [Dp Dm]. split; simpl.
  - intros b b' Hin Hne. destruct (Dp b b' Hin Hne) as (x & x' & H1 & H2 & Hr). exists x, x'.
    split; [auto|split; [auto|]]. eapply vrel_mono; [| | |exact Hr]; auto using incl_tl, incl_refl.
  - intros m m' [E|Hin] Hne.
    + inversion E; subst. rewrite (unwritten st I) in Hne. congruence.
    + destruct (Dm m m' Hin Hne) as (x & x' & H1 & H2 & Hr). exists x, x'. split; [auto|split; [auto|]].
      eapply kvrels_mono; [| | |exact Hr]; auto using incl_tl, incl_refl.
Qed.

Lemma done_ok_alloc st : done_ok st -> done_ok (st_alloc st).
Proof. intros D. exact D. Qed.

(* recording the object reserved at c: every other finished entry is untouched *)
Lemma set_obj_mono st c o : hget (c_heap st) c = None ->
  forall a o', hget (c_heap st) a = Some o' -> hget (c_heap (set_obj st c o)) a = Some o'.
Proof.
  intros Hc a o' H. simpl. destruct (N.eq_dec a c); [subst; congruence|]. rewrite hget_hset_ne; auto.
Qed.

Lemma done_ok_set_other st c o :
  hget (c_heap st) c = None ->
  ~ In c (map snd (c_pm st)) -> ~ In c (map snd (c_mm st)) ->
  done_ok st -> done_ok (set_obj st c o).
Proof.
  intros Hc Hp Hm [Dp Dm]. pose proof (set_obj_mono st c o Hc) as Hmono. split; simpl.
  - intros b b' Hin Hne. assert (b' <> c) by (intro; subst; apply Hp; eapply in_snd; eauto).
    rewrite hget_hset_ne in Hne by auto.
    destruct (Dp b b' Hin Hne) as (x & x' & H1 & H2 & Hr). exists x, x'.
    split; [apply Hmono; auto|split; [apply Hmono; auto|]].
    eapply vrel_mono; [| | |exact Hr]; auto using incl_refl.
  - intros b b' Hin Hne. assert (b' <> c) by (intro; subst; apply Hm; eapply in_snd; eauto).
    rewrite hget_hset_ne in Hne by auto.
    destruct (Dm b b' Hin Hne) as (x & x' & H1 & H2 & Hr). exists x, x'.
    split; [apply Hmono; auto|split; [apply Hmono; auto|]].
    eapply kvrels_mono; [| | |exact Hr]; auto using incl_refl.
Qed.

Section Step.
Variable f : nat.
Hypothesis IH : forall st v st' v', inv st -> refs_below n0 (refs v) ->
  copy true f st v = Done (st', v') ->
  vrel (c_pm st') (c_mm st') (c_heap st') v v' /\ bpost st st'.

Lemma map_st_bpost : forall l st st' l', inv st -> refs_below n0 (refs_list l) ->
  map_st (copy true f) st l = Done (st', l') ->
  vrels (c_pm st') (c_mm st') (c_heap st') l l' /\ bpost st st'.
Proof.
  induction l as [|x r IHl]; intros st st' l' I Hb H.
  - simpl in H. inversion H; subst. split; [constructor|]. split; [auto|apply new_done_refl].
  - apply map_st_cons_done in H as (st1 & x' & r' & H1 & H2 & ->).
    unfold refs_list in Hb; simpl in Hb. apply refs_below_app in Hb as [Hbx Hbr].
    pose proof (copy_post h0 n0 Hwf _ _ _ _ _ I Hbx H1) as (I1 & E1 & _).
    pose proof (map_st_copy_post h0 n0 Hwf _ _ _ _ _ I1 Hbr H2) as (I2 & E2 & _).
    apply IH in H1 as (R1 & D1 & N1); auto.
    apply IHl in H2 as (R2 & D2 & N2); auto.
    split; [constructor; auto; apply (vrel_ext st1 st'); auto|].
    split; [auto|apply (new_done_trans st st1 st'); auto].
Qed.

Lemma map_kvs_bpost : forall l st st' l', inv st -> refs_below n0 (refs_kvs l) ->
  map_kvs (copy true f) st l = Done (st', l') ->
  kvrels (c_pm st') (c_mm st') (c_heap st') l l' /\ bpost st st'.
Proof.
  induction l as [|[k v] r IHl]; intros st st' l' I Hb H.
  - simpl in H. inversion H; subst. split; [constructor|]. split; [auto|apply new_done_refl].
  - apply map_kvs_cons_done in H as (st1 & k' & st2 & v' & r' & H1 & H2 & H3 & ->).
    unfold refs_kvs in Hb; simpl in Hb. apply refs_below_app in Hb as [Hbkv Hbr].
    apply refs_below_app in Hbkv as [Hbk Hbv].
    pose proof (copy_post h0 n0 Hwf _ _ _ _ _ I Hbk H1) as (I1 & E1 & _).
    pose proof (copy_post h0 n0 Hwf _ _ _ _ _ I1 Hbv H2) as (I2 & E2 & _).
    pose proof (map_kvs_copy_post h0 n0 Hwf _ _ _ _ _ I2 Hbr H3) as (I3 & E3 & _).
    apply IH in H1 as (R1 & D1 & N1); auto.
    apply IH in H2 as (R2 & D2 & N2); auto.
    apply IHl in H3 as (R3 & D3 & N3); auto.
    split.
    + constructor; auto.
      * apply (vrel_ext st2 st'); auto. apply (vrel_ext st1 st2); auto.
      * apply (vrel_ext st2 st'); auto.
    + split; [auto|]. apply (new_done_trans st st2 st'); auto.
      apply (new_done_trans st st1 st2); auto.
Qed.

Lemma copy_step_bpost st v st' v' :
  inv st -> refs_below n0 (refs v) -> copy_step f st v st' v' ->
  vrel (c_pm st') (c_mm st') (c_heap st') v v' /\ bpost st st'.
Proof.
  intros I Hb Hs. destruct Hs.
  - split; [auto|split; [auto|apply new_done_refl]].
  - apply map_st_bpost in H as [Hr Hp]; auto. split; [constructor; auto|auto].
  - apply map_st_bpost in H as [Hr Hp]; auto. split; [constructor; auto|auto].
  - split; [constructor; apply alookup_In; auto|split; [auto|apply new_done_refl]].
  - (* new pointer *)
    assert (Ha : a < n0) by (apply (Hb RCell a); simpl; auto).
    pose proof (inv_alloc_pm h0 n0 st a I Ha H) as I1.
    assert (Hbx : refs_below n0 (refs x)) by (eapply cell_refs_below; eauto).
    pose proof (copy_post h0 n0 Hwf _ _ _ _ _ I1 Hbx H1) as (I2 & E2 & F2).
    apply IH in H1 as (Rx & D2 & N2); auto.
    pose proof (e_next _ _ E2) as Hn; simpl in Hn. pose proof (i_next _ _ _ I) as Hn0.
    assert (Hun : hget (c_heap st2) (c_next st) = None).
    { rewrite (e_frame _ _ E2) by (simpl; lia). simpl. apply unwritten; auto. }
    assert (Hin : In (a, c_next st) (c_pm st2)).
    { apply (ext_incl_pm _ _ E2). simpl. auto. }
    pose proof (set_obj_mono st2 (c_next st) (OCell x') Hun) as Hmono. simpl in Hmono.
    split; [constructor; simpl; auto|]. split.
    + (* done_ok *)
      intro D0. pose proof (D2 (done_ok_alloc_pm st a I D0)) as [Dp Dm].
      split; simpl.
      * intros b b' Hb' Hne. destruct (N.eq_dec b' (c_next st)) as [->|Hd].
        -- assert (b = a) by (eapply nodup_snd_inj; [eapply nodup_app_l; apply (i_val_nd _ _ _ I2)| |]; eauto).
           subst b. exists x, x'. split; [|split].
           ++ rewrite hget_hset_ne by lia. rewrite (i_frame _ _ _ I2) by auto. rewrite <- (i_frame _ _ _ I) by auto. auto.
           ++ apply hget_hset_eq.
           ++ eapply vrel_mono; [| | |exact Rx]; auto using incl_refl.
        -- rewrite hget_hset_ne in Hne by auto.
           destruct (Dp b b' Hb' Hne) as (y & y' & G1 & G2 & Hr). exists y, y'.
           split; [apply Hmono; auto|split; [apply Hmono; auto|]].
           eapply vrel_mono; [| | |exact Hr]; auto using incl_refl.
      * intros m m' Hm Hne. assert (Hd : m' <> c_next st).
        { intro; subst. eapply (nodup_app_disj _ _ (c_next st) (i_val_nd _ _ _ I2)); eapply in_snd; eauto. }
        rewrite hget_hset_ne in Hne by auto.
        destruct (Dm m m' Hm Hne) as (y & y' & G1 & G2 & Hr). exists y, y'.
        split; [apply Hmono; auto|split; [apply Hmono; auto|]].
        eapply kvrels_mono; [| | |exact Hr]; auto using incl_refl.
    + (* new_done *)
      destruct N2 as [Np Nm]. split; simpl.
      * intros b b' Hb' Hnot. destruct (pair_dec (b, b') (a, c_next st)) as [E|Hd].
        -- inversion E; subst. rewrite hget_hset_eq. discriminate.
        -- assert (Hnn : hget (c_heap st2) b' <> None).
           { apply (Np b b'); auto. simpl. intros [E|Hi]; [congruence|auto]. }
           destruct (hget (c_heap st2) b') eqn:G; [|congruence]. rewrite (Hmono _ _ G). discriminate.
      * intros m m' Hm Hnot. assert (Hnn : hget (c_heap st2) m' <> None) by (apply (Nm m m'); auto).
        destruct (hget (c_heap st2) m') eqn:G; [|congruence]. rewrite (Hmono _ _ G). discriminate.
  - split; [constructor; apply alookup_In; auto|split; [auto|apply new_done_refl]].
  - (* new map *)
    assert (Ha : m < n0) by (apply (Hb RMap m); simpl; auto).
    pose proof (inv_alloc_mm h0 n0 st m I Ha H) as I1.
    assert (Hbx : refs_below n0 (refs_kvs kvs)) by (eapply map_refs_below; eauto).
    pose proof (map_kvs_copy_post h0 n0 Hwf _ _ _ _ _ I1 Hbx H1) as (I2 & E2 & F2).
    apply map_kvs_bpost in H1 as (Rx & D2 & N2); auto.
    pose proof (e_next _ _ E2) as Hn; simpl in Hn. pose proof (i_next _ _ _ I) as Hn0.
    assert (Hun : hget (c_heap st2) (c_next st) = None).
    { rewrite (e_frame _ _ E2) by (simpl; lia). simpl. apply unwritten; auto. }
    assert (Hin : In (m, c_next st) (c_mm st2)).
    { apply (ext_incl_mm _ _ E2). simpl. auto. }
    pose proof (set_obj_mono st2 (c_next st) (OMap kvs') Hun) as Hmono. simpl in Hmono.
    split; [constructor; simpl; auto|]. split.
    + intro D0. pose proof (D2 (done_ok_alloc_mm st m I D0)) as [Dp Dm].
      split; simpl.
      * intros b b' Hb' Hne. assert (Hd : b' <> c_next st).
        { intro; subst. eapply (nodup_app_disj _ _ (c_next st) (i_val_nd _ _ _ I2)); eapply in_snd; eauto. }
        rewrite hget_hset_ne in Hne by auto.
        destruct (Dp b b' Hb' Hne) as (y & y' & G1 & G2 & Hr). exists y, y'.
        split; [apply Hmono; auto|split; [apply Hmono; auto|]].
        eapply vrel_mono; [| | |exact Hr]; auto using incl_refl.
      * intros b b' Hb' Hne. destruct (N.eq_dec b' (c_next st)) as [->|Hd].
        -- assert (b = m) by (eapply nodup_snd_inj; [eapply nodup_app_r; apply (i_val_nd _ _ _ I2)| |]; eauto).
           subst b. exists kvs, kvs'. split; [|split].
           ++ rewrite hget_hset_ne by lia. rewrite (i_frame _ _ _ I2) by auto. rewrite <- (i_frame _ _ _ I) by auto. auto.
           ++ apply hget_hset_eq.
           ++ eapply kvrels_mono; [| | |exact Rx]; auto using incl_refl.
        -- rewrite hget_hset_ne in Hne by auto.
           destruct (Dm b b' Hb' Hne) as (y & y' & G1 & G2 & Hr). exists y, y'.
           split; [apply Hmono; auto|split; [apply Hmono; auto|]].
           eapply kvrels_mono; [| | |exact Hr]; auto using incl_refl.
    + destruct N2 as [Np Nm]. split; simpl.
      * intros b b' Hb' Hnot. assert (Hnn : hget (c_heap st2) b' <> None) by (apply (Np b b'); auto).
        destruct (hget (c_heap st2) b') eqn:G; [|congruence]. rewrite (Hmono _ _ G). discriminate.
      * intros b b' Hb' Hnot. destruct (pair_dec (b, b') (m, c_next st)) as [E|Hd].
        -- inversion E; subst. rewrite hget_hset_eq. discriminate.
        -- assert (Hnn : hget (c_heap st2) b' <> None).
           { apply (Nm b b'); auto. simpl. intros [E|Hi]; [congruence|auto]. }
           destruct (hget (c_heap st2) b') eqn:G; [|congruence]. rewrite (Hmono _ _ G). discriminate.
  - (* slice *)
    assert (Ha : s_arr s < n0) by (apply (Hb RArr (s_arr s)); simpl; auto).
    pose proof (inv_alloc h0 n0 st I) as I1.
    assert (Hbx : refs_below n0 (refs_list (window es (s_off s) (s_cap s)))).
    { apply window_refs_below. eapply arr_refs_below; eauto. }
    pose proof (map_st_copy_post h0 n0 Hwf _ _ _ _ _ I1 Hbx H1) as (I2 & E2 & F2).
    apply map_st_bpost in H1 as (Rx & D2 & N2); auto.
    pose proof (e_next _ _ E2) as Hn; simpl in Hn. pose proof (i_next _ _ _ I) as Hn0.
    assert (Hun : hget (c_heap st2) (c_next st) = None).
    { rewrite (e_frame _ _ E2) by (simpl; lia). simpl. apply unwritten; auto. }
    pose proof (set_obj_mono st2 (c_next st) (OArr es') Hun) as Hmono. simpl in Hmono.
    (* the reserved address is not a memo value *)
    assert (Hnp : ~ In (c_next st) (map snd (c_pm st2))).
    { intro Hi. apply in_map_iff in Hi as [[p q] [Eq Hi]]. simpl in Eq; subst q.
      destruct (e_pm _ _ E2) as [d [Ed Hd]]. rewrite Ed in Hi. apply in_app_or in Hi as [Hi|Hi].
      - apply Hd in Hi. simpl in Hi. lia.
      - simpl in Hi. apply (i_pm _ _ _ I) in Hi. lia. }
    assert (Hnm : ~ In (c_next st) (map snd (c_mm st2))).
    { intro Hi. apply in_map_iff in Hi as [[p q] [Eq Hi]]. simpl in Eq; subst q.
      destruct (e_mm _ _ E2) as [d [Ed Hd]]. rewrite Ed in Hi. apply in_app_or in Hi as [Hi|Hi].
      - apply Hd in Hi. simpl in Hi. lia.
      - simpl in Hi. apply (i_mm _ _ _ I) in Hi. lia. }
    split; [|split].
    + apply andb_true_iff in H0 as [Hok1 Hok2]. apply N.leb_le in Hok1.
      eapply vr_slice with (es := es) (es' := es'); simpl; auto.
      * rewrite hget_hset_ne by lia. rewrite (i_frame _ _ _ I2) by auto. rewrite <- (i_frame _ _ _ I) by auto. auto.
      * apply hget_hset_eq.
      * assert (Hw : window es' 0 (s_cap s) = es').
        { unfold window. simpl. apply firstn_all2.
          apply vrels_length in Rx. rewrite <- Rx, window_length; auto. }
        rewrite Hw. eapply vrel_mono; [| | |exact Rx]; auto using incl_refl.
    + intro D0. apply done_ok_set_other; auto.
    + destruct N2 as [Np Nm]. split; simpl.
      * intros b b' Hb' Hnot. assert (Hnn : hget (c_heap st2) b' <> None) by (apply (Np b b'); auto).
        destruct (hget (c_heap st2) b') eqn:G; [|congruence]. rewrite (Hmono _ _ G). discriminate.
      * intros b b' Hb' Hnot. assert (Hnn : hget (c_heap st2) b' <> None) by (apply (Nm b b'); auto).
        destruct (hget (c_heap st2) b') eqn:G; [|congruence]. rewrite (Hmono _ _ G). discriminate.
  - apply IH in H0 as [Hr Hp]; auto. split; [constructor; auto|auto].
Qed.

End Step.

Theorem copy_bpost : forall f st v st' v', inv st -> refs_below n0 (refs v) ->
  copy true f st v = Done (st', v') ->
  vrel (c_pm st') (c_mm st') (c_heap st') v v' /\ bpost st st'.
Proof.
  induction f; intros st v st' v' I Hb H; [discriminate|].
  apply copy_inv in H. eapply copy_step_bpost; eauto.
Qed.

End Bisim.

Theorem deep_copy_bisimilar_l : forall h n0 v fuel st' v',
  wf_heap h n0 -> refs_below n0 (refs v) ->
  deep_copy true fuel h n0 v = Done (st', v') ->
  vrel (c_pm st') (c_mm st') (c_heap st') v v' /\ bisim (c_pm st') (c_mm st') (c_heap st').
Proof.
  intros h n0 v fuel st' v' Hwf Hb H. unfold deep_copy in H.
  pose proof (inv_init h n0 Hwf) as I0.
  destruct (copy_bpost h n0 Hwf _ _ _ _ _ I0 Hb H) as (Hr & D & [Np Nm]).
  split; auto.
  assert (D0 : done_ok (init_cst h n0)) by (split; simpl; intros; contradiction).
  destruct (D D0) as [Dp Dm]. split.
  - intros a a' Hin. apply Dp; auto. apply (Np a a'); auto.
  - intros m m' Hin. apply Dm; auto. apply (Nm m m'); auto.
Qed.
