(* Pointerify's walk over the template value terminates on every finite closed
   heap (after the visited-set fix), with an explicit fuel bound; before the fix
   it does not (witness n.Any = n). *)
From Coq Require Import List NArith ZArith Bool Lia Arith.
From Dials Require Import Base.Outcome Base.Runes Reflect.Ty Reflect.Heap Copy.DeepCopy Copy.DeepCopySpec
  Copy.DeepCopyBasics Copy.DeepCopyInv Copy.DeepCopyTerm Copy.Canon Copy.PtrifyWalk.
Import ListNotations.
Open Scope N_scope.
Local Arguments hget : simpl never.

Lemma walk_all_oof {A} (g : A -> res unit) : forall l,
  walk_all g l = OutOfFuel -> exists x, In x l /\ g x = OutOfFuel.
Proof.
  induction l as [|x r IH]; simpl; intro H; [discriminate|].
  apply rbind_oof in H as [H|[[] [H1 H]]].
  - exists x. auto.
  - destruct (IH H) as [y [Hy Hg]]. exists y. auto.
Qed.

Lemma mem_false a l : mem a l = false -> ~ In a l.
Proof.
  induction l as [|b r IH]; simpl; [tauto|]. intro H. apply orb_false_iff in H as [H1 H2]. intros [E|Hin].
  - subst. rewrite N.eqb_refl in H1. discriminate.
  - apply IH; auto.
Qed.

Section Walk.
Variables (h : heap) (n0 : N) (P D : nat) (prk : list (addr * nat)).
Hypothesis Hwf : wf_heap h n0.
Hypothesis Hpr : wf_prank h P D prk.

Definition vrank (ps : list addr) : nat :=
  fold_right (fun b m => Nat.max (S (rank_of prk b)) m) O ps.

Lemma vrank_cons b r : vrank (b :: r) = Nat.max (S (rank_of prk b)) (vrank r).
Proof. reflexivity. Qed.

Lemma vrank_le ps n : (forall b, In b ps -> (rank_of prk b < n)%nat) -> (vrank ps <= n)%nat.
Proof.
  induction ps as [|b r IH]; intro H; [simpl; lia|]. rewrite vrank_cons.
  apply Nat.max_lub; [apply H; left; auto|apply IH; intros; apply H; right; auto].
Qed.

Lemma vrank_in b ps : In b ps -> (rank_of prk b < vrank ps)%nat.
Proof.
  induction ps as [|y r IH]; [intros []|]. rewrite vrank_cons. intros [->|H]; [lia|]. apply IH in H. lia.
Qed.

Lemma vrank_incl a b : incl a b -> (vrank a <= vrank b)%nat.
Proof. intro Hi. apply vrank_le. intros x Hx. apply vrank_in. auto. Qed.

Definition K : nat := ((P + 1) * (D + 1))%nat.

Definition wbound (seen : list addr) (v : hv) : nat :=
  ((N.to_nat n0 - length seen) * K + vrank (tptrs v) * (D + 1) + depth v)%nat.

Lemma cell_facts a l : hget h a = Some (OCell (HStruct l)) ->
  (depth (HStruct l) <= D)%nat /\ (vrank (tptrs (HStruct l)) <= rank_of prk a)%nat /\
  (vrank (tptrs (HStruct l)) <= P)%nat /\ refs_below n0 (refs (HStruct l)).
Proof.
  intro H. destruct (Hpr _ _ H) as [Hd Hr]. split; [auto|split; [|split]].
  - apply vrank_le. intros b Hb. apply Hr; auto.
  - apply vrank_le. intros b Hb. apply Hr; auto.
  - apply Hwf in H. destruct H as [_ H]. exact H.
Qed.

Lemma pwalk_no_oof : forall fuel seen v, NoDup seen -> (forall a, In a seen -> a < n0) ->
  refs_below n0 (refs v) -> (wbound seen v <= fuel)%nat -> pwalk false fuel h seen v <> OutOfFuel.
Proof.
  induction fuel as [|f IH]; intros seen v Hnd Hs Hb Hf.
  - unfold wbound in Hf. pose proof (depth_pos v) as Hp. exfalso.
    assert (Hz : forall a b c, (a + b + c <= 0 -> 1 <= c -> False)%nat) by (intros; lia).
    eapply Hz; eauto.
  - unfold wbound in Hf. simpl. destruct v as [x| [a|] | m | s | | t x | x | l | l]; try discriminate.
    + (* typed pointer *)
      destruct (hget h a) as [[[ | | | | | | | l | ]| |]|] eqn:G; try discriminate.
      destruct (cell_facts _ _ G) as (Hd & Hr & _ & Hbl).
      apply IH; auto. unfold wbound. simpl in Hf. try rewrite Nat.max_0_r in Hf.
      assert (vrank (tptrs (HStruct l)) * (D + 1) <= rank_of prk a * (D + 1))%nat by (apply Nat.mul_le_mono_r; lia).
      lia.
    + (* interface value *)
      destruct x as [y| [a|] | m | s | | t' y | y | l | l]; try discriminate.
      * destruct (mem a seen) eqn:Hm; [discriminate|]. simpl.
        destruct (hget h a) as [[[ | | | | | | | l | ]| |]|] eqn:G; try discriminate.
        destruct (cell_facts _ _ G) as (Hd & _ & Hr & Hbl).
        assert (Ha : a < n0) by (apply (Hb RCell a); simpl; auto).
        apply mem_false in Hm.
        assert (Hlen : (length (a :: seen) <= N.to_nat n0)%nat).
        { apply bounded_nodup_length; [constructor; auto|]. intros z [<-|Hz]; auto. }
        simpl in Hlen.
        apply IH; auto.
        -- constructor; auto.
        -- intros z [<-|Hz]; auto.
        -- unfold wbound. simpl length. unfold addr in *.
           assert (Hv : (vrank (tptrs (HStruct l)) * (D + 1) <= P * (D + 1))%nat) by (apply Nat.mul_le_mono_r; lia).
           assert (Hu : exists u, (N.to_nat n0 - length seen = S u /\ N.to_nat n0 - S (length seen) = u)%nat).
           { exists (N.to_nat n0 - S (length seen))%nat. lia. }
           destruct Hu as (u & Hu1 & Hu2). rewrite Hu2. rewrite Hu1 in Hf.
           assert (Hkk : (K = P * (D + 1) + D + 1)%nat) by (unfold K; lia).
           simpl tptrs in Hf. simpl vrank in Hf. simpl depth in Hf. rewrite Nat.mul_succ_l in Hf.
           generalize dependent K. intros k Hf Hkk. subst k.
           set (uk := (u * (P * (D + 1) + D + 1))%nat) in *.
           set (vr := (vrank (tptrs (HStruct l)) * (D + 1))%nat) in *.
           set (pd := (P * (D + 1))%nat) in *. simpl in Hf. lia.
      * (* struct value in an interface *)
        apply IH; auto. unfold wbound. simpl in Hf. simpl. lia.
    + (* struct *)
      intro Ho. apply walk_all_oof in Ho as [x [Hx Ho]]. revert Ho. apply IH; auto.
      * intros k b Hin. apply (Hb k b). simpl. apply in_flat_map. exists x. auto.
      * unfold wbound. simpl in Hf.
        assert (Hv : (vrank (tptrs x) <= vrank (flat_map tptrs l))%nat).
        { apply vrank_incl. intros z Hz. apply in_flat_map. exists x. auto. }
        assert (vrank (tptrs x) * (D + 1) <= vrank (flat_map tptrs l) * (D + 1))%nat by (apply Nat.mul_le_mono_r; lia).
        pose proof (depth_in x l Hx) as Hdx. unfold depth_list in Hdx. lia.
Qed.

End Walk.

Lemma wf_prankb_ok h P D prk : wf_prankb h P D prk = true -> wf_prank h P D prk.
Proof.
  unfold wf_prankb. rewrite forallb_forall. intros H a l Hg. apply hget_In in Hg. apply H in Hg. simpl in Hg.
  apply andb_true_iff in Hg as [H1 H2]. split; [apply Nat.leb_le; auto|].
  intros b Hb. rewrite forallb_forall in H2. apply H2 in Hb. apply andb_true_iff in Hb as [Q1 Q2].
  split; apply Nat.ltb_lt; auto.
Qed.

(* Pointerify's walk over the (copied) template terminates *)
Theorem pointerify_walk_terminates_l : forall h n0 P D prk v fuel,
  wf_heapb h n0 = true -> wf_prankb h P D prk = true -> pwalk_root_ok n0 P D prk v = true ->
  (pwalk_fuel n0 P D <= fuel)%nat ->
  pwalk false fuel h [] v <> OutOfFuel.
Proof.
  intros h n0 P D prk v fuel G1 G2 G3 Hf. apply wf_heapb_ok in G1. apply wf_prankb_ok in G2.
  unfold pwalk_root_ok in G3. apply andb_true_iff in G3 as [G3 G5]. apply andb_true_iff in G3 as [G3 G4].
  apply Nat.leb_le in G4.
  eapply (pwalk_no_oof h n0 P D prk); eauto.
  - constructor.
  - intros a [].
  - intros k b Hin. unfold refs_belowb in G3. rewrite forallb_forall in G3. apply G3 in Hin. apply N.ltb_lt; auto.
  - unfold wbound, pwalk_fuel, K in *. simpl length.
    assert (vrank prk (tptrs v) <= P)%nat.
    { apply vrank_le. intros b Hb. rewrite forallb_forall in G5. apply G5 in Hb. apply Nat.ltb_lt; auto. }
    assert (vrank prk (tptrs v) * (D + 1) <= P * (D + 1))%nat by (apply Nat.mul_le_mono_r; lia).
    nia.
Qed.

(* finding 2b on the code before the fix: n.Any = n *)
Definition h_any2 : heap :=
  [(0, OCell (HStruct [HIface 1 (HPtr (Some 0)); HSlice None; HMap None; HLeaf (VInt 0)]))].

Theorem c03_pointerify_unfixed_refuted :
  wf_heapb h_any2 1 = true /\ wf_prankb h_any2 1 3 [] = true /\ pwalk_root_ok 1 1 3 [] (HPtr (Some 0)) = true /\
  pwalk true (pwalk_fuel 1 1 3) h_any2 [] (HPtr (Some 0)) = OutOfFuel /\
  pwalk false (pwalk_fuel 1 1 3) h_any2 [] (HPtr (Some 0)) = Done tt.
Proof. repeat split; vm_compute; reflexivity. Qed.
