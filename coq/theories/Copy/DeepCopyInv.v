(* Invariants of the (fixed) deep copier: allocator monotonicity, frame
   (nothing below the allocator position of the call is ever written),
   freshness of everything recorded or returned, shape of the memo tables. *)
From Coq Require Import List NArith ZArith Bool Lia Permutation.
From Dials Require Import Base.Outcome Base.Runes Reflect.Ty Reflect.Heap Copy.DeepCopy Copy.DeepCopySpec
  Copy.DeepCopyBasics.
Import ListNotations.
Open Scope N_scope.
Local Arguments hset : simpl never.
Local Arguments hget : simpl never.

Definition refs_fresh (lo hi : N) (rs : list (rkind * addr)) : Prop :=
  forall k b, In (k, b) rs -> lo <= b < hi.

Lemma refs_fresh_mono lo hi hi' rs : hi <= hi' -> refs_fresh lo hi rs -> refs_fresh lo hi' rs.
Proof. intros Hle H k b Hin. specialize (H k b Hin). lia. Qed.

Lemma refs_fresh_app lo hi a b : refs_fresh lo hi a -> refs_fresh lo hi b -> refs_fresh lo hi (a ++ b).
Proof. intros Ha Hb k x Hin. apply in_app_or in Hin as [H|H]; eauto. Qed.

Lemma refs_fresh_nil lo hi : refs_fresh lo hi [].
Proof. intros k b []. Qed.

Lemma refs_below_app n a b : refs_below n (a ++ b) -> refs_below n a /\ refs_below n b.
Proof. intro H; split; intros k x Hin; apply (H k x); apply in_or_app; auto. Qed.

Record ext (st st' : cst) : Prop := {
  e_next : c_next st <= c_next st';
  e_frame : forall a, a < c_next st -> hget (c_heap st') a = hget (c_heap st) a;
  e_pm : exists d, c_pm st' = d ++ c_pm st /\ forall a b, In (a, b) d -> c_next st <= b;
  e_mm : exists d, c_mm st' = d ++ c_mm st /\ forall a b, In (a, b) d -> c_next st <= b }.

Lemma ext_refl st : ext st st.
Proof. split; [lia|auto|exists []; split; [auto|intros ? ? []]|exists []; split; [auto|intros ? ? []]]. Qed.

Lemma ext_trans a b c : ext a b -> ext b c -> ext a c.
Proof.
  intros [n1 f1 [d1 [p1 q1]] [e1 [m1 r1]]] [n2 f2 [d2 [p2 q2]] [e2 [m2 r2]]]. split.
  - lia.
  - intros x Hx. rewrite f2 by lia. apply f1; auto.
  - exists (d2 ++ d1). split; [rewrite p2, p1, app_assoc; reflexivity|].
    intros x y Hin. apply in_app_or in Hin as [Hin|Hin]; [apply q2 in Hin; lia|apply q1 in Hin; auto].
  - exists (e2 ++ e1). split; [rewrite m2, m1, app_assoc; reflexivity|].
    intros x y Hin. apply in_app_or in Hin as [Hin|Hin]; [apply r2 in Hin; lia|apply r1 in Hin; auto].
Qed.

Section Inv.
Variables (h0 : heap) (n0 : N).
Hypothesis Hwf : wf_heap h0 n0.

Record inv (st : cst) : Prop := {
  i_next : n0 <= c_next st;
  i_bound : forall a o, hget (c_heap st) a = Some o -> a < c_next st;
  i_frame : forall a, a < n0 -> hget (c_heap st) a = hget h0 a;
  i_fresh : forall a o, hget (c_heap st) a = Some o -> n0 <= a -> refs_fresh n0 (c_next st) (obj_refs o);
  i_pm : forall a b, In (a, b) (c_pm st) -> a < n0 /\ n0 <= b < c_next st;
  i_mm : forall a b, In (a, b) (c_mm st) -> a < n0 /\ n0 <= b < c_next st;
  i_pm_nd : NoDup (map fst (c_pm st));
  i_mm_nd : NoDup (map fst (c_mm st));
  i_val_nd : NoDup (map snd (c_pm st) ++ map snd (c_mm st)) }.

Lemma inv_init : inv (init_cst h0 n0).
Proof.
  split; simpl.
  - lia.
  - intros x o H. apply Hwf in H. tauto.
  - auto.
  - intros x o H Hge. apply Hwf in H. lia.
  - intros x b [].
  - intros x b [].
  - constructor.
  - constructor.
  - constructor.
Qed.

Lemma values_lt st b : inv st -> In b (map snd (c_pm st) ++ map snd (c_mm st)) -> b < c_next st.
Proof.
  intros I H. apply in_app_or in H as [H|H]; apply in_map_iff in H as [[x y] [E Hin]]; simpl in E; subst.
  - apply (i_pm _ I) in Hin. lia.
  - apply (i_mm _ I) in Hin. lia.
Qed.

Lemma next_not_value st : inv st -> ~ In (c_next st) (map snd (c_pm st) ++ map snd (c_mm st)).
Proof. intros I H. apply (values_lt _ _ I) in H. lia. Qed.

Lemma inv_alloc_pm st a : inv st -> a < n0 -> alookup (c_pm st) a = None -> inv (st_alloc_pm st a).
Proof.
  intros I Ha Hl. destruct I. split; simpl; auto.
  - lia.
  - intros x o H. apply i_bound0 in H. lia.
  - intros x o H Hge. eapply refs_fresh_mono; [|eapply i_fresh0; eauto]. lia.
  - intros x b [E|Hin]; [inversion E; subst; lia|]. apply i_pm0 in Hin. lia.
  - intros x b Hin. apply i_mm0 in Hin. lia.
  - constructor; auto. apply alookup_None. auto.
  - constructor; auto. apply (next_not_value st). split; auto.
Qed.

Lemma inv_alloc_mm st m : inv st -> m < n0 -> alookup (c_mm st) m = None -> inv (st_alloc_mm st m).
Proof.
  intros I Ha Hl. pose proof (next_not_value st I) as Hnv. destruct I. split; simpl; auto.
  - lia.
  - intros x o H. apply i_bound0 in H. lia.
  - intros x o H Hge. eapply refs_fresh_mono; [|eapply i_fresh0; eauto]. lia.
  - intros x b Hin. apply i_pm0 in Hin. lia.
  - intros x b [E|Hin]; [inversion E; subst; lia|]. apply i_mm0 in Hin. lia.
  - constructor; auto. apply alookup_None. auto.
  - eapply Permutation.Permutation_NoDup; [apply Permutation.Permutation_middle|].
    constructor; auto.
Qed.

Lemma inv_alloc st : inv st -> inv (st_alloc st).
Proof.
  intros I. destruct I. split; simpl; auto.
  - lia.
  - intros x o H. apply i_bound0 in H. lia.
  - intros x o H Hge. eapply refs_fresh_mono; [|eapply i_fresh0; eauto]. lia.
  - intros x b Hin. apply i_pm0 in Hin. lia.
  - intros x b Hin. apply i_mm0 in Hin. lia.
Qed.

Lemma inv_set_obj st a o :
  inv st -> n0 <= a < c_next st -> refs_fresh n0 (c_next st) (obj_refs o) -> inv (set_obj st a o).
Proof.
  intros I Ha Ho. destruct I. split; simpl; auto.
  - intros x o' H. destruct (N.eq_dec x a); [subst; lia|]. rewrite hget_hset_ne in H by auto. eauto.
  - intros x Hx. rewrite hget_hset_ne by lia. auto.
  - intros x o' H Hge. destruct (N.eq_dec x a).
    + subst. rewrite hget_hset_eq in H. inversion H; subst. auto.
    + rewrite hget_hset_ne in H by auto. eauto.
Qed.

Definition delta_ok (lo : N) (d : amap) (m' m : amap) : Prop :=
  m' = d ++ m /\ forall a b, In (a, b) d -> lo <= b.

Lemma delta_nil lo m : delta_ok lo [] m m.
Proof. split; [auto|intros ? ? []]. Qed.
Lemma delta_one lo a m : delta_ok lo [(a, lo)] ((a, lo) :: m) m.
Proof. split; [auto|]. intros x y [E|[]]. inversion E; subst. lia. Qed.

Lemma ext_alloc_pm st a : ext st (st_alloc_pm st a).
Proof. split; simpl; [lia|auto|exists [(a, c_next st)]; apply delta_one|exists []; apply delta_nil]. Qed.
Lemma ext_alloc_mm st a : ext st (st_alloc_mm st a).
Proof. split; simpl; [lia|auto|exists []; apply delta_nil|exists [(a, c_next st)]; apply delta_one]. Qed.
Lemma ext_alloc st : ext st (st_alloc st).
Proof. split; simpl; [lia|auto|exists []; apply delta_nil|exists []; apply delta_nil]. Qed.

(* writing the reserved object: an extension of the state before the reservation *)
Lemma ext_set_obj st st1 st2 o :
  c_next st1 = c_next st + 1 -> ext st st1 -> ext st1 st2 -> ext st (set_obj st2 (c_next st) o).
Proof.
  intros Hn E1 E2. pose proof (ext_trans _ _ _ E1 E2) as [n f p m]. split; simpl; auto.
  intros a Ha. rewrite hget_hset_ne by lia. auto.
Qed.

Definition post (st : cst) (st' : cst) (rs' : list (rkind * addr)) : Prop :=
  inv st' /\ ext st st' /\ refs_fresh n0 (c_next st') rs'.

Lemma cell_refs_below st a x :
  inv st -> a < n0 -> hget (c_heap st) a = Some (OCell x) -> refs_below n0 (refs x).
Proof. intros I Ha H. rewrite (i_frame _ I) in H by auto. apply Hwf in H. tauto. Qed.

Lemma map_refs_below st a kvs :
  inv st -> a < n0 -> hget (c_heap st) a = Some (OMap kvs) -> refs_below n0 (refs_kvs kvs).
Proof. intros I Ha H. rewrite (i_frame _ I) in H by auto. apply Hwf in H. tauto. Qed.

Lemma arr_refs_below st a es :
  inv st -> a < n0 -> hget (c_heap st) a = Some (OArr es) -> refs_below n0 (refs_list es).
Proof. intros I Ha H. rewrite (i_frame _ I) in H by auto. apply Hwf in H. tauto. Qed.

Lemma window_refs_below es off cap :
  refs_below n0 (refs_list es) -> refs_below n0 (refs_list (window es off cap)).
Proof.
  intros H k b Hin. unfold refs_list in *. apply in_flat_map in Hin as [x [Hx Hr]].
  apply (H k b). apply in_flat_map. exists x; split; auto. eapply window_incl; eauto.
Qed.

Section Step.
Variable f : nat.
Hypothesis IH : forall st v st' v', inv st -> refs_below n0 (refs v) ->
  copy true f st v = Done (st', v') -> post st st' (refs v').

Lemma map_st_post : forall l st st' l', inv st -> refs_below n0 (refs_list l) ->
  map_st (copy true f) st l = Done (st', l') -> post st st' (refs_list l').
Proof.
  induction l as [|x r IHl]; intros st st' l' I Hb H.
  - simpl in H. inversion H; subst. split; [auto|split; [apply ext_refl|apply refs_fresh_nil]].
  - apply map_st_cons_done in H as (st1 & x' & r' & H1 & H2 & ->).
    unfold refs_list in Hb; simpl in Hb. apply refs_below_app in Hb as [Hbx Hbr].
    apply IH in H1 as (I1 & E1 & F1); auto.
    apply IHl in H2 as (I2 & E2 & F2); auto.
    split; [auto|split; [eapply ext_trans; eauto|]].
    unfold refs_list; simpl. apply refs_fresh_app; auto.
    eapply refs_fresh_mono; [|exact F1]. apply (e_next _ _ E2).
Qed.

Lemma map_kvs_post : forall l st st' l', inv st -> refs_below n0 (refs_kvs l) ->
  map_kvs (copy true f) st l = Done (st', l') -> post st st' (refs_kvs l').
Proof.
  induction l as [|[k v] r IHl]; intros st st' l' I Hb H.
  - simpl in H. inversion H; subst. split; [auto|split; [apply ext_refl|apply refs_fresh_nil]].
  - apply map_kvs_cons_done in H as (st1 & k' & st2 & v' & r' & H1 & H2 & H3 & ->).
    unfold refs_kvs in Hb; simpl in Hb. apply refs_below_app in Hb as [Hbkv Hbr].
    apply refs_below_app in Hbkv as [Hbk Hbv].
    apply IH in H1 as (I1 & E1 & F1); auto.
    apply IH in H2 as (I2 & E2 & F2); auto.
    apply IHl in H3 as (I3 & E3 & F3); auto.
    split; [auto|split; [eapply ext_trans; [|eauto]; eapply ext_trans; eauto|]].
    unfold refs_kvs; simpl. apply refs_fresh_app; auto. apply refs_fresh_app.
    + eapply refs_fresh_mono; [|exact F1]. pose proof (e_next _ _ E2). pose proof (e_next _ _ E3). lia.
    + eapply refs_fresh_mono; [|exact F2]. apply (e_next _ _ E3).
Qed.

Lemma copy_step_post st v st' v' :
  inv st -> refs_below n0 (refs v) -> copy_step f st v st' v' -> post st st' (refs v').
Proof.
  intros I Hb Hs. destruct Hs.
  - split; [auto|split; [apply ext_refl|]]. rewrite H. apply refs_fresh_nil.
  - apply map_st_post in H; auto.
  - apply map_st_post in H; auto.
  - split; [auto|split; [apply ext_refl|]]. intros k b [E|[]]. inversion E; subst.
    apply alookup_In in H. apply (i_pm _ I) in H. lia.
  - (* new pointer *)
    assert (Ha : a < n0) by (apply (Hb RCell a); simpl; auto).
    pose proof (inv_alloc_pm st a I Ha H) as I1.
    apply IH in H1 as (I2 & E2 & F2); [|auto|eapply cell_refs_below; eauto].
    pose proof (e_next _ _ E2) as Hn; simpl in Hn.
    split; [|split].
    + apply inv_set_obj; auto. pose proof (i_next _ I). lia.
    + eapply ext_set_obj with (st1 := st_alloc_pm st a); eauto. apply ext_alloc_pm.
    + simpl. intros k b [E|[]]. inversion E; subst. pose proof (i_next _ I). lia.
  - split; [auto|split; [apply ext_refl|]]. intros k b [E|[]]. inversion E; subst.
    apply alookup_In in H. apply (i_mm _ I) in H. lia.
  - (* new map *)
    assert (Ha : m < n0) by (apply (Hb RMap m); simpl; auto).
    pose proof (inv_alloc_mm st m I Ha H) as I1.
    apply map_kvs_post in H1 as (I2 & E2 & F2); [|auto|eapply map_refs_below; eauto].
    pose proof (e_next _ _ E2) as Hn; simpl in Hn.
    split; [|split].
    + apply inv_set_obj; auto. pose proof (i_next _ I). lia.
    + eapply ext_set_obj with (st1 := st_alloc_mm st m); eauto. apply ext_alloc_mm.
    + simpl. intros k b [E|[]]. inversion E; subst. pose proof (i_next _ I). lia.
  - (* slice *)
    assert (Ha : s_arr s < n0) by (apply (Hb RArr (s_arr s)); simpl; auto).
    pose proof (inv_alloc st I) as I1.
    apply map_st_post in H1 as (I2 & E2 & F2); [|auto|].
    2:{ apply window_refs_below. eapply arr_refs_below; eauto. }
    pose proof (e_next _ _ E2) as Hn; simpl in Hn.
    split; [|split].
    + apply inv_set_obj; auto. pose proof (i_next _ I). lia.
    + eapply ext_set_obj with (st1 := st_alloc st); eauto. apply ext_alloc.
    + simpl. intros k b [E|[]]. inversion E; subst. simpl. pose proof (i_next _ I). lia.
  - apply IH in H0; auto.
Qed.

End Step.

Theorem copy_post : forall f st v st' v', inv st -> refs_below n0 (refs v) ->
  copy true f st v = Done (st', v') -> post st st' (refs v').
Proof.
  induction f; intros st v st' v' I Hb H; [discriminate|].
  apply copy_inv in H. eapply copy_step_post; eauto.
Qed.

Lemma map_st_copy_post f l st st' l' : inv st -> refs_below n0 (refs_list l) ->
  map_st (copy true f) st l = Done (st', l') -> post st st' (refs_list l').
Proof. apply map_st_post. intros; eapply copy_post; eauto. Qed.

Lemma map_kvs_copy_post f l st st' l' : inv st -> refs_below n0 (refs_kvs l) ->
  map_kvs (copy true f) st l = Done (st', l') -> post st st' (refs_kvs l').
Proof. apply map_kvs_post. intros; eapply copy_post; eauto. Qed.

End Inv.
