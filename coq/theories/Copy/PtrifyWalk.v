(* Model of the walk ptrify.Pointerify makes over the TEMPLATE VALUE (the copy
   of the caller's defaults), after the commit "fix: Pointerify stops
   devirtualizing an interface value that points back into the template value
   being walked" - definitions only.

   Pointerify is type directed; where the template is nil it continues on the
   static types alone (finite for every type that has a `ty`; infinite for a
   type that reaches itself through struct / pointer-to-struct fields: finding
   15, class C03/1).  What depends on VALUES is modelled here, value directed:
     struct value                 every field in turn (pointerify's loop), same `seen`
     typed pointer to a struct    follows the template: *tmpl (no visited check)
     interface value holding
       a non-nil pointer p        if p is in `seen` stop (keep the interface type), else
                                  walk the pointee with p added to `seen`; p is removed
                                  again afterwards (defer delete): `seen` is the set of
                                  interface-held pointers on the current PATH
       a struct value             walk it
       anything else              stop (maps, slices, arrays, scalars keep / get their type)
     map, slice, array, scalar    stop
   The model ignores OmitField and TextUnmarshaler (it walks such fields too):
   it walks a SUPERSET of the paths the Go code walks, so its termination
   implies that of the Go walk on the same template.  `unfixed = true` is the
   code before the fix (no visited set): it diverges on n.Any = n. *)
From Coq Require Import List NArith ZArith Bool.
From Dials Require Import Base.Outcome Base.Runes Reflect.Ty Reflect.Heap Copy.DeepCopy Copy.DeepCopySpec Copy.Canon.
Import ListNotations.
Open Scope N_scope.

Fixpoint walk_all {A} (g : A -> res unit) (l : list A) : res unit :=
  match l with
  | [] => Done tt
  | x :: r => _ <~ g x ;; walk_all g r
  end.

Fixpoint pwalk (unfixed : bool) (fuel : nat) (h : heap) (seen : list addr) (v : hv) {struct fuel} : res unit :=
  match fuel with
  | O => OutOfFuel
  | S f =>
    match v with
    | HStruct l => walk_all (pwalk unfixed f h seen) l
    | HPtr (Some a) =>
        match hget h a with
        | Some (OCell (HStruct l)) => pwalk unfixed f h seen (HStruct l)
        | _ => Done tt
        end
    | HIface _ x =>
        match x with
        | HPtr (Some a) =>
            if negb unfixed && mem a seen then Done tt
            else match hget h a with
                 | Some (OCell (HStruct l)) => pwalk unfixed f h (a :: seen) (HStruct l)
                 | _ => Done tt
                 end
        | HStruct l => pwalk unfixed f h seen (HStruct l)
        | _ => Done tt
        end
    | _ => Done tt
    end
  end.

(* typed pointers held inline by a value (reached without passing an interface-held
   pointer): the only references the walk follows without a visited check *)
Fixpoint tptrs (v : hv) : list addr :=
  match v with
  | HPtr (Some a) => [a]
  | HStruct l => flat_map tptrs l
  | HIface _ (HStruct l) => flat_map tptrs l
  | _ => []
  end.

(* Guard of the termination theorem: a ranking of the cells such that a typed
   pointer held inline by the struct in cell a leads to a cell of smaller rank
   (< P) - no cycle runs through typed pointer-to-struct fields alone (on such a
   cycle Go's TYPE would reach itself: finding 15); D bounds the nesting depth. *)
Definition wf_prank (h : heap) (P D : nat) (prk : list (addr * nat)) : Prop :=
  forall a l, hget h a = Some (OCell (HStruct l)) ->
    (depth (HStruct l) <= D)%nat /\
    forall b, In b (tptrs (HStruct l)) -> (rank_of prk b < rank_of prk a)%nat /\ (rank_of prk b < P)%nat.

Definition wf_prankb (h : heap) (P D : nat) (prk : list (addr * nat)) : bool :=
  forallb (fun ao =>
    match snd ao with
    | OCell (HStruct l) =>
        Nat.leb (depth (HStruct l)) D &&
        forallb (fun b => Nat.ltb (rank_of prk b) (rank_of prk (fst ao)) && Nat.ltb (rank_of prk b) P) (tptrs (HStruct l))
    | _ => true
    end) h.

Definition pwalk_root_ok (n0 : N) (P D : nat) (prk : list (addr * nat)) (v : hv) : bool :=
  refs_belowb n0 (refs v) && Nat.leb (depth v) D && forallb (fun b => Nat.ltb (rank_of prk b) P) (tptrs v).

Definition pwalk_fuel (n0 : N) (P D : nat) : nat := ((N.to_nat n0 + 1) * ((P + 1) * (D + 1)))%nat.

(* a ranking of the cells for wf_prankb (Canon.iter_ranks: polynomial; the guard re-checks it) *)
Definition cell_edges (h : heap) : list (addr * list addr) :=
  flat_map (fun ao => match snd ao with
                      | OCell (HStruct l) => [(fst ao, tptrs (HStruct l))]
                      | _ => []
                      end) h.

Definition compute_prk (h : heap) : list (addr * nat) :=
  let edges := cell_edges h in iter_ranks (S (length edges)) edges [].
