(* Basic facts about heaps, association maps and the shape of `copy`
   (inversion lemma used by every proof about the copier). *)
From Coq Require Import List NArith ZArith Bool Lia.
From Dials Require Import Base.Outcome Base.Runes Reflect.Ty Reflect.Heap Copy.DeepCopy Copy.DeepCopySpec.
Import ListNotations.
Open Scope N_scope.

Lemma hget_hset_eq h a o : hget (hset h a o) a = Some o.
Proof. unfold hset; simpl. rewrite N.eqb_refl. reflexivity. Qed.

Lemma hget_hset_ne h a b o : a <> b -> hget (hset h b o) a = hget h a.
Proof. intro Hn. unfold hset; simpl. destruct (N.eqb_spec a b); [contradiction|reflexivity]. Qed.

Lemma hget_In h a o : hget h a = Some o -> In (a, o) h.
Proof.
  induction h as [|[b o'] h IH]; simpl; [discriminate|].
  destruct (N.eqb_spec a b); intro H.
  - inversion H; subst. left; reflexivity.
  - right; auto.
Qed.

Lemma alookup_In m a b : alookup m a = Some b -> In (a, b) m.
Proof.
  induction m as [|[x y] m IH]; simpl; [discriminate|].
  destruct (N.eqb_spec a x); intro H.
  - inversion H; subst. left; reflexivity.
  - right; auto.
Qed.

Lemma alookup_None m a : alookup m a = None -> ~ In a (map fst m).
Proof.
  induction m as [|[x y] m IH]; simpl; [tauto|].
  destruct (N.eqb_spec a x); intro H; [discriminate|].
  intros [Hx|Hx]; [congruence|]. apply IH; auto.
Qed.

Lemma In_alookup m a b : NoDup (map fst m) -> In (a, b) m -> alookup m a = Some b.
Proof.
  induction m as [|[x y] m IH]; simpl; [tauto|].
  intros Hnd [Heq|Hin].
  - inversion Heq; subst. rewrite N.eqb_refl. reflexivity.
  - inversion Hnd; subst.
    destruct (N.eqb_spec a x).
    + subst. exfalso. apply H1. change x with (fst (x, b)). apply in_map. exact Hin.
    + auto.
Qed.

Lemma in_fst {A B} (l : list (A * B)) a b : In (a, b) l -> In a (map fst l).
Proof. intro H. change a with (fst (a, b)). apply in_map. exact H. Qed.
Lemma in_snd {A B} (l : list (A * B)) a b : In (a, b) l -> In b (map snd l).
Proof. intro H. change b with (snd (a, b)). apply in_map. exact H. Qed.

(* ---- refs of parts ---- *)
Lemma refs_in_list x l k b : In x l -> In (k, b) (refs x) -> In (k, b) (flat_map refs l).
Proof. intros Hx Hr. apply in_flat_map. exists x; split; assumption. Qed.

Lemma In_firstn {A} n (l : list A) x : In x (firstn n l) -> In x l.
Proof.
  revert l; induction n; simpl; intros l H; [contradiction|].
  destruct l; simpl in *; [contradiction|]. destruct H; auto.
Qed.

Lemma In_skipn {A} n (l : list A) x : In x (skipn n l) -> In x l.
Proof.
  revert l; induction n; simpl; intros l H; [exact H|].
  destruct l; simpl in *; [contradiction|]. right; auto.
Qed.

Lemma window_incl es off cap x : In x (window es off cap) -> In x es.
Proof. unfold window. intro H. apply In_firstn in H. apply In_skipn in H. exact H. Qed.

Lemma window_length es off cap :
  off + cap <= N.of_nat (length es) -> length (window es off cap) = N.to_nat cap.
Proof.
  intro H. unfold window. rewrite firstn_length, skipn_length. lia.
Qed.

(* ---- results ---- *)
Lemma rbind_done {A B} (r : res A) (f : A -> res B) b :
  rbind r f = Done b -> exists a, r = Done a /\ f a = Done b.
Proof. destruct r; simpl; intro H; try discriminate. eauto. Qed.

Lemma rbind_oof {A B} (r : res A) (f : A -> res B) :
  rbind r f = OutOfFuel -> r = OutOfFuel \/ exists a, r = Done a /\ f a = OutOfFuel.
Proof. destruct r; simpl; intro H; try discriminate; eauto. Qed.

(* ---- map_st / map_kvs ---- *)
Lemma map_st_nil {S} (g : S -> hv -> res (S * hv)) st : map_st g st [] = Done (st, []).
Proof. reflexivity. Qed.

Lemma map_st_cons_done {S} (g : S -> hv -> res (S * hv)) st x r st' l' :
  map_st g st (x :: r) = Done (st', l') ->
  exists st1 x' r', g st x = Done (st1, x') /\ map_st g st1 r = Done (st', r') /\ l' = x' :: r'.
Proof.
  simpl. intro H. apply rbind_done in H as [[st1 x'] [H1 H]].
  apply rbind_done in H as [[st2 r'] [H2 H]]. simpl in *. inversion H; subst.
  exists st1, x', r'. auto.
Qed.

Lemma map_kvs_cons_done {S} (g : S -> hv -> res (S * hv)) st k v r st' l' :
  map_kvs g st ((k, v) :: r) = Done (st', l') ->
  exists st1 k' st2 v' r', g st k = Done (st1, k') /\ g st1 v = Done (st2, v') /\
     map_kvs g st2 r = Done (st', r') /\ l' = (k', v') :: r'.
Proof.
  simpl. intro H. apply rbind_done in H as [[st1 k'] [H1 H]].
  apply rbind_done in H as [[st2 v'] [H2 H]]. apply rbind_done in H as [[st3 r'] [H3 H]].
  simpl in *. inversion H; subst. exists st1, k', st2, v', r'. auto.
Qed.

(* ---- the shape of one step of the fixed copier ---- *)
Definition st_alloc_pm (st : cst) (a : addr) : cst :=
  mk_cst (c_heap st) (c_next st + 1) ((a, c_next st) :: c_pm st) (c_mm st).
Definition st_alloc_mm (st : cst) (m : addr) : cst :=
  mk_cst (c_heap st) (c_next st + 1) (c_pm st) ((m, c_next st) :: c_mm st).
Definition st_alloc (st : cst) : cst :=
  mk_cst (c_heap st) (c_next st + 1) (c_pm st) (c_mm st).

(* payloads of interface values the fixed code copies by the general path *)
Definition iface_rec (x : hv) : bool :=
  match x with
  | HPtr _ | HMap (Some _) | HSlice _ | HStruct _ | HArray _ => true
  | _ => false
  end.

Inductive copy_step (f : nat) (st : cst) : hv -> cst -> hv -> Prop :=
| cs_id : forall v, refs v = [] -> inline_slices v = [] ->
    (forall pm mm H, vrel pm mm H v v) -> (forall g, map_addr g v = v) ->
    (forall st1, copy true (S f) st1 v = Done (st1, v)) -> copy_step f st v st v
| cs_struct : forall l st' l', map_st (copy true f) st l = Done (st', l') -> copy_step f st (HStruct l) st' (HStruct l')
| cs_array : forall l st' l', map_st (copy true f) st l = Done (st', l') -> copy_step f st (HArray l) st' (HArray l')
| cs_ptr_hit : forall a a', alookup (c_pm st) a = Some a' -> copy_step f st (HPtr (Some a)) st (HPtr (Some a'))
| cs_ptr_new : forall a x st2 x', alookup (c_pm st) a = None -> hget (c_heap st) a = Some (OCell x) ->
    copy true f (st_alloc_pm st a) x = Done (st2, x') ->
    copy_step f st (HPtr (Some a)) (set_obj st2 (c_next st) (OCell x')) (HPtr (Some (c_next st)))
| cs_map_hit : forall m m', alookup (c_mm st) m = Some m' -> copy_step f st (HMap (Some m)) st (HMap (Some m'))
| cs_map_new : forall m kvs st2 kvs', alookup (c_mm st) m = None -> hget (c_heap st) m = Some (OMap kvs) ->
    map_kvs (copy true f) (st_alloc_mm st m) kvs = Done (st2, kvs') ->
    copy_step f st (HMap (Some m)) (set_obj st2 (c_next st) (OMap kvs')) (HMap (Some (c_next st)))
| cs_slice : forall s es st2 es', hget (c_heap st) (s_arr s) = Some (OArr es) -> slice_ok s es = true ->
    map_st (copy true f) (st_alloc st) (window es (s_off s) (s_cap s)) = Done (st2, es') ->
    copy_step f st (HSlice (Some s)) (set_obj st2 (c_next st) (OArr es'))
              (HSlice (Some (mk_sref (c_next st) 0 (s_len s) (s_cap s))))
| cs_iface : forall t x st' x', iface_rec x = true -> copy true f st x = Done (st', x') ->
    copy_step f st (HIface t x) st' (HIface t x').

Lemma copy_inv f st v st' v' :
  copy true (S f) st v = Done (st', v') -> copy_step f st v st' v'.
Proof.
  intro H. simpl in H.
  destruct v as [x| [a|] | [m|] | [s|] | | t x | x | l | l].
  - inversion H; subst. apply cs_id; auto. intros; constructor.
  - (* ptr *)
    destruct (alookup (c_pm st) a) as [a'|] eqn:Hl.
    + inversion H; subst. apply cs_ptr_hit; auto.
    + destruct (hget (c_heap st) a) as [[x|?|?]|] eqn:Hg; try discriminate.
      apply rbind_done in H as [[st2 x'] [H1 H2]]. simpl in H2. inversion H2; subst.
      eapply cs_ptr_new; eauto.
  - inversion H; subst. apply cs_id; auto. intros; constructor.
  - destruct (alookup (c_mm st) m) as [m'|] eqn:Hl.
    + inversion H; subst. apply cs_map_hit; auto.
    + destruct (hget (c_heap st) m) as [[?|kvs|?]|] eqn:Hg; try discriminate.
      apply rbind_done in H as [[st2 kvs'] [H1 H2]]. simpl in H2. inversion H2; subst.
      eapply cs_map_new; eauto.
  - inversion H; subst. apply cs_id; auto. intros; constructor.
  - destruct (hget (c_heap st) (s_arr s)) as [[?|?|es]|] eqn:Hg; try discriminate.
    destruct (slice_ok s es) eqn:Hok; try discriminate.
    apply rbind_done in H as [[st2 es'] [H1 H2]]. simpl in H2. inversion H2; subst.
    eapply cs_slice; eauto.
  - inversion H; subst. apply cs_id; auto. intros; constructor.
  - inversion H; subst. apply cs_id; auto. intros; constructor.
  - (* iface *)
    destruct x as [y| p | [m|] | s | | t' y | y | l | l]; try discriminate.
    + inversion H; subst. apply cs_id; auto. intros; repeat constructor.
    + apply rbind_done in H as [[st2 x'] [H1 H2]]. simpl in H2. inversion H2; subst. apply cs_iface; auto.
    + apply rbind_done in H as [[st2 x'] [H1 H2]]. simpl in H2. inversion H2; subst. apply cs_iface; auto.
    + inversion H; subst. apply cs_id; auto. intros; repeat constructor.
    + apply rbind_done in H as [[st2 x'] [H1 H2]]. simpl in H2. inversion H2; subst. apply cs_iface; auto.
    + apply rbind_done in H as [[st2 x'] [H1 H2]]. simpl in H2. inversion H2; subst. apply cs_iface; auto.
    + apply rbind_done in H as [[st2 x'] [H1 H2]]. simpl in H2. inversion H2; subst. apply cs_iface; auto.
  - inversion H; subst. apply cs_id; auto. intros; constructor.
  - apply rbind_done in H as [[st2 l'] [H1 H2]]. simpl in H2. inversion H2; subst. apply cs_struct; auto.
  - apply rbind_done in H as [[st2 l'] [H1 H2]]. simpl in H2. inversion H2; subst. apply cs_array; auto.
Qed.
