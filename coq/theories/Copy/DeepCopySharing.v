(* Sharing: R is functional and injective, total on the pointer and map nodes
   reachable from the input, and maps reachable nodes to reachable nodes: equal
   references stay equal, distinct ones stay distinct, cycles stay cycles. *)
From Coq Require Import List NArith ZArith Bool Lia.
From Dials Require Import Base.Outcome Base.Runes Reflect.Ty Reflect.Heap Copy.DeepCopy Copy.DeepCopySpec
  Copy.DeepCopyBasics Copy.DeepCopyInv Copy.DeepCopyBisim.
Import ListNotations.
Open Scope N_scope.
Local Arguments hset : simpl never.
Local Arguments hget : simpl never.

Lemma vrels_in pm mm H l l' x : vrels pm mm H l l' -> In x l -> exists x', In x' l' /\ vrel pm mm H x x'.
Proof.
  induction 1; simpl; [contradiction|]. intros [->|Hin].
  - exists x'. auto.
  - destruct (IHvrels Hin) as [y [Hy Hr]]. exists y. auto.
Qed.

Lemma kvrels_in pm mm H l l' k v : kvrels pm mm H l l' -> In (k, v) l ->
  exists k' v', In (k', v') l' /\ vrel pm mm H k k' /\ vrel pm mm H v v'.
Proof.
  induction 1; simpl; [contradiction|]. intros [E|Hin].
  - inversion E; subst. exists k', v'. auto.
  - destruct (IHkvrels Hin) as (k2 & v2 & Hy & Hr). exists k2, v2. tauto.
Qed.

(* every node reachable on the input side has an R-image reachable on the output side *)
Lemma wreach_image pm mm H : bisim pm mm H ->
  forall v k a, wreach H v k a -> forall v', vrel pm mm H v v' ->
  exists a', related pm mm k a a' /\ wreach H v' k a'.
Proof.
  intros [Bp Bm] v k a Hw.
  induction Hw as [a | a x k b Hg Hw IH | m | m kvs ky vl k b Hg Hin Hw IH | m kvs ky vl k b Hg Hin Hw IH
                  | s es x k b Hg Hin Hw IH | t x k b Hw IH | l x k b Hin Hw IH | l x k b Hin Hw IH];
    intros v' Hr; inversion Hr; subst; clear Hr.
  - eexists. split; [simpl; eassumption|constructor].
  - match goal with Hp : In (a, ?a') pm |- _ => destruct (Bp a a' Hp) as (y & y' & G1 & G2 & Hc) end.
    rewrite G1 in Hg. inversion Hg; subst.
    destruct (IH y' Hc) as (b' & Hb & Hw'). exists b'. split; auto. eapply wr_ptr_in; eauto.
  - eexists. split; [simpl; eassumption|constructor].
  - match goal with Hp : In (m, ?a') mm |- _ => destruct (Bm m a' Hp) as (y & y' & G1 & G2 & Hc) end.
    rewrite G1 in Hg. inversion Hg; subst.
    destruct (kvrels_in _ _ _ _ _ _ _ Hc Hin) as (k' & v' & Hin' & Hk & Hv).
    destruct (IH k' Hk) as (b' & Hb & Hw'). exists b'. split; auto. eapply wr_map_key; eauto.
  - match goal with Hp : In (m, ?a') mm |- _ => destruct (Bm m a' Hp) as (y & y' & G1 & G2 & Hc) end.
    rewrite G1 in Hg. inversion Hg; subst.
    destruct (kvrels_in _ _ _ _ _ _ _ Hc Hin) as (k' & v' & Hin' & Hk & Hv).
    destruct (IH v' Hv) as (b' & Hb & Hw'). exists b'. split; auto. eapply wr_map_val; eauto.
  - match goal with Hes : hget H (s_arr s) = Some (OArr ?es0) |- _ => rewrite Hg in Hes; inversion Hes; subst end.
    match goal with Hvs : vrels pm mm H _ _ |- _ => destruct (vrels_in _ _ _ _ _ _ Hvs Hin) as (x' & Hin' & Hx) end.
    destruct (IH x' Hx) as (b' & Hb & Hw'). exists b'. split; auto. eapply wr_slice; eauto.
  - match goal with Hx : vrel pm mm H x ?x' |- _ => destruct (IH x' Hx) as (b' & Hb & Hw') end.
    exists b'. split; auto. constructor; auto.
  - match goal with Hvs : vrels pm mm H _ _ |- _ => destruct (vrels_in _ _ _ _ _ _ Hvs Hin) as (x' & Hin' & Hx) end.
    destruct (IH x' Hx) as (b' & Hb & Hw'). exists b'. split; auto. eapply wr_struct; eauto.
  - match goal with Hvs : vrels pm mm H _ _ |- _ => destruct (vrels_in _ _ _ _ _ _ Hvs Hin) as (x' & Hin' & Hx) end.
    destruct (IH x' Hx) as (b' & Hb & Hw'). exists b'. split; auto. eapply wr_array; eauto.
Qed.

Lemma wreach_mono H H' : (forall a o, hget H a = Some o -> hget H' a = Some o) ->
  forall v k a, wreach H v k a -> wreach H' v k a.
Proof.
  intros Hm. induction 1.
  - constructor.
  - eapply wr_ptr_in; eauto.
  - constructor.
  - eapply wr_map_key; eauto.
  - eapply wr_map_val; eauto.
  - eapply wr_slice; eauto.
  - constructor; auto.
  - eapply wr_struct; eauto.
  - eapply wr_array; eauto.
Qed.

Lemma nodup_fst_functional (m : amap) : NoDup (map fst m) -> functional m.
Proof.
  intros Hnd a b b' H1 H2. apply In_alookup in H1; auto. apply In_alookup in H2; auto. congruence.
Qed.

Theorem deep_copy_sharing_l : forall h n0 v fuel st' v',
  wf_heap h n0 -> refs_below n0 (refs v) ->
  deep_copy true fuel h n0 v = Done (st', v') ->
  let pm := c_pm st' in let mm := c_mm st' in let H := c_heap st' in
  (* identical references stay identical ... *)
  functional pm /\ functional mm /\
  (* ... and conversely: distinct nodes get distinct copies, pointers and maps alike *)
  injective (pm ++ mm) /\
  (* every pointer / map node reachable from the input has a copy reachable from the output *)
  (forall k a, wreach h v k a -> exists a', related pm mm k a a' /\ wreach H v' k a') /\
  (* cycles stay cycles: a node that reaches itself is copied to a node that reaches itself *)
  (forall a a' x x', In (a, a') pm -> hget H a = Some (OCell x) -> hget H a' = Some (OCell x') ->
     wreach H x RCell a -> wreach H x' RCell a').
Proof.
  intros h n0 v fuel st' v' Hwf Hb Hc. unfold deep_copy in Hc.
  pose proof (inv_init h n0 Hwf) as I0.
  destruct (copy_post h n0 Hwf _ _ _ _ _ I0 Hb Hc) as (I & E & F).
  destruct (deep_copy_bisimilar_l h n0 v fuel st' v' Hwf Hb Hc) as [Hr Hbis].
  assert (Fp : functional (c_pm st')) by (apply nodup_fst_functional, (i_pm_nd _ _ _ I)).
  assert (Fm : functional (c_mm st')) by (apply nodup_fst_functional, (i_mm_nd _ _ _ I)).
  simpl. split; [auto|split; [auto|split; [|split]]].
  - intros a a' b H1 H2. pose proof (i_val_nd _ _ _ I) as Hnd.
    apply in_app_or in H1 as [H1|H1]; apply in_app_or in H2 as [H2|H2].
    + eapply nodup_snd_inj; [eapply nodup_app_l; eauto| |]; eauto.
    + exfalso. eapply (nodup_app_disj _ _ b Hnd); eapply in_snd; eauto.
    + exfalso. eapply (nodup_app_disj _ _ b Hnd); eapply in_snd; eauto.
    + eapply nodup_snd_inj; [eapply nodup_app_r; eauto| |]; eauto.
  - intros k a Hw. eapply wreach_image; eauto.
    eapply wreach_mono; [|exact Hw]. intros b o Hg.
    assert (b < n0) by (apply Hwf in Hg; tauto).
    rewrite (i_frame _ _ _ I) by auto. auto.
  - intros a a' x x' Hin Hg Hg' Hw. destruct Hbis as [Bp Bm].
    destruct (Bp a a' Hin) as (y & y' & G1 & G2 & Hc').
    rewrite Hg in G1. inversion G1; subst y. rewrite Hg' in G2. inversion G2; subst y'.
    destruct (wreach_image _ _ _ (conj Bp Bm) _ _ _ Hw _ Hc') as (a'' & Hrel & Hw').
    simpl in Hrel. rewrite (Fp a a' a'' Hin Hrel). exact Hw'.
Qed.

(* freshness: the range of R, and everything the result refers to, was
   allocated by this call (at or above n0, where the input heap has nothing);
   the input heap is unchanged *)
Theorem deep_copy_fresh_l : forall h n0 v fuel st' v',
  wf_heap h n0 -> refs_below n0 (refs v) ->
  deep_copy true fuel h n0 v = Done (st', v') ->
  (forall a b, In (a, b) (c_pm st' ++ c_mm st') -> n0 <= b < c_next st' /\ hget h b = None) /\
  refs_fresh n0 (c_next st') (refs v') /\
  (forall a o, hget (c_heap st') a = Some o -> n0 <= a -> refs_fresh n0 (c_next st') (obj_refs o)) /\
  (forall a, a < n0 -> hget (c_heap st') a = hget h a).
Proof.
  intros h n0 v fuel st' v' Hwf Hb Hc. unfold deep_copy in Hc.
  pose proof (inv_init h n0 Hwf) as I0.
  destruct (copy_post h n0 Hwf _ _ _ _ _ I0 Hb Hc) as (I & E & F).
  split; [|split; [auto|split]].
  - intros a b Hin.
    assert (Hb' : n0 <= b < c_next st').
    { apply in_app_or in Hin as [Hin|Hin]; [apply (i_pm _ _ _ I) in Hin|apply (i_mm _ _ _ I) in Hin]; tauto. }
    split; auto. destruct (hget h b) eqn:G; auto. apply Hwf in G. lia.
  - apply (i_fresh _ _ _ I).
  - apply (i_frame _ _ _ I).
Qed.

(* each pointer / map node is expanded at most once: one memo entry per node *)
Theorem deep_copy_expands_once_l : forall h n0 v fuel st' v',
  wf_heap h n0 -> refs_below n0 (refs v) ->
  deep_copy true fuel h n0 v = Done (st', v') ->
  NoDup (map fst (c_pm st')) /\ NoDup (map fst (c_mm st')).
Proof.
  intros h n0 v fuel st' v' Hwf Hb Hc. unfold deep_copy in Hc.
  pose proof (inv_init h n0 Hwf) as I0.
  destruct (copy_post h n0 Hwf _ _ _ _ _ I0 Hb Hc) as (I & E & F).
  split; [apply (i_pm_nd _ _ _ I)|apply (i_mm_nd _ _ _ I)].
Qed.
