(* The fixed copier succeeds on every kind-correct heap: it never reports
   IllFormed, and (fx = true) it has no panic or error outcome at all.
   Together with DeepCopyTerm: under the decidable guard and the fuel bound
   the result is Done. *)
From Coq Require Import List NArith ZArith Bool Lia Arith.
From Dials Require Import Base.Outcome Base.Runes Reflect.Ty Reflect.Heap Copy.DeepCopy Copy.DeepCopySpec
  Copy.DeepCopyBasics Copy.DeepCopyInv Copy.DeepCopyTerm.
Import ListNotations.
Open Scope N_scope.
Local Arguments hset : simpl never.
Local Arguments hget : simpl never.

Definition bad {A} (r : res A) : bool :=
  match r with IllFormed | RPanic _ | RErr _ => true | _ => false end.

Lemma rbind_bad {A B} (r : res A) (f : A -> res B) :
  bad (rbind r f) = true -> bad r = true \/ exists a, r = Done a /\ bad (f a) = true.
Proof. destruct r; simpl; intro H; try discriminate; eauto. Qed.

Lemma map_st_bad {S} (g : S -> hv -> res (S * hv)) : forall l st,
  bad (map_st g st l) = true ->
  exists l1 x l2 st1 l1', l = l1 ++ x :: l2 /\ map_st g st l1 = Done (st1, l1') /\ bad (g st1 x) = true.
Proof.
  induction l as [|x r IH]; intros st H; [discriminate|].
  simpl in H. apply rbind_bad in H as [H|[[st1 x'] [H1 H]]].
  - exists [], x, r, st, []. auto.
  - apply rbind_bad in H as [H|[[st2 r'] [H2 H]]]; [|discriminate].
    simpl in H. apply IH in H as (l1 & y & l2 & st3 & l1' & -> & Hm & Hg).
    exists (x :: l1), y, l2, st3, (x' :: l1'). split; [reflexivity|]. split; auto.
    simpl. rewrite H1. simpl. rewrite Hm. reflexivity.
Qed.

Lemma map_kvs_bad {S} (g : S -> hv -> res (S * hv)) : forall l st,
  bad (map_kvs g st l) = true ->
  exists l1 k v l2 st1 l1', l = l1 ++ (k, v) :: l2 /\ map_kvs g st l1 = Done (st1, l1') /\
    (bad (g st1 k) = true \/ exists st2 k', g st1 k = Done (st2, k') /\ bad (g st2 v) = true).
Proof.
  induction l as [|[k v] r IH]; intros st H; [discriminate|].
  simpl in H. apply rbind_bad in H as [H|[[st1 k'] [H1 H]]].
  - exists [], k, v, r, st, []. auto.
  - apply rbind_bad in H as [H|[[st2 v'] [H2 H]]].
    + simpl in H. exists [], k, v, r, st, []. split; [reflexivity|]. split; [reflexivity|]. right. eauto.
    + apply rbind_bad in H as [H|[[st3 r'] [H3 H]]]; [|discriminate].
      simpl in H, H2. apply IH in H as (l1 & k2 & v2 & l2 & st4 & l1' & -> & Hm & Hg).
      exists ((k, v) :: l1), k2, v2, l2, st4, ((k', v') :: l1'). split; [reflexivity|]. split; auto.
      simpl. rewrite H1. simpl. rewrite H2. simpl. rewrite Hm. reflexivity.
Qed.

Inductive bad_step (f : nat) (st : cst) : hv -> Prop :=
| bs_struct : forall l, bad (map_st (copy true f) st l) = true -> bad_step f st (HStruct l)
| bs_array : forall l, bad (map_st (copy true f) st l) = true -> bad_step f st (HArray l)
| bs_ptr_dangling : forall a, (forall x, hget (c_heap st) a <> Some (OCell x)) -> bad_step f st (HPtr (Some a))
| bs_ptr : forall a x, alookup (c_pm st) a = None -> hget (c_heap st) a = Some (OCell x) ->
    bad (copy true f (st_alloc_pm st a) x) = true -> bad_step f st (HPtr (Some a))
| bs_map_dangling : forall m, (forall x, hget (c_heap st) m <> Some (OMap x)) -> bad_step f st (HMap (Some m))
| bs_map : forall m kvs, alookup (c_mm st) m = None -> hget (c_heap st) m = Some (OMap kvs) ->
    bad (map_kvs (copy true f) (st_alloc_mm st m) kvs) = true -> bad_step f st (HMap (Some m))
| bs_slice_dangling : forall s, (forall es, hget (c_heap st) (s_arr s) = Some (OArr es) -> slice_ok s es = false) ->
    bad_step f st (HSlice (Some s))
| bs_slice : forall s es, hget (c_heap st) (s_arr s) = Some (OArr es) ->
    bad (map_st (copy true f) (st_alloc st) (window es (s_off s) (s_cap s))) = true -> bad_step f st (HSlice (Some s))
| bs_iface_shape : forall t x, shape_ok (HIface t x) = false -> bad_step f st (HIface t x)
| bs_iface : forall t x, bad (copy true f st x) = true -> bad_step f st (HIface t x).

Lemma copy_bad_inv f st v : bad (copy true (S f) st v) = true -> bad_step f st v.
Proof.
  intro H. simpl in H.
  destruct v as [x| [a|] | [m|] | [s|] | | t x | x | l | l]; try discriminate.
  - destruct (alookup (c_pm st) a) eqn:Hl; [discriminate|].
    destruct (hget (c_heap st) a) as [[x|?|?]|] eqn:Hg;
      try (apply bs_ptr_dangling; intros y E; congruence).
    apply rbind_bad in H as [H|[[? ?] [? H]]]; [|discriminate]. eapply bs_ptr; eauto.
  - destruct (alookup (c_mm st) m) eqn:Hl; [discriminate|].
    destruct (hget (c_heap st) m) as [[?|kvs|?]|] eqn:Hg;
      try (apply bs_map_dangling; intros y E; congruence).
    apply rbind_bad in H as [H|[[? ?] [? H]]]; [|discriminate]. eapply bs_map; eauto.
  - destruct (hget (c_heap st) (s_arr s)) as [[?|?|es]|] eqn:Hg;
      try (apply bs_slice_dangling; intros y E; congruence).
    destruct (slice_ok s es) eqn:Hok.
    + apply rbind_bad in H as [H|[[? ?] [? H]]]; [|discriminate]. eapply bs_slice; eauto.
    + apply bs_slice_dangling. intros es' E. congruence.
  - destruct x as [y| p | [m|] | s | | t' y | y | l | l]; try discriminate;
      try (apply bs_iface_shape; reflexivity);
      (apply rbind_bad in H as [H|[[? ?] [? H]]]; [|discriminate]; apply bs_iface; auto).
  - apply rbind_bad in H as [H|[[? ?] [? H]]]; [|discriminate]. apply bs_struct; auto.
  - apply rbind_bad in H as [H|[[? ?] [? H]]]; [|discriminate]. apply bs_array; auto.
Qed.

Section Total.
Variables (h0 : heap) (n0 : N).
Hypothesis Hwf : wf_heap h0 n0.
Hypothesis Hk : wf_kinds h0.

Definition vok (v : hv) : Prop :=
  refs_ok h0 (refs v) = true /\ slices_ok h0 (inline_slices v) = true /\ shape_ok v = true.

Definition lok (l : list hv) : Prop := forall x, In x l -> vok x.

Lemma forallb_app {A} (p : A -> bool) a b : forallb p (a ++ b) = forallb p a && forallb p b.
Proof. induction a; simpl; auto. rewrite IHa, andb_assoc. reflexivity. Qed.

Lemma forallb_flat_map {A B} (p : B -> bool) (g : A -> list B) l x :
  forallb p (flat_map g l) = true -> In x l -> forallb p (g x) = true.
Proof.
  induction l as [|y r IH]; simpl; [tauto|]. rewrite forallb_app, andb_true_iff. intros [H1 H2] [->|Hin]; auto.
Qed.

Lemma vok_children l : vok (HStruct l) -> lok l.
Proof.
  intros (A & B & C) x Hx. simpl in *. split; [|split].
  - eapply forallb_flat_map; eauto.
  - eapply forallb_flat_map; eauto.
  - rewrite forallb_forall in C. auto.
Qed.
Lemma vok_children_arr l : vok (HArray l) -> lok l.
Proof.
  intros (A & B & C) x Hx. simpl in *. split; [|split].
  - eapply forallb_flat_map; eauto.
  - eapply forallb_flat_map; eauto.
  - rewrite forallb_forall in C. auto.
Qed.

Lemma obj_ok a o : hget h0 a = Some o ->
  refs_ok h0 (obj_refs o) = true /\ slices_ok h0 (obj_islices o) = true /\ obj_shape_ok o = true.
Proof. apply Hk. Qed.

Lemma ref_target k b rs : refs_ok h0 rs = true -> In (k, b) rs ->
  exists o, hget h0 b = Some o /\ obj_kind o = k.
Proof.
  unfold refs_ok. rewrite forallb_forall. intros H Hin. apply H in Hin. simpl in Hin.
  destruct (hget h0 b) as [o|]; [|discriminate]. exists o. split; auto.
  destruct (obj_kind o), k; simpl in Hin; try discriminate; reflexivity.
Qed.

Lemma kvs_ok kvs k v : refs_ok h0 (refs_kvs kvs) = true ->
  slices_ok h0 (flat_map (fun kv => inline_slices (fst kv) ++ inline_slices (snd kv)) kvs) = true ->
  forallb (fun kv => shape_ok (fst kv) && shape_ok (snd kv)) kvs = true ->
  In (k, v) kvs -> vok k /\ vok v.
Proof.
  intros A B C Hin. unfold refs_kvs in A.
  pose proof (forallb_flat_map _ _ _ _ A Hin) as A'. simpl in A'. rewrite forallb_app in A'. apply andb_true_iff in A' as [A1 A2].
  pose proof (forallb_flat_map _ _ _ _ B Hin) as B'. simpl in B'. unfold slices_ok in B'. rewrite forallb_app in B'. apply andb_true_iff in B' as [B1 B2].
  rewrite forallb_forall in C. apply C in Hin. simpl in Hin. apply andb_true_iff in Hin as [C1 C2].
  split; split; auto.
Qed.

Notation inv := (inv h0 n0).

Section Step.
Variable f : nat.
Hypothesis IH : forall st v, inv st -> refs_below n0 (refs v) -> vok v -> bad (copy true f st v) = false.

Lemma map_st_good l st : inv st -> refs_below n0 (refs_list l) -> lok l -> bad (map_st (copy true f) st l) = false.
Proof.
  intros I Hb Hl. destruct (bad (map_st (copy true f) st l)) eqn:E; auto.
  apply map_st_bad in E as (l1 & x & l2 & st1 & l1' & -> & Hm & Hg).
  unfold refs_list in Hb. rewrite flat_map_app in Hb. apply refs_below_app in Hb as [Hb1 Hb2].
  simpl in Hb2. apply refs_below_app in Hb2 as [Hbx _].
  apply (map_st_copy_post h0 n0 Hwf) in Hm as (I1 & _ & _); auto.
  assert (E : bad (copy true f st1 x) = false) by (apply IH; auto; apply Hl; apply in_or_app; right; left; auto).
  congruence.
Qed.

Lemma map_kvs_good l st : inv st -> refs_below n0 (refs_kvs l) ->
  (forall k v, In (k, v) l -> vok k /\ vok v) -> bad (map_kvs (copy true f) st l) = false.
Proof.
  intros I Hb Hl. destruct (bad (map_kvs (copy true f) st l)) eqn:E; auto.
  apply map_kvs_bad in E as (l1 & k & v & l2 & st1 & l1' & -> & Hm & Hg).
  unfold refs_kvs in Hb. rewrite flat_map_app in Hb. apply refs_below_app in Hb as [Hb1 Hb2].
  simpl in Hb2. apply refs_below_app in Hb2 as [Hbkv _]. apply refs_below_app in Hbkv as [Hbk Hbv].
  apply (map_kvs_copy_post h0 n0 Hwf) in Hm as (I1 & _ & _); auto.
  destruct (Hl k v) as [Vk Vv]; [apply in_or_app; right; left; auto|].
  destruct Hg as [Hg|(st2 & k' & Hk' & Hg)].
  - assert (E : bad (copy true f st1 k) = false) by (apply IH; auto). congruence.
  - apply (copy_post h0 n0 Hwf) in Hk' as (I2 & _ & _); auto.
    assert (E : bad (copy true f st2 v) = false) by (apply IH; auto). congruence.
Qed.

Lemma step_good st v : inv st -> refs_below n0 (refs v) -> vok v -> ~ bad_step f st v.
Proof.
  intros I Hb V Hs. destruct Hs.
  - assert (E : bad (map_st (copy true f) st l) = false) by (apply map_st_good; auto; apply vok_children; auto).
    congruence.
  - assert (E : bad (map_st (copy true f) st l) = false) by (apply map_st_good; auto; apply vok_children_arr; auto).
    congruence.
  - (* dangling pointer *)
    destruct V as (A & _ & _). destruct (ref_target RCell a _ A) as (o & Ho & Hkd); [simpl; auto|].
    assert (Ha : a < n0) by (apply (Hb RCell a); simpl; auto).
    destruct o; try discriminate. apply (H v). rewrite (i_frame _ _ _ I) by auto. exact Ho.
  - assert (Ha : a < n0) by (apply (Hb RCell a); simpl; auto).
    assert (E : bad (copy true f (st_alloc_pm st a) x) = false).
    { apply IH.
      - apply inv_alloc_pm; auto.
      - eapply cell_refs_below; eauto.
      - rewrite (i_frame _ _ _ I) in H0 by auto. apply obj_ok in H0. exact H0. }
    congruence.
  - destruct V as (A & _ & _). destruct (ref_target RMap m _ A) as (o & Ho & Hkd); [simpl; auto|].
    assert (Ha : m < n0) by (apply (Hb RMap m); simpl; auto).
    destruct o; try discriminate. apply (H kvs). rewrite (i_frame _ _ _ I) by auto. exact Ho.
  - assert (Ha : m < n0) by (apply (Hb RMap m); simpl; auto).
    assert (E : bad (map_kvs (copy true f) (st_alloc_mm st m) kvs) = false).
    { apply map_kvs_good.
      - apply inv_alloc_mm; auto.
      - eapply map_refs_below; eauto.
      - rewrite (i_frame _ _ _ I) in H0 by auto. apply obj_ok in H0 as (A & B & C). simpl in *.
        intros k v Hin. eapply kvs_ok; eauto. }
    congruence.
  - (* slice outside its array *)
    destruct V as (_ & B & _). simpl in B. apply andb_true_iff in B as [B _].
    assert (Ha : s_arr s < n0) by (apply (Hb RArr (s_arr s)); simpl; auto).
    destruct (hget h0 (s_arr s)) as [[?|?|es]|] eqn:G; try discriminate.
    rewrite (H es) in B; [discriminate|]. rewrite (i_frame _ _ _ I) by auto. exact G.
  - assert (Ha : s_arr s < n0) by (apply (Hb RArr (s_arr s)); simpl; auto).
    assert (E : bad (map_st (copy true f) (st_alloc st) (window es (s_off s) (s_cap s))) = false).
    { apply map_st_good.
      - apply inv_alloc; auto.
      - apply window_refs_below. eapply arr_refs_below; eauto.
      - rewrite (i_frame _ _ _ I) in H by auto. apply obj_ok in H as (A & B & C). simpl in *.
        intros x Hx. apply window_incl in Hx. split; [|split].
        + eapply forallb_flat_map; eauto.
        + eapply forallb_flat_map; eauto.
        + rewrite forallb_forall in C. auto. }
    congruence.
  - destruct V as (_ & _ & C). congruence.
  - assert (E : bad (copy true f st x) = false).
    { apply IH; auto. destruct V as (A & B & C). split; [|split]; auto.
      simpl in C. destruct x; auto; discriminate. }
    congruence.
Qed.

End Step.

Lemma copy_good : forall f st v, inv st -> refs_below n0 (refs v) -> vok v -> bad (copy true f st v) = false.
Proof.
  induction f; intros st v I Hb V; [reflexivity|].
  destruct (bad (copy true (S f) st v)) eqn:E; auto.
  apply copy_bad_inv in E. exfalso. revert E. apply step_good; auto.
Qed.

End Total.

Lemma wf_kindsb_ok h : wf_kindsb h = true -> wf_kinds h.
Proof.
  intros Hk a o H. apply hget_In in H. unfold wf_kindsb in Hk. rewrite forallb_forall in Hk. apply Hk in H.
  simpl in H. apply andb_true_iff in H as [H H3]. apply andb_true_iff in H as [H1 H2]. auto.
Qed.

(* total correctness of the fixed copier: under the decidable guard and the
   explicit fuel bound the copy returns *)
Theorem deep_copy_succeeds_l : forall h n0 R D rk v fuel,
  c03_guard_total h n0 R D rk v = true -> (copy_fuel n0 R D <= fuel)%nat ->
  exists st' v', deep_copy true fuel h n0 v = Done (st', v').
Proof.
  intros h n0 R D rk v fuel G Hf. unfold c03_guard_total in G.
  apply andb_true_iff in G as [G G3]. apply andb_true_iff in G as [G1 G2].
  pose proof (deep_copy_terminates_l h n0 R D rk v fuel G1 Hf) as Hn.
  unfold c03_guard in G1. apply andb_true_iff in G1 as [G1 Gr]. apply andb_true_iff in G1 as [Gw _].
  apply wf_heapb_ok in Gw. apply wf_rootb_ok in Gr as (Hb & _ & _).
  unfold root_kindsb in G3. apply andb_true_iff in G3 as [G3 C]. apply andb_true_iff in G3 as [A B].
  pose proof (copy_good h n0 Gw (wf_kindsb_ok h G2) fuel (init_cst h n0) v (inv_init h n0 Gw) Hb (conj A (conj B C))) as Hg.
  unfold deep_copy in *. destruct (copy true fuel (init_cst h n0) v) as [[st' v']| | | |]; try discriminate.
  - eauto.
  - congruence.
Qed.
