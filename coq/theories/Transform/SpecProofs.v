(* reverse (translate T) filled = counterpart_spec: the by-name specification
   against the positional model, for the flat chains. *)
From Coq Require Import List NArith ZArith Bool Lia PeanoNat.
From Dials Require Import Base.Outcome Base.Runes Reflect.Ty Text.CaseConv Transform.RType
  Transform.MAlias Transform.MFlatten Transform.MOthers Transform.Manglers Transform.Transformer
  Transform.WellFormed Transform.CounterpartSpec Transform.TransformerProofs Transform.ManglerProofs
  Transform.EmptyProofs Transform.FlattenProofs.
Import ListNotations.
Local Open Scope nat_scope.

(* ---------- finite maps by name ---------- *)
Lemma has_dup_nodup l : has_dup l = false -> NoDup l.
Proof.
  induction l as [|x r IH]; simpl; intros H; [constructor|].
  apply orb_false_iff in H as [H1 H2]. constructor; [| now apply IH].
  intros Hin. assert (existsb (str_eqb x) r = true) as X; [| congruence].
  apply existsb_exists. exists x. split; [exact Hin | apply str_eqb_refl].
Qed.

Lemma assoc_app_l {A} k (l1 l2 : list (str * A)) v : assoc_s k l1 = Some v -> assoc_s k (l1 ++ l2) = Some v.
Proof. induction l1 as [|[k' v'] r IH]; simpl; [discriminate|]. destruct (str_eqb k k'); auto. Qed.

Lemma assoc_app_r {A} k (l1 l2 : list (str * A)) : ~ In k (map fst l1) -> assoc_s k (l1 ++ l2) = assoc_s k l2.
Proof.
  induction l1 as [|[k' v'] r IH]; simpl; intros H; [reflexivity|].
  destruct (str_eqb k k') eqn:E; [apply str_eqb_eq in E; subst; tauto|]. apply IH. tauto.
Qed.

Definition valof (env : named) (nm : str) : val :=
  match assoc_s nm env with Some (_, v) => v | None => VNil end.

(* looking up the names of a segment of a duplicate-free map gives the segment's values *)
Lemma valof_segment env (pre seg post : list (str * tval)) :
  env = pre ++ seg ++ post -> NoDup (map fst env) ->
  map (valof env) (map fst seg) = map (fun kv => snd (snd kv)) seg /\
  Forall (fun k => assoc_s k env <> None) (map fst seg).
Proof.
  revert pre; induction seg as [|[k [t v]] r IH]; intros pre He H; [split; constructor|].
  assert (Hk : ~ In k (map fst pre)).
  { assert (H' : NoDup (map fst pre ++ k :: map fst (r ++ post))).
    { subst env. rewrite map_app in H. exact H. }
    apply NoDup_remove_2 in H'. intros X. apply H'. apply in_or_app. now left. }
  assert (A : assoc_s k env = Some (t, v)).
  { subst env. rewrite assoc_app_r by exact Hk. simpl. now rewrite str_eqb_refl. }
  destruct (IH (pre ++ [(k, (t, v))])) as [I1 I2]; [subst env; now rewrite <- app_assoc | exact H |].
  split.
  - cbn [map fst snd]. f_equal; [unfold valof; now rewrite A | exact I1].
  - cbn [map fst]. constructor; [rewrite A; discriminate | exact I2].
Qed.

(* ---------- the flat specification against build_ty (no alias stage, no string cast) ---------- *)
Definition sh_flat0 : shape := Shape [] (Some 0%N) false false false.

Lemma names_len_aux :
  (forall t, (forall names, length (names_ty names t) = length (leaves_ty t)) /\
             (forall fs nm, t = TStruct fs nm -> forall names, length (names_fields names fs) = length (leaves_fields fs))) /\
  (forall fs names, length (names_fields names fs) = length (leaves_fields fs)).
Proof.
  apply ty_fields_ind; intros; try (split; [reflexivity | intros; discriminate]).
  - destruct H as [_ H]. split; [| intros; discriminate].
    intros names. destruct t; try reflexivity. simpl. now apply (H fs name).
  - split; [reflexivity|]. intros fs' nm' E. inversion E; subst. exact H.
  - reflexivity.
  - simpl. rewrite !app_length. destruct H as [H _]. now rewrite H, H0.
Qed.
Lemma names_len :
  (forall t names, length (names_ty names t) = length (leaves_ty t)) /\
  (forall fs names, length (names_fields names fs) = length (leaves_fields fs)).
Proof. split; [intros t; apply (proj1 names_len_aux t) | apply names_len_aux]. Qed.

Lemma build_nil :
  (forall t, wf_ty t = true -> forall xs, length xs = length (leaves_ty t) ->
     is_vnil (build_ty t xs) = forallb is_vnil xs) /\
  (forall fs, wf_fields fs = true -> forall xs, length xs = length (leaves_fields fs) ->
     forallb is_vnil (build_fields fs xs) = forallb is_vnil xs).
Proof.
  apply ty_fields_ind; try (intros; simpl in *; discriminate).
  - intros e IH W xs L.
    destruct (wf_leaf_or_struct (TPtr e) W) as [(U & Lv & _) | (fs & nm & E & Wf)].
    + rewrite Lv in L. destruct xs as [|x [|? ?]]; try discriminate. rewrite build_leaf by exact U.
      simpl. now rewrite andb_true_r.
    + inversion E; subst. cbn [build_ty]. unfold any_set. destruct (forallb is_vnil xs); reflexivity.
  - intros e IH nm W xs L. simpl in L. destruct xs as [|x [|? ?]]; try discriminate. simpl. now rewrite andb_true_r.
  - intros k IHk v IHv nm W xs L. simpl in L. destruct xs as [|x [|? ?]]; try discriminate. simpl. now rewrite andb_true_r.
  - intros W xs L. simpl in L. destruct xs as [|x [|? ?]]; try discriminate. simpl. now rewrite andb_true_r.
  - intros _ xs L. destruct xs; [reflexivity | discriminate].
  - intros n tg an t IHt r IHr W xs L. simpl in W.
    apply andb_true_iff in W as [W Wr]. apply andb_true_iff in W as [W Wan]. apply andb_true_iff in W as [Wex Wt].
    simpl in L. rewrite app_length in L. cbn [build_fields forallb].
    rewrite IHt by (auto; rewrite firstn_length; lia). rewrite IHr by (auto; rewrite skipn_length; lia).
    rewrite <- forallb_app. now rewrite firstn_skipn.
Qed.

Section FlatSpec.
Variable E : env.
Variable env : named.

Definition bound (nm : str) : Prop := assoc_s nm env <> None.
Definition enc0 := encode_by 0%N.

Lemma nspec_leaf t tr v : wf_ty t = true -> leaf_ok t = true -> nspec_ty sh_flat0 t tr v = Ok v.
Proof.
  intros W L. destruct t as [| |e|e nm| |k v' nm| | | |]; simpl in W, L; try discriminate.
  - destruct e; try discriminate; reflexivity.
  - destruct e; try discriminate; reflexivity.
  - reflexivity.
Qed.

Lemma fspec_leaf_ok names t : wf_ty t = true -> leaf_ok t = true -> bound (enc0 names) ->
  fspec_leaf E sh_flat0 env 0%N names t = Ok (valof env (enc0 names)).
Proof.
  intros W L B. unfold fspec_leaf, valof, bound, enc0 in *.
  destruct (assoc_s (encode_by 0 names) env) as [[tr v]|]; [| congruence].
  unfold fleaf. simpl. now apply nspec_leaf.
Qed.

Definition ty_fs (t : ty) : Prop :=
  forall names, Forall bound (map enc0 (names_ty names t)) ->
    fspec_ty E sh_flat0 env 0%N names t = Ok (build_ty t (map (valof env) (map enc0 (names_ty names t)))).
Definition fields_fs (fs : fields) : Prop :=
  forall names, Forall bound (map enc0 (names_fields names fs)) ->
    fspec_fields E sh_flat0 env 0%N names fs =
    Ok (build_fields fs (map (valof env) (map enc0 (names_fields names fs)))).

Lemma leaf_fs t : wf_ty t = true -> leaf_ok t = true -> under_is_struct t = false -> ty_fs t.
Proof.
  intros W L U names B.
  assert (N : names_ty names t = [names]).
  { destruct t as [| |e| | | | | | |]; try reflexivity. destruct e; try reflexivity. simpl in U. discriminate. }
  rewrite N in *. simpl in B. inversion B; subst.
  assert (F : fspec_ty E sh_flat0 env 0%N names t = fspec_leaf E sh_flat0 env 0%N names t).
  { destruct t as [| |e| | | | | | |]; try reflexivity. destruct e; try reflexivity. simpl in U. discriminate. }
  rewrite F, fspec_leaf_ok by assumption. simpl. now rewrite build_leaf.
Qed.

Lemma fspec_fields_cons names n tg an t r :
  fspec_fields E sh_flat0 env 0%N names (FCons n tg an t r) =
  (x <- (if negb (xexported n) then Ok (zero t)
         else
           p <- fspec_ty E sh_flat0 env 0%N (if an then names else names ++ [n]) t ;;
           if aliased sh_flat0 tg then
             a <- fspec_ty E sh_flat0 env 0%N (names ++ [n ++ alias_field_suffix]) t ;; pick n t p a
           else Ok p) ;;
   rest <- fspec_fields E sh_flat0 env 0%N names r ;;
   Ok (x :: rest)).
Proof. reflexivity. Qed.

Lemma fspec_ty_struct sh names fs nm :
  fspec_ty E sh env 0%N names (TPtr (TStruct fs nm)) =
  (vals <- fspec_fields E sh env 0%N names fs ;;
   if all_vnil vals then Ok VNil else Ok (VPtr (VStruct vals))).
Proof. reflexivity. Qed.

Lemma fspec_build :
  (forall t, (wf_ty t = true -> simple_ty t = true -> ty_fs t) /\
             (forall fs nm, t = TStruct fs nm -> wf_fields fs = true -> simple_fields fs = true -> fields_fs fs)) /\
  (forall fs, wf_fields fs = true -> simple_fields fs = true -> fields_fs fs).
Proof.
  apply ty_fields_ind.
  - intros k nm. split; [intros W; discriminate | intros; discriminate].
  - intros id pr. split; [intros W; discriminate | intros; discriminate].
  - (* TPtr e *)
    intros e [_ IHs]. split; [| intros; discriminate].
    intros W S. destruct (wf_leaf_or_struct (TPtr e) W) as [(U & Lv & Rd) | (fs & nm & Eq & Wf)].
    + apply leaf_fs; auto. destruct e; simpl in U, S |- *; try discriminate; auto.
    + inversion Eq; subst e. clear Eq. simpl in S.
      specialize (IHs fs nm eq_refl Wf S). intros names B. simpl names_ty in *.
      rewrite fspec_ty_struct. rewrite (IHs names B). cbn [obind build_ty].
      set (xs := map (valof env) (map enc0 (names_fields names fs))).
      assert (Lx : length xs = length (leaves_fields fs)).
      { unfold xs. rewrite !map_length. apply names_len. }
      unfold all_vnil. rewrite (proj2 build_nil fs Wf xs Lx). unfold any_set.
      destruct (forallb is_vnil xs); reflexivity.
  - intros e IH nm. split; [| intros; discriminate]. intros W S. apply leaf_fs; auto.
  - intros n e IH. split; [intros W; discriminate | intros; discriminate].
  - intros k IHk v IHv nm. split; [| intros; discriminate]. intros W S. apply leaf_fs; auto.
  - intros fs IH nm. split; [intros W; discriminate|].
    intros fs' nm' Eq W S. inversion Eq; subst. now apply IH.
  - split; [| intros; discriminate]. intros W S. simpl in S. discriminate.
  - split; [intros W; discriminate | intros; discriminate].
  - split; [intros W; discriminate | intros; discriminate].
  - intros _ _ names _. reflexivity.
  - intros n tg an t [IHt _] r IHr W S names B. simpl in W, S.
    apply andb_true_iff in W as [W Wr]. apply andb_true_iff in W as [W Wan]. apply andb_true_iff in W as [Wex Wt].
    apply andb_true_iff in S as [St Sr].
    rewrite fspec_fields_cons. rewrite Wex. cbn [negb].
    simpl names_fields in *. rewrite !map_app in B. apply Forall_app in B as [B1 B2].
    rewrite (IHt Wt St _ B1). cbn [obind].
    assert (aliased sh_flat0 tg = false) as -> by reflexivity.
    rewrite (IHr Wr Sr names B2). cbn [obind].
    cbn [build_fields]. rewrite !map_app.
    set (n1 := names_ty (if an then names else names ++ [n]) t).
    assert (L1 : length (map (valof env) (map enc0 n1)) = length (leaves_ty t)).
    { rewrite !map_length. apply names_len. }
    rewrite <- L1. rewrite firstn_app, firstn_all, Nat.sub_diag. simpl firstn. rewrite app_nil_r.
    rewrite skipn_app, skipn_all, Nat.sub_diag. reflexivity.
Qed.
End FlatSpec.

Lemma app_inj_len {A} (a b c d : list A) : length a = length c -> a ++ b = c ++ d -> a = c /\ b = d.
Proof.
  revert c; induction a as [|x a IH]; intros [|y c] L H; simpl in *; try discriminate; [auto|].
  injection H as -> H. injection L as L. destruct (IH c L H) as [-> ->]. auto.
Qed.

Lemma conv_of_exact (seg : list fvt) (lf : list sfield) :
  Forall (fun f => can_nil (sf_ty f) = true) lf ->
  map (fun fv : fvt => fst (snd fv)) seg = map sf_ty lf ->
  Forall2 conv_ok (map snd seg) (map sf_ty lf).
Proof.
  revert seg; induction lf as [|f r IH]; intros [|[g [t x]] seg] W H; simpl in H; try discriminate; [constructor|].
  apply Forall_cons_iff in W as [Wf Wr]. injection H as -> H. simpl. constructor; [| now apply IH].
  split; [apply convertible_refl | intros _; exact Wf].
Qed.

(* ---------- the flatten stage of the model, by name ---------- *)
Definition top_names (f : sfield) : list (list str) :=
  names_ty (if sf_anon f then [] else [sf_name f]) (sf_ty f).

Definition env_of (lv : list fvt) : named := map (fun fv => (sf_name (fst fv), snd fv)) lv.

Lemma recurse_outs_norec sub m outs : should_recurse m = false ->
  recurse_outs sub m outs = Ok (map (fun o => (o, (o, None))) outs).
Proof.
  intros H. induction outs as [|o r IH]; simpl; [reflexivity|].
  unfold recurse_out. destruct (structish_inner (sf_ty o)); rewrite ?H; simpl; rewrite IH; reflexivity.
Qed.

Lemma rec_unmangle_none subrev m ia (outs : list sfield) (fvs : list fvt) :
  rec_unmangle subrev m ia (map (fun o => (o, None)) outs) fvs = Ok fvs.
Proof.
  revert fvs; induction outs as [|o r IH]; intros fvs; simpl; [reflexivity|].
  destruct fvs as [|fv fr]; [reflexivity|]. simpl. rewrite IH. reflexivity.
Qed.

Section FlattenStage.
Variables (sub : mangler -> ty -> outcome (ty * xstate)) (E : env)
          (subrev : mangler -> xstate -> tval -> outcome tval) (tag : str) (te : N).
Let m := MFlatten tag 0%N te.

Lemma flatten_stage_rev : forall lf lf' st,
  xlate_layer sub m lf = Ok (lf', st) -> Forall (fun f => wf_sf f = true) lf ->
  forall pre (seg : list fvt),
    map fst seg = lf' -> Forall2 conv_ok (map snd seg) (map sf_ty lf') ->
    NoDup (map fst (env_of (pre ++ seg))) ->
    rev_layer E subrev m st (pre ++ seg) (length pre) =
    Ok (map (fun f => (f, (sf_ty f, build_ty (sf_ty f)
                                     (map (valof (env_of (pre ++ seg))) (map enc0 (top_names f)))))) lf).
Proof.
  induction lf as [|f r IH]; intros lf' st H W pre seg Hf Ht Hn; simpl in H.
  - inversion H; subst. reflexivity.
  - apply Forall_cons_iff in W as [Wf Wr]. destruct (wf_sf_parts f Wf) as (Wn & Wt & Wa).
    rewrite Wn in H. simpl in H. dob H outs Hm.
    rewrite recurse_outs_norec in H by reflexivity. simpl in H. dob H b Hb.
    destruct b as [lfr str]. simpl in H. injection H as El Est. subst st.
    rewrite <- El in Hf, Ht. clear El.
    assert (Eo : map fst (map (fun o : sfield => (o, (o, @None xstate))) outs) = outs) by (rewrite map_map; apply map_id).
    rewrite Eo in Hf, Ht. rewrite map_app in Ht.
    (* split the segment *)
    set (k := length outs).
    assert (Ls : length seg = k + length lfr).
    { apply (f_equal (@length sfield)) in Hf. rewrite map_length, app_length in Hf. exact Hf. }
    set (s1 := firstn k seg). set (s2 := skipn k seg).
    assert (Es : seg = s1 ++ s2) by (symmetry; apply firstn_skipn).
    assert (L1 : length s1 = k) by (unfold s1; rewrite firstn_length; lia).
    assert (F1 : map fst s1 = outs).
    { unfold s1. rewrite <- firstn_map. transitivity (firstn k (outs ++ lfr)); [f_equal; exact Hf|].
      unfold k. rewrite firstn_app, firstn_all, Nat.sub_diag. simpl. now rewrite app_nil_r. }
    assert (F2 : map fst s2 = lfr).
    { unfold s2. rewrite <- skipn_map. transitivity (skipn k (outs ++ lfr)); [f_equal; exact Hf|].
      unfold k. rewrite skipn_app, skipn_all, Nat.sub_diag. reflexivity. }
    assert (T12 : Forall2 conv_ok (map snd s1) (map sf_ty outs) /\ Forall2 conv_ok (map snd s2) (map sf_ty lfr)).
    { rewrite Es, map_app in Ht. apply Forall2_app_inv_l in Ht as (l1 & l2 & H1 & H2 & E12).
      assert (Ll : length l1 = length (map sf_ty outs)).
      { apply (Forall2_length _ _ _) in H1. rewrite <- H1, !map_length. exact L1. }
      apply app_inj_len in E12; [| now rewrite Ll]. destruct E12 as [-> ->]. split; assumption. }
    destruct T12 as [T1 T2].
    cbn [rev_layer me_in me_out sfo_name]. rewrite Wn. cbn [negb]. rewrite !map_length. fold k.
    destruct (Nat.ltb _ _) eqn:Lt.
    { apply Nat.ltb_lt in Lt. rewrite app_length in Lt. rewrite ?map_length in Lt. fold k in Lt. lia. }
    assert (Sl : firstn k (skipn (length pre) (pre ++ seg)) = s1).
    { rewrite Es. rewrite <- L1. apply firstn_skipn_mid. }
    rewrite Sl.
    unfold unmangle_field. cbn [me_in me_out]. rewrite map_map. cbn [snd].
    rewrite rec_unmangle_none. cbn [obind]. unfold m. cbn [unmangle].
    set (xs := map (fun fv : fvt => snd (snd fv)) s1).
    assert (Lx : length xs = length outs) by (unfold xs; rewrite map_length; exact L1).
    rewrite (flatten_unmangle_build_conv tag te f outs s1 Wf Hm T1). fold xs. cbn [obind].
    (* by name *)
    assert (Xn : xs = map (valof (env_of (pre ++ seg))) (map enc0 (top_names f))).
    { destruct (flatten_order_l tag 0%N te f outs Wf Hm) as (_ & O1 & O2).
      assert (Nm : map sf_name outs = map enc0 (top_names f)).
      { unfold top_names, enc0. destruct (under_is_struct (sf_ty f)) eqn:U; [now apply O1|].
        rewrite (O2 eq_refl).
        destruct (wf_leaf_or_struct (sf_ty f) Wt) as [(_ & _ & _) | (fs & nm & Eq & _)]; [| rewrite Eq in U; discriminate].
        assert (sf_anon f = false) as ->.
        { destruct (sf_anon f); [| reflexivity]. destruct (sf_ty f) as [| |e| | | | | | |]; try discriminate.
          destruct e; try discriminate. }
        destruct (sf_ty f) as [| |e| | | | | | |]; try reflexivity. destruct e; try reflexivity. simpl in U. discriminate. }
      rewrite <- Nm, <- F1.
      pose proof (valof_segment (env_of (pre ++ seg)) (env_of pre) (env_of s1) (env_of s2)) as VS.
      destruct VS as [V1 _].
      { rewrite Es. unfold env_of. now rewrite !map_app. }
      { exact Hn. }
      unfold env_of in V1 at 2 3. rewrite !map_map in V1. simpl in V1.
      rewrite !map_map. unfold xs. symmetry. exact V1. }
    change (map (fun fv : sfield * (ty * val) => snd (snd fv)) s1) with xs. rewrite Xn.
    specialize (IH lfr str eq_refl Wr (pre ++ s1) s2 F2 T2).
    rewrite <- app_assoc, <- Es in IH. rewrite app_length, L1 in IH.
    fold m. rewrite (IH Hn). reflexivity.
Qed.
End FlattenStage.

(* ---------- assembling, naming, and the theorem for the chain [flatten] ---------- *)
Lemma assemble_ok lf (V : sfield -> val) : Forall (fun f => wf_sf f = true) lf ->
  assemble lf (map (fun f => (f, (sf_ty f, V f))) lf) = Ok (map V lf).
Proof.
  induction 1 as [|f r Wf _ IH]; [reflexivity|].
  destruct (wf_sf_parts f Wf) as (Wn & Wt & _).
  cbn [map]. rewrite assemble_cons. rewrite Wn. cbn [negb fst].
  rewrite convertible_refl. cbn [negb].
  assert (C : convert (sf_ty f, V f) (sf_ty f) = Ok (sf_ty f, V f)).
  { unfold convert. rewrite convertible_refl. simpl. destruct (sf_ty f); simpl in Wt; try discriminate; reflexivity. }
  rewrite C. cbn [obind]. unfold set_into. cbn [fst snd]. rewrite assignable_refl. cbn [obind].
  rewrite IH. reflexivity.
Qed.

Lemma top_names_fields fs :
  concat (map top_names (unpack fs)) = names_fields [] fs.
Proof.
  induction fs as [|n tg an t r IH]; [reflexivity|]. simpl. rewrite IH. reflexivity.
Qed.

Lemma flatten_layer_names sub tag te lf lf' st :
  xlate_layer sub (MFlatten tag 0%N te) lf = Ok (lf', st) -> Forall (fun f => wf_sf f = true) lf ->
  map sf_name lf' = map enc0 (concat (map top_names lf)) /\ map sf_ty lf' = concat (map (fun f => leaves_ty (sf_ty f)) lf).
Proof.
  revert lf' st; induction lf as [|f r IH]; intros lf' st H W; simpl in H.
  - inversion H. split; reflexivity.
  - apply Forall_cons_iff in W as [Wf Wr]. destruct (wf_sf_parts f Wf) as (Wn & Wt & Wa).
    rewrite Wn in H. simpl in H. dob H outs Hm.
    rewrite recurse_outs_norec in H by reflexivity. simpl in H. dob H b Hb.
    destruct b as [lfr str]. simpl in H. injection H as El Est. subst lf'.
    destruct (IH lfr str eq_refl Wr) as [I1 I2].
    rewrite map_map. simpl. rewrite map_id. rewrite !map_app, I1, I2.
    destruct (flatten_order_l tag 0%N te f outs Wf Hm) as (_ & O1 & O2).
    assert (Nm : map sf_name outs = map enc0 (top_names f)).
    { unfold top_names, enc0. destruct (under_is_struct (sf_ty f)) eqn:U; [now apply O1|].
      rewrite (O2 eq_refl).
      destruct (wf_leaf_or_struct (sf_ty f) Wt) as [(_ & _ & _) | (fs & nm & Eq & _)]; [| rewrite Eq in U; discriminate].
      assert (sf_anon f = false) as ->.
      { destruct (sf_anon f); [| reflexivity]. destruct (sf_ty f) as [| |e| | | | | | |]; try discriminate.
        destruct e; try discriminate. }
      destruct (sf_ty f) as [| |e| | | | | | |]; try reflexivity. destruct e; try reflexivity. simpl in U. discriminate. }
    assert (Ty : map sf_ty outs = leaves_ty (sf_ty f)).
    { rewrite flatten_mangle_wf in Hm by exact Wt. dob Hm nt Hnt.
      destruct (under_is_struct (sf_ty f)) eqn:U.
      - eapply (proj1 (fl_types tag te)); [exact Wt | left; reflexivity | exact Hm].
      - inversion Hm; subst. simpl.
        destruct (wf_leaf_or_struct (sf_ty f) Wt) as [(_ & Lv & _) | (fs & nm & Eq & _)]; [now rewrite Lv|].
        rewrite Eq in U. discriminate. }
    rewrite Nm, Ty. split; reflexivity.
Qed.

Lemma firstn_exact {A} (a b : list A) : firstn (length a) (a ++ b) = a.
Proof. rewrite firstn_app, firstn_all, Nat.sub_diag. simpl. apply app_nil_r. Qed.
Lemma skipn_exact {A} (a b : list A) : skipn (length a) (a ++ b) = b.
Proof. rewrite skipn_app, skipn_all, Nat.sub_diag. reflexivity. Qed.

Lemma build_fields_per_field fs (xsf : sfield -> list val) :
  Forall (fun f => length (xsf f) = length (leaves_ty (sf_ty f))) (unpack fs) ->
  build_fields fs (concat (map xsf (unpack fs))) = map (fun f => build_ty (sf_ty f) (xsf f)) (unpack fs).
Proof.
  induction fs as [|n tg an t r IH]; intros H; [reflexivity|]. cbn [unpack] in H.
  apply Forall_cons_iff in H as [H1 Hr]. cbn [sf_ty] in H1.
  cbn [unpack map concat]. set (x1 := xsf (SF n tg an t)) in *.
  cbn [build_fields sf_ty]. rewrite <- H1, firstn_exact, skipn_exact, (IH Hr). reflexivity.
Qed.

Lemma assoc_in {A} k (l : list (str * A)) : In k (map fst l) -> assoc_s k l <> None.
Proof.
  induction l as [|[k' v] r IH]; simpl; [tauto|]. intros [->|H].
  - rewrite str_eqb_refl. discriminate.
  - destruct (str_eqb k k'); [discriminate | auto].
Qed.

Lemma name_fields_env_of lf (filled : list val) : length filled = length lf ->
  name_fields (pack lf) filled = env_of (combine lf (combine (map sf_ty lf) filled)) /\
  map fst (combine lf (combine (map sf_ty lf) filled)) = lf /\
  map (fun fv : fvt => fst (snd fv)) (combine lf (combine (map sf_ty lf) filled)) = map sf_ty lf /\
  map fst (name_fields (pack lf) filled) = map sf_name lf.
Proof.
  unfold name_fields. rewrite unpack_pack.
  revert filled; induction lf as [|f r IH]; intros [|x xs] L; simpl in L; try discriminate; [repeat split; reflexivity|].
  injection L as L. destruct (IH xs L) as (I1 & I2 & I3 & I4). simpl.
  repeat split; f_equal; auto.
Qed.

Lemma leaves_nilable :
  (forall t, (wf_ty t = true -> Forall (fun lt => can_nil lt = true) (leaves_ty t)) /\
             (forall fs nm, t = TStruct fs nm -> wf_fields fs = true -> Forall (fun lt => can_nil lt = true) (leaves_fields fs))) /\
  (forall fs, wf_fields fs = true -> Forall (fun lt => can_nil lt = true) (leaves_fields fs)).
Proof.
  assert (LEAF : forall t, can_nil t = true -> leaves_ty t = [t] -> Forall (fun lt => can_nil lt = true) (leaves_ty t)).
  { intros t C L. rewrite L. constructor; [exact C | constructor]. }
  apply ty_fields_ind.
  - intros k nm. split; [intros W; discriminate | intros; discriminate].
  - intros id pr. split; [intros W; discriminate | intros; discriminate].
  - intros e [_ Hs]. split; [| intros; discriminate]. intros W.
    destruct (wf_leaf_or_struct (TPtr e) W) as [(_ & Lv & _) | (fs & nm & Eq & Wf)].
    + now apply LEAF.
    + inversion Eq; subst. simpl. now apply (Hs fs nm).
  - intros e IH nm. split; [| intros; discriminate]. intros W. now apply LEAF.
  - intros n e IH. split; [intros W; discriminate | intros; discriminate].
  - intros k IHk v IHv nm. split; [| intros; discriminate]. intros W. now apply LEAF.
  - intros fs IH nm. split; [intros W; discriminate|]. intros fs' nm' Eq W. inversion Eq; subst. now apply IH.
  - split; [| intros; discriminate]. intros W. now apply LEAF.
  - split; [intros W; discriminate | intros; discriminate].
  - split; [intros W; discriminate | intros; discriminate].
  - intros _. constructor.
  - intros n tg an t [IHt _] r IHr W. simpl in W.
    apply andb_true_iff in W as [W Wr]. apply andb_true_iff in W as [W _]. apply andb_true_iff in W as [_ Wt].
    simpl. apply Forall_app. split; [now apply IHt | now apply IHr].
Qed.

Lemma flat_layer_nilable sub tag te lf lf' st :
  xlate_layer sub (MFlatten tag 0%N te) lf = Ok (lf', st) -> Forall (fun f => wf_sf f = true) lf ->
  Forall (fun f => can_nil (sf_ty f) = true) lf'.
Proof.
  intros X W. destruct (flatten_layer_names sub tag te lf lf' st X W) as [_ Ty].
  assert (F : Forall (fun lt => can_nil lt = true) (map sf_ty lf')).
  { rewrite Ty. clear - W. induction W as [|f r Wf _ IH]; simpl; [constructor|].
    apply Forall_app. split; [| exact IH]. apply (proj1 (proj1 leaves_nilable (sf_ty f))). apply (wf_sf_parts f Wf). }
  clear - F. induction lf' as [|g r IH]; simpl in F; [constructor|].
  apply Forall_cons_iff in F as [F1 F2]. constructor; auto.
Qed.

Theorem flatten_chain_spec_l : forall fuel E tag te fs nm tt x filled,
  wf_fields fs = true -> simple_fields fs = true ->
  translate fuel [MFlatten tag 0%N te] (TStruct fs nm) = Ok (tt, x) ->
  length filled = length (unpack_ty tt) ->
  Some (reverse fuel E [MFlatten tag 0%N te] x (tt, VStruct filled)) =
  counterpart_spec E [MFlatten tag 0%N te] (TStruct fs nm) tt filled.
Proof.
  intros fuel E tag te fs nm tt x filled W S H L.
  destruct fuel as [|n]; [discriminate|]. cbn [translate unpack_ty] in H.
  rewrite xlate_layers_cons in H.
  destruct (xlate_layer _ (MFlatten tag 0%N te) (unpack fs)) as [[lf' st]| |] eqn:X; simpl in H; try discriminate.
  unfold struct_of in H. destruct (has_dup (map sf_name lf')) eqn:D; [discriminate|].
  simpl in H. destruct (existsb _ lf'); [discriminate|]. simpl in H. injection H as Et Ex. subst tt x.
  pose proof (proj1 (wf_fields_forall fs) W) as Wl.
  cbn [unpack_ty] in L. rewrite unpack_pack in L.
  destruct (name_fields_env_of lf' filled L) as (N1 & N2 & N3 & N4).
  set (seg := combine lf' (combine (map sf_ty lf') filled)) in *.
  destruct (flatten_layer_names _ tag te _ _ _ X Wl) as [Nm Ty].
  assert (Hn : NoDup (map fst (env_of ([] ++ seg)))).
  { simpl. rewrite <- N1, N4. now apply has_dup_nodup. }
  (* the model *)
  cbn [reverse xs_layers xs_ty combine rev_layers]. cbn [obind].
  assert (U : unpack_value (TStruct (pack lf') [], VStruct filled) = seg).
  { unfold unpack_value. rewrite unpack_pack. reflexivity. }
  rewrite U.
  pose proof (flatten_stage_rev _ E (fun m sx sv => reverse n E [m] sx sv) tag te _ _ _ X Wl [] seg N2
                (conv_of_exact seg lf' (flat_layer_nilable _ tag te _ _ _ X Wl) N3) Hn) as R.
  simpl app in R. simpl length in R. rewrite R. cbn [obind].
  rewrite (assemble_ok (unpack fs) (fun f => build_ty (sf_ty f) (map (valof (env_of seg)) (map enc0 (top_names f)))) Wl).
  cbn [obind].
  (* the specification *)
  unfold counterpart_spec. cbn [shape_of shape_body flat_tail sh_flat].
  change (Shape [] (Some 0%N) false false false) with sh_flat0.
  rewrite N1.
  assert (B : Forall (bound (env_of seg)) (map enc0 (names_fields [] fs))).
  { rewrite <- top_names_fields, <- Nm. apply Forall_forall. intros k Hk. apply assoc_in.
    rewrite <- N1, N4. exact Hk. }
  rewrite (proj2 (fspec_build E (env_of seg)) fs W S [] B). cbn [obind].
  do 3 f_equal.
  rewrite <- top_names_fields. rewrite !concat_map, !map_map.
  rewrite (build_fields_per_field fs (fun f => map (valof (env_of seg)) (map enc0 (top_names f)))); [reflexivity|].
  apply Forall_forall. intros f _. rewrite !map_length. unfold top_names. apply names_len.
Qed.
