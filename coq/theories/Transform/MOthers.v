(* Models of the one-to-one manglers: anonymous-flatten, set<->slice,
   single-type substitution, string-cast, text-unmarshaler (transform/*.go),
   tag copy and tag reformat (tagformat/expand_tags.go, reformat_tags.go). *)
From Coq Require Import String.
From Coq Require Import List NArith ZArith Bool.
From Dials Require Import Base.Outcome Base.Runes Reflect.Ty Text.CaseConv Transform.RType
  Transform.MFlatten.
Import ListNotations.
Open Scope N_scope.

Definition first_value (fvs : list fvt) : outcome tval :=
  match fvs with [] => Panic 2 | (_, v) :: _ => Ok v end.

(* ---------- AnonymousFlattenMangler ---------- *)
Fixpoint strip_ptrs (t : ty) : ty := match t with TPtr e => strip_ptrs e | _ => t end.

Definition anon_mangle (sf : sfield) : outcome (list sfield) :=
  if negb (sf_anon sf) then Ok [sf]
  else match strip_ptrs (sf_ty sf) with
       | TStruct fs _ => Ok (filter (fun f => xexported (sf_name f)) (unpack fs))
       | TTextU _ _ => Panic 250     (* fields of an opaque TextUnmarshaler struct are not modelled *)
       | t' => Ok [SF (sf_name sf) (sf_tags sf) (sf_anon sf) t']
       end.

Definition nilable5 (t : ty) : bool :=
  match t with TPtr _ | TSlice _ _ | TMap _ _ _ | TIface | TChan => true | _ => false end.

(* unmangleStruct's loop: the struct's fields against the remaining values *)
Fixpoint anon_fill (fs : fields) (fvs : list fvt) : outcome (list val * bool) :=
  match fs with
  | FNil => Ok ([], true)
  | FCons n _ _ t r =>
      match fvs with
      | [] =>
          (* the values ran out (trailing unexported fields were never hoisted):
             the loop stops, the rest stays zero (fix: commit; formerly an index panic) *)
          b <- anon_fill r [] ;; Ok (zero t :: fst b, snd b)
      | (f, v) :: fr =>
          if str_eqb n (sf_name f) then
            a <- assign_or_convert v t ;;
            match a with
            | None => Err 20        (* neither assignable nor convertible: an error (fix: commit), no longer Set's panic *)
            | Some v =>
                x <- (if xexported n then set_into t v else Panic 3) ;;
                let nil1 := nilable5 (fst v) && is_vnil (snd v) in
                b <- anon_fill r fr ;;
                Ok (x :: fst b, nil1 && snd b)
            end
          else
            b <- anon_fill r fvs ;;
            Ok (zero t :: fst b, snd b)
      end
  end.

Definition anon_unmangle_struct (st : ty) (fvs : list fvt) : outcome (val * bool) :=
  match st with
  | TStruct fs _ =>
      match fvs with
      | [] => Ok (zero st, true)
      | _ => b <- anon_fill fs fvs ;; Ok (VStruct (fst b), snd b)
      end
  | TTextU _ _ => Panic 250
  | _ => Panic 1
  end.

Definition anon_unmangle (sfo : option sfield) (fvs : list fvt) : outcome tval :=
  match sfo with
  | None => first_value fvs       (* zero StructField: not Anonymous *)
  | Some sf =>
      if negb (sf_anon sf) then first_value fvs
      else match sf_ty sf with
           | TPtr e =>
               b <- anon_unmangle_struct e fvs ;;
               if snd b then Ok (zero_tv (sf_ty sf)) else Ok (TPtr e, VPtr (fst b))
           | TStruct _ _ | TTextU _ _ =>
               b <- anon_unmangle_struct (sf_ty sf) fvs ;; Ok (sf_ty sf, fst b)
           | _ => first_value fvs
           end
  end.

(* ---------- SetSliceMangler ---------- *)
Definition is_set_ty (t : ty) : bool :=
  match t with TMap _ e _ => ty_eqb e empty_struct_ty | _ => false end.

Definition setslice_mangle (sf : sfield) : outcome (list sfield) :=
  match sf_ty sf with
  | TMap k e _ =>
      if ty_eqb e empty_struct_ty
      then Ok [SF (sf_name sf) (sf_tags sf) (sf_anon sf) (TSlice k [])] else Ok [sf]
  | _ => Ok [sf]
  end.

Fixpoint set_add (k : val) (kvs : list (val * val)) : list (val * val) :=
  match kvs with
  | [] => [(k, VStruct [])]
  | (k', v) :: r => if val_eqb k k' then kvs else (k', v) :: set_add k r
  end.

Definition setslice_unmangle (sfo : option sfield) (fvs : list fvt) : outcome tval :=
  match sfo with
  | None => Panic 11
  | Some sf =>
      if negb (is_set_ty (sf_ty sf)) then first_value fvs
      else
        s <- first_value fvs ;;
        match sf_ty sf, fst s with
        | TMap k _ _, TSlice e _ =>
            if negb (ty_eqb e k) then Err 31
            else match snd s with
                 | VNil => Ok (zero_tv (sf_ty sf))
                 | VList l => Ok (sf_ty sf, VMap (fold_left (fun acc x => set_add x acc) l []))
                 | _ => Panic 250
                 end
        | _, _ => Err 30
        end
  end.

(* ---------- SingleTypeSubstitutionMangler[from,to] ---------- *)
Section Subst.
Variables (from to : ty).

Fixpoint sub_type (t : ty) : ty * bool :=
  if ty_eqb t from then (to, true) else
  match t with
  | TPtr e => let (e', s) := sub_type e in if s then (TPtr e', true) else (t, false)
  | TMap k v _ =>
      let (k', sk) := sub_type k in
      let (v', sv) := sub_type v in
      if sk || sv then (TMap k' v' [], true) else (t, false)
  | TArray n e => let (e', s) := sub_type e in if s then (TArray n e', true) else (t, false)
  | TSlice e _ => let (e', s) := sub_type e in if s then (TSlice e' [], true) else (t, false)
  | _ => (t, false)
  end.

Definition subst_mangle (sf : sfield) : outcome (list sfield) :=
  let (t', s) := sub_type (sf_ty sf) in
  if s then Ok [SF (sf_name sf) (sf_tags sf) (sf_anon sf) t'] else Ok [sf].

(* subVal: (value, substituted, addressable) *)
Fixpoint sub_val (t : ty) (mv : tval) {struct t} : outcome (tval * bool * bool) :=
  if ty_eqb t from then (c <- convert mv from ;; Ok (c, true, false)) else
  let generic_pre (k : outcome (tval * bool * bool)) : outcome (tval * bool * bool) :=
    if soft_is_nil mv then Ok (zero_tv t, true, false)
    else if negb (snd (sub_type t)) then Ok (mv, false, false)
    else k in
  match t with
  | TPtr e =>
      if ty_eqb e from then
        n <- go_is_nil mv ;;
        if n then Ok (zero_tv t, true, false)
        else match mv with
             | (TPtr me, VPtr x) => c <- convert (me, x) from ;; Ok ((t, VPtr (snd c)), true, false)
             | _ => Panic 250
             end
      else generic_pre
        match mv with
        | (TPtr me, VPtr x) =>
            r <- sub_val e (me, x) ;;
            let '(nv, s, ad) := r in
            if negb s then Ok (mv, false, false)
            else (px <- set_into e nv ;; Ok ((t, VPtr px), true, false))   (* reflect.New(t.Elem()); Set *)
        | _ => Ok (mv, false, false)   (* not the kind Mangle produced: left alone (fix: commit) *)
        end
  | TMap kt vt _ =>
      generic_pre
        match mv with
        | (TMap mk mvt _, VMap kvs) =>
            l <- (fix go (l : list (val * val)) : outcome (list (val * val)) :=
                    match l with
                    | [] => Ok []
                    | (k, v) :: r =>
                        k' <- sub_val kt (mk, k) ;;
                        v' <- sub_val vt (mvt, v) ;;
                        kx <- set_into kt (fst (fst k')) ;;
                        vx <- set_into vt (fst (fst v')) ;;
                        r' <- go r ;;
                        Ok ((kx, vx) :: r')
                    end) kvs ;;
            Ok ((t, VMap l), true, false)
        | _ => Ok (mv, false, false)
        end
  | TArray _ et | TSlice et _ =>
      generic_pre
        match mv with
        | (TArray _ me, VList l) | (TSlice me _, VList l) =>
            l' <- (fix go (l : list val) : outcome (list val) :=
                     match l with
                     | [] => Ok []
                     | x :: r =>
                         x' <- sub_val et (me, x) ;;
                         xx <- set_into et (fst (fst x')) ;;
                         r' <- go r ;;
                         Ok (xx :: r')
                     end) l ;;
            Ok ((t, VList l'), true, match t with TArray _ _ => true | _ => false end)
        | _ => Ok (mv, false, false)
        end
  | _ => generic_pre (Ok (mv, false, false))
  end.

Definition subst_unmangle (sfo : option sfield) (fvs : list fvt) : outcome tval :=
  v <- first_value fvs ;;
  match sfo with
  | None => Panic 11
  | Some sf => r <- sub_val (sf_ty sf) v ;; Ok (fst (fst r))
  end.
End Subst.

(* ---------- StringCastingMangler ---------- *)
Definition strcast_mangle (sf : sfield) : outcome (list sfield) :=
  Ok [SF (sf_name sf) (sf_tags sf) (sf_anon sf) str_ptr_ty].

(* `parse` stands for parse.String (modelled elsewhere; supplied per case by
   the correspondence harness as a table) *)
Definition strcast_unmangle (parse : str -> ty -> outcome tval) (sfo : option sfield) (fvs : list fvt)
  : outcome tval :=
  v <- first_value fvs ;;
  match sfo with
  | None => Panic 11
  | Some sf =>
      if ty_eqb (fst v) str_ptr_ty then
        match snd v with
        | VNil => Ok (zero_tv (sf_ty sf))
        | VPtr (VStr s) =>
            cast_to <- match sf_ty sf with
                       | TSlice _ _ | TMap _ _ _ => Ok (sf_ty sf)
                       | t => type_elem t
                       end ;;
            parse s cast_to
        | _ => Panic 250
        end
      else Panic 8
  end.

(* ---------- TextUnmarshalerMangler (+ helper.OnImplements) ---------- *)
Definition textu_mangle (sf : sfield) : outcome (list sfield) :=
  if either_implements_tu (sf_ty sf)
  then Ok [SF (sf_name sf) (sf_tags sf) (sf_anon sf) str_ptr_ty] else Ok [sf].

(* `unm id text`: the contents after UnmarshalText on a fresh value of the
   TextUnmarshaler type `id`, or Err *)
Definition textu_unmangle (unm : str -> str -> outcome val) (sfo : option sfield) (fvs : list fvt)
  : outcome tval :=
  input <- first_value fvs ;;
  match sfo with
  | None => Panic 11
  | Some sf =>
      let t0 := sf_ty sf in
      let was_ptr := match t0 with TPtr _ => true | _ => false end in
      let t := match t0 with TPtr e => e | _ => t0 end in
      if negb (either_implements_tu t) then Ok input
      else if negb (ty_eqb (fst input) str_ptr_ty) then Panic 8
      else match t with
           | TTextU id false =>
               (* concrete (value receiver) implementation: the new value is a struct of type t *)
               match snd input with
               | VNil => Ok (zero_tv t)
               | VPtr (VStr s) => x <- unm id s ;; Ok (t, x)
               | _ => Panic 250
               end
           | TTextU id true =>
               match snd input with
               | VNil => Ok (zero_tv t0)       (* reflect.Zero of the type asked about *)
               | VPtr (VStr s) =>
                   x <- unm id s ;;
                   if was_ptr then Ok (TPtr t, VPtr x) else Ok (t, x)
               | _ => Panic 250
               end
           | _ =>
               (* t is itself a pointer to a TextUnmarshaler: the new value is a nil pointer *)
               match snd input with
               | VNil => Ok (zero_tv t0)
               | _ => Panic 250
               end
           end
  end.

(* ---------- TagCopyingMangler / TagReformattingMangler ---------- *)
Definition tagcopy_mangle (src new : str) (sf : sfield) : outcome (list sfield) :=
  let sv := tag_get src (sf_tags sf) in
  if negb (nonempty_s sv) then Ok [sf]
  else if nonempty_s (tag_get new (sf_tags sf)) then Ok [sf]
  else Ok [SF (sf_name sf) (sf_tags sf ++ [(new, sv)]) (sf_anon sf) (sf_ty sf)].

Definition reformat_mangle (tag : str) (dec enc : N) (sf : sfield) : outcome (list sfield) :=
  let nv := tag_get tag (sf_tags sf) in
  ws <- (if nonempty_s nv then decode_by dec nv else decode_go_camel (sf_name sf)) ;;
  Ok [SF (sf_name sf) (tag_set tag (encode_by enc ws) (sf_tags sf)) (sf_anon sf) (sf_ty sf)].

(* Unmangle of both tag manglers: a struct value is converted to the field type *)
Definition tag_unmangle (sfo : option sfield) (fvs : list fvt) : outcome tval :=
  v <- first_value fvs ;;
  if kind_struct (fst v) then
    match sfo with None => Panic 11 | Some sf => convert v (sf_ty sf) end
  else Ok v.
