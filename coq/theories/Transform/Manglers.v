(* The nine manglers as data, and the Mangler interface (Mangle / Unmangle /
   ShouldRecurse) dispatched on them. *)
From Coq Require Import List NArith ZArith Bool.
From Dials Require Import Base.Outcome Base.Runes Reflect.Ty Transform.RType
  Transform.MAlias Transform.MFlatten Transform.MOthers.
Import ListNotations.
Open Scope N_scope.

Inductive mangler :=
| MAlias (tags : list str)                     (* transform.NewAliasMangler(tags...) *)
| MFlatten (tag : str) (name_enc tag_enc : N)  (* transform.NewFlattenMangler(tag, nameEnc, tagEnc) *)
| MAnonFlatten                                 (* transform.AnonymousFlattenMangler{} *)
| MSetSlice                                    (* &transform.SetSliceMangler{} *)
| MSubst (from to : ty)                        (* transform.NewSingleTypeSubstitutionMangler[from,to]() *)
| MStrCast                                     (* &transform.StringCastingMangler{} *)
| MTextU                                       (* &transform.TextUnmarshalerMangler{} *)
| MTagCopy (src new : str)                     (* &tagformat.TagCopyingMangler{SrcTag, NewTag} *)
| MReformat (tag : str) (dec enc : N).         (* tagformat.NewTagReformattingMangler(tag, dec, enc) *)

(* what the models need from outside package transform/tagformat/helper *)
Record env := Env {
  e_parse : str -> ty -> outcome tval;     (* parse.String *)
  e_unmarshal : str -> str -> outcome val  (* UnmarshalText of the TextUnmarshaler type `id` *)
}.

Definition mangle (m : mangler) (sf : sfield) : outcome (list sfield) :=
  match m with
  | MAlias tags => alias_mangle tags sf
  | MFlatten tag ne te => flatten_mangle tag ne te sf
  | MAnonFlatten => anon_mangle sf
  | MSetSlice => setslice_mangle sf
  | MSubst from to => subst_mangle from to sf
  | MStrCast => strcast_mangle sf
  | MTextU => textu_mangle sf
  | MTagCopy src new => tagcopy_mangle src new sf
  | MReformat tag d e => reformat_mangle tag d e sf
  end.

Definition unmangle (E : env) (m : mangler) (sfo : option sfield) (fvs : list fvt) : outcome tval :=
  match m with
  | MAlias _ => alias_unmangle sfo fvs
  | MFlatten _ _ _ => flatten_unmangle sfo fvs
  | MAnonFlatten => anon_unmangle sfo fvs
  | MSetSlice => setslice_unmangle sfo fvs
  | MSubst from to => subst_unmangle from to sfo fvs
  | MStrCast => strcast_unmangle (e_parse E) sfo fvs
  | MTextU => textu_unmangle (e_unmarshal E) sfo fvs
  | MTagCopy _ _ | MReformat _ _ _ => tag_unmangle sfo fvs
  end.

Definition should_recurse (m : mangler) : bool :=
  match m with MFlatten _ _ _ => false | _ => true end.
