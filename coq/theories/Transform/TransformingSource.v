(* Model of /repo/sourcewrap/transforming_source.go (the transforming-source
   half of property C20): Value = translate the type, ask the inner source,
   reverse-translate; Watch hands the inner watcher wrapped watch arguments
   whose ReportNewValue / BlockingReportNewValue reverse-translate every
   reported value (after the fix: commit for finding 14; `ts_report_pre_fix`
   keeps the pinned behaviour for documentation).

   A one-source Dials is modelled just far enough to say what "reaches the
   config" means: the monitor re-stacks the defaults with the source's latest
   value (Stack/Overlay.compose), runs Verify() (a parameter) on the result and
   installs it, or emits an error event and keeps the old view; a blocking
   report gets the verdict of its own re-stack back. *)
From Coq Require Import List NArith ZArith Bool.
From Dials Require Import Base.Outcome Base.Runes Reflect.Ty Reflect.Ptrify Stack.Overlay
  Transform.RType Transform.Manglers Transform.Transformer.
Import ListNotations.
Open Scope N_scope.

Section TS.
Variables (fuel : nat) (E : env) (ms : list mangler).

(* transformingSourceNoWatch.Value *)
Definition ts_value (t : ty) (inner : ty -> outcome tval) : outcome tval :=
  r <- translate fuel ms t ;;
  v <- inner (fst r) ;;
  reverse fuel E ms (snd r) v.

(* transformingSourceWithWatch.Watch: the inner watcher is started on the
   translated type; the transformer is kept for the reports *)
Definition ts_watch (t : ty) (inner_watch : ty -> outcome unit) : outcome xstate :=
  r <- translate fuel ms t ;;
  _ <- inner_watch (fst r) ;;
  Ok (snd r).

(* what the wrapped watch arguments pass on to Dials for one reported value *)
Inductive report :=
| RValue (v : tval)      (* WatchArgs.ReportNewValue / BlockingReportNewValue *)
| RError (c : N).        (* WatchArgs.ReportError *)

Definition ts_report (x : xstate) (v : tval) : outcome report :=
  match reverse fuel E ms x v with
  | Ok u => Ok (RValue u)
  | Err c => Ok (RError c)
  | Panic p => Panic p
  end.

(* the pinned tree: wrappedWatchArgs did not override the report methods *)
Definition ts_report_pre_fix (x : xstate) (v : tval) : outcome report := Ok (RValue v).
End TS.

(* ---- a Dials with one watching source ---- *)
Record dstate := DS { d_view : list val; d_errors : N }.

(* updateSourceValue for one valueUpdate: re-stack the defaults with the new
   value, run Verify() on the result, install it or emit an error event; the
   boolean is what is sent on the update's `installed` channel (true = an
   error: stacking or verification failed, nothing was installed) *)
Definition restack (fs : fields) (defaults : list val) (verify : list val -> bool) (s : dstate) (v : val)
  : outcome (dstate * bool) :=
  match compose fs defaults [v] with
  | Ok view =>
      if verify view then Ok (DS view (d_errors s), false)
      else Ok (DS (d_view s) (d_errors s + 1), true)
  | Err _ => Ok (DS (d_view s) (d_errors s + 1), true)
  | Panic p => Panic p
  end.

(* monitor: valueUpdate -> updateSourceValue; watchErrorReport -> error event *)
Definition dials_step (fs : fields) (defaults : list val) (verify : list val -> bool) (s : dstate) (r : report)
  : outcome dstate :=
  match r with
  | RError _ => Ok (DS (d_view s) (d_errors s + 1))
  | RValue (_, v) => omap fst (restack fs defaults verify s v)
  end.

Fixpoint dials_run (fs : fields) (defaults : list val) (verify : list val -> bool) (s : dstate) (rs : list report)
  : outcome dstate :=
  match rs with
  | [] => Ok s
  | r :: rest => s' <- dials_step fs defaults verify s r ;; dials_run fs defaults verify s' rest
  end.

(* what the reporting watcher gets back.  Native WatchArgs: ReportNewValue
   returns nil once the update is queued; BlockingReportNewValue waits for the
   re-stack of this very update and returns its verdict. *)
Definition native_report_ret (blocking : bool) (fs : fields) (defaults : list val) (verify : list val -> bool)
  (s : dstate) (u : tval) : outcome (dstate * bool) :=
  a <- restack fs defaults verify s (snd u) ;; Ok (fst a, blocking && snd a).

(* wrapped watch arguments (transforming_source.go): an un-reversible value is
   reported as an error AND returned as an error by both variants; otherwise
   the variant of the embedded WatchArgs with the same name is called *)
Definition ts_report_ret (fuel : nat) (E : env) (ms : list mangler) (x : xstate) (blocking : bool)
  (fs : fields) (defaults : list val) (verify : list val -> bool) (s : dstate) (v : tval)
  : outcome (dstate * bool) :=
  match reverse fuel E ms x v with
  | Ok u => native_report_ret blocking fs defaults verify s u
  | Err _ => Ok (DS (d_view s) (d_errors s + 1), true)
  | Panic p => Panic p
  end.

(* the reports a wrapped watcher produces for the inner source's updates *)
Fixpoint wrapped_reports (fuel : nat) (E : env) (ms : list mangler) (x : xstate) (vs : list tval)
  : outcome (list report) :=
  match vs with
  | [] => Ok []
  | v :: rest =>
      r <- ts_report fuel E ms x v ;;
      rs <- wrapped_reports fuel E ms x rest ;;
      Ok (r :: rs)
  end.

(* the reports of a native source that produces the already-unmangled values
   (and reports an error where there is none to produce) *)
Fixpoint native_reports (us : list (outcome tval)) : outcome (list report) :=
  match us with
  | [] => Ok []
  | Ok u :: rest => rs <- native_reports rest ;; Ok (RValue u :: rs)
  | Err c :: rest => rs <- native_reports rest ;; Ok (RError c :: rs)
  | Panic p :: _ => Panic p
  end.

(* Config: first stack, then the initial Verify() *)
Definition dials_config (fs : fields) (defaults : list val) (verify : list val -> bool) (first : outcome tval)
  : outcome dstate :=
  v <- first ;;
  view <- compose fs defaults [snd v] ;;
  if verify view then Ok (DS view 0) else Err 3.
