(* The env chain end to end: [alias; flatten; (reformat | tagcopy)*; strcast]
   against the by-name specification, for texts that parse at their leaf's type. *)
From Coq Require Import List NArith ZArith Bool Lia PeanoNat.
From Dials Require Import Base.Outcome Base.Runes Reflect.Ty Text.CaseConv Transform.RType
  Transform.MAlias Transform.MFlatten Transform.MOthers Transform.Manglers Transform.Transformer
  Transform.WellFormed Transform.CounterpartSpec Transform.TransformerProofs Transform.AliasProofs
  Transform.ManglerProofs Transform.EmptyProofs Transform.FlattenProofs Transform.SpecProofs
  Transform.ValEq Transform.AliasSpecProofs.
Import ListNotations.
Local Open Scope nat_scope.

(* a flat layer: what flatten produces from a well-formed, simple type *)
Definition flat_f (f : sfield) : Prop :=
  xexported (sf_name f) = true /\ wf_ty (sf_ty f) = true /\ leaf_ok (sf_ty f) = true.

Definition cast_target (lt : ty) : outcome ty :=
  match lt with TSlice _ _ | TMap _ _ _ => Ok lt | t => type_elem t end.

(* the text x parses, at the type string-cast asks for, to a value convertible to the leaf's type *)
Definition text_ok (E : env) (x : val) (lt : ty) : Prop :=
  x = VNil \/
  exists s ct r, x = VPtr (VStr s) /\ cast_target lt = Ok ct /\ e_parse E s ct = Ok r /\
                 conv_ok r lt /\ kind_struct (fst r) = false.

(* what the string-cast stage makes of it *)
Definition ptv (E : env) (lt : ty) (x : val) : tval :=
  match x with
  | VPtr (VStr s) =>
      match cast_target lt with
      | Ok ct => match e_parse E s ct with Ok r => r | _ => (lt, VNil) end
      | _ => (lt, VNil)
      end
  | _ => (lt, VNil)
  end.

Section Stages.
Variables (sub : mangler -> ty -> outcome (ty * xstate)) (E : env)
          (subrev : mangler -> xstate -> tval -> outcome tval).

Lemma flat_recurse m o : wf_ty (sf_ty o) = true -> leaf_ok (sf_ty o) = true ->
  recurse_outs sub m [o] = Ok [(o, (o, None))].
Proof. intros W L. simpl. rewrite (recurse_out_leaf sub m o W L). reflexivity. Qed.

Lemma tag_mangle_one m f outs : is_tagstage m = true -> mangle m f = Ok outs ->
  exists o, outs = [o] /\ sf_name o = sf_name f /\ sf_ty o = sf_ty f.
Proof.
  destruct m; simpl; try discriminate; intros _ H.
  all: try (unfold tagcopy_mangle in H;
            repeat match type of H with context [if ?c then _ else _] => destruct c end;
            inversion H; eauto; fail).
  all: unfold reformat_mangle in H; dob H ws Hws; inversion H; eauto.
Qed.

(* a tag stage over a flat layer: names and types kept, values passed through *)
Lemma tag_stage_rev m : is_tagstage m = true -> forall lf lf' st,
  xlate_layer sub m lf = Ok (lf', st) -> Forall flat_f lf ->
  map sf_name lf' = map sf_name lf /\ map sf_ty lf' = map sf_ty lf /\ Forall flat_f lf' /\
  forall pre (seg : list fvt), map fst seg = lf' ->
    Forall (fun fv : fvt => kind_struct (fst (snd fv)) = false) seg ->
    rev_layer E subrev m st (pre ++ seg) (length pre) = Ok (combine lf (map snd seg)).
Proof.
  intros Tm. induction lf as [|f r IH]; intros lf' st H W; simpl in H.
  - inversion H; subst. repeat split; auto.
  - apply Forall_cons_iff in W as [[Wn [Wt Wl]] Wr]. rewrite Wn in H. simpl in H.
    destruct (mangle m f) as [outs| |] eqn:Hm; simpl in H; try discriminate.
    destruct (tag_mangle_one m f outs Tm Hm) as (o & -> & On & Ot).
    rewrite flat_recurse in H by (rewrite Ot; assumption). simpl in H.
    destruct (xlate_layer sub m r) as [[lfr str]| |] eqn:Hx; simpl in H; try discriminate.
    injection H as El Est. subst lf' st.
    destruct (IH lfr str eq_refl Wr) as (I1 & I2 & I3 & I4).
    split; [simpl; now rewrite On, I1|]. split; [simpl; now rewrite Ot, I2|].
    split; [constructor; [repeat split; [now rewrite On | now rewrite Ot | now rewrite Ot] | exact I3]|].
    intros pre seg Hs Hk. destruct seg as [|[g tv] seg']; [discriminate|]. simpl in Hs. injection Hs as Hg Hs.
    apply Forall_cons_iff in Hk as [Hk1 Hk]. simpl in Hk1.
    change (pre ++ (g, tv) :: seg') with (pre ++ [(g, tv)] ++ seg').
    rewrite rev_layer_step by (simpl; auto).
    unfold unmangle_field. cbn [me_in me_out rec_unmangle rec_unmangle_one snd]. cbn [obind].
    match goal with |- context [unmangle E m (Some f) ?l] => assert (U : unmangle E m (Some f) l = Ok tv) end.
    { destruct m; try discriminate; simpl; unfold tag_unmangle; simpl; rewrite Hk1; reflexivity. }
    rewrite U. cbn [obind]. rewrite (I4 (pre ++ [(g, tv)]) seg' Hs Hk). reflexivity.
Qed.

(* the string-cast stage over a flat layer *)
Lemma strcast_stage_rev : forall lf lf' st,
  xlate_layer sub MStrCast lf = Ok (lf', st) -> Forall flat_f lf ->
  map sf_name lf' = map sf_name lf /\ map sf_ty lf' = map (fun _ => str_ptr_ty) lf /\
  forall pre xs, Forall2 (text_ok E) xs (map sf_ty lf) ->
    rev_layer E subrev MStrCast st (pre ++ combine lf' (map (fun x => (str_ptr_ty, x)) xs)) (length pre) =
    Ok (combine lf (map (fun fx => ptv E (sf_ty (fst fx)) (snd fx)) (combine lf xs))).
Proof.
  induction lf as [|f r IH]; intros lf' st H W; simpl in H.
  - inversion H; subst. repeat split; auto.
  - apply Forall_cons_iff in W as [[Wn [Wt Wl]] Wr]. rewrite Wn in H. cbn [negb mangle strcast_mangle obind] in H.
    destruct (xlate_layer sub MStrCast r) as [[lfr str]| |] eqn:Hx; simpl in H; try discriminate.
    injection H as El Est. subst lf' st.
    destruct (IH lfr str eq_refl Wr) as (I1 & I2 & I3).
    split; [simpl; now rewrite I1|]. split; [simpl; now rewrite I2|].
    intros pre xs F. simpl in F. inversion F as [|x lt xs' lts' Tx Fr]; subst. cbn [map combine].
    match goal with |- context [pre ++ ?h :: ?t] => change (pre ++ h :: t) with (pre ++ [h] ++ t) end.
    rewrite rev_layer_step by (simpl; auto).
    unfold unmangle_field. cbn [me_in me_out rec_unmangle rec_unmangle_one snd]. cbn [obind].
    match goal with |- context [unmangle E MStrCast (Some f) ?l] =>
      assert (U : unmangle E MStrCast (Some f) l = Ok (ptv E (sf_ty f) x)) end.
    { simpl. unfold strcast_unmangle. simpl. destruct Tx as [-> | (s & ct & rr & -> & Ct & Pr & _ & _)].
      - unfold ptv, zero_tv. now rewrite (proj1 (proj2 (wf_ty_nilable _ Wt))).
      - unfold ptv, cast_target in *.
        destruct (sf_ty f); simpl in Ct |- *; try discriminate; inversion Ct; subst; rewrite Pr; reflexivity. }
    rewrite U. cbn [obind]. rewrite (I3 _ xs' Fr). reflexivity.
Qed.

Lemma map_snd_combine {A B} (l1 : list A) (l2 : list B) : length l2 = length l1 -> map snd (combine l1 l2) = l2.
Proof. revert l2; induction l1 as [|a r IH]; intros [|b l2] L; simpl in *; try discriminate; [reflexivity|]. f_equal. apply IH. lia. Qed.
Lemma map_fst_combine {A B} (l1 : list A) (l2 : list B) : length l2 = length l1 -> map fst (combine l1 l2) = l1.
Proof. revert l2; induction l1 as [|a r IH]; intros [|b l2] L; simpl in *; try discriminate; [reflexivity|]. f_equal. apply IH. lia. Qed.
Lemma Forall_combine_snd {A B} (P : B -> Prop) (l1 : list A) (l2 : list B) : length l2 = length l1 ->
  Forall P l2 -> Forall (fun ab => P (snd ab)) (combine l1 l2).
Proof.
  revert l2; induction l1 as [|a r IH]; intros [|b l2] L H; simpl in *; try discriminate; [constructor|].
  apply Forall_cons_iff in H as [H1 H2]. constructor; [exact H1 | apply IH; [lia | exact H2]].
Qed.

Lemma map_const_len {A B C} (l : list A) (l' : list B) (c : C) :
  length l = length l' -> map (fun _ => c) l = map (fun _ => c) l'.
Proof. revert l'; induction l as [|a r IH]; intros [|b r'] H; simpl in *; try discriminate; [reflexivity|]. f_equal. apply IH. lia. Qed.

Definition PT (tys : list ty) (xs : list val) : list tval :=
  map (fun tx => ptv E (fst tx) (snd tx)) (combine tys xs).

Lemma PT_fields lf xs :
  map (fun fx : sfield * val => ptv E (sf_ty (fst fx)) (snd fx)) (combine lf xs) = PT (map sf_ty lf) xs.
Proof.
  unfold PT. revert xs; induction lf as [|f r IH]; intros [|x xs]; simpl; try reflexivity. now rewrite IH.
Qed.

Lemma PT_kind tys xs : Forall2 (text_ok E) xs tys -> Forall (fun lt => kind_struct lt = false) tys ->
  Forall (fun tv : tval => kind_struct (fst tv) = false) (PT tys xs).
Proof.
  unfold PT. induction 1 as [|x lt xs' tys' Tx _ IH]; intros K; simpl; [constructor|].
  apply Forall_cons_iff in K as [K1 K2]. constructor; [| now apply IH].
  simpl. destruct Tx as [-> | (s & ct & rr & -> & Ct & Pr & _ & Kr)]; simpl; [exact K1|].
  rewrite Ct, Pr. exact Kr.
Qed.

Lemma PT_length tys xs : length xs = length tys -> length (PT tys xs) = length tys.
Proof. intros L. unfold PT. rewrite map_length, combine_length. lia. Qed.

Lemma flat_kind lf : Forall flat_f lf -> Forall (fun lt => kind_struct lt = false) (map sf_ty lf).
Proof.
  induction 1 as [|f r [_ [Wt _]] _ IH]; simpl; constructor; auto. apply (wf_ty_nilable _ Wt).
Qed.

Lemma tail_rev : forall tg, Forall (fun m => is_tagstage m = true) tg ->
  forall lf lfk sts, xlate_layers sub (tg ++ [MStrCast]) lf = Ok (lfk, sts) -> Forall flat_f lf ->
  map sf_name lfk = map sf_name lf /\ length lfk = length lf /\
  map sf_ty lfk = map (fun _ => str_ptr_ty) lfk /\
  forall xs, Forall2 (text_ok E) xs (map sf_ty lf) ->
    rev_layers E subrev (combine (tg ++ [MStrCast]) sts) (combine lfk (map (fun x => (str_ptr_ty, x)) xs)) =
    Ok (combine lf (PT (map sf_ty lf) xs)).
Proof.
  induction 1 as [|m tg Tm _ IH]; intros lf lfk sts H W.
  - simpl app in *. rewrite xlate_layers_cons in H.
    destruct (xlate_layer sub MStrCast lf) as [[lf' st]| |] eqn:X; simpl in H; try discriminate.
    inversion H; subst. destruct (strcast_stage_rev lf lfk st X W) as (S1 & S2 & S3).
    split; [exact S1|]. split; [apply (f_equal (@length str)) in S1; now rewrite !map_length in S1|].
    split; [rewrite S2; apply map_const_len; apply (f_equal (@length str)) in S1; rewrite !map_length in S1; now symmetry|].
    intros xs F. cbn [combine rev_layers obind]. pose proof (S3 [] xs F) as R. simpl app in R. simpl length in R.
    rewrite R, PT_fields. reflexivity.
  - simpl app in *. rewrite xlate_layers_cons in H.
    destruct (xlate_layer sub m lf) as [[lf' st]| |] eqn:X; cbn [obind fst snd] in H; try discriminate.
    destruct (xlate_layers sub (tg ++ [MStrCast]) lf') as [[lfk' sts']| |] eqn:Xs; cbn [obind fst snd] in H; try discriminate.
    inversion H; subst. clear H.
    destruct (tag_stage_rev m Tm lf lf' st X W) as (T1 & T2 & T3 & T4).
    destruct (IH lf' lfk sts' Xs T3) as (I1 & I2 & I2' & I3).
    split; [now rewrite I1|]. split; [rewrite I2; apply (f_equal (@length str)) in T1; now rewrite !map_length in T1|].
    split; [exact I2'|].
    intros xs F. cbn [combine rev_layers]. rewrite <- T2 in F. rewrite (I3 xs F). cbn [obind].
    assert (Lx : length xs = length (map sf_ty lf')) by (apply (Forall2_length _ _ _ F)).
    assert (Lp : length (PT (map sf_ty lf') xs) = length lf').
    { rewrite PT_length by exact Lx. now rewrite map_length. }
    pose proof (T4 [] (combine lf' (PT (map sf_ty lf') xs))) as R. simpl app in R. simpl length in R.
    rewrite R.
    + rewrite map_snd_combine by exact Lp. now rewrite T2.
    + now apply map_fst_combine.
    + apply (Forall_combine_snd (fun tv : tval => kind_struct (fst tv) = false)); [exact Lp|].
      exact (PT_kind (map sf_ty lf') xs F (flat_kind lf' T3)).
Qed.
End Stages.

(* ---------- the specification only reads the leaves it names ---------- *)
Section SpecExt.
Variables (E : env) (tags : list str) (sh1 sh2 : shape) (env1 env2 : named).
Hypothesis A1 : sh_alias sh1 = tags.
Hypothesis A2 : sh_alias sh2 = tags.

Fixpoint anamed_ty (names : list str) (t : ty) : list (list str * ty) :=
  match t with
  | TPtr (TStruct fs _) => anamed_fields names fs
  | _ => [(names, t)]
  end
with anamed_fields (names : list str) (fs : fields) : list (list str * ty) :=
  match fs with
  | FNil => []
  | FCons n tg an t r =>
      anamed_ty (if an then names else names ++ [n]) t ++
      (if has_alias tags tg then anamed_ty (names ++ [n ++ alias_field_suffix]) t else []) ++
      anamed_fields names r
  end.

Definition agree_on (l : list (list str * ty)) : Prop :=
  forall ns lt, In (ns, lt) l ->
    fspec_leaf E sh1 env1 0%N ns lt = fspec_leaf E sh2 env2 0%N ns lt.

Lemma aliased_eq tg : aliased sh1 tg = has_alias tags tg /\ aliased sh2 tg = has_alias tags tg.
Proof. unfold aliased, has_alias. now rewrite A1, A2. Qed.

Lemma fspec_ext :
  (forall t, (wf_ty t = true -> forall names, agree_on (anamed_ty names t) ->
                fspec_ty E sh1 env1 0%N names t = fspec_ty E sh2 env2 0%N names t) /\
             (forall fs nm, t = TStruct fs nm -> wf_fields fs = true -> forall names, agree_on (anamed_fields names fs) ->
                fspec_fields E sh1 env1 0%N names fs = fspec_fields E sh2 env2 0%N names fs)) /\
  (forall fs, wf_fields fs = true -> forall names, agree_on (anamed_fields names fs) ->
     fspec_fields E sh1 env1 0%N names fs = fspec_fields E sh2 env2 0%N names fs).
Proof.
  assert (LEAF : forall t, wf_ty t = true -> under_is_struct t = false -> forall names,
             agree_on (anamed_ty names t) ->
             fspec_ty E sh1 env1 0%N names t = fspec_ty E sh2 env2 0%N names t).
  { intros t W U names Ag.
    assert (F : forall sh env, fspec_ty E sh env 0%N names t = fspec_leaf E sh env 0%N names t).
    { intros. destruct t as [| |e| | | | | | |]; try reflexivity. destruct e; try reflexivity. simpl in U. discriminate. }
    rewrite !F. apply Ag.
    destruct t as [| |e| | | | | | |]; try (left; reflexivity). destruct e; try (left; reflexivity). simpl in U. discriminate. }
  apply ty_fields_ind.
  - intros k nm. split; [intros W; discriminate | intros; discriminate].
  - intros id pr. split; [intros W; discriminate | intros; discriminate].
  - intros e [_ IHs]. split; [| intros; discriminate]. intros W names Ag.
    destruct (wf_leaf_or_struct (TPtr e) W) as [(U & _ & _) | (fs & nm & Eq & Wf)].
    + now apply LEAF.
    + inversion Eq; subst e. rewrite !fspec_ty_struct. rewrite (IHs fs nm eq_refl Wf names Ag). reflexivity.
  - intros e IH nm. split; [| intros; discriminate]. intros W names Ag. now apply LEAF.
  - intros n e IH. split; [intros W; discriminate | intros; discriminate].
  - intros k IHk v IHv nm. split; [| intros; discriminate]. intros W names Ag. now apply LEAF.
  - intros fs IH nm. split; [intros W; discriminate|]. intros fs' nm' Eq W. inversion Eq; subst. now apply IH.
  - split; [| intros; discriminate]. intros W names Ag. now apply LEAF.
  - split; [intros W; discriminate | intros; discriminate].
  - split; [intros W; discriminate | intros; discriminate].
  - intros _ names _. reflexivity.
  - intros n tg an t [IHt _] r IHr W names Ag. simpl in W.
    apply andb_true_iff in W as [W Wr]. apply andb_true_iff in W as [W _]. apply andb_true_iff in W as [Wex Wt].
    change (fspec_fields E sh1 env1 0%N names (FCons n tg an t r)) with
      (x <- (if negb (xexported n) then Ok (zero t)
             else p <- fspec_ty E sh1 env1 0%N (if an then names else names ++ [n]) t ;;
                  if aliased sh1 tg then a <- fspec_ty E sh1 env1 0%N (names ++ [n ++ alias_field_suffix]) t ;; pick n t p a
                  else Ok p) ;;
       rest <- fspec_fields E sh1 env1 0%N names r ;; Ok (x :: rest)).
    change (fspec_fields E sh2 env2 0%N names (FCons n tg an t r)) with
      (x <- (if negb (xexported n) then Ok (zero t)
             else p <- fspec_ty E sh2 env2 0%N (if an then names else names ++ [n]) t ;;
                  if aliased sh2 tg then a <- fspec_ty E sh2 env2 0%N (names ++ [n ++ alias_field_suffix]) t ;; pick n t p a
                  else Ok p) ;;
       rest <- fspec_fields E sh2 env2 0%N names r ;; Ok (x :: rest)).
    destruct (aliased_eq tg) as [-> ->].
    assert (Ag1 : agree_on (anamed_ty (if an then names else names ++ [n]) t)).
    { intros ns lt Hin. apply Ag. simpl. apply in_or_app. now left. }
    assert (Ag3 : agree_on (anamed_fields names r)).
    { intros ns lt Hin. apply Ag. simpl. apply in_or_app. right. apply in_or_app. now right. }
    rewrite (IHt Wt _ Ag1), (IHr Wr names Ag3).
    destruct (has_alias tags tg) eqn:Al; [| reflexivity].
    assert (Ag2 : agree_on (anamed_ty (names ++ [n ++ alias_field_suffix]) t)).
    { intros ns lt Hin. apply Ag. simpl. rewrite Al. apply in_or_app. right. apply in_or_app. now left. }
    rewrite (IHt Wt _ Ag2). reflexivity.
Qed.

Lemma anamed_fields_cons names n tg an t r :
  anamed_fields names (FCons n tg an t r) =
  anamed_ty (if an then names else names ++ [n]) t ++
  (if has_alias tags tg then anamed_ty (names ++ [n ++ alias_field_suffix]) t else []) ++
  anamed_fields names r.
Proof. reflexivity. Qed.
Lemma aleaves_fields_cons n tg an t r :
  aleaves_fields tags (FCons n tg an t r) =
  aleaves_ty tags t ++ (if has_alias tags tg then aleaves_ty tags t else []) ++ aleaves_fields tags r.
Proof. reflexivity. Qed.

Definition split_fields (fs : fields) : Prop :=
  forall names, anamed_fields names fs = combine (anames_fields tags names fs) (aleaves_fields tags fs) /\
                length (anames_fields tags names fs) = length (aleaves_fields tags fs).

Lemma anamed_split_aux :
  (forall t, (forall names, anamed_ty names t = combine (anames_ty tags names t) (aleaves_ty tags t) /\
                            length (anames_ty tags names t) = length (aleaves_ty tags t)) /\
             (forall fs nm, t = TStruct fs nm -> split_fields fs)) /\
  (forall fs, split_fields fs).
Proof.
  apply ty_fields_ind; intros; try (split; [intros; split; reflexivity | intros; discriminate]).
  - destruct H as [_ Hs]. split; [| intros; discriminate]. intros names.
    destruct t; try (split; reflexivity). simpl. apply (Hs fs name eq_refl).
  - split; [intros; split; reflexivity|]. intros fs' nm' Eq. inversion Eq; subst. exact H.
  - intros names. split; reflexivity.
  - intros names. rewrite anamed_fields_cons, anames_fields_cons, aleaves_fields_cons. destruct H as [H _].
    destruct (H (if f_anon then names else names ++ [f_name])) as [E1 L1].
    destruct (H (names ++ [f_name ++ alias_field_suffix])) as [E2 L2]. destruct (H0 names) as [E3 L3].
    destruct (has_alias tags f_tags).
    + rewrite E1, E2, E3. rewrite !combine_app by assumption. rewrite !app_length. split; [reflexivity | lia].
    + cbn [app]. rewrite E1, E3. rewrite combine_app by assumption. rewrite !app_length. split; [reflexivity | lia].
Qed.

Lemma anamed_split fs names :
  anamed_fields names fs = combine (anames_fields tags names fs) (aleaves_fields tags fs) /\
  length (anames_fields tags names fs) = length (aleaves_fields tags fs).
Proof. apply (proj2 anamed_split_aux). Qed.
End SpecExt.

(* ---------- by position and by name ---------- *)
Lemma parallel_assoc E : forall (nss : list (list str)) (lts : list ty) (xs : list val) (trs : list ty),
  NoDup (map enc0 nss) -> length lts = length nss -> length trs = length nss -> Forall2 (text_ok E) xs lts ->
  forall ns lt, In (ns, lt) (combine nss lts) ->
    exists tr x, assoc_s (enc0 ns) (combine (map enc0 nss) (combine trs xs)) = Some (tr, x) /\
                 assoc_s (enc0 ns) (combine (map enc0 nss) (PT E lts xs)) = Some (ptv E lt x) /\
                 text_ok E x lt.
Proof.
  induction nss as [|ns0 nss IH]; intros lts xs trs Nd L1 L2 F ns lt Hin; [destruct Hin|].
  destruct lts as [|lt0 lts]; [discriminate|]. destruct trs as [|tr0 trs]; [discriminate|].
  inversion F as [|x0 ? xs' ? T0 Fr]; subst. simpl in Hin.
  simpl map in *. inversion Nd as [|? ? Nin Nd']; subst.
  destruct Hin as [Hh | Ht].
  - inversion Hh; subst. exists tr0, x0. unfold PT. simpl. rewrite !str_eqb_refl. auto.
  - assert (Ne : str_eqb (enc0 ns) (enc0 ns0) = false).
    { destruct (str_eqb (enc0 ns) (enc0 ns0)) eqn:Eq; [| reflexivity]. apply str_eqb_eq in Eq.
      exfalso. apply Nin. rewrite <- Eq. apply in_map. apply in_combine_l in Ht. exact Ht. }
    destruct (IH lts xs' trs Nd' ltac:(simpl in L1; lia) ltac:(simpl in L2; lia) Fr ns lt Ht) as (tr & x & P1 & P2 & P3).
    exists tr, x. unfold PT in *. simpl. rewrite Ne. auto.
Qed.

Lemma leaf_agree E tags (env1 env2 : named) ns lt tr x :
  wf_ty lt = true -> leaf_ok lt = true ->
  @assoc_s tval (enc0 ns) env1 = Some (tr, x) -> @assoc_s tval (enc0 ns) env2 = Some (ptv E lt x) -> text_ok E x lt ->
  fspec_leaf E (Shape tags (Some 0%N) true false false) env1 0%N ns lt =
  fspec_leaf E (Shape tags (Some 0%N) false false false) env2 0%N ns lt.
Proof.
  intros W L H1 H2 T. unfold fspec_leaf.
  unfold enc0 in H1, H2. rewrite H1, H2.
  destruct (ptv E lt x) as [tp vp] eqn:P.
  assert (N : nspec_ty (Shape tags (Some 0%N) false false false) lt tp vp = Ok vp).
  { destruct lt as [| |e|e nm| |k v' nm| | | |]; simpl in W, L; try discriminate.
    - destruct e; try discriminate; reflexivity.
    - destruct e; try discriminate; reflexivity.
    - reflexivity. }
  unfold fleaf. cbn [sh_strcast]. rewrite N.
  destruct T as [-> | (s & ct & rr & -> & Ct & Pr & [Cv _] & _)].
  - unfold ptv in P. inversion P; subst. reflexivity.
  - unfold ptv in P. rewrite Ct, Pr in P. subst rr. unfold cast_target in Ct.
    assert (Ct' : match lt with TSlice _ _ | TMap _ _ _ => Ok lt | _ => type_elem lt end = Ok ct) by exact Ct.
    rewrite Ct'. cbn [obind]. rewrite Pr. cbn [obind fst snd]. simpl in Cv. rewrite Cv. reflexivity.
Qed.

(* ---------- the env chain ---------- *)
Lemma leaf_ok_of_simple :
  (forall t, (wf_ty t = true -> simple_ty t = true -> Forall (fun lt => wf_ty lt = true /\ leaf_ok lt = true) (leaves_ty t)) /\
             (forall fs nm, t = TStruct fs nm -> wf_fields fs = true -> simple_fields fs = true ->
                Forall (fun lt => wf_ty lt = true /\ leaf_ok lt = true) (leaves_fields fs))) /\
  (forall fs, wf_fields fs = true -> simple_fields fs = true ->
     Forall (fun lt => wf_ty lt = true /\ leaf_ok lt = true) (leaves_fields fs)).
Proof.
  assert (LEAF : forall t, wf_ty t = true -> leaf_ok t = true -> leaves_ty t = [t] ->
             Forall (fun lt => wf_ty lt = true /\ leaf_ok lt = true) (leaves_ty t)).
  { intros t W L Lv. rewrite Lv. constructor; [split; assumption | constructor]. }
  apply ty_fields_ind.
  - intros k nm. split; [intros W; discriminate | intros; discriminate].
  - intros id pr. split; [intros W; discriminate | intros; discriminate].
  - intros e [_ Hs]. split; [| intros; discriminate]. intros W S.
    destruct (wf_leaf_or_struct (TPtr e) W) as [(U & Lv & _) | (fs & nm & Eq & Wf)].
    + apply LEAF; auto. destruct e; simpl in U, S |- *; try discriminate; auto.
    + inversion Eq; subst. simpl in S |- *. now apply (Hs fs nm).
  - intros e IH nm. split; [| intros; discriminate]. intros W S. now apply LEAF.
  - intros n e IH. split; [intros W; discriminate | intros; discriminate].
  - intros k IHk v IHv nm. split; [| intros; discriminate]. intros W S. now apply LEAF.
  - intros fs IH nm. split; [intros W; discriminate|]. intros fs' nm' Eq W S. inversion Eq; subst. now apply IH.
  - split; [| intros; discriminate]. intros W S. discriminate.
  - split; [intros W; discriminate | intros; discriminate].
  - split; [intros W; discriminate | intros; discriminate].
  - intros _ _. constructor.
  - intros n tg an t [IHt _] r IHr W S. simpl in W, S.
    apply andb_true_iff in W as [W Wr]. apply andb_true_iff in W as [W _]. apply andb_true_iff in W as [_ Wt].
    apply andb_true_iff in S as [St Sr].
    simpl. apply Forall_app. split; [now apply IHt | now apply IHr].
Qed.

Lemma flat_tail_sc tg : Forall (fun m => is_tagstage m = true) tg -> flat_tail (tg ++ [MStrCast]) = Some true.
Proof.
  induction 1 as [|m r Tm _ IH]; [reflexivity|]. simpl app.
  destruct m; try discriminate; simpl; destruct (r ++ [MStrCast]) eqn:Er; try exact IH;
    destruct r; discriminate.
Qed.

Lemma flatten_layer_wf sub tag te lf lf' st :
  xlate_layer sub (MFlatten tag 0%N te) lf = Ok (lf', st) -> Forall (fun f => wf_sf f = true) lf ->
  Forall (fun g => wf_sf g = true) lf'.
Proof.
  revert lf' st; induction lf as [|f r IH]; intros lf' st H W; simpl in H.
  - inversion H. constructor.
  - apply Forall_cons_iff in W as [Wf Wr]. destruct (wf_sf_parts f Wf) as (Wn & _ & _).
    rewrite Wn in H. simpl in H. dob H outs Hm.
    rewrite recurse_outs_norec in H by reflexivity. simpl in H. dob H b Hb.
    destruct b as [lfr str]. simpl in H. injection H as El Est. subst lf'.
    rewrite map_map. simpl. rewrite map_id. apply Forall_app. split; [| eapply IH; eauto].
    apply (mangle_inv false (MFlatten tag 0%N te) f outs); auto; [split; [reflexivity | exact I] | discriminate].
Qed.

Lemma aleaves_incl tags :
  (forall t, (forall lt, In lt (aleaves_ty tags t) -> In lt (leaves_ty t)) /\
             (forall fs nm, t = TStruct fs nm -> forall lt, In lt (aleaves_fields tags fs) -> In lt (leaves_fields fs))) /\
  (forall fs lt, In lt (aleaves_fields tags fs) -> In lt (leaves_fields fs)).
Proof.
  apply ty_fields_ind.
  - intros k nm. split; [intros lt Hin; exact Hin | intros; discriminate].
  - intros id pr. split; [intros lt Hin; exact Hin | intros; discriminate].
  - intros e [_ Hs]. split; [| intros; discriminate]. intros lt Hin.
    destruct e; try exact Hin. simpl in *. now apply (Hs fs name eq_refl).
  - intros e IH nm. split; [intros lt Hin; exact Hin | intros; discriminate].
  - intros n e IH. split; [intros lt Hin; exact Hin | intros; discriminate].
  - intros k IHk v IHv nm. split; [intros lt Hin; exact Hin | intros; discriminate].
  - intros fs IH nm. split; [intros lt Hin; exact Hin|]. intros fs' nm' Eq. inversion Eq; subst. exact IH.
  - split; [intros lt Hin; exact Hin | intros; discriminate].
  - split; [intros lt Hin; exact Hin | intros; discriminate].
  - split; [intros lt Hin; exact Hin | intros; discriminate].
  - intros lt Hin. destruct Hin.
  - intros n tg an t [IHt _] r IHr lt Hin. simpl in *.
    apply in_app_or in Hin as [Hin|Hin]; [apply in_or_app; left; now apply IHt|].
    apply in_app_or in Hin as [Hin|Hin].
    + destruct (has_alias tags tg); [apply in_or_app; left; now apply IHt | destruct Hin].
    + apply in_or_app. right. now apply IHr.
Qed.

Lemma PT_conv E lts xs : Forall2 (text_ok E) xs lts -> Forall (fun lt => wf_ty lt = true) lts ->
  Forall2 conv_ok (PT E lts xs) lts.
Proof.
  unfold PT. induction 1 as [|x lt xs' lts' Tx _ IH]; intros Wl; simpl; [constructor|].
  apply Forall_cons_iff in Wl as [W1 W2]. constructor; [| now apply IH].
  simpl. destruct Tx as [-> | (s & ct & rr & -> & Ct & Pr & Cv & _)]; simpl.
  - now apply conv_exact.
  - rewrite Ct, Pr. exact Cv.
Qed.

Lemma env_of_combine lf (P : list tval) : length P = length lf ->
  env_of (combine lf P) = combine (map sf_name lf) P.
Proof.
  unfold env_of. revert P; induction lf as [|f r IH]; intros [|p P] L; simpl in *; try discriminate; [reflexivity|].
  f_equal. apply IH. lia.
Qed.

Lemma name_fields_pack l xs : name_fields (pack l) xs = combine (map sf_name l) (combine (map sf_ty l) xs).
Proof.
  unfold name_fields. rewrite unpack_pack. f_equal. clear. induction l as [|f r IH]; simpl; [reflexivity | now rewrite IH].
Qed.

Lemma combine_const {A B} (c : A) (l : list B) (xs : list val) : length xs = length l ->
  combine (map (fun _ => c) l) xs = map (fun x => (c, x)) xs.
Proof. revert xs; induction l as [|b r IH]; intros [|x xs] L; simpl in *; try discriminate; [reflexivity|]. f_equal. apply IH. lia. Qed.

Theorem env_chain_spec_l : forall fuel E tags tag te tg fs nm tt x filled,
  Forall (fun m => is_tagstage m = true) tg ->
  wf_fields fs = true -> simple_fields fs = true -> alias_ok_fields tags fs = true ->
  translate fuel (MAlias tags :: MFlatten tag 0%N te :: tg ++ [MStrCast]) (TStruct fs nm) = Ok (tt, x) ->
  Forall2 (text_ok E) filled (aleaves_fields tags fs) ->
  Some (reverse fuel E (MAlias tags :: MFlatten tag 0%N te :: tg ++ [MStrCast]) x (tt, VStruct filled)) =
  counterpart_spec E (MAlias tags :: MFlatten tag 0%N te :: tg ++ [MStrCast]) (TStruct fs nm) tt filled.
Proof.
  intros fuel E tags tag te tg fs nm tt x filled Tg W S A H Tx.
  destruct fuel as [|n]; [discriminate|]. cbn [translate unpack_ty] in H.
  set (sub := fun (m : mangler) (ft : ty) => translate n [m] ft) in *.
  rewrite xlate_layers_cons in H.
  destruct (xlate_layer sub (MAlias tags) (unpack fs)) as [[lf1 st1]| |] eqn:X1; cbn [obind fst snd] in H; try discriminate.
  rewrite xlate_layers_cons in H.
  destruct (xlate_layer sub (MFlatten tag 0%N te) lf1) as [[lf2 st2]| |] eqn:X2; cbn [obind fst snd] in H; try discriminate.
  destruct (xlate_layers sub (tg ++ [MStrCast]) lf2) as [[lfk sts]| |] eqn:X3; cbn [obind fst snd] in H; try discriminate.
  unfold struct_of in H. destruct (has_dup (map sf_name lfk)) eqn:D; [discriminate|].
  simpl in H. destruct (existsb _ lfk); [discriminate|]. simpl in H. injection H as Et Ex. subst tt x.
  pose proof (proj1 (wf_fields_forall fs) W) as Wl.
  assert (S' : simple_fields (pack (unpack fs)) = true) by (now rewrite pack_unpack).
  assert (A' : alias_ok_fields tags (pack (unpack fs)) = true) by (now rewrite pack_unpack).
  set (subrev := fun (m : mangler) (sx : xstate) (sv : tval) => reverse n E [m] sx sv).
  set (lts := aleaves_fields tags fs) in *. set (nss := anames_fields tags [] fs).
  assert (Lf : length filled = length lts) by (apply (Forall2_length _ _ _ Tx)).
  (* the flat layer lf2: names, types, flatness *)
  set (env2 := env_of (combine lf2 (PT E lts filled))).
  destruct (alias_layer_rev E env2 tags n (subA_all E env2 tags n) (unpack fs) lf1 st1 X1 Wl S' A') as (I1 & I2 & I2' & I3).
  rewrite pack_unpack in I2'. fold lts in I2'.
  destruct (flatten_layer_names sub tag te _ _ _ X2 I1) as [Nm Ty]. rewrite I2' in Ty.
  assert (Nm' : map sf_name lf2 = map enc0 nss).
  { rewrite Nm. f_equal. pose proof (I2 []) as Q. rewrite pack_unpack in Q. exact Q. }
  pose proof (flatten_layer_wf sub tag te _ _ _ X2 I1) as W2.
  assert (Lok : Forall (fun lt => wf_ty lt = true /\ leaf_ok lt = true) lts).
  { apply Forall_forall. intros lt Hin. apply (proj2 (aleaves_incl tags)) in Hin.
    pose proof (proj2 leaf_ok_of_simple fs W S) as Q. rewrite Forall_forall in Q. now apply Q. }
  assert (F2 : Forall flat_f lf2).
  { apply Forall_forall. intros g Hg. rewrite Forall_forall in W2. destruct (wf_sf_parts g (W2 g Hg)) as (Gn & Gt & _).
    repeat split; auto. rewrite Forall_forall in Lok. apply Lok. rewrite <- Ty. now apply in_map. }
  destruct (tail_rev sub E subrev tg Tg lf2 lfk sts X3 F2) as (T1 & T2 & T3 & T4).
  assert (L2 : length lf2 = length lts) by (rewrite <- Ty; now rewrite map_length).
  assert (Lp : length (PT E lts filled) = length lf2).
  { rewrite PT_length by exact Lf. now symmetry. }
  (* the model *)
  cbn [reverse xs_layers xs_ty]. cbn [combine]. cbn [rev_layers].
  assert (U : unpack_value (TStruct (pack lfk) [], VStruct filled) =
              combine lfk (map (fun x0 => (str_ptr_ty, x0)) filled)).
  { unfold unpack_value. rewrite unpack_pack. rewrite T3. rewrite combine_const by lia. reflexivity. }
  rewrite U. rewrite <- Ty in Tx. fold subrev. rewrite (T4 filled Tx). cbn [obind]. rewrite Ty.
  assert (Hn : NoDup (map fst (env_of ([] ++ combine lf2 (PT E lts filled))))).
  { simpl. fold env2. unfold env2. rewrite env_of_combine by exact Lp. rewrite map_fst_combine by (rewrite map_length; exact Lp).
    rewrite <- T1. now apply has_dup_nodup. }
  assert (Cv : Forall2 conv_ok (map snd (combine lf2 (PT E lts filled))) (map sf_ty lf2)).
  { rewrite map_snd_combine by exact Lp. rewrite Ty. rewrite Ty in Tx. apply PT_conv; [exact Tx|].
    eapply Forall_impl; [| exact Lok]. intros a [Ha _]. exact Ha. }
  pose proof (flatten_stage_rev sub E subrev tag te _ _ _ X2 I1 [] (combine lf2 (PT E lts filled))
                (map_fst_combine _ _ Lp) Cv Hn) as R.
  simpl app in R. simpl length in R. rewrite R. cbn [obind]. fold env2.
  assert (B : Forall (bound env2) (map enc0 (anames_fields tags [] (pack (unpack fs))))).
  { rewrite pack_unpack. fold nss. apply Forall_forall. intros k Hk. apply assoc_in.
    unfold env2. rewrite env_of_combine by exact Lp. rewrite map_fst_combine by (rewrite map_length; exact Lp).
    rewrite Nm'. exact Hk. }
  pose proof (I3 [] [] B) as R2. simpl app in R2. simpl length in R2.
  unfold SEG in R2. unfold top_names. unfold fnames in R2. simpl app in R2. fold subrev in R2.
  rewrite R2. rewrite pack_unpack.
  (* the specification *)
  unfold counterpart_spec. cbn [shape_of shape_body]. rewrite (flat_tail_sc tg Tg). cbn [sh_flat].
  set (env1 := name_fields (pack lfk) filled).
  assert (Ext : fspec_fields E (Shape tags (Some 0%N) true false false) env1 0%N [] fs =
                fspec_fields E (Shape tags (Some 0%N) false false false) env2 0%N [] fs).
  { apply (proj2 (fspec_ext E tags (Shape tags (Some 0%N) true false false) (Shape tags (Some 0%N) false false false)
                          env1 env2 eq_refl eq_refl) fs W []).
    intros ns lt Hin. rewrite (proj1 (anamed_split tags fs [])) in Hin. fold nss lts in Hin.
    assert (Nd : NoDup (map enc0 nss)) by (rewrite <- Nm', <- T1; now apply has_dup_nodup).
    assert (Ln : length lts = length nss) by (symmetry; apply (proj2 (anamed_split tags fs []))).
    assert (Lt : length (map sf_ty lfk) = length nss).
    { rewrite map_length, T2, L2. exact Ln. }
    rewrite Ty in Tx.
    destruct (parallel_assoc E nss lts filled (map sf_ty lfk) Nd Ln Lt Tx ns lt Hin) as (tr & x0 & P1 & P2 & P3).
    assert (Wlt : wf_ty lt = true /\ leaf_ok lt = true).
    { rewrite Forall_forall in Lok. apply Lok. apply in_combine_r in Hin. exact Hin. }
    destruct Wlt as [Wlt Llt].
    apply (leaf_agree E tags env1 env2 ns lt tr x0 Wlt Llt); [| | exact P3].
    - unfold env1. rewrite name_fields_pack, T1, Nm'. exact P1.
    - unfold env2. rewrite env_of_combine by exact Lp. rewrite Nm'. exact P2. }
  fold env1. rewrite Ext.
  destruct (fspec_fields E (Shape tags (Some 0%N) false false false) env2 0%N [] fs) as [vals| |] eqn:Fv; cbn [obind]; try reflexivity.
  rewrite (assemble_zipv (unpack fs) vals Wl); [reflexivity|].
  eapply ffs_length; eassumption.
Qed.
