(* The env chain end to end: [alias; flatten; (reformat | tagcopy)*; strcast]
   against the by-name specification, for texts that parse at their leaf's type. *)
From Coq Require Import List NArith ZArith Bool Lia PeanoNat.
From Dials Require Import Base.Outcome Base.Runes Reflect.Ty Text.CaseConv Transform.RType
  Transform.MAlias Transform.MFlatten Transform.MOthers Transform.Manglers Transform.Transformer
  Transform.WellFormed Transform.CounterpartSpec Transform.TransformerProofs Transform.AliasProofs
  Transform.ManglerProofs Transform.EmptyProofs Transform.FlattenProofs Transform.SpecProofs
  Transform.ValEq Transform.AliasSpecProofs.
Import ListNotations.
Local Open Scope nat_scope.

(* a flat layer: what flatten produces from a well-formed, simple type *)
Definition flat_f (f : sfield) : Prop :=
  exported (sf_name f) = true /\ wf_ty (sf_ty f) = true /\ leaf_ok (sf_ty f) = true.

Definition cast_target (lt : ty) : outcome ty :=
  match lt with TSlice _ _ | TMap _ _ _ => Ok lt | t => type_elem t end.

(* the text x parses, at the type string-cast asks for, to a value convertible to the leaf's type *)
Definition text_ok (E : env) (x : val) (lt : ty) : Prop :=
  x = VNil \/
  exists s ct r, x = VPtr (VStr s) /\ cast_target lt = Ok ct /\ e_parse E s ct = Ok r /\
                 conv_ok r lt /\ kind_struct (fst r) = false.

(* what the string-cast stage makes of it *)
Definition ptv (E : env) (lt : ty) (x : val) : tval :=
  match x with
  | VPtr (VStr s) =>
      match cast_target lt with
      | Ok ct => match e_parse E s ct with Ok r => r | _ => (lt, VNil) end
      | _ => (lt, VNil)
      end
  | _ => (lt, VNil)
  end.

Section Stages.
Variables (sub : mangler -> ty -> outcome (ty * xstate)) (E : env)
          (subrev : mangler -> xstate -> tval -> outcome tval).

Lemma flat_recurse m o : wf_ty (sf_ty o) = true -> leaf_ok (sf_ty o) = true ->
  recurse_outs sub m [o] = Ok [(o, (o, None))].
Proof. intros W L. simpl. rewrite (recurse_out_leaf sub m o W L). reflexivity. Qed.

Lemma tag_mangle_one m f outs : is_tagstage m = true -> mangle m f = Ok outs ->
  exists o, outs = [o] /\ sf_name o = sf_name f /\ sf_ty o = sf_ty f.
Proof.
  destruct m; simpl; try discriminate; intros _ H.
  all: try (unfold tagcopy_mangle in H;
            repeat match type of H with context [if ?c then _ else _] => destruct c end;
            inversion H; eauto; fail).
  all: unfold reformat_mangle in H; dob H ws Hws; inversion H; eauto.
Qed.

(* a tag stage over a flat layer: names and types kept, values passed through *)
Lemma tag_stage_rev m : is_tagstage m = true -> forall lf lf' st,
  xlate_layer sub m lf = Ok (lf', st) -> Forall flat_f lf ->
  map sf_name lf' = map sf_name lf /\ map sf_ty lf' = map sf_ty lf /\ Forall flat_f lf' /\
  forall pre (seg : list fvt), map fst seg = lf' ->
    Forall (fun fv : fvt => kind_struct (fst (snd fv)) = false) seg ->
    rev_layer E subrev m st (pre ++ seg) (length pre) = Ok (combine lf (map snd seg)).
Proof.
  intros Tm. induction lf as [|f r IH]; intros lf' st H W; simpl in H.
  - inversion H; subst. repeat split; auto.
  - apply Forall_cons_iff in W as [[Wn [Wt Wl]] Wr]. rewrite Wn in H. simpl in H.
    destruct (mangle m f) as [outs| |] eqn:Hm; simpl in H; try discriminate.
    destruct (tag_mangle_one m f outs Tm Hm) as (o & -> & On & Ot).
    rewrite flat_recurse in H by (rewrite Ot; assumption). simpl in H.
    destruct (xlate_layer sub m r) as [[lfr str]| |] eqn:Hx; simpl in H; try discriminate.
    injection H as El Est. subst lf' st.
    destruct (IH lfr str eq_refl Wr) as (I1 & I2 & I3 & I4).
    split; [simpl; now rewrite On, I1|]. split; [simpl; now rewrite Ot, I2|].
    split; [constructor; [repeat split; [now rewrite On | now rewrite Ot | now rewrite Ot] | exact I3]|].
    intros pre seg Hs Hk. destruct seg as [|[g tv] seg']; [discriminate|]. simpl in Hs. injection Hs as Hg Hs.
    apply Forall_cons_iff in Hk as [Hk1 Hk]. simpl in Hk1.
    change (pre ++ (g, tv) :: seg') with (pre ++ [(g, tv)] ++ seg').
    rewrite rev_layer_step by (simpl; auto).
    unfold unmangle_field. cbn [me_in me_out rec_unmangle rec_unmangle_one snd]. cbn [obind].
    match goal with |- context [unmangle E m (Some f) ?l] => assert (U : unmangle E m (Some f) l = Ok tv) end.
    { destruct m; try discriminate; simpl; unfold tag_unmangle; simpl; rewrite Hk1; reflexivity. }
    rewrite U. cbn [obind]. rewrite (I4 (pre ++ [(g, tv)]) seg' Hs Hk). reflexivity.
Qed.

(* the string-cast stage over a flat layer *)
Lemma strcast_stage_rev : forall lf lf' st,
  xlate_layer sub MStrCast lf = Ok (lf', st) -> Forall flat_f lf ->
  map sf_name lf' = map sf_name lf /\ map sf_ty lf' = map (fun _ => str_ptr_ty) lf /\
  forall pre xs, Forall2 (text_ok E) xs (map sf_ty lf) ->
    rev_layer E subrev MStrCast st (pre ++ combine lf' (map (fun x => (str_ptr_ty, x)) xs)) (length pre) =
    Ok (combine lf (map (fun fx => ptv E (sf_ty (fst fx)) (snd fx)) (combine lf xs))).
Proof.
  induction lf as [|f r IH]; intros lf' st H W; simpl in H.
  - inversion H; subst. repeat split; auto.
  - apply Forall_cons_iff in W as [[Wn [Wt Wl]] Wr]. rewrite Wn in H. cbn [negb mangle strcast_mangle obind] in H.
    destruct (xlate_layer sub MStrCast r) as [[lfr str]| |] eqn:Hx; simpl in H; try discriminate.
    injection H as El Est. subst lf' st.
    destruct (IH lfr str eq_refl Wr) as (I1 & I2 & I3).
    split; [simpl; now rewrite I1|]. split; [simpl; now rewrite I2|].
    intros pre xs F. simpl in F. inversion F as [|x lt xs' lts' Tx Fr]; subst. cbn [map combine].
    match goal with |- context [pre ++ ?h :: ?t] => change (pre ++ h :: t) with (pre ++ [h] ++ t) end.
    rewrite rev_layer_step by (simpl; auto).
    unfold unmangle_field. cbn [me_in me_out rec_unmangle rec_unmangle_one snd]. cbn [obind].
    match goal with |- context [unmangle E MStrCast (Some f) ?l] =>
      assert (U : unmangle E MStrCast (Some f) l = Ok (ptv E (sf_ty f) x)) end.
    { simpl. unfold strcast_unmangle. simpl. destruct Tx as [-> | (s & ct & rr & -> & Ct & Pr & _ & _)].
      - unfold ptv, zero_tv. now rewrite (proj1 (proj2 (wf_ty_nilable _ Wt))).
      - unfold ptv, cast_target in *.
        destruct (sf_ty f); simpl in Ct |- *; try discriminate; inversion Ct; subst; rewrite Pr; reflexivity. }
    rewrite U. cbn [obind]. rewrite (I3 _ xs' Fr). reflexivity.
Qed.

Lemma map_snd_combine {A B} (l1 : list A) (l2 : list B) : length l2 = length l1 -> map snd (combine l1 l2) = l2.
Proof. revert l2; induction l1 as [|a r IH]; intros [|b l2] L; simpl in *; try discriminate; [reflexivity|]. f_equal. apply IH. lia. Qed.
Lemma map_fst_combine {A B} (l1 : list A) (l2 : list B) : length l2 = length l1 -> map fst (combine l1 l2) = l1.
Proof. revert l2; induction l1 as [|a r IH]; intros [|b l2] L; simpl in *; try discriminate; [reflexivity|]. f_equal. apply IH. lia. Qed.
Lemma Forall_combine_snd {A B} (P : B -> Prop) (l1 : list A) (l2 : list B) : length l2 = length l1 ->
  Forall P l2 -> Forall (fun ab => P (snd ab)) (combine l1 l2).
Proof.
  revert l2; induction l1 as [|a r IH]; intros [|b l2] L H; simpl in *; try discriminate; [constructor|].
  apply Forall_cons_iff in H as [H1 H2]. constructor; [exact H1 | apply IH; [lia | exact H2]].
Qed.

Lemma map_const_len {A B C} (l : list A) (l' : list B) (c : C) :
  length l = length l' -> map (fun _ => c) l = map (fun _ => c) l'.
Proof. revert l'; induction l as [|a r IH]; intros [|b r'] H; simpl in *; try discriminate; [reflexivity|]. f_equal. apply IH. lia. Qed.

Definition PT (tys : list ty) (xs : list val) : list tval :=
  map (fun tx => ptv E (fst tx) (snd tx)) (combine tys xs).

Lemma PT_fields lf xs :
  map (fun fx : sfield * val => ptv E (sf_ty (fst fx)) (snd fx)) (combine lf xs) = PT (map sf_ty lf) xs.
Proof.
  unfold PT. revert xs; induction lf as [|f r IH]; intros [|x xs]; simpl; try reflexivity. now rewrite IH.
Qed.

Lemma PT_kind tys xs : Forall2 (text_ok E) xs tys -> Forall (fun lt => kind_struct lt = false) tys ->
  Forall (fun tv : tval => kind_struct (fst tv) = false) (PT tys xs).
Proof.
  unfold PT. induction 1 as [|x lt xs' tys' Tx _ IH]; intros K; simpl; [constructor|].
  apply Forall_cons_iff in K as [K1 K2]. constructor; [| now apply IH].
  simpl. destruct Tx as [-> | (s & ct & rr & -> & Ct & Pr & _ & Kr)]; simpl; [exact K1|].
  rewrite Ct, Pr. exact Kr.
Qed.

Lemma PT_length tys xs : length xs = length tys -> length (PT tys xs) = length tys.
Proof. intros L. unfold PT. rewrite map_length, combine_length. lia. Qed.

Lemma flat_kind lf : Forall flat_f lf -> Forall (fun lt => kind_struct lt = false) (map sf_ty lf).
Proof.
  induction 1 as [|f r [_ [Wt _]] _ IH]; simpl; constructor; auto. apply (wf_ty_nilable _ Wt).
Qed.

Lemma tail_rev : forall tg, Forall (fun m => is_tagstage m = true) tg ->
  forall lf lfk sts, xlate_layers sub (tg ++ [MStrCast]) lf = Ok (lfk, sts) -> Forall flat_f lf ->
  map sf_name lfk = map sf_name lf /\ length lfk = length lf /\
  map sf_ty lfk = map (fun _ => str_ptr_ty) lfk /\
  forall xs, Forall2 (text_ok E) xs (map sf_ty lf) ->
    rev_layers E subrev (combine (tg ++ [MStrCast]) sts) (combine lfk (map (fun x => (str_ptr_ty, x)) xs)) =
    Ok (combine lf (PT (map sf_ty lf) xs)).
Proof.
  induction 1 as [|m tg Tm _ IH]; intros lf lfk sts H W.
  - simpl app in *. rewrite xlate_layers_cons in H.
    destruct (xlate_layer sub MStrCast lf) as [[lf' st]| |] eqn:X; simpl in H; try discriminate.
    inversion H; subst. destruct (strcast_stage_rev lf lfk st X W) as (S1 & S2 & S3).
    split; [exact S1|]. split; [apply (f_equal (@length str)) in S1; now rewrite !map_length in S1|].
    split; [rewrite S2; apply map_const_len; apply (f_equal (@length str)) in S1; rewrite !map_length in S1; now symmetry|].
    intros xs F. cbn [combine rev_layers obind]. pose proof (S3 [] xs F) as R. simpl app in R. simpl length in R.
    rewrite R, PT_fields. reflexivity.
  - simpl app in *. rewrite xlate_layers_cons in H.
    destruct (xlate_layer sub m lf) as [[lf' st]| |] eqn:X; cbn [obind fst snd] in H; try discriminate.
    destruct (xlate_layers sub (tg ++ [MStrCast]) lf') as [[lfk' sts']| |] eqn:Xs; cbn [obind fst snd] in H; try discriminate.
    inversion H; subst. clear H.
    destruct (tag_stage_rev m Tm lf lf' st X W) as (T1 & T2 & T3 & T4).
    destruct (IH lf' lfk sts' Xs T3) as (I1 & I2 & I2' & I3).
    split; [now rewrite I1|]. split; [rewrite I2; apply (f_equal (@length str)) in T1; now rewrite !map_length in T1|].
    split; [exact I2'|].
    intros xs F. cbn [combine rev_layers]. rewrite <- T2 in F. rewrite (I3 xs F). cbn [obind].
    assert (Lx : length xs = length (map sf_ty lf')) by (apply (Forall2_length _ _ _ F)).
    assert (Lp : length (PT (map sf_ty lf') xs) = length lf').
    { rewrite PT_length by exact Lx. now rewrite map_length. }
    pose proof (T4 [] (combine lf' (PT (map sf_ty lf') xs))) as R. simpl app in R. simpl length in R.
    rewrite R.
    + rewrite map_snd_combine by exact Lp. now rewrite T2.
    + now apply map_fst_combine.
    + apply (Forall_combine_snd (fun tv : tval => kind_struct (fst tv) = false)); [exact Lp|].
      exact (PT_kind (map sf_ty lf') xs F (flat_kind lf' T3)).
Qed.
End Stages.
