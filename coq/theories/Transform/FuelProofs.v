(* Enough fuel: the recursion of TranslateType over nested struct types is
   modelled with explicit fuel.  Once the fuel exceeds the nesting depth of
   the type the outcome no longer depends on it: `Err out_of_fuel` can only be
   the result of too little fuel, and fuel_for t is enough. *)
From Coq Require Import List NArith ZArith Bool Lia PeanoNat.
From Dials Require Import Base.Outcome Base.Runes Reflect.Ty Text.CaseConv Transform.RType
  Transform.MAlias Transform.MFlatten Transform.MOthers Transform.Manglers Transform.Transformer
  Transform.EmptyProofs.
Import ListNotations.
Local Open Scope nat_scope.

Definition depth_ok (m : mangler) : Prop :=
  match m with MSubst from to => type_depth to <= type_depth from | _ => True end.

Definition dle (d : nat) (f : sfield) : Prop := type_depth (sf_ty f) <= d.

(* ---- Mangle never produces a field nested deeper than its input ---- *)
Lemma fl_depth tag ne te D :
  (forall t names tgs path full newtag outs,
      type_depth full <= D -> type_depth t <= D ->
      fl_ty tag ne te names tgs path full newtag t = Ok outs -> Forall (dle D) outs) /\
  (forall fs names tgs path outs,
      fields_depth fs <= D ->
      fl_fields tag ne te names tgs path fs = Ok outs -> Forall (dle D) outs).
Proof.
  assert (LEAF : forall names tgs path full newtag t outs,
             type_depth full <= D ->
             match t with TPtr _ | TStruct _ _ => False | _ => True end ->
             fl_ty tag ne te names tgs path full newtag t = Ok outs -> Forall (dle D) outs).
  { intros names tgs path full newtag t outs Hf Ht H. destruct t; try contradiction; simpl in H; inversion H;
      (apply Forall_cons; [exact Hf | apply Forall_nil]). }
  apply ty_fields_ind.
  - intros; eapply LEAF; [ | | eassumption]; [eassumption | exact I].
  - intros; eapply LEAF; [ | | eassumption]; [eassumption | exact I].
  - intros e IH names tgs path full newtag outs Hf Ht H. simpl in H. eapply IH; [exact Hf | | exact H]. exact Ht.
  - intros; eapply LEAF; [ | | eassumption]; [eassumption | exact I].
  - intros; eapply LEAF; [ | | eassumption]; [eassumption | exact I].
  - intros; eapply LEAF; [ | | eassumption]; [eassumption | exact I].
  - intros fs IH nm names tgs path full newtag outs Hf Ht H. simpl in H, Ht. eapply IH; [| exact H]. lia.
  - intros; eapply LEAF; [ | | eassumption]; [eassumption | exact I].
  - intros; eapply LEAF; [ | | eassumption]; [eassumption | exact I].
  - intros; eapply LEAF; [ | | eassumption]; [eassumption | exact I].
  - intros names tgs path outs _ H. simpl in H. inversion H. constructor.
  - intros n tg an t IHt r IHr names tgs path outs Hd H.
    rewrite (fl_fields_cons tag te) in H. simpl in Hd.
    dob H nt Hnt. dob H a Ha. dob H b Hb. inversion H; subst. apply Forall_app. split.
    + eapply IHt; [| | exact Ha]; lia.
    + eapply IHr; [| exact Hb]. lia.
Qed.

Lemma strip_ptrs_depth t : type_depth (strip_ptrs t) = type_depth t.
Proof. induction t; simpl; auto. Qed.

Lemma unpack_depth fs : Forall (dle (fields_depth fs)) (unpack fs).
Proof.
  induction fs as [|n tg an t r IH]; simpl; [constructor|]. constructor.
  - unfold dle. simpl. lia.
  - eapply Forall_impl; [| exact IH]. unfold dle. intros a Ha. lia.
Qed.

Lemma sub_type_unfold from to t :
  sub_type from to t =
  if ty_eqb t from then (to, true) else
  match t with
  | TPtr e => let (e', s) := sub_type from to e in if s then (TPtr e', true) else (t, false)
  | TMap k v _ =>
      let (k', sk) := sub_type from to k in
      let (v', sv) := sub_type from to v in
      if sk || sv then (TMap k' v' [], true) else (t, false)
  | TArray n e => let (e', s) := sub_type from to e in if s then (TArray n e', true) else (t, false)
  | TSlice e _ => let (e', s) := sub_type from to e in if s then (TSlice e' [], true) else (t, false)
  | _ => (t, false)
  end.
Proof. destruct t; reflexivity. Qed.

Lemma ty_eqb_depth :
  (forall a b, ty_eqb a b = true -> type_depth a = type_depth b) /\
  (forall a b, fields_eqb a b = true -> fields_depth a = fields_depth b).
Proof.
  apply ty_fields_ind; intros; destruct b; simpl in *; try discriminate; auto;
    repeat match goal with H : _ && _ = true |- _ => apply andb_true_iff in H as [? ?] end; auto;
    try (f_equal; eauto; fail);
    try (erewrite H, H0 by eassumption; reflexivity).
Qed.

Lemma sub_type_depth from to t : type_depth to <= type_depth from ->
  type_depth (fst (sub_type from to t)) <= type_depth t.
Proof.
  intros H. induction t; rewrite sub_type_unfold;
    (destruct (ty_eqb _ from) eqn:E; [apply (proj1 ty_eqb_depth) in E; simpl in *; lia|]); simpl; try lia.
  - destruct (sub_type from to t) as [e' []]; simpl in *; lia.
  - destruct (sub_type from to t) as [e' []]; simpl in *; lia.
  - destruct (sub_type from to t) as [e' []]; simpl in *; lia.
  - destruct (sub_type from to t1) as [k' sk]; destruct (sub_type from to t2) as [v' sv].
    destruct (sk || sv); simpl in *; lia.
Qed.

Ltac fa := repeat (apply Forall_cons || apply Forall_nil).

Lemma mangle_depth m f outs : depth_ok m -> mangle m f = Ok outs ->
  Forall (dle (type_depth (sf_ty f))) outs.
Proof.
  intros Hd H. destruct m; simpl in H, Hd.
  - unfold alias_mangle in H. destruct (alias_scan tags (sf_tags f)) as [[o a] s'].
    destruct a; inversion H; fa; unfold dle; simpl; lia.
  - unfold flatten_mangle in H.
    destruct (sf_ty f) eqn:T; try discriminate; dob H nt Hnt.
    all: try match type of H with (if ?c then _ else _) = _ => destruct c eqn:U end.
    all: first [ (inversion H; subst; fa; unfold dle; simpl; lia)
               | (eapply (proj1 (fl_depth tag name_enc tag_enc _)); [| | exact H]; simpl; lia) ].
  - unfold anon_mangle in H. destruct (sf_anon f); simpl in H.
    + pose proof (strip_ptrs_depth (sf_ty f)) as S.
      destruct (strip_ptrs (sf_ty f)) eqn:T; try discriminate;
        try (inversion H; fa; unfold dle; simpl in *; lia).
      inversion H; subst. simpl in S.
      pose proof (unpack_depth fs) as U. clear - U S.
      induction U as [|x l Hx _ IH]; simpl; [constructor|].
      destruct (xexported (sf_name x)); [constructor; [unfold dle in *; lia | exact IH] | exact IH].
    + inversion H; fa; unfold dle; lia.
  - unfold setslice_mangle in H.
    destruct (sf_ty f) as [| | | | |k v nm| | | |] eqn:T; try (inversion H; fa; unfold dle; rewrite T; lia).
    destruct (ty_eqb v empty_struct_ty); inversion H; fa; unfold dle; simpl; rewrite ?T; simpl; lia.
  - unfold subst_mangle in H. pose proof (sub_type_depth from to (sf_ty f) Hd) as S.
    destruct (sub_type from to (sf_ty f)) as [t' []]; inversion H; fa; unfold dle; simpl in *; lia.
  - inversion H; fa; unfold dle; simpl; lia.
  - unfold textu_mangle in H. destruct (either_implements_tu (sf_ty f)); inversion H; fa; unfold dle; simpl; lia.
  - unfold tagcopy_mangle in H.
    destruct (negb (nonempty_s (tag_get src (sf_tags f)))); [inversion H; fa; unfold dle; lia|].
    destruct (nonempty_s (tag_get new (sf_tags f))); inversion H; fa; unfold dle; simpl; lia.
  - unfold reformat_mangle in H. dob H ws Hws. inversion H; fa; unfold dle; simpl; lia.
Qed.

(* ---- the layer functions only consult the sub-transformer on shallower types ---- *)
Section Ext.
Variables sub1 sub2 : mangler -> ty -> outcome (ty * xstate).
Variable d : nat.
Hypothesis agree : forall m fs nm, depth_ok m -> type_depth (TStruct fs nm) <= d ->
  sub1 m (TStruct fs nm) = sub2 m (TStruct fs nm).
Hypothesis shrink : forall m fs nm r, depth_ok m -> type_depth (TStruct fs nm) <= d ->
  sub1 m (TStruct fs nm) = Ok r -> type_depth (fst r) <= type_depth (TStruct fs nm).

Lemma structish_depth t inner : structish_inner t = Some inner -> type_depth inner <= type_depth t.
Proof.
  destruct t; simpl; try discriminate; try (intros H; inversion H; subst; simpl; lia);
    destruct (kind_struct t); try discriminate; intros H; inversion H; subst; simpl; lia.
Qed.

Lemma structish_kind t inner : structish_inner t = Some inner -> kind_struct inner = true.
Proof.
  destruct t; simpl; try discriminate; try (intros H; inversion H; subst; reflexivity);
    destruct (kind_struct t) eqn:K; try discriminate; intros H; inversion H; subst; exact K.
Qed.

Lemma rewrap_depth orig inner' : type_depth (rewrap orig inner') = type_depth inner'.
Proof. destruct orig; reflexivity. Qed.

Lemma recurse_out_ext m f : depth_ok m -> dle d f ->
  recurse_out sub1 m f = recurse_out sub2 m f /\
  (forall r, recurse_out sub1 m f = Ok r -> dle d (fst r)).
Proof.
  intros Hm Hf. unfold recurse_out.
  destruct (structish_inner (sf_ty f)) as [inner|] eqn:SI; [| split; [reflexivity | intros r H; inversion H; exact Hf]].
  destruct (negb (should_recurse m)); [split; [reflexivity | intros r H; inversion H; exact Hf]|].
  destruct (either_implements_tu inner) eqn:Ei; [split; [reflexivity | intros r H; inversion H; exact Hf]|].
  pose proof (structish_depth _ _ SI) as Di. pose proof (structish_kind _ _ SI) as Ki. unfold dle in Hf.
  destruct inner as [| id pr | | | | |fs name| | |]; try discriminate Ki; [simpl in Ei; destruct pr; discriminate|].
  assert (Dd : type_depth (TStruct fs name) <= d) by lia. rewrite (agree m fs name Hm Dd). split; [reflexivity|].
  intros r H. rewrite <- (agree m fs name Hm Dd) in H.
  destruct (sub1 m (TStruct fs name)) as [r'| |] eqn:S1; simpl in H; try discriminate.
  inversion H; subst. unfold dle. simpl. rewrite rewrap_depth.
  pose proof (shrink m fs name r' Hm Dd S1). lia.
Qed.

Lemma recurse_outs_ext m outs : depth_ok m -> Forall (dle d) outs ->
  recurse_outs sub1 m outs = recurse_outs sub2 m outs /\
  (forall rec, recurse_outs sub1 m outs = Ok rec -> Forall (dle d) (map fst rec)).
Proof.
  intros Hm. induction 1 as [|o r Ho _ [IH1 IH2]]; simpl; [split; [reflexivity | intros rec H; inversion H; constructor]|].
  destruct (recurse_out_ext m o Hm Ho) as [E1 E2]. rewrite <- E1, <- IH1. split; [reflexivity|].
  intros rec H. dob H a Ha. dob H b Hb. inversion H; subst. simpl. constructor; [now apply E2 | now apply IH2].
Qed.

Lemma xlate_layer_ext m lf : depth_ok m -> Forall (dle d) lf ->
  xlate_layer sub1 m lf = xlate_layer sub2 m lf /\
  (forall lf' st, xlate_layer sub1 m lf = Ok (lf', st) -> Forall (dle d) lf').
Proof.
  intros Hm. induction 1 as [|f r Hf _ [IH1 IH2]]; simpl; [split; [reflexivity | intros ? ? H; inversion H; constructor]|].
  destruct (negb (xexported (sf_name f))).
  - rewrite <- IH1. split; [reflexivity|]. intros lf' st H. dob H b Hb. inversion H; subst.
    destruct b as [b1 b2]. eapply IH2; reflexivity.
  - destruct (mangle m f) as [outs| |] eqn:Hmg; simpl; try (split; [reflexivity | intros ? ? H; discriminate]).
    assert (Ho : Forall (dle d) outs).
    { eapply Forall_impl; [| eapply mangle_depth; eassumption]. unfold dle in *. intros a Ha. lia. }
    destruct (recurse_outs_ext m outs Hm Ho) as [E1 E2]. rewrite <- E1, <- IH1. split; [reflexivity|].
    intros lf' st H. dob H rec Hr. dob H b Hb. inversion H; subst. apply Forall_app. split.
    + now apply E2.
    + destruct b as [b1 b2]. eapply IH2; reflexivity.
Qed.

Lemma xlate_layers_ext ms lf : Forall depth_ok ms -> Forall (dle d) lf ->
  xlate_layers sub1 ms lf = xlate_layers sub2 ms lf /\
  (forall lfk sts, xlate_layers sub1 ms lf = Ok (lfk, sts) -> Forall (dle d) lfk).
Proof.
  intros Hms. revert lf. induction Hms as [|m r Hm _ IH]; intros lf Hl; simpl.
  - split; [reflexivity | intros ? ? H; inversion H; subst; exact Hl].
  - destruct (xlate_layer_ext m lf Hm Hl) as [E1 E2]. rewrite <- E1.
    destruct (xlate_layer sub1 m lf) as [[lf1 st1]| |] eqn:X; simpl; try (split; [reflexivity | intros ? ? H; discriminate]).
    destruct (IH lf1 (E2 _ _ eq_refl)) as [F1 F2]. rewrite <- F1. split; [reflexivity|].
    intros lfk sts H. dob H b Hb. inversion H; subst. destruct b as [b1 b2]. eapply F2; reflexivity.
Qed.
End Ext.

Lemma pack_depth l d : Forall (dle d) l -> fields_depth (pack l) <= d.
Proof. induction 1 as [|f r Hf _ IH]; simpl; [lia|]. unfold dle in Hf. lia. Qed.

Lemma fields_unpack_depth fs : Forall (dle (fields_depth fs)) (unpack fs).
Proof. apply unpack_depth. Qed.

(* translate on a struct type: independent of the fuel above the depth, and never deeper *)
Lemma translate_fuel_aux : forall f1 f2 ms fs nm, Forall depth_ok ms ->
  type_depth (TStruct fs nm) < f1 -> type_depth (TStruct fs nm) < f2 ->
  translate f1 ms (TStruct fs nm) = translate f2 ms (TStruct fs nm) /\
  (forall r, translate f1 ms (TStruct fs nm) = Ok r -> type_depth (fst r) <= type_depth (TStruct fs nm)).
Proof.
  induction f1 as [|n1 IH]; intros f2 ms fs nm Hms H1 H2; [lia|].
  destruct f2 as [|n2]; [lia|]. cbn [translate unpack_ty].
  set (d := fields_depth fs). simpl in H1, H2. fold d in H1, H2.
  assert (A1 : forall m fs' nm', depth_ok m -> type_depth (TStruct fs' nm') <= d ->
                 translate n1 [m] (TStruct fs' nm') = translate n2 [m] (TStruct fs' nm')).
  { intros m fs' nm' Dm Hd. apply IH; [repeat constructor; exact Dm | lia | lia]. }
  assert (A2 : forall m fs' nm' r, depth_ok m -> type_depth (TStruct fs' nm') <= d ->
                 translate n1 [m] (TStruct fs' nm') = Ok r -> type_depth (fst r) <= type_depth (TStruct fs' nm')).
  { intros m fs' nm' r Dm Hd Hr.
    eapply (proj2 (IH n1 [m] fs' nm' (Forall_cons _ Dm (Forall_nil _)) ltac:(lia) ltac:(lia))). exact Hr. }
  destruct (xlate_layers_ext (fun m ft => translate n1 [m] ft) (fun m ft => translate n2 [m] ft) d A1 A2
              ms (unpack fs) Hms (unpack_depth fs)) as [E1 E2].
  rewrite <- E1. split; [reflexivity|].
  intros r H. dob H a Ha. dob H t' Ht. inversion H; subst. simpl.
  destruct a as [lfk sts]. simpl in Ht. unfold struct_of in Ht.
  destruct (has_dup _); [discriminate|]. destruct (_ && _); [discriminate|]. inversion Ht; subst. simpl.
  pose proof (pack_depth lfk d (E2 _ _ eq_refl)). fold d. lia.
Qed.

Theorem translate_fuel_irrelevant_l : forall f1 f2 ms fs nm, Forall depth_ok ms ->
  type_depth (TStruct fs nm) < f1 -> type_depth (TStruct fs nm) < f2 ->
  translate f1 ms (TStruct fs nm) = translate f2 ms (TStruct fs nm).
Proof. intros. now apply translate_fuel_aux. Qed.

(* fuel_for t is enough: more fuel never changes the outcome *)
Theorem translate_fuel_enough_l : forall f ms fs nm, Forall depth_ok ms ->
  fuel_for (TStruct fs nm) <= f ->
  translate f ms (TStruct fs nm) = translate (fuel_for (TStruct fs nm)) ms (TStruct fs nm).
Proof. intros f ms fs nm H Hf. apply translate_fuel_irrelevant_l; auto; unfold fuel_for in *; lia. Qed.
