(* val_eqb decides equality of tree values. *)
From Coq Require Import List NArith ZArith Bool Lia.
From Dials Require Import Base.Outcome Base.Runes Reflect.Ty.
Import ListNotations.

Section ValInd.
Variable P : val -> Prop.
Hypothesis HNil : P VNil.
Hypothesis HBool : forall b, P (VBool b).
Hypothesis HInt : forall z, P (VInt z).
Hypothesis HFloat : forall z, P (VFloat z).
Hypothesis HStr : forall s, P (VStr s).
Hypothesis HText : forall s, P (VText s).
Hypothesis HPtr : forall v, P v -> P (VPtr v).
Hypothesis HList : forall l, Forall P l -> P (VList l).
Hypothesis HMap : forall kvs, Forall (fun kv => P (fst kv) /\ P (snd kv)) kvs -> P (VMap kvs).
Hypothesis HStruct : forall l, Forall P l -> P (VStruct l).
Hypothesis HOpaque : forall n, P (VOpaque n).

Fixpoint val_ind' (v : val) : P v :=
  match v with
  | VNil => HNil | VBool b => HBool b | VInt z => HInt z | VFloat z => HFloat z
  | VStr s => HStr s | VText s => HText s
  | VPtr x => HPtr x (val_ind' x)
  | VList l => HList l ((fix go (l : list val) : Forall P l :=
                           match l with [] => Forall_nil P | x :: r => Forall_cons x (val_ind' x) (go r) end) l)
  | VMap kvs => HMap kvs ((fix go (l : list (val * val)) : Forall (fun kv => P (fst kv) /\ P (snd kv)) l :=
                             match l with
                             | [] => Forall_nil _
                             | (k, x) :: r => Forall_cons (k, x) (conj (val_ind' k) (val_ind' x)) (go r)
                             end) kvs)
  | VStruct l => HStruct l ((fix go (l : list val) : Forall P l :=
                               match l with [] => Forall_nil P | x :: r => Forall_cons x (val_ind' x) (go r) end) l)
  | VOpaque n => HOpaque n
  end.
End ValInd.

Definition vlist_eqb : list val -> list val -> bool :=
  fix list_eqb (x y : list val) : bool :=
    match x, y with
    | [], [] => true
    | u :: x', v :: y' => val_eqb u v && list_eqb x' y'
    | _, _ => false
    end.
Definition vkvs_eqb : list (val * val) -> list (val * val) -> bool :=
  fix kvs_eqb (x y : list (val * val)) : bool :=
    match x, y with
    | [], [] => true
    | (k, u) :: x', (k', v) :: y' => val_eqb k k' && val_eqb u v && kvs_eqb x' y'
    | _, _ => false
    end.

Lemma val_eqb_list l l' : val_eqb (VList l) (VList l') = vlist_eqb l l'.
Proof. reflexivity. Qed.
Lemma val_eqb_struct l l' : val_eqb (VStruct l) (VStruct l') = vlist_eqb l l'.
Proof. reflexivity. Qed.
Lemma val_eqb_map l l' : val_eqb (VMap l) (VMap l') = vkvs_eqb l l'.
Proof. reflexivity. Qed.

Lemma vlist_eqb_eq l : Forall (fun a => forall b, val_eqb a b = true <-> a = b) l ->
  forall l', vlist_eqb l l' = true <-> l = l'.
Proof.
  induction 1 as [|x r Hx _ IH]; intros [|y r']; simpl; split; intros H; try discriminate; auto.
  - apply andb_true_iff in H as [H1 H2]. apply Hx in H1. apply IH in H2. congruence.
  - inversion H; subst. apply andb_true_iff. split; [now apply Hx | now apply IH].
Qed.

Lemma vkvs_eqb_eq l :
  Forall (fun kv => (forall b, val_eqb (fst kv) b = true <-> fst kv = b) /\
                    (forall b, val_eqb (snd kv) b = true <-> snd kv = b)) l ->
  forall l', vkvs_eqb l l' = true <-> l = l'.
Proof.
  induction 1 as [|[k x] r [Hk Hx] _ IH]; intros [|[k' y] r']; simpl in *; split; intros H; try discriminate; auto.
  - apply andb_true_iff in H as [H H3]. apply andb_true_iff in H as [H1 H2].
    apply Hk in H1. apply Hx in H2. apply IH in H3. congruence.
  - inversion H; subst. rewrite !andb_true_iff. repeat split; [now apply Hk | now apply Hx | now apply IH].
Qed.

Theorem val_eqb_eq : forall a b, val_eqb a b = true <-> a = b.
Proof.
  induction a using val_ind'; intros b'; destruct b'; simpl; split; intros E; try discriminate; auto;
    try (inversion E; subst).
  - f_equal. now apply Bool.eqb_prop.
  - apply Bool.eqb_reflx.
  - f_equal. now apply Z.eqb_eq.
  - apply Z.eqb_refl.
  - f_equal. now apply Z.eqb_eq.
  - apply Z.eqb_refl.
  - f_equal. now apply str_eqb_eq.
  - apply str_eqb_refl.
  - f_equal. now apply str_eqb_eq.
  - apply str_eqb_refl.
  - f_equal. now apply IHa.
  - now apply IHa.
  - f_equal. change (vlist_eqb l l0 = true) in E. now apply (vlist_eqb_eq l H).
  - change (vlist_eqb l0 l0 = true). now apply (vlist_eqb_eq l0 H).
  - f_equal. change (vkvs_eqb kvs kvs0 = true) in E. now apply (vkvs_eqb_eq kvs H).
  - change (vkvs_eqb kvs0 kvs0 = true). now apply (vkvs_eqb_eq kvs0 H).
  - f_equal. change (vlist_eqb l fs = true) in E. now apply (vlist_eqb_eq l H).
  - change (vlist_eqb fs fs = true). now apply (vlist_eqb_eq fs H).
  - f_equal. now apply N.eqb_eq.
  - apply N.eqb_refl.
Qed.

Lemma val_eqb_refl a : val_eqb a a = true.
Proof. now apply val_eqb_eq. Qed.
