(* Model of /repo/transform/alias_mangler.go. *)
From Coq Require Import String.
From Coq Require Import List NArith ZArith Bool.
From Dials Require Import Base.Outcome Base.Runes Reflect.Ty Transform.RType.
Import ListNotations.
Open Scope N_scope.

Definition alias_sfx : str := s2r "alias"%string.                      (* dialsAliasTagSuffix *)
Definition alias_field_suffix : str := s2r "_alias9wr876rw3"%string.   (* aliasFieldSuffix *)
Definition dialsdesc_tag : str := s2r "dialsdesc"%string.
Definition desc_unset : str := s2r "base dialsdesc unset"%string.

(* first loop of Mangle: originalVals, aliasVals (in the order of a.tags; the
   Go map iteration order only affects the order in which new keys are
   appended, compared modulo order), and the source tags without alias tags *)
Fixpoint alias_scan (atags : list str) (sft : tags) : list (str * str) * list (str * str) * tags :=
  match atags with
  | [] => ([], [], sft)
  | t :: r =>
      let o := match tag_lookup t sft with Some v => [(t, tag_name v)] | None => [] end in
      match tag_lookup (t ++ alias_sfx) sft with
      | Some av =>
          let '(os, als, sft') := alias_scan r (tag_delete (t ++ alias_sfx) sft) in
          (o ++ os, (t, tag_name av) :: als, sft')
      | None =>
          let '(os, als, sft') := alias_scan r sft in (o ++ os, als, sft')
      end
  end.

Fixpoint alias_apply (als : list (str * str)) (tg : tags) : tags :=
  match als with
  | [] => tg
  | (t, av) :: r => alias_apply r (tag_set t av (tag_delete (t ++ alias_sfx) tg))
  end.

(* a source-specific tag (every listed tag after the first) without an alias of
   its own is dropped from the copy: it would give the copy the original's name
   in that source (fix: commit) *)
Fixpoint alias_drop (specific : list str) (als : list (str * str)) (tg : tags) : tags :=
  match specific with
  | [] => tg
  | t :: r =>
      alias_drop r als (match tag_lookup t als with Some _ => tg | None => tag_delete t tg end)
  end.

Definition set_aliases (origs als : list (str * str)) : list str :=
  sort_s (map (fun ta => fst ta ++ [61] ++ tag_get (fst ta) origs) als).

Definition alias_desc (origs als : list (str * str)) (atg : tags) : str :=
  let desc := match tag_lookup dialsdesc_tag atg with Some v => tag_name v | None => desc_unset end in
  desc ++ s2r " (alias of "%string ++ join_s [32] (set_aliases origs als) ++ [41].

Definition alias_mangle (atags : list str) (sf : sfield) : outcome (list sfield) :=
  let '(origs, als, sft') := alias_scan atags (sf_tags sf) in
  match als with
  | [] => Ok [sf]
  | _ =>
      let atg := alias_drop (tl atags) als (alias_apply als (sf_tags sf)) in
      let atg' := tag_set dialsdesc_tag (alias_desc origs als atg) atg in
      Ok [SF (sf_name sf) sft' (sf_anon sf) (sf_ty sf);
          SF (sf_name sf ++ alias_field_suffix) atg' (sf_anon sf) (sf_ty sf)]
  end.

(* error class of "both alias and original set for field %q": carries the name *)
Fixpoint str_code (s : str) : N :=
  match s with
  | [] => 0
  | c :: r => 1 + c + 2097152 * str_code r
  end.
Definition alias_both_base : N := 4294967296.
Definition alias_both_code (name : str) : N := alias_both_base + str_code name.

Fixpoint code_str (fuel : nat) (n : N) : str :=
  match fuel with
  | O => []
  | S f => if n =? 0 then [] else ((n - 1) mod 2097152) :: code_str f ((n - 1) / 2097152)
  end.
(* the field name carried by an alias "both set" error class *)
Definition alias_err_name (c : N) : option str :=
  if c <? alias_both_base then None else Some (code_str 200 (c - alias_both_base)).

Definition sfo_name (sfo : option sfield) : str :=
  match sfo with Some sf => sf_name sf | None => [] end.

Definition alias_unmangle (sfo : option sfield) (fvs : list fvt) : outcome tval :=
  match fvs with
  | [(_, v)] => Ok v
  | [(_, v0); (_, v1)] =>
      if negb (go_is_zero v0) && negb (go_is_zero v1) then Err (alias_both_code (sfo_name sfo))
      else if negb (go_is_zero v0) then Ok v0
      else if negb (go_is_zero v1) then Ok v1
      else Ok v0
  | _ => Err 10
  end.
