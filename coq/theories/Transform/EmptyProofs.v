(* chain_empty: for every chain of manglers accepted by empty_ok and every
   pointerified (wf) config type, the all-nil value of the translated type
   reverses to the all-nil value of the original type. *)
From Coq Require Import List NArith ZArith Bool Lia PeanoNat.
From Dials Require Import Base.Outcome Base.Runes Reflect.Ty Text.CaseConv Transform.RType
  Transform.MAlias Transform.MFlatten Transform.MOthers Transform.Manglers Transform.Transformer
  Transform.WellFormed Transform.TransformerProofs Transform.ManglerProofs.
Import ListNotations.
Local Open Scope nat_scope.

(* destruct the first monadic bind of hypothesis H (whether or not simpl has unfolded it) *)
Ltac dob H a E :=
  match type of H with
  | context [obind ?c _] => destruct c as [a| |] eqn:E
  | context [match ?c with Ok _ => _ | Err _ => _ | Panic _ => _ end] => destruct c as [a| |] eqn:E
  end; simpl in H; try discriminate H.

(* ---------- basics ---------- *)
Lemma wf_ty_nilable t : wf_ty t = true -> can_nil t = true /\ zero t = VNil /\ kind_struct t = false.
Proof. destruct t; simpl; try discriminate; auto. Qed.

Lemma unpack_pack l : unpack (pack l) = l.
Proof. induction l as [|[n tg an t] r IH]; simpl; [reflexivity | now rewrite IH]. Qed.

Lemma wf_fields_forall fs : wf_fields fs = true <-> Forall (fun f => wf_sf f = true) (unpack fs).
Proof.
  induction fs as [|n tg an t r IH]; simpl.
  - split; auto.
  - unfold wf_sf at 1. simpl. split.
    + intros H. apply andb_true_iff in H as [H Hr]. constructor; [exact H | now apply IH].
    + intros H. inversion H as [|? ? H1 H2]; subst. apply andb_true_iff. split; [exact H1 | now apply IH].
Qed.

Lemma wf_fields_pack l : Forall (fun f => wf_sf f = true) l -> wf_fields (pack l) = true.
Proof. intros H. apply wf_fields_forall. now rewrite unpack_pack. Qed.

Lemma exported_app n sfx : xexported n = true -> xexported (n ++ sfx) = true.
Proof. destruct n; simpl; [discriminate | auto]. Qed.

Lemma assignable_refl t : assignable t t = true.
Proof. unfold assignable. now rewrite ty_eqb_refl. Qed.

Lemma convertible_refl t : convertible t t = true.
Proof. unfold convertible. now rewrite assignable_refl. Qed.

Definition nilv (f : sfield) : tval := (sf_ty f, VNil).
Definition nil_fvs (lf : list sfield) : list fvt := map (fun f => (f, nilv f)) lf.

(* ---------- (A) Mangle keeps the layer well-formed ---------- *)
Lemma title_upper c r : is_upper c || is_upper_x c = true -> title (c :: r) = c :: r.
Proof. intros H. unfold title, to_upper.
  assert (is_lower c = false) as ->; [| reflexivity].
  apply orb_true_iff in H as [H | H].
  - unfold is_upper, is_lower in *. apply andb_true_iff in H as [H1 H2].
    apply N.leb_le in H1, H2. apply andb_false_iff. left. apply N.leb_gt. lia.
  - unfold is_upper_x, upper_x in H. simpl in H.
    repeat (apply orb_true_iff in H as [H | H]; [apply N.eqb_eq in H; subst c; reflexivity |]).
    discriminate.
Qed.

Lemma exported_upper_camel names : names <> [] -> Forall (fun n => xexported n = true) names ->
  xexported (encode_upper_camel names) = true.
Proof.
  intros Hne Hall. destruct names as [|n r]; [congruence|].
  inversion Hall as [|? ? Hn _]; subst. unfold encode_upper_camel. simpl.
  destruct n as [|c n']; [discriminate|]. simpl in Hn.
  rewrite title_upper by exact Hn. simpl. exact Hn.
Qed.

Section FlattenWf.
Variables (tag : str) (tenc : N).

Lemma fl_fields_cons ne names tgs path n tg an t r :
  fl_fields tag ne tenc names tgs path (FCons n tg an t r) =
  (nt <- fl_get_tag tag tenc n tg an tgs (path ++ [n]) ;;
   a <- fl_ty tag ne tenc (if an then names else names ++ [n]) (snd nt) (path ++ [n]) t (fst nt) t ;;
   b <- fl_fields tag ne tenc names tgs path r ;;
   Ok (a ++ b)).
Proof. reflexivity. Qed.

(* leaves produced by flattenStruct from a well-formed struct are well-formed, un-embedded *)
Lemma fl_wf :
  (forall t, forall names tgs path full newtag outs,
      wf_ty full = true ->
      (t = full \/ (full = TPtr t /\ match t with TPtr _ => False | _ => True end)) ->
      Forall (fun n => xexported n = true) names ->
      (match t with TStruct _ _ => True | TPtr (TStruct _ _) => True | _ => names <> [] end) ->
      fl_ty tag 0 tenc names tgs path full newtag t = Ok outs ->
      Forall (fun f => wf_sf f = true) outs) /\
  (forall fs, forall names tgs path outs,
      wf_fields fs = true ->
      Forall (fun n => xexported n = true) names ->
      fl_fields tag 0 tenc names tgs path fs = Ok outs ->
      Forall (fun f => wf_sf f = true) outs).
Proof.
  apply ty_fields_ind.
  - (* TBasic *) intros k nm names tgs path full newtag outs Wf Sh Hn Hne H. simpl in H. inversion H; subst.
    constructor; [| constructor]. unfold wf_sf. simpl.
    rewrite exported_upper_camel by assumption. rewrite Wf. reflexivity.
  - (* TTextU *) intros id pr names tgs path full newtag outs Wf Sh Hn Hne H. simpl in H. inversion H; subst.
    constructor; [| constructor]. unfold wf_sf. simpl.
    rewrite exported_upper_camel by assumption. rewrite Wf. reflexivity.
  - (* TPtr *) intros e IH names tgs path full newtag outs Wf Sh Hn Hne H. simpl in H.
    destruct Sh as [Sh | [Sh F]]; [| contradiction].
    subst full. eapply (IH names tgs path (TPtr e) newtag outs Wf); try eassumption.
    + right. split; [reflexivity|]. destruct e; simpl in Wf; try discriminate; exact I.
    + destruct e as [| |e0| | | | | | |]; simpl in *; auto. destruct e0; auto.
  - (* TSlice *) intros e IH nm names tgs path full newtag outs Wf Sh Hn Hne H. simpl in H. inversion H; subst.
    constructor; [| constructor]. unfold wf_sf. simpl.
    rewrite exported_upper_camel by assumption. rewrite Wf. reflexivity.
  - (* TArray *) intros n e IH names tgs path full newtag outs Wf Sh Hn Hne H. simpl in H. inversion H; subst.
    constructor; [| constructor]. unfold wf_sf. simpl.
    rewrite exported_upper_camel by assumption. rewrite Wf. reflexivity.
  - (* TMap *) intros k IHk v IHv nm names tgs path full newtag outs Wf Sh Hn Hne H. simpl in H. inversion H; subst.
    constructor; [| constructor]. unfold wf_sf. simpl.
    rewrite exported_upper_camel by assumption. rewrite Wf. reflexivity.
  - (* TStruct *) intros fs IH nm names tgs path full newtag outs Wf Sh Hn Hne H. simpl in H.
    destruct Sh as [Sh | [Sh _]]; subst full; simpl in Wf; [discriminate|].
    eapply IH; eassumption.
  - (* TIface *) intros names tgs path full newtag outs Wf Sh Hn Hne H. simpl in H. inversion H; subst.
    constructor; [| constructor]. unfold wf_sf. simpl.
    rewrite exported_upper_camel by assumption. rewrite Wf. reflexivity.
  - intros names tgs path full newtag outs Wf Sh Hn Hne H. simpl in H. inversion H; subst.
    constructor; [| constructor]. unfold wf_sf. simpl.
    rewrite exported_upper_camel by assumption. rewrite Wf. reflexivity.
  - intros names tgs path full newtag outs Wf Sh Hn Hne H. simpl in H. inversion H; subst.
    constructor; [| constructor]. unfold wf_sf. simpl.
    rewrite exported_upper_camel by assumption. rewrite Wf. reflexivity.
  - (* FNil *) intros names tgs path outs _ _ H. simpl in H. inversion H. constructor.
  - (* FCons *) intros n tg an t IHt r IHr names tgs path outs Wf Hn H. rewrite fl_fields_cons in H. simpl in Wf.
    apply andb_true_iff in Wf as [Wf Wr]. apply andb_true_iff in Wf as [Wf Wan].
    apply andb_true_iff in Wf as [Wex Wt].
    dob H nt Hnt. dob H a Ha. dob H b Hb.
    inversion H; subst. apply Forall_app. split.
    + eapply IHt; [exact Wt | left; reflexivity | | | exact Ha].
      * destruct an; [exact Hn | apply Forall_app; split; [exact Hn | constructor; auto]].
      * destruct an.
        -- destruct t; simpl in Wan; try discriminate. destruct t; try discriminate. exact I.
        -- assert (NE : names ++ [n] <> []) by (intros X; apply app_eq_nil in X as [_ X]; discriminate).
           destruct t as [| |e| | | | | | |]; auto. destruct e; auto.
    + eapply IHr; eassumption.
Qed.
End FlattenWf.

Lemma wf_sf_parts f : wf_sf f = true ->
  xexported (sf_name f) = true /\ wf_ty (sf_ty f) = true /\
  (if sf_anon f then is_struct_ptr (sf_ty f) else true) = true.
Proof.
  unfold wf_sf. intros H. apply andb_true_iff in H as [H H3]. apply andb_true_iff in H as [H1 H2]. auto.
Qed.

Lemma wf_sf_retag f tg' : wf_sf f = true -> wf_sf (SF (sf_name f) tg' (sf_anon f) (sf_ty f)) = true.
Proof. auto. Qed.

(* type substitution between scalar types keeps well-formedness *)
Lemma basic_neq_wf from t : is_basic from = true -> wf_ty t = true -> ty_eqb t from = false.
Proof. destruct from; try discriminate. destruct t; try discriminate; reflexivity. Qed.

Lemma sub_type_ptr_wf from to e : is_basic from = true -> is_basic to = true ->
  wf_ty (TPtr e) = true -> snd (sub_type from to e) = true ->
  wf_ty (TPtr (fst (sub_type from to e))) = true /\
  is_struct_ptr (TPtr (fst (sub_type from to e))) = false /\ is_struct_ptr (TPtr e) = false.
Proof.
  intros Hf Ht W S. destruct to; try discriminate. destruct from; try discriminate.
  destruct e; simpl in W; try discriminate; simpl in S |- *;
    repeat match goal with
           | H : context [if ?c then _ else _] |- _ => destruct c; simpl in H
           | |- context [if ?c then _ else _] => destruct c; simpl
           | H : context [sub_type ?a ?b ?c] |- _ => destruct (sub_type a b c) as [? []]; simpl in H
           end; try discriminate; auto.
Qed.

Lemma sub_type_wf from to t : is_basic from = true -> is_basic to = true -> wf_ty t = true ->
  wf_ty (fst (sub_type from to t)) = true /\ is_struct_ptr (fst (sub_type from to t)) = is_struct_ptr t.
Proof.
  intros Hf Ht W.
  destruct t as [| |e|e nm| |k v nm| | | |]; simpl in W; try discriminate.
  - (* TPtr e *)
    pose proof (sub_type_ptr_wf from to e Hf Ht W) as P.
    cbn [sub_type]. rewrite (basic_neq_wf from (TPtr e) Hf) by (simpl; exact W).
    destruct (sub_type from to e) as [e' s] eqn:Se. simpl in P. destruct s; simpl.
    + destruct (P eq_refl) as (P1 & P2 & P3). simpl in P1, P2, P3. rewrite P2, P3. auto.
    + auto.
  - cbn [sub_type]. rewrite (basic_neq_wf from (TSlice e nm) Hf) by reflexivity.
    destruct (sub_type from to e) as [e' []]; simpl; auto.
  - cbn [sub_type]. rewrite (basic_neq_wf from (TMap k v nm) Hf) by reflexivity.
    destruct (sub_type from to k) as [k' sk]. destruct (sub_type from to v) as [v' sv].
    destruct (sk || sv); simpl; auto.
  - cbn [sub_type]. rewrite (basic_neq_wf from TIface Hf) by reflexivity. auto.
Qed.

(* ---------- the layer invariant and its preservation by Mangle ---------- *)
Definition inv (flat : bool) (lf : list sfield) : Prop :=
  Forall (fun f => wf_sf f = true) lf /\ (flat = true -> Forall (fun f => sf_anon f = false) lf).

Lemma under_struct_wf t : wf_ty t = true -> under_is_struct t = true -> exists fs nm, t = TPtr (TStruct fs nm).
Proof.
  destruct t as [| |e| | | | | | |]; simpl; try discriminate.
  destruct e; simpl; try discriminate; eauto.
Qed.

Lemma fl_anon_false tag tenc :
  (forall t names tgs path full newtag outs,
      fl_ty tag 0 tenc names tgs path full newtag t = Ok outs -> Forall (fun f => sf_anon f = false) outs) /\
  (forall fs names tgs path outs,
      fl_fields tag 0 tenc names tgs path fs = Ok outs -> Forall (fun f => sf_anon f = false) outs).
Proof.
  assert (LEAF : forall names tgs path full newtag t outs,
             match t with TPtr _ | TStruct _ _ => False | _ => True end ->
             fl_ty tag 0 tenc names tgs path full newtag t = Ok outs ->
             Forall (fun f => sf_anon f = false) outs).
  { intros names tgs path full newtag t outs Ht H. destruct t; try contradiction; simpl in H; inversion H; repeat constructor. }
  apply ty_fields_ind.
  - intros; eapply LEAF; [| eassumption]; exact I.
  - intros; eapply LEAF; [| eassumption]; exact I.
  - intros e IH names tgs path full newtag outs H. simpl in H. eapply IH; eassumption.
  - intros; eapply LEAF; [| eassumption]; exact I.
  - intros; eapply LEAF; [| eassumption]; exact I.
  - intros; eapply LEAF; [| eassumption]; exact I.
  - intros fs IH nm names tgs path full newtag outs H. simpl in H. eapply IH; eassumption.
  - intros; eapply LEAF; [| eassumption]; exact I.
  - intros; eapply LEAF; [| eassumption]; exact I.
  - intros; eapply LEAF; [| eassumption]; exact I.
  - intros names tgs path outs H. simpl in H. inversion H. constructor.
  - intros n tg an t IHt r IHr names tgs path outs H. rewrite fl_fields_cons in H.
    dob H nt Hnt. dob H a Ha. dob H b Hb. inversion H; subst. apply Forall_app. split; eauto.
Qed.

Lemma flatten_mangle_wf tag ne te f : wf_ty (sf_ty f) = true ->
  flatten_mangle tag ne te f =
  (nt <- fl_get_tag tag te (sf_name f) (sf_tags f) (sf_anon f) [] [sf_name f] ;;
   if under_is_struct (sf_ty f) then
     fl_ty tag ne te (if sf_anon f then [] else [sf_name f]) (snd nt) [sf_name f] (sf_ty f) (fst nt) (sf_ty f)
   else Ok [SF (encode_by ne [sf_name f]) (fst nt) false (sf_ty f)]).
Proof. unfold flatten_mangle. destruct (sf_ty f); simpl; try discriminate; reflexivity. Qed.

Lemma mangle_inv flat m f outs :
  stage_ok flat m -> wf_sf f = true -> (flat = true -> sf_anon f = false) ->
  mangle m f = Ok outs ->
  Forall (fun o => wf_sf o = true) outs /\
  ((flat || is_flat m) = true -> Forall (fun o => sf_anon o = false) outs).
Proof.
  intros [Ok1 Ok2] W An H.
  destruct (wf_sf_parts f W) as (Wn & Wt & Wa).
  destruct m; simpl in H, Ok1, Ok2.
  - (* alias *)
    unfold alias_mangle in H. destruct (alias_scan tags (sf_tags f)) as [[origs als] sft'].
    destruct als.
    + inversion H; subst. split; [repeat constructor; assumption|].
      rewrite orb_false_r. intros F. repeat constructor. auto.
    + inversion H; subst. split.
      * constructor; [apply wf_sf_retag; exact W|]. constructor; [| constructor].
        unfold wf_sf. simpl. rewrite exported_app by exact Wn. rewrite Wt. simpl. exact Wa.
      * rewrite orb_false_r. intros F. repeat constructor; simpl; auto.
  - (* flatten, UpperCamel names *)
    subst name_enc. rewrite flatten_mangle_wf in H by exact Wt. dob H nt Hnt.
    destruct (under_is_struct (sf_ty f)) eqn:U.
    + split; [| intros _; eapply (proj1 (fl_anon_false tag tag_enc)); exact H].
      destruct (under_struct_wf _ Wt U) as (fs & nm & E).
      eapply (proj1 (fl_wf tag tag_enc)); [exact Wt | left; reflexivity | | | exact H].
      * destruct (sf_anon f); repeat constructor; assumption.
      * rewrite E; exact I.
    + inversion H; subst. split; [| intros _; repeat constructor].
      constructor; [| constructor]. unfold wf_sf. simpl.
      rewrite exported_upper_camel by (try discriminate; repeat constructor; assumption).
      rewrite Wt. reflexivity.
  - (* anonymous flatten *)
    unfold anon_mangle in H. destruct (sf_anon f) eqn:A; simpl in H.
    + rewrite orb_false_r. destruct flat; [specialize (An eq_refl); discriminate|].
      split; [| discriminate].
      destruct (sf_ty f) as [| |e| | | | | | |] eqn:T; simpl in Wa; try discriminate.
      destruct e as [| | | | | |fs nm| | |]; try discriminate. simpl in H. inversion H; subst.
      simpl in Wt. apply wf_fields_forall in Wt.
      clear - Wt. induction Wt as [|x l Hx _ IH]; simpl; [constructor|].
      destruct (xexported (sf_name x)); [constructor; assumption | assumption].
    + inversion H; subst. split; [repeat constructor; assumption|].
      rewrite orb_false_r. intros F. repeat constructor. exact A.
  - (* set-slice *)
    unfold setslice_mangle in H. rewrite orb_false_r.
    assert (Same : outs = [f] -> Forall (fun o => wf_sf o = true) outs /\
                   (flat = true -> Forall (fun o => sf_anon o = false) outs)).
    { intros ->. split; [repeat constructor; assumption | intros F; repeat constructor; auto]. }
    destruct (sf_ty f) as [| | | | |k v nm| | | |] eqn:T; try (apply Same; inversion H; reflexivity).
    destruct (ty_eqb v empty_struct_ty); [| apply Same; inversion H; reflexivity].
    inversion H; subst. split.
    + constructor; [| constructor]. unfold wf_sf. simpl. rewrite Wn. simpl.
      destruct (sf_anon f); [discriminate | reflexivity].
    + intros F. repeat constructor. simpl. auto.
  - (* substitution *)
    destruct Ok1 as [Bf Bt]. unfold subst_mangle in H. rewrite orb_false_r.
    destruct (sub_type_wf from to (sf_ty f) Bf Bt Wt) as [S1 S2].
    destruct (sub_type from to (sf_ty f)) as [t' s]. simpl in S1, S2. destruct s; inversion H; subst.
    + split; [| intros F; repeat constructor; simpl; auto].
      constructor; [| constructor]. unfold wf_sf. simpl. rewrite Wn, S1, S2. exact Wa.
    + split; [repeat constructor; assumption | intros F; repeat constructor; auto].
  - (* string cast: only after a flatten stage *)
    subst flat. specialize (An eq_refl). inversion H; subst. split.
    + constructor; [| constructor]. unfold wf_sf. simpl. rewrite Wn, An. reflexivity.
    + intros _. repeat constructor. exact An.
  - contradiction.
  - (* tag copy *)
    unfold tagcopy_mangle in H. rewrite orb_false_r.
    destruct (negb (nonempty_s (tag_get src (sf_tags f)))).
    { inversion H; subst. split; [repeat constructor; assumption | intros F; repeat constructor; auto]. }
    destruct (nonempty_s (tag_get new (sf_tags f))); inversion H; subst;
      (split; [repeat constructor; try assumption; apply wf_sf_retag; assumption | intros F; repeat constructor; simpl; auto]).
  - (* tag reformat *)
    unfold reformat_mangle in H. rewrite orb_false_r. dob H ws Hws. inversion H; subst.
    split; [repeat constructor; apply wf_sf_retag; assumption | intros F; repeat constructor; simpl; auto].
Qed.

(* ---------- (B) Unmangle of all-nil values gives nil ---------- *)
Lemma nilv_soft t : wf_ty t = true -> soft_is_nil (t, VNil) = true.
Proof. intros W. unfold soft_is_nil. simpl. now rewrite (proj1 (wf_ty_nilable t W)). Qed.

Lemma assign_nil t : assign_or_convert (t, VNil) t = Ok (Some (t, VNil)).
Proof. unfold assign_or_convert. simpl. now rewrite assignable_refl. Qed.

Lemma pop_fields_cons n tg an t r vs :
  pop_fields (FCons n tg an t r) vs =
  (a <- (if negb (xexported n) then Err 4
         else if under_is_struct t then pop_ty t t vs
         else match vs with
              | [] => Panic 2
              | v :: rest =>
                  c <- assign_or_convert v t ;;
                  match c with
                  | None => Err 2
                  | Some v' => if soft_is_nil v' then Ok (zero t, rest, false) else Ok (snd v', rest, true)
                  end
              end) ;;
   let '(x, vs', any1) := a in
   b <- pop_fields r vs' ;;
   let '(xs, vs'', any2) := b in
   Ok (x :: xs, vs'', any1 || any2)).
Proof. reflexivity. Qed.

Lemma fl_leaf tag tenc names tgs path newtag t outs :
  wf_ty t = true -> under_is_struct t = false ->
  fl_ty tag 0 tenc names tgs path t newtag t = Ok outs ->
  outs = [SF (encode_by 0 names) newtag false t].
Proof.
  intros W U H. destruct t as [| |e| | | | | | |]; simpl in W; try discriminate; simpl in H;
    try (inversion H; reflexivity).
  destruct e; simpl in W, U; try discriminate; simpl in H; inversion H; reflexivity.
Qed.

Lemma fl_leaf_ok tag tenc names tgs path newtag t :
  wf_ty t = true -> under_is_struct t = false ->
  fl_ty tag 0 tenc names tgs path t newtag t = Ok [SF (encode_by 0 names) newtag false t].
Proof.
  intros W U. destruct t as [| |e| | | | | | |]; simpl in W; try discriminate; try reflexivity.
  destruct e; simpl in W, U; try discriminate; reflexivity.
Qed.

Section PopNil.
Variables (tag : str) (tenc : N).

Lemma pop_nil :
  (forall t names tgs path full newtag outs rest,
      wf_ty full = true ->
      (t = full \/ (full = TPtr t /\ match t with TPtr _ => False | _ => True end)) ->
      fl_ty tag 0 tenc names tgs path full newtag t = Ok outs ->
      pop_ty full t (map nilv outs ++ rest) = Ok (VNil, rest, false)) /\
  (forall fs names tgs path outs rest,
      wf_fields fs = true ->
      fl_fields tag 0 tenc names tgs path fs = Ok outs ->
      exists vals, pop_fields fs (map nilv outs ++ rest) = Ok (vals, rest, false)).
Proof.
  assert (LEAF : forall t names tgs path full newtag outs rest,
             wf_ty full = true ->
             match t with TPtr _ | TStruct _ _ => False | _ => True end ->
             fl_ty tag 0 tenc names tgs path full newtag t = Ok outs ->
             pop_ty full t (map nilv outs ++ rest) = Ok (VNil, rest, false)).
  { intros t names tgs path full newtag outs rest W Ht H.
    assert (outs = [SF (encode_by 0 names) newtag false full]) as ->
      by (destruct t; try contradiction; simpl in H; inversion H; reflexivity).
    change (map nilv [SF (encode_by 0 names) newtag false full] ++ rest) with ((full, VNil) :: rest).
    assert (pop_ty full t ((full, VNil) :: rest) =
            (a <- assign_or_convert (full, VNil) full ;;
             match a with
             | None => Err 2
             | Some v' => if soft_is_nil v' then Ok (zero full, rest, false) else Ok (snd v', rest, true)
             end)) as -> by (destruct t; try contradiction; reflexivity).
    rewrite assign_nil. simpl. rewrite nilv_soft by exact W.
    now rewrite (proj1 (proj2 (wf_ty_nilable full W))). }
  apply ty_fields_ind.
  - intros; eapply LEAF; eauto; exact I.
  - intros; eapply LEAF; eauto; exact I.
  - (* TPtr *) intros e IH names tgs path full newtag outs rest W Sh H.
    destruct Sh as [Sh | [_ F]]; [| contradiction]. subst full. simpl in H.
    change (pop_ty (TPtr e) (TPtr e) (map nilv outs ++ rest)) with (pop_ty (TPtr e) e (map nilv outs ++ rest)).
    eapply IH; [exact W | | exact H].
    right. split; [reflexivity|]. destruct e; simpl in W; try discriminate; exact I.
  - intros; eapply LEAF; eauto; exact I.
  - intros; eapply LEAF; eauto; exact I.
  - intros; eapply LEAF; eauto; exact I.
  - (* TStruct *) intros fs IH nm names tgs path full newtag outs rest W Sh H.
    destruct Sh as [Sh | [Sh _]]; subst full; simpl in W; [discriminate|]. simpl in H.
    destruct (IH names tgs path outs rest W H) as [vals P].
    change (pop_ty (TPtr (TStruct fs nm)) (TStruct fs nm) (map nilv outs ++ rest))
      with (r <- pop_fields fs (map nilv outs ++ rest) ;;
            let '(fvals, rest0, any) := r in
            if any then (if assignable (TPtr (TStruct fs nm)) (TPtr (TStruct fs nm))
                         then Ok (VPtr (VStruct fvals), rest0, true) else Panic 3)
            else Ok (zero (TPtr (TStruct fs nm)), rest0, false)).
    rewrite P. reflexivity.
  - intros; eapply LEAF; eauto; exact I.
  - intros; eapply LEAF; eauto; exact I.
  - intros; eapply LEAF; eauto; exact I.
  - (* FNil *) intros names tgs path outs rest _ H. simpl in H. inversion H. simpl. eauto.
  - (* FCons *) intros n tg an t IHt r IHr names tgs path outs rest W H.
    rewrite fl_fields_cons in H. simpl in W.
    apply andb_true_iff in W as [W Wr]. apply andb_true_iff in W as [W Wan].
    apply andb_true_iff in W as [Wex Wt].
    dob H nt Hnt. dob H a Ha. dob H b Hb. inversion H; subst.
    rewrite pop_fields_cons. rewrite Wex. simpl.
    rewrite map_app, <- app_assoc.
    destruct (IHr names tgs path b rest Wr Hb) as [vals Pr].
    destruct (under_is_struct t) eqn:U.
    + rewrite (IHt _ _ _ t (fst nt) a (map nilv b ++ rest) Wt (or_introl eq_refl) Ha). simpl.
      rewrite Pr. simpl. eauto.
    + rewrite (fl_leaf _ _ _ _ _ _ _ _ Wt U Ha). simpl. unfold nilv at 1. simpl.
      rewrite assign_nil. simpl. rewrite nilv_soft by exact Wt. cbn [obind]. rewrite Pr. simpl. eauto.
Qed.
End PopNil.

(* anonymous-flatten: all hoisted fields nil -> the embedded pointer stays nil *)
Lemma anon_fill_nil fs (fvs : list fvt) :
  wf_fields fs = true ->
  map (fun fv => sf_name (fst fv)) fvs = map sf_name (unpack fs) ->
  map snd fvs = map nilv (unpack fs) ->
  exists vals, anon_fill fs fvs = Ok (vals, true).
Proof.
  revert fvs; induction fs as [|n tg an t r IH]; intros fvs W Hn Hv; simpl in *.
  - eauto.
  - apply andb_true_iff in W as [W Wr]. apply andb_true_iff in W as [W Wan].
    apply andb_true_iff in W as [Wex Wt].
    destruct fvs as [|[f v] fr]; [discriminate|]. simpl in Hn, Hv.
    injection Hn as Hn1 Hn. injection Hv as Hv1 Hv. subst v n. unfold nilv in *. simpl in *.
    rewrite str_eqb_refl. rewrite assign_nil. simpl. rewrite Wex.
    unfold set_into. simpl. rewrite assignable_refl. simpl.
    destruct (IH fr Wr Hn Hv) as [vals P]. rewrite P. simpl.
    assert (nilable5 t = true) as -> by (destruct t; simpl in Wt; try discriminate; reflexivity).
    simpl. eauto.
Qed.

(* substitution: a nil value stays nil *)
Lemma sub_val_nil from to t : is_basic from = true -> is_basic to = true -> wf_ty t = true ->
  exists b1 b2, sub_val from to t (fst (sub_type from to t), VNil) = Ok ((t, VNil), b1, b2).
Proof.
  intros Bf Bt W.
  assert (Z : zero t = VNil) by apply (wf_ty_nilable t W).
  assert (N1 : can_nil (fst (sub_type from to t)) = true).
  { apply wf_ty_nilable. apply sub_type_wf; assumption. }
  set (t' := fst (sub_type from to t)) in *. clearbody t'.
  destruct t as [| |e|e nm| |k v nm| | | |]; simpl in W; try discriminate.
  - cbn [sub_val]. rewrite (basic_neq_wf from (TPtr e) Bf) by (simpl; exact W).
    destruct (ty_eqb e from) eqn:Ee.
    + unfold go_is_nil. cbn [fst snd]. rewrite N1. simpl. unfold zero_tv. rewrite Z. eauto.
    + unfold soft_is_nil. cbn [fst snd]. rewrite N1. simpl. unfold zero_tv. rewrite Z. eauto.
  - cbn [sub_val]. rewrite (basic_neq_wf from (TSlice e nm) Bf) by reflexivity.
    unfold soft_is_nil. cbn [fst snd]. rewrite N1. simpl. unfold zero_tv. simpl. eauto.
  - cbn [sub_val]. rewrite (basic_neq_wf from (TMap k v nm) Bf) by reflexivity.
    unfold soft_is_nil. cbn [fst snd]. rewrite N1. simpl. unfold zero_tv. simpl. eauto.
  - cbn [sub_val]. rewrite (basic_neq_wf from TIface Bf) by reflexivity.
    unfold soft_is_nil. cbn [fst snd]. rewrite N1. simpl. unfold zero_tv. simpl. eauto.
Qed.

Lemma go_is_zero_nil t : wf_ty t = true -> go_is_zero (t, VNil) = true.
Proof. intros W. unfold go_is_zero. simpl. now rewrite (proj1 (proj2 (wf_ty_nilable t W))). Qed.

Lemma unmangle_nil E flat m f outs (fvs : list fvt) :
  stage_ok flat m -> wf_sf f = true -> (flat = true -> sf_anon f = false) ->
  mangle m f = Ok outs ->
  map (fun fv => sf_name (fst fv)) fvs = map sf_name outs ->
  map snd fvs = map nilv outs ->
  unmangle E m (Some f) fvs = Ok (nilv f).
Proof.
  intros [Ok1 Ok2] W An H Hn Hv.
  destruct (wf_sf_parts f W) as (Wn & Wt & Wa).
  destruct m; simpl in H, Ok1, Ok2; simpl.
  - (* alias *)
    unfold alias_mangle in H. destruct (alias_scan tags (sf_tags f)) as [[origs als] sft'].
    destruct als; inversion H; subst; clear H.
    + destruct fvs as [|[f0 v0] [|? ?]]; try discriminate. simpl in Hv. inversion Hv; subst. reflexivity.
    + destruct fvs as [|[f0 v0] [|[f1 v1] [|? ?]]]; try discriminate. simpl in Hv.
      inversion Hv; subst. unfold nilv; simpl.
      rewrite go_is_zero_nil by exact Wt. reflexivity.
  - (* flatten *)
    subst name_enc. rewrite flatten_mangle_wf in H by exact Wt. dob H nt Hnt.
    unfold flatten_unmangle. rewrite Hv.
    destruct (under_is_struct (sf_ty f)) eqn:U.
    + pose proof (proj1 (pop_nil tag tag_enc) (sf_ty f) _ _ _ (sf_ty f) (fst nt) outs [] Wt (or_introl eq_refl) H) as P.
      rewrite app_nil_r in P. rewrite P. reflexivity.
    + inversion H; subst. simpl. unfold nilv at 1. simpl.
      pose proof (proj1 (pop_nil tag tag_enc) (sf_ty f) [sf_name f] (snd nt) [sf_name f] (sf_ty f) (fst nt)
                    [SF (encode_by 0 [sf_name f]) (fst nt) false (sf_ty f)] [] Wt (or_introl eq_refl)) as P.
      specialize (P (fl_leaf_ok tag tag_enc _ _ _ _ _ Wt U)). simpl in P.
      unfold nilv in P. simpl in P. rewrite P. reflexivity.
  - (* anonymous flatten *)
    unfold anon_mangle in H. unfold anon_unmangle. destruct (sf_anon f) eqn:A; simpl in H |- *.
    + destruct (sf_ty f) as [| |e| | | | | | |] eqn:T; simpl in Wa; try discriminate.
      destruct e as [| | | | | |fs nm| | |]; try discriminate. simpl in H. inversion H; subst. clear H.
      simpl in Wt.
      assert (Fl : filter (fun f0 => xexported (sf_name f0)) (unpack fs) = unpack fs).
      { pose proof (proj1 (wf_fields_forall fs) Wt) as Fa. clear - Fa.
        induction Fa as [|x l Hx _ IH]; simpl; [reflexivity|].
        rewrite (proj1 (wf_sf_parts x Hx)). now rewrite IH. }
      rewrite Fl in Hn, Hv.
      unfold anon_unmangle_struct.
      destruct (anon_fill_nil fs fvs Wt Hn Hv) as [vals P].
      destruct fvs; [| rewrite P]; simpl; unfold nilv, zero_tv; rewrite T; reflexivity.
    + inversion H; subst. destruct fvs as [|[f0 v0] [|? ?]]; try discriminate.
      simpl in Hv. inversion Hv; subst. reflexivity.
  - (* set-slice *)
    unfold setslice_mangle in H. unfold setslice_unmangle.
    destruct (sf_ty f) as [| | | | |k v nm| | | |] eqn:T;
      try (inversion H; subst; destruct fvs as [|[f0 v0] [|? ?]]; try discriminate;
           simpl in Hv; inversion Hv; subst; simpl; unfold nilv; rewrite T; reflexivity).
    simpl. destruct (ty_eqb v empty_struct_ty) eqn:Ev; inversion H; subst;
      destruct fvs as [|[f0 v0] [|? ?]]; try discriminate; simpl in Hv; inversion Hv; subst; simpl.
    + rewrite ty_eqb_refl. simpl. unfold nilv. rewrite T. reflexivity.
    + unfold nilv. rewrite T. reflexivity.
  - (* substitution *)
    destruct Ok1 as [Bf Bt]. unfold subst_mangle in H. unfold subst_unmangle.
    destruct (sub_val_nil from to (sf_ty f) Bf Bt Wt) as (b1 & b2 & S).
    destruct (sub_type from to (sf_ty f)) as [t' s] eqn:St. simpl in S.
    assert (E' : outs = [SF (sf_name f) (sf_tags f) (sf_anon f) t'] \/ (outs = [f] /\ s = false)).
    { destruct s; inversion H; auto. }
    assert (T' : s = false -> t' = sf_ty f).
    { intros ->. clear - St. destruct (sf_ty f); simpl in St;
        repeat match type of St with
               | context [if ?c then _ else _] => destruct c
               | context [sub_type ?a ?b ?c] => destruct (sub_type a b c) as [? []]
               end; inversion St; reflexivity. }
    destruct fvs as [|[f0 v0] [|? ?]]; try (destruct E' as [-> | [-> _]]; discriminate).
    assert (v0 = (t', VNil)) as ->.
    { destruct E' as [-> | [-> Es]]; simpl in Hv; inversion Hv; unfold nilv; simpl; [reflexivity|].
      now rewrite (T' Es). }
    simpl. rewrite S. reflexivity.
  - (* string cast *)
    inversion H; subst. destruct fvs as [|[f0 v0] [|? ?]]; try discriminate.
    simpl in Hv. inversion Hv; subst. unfold nilv, strcast_unmangle; simpl.
    unfold zero_tv. now rewrite (proj1 (proj2 (wf_ty_nilable _ Wt))).
  - contradiction.
  - (* tag copy *)
    assert (exists o, outs = [o] /\ sf_ty o = sf_ty f) as (o & -> & To).
    { unfold tagcopy_mangle in H.
      destruct (negb (nonempty_s (tag_get src (sf_tags f)))); [inversion H; eauto|].
      destruct (nonempty_s (tag_get new (sf_tags f))); inversion H; eauto. }
    destruct fvs as [|[f0 v0] [|? ?]]; try discriminate. simpl in Hv. inversion Hv; subst.
    unfold tag_unmangle, nilv. simpl. rewrite To.
    now rewrite (proj2 (proj2 (wf_ty_nilable _ Wt))).
  - (* tag reformat *)
    assert (exists o, outs = [o] /\ sf_ty o = sf_ty f) as (o & -> & To).
    { unfold reformat_mangle in H. dob H ws Hws. inversion H; eauto. }
    destruct fvs as [|[f0 v0] [|? ?]]; try discriminate. simpl in Hv. inversion Hv; subst.
    unfold tag_unmangle, nilv. simpl. rewrite To.
    now rewrite (proj2 (proj2 (wf_ty_nilable _ Wt))).
Qed.

(* ---------- (C) recursion into struct-typed fields ---------- *)
Section Layer.
Variable sub : mangler -> ty -> outcome (ty * xstate).
Variable E : env.
Variable subrev : mangler -> xstate -> tval -> outcome tval.

(* what the sub-transformer must guarantee for the struct-pointer fields among outs *)
Definition sub_ok (m : mangler) (outs : list sfield) : Prop :=
  forall o ifs inm r', In o outs -> sf_ty o = TPtr (TStruct ifs inm) -> wf_fields ifs = true ->
    sub m (TStruct ifs inm) = Ok r' -> exists fs', fst r' = TStruct fs' [] /\ wf_fields fs' = true.

Lemma recurse_out_nil m o r ia f' :
  sub_ok m [o] -> wf_sf o = true -> recurse_out sub m o = Ok r ->
  wf_sf (fst r) = true /\ sf_anon (fst r) = sf_anon o /\ sf_name (fst r) = sf_name o /\
  rec_unmangle_one subrev m ia (snd r) (f', nilv (fst r)) = Ok (f', nilv o).
Proof.
  intros Hs W H. destruct (wf_sf_parts o W) as (Wn & Wt & Wa).
  unfold recurse_out in H.
  destruct (structish_inner (sf_ty o)) as [inner|] eqn:SI.
  2:{ inversion H; subst. simpl. auto. }
  destruct (negb (should_recurse m)); [inversion H; subst; simpl; auto|].
  destruct (either_implements_tu inner) eqn:Ei; [inversion H; subst; simpl; auto|].
  destruct (sf_ty o) as [| |e|e nm| | | | | |] eqn:T; simpl in Wt, SI; try discriminate.
  - (* pointer to struct *)
    destruct e as [| | | | | |ifs inm| | |]; simpl in SI; try discriminate.
    + inversion SI; subst inner. simpl in Ei. destruct ptr_recv; discriminate.
    + inversion SI; subst inner.
      destruct (sub m (TStruct ifs inm)) as [r'| |] eqn:Sr; simpl in H; try discriminate.
      inversion H; subst. simpl.
      destruct (Hs o ifs inm r' (or_introl eq_refl) T Wt Sr) as (fs' & Ef & Wf').
      rewrite Ef. repeat split.
      * unfold wf_sf. simpl. rewrite Wn, Wf'. simpl. destruct (sf_anon o); reflexivity.
      * unfold nilv, rec_unmangle_one. simpl. unfold zero_tv. rewrite T. reflexivity.
  - (* slice of structs *)
    destruct (kind_struct e) eqn:Ke; [| discriminate]. inversion SI; subst inner.
    destruct e as [| id pr | | | | |ifs inm| | |]; try discriminate; [simpl in Ei; destruct pr; discriminate|].
    destruct (sub m (TStruct ifs inm)) as [r'| |] eqn:Sr; simpl in H; try discriminate.
    inversion H; subst. simpl. repeat split.
    + unfold wf_sf. simpl. rewrite Wn. simpl. exact Wa.
    + unfold nilv, rec_unmangle_one. simpl. unfold zero_tv. rewrite T. reflexivity.
Qed.

Lemma sub_ok_cons m o r : sub_ok m (o :: r) -> sub_ok m [o] /\ sub_ok m r.
Proof.
  intros H. split; intros o' ifs inm r' Hin; apply H; simpl in *; tauto.
Qed.

Lemma recurse_outs_nil m outs rec ia :
  sub_ok m outs -> Forall (fun o => wf_sf o = true) outs -> recurse_outs sub m outs = Ok rec ->
  Forall (fun o => wf_sf o = true) (map fst rec) /\
  map sf_anon (map fst rec) = map sf_anon outs /\
  exists mf, rec_unmangle subrev m ia (map snd rec) (nil_fvs (map fst rec)) = Ok mf /\
             map (fun fv => sf_name (fst fv)) mf = map sf_name outs /\ map snd mf = map nilv outs.
Proof.
  revert rec; induction outs as [|o r IH]; intros rec Hs W H; simpl in H.
  - inversion H; subst. simpl. repeat split; auto. exists []. auto.
  - dob H a Ha. dob H b Hb. inversion H; subst. inversion W as [|? ? Wo Wr]; subst.
    apply sub_ok_cons in Hs as [Hs1 Hs2].
    destruct (recurse_out_nil m o a ia (fst a) Hs1 Wo Ha) as (A1 & A2 & A3 & A4).
    destruct (IH b Hs2 Wr eq_refl) as (B1 & B2 & mf & B3 & B4 & B5).
    simpl. repeat split.
    + constructor; assumption.
    + now rewrite A2, B2.
    + exists ((fst a, nilv o) :: mf). rewrite A4. simpl. rewrite B3. simpl.
      repeat split; [now rewrite A3, B4 | now rewrite B5].
Qed.

(* ---------- (D) one stage ---------- *)
Lemma firstn_skipn_mid {A} (pre mid post : list A) :
  firstn (length mid) (skipn (length pre) (pre ++ mid ++ post)) = mid.
Proof.
  rewrite skipn_app, skipn_all, Nat.sub_diag. simpl.
  rewrite firstn_app, firstn_all, Nat.sub_diag. simpl. now rewrite app_nil_r.
Qed.

Lemma layer_nil flat m lf lf' st :
  (forall f outs, In f lf -> mangle m f = Ok outs -> sub_ok m outs) ->
  stage_ok flat m -> inv flat lf ->
  xlate_layer sub m lf = Ok (lf', st) ->
  inv (flat || is_flat m) lf' /\
  forall pre, rev_layer E subrev m st (pre ++ nil_fvs lf') (length pre) = Ok (nil_fvs lf).
Proof.
  revert lf' st; induction lf as [|f r IH]; intros lf' st Hsub Hok [W An] H; simpl in H.
  - inversion H; subst. split; [split; [constructor | intros _; constructor]|]. reflexivity.
  - inversion W as [|? ? Wf Wr]; subst.
    destruct (wf_sf_parts f Wf) as (Wn & Wt & Wa).
    rewrite Wn in H. simpl in H.
    dob H outs Hm. dob H rec Hr. dob H b Hb. inversion H; subst. clear H.
    assert (Anf : flat = true -> sf_anon f = false).
    { intros F. specialize (An F). now inversion An. }
    destruct (mangle_inv flat m f outs Hok Wf Anf Hm) as [Wo Ao].
    assert (Hsub_o : sub_ok m outs) by (eapply Hsub; [left; reflexivity | exact Hm]).
    set (ia := is_array_ty (sf_ty f)).
    destruct (recurse_outs_nil m outs rec ia Hsub_o Wo Hr) as (R1 & R2 & mf & R3 & R4 & R5).
    assert (Inv_r : inv flat r).
    { split; [exact Wr|]. intros F. specialize (An F). now inversion An. }
    destruct (IH (fst b) (snd b)) as [[I1 I2] I3]; auto.
    { intros f0 o0 Hin. apply Hsub. now right. }
    { destruct b; reflexivity. }
    split.
    + split.
      * apply Forall_app. split; assumption.
      * intros F. apply Forall_app. split; [| exact (I2 F)].
        specialize (Ao F). clear - Ao R2.
        apply Forall_forall. intros x Hx.
        assert (Forall (fun a => a = false) (map sf_anon (map fst rec))) as Q.
        { rewrite R2. clear - Ao. induction Ao; simpl; constructor; auto. }
        rewrite Forall_forall in Q. apply Q. now apply in_map.
    + intros pre. cbn [rev_layer me_in me_out sfo_name]. rewrite Wn. cbn [negb].
      assert (Split : nil_fvs (map fst rec ++ fst b) = nil_fvs (map fst rec) ++ nil_fvs (fst b))
        by (unfold nil_fvs; now rewrite map_app).
      assert (Ln : length (map snd rec) = length (nil_fvs (map fst rec)))
        by (unfold nil_fvs; now rewrite !map_length).
      rewrite Split, Ln.
      destruct (Nat.ltb _ _) eqn:L.
      { apply Nat.ltb_lt in L. rewrite !app_length in L. lia. }
      rewrite firstn_skipn_mid.
      unfold unmangle_field. cbn [me_in me_out]. fold ia. rewrite R3. cbn [obind].
      rewrite (unmangle_nil E flat m f outs mf Hok Wf Anf Hm R4 R5). cbn [obind].
      specialize (I3 (pre ++ nil_fvs (map fst rec))).
      rewrite <- app_assoc in I3. rewrite app_length in I3.
      rewrite I3. reflexivity.
Qed.
End Layer.

(* ---------- (E) the whole chain, (F) TranslateType / ReverseTranslate ---------- *)
Lemma mangler_eq_strcast m : m = MStrCast \/ m <> MStrCast.
Proof. destruct m; try (right; discriminate). left; reflexivity. Qed.

Definition sub_good (sub : mangler -> ty -> outcome (ty * xstate)) : Prop :=
  forall m ifs inm r', empty_ok m -> m <> MStrCast -> wf_fields ifs = true ->
    sub m (TStruct ifs inm) = Ok r' -> exists fs', fst r' = TStruct fs' [] /\ wf_fields fs' = true.

Lemma strcast_outs_not_struct f outs o : mangle MStrCast f = Ok outs -> In o outs ->
  forall ifs inm, sf_ty o <> TPtr (TStruct ifs inm).
Proof. simpl. intros H Hin. inversion H; subst. destruct Hin as [<-|[]]. discriminate. Qed.

Lemma sub_good_ok sub flat m f outs : sub_good sub -> stage_ok flat m -> mangle m f = Ok outs -> sub_ok sub m outs.
Proof.
  intros G [Ok1 _] Hm o ifs inm r' Hin T W S.
  destruct (mangler_eq_strcast m) as [->|Ne].
  - exfalso. eapply strcast_outs_not_struct; eauto.
  - eapply G; eauto.
Qed.

Lemma layers_nil sub E subrev flat ms lf lfk sts :
  sub_good sub -> chain_ok flat ms -> inv flat lf ->
  xlate_layers sub ms lf = Ok (lfk, sts) ->
  Forall (fun f => wf_sf f = true) lfk /\
  rev_layers E subrev (combine ms sts) (nil_fvs lfk) = Ok (nil_fvs lf).
Proof.
  intros G. revert flat lf lfk sts; induction ms as [|m r IH]; intros flat lf lfk sts Hc I H; simpl in H.
  - inversion H; subst. split; [apply I | reflexivity].
  - destruct Hc as [Hs Hc]. dob H a Ha. dob H b Hb. inversion H; subst. clear H.
    destruct a as [lf1 st1]. destruct b as [lf2 sts2]. simpl in *.
    destruct (layer_nil sub E subrev flat m lf lf1 st1) as [I1 R1]; auto.
    { intros f outs _ Hm. eapply sub_good_ok; eauto. }
    destruct (IH _ _ _ _ Hc I1 Hb) as [W2 R2].
    split; [exact W2|]. rewrite R2. cbn [obind]. exact (R1 []).
Qed.

Lemma assemble_cons o ofs f v r :
  assemble (o :: ofs) ((f, v) :: r) =
  (x <- (if negb (xexported (sf_name f)) then Ok (zero (sf_ty o))
         else if negb (convertible (fst v) (sf_ty o)) then Err 20
         else (c <- convert v (sf_ty o) ;; set_into (sf_ty o) c)) ;;
   rest <- assemble ofs r ;; Ok (x :: rest)).
Proof. reflexivity. Qed.

Lemma convert_nil t : wf_ty t = true -> convert (t, VNil) t = Ok (t, VNil).
Proof.
  intros W. unfold convert. rewrite convertible_refl. simpl.
  destruct t; simpl in W; try discriminate; reflexivity.
Qed.

Lemma assemble_nil lf : Forall (fun f => wf_sf f = true) lf ->
  assemble lf (nil_fvs lf) = Ok (map (fun _ => VNil) lf).
Proof.
  induction 1 as [|f r Wf _ IH]; [reflexivity|].
  destruct (wf_sf_parts f Wf) as (Wn & Wt & _).
  change (nil_fvs (f :: r)) with ((f, nilv f) :: nil_fvs r).
  rewrite assemble_cons. rewrite Wn. cbn [negb]. unfold nilv. cbn [fst].
  rewrite convertible_refl. cbn [negb]. rewrite convert_nil by exact Wt. cbn [obind].
  unfold set_into. cbn [fst snd]. rewrite assignable_refl. cbn [obind].
  rewrite IH. reflexivity.
Qed.

Lemma chain_empty_fuel : forall n flat ms fs nm tt x,
  chain_ok flat ms -> inv flat (unpack fs) ->
  translate n ms (TStruct fs nm) = Ok (tt, x) ->
  (exists lfk, tt = TStruct (pack lfk) [] /\ Forall (fun f => wf_sf f = true) lfk) /\
  forall E, reverse n E ms x (tt, VStruct (map (fun _ => VNil) (unpack_ty tt))) =
            Ok (TStruct fs nm, VStruct (map (fun _ => VNil) (unpack fs))).
Proof.
  induction n as [|n IHn]; intros flat ms fs nm tt x Hc Iv H; simpl in H; [discriminate|].
  dob H a Ha. dob H t' Ht. inversion H; subst. clear H. destruct a as [lfk sts]. simpl in *.
  assert (G : sub_good (fun m ft => translate n [m] ft)).
  { intros m ifs inm r' Em Ne Wi Sr. destruct r' as [t2 x2].
    destruct (IHn false [m] ifs inm t2 x2) as [(l2 & E2 & W2) _]; auto.
    - simpl. split; [| exact Logic.I]. split; [exact Em|]. destruct m; auto; congruence.
    - split; [now apply wf_fields_forall | discriminate].
    - exists (pack l2). split; [exact E2 | now apply wf_fields_pack]. }
  assert (Tt : tt = TStruct (pack lfk) []).
  { unfold struct_of in Ht.
    destruct (has_dup (map sf_name lfk)); [discriminate|].
    destruct (negb (is_nil_list ms) && existsb _ lfk); [discriminate|]. now inversion Ht. }
  subst tt. split.
  - exists lfk. split; [reflexivity|].
    eapply (layers_nil _ (Env (fun _ _ => Err 0) (fun _ _ => Err 0)) (fun _ _ _ => Err 0)); eauto.
  - intros E. cbn [reverse xs_layers xs_ty unpack_ty].
    assert (U : combine (unpack (pack lfk))
                  (combine (map sf_ty (unpack (pack lfk))) (map (fun _ : sfield => VNil) (unpack (pack lfk))))
                = nil_fvs lfk).
    { rewrite unpack_pack. unfold nil_fvs, nilv.
      clear. induction lfk as [|f r IH]; simpl; [reflexivity | now rewrite IH]. }
    rewrite U.
    destruct (layers_nil _ E (fun m sx sv => reverse n E [m] sx sv) flat ms (unpack fs) lfk sts G Hc Iv Ha) as [_ R].
    rewrite R. cbn [obind]. rewrite assemble_nil by apply Iv. reflexivity.
Qed.

Theorem chain_empty_l : forall fuel E ms fs nm tt x,
  chain_ok false ms -> wf_fields fs = true ->
  translate fuel ms (TStruct fs nm) = Ok (tt, x) ->
  reverse fuel E ms x (tt, VStruct (map (fun _ => VNil) (unpack_ty tt))) =
  Ok (TStruct fs nm, VStruct (map (fun _ => VNil) (unpack fs))).
Proof.
  intros fuel E ms fs nm tt x Hc W H.
  eapply (proj2 (chain_empty_fuel fuel false ms fs nm tt x Hc _ H)).
  Unshelve. split; [now apply wf_fields_forall | discriminate].
Qed.

(* the translated type of a well-formed type under an accepted chain is well-formed again *)
Theorem translate_keeps_wf : forall fuel ms fs nm tt x,
  chain_ok false ms -> wf_fields fs = true ->
  translate fuel ms (TStruct fs nm) = Ok (tt, x) ->
  exists fs', tt = TStruct fs' [] /\ wf_fields fs' = true.
Proof.
  intros fuel ms fs nm tt x Hc W H.
  destruct (proj1 (chain_empty_fuel fuel false ms fs nm tt x Hc
             (conj (proj1 (wf_fields_forall fs) W) (fun e : false = true => False_ind _ (Bool.diff_false_true e))) H))
    as (l & E1 & W1).
  exists (pack l). split; [exact E1 | now apply wf_fields_pack].
Qed.
