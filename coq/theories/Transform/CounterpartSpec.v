(* An independent, by-name SPECIFICATION of what ReverseTranslate must return
   (definitions only).  It is defined by recursion on the ORIGINAL type and
   finds the translated counterpart of every leaf by NAME in the translated
   struct (flattened name, field name, alias-copy name) - no offsets, no
   recorded state, no positional walk.

   Chains are summarised by their shape:
   * flat chains   [alias]? flatten (reformat | tagcopy)* [strcast]?      (env, flag, pflag)
   * nested chains [alias]? (subst | tagcopy | reformat | setslice)* [anonymous-flatten]?
                                                           (json/cue, yaml, toml, ez's wrap)
   For other chains there is no specification (None).

   Reading: the value of a field is the value found under its name; a field
   with an alias tag also has a copy under <name>_alias9wr876rw3 and is the
   one of the two that is set (both set: error); a struct is rebuilt field by
   field and is nil when nothing below it is set (flat chains) / when its
   translated counterpart is nil (nested chains); a string-cast leaf is
   parse.String of its text; a set is the set of the elements of its slice. *)
From Coq Require Import List NArith ZArith Bool.
From Dials Require Import Base.Outcome Base.Runes Reflect.Ty Transform.RType Transform.MAlias
  Transform.MFlatten Transform.MOthers Transform.Manglers.
Import ListNotations.
Open Scope N_scope.

Fixpoint assoc_s {A} (k : str) (l : list (str * A)) : option A :=
  match l with
  | [] => None
  | (k', v) :: r => if str_eqb k k' then Some v else assoc_s k r
  end.

(* a translated struct as a finite map name -> (type, value) *)
Definition named := list (str * tval).
Definition name_fields (tfs : fields) (vals : list val) : named :=
  combine (field_names tfs) (combine (map sf_ty (unpack tfs)) vals).

Definition no_spec : N := 253.   (* the translated value does not have the expected shape *)

Record shape := Shape {
  sh_alias : list str;       (* tags of the alias stage, [] if there is none *)
  sh_flat : option N;        (* Some name-encoder: the chain flattens *)
  sh_strcast : bool;
  sh_setslice : bool;
  sh_anon : bool
}.

Definition is_tagstage (m : mangler) : bool :=
  match m with MReformat _ _ _ | MTagCopy _ _ => true | _ => false end.
Definition is_midstage (m : mangler) : bool :=
  match m with MReformat _ _ _ | MTagCopy _ _ | MSubst _ _ | MSetSlice => true | _ => false end.
Definition is_setslice (m : mangler) : bool := match m with MSetSlice => true | _ => false end.

Fixpoint flat_tail (ms : list mangler) : option bool :=   (* Some strcast? *)
  match ms with
  | [] => Some false
  | [MStrCast] => Some true
  | m :: r => if is_tagstage m then flat_tail r else None
  end.

Fixpoint nested_tail (ms : list mangler) : option (bool * bool) :=   (* Some (setslice?, anon?) *)
  match ms with
  | [] => Some (false, false)
  | [MAnonFlatten] => Some (false, true)
  | m :: r =>
      if is_midstage m then
        match nested_tail r with
        | Some (s, a) => Some (s || is_setslice m, a)
        | None => None
        end
      else None
  end.

Definition shape_body (atags : list str) (ms : list mangler) : option shape :=
  match ms with
  | MFlatten _ ne _ :: r =>
      match flat_tail r with Some sc => Some (Shape atags (Some ne) sc false false) | None => None end
  | _ =>
      match nested_tail ms with Some (s, a) => Some (Shape atags None false s a) | None => None end
  end.

Definition shape_of (ms : list mangler) : option shape :=
  match ms with
  | MAlias tags :: r => shape_body tags r
  | _ => shape_body [] ms
  end.

Section Spec.
Variable E : env.
Variable sh : shape.

Definition aliased (tg : list (str * str)) : bool :=
  existsb (fun t => match tag_lookup (t ++ alias_sfx) tg with Some _ => true | None => false end) (sh_alias sh).

(* an aliased field: the one of its two values that is set *)
Definition pick (n : str) (t : ty) (vp va : val) : outcome val :=
  let zp := val_eqb vp (zero t) in
  let za := val_eqb va (zero t) in
  if negb zp && negb za then Err (alias_both_code n)
  else if negb zp then Ok vp else if negb za then Ok va else Ok vp.

Definition all_vnil (l : list val) : bool := forallb is_vnil l.

(* the values of the xexported fields (unexported ones are never translated,
   so they cannot make an embedded pointer "set") *)
Fixpoint exported_only (fs : fields) (vals : list val) : list val :=
  match fs, vals with
  | FCons n _ _ _ r, v :: vr => if xexported n then v :: exported_only r vr else exported_only r vr
  | _, _ => []
  end.

(* a set is the set of the elements written to its slice *)
Definition leaf_back (t : ty) (v : val) : outcome val :=
  if sh_setslice sh && is_set_ty t then
    match v with
    | VNil => Ok VNil
    | VList l => Ok (VMap (fold_left (fun acc x => set_add x acc) l []))
    | _ => Err no_spec
    end
  else Ok v.

(* ---------- nested chains: the translated value has the shape of the original ---------- *)
Fixpoint map_o {A B} (f : A -> outcome B) (l : list A) : outcome (list B) :=
  match l with
  | [] => Ok []
  | x :: r => a <- f x ;; b <- map_o f r ;; Ok (a :: b)
  end.

Definition elem_ty (t : ty) : ty :=
  match t with TPtr e | TSlice e _ | TArray _ e | TMap _ e _ => e | _ => TIface end.

(* the field called n (and its alias copy); `back` rebuilds a value of the field's type *)
Definition named_field (back : ty -> val -> outcome val) (n : str) (tg : list (str * str)) (t : ty)
  (env : named) : outcome val :=
  match assoc_s n env with
  | None => Err no_spec
  | Some (trp, vp) =>
      p <- back trp vp ;;
      if aliased tg then
        match assoc_s (n ++ alias_field_suffix) env with
        | None => Err no_spec
        | Some (tra, va) => a <- back tra va ;; pick n t p a
        end
      else Ok p
  end.

Fixpoint nspec_ty (t tr : ty) (v : val) {struct t} : outcome val :=
  match t with
  | TPtr e =>
      match e with
      | TStruct fs _ =>
          match tr, v with
          | _, VNil => Ok VNil
          | TPtr (TStruct tfs _), VPtr (VStruct vals) =>
              r <- nspec_fields fs (name_fields tfs vals) ;; Ok (VPtr (VStruct r))
          | _, _ => Err no_spec
          end
      | _ => leaf_back t v
      end
  | TStruct fs _ =>
      match tr, v with
      | TStruct tfs _, VStruct vals => r <- nspec_fields fs (name_fields tfs vals) ;; Ok (VStruct r)
      | _, _ => Err no_spec
      end
  | TSlice e _ | TArray _ e =>
      match e with
      | TStruct _ _ =>
          match v with
          | VNil => Ok VNil
          | VList l => r <- map_o (nspec_ty e (elem_ty tr)) l ;; Ok (VList r)
          | _ => Err no_spec
          end
      | _ => leaf_back t v
      end
  | _ => leaf_back t v
  end
with nspec_fields (fs : fields) (env : named) {struct fs} : outcome (list val) :=
  match fs with
  | FNil => Ok []
  | FCons n tg an t r =>
      x <- (if negb (xexported n) then Ok (zero t)
            else if sh_anon sh && an then
              (* an embedded struct: its fields are found in the enclosing struct *)
              match t with
              | TPtr (TStruct ifs _) =>
                  vals <- nspec_fields_in ifs env ;;
                  if all_vnil (exported_only ifs vals) then Ok VNil else Ok (VPtr (VStruct vals))
              | TStruct ifs _ => vals <- nspec_fields_in ifs env ;; Ok (VStruct vals)
              | _ => named_field (nspec_ty t) n tg t env
              end
            else named_field (nspec_ty t) n tg t env) ;;
      rest <- nspec_fields r env ;;
      Ok (x :: rest)
  end
(* the fields of an embedded struct, looked up in the enclosing namespace *)
with nspec_fields_in (fs : fields) (env : named) {struct fs} : outcome (list val) :=
  match fs with
  | FNil => Ok []
  | FCons n tg an t r =>
      x <- (if negb (xexported n) then Ok (zero t) else named_field (nspec_ty t) n tg t env) ;;
      rest <- nspec_fields_in r env ;;
      Ok (x :: rest)
  end.

(* ---------- flat chains: every leaf is found under its flattened name ---------- *)
Variable flat : named.
Variable nenc : N.

(* the value of a leaf of type t from the translated field's value *)
Definition fleaf (t tr : ty) (v : val) : outcome val :=
  if sh_strcast sh then
    match v with
    | VNil => Ok VNil
    | VPtr (VStr s) =>
        ct <- match t with TSlice _ _ | TMap _ _ _ => Ok t | _ => type_elem t end ;;
        r <- e_parse E s ct ;;
        (* converted back to the leaf's type; a value that cannot be is an error *)
        if convertible (fst r) t then Ok (snd r) else Err 20
    | _ => Err no_spec
    end
  else nspec_ty t tr v.

Definition fspec_leaf (names : list str) (t : ty) : outcome val :=
  match assoc_s (encode_by nenc names) flat with
  | Some (tr, v) => fleaf t tr v
  | None => Err no_spec
  end.

Fixpoint fspec_ty (names : list str) (t : ty) {struct t} : outcome val :=
  match t with
  | TPtr e =>
      match e with
      | TStruct fs _ =>
          vals <- fspec_fields names fs ;;
          if all_vnil vals then Ok VNil else Ok (VPtr (VStruct vals))
      | _ => fspec_leaf names t
      end
  | _ => fspec_leaf names t
  end
with fspec_fields (names : list str) (fs : fields) {struct fs} : outcome (list val) :=
  match fs with
  | FNil => Ok []
  | FCons n tg an t r =>
      x <- (if negb (xexported n) then Ok (zero t)
            else
              p <- fspec_ty (if an then names else names ++ [n]) t ;;
              if aliased tg then
                a <- fspec_ty (names ++ [n ++ alias_field_suffix]) t ;; pick n t p a
              else Ok p) ;;
      rest <- fspec_fields names r ;;
      Ok (x :: rest)
  end.
End Spec.

(* ---------- the specification ---------- *)
Definition counterpart_spec (E : env) (ms : list mangler) (t tr : ty) (filled : list val)
  : option (outcome tval) :=
  match shape_of ms, t, tr with
  | Some sh, TStruct fs _, TStruct tfs _ =>
      let env := name_fields tfs filled in
      Some (vals <- match sh_flat sh with
                    | Some ne => fspec_fields E sh env ne [] fs
                    | None => nspec_fields sh fs env
                    end ;;
            Ok (t, VStruct vals))
  | _, _, _ => None
  end.
