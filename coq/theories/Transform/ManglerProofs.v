(* Local (one field) losslessness of the one-to-one manglers: what Unmangle
   returns for the single value written to the field's translated
   counterpart, and that an unset counterpart gives an unset field. *)
From Coq Require Import List NArith ZArith Bool Lia.
From Dials Require Import Base.Outcome Base.Runes Reflect.Ty Text.CaseConv Transform.RType
  Transform.MAlias Transform.MFlatten Transform.MOthers Transform.Manglers.
Import ListNotations.
Local Open Scope nat_scope.

(* ---- every mangler except alias / flatten / anonymous-flatten maps a field to exactly one field ---- *)
Definition one_to_one (m : mangler) : bool :=
  match m with MAlias _ | MFlatten _ _ _ | MAnonFlatten => false | _ => true end.

Lemma one_to_one_arity m sf outs : one_to_one m = true -> mangle m sf = Ok outs ->
  exists o, outs = [o] /\ sf_name o = sf_name sf /\ sf_anon o = sf_anon sf.
Proof.
  destruct m; simpl; try discriminate; intros _ H.
  - unfold setslice_mangle in H. destruct (sf_ty sf); try (inversion H; eauto; fail).
    match type of H with context [if ?c then _ else _] => destruct c end; inversion H; eauto.
  - unfold subst_mangle in H. destruct (sub_type from to (sf_ty sf)) as [t' s]. destruct s; inversion H; eauto.
  - inversion H; eauto.
  - unfold textu_mangle in H. destruct (either_implements_tu (sf_ty sf)); inversion H; eauto.
  - unfold tagcopy_mangle in H.
    destruct (negb (nonempty_s (tag_get src (sf_tags sf)))); [inversion H; eauto|].
    destruct (nonempty_s (tag_get new (sf_tags sf))); inversion H; eauto.
  - unfold reformat_mangle in H.
    destruct (if nonempty_s (tag_get tag (sf_tags sf)) then _ else _); simpl in H; inversion H; eauto.
Qed.

(* ---- tag copy / tag reformat: the value is passed through unchanged ---- *)
Lemma tag_lossless sfo f v : kind_struct (fst v) = false -> tag_unmangle sfo [(f, v)] = Ok v.
Proof. intros H. unfold tag_unmangle. simpl. rewrite H. reflexivity. Qed.

Lemma tag_mangle_keeps_type_copy src new sf o : tagcopy_mangle src new sf = Ok [o] -> sf_ty o = sf_ty sf.
Proof.
  unfold tagcopy_mangle.
  destruct (negb (nonempty_s (tag_get src (sf_tags sf)))); [intros H; inversion H; reflexivity|].
  destruct (nonempty_s (tag_get new (sf_tags sf))); intros H; inversion H; reflexivity.
Qed.

Lemma tag_mangle_keeps_type_reformat tag d e sf o : reformat_mangle tag d e sf = Ok [o] -> sf_ty o = sf_ty sf.
Proof.
  unfold reformat_mangle.
  destruct (if nonempty_s (tag_get tag (sf_tags sf)) then _ else _); simpl; intros H; inversion H; reflexivity.
Qed.

(* an existing target tag is never overwritten by tag copy *)
Lemma tagcopy_existing_wins src new sf : nonempty_s (tag_get new (sf_tags sf)) = true ->
  tagcopy_mangle src new sf = Ok [sf].
Proof.
  intros H. unfold tagcopy_mangle. rewrite H. destruct (negb (nonempty_s (tag_get src (sf_tags sf)))); reflexivity.
Qed.

(* ---- string cast: unset stays unset; a text is what parse.String makes of it ---- *)
Lemma strcast_empty parse sf f :
  strcast_unmangle parse (Some sf) [(f, (str_ptr_ty, VNil))] = Ok (zero_tv (sf_ty sf)).
Proof. reflexivity. Qed.

Lemma strcast_lossless_ptr parse sf f s e : sf_ty sf = TPtr e ->
  strcast_unmangle parse (Some sf) [(f, (str_ptr_ty, VPtr (VStr s)))] = parse s e.
Proof. intros H. unfold strcast_unmangle. simpl. rewrite H. reflexivity. Qed.

Lemma strcast_lossless_slice parse sf f s e n : sf_ty sf = TSlice e n ->
  strcast_unmangle parse (Some sf) [(f, (str_ptr_ty, VPtr (VStr s)))] = parse s (TSlice e n).
Proof. intros H. unfold strcast_unmangle. simpl. rewrite H. reflexivity. Qed.

Lemma strcast_lossless_map parse sf f s k v n : sf_ty sf = TMap k v n ->
  strcast_unmangle parse (Some sf) [(f, (str_ptr_ty, VPtr (VStr s)))] = parse s (TMap k v n).
Proof. intros H. unfold strcast_unmangle. simpl. rewrite H. reflexivity. Qed.

(* ---- reflexivity of the boolean type equality ---- *)
Lemma tags_eqb_refl tg : tags_eqb tg tg = true.
Proof. induction tg as [|[a b] r IH]; simpl; auto. now rewrite !str_eqb_refl, IH. Qed.

Lemma kind_eqb_refl k : kind_eqb k k = true.
Proof. destruct k; simpl; auto using N.eqb_refl. Qed.

Lemma ty_fields_eqb_refl : (forall t, ty_eqb t t = true) /\ (forall fs, fields_eqb fs fs = true).
Proof.
  apply ty_fields_ind; simpl; intros;
    rewrite ?H, ?H0, ?str_eqb_refl, ?N.eqb_refl, ?Bool.eqb_reflx, ?kind_eqb_refl, ?tags_eqb_refl;
    reflexivity.
Qed.
Lemma ty_eqb_refl t : ty_eqb t t = true.
Proof. apply ty_fields_eqb_refl. Qed.

(* ---- set <-> slice ---- *)
Lemma setslice_other sf f v : is_set_ty (sf_ty sf) = false -> setslice_unmangle (Some sf) [(f, v)] = Ok v.
Proof. intros H. unfold setslice_unmangle. rewrite H. reflexivity. Qed.

Lemma setslice_empty sf f k n : sf_ty sf = TMap k empty_struct_ty n ->
  setslice_unmangle (Some sf) [(f, (TSlice k [], VNil))] = Ok (zero_tv (sf_ty sf)).
Proof.
  intros H. unfold setslice_unmangle, is_set_ty. rewrite H.
  assert (ty_eqb empty_struct_ty empty_struct_ty = true) as -> by reflexivity. simpl.
  rewrite ty_eqb_refl. reflexivity.
Qed.


(* ---- set <-> slice, non-empty slices: the set's members are exactly the
        elements written to the slice, each once ---- *)
From Dials Require Import Transform.ValEq.

Lemma set_add_in k kvs x : In x (map fst (set_add k kvs)) <-> x = k \/ In x (map fst kvs).
Proof.
  induction kvs as [|[k' v] r IH]; simpl.
  - intuition (subst; auto).
  - destruct (val_eqb k k') eqn:E; simpl.
    + apply val_eqb_eq in E. subst. intuition (subst; auto).
    + rewrite IH. intuition (subst; auto).
Qed.

Lemma set_add_nodup k kvs : NoDup (map fst kvs) -> NoDup (map fst (set_add k kvs)).
Proof.
  induction kvs as [|[k' v] r IH]; simpl; intros H.
  - constructor; [intros [] | constructor].
  - destruct (val_eqb k k') eqn:E; simpl; [exact H|].
    inversion H as [|? ? Hn Hr]; subst. constructor; [| now apply IH].
    rewrite set_add_in. intros [->|Hin]; [| contradiction].
    rewrite val_eqb_refl in E. discriminate.
Qed.

Lemma set_add_values k kvs : Forall (fun kv => snd kv = VStruct []) kvs ->
  Forall (fun kv => snd kv = VStruct []) (set_add k kvs).
Proof.
  induction 1 as [|[k' v] r Hv Hr IH]; simpl; [repeat constructor|].
  destruct (val_eqb k k'); constructor; auto.
Qed.

Lemma set_fold l : forall acc,
  NoDup (map fst acc) -> Forall (fun kv => snd kv = VStruct []) acc ->
  let res := fold_left (fun a x => set_add x a) l acc in
  (forall x, In x (map fst res) <-> In x l \/ In x (map fst acc)) /\
  NoDup (map fst res) /\ Forall (fun kv => snd kv = VStruct []) res.
Proof.
  induction l as [|y r IH]; intros acc Hn Hv; simpl.
  - split; [intros x0; tauto | split; assumption].
  - destruct (IH (set_add y acc) (set_add_nodup y acc Hn) (set_add_values y acc Hv)) as (I1 & I2 & I3).
    split; [| split; assumption]. intros x0. rewrite I1, set_add_in. intuition (subst; auto).
Qed.

Lemma setslice_elements sf f k n nm l : sf_ty sf = TMap k empty_struct_ty n ->
  exists kvs, setslice_unmangle (Some sf) [(f, (TSlice k nm, VList l))] = Ok (sf_ty sf, VMap kvs) /\
              (forall x, In x (map fst kvs) <-> In x l) /\
              NoDup (map fst kvs) /\ Forall (fun kv => snd kv = VStruct []) kvs.
Proof.
  intros H. unfold setslice_unmangle, is_set_ty. rewrite H.
  assert (ty_eqb empty_struct_ty empty_struct_ty = true) as -> by reflexivity. simpl.
  rewrite ty_eqb_refl. simpl.
  destruct (set_fold l [] (NoDup_nil _) (Forall_nil _)) as (S1 & S2 & S3).
  eexists. split; [reflexivity|]. repeat split; auto.
  - intros Hx. apply S1 in Hx. simpl in Hx. tauto.
  - intros Hx. apply S1. now left.
Qed.
