(* Non-vacuity: concrete instances of the hypotheses used in Properties/C10.v,
   C14.v and C20.v, evaluated by vm_compute. *)
From Coq Require Import String.
From Coq Require Import List NArith ZArith Bool.
From Dials Require Import Base.Outcome Base.Runes Reflect.Ty Reflect.Ptrify Transform.RType
  Transform.MAlias Transform.Manglers Transform.Transformer Transform.TransformerProofs
  Transform.AliasProofs.
Import ListNotations.
Open Scope N_scope.

Definition s (x : string) : str := s2r x.
Definition t_int : ty := TBasic (KInt 0) (s "int").
Definition t_level : ty := TBasic (KUint 8) (s "main.Level").

(* struct { Name string `dials:"nm" dialsalias:"old_nm"`; In struct { Port int; Lvl Level }; *Emb } with Emb = struct { X string } *)
Definition ex_raw : fields :=
  FCons (s "Name") [(s "dials", s "nm"); (s "dialsalias", s "old_nm")] false string_ty
  (FCons (s "In") [] false
     (TStruct (FCons (s "Port") [] false t_int (FCons (s "Lvl") [] false t_level FNil)) [])
  (FCons (s "Emb") [] true (TPtr (TStruct (FCons (s "X") [] false string_ty FNil) (s "main.Emb"))) FNil)).
Definition ex_t : ty := TStruct (ptrify_fields ex_raw) [].

Definition env_chain : list mangler :=
  [MAlias [s "dials"; s "dialsenv"]; MFlatten (s "dials") 0 0; MReformat (s "dials") 7 3;
   MTagCopy (s "dials") (s "dialsenv"); MStrCast].

(* a parse table for two texts *)
Definition ex_parse (x : str) (t : ty) : outcome tval :=
  if str_eqb x (s "8080") && ty_eqb t t_int then Ok (TPtr t_int, VPtr (VInt 8080))
  else if str_eqb x (s "3") && ty_eqb t t_level then Ok (TPtr (TBasic (KUint 8) (s "uint8")), VPtr (VInt 3))
  else if ty_eqb t string_ty then Ok (TPtr string_ty, VPtr (VStr x))
  else Err 1.
Definition ex_env : env := Env ex_parse (fun _ x => Ok (VText x)).

Definition ex_tr := translate (fuel_for ex_t) env_chain ex_t.

(* the env chain translates the nested, aliased, embedding type into 5 string fields *)
Example ex_translated_names :
  omap (fun r => map sf_name (unpack_ty (fst r))) ex_tr =
  Ok [s "Name"; s "Name_alias9wr876rw3"; s "InPort"; s "InLvl"; s "X"].
Proof. vm_compute. reflexivity. Qed.

Example ex_translated_env_tags :
  omap (fun r => map (fun f => tag_get (s "dialsenv") (sf_tags f)) (unpack_ty (fst r))) ex_tr =
  Ok [s "NM"; s "OLD_NM"; s "IN_PORT"; s "IN_LVL"; s "X"].
Proof. vm_compute. reflexivity. Qed.

Definition ex_reverse (filled : list val) : outcome tval :=
  r <- ex_tr ;; reverse (fuel_for ex_t) ex_env env_chain (snd r) (fst r, VStruct filled).

Definition sp (x : string) : val := VPtr (VStr (s x)).

(* alias name only + a nested named scalar + nothing for the embedded struct *)
Example ex_lossless :
  ex_reverse [VNil; sp "bob"; sp "8080"; sp "3"; VNil] =
  Ok (ex_t, VStruct [VPtr (VStr (s "bob")); VPtr (VStruct [VPtr (VInt 8080); VPtr (VInt 3)]); VNil]).
Proof. vm_compute. reflexivity. Qed.

(* nothing set: nothing allocated *)
Example ex_empty :
  ex_reverse [VNil; VNil; VNil; VNil; VNil] = Ok (ex_t, VStruct [VNil; VNil; VNil]).
Proof. vm_compute. reflexivity. Qed.

(* both names: an error whose class names the field *)
Example ex_both :
  omap (fun _ => tt) (ex_reverse [sp "al"; sp "bob"; VNil; VNil; VNil]) = Err (alias_both_code (s "Name")) /\
  alias_err_name (alias_both_code (s "Name")) = Some (s "Name").
Proof. vm_compute. split; reflexivity. Qed.

(* a text that does not parse is an error, not a value *)
Example ex_bad_text : ex_reverse [VNil; VNil; sp "80x"; VNil; VNil] = Err 1.
Proof. vm_compute. reflexivity. Qed.

(* the hypotheses of offsets_partition hold for the first stage of this chain *)
Example ex_offsets_hyp :
  exists lf' st, xlate_layer (fun m ft => translate 4 [m] ft) (MAlias [s "dials"; s "dialsenv"])
                   (unpack_ty ex_t) = Ok (lf', st) /\ map arity st = [2; 1; 1]%nat.
Proof. eexists. eexists. split; [vm_compute; reflexivity | reflexivity]. Qed.

(* the shipped chains are accepted by chain_empty / translate_keeps_wf *)
From Dials Require Import Transform.WellFormed.
Definition t_dur : ty := TBasic (KInt 64) (s "time.Duration").
Definition t_pdur : ty := TBasic (KInt 64) (s "jsontypes.ParsingDuration").
Example env_chain_ok : chain_ok false env_chain.
Proof. simpl. unfold stage_ok. simpl. intuition. Qed.
Example flag_chain_ok : chain_ok false [MAlias [s "dials"; s "dialsflag"]; MFlatten (s "dials") 0 4].
Proof. simpl. unfold stage_ok. simpl. intuition. Qed.
Example pflag_chain_ok :
  chain_ok false [MAlias [s "dials"; s "dialspflag"; s "dialspflagshort"]; MFlatten (s "dials") 0 4].
Proof. simpl. unfold stage_ok. simpl. intuition. Qed.
Example json_chain_ok : chain_ok false [MSubst t_dur t_pdur; MTagCopy (s "dials") (s "json")].
Proof. simpl. unfold stage_ok. simpl. intuition. Qed.
Example yaml_chain_ok : chain_ok false [MTagCopy (s "dials") (s "yaml"); MAnonFlatten].
Proof. simpl. unfold stage_ok. simpl. intuition. Qed.
Example ez_chain_ok : chain_ok false [MAlias [s "dials"]; MReformat (s "dials") 6 2; MSetSlice].
Proof. simpl. unfold stage_ok. simpl. intuition. Qed.
Example ex_type_wf : wf_fields (ptrify_fields ex_raw) = true.
Proof. reflexivity. Qed.

(* the hypotheses of flag_chain_lossless / env_chain_lossless are satisfiable:
   the example type is simple and has no alias on an embedded field, and the env
   chain has the shape the theorem speaks about *)
From Dials Require Import Transform.CounterpartSpec Transform.AliasSpecProofs Transform.EnvChainProofs.
Example ex_type_simple : simple_fields (ptrify_fields ex_raw) = true.
Proof. reflexivity. Qed.
Example ex_type_alias_ok : alias_ok_fields [s "dials"; s "dialsenv"] (ptrify_fields ex_raw) = true.
Proof. reflexivity. Qed.
Example env_chain_shape :
  env_chain = MAlias [s "dials"; s "dialsenv"] :: MFlatten (s "dials") 0 0 ::
              [MReformat (s "dials") 7 3; MTagCopy (s "dials") (s "dialsenv")] ++ [MStrCast] /\
  Forall (fun m => is_tagstage m = true) [MReformat (s "dials") 7 3; MTagCopy (s "dials") (s "dialsenv")].
Proof. split; [reflexivity | repeat constructor]. Qed.
(* and the specification computes the same as the model on the example of above *)
Example ex_spec_agrees :
  omap (fun r => counterpart_spec ex_env env_chain ex_t (fst r) [VNil; sp "bob"; sp "8080"; sp "3"; VNil]) ex_tr =
  Ok (Some (ex_reverse [VNil; sp "bob"; sp "8080"; sp "3"; VNil])).
Proof. vm_compute. reflexivity. Qed.
