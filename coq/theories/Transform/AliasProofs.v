(* Proofs about the alias mangler (Transform/MAlias.v) and about how the
   transformer applies it field by field (used by Properties/C14.v, C10.v). *)
From Coq Require Import List NArith ZArith Bool Lia PeanoNat.
From Dials Require Import Base.Outcome Base.Runes Reflect.Ty Transform.RType Transform.MAlias
  Transform.Manglers Transform.Transformer Transform.TransformerProofs.
Import ListNotations.
Local Open Scope nat_scope.

(* ---------- Mangle: one field, or the field and its alias copy ---------- *)
Lemma alias_mangle_shape tags sf outs : alias_mangle tags sf = Ok outs ->
  outs = [sf] \/
  exists t1 t2, outs = [SF (sf_name sf) t1 (sf_anon sf) (sf_ty sf);
                        SF (sf_name sf ++ alias_field_suffix) t2 (sf_anon sf) (sf_ty sf)].
Proof.
  unfold alias_mangle. destruct (alias_scan tags (sf_tags sf)) as [[origs als] sft'].
  destruct als; intros H; inversion H; [left; reflexivity | right; eauto].
Qed.

Lemma alias_mangle_total tags sf : exists outs, alias_mangle tags sf = Ok outs.
Proof.
  unfold alias_mangle. destruct (alias_scan tags (sf_tags sf)) as [[origs als] sft'].
  destruct als; eauto.
Qed.

(* ---------- Unmangle on the two values of an aliased field ---------- *)
Section Local.
Variables (sfo : option sfield) (fp fa : sfield) (up ua : tval).

Lemma alias_primary_only :
  go_is_zero up = false -> go_is_zero ua = true ->
  alias_unmangle sfo [(fp, up); (fa, ua)] = Ok up.
Proof. intros H1 H2. simpl. rewrite H1, H2. reflexivity. Qed.

Lemma alias_alias_only :
  go_is_zero up = true -> go_is_zero ua = false ->
  alias_unmangle sfo [(fp, up); (fa, ua)] = Ok ua.
Proof. intros H1 H2. simpl. rewrite H1, H2. reflexivity. Qed.

Lemma alias_neither :
  go_is_zero up = true -> go_is_zero ua = true ->
  alias_unmangle sfo [(fp, up); (fa, ua)] = Ok up.
Proof. intros H1 H2. simpl. rewrite H1, H2. reflexivity. Qed.

Lemma alias_both :
  go_is_zero up = false -> go_is_zero ua = false ->
  alias_unmangle sfo [(fp, up); (fa, ua)] = Err (alias_both_code (sfo_name sfo)).
Proof. intros H1 H2. simpl. rewrite H1, H2. reflexivity. Qed.
End Local.

Lemma alias_unaliased sfo f u : alias_unmangle sfo [(f, u)] = Ok u.
Proof. reflexivity. Qed.

(* alias never panics, whatever it is given *)
Lemma alias_unmangle_no_panic sfo fvs : is_panic (alias_unmangle sfo fvs) = false.
Proof.
  destruct fvs as [|[f0 v0] [|[f1 v1] [|x r]]]; simpl; try reflexivity.
  destruct (go_is_zero v0), (go_is_zero v1); reflexivity.
Qed.

(* ---------- the error class determines the field name ---------- *)
Definition rune_ok (c : N) : Prop := (c < 2097151)%N.

Lemma code_str_inv (s : str) (fuel : nat) :
  Forall rune_ok s -> length s < fuel -> code_str fuel (str_code s) = s.
Proof.
  revert fuel; induction s as [|c r IH]; intros fuel Hok Hl.
  - destruct fuel; reflexivity.
  - destruct fuel as [|f]; [simpl in Hl; lia|]. cbn [length] in Hl.
    inversion Hok as [|? ? Hc Hr]; subst. unfold rune_ok in Hc.
    cbn [code_str str_code].
    assert (E0 : (1 + c + 2097152 * str_code r =? 0)%N = false) by (apply N.eqb_neq; lia).
    rewrite E0.
    replace (1 + c + 2097152 * str_code r - 1)%N with (c + str_code r * 2097152)%N by lia.
    rewrite N.mod_add by lia. rewrite N.div_add by lia.
    rewrite N.mod_small by lia. rewrite N.div_small by lia. rewrite N.add_0_l.
    rewrite IH by (auto; lia). reflexivity.
Qed.

Lemma alias_err_names name : Forall rune_ok name -> length name < 200 ->
  alias_err_name (alias_both_code name) = Some name.
Proof.
  intros Hok Hl. unfold alias_err_name, alias_both_code.
  assert (E0 : (alias_both_base + str_code name <? alias_both_base)%N = false) by (apply N.ltb_ge; lia).
  rewrite E0. f_equal.
  replace (alias_both_base + str_code name - alias_both_base)%N with (str_code name) by lia.
  apply code_str_inv; assumption.
Qed.

Lemma alias_both_code_inj a b : Forall rune_ok a -> Forall rune_ok b ->
  length a < 200 -> length b < 200 -> alias_both_code a = alias_both_code b -> a = b.
Proof.
  intros Ha Hb La Lb H.
  assert (Some a = Some b) as X; [| now inversion X].
  rewrite <- (alias_err_names a Ha La), <- (alias_err_names b Hb Lb). now rewrite H.
Qed.

(* ---------- the layer loop is pointwise ---------- *)
Section Pointwise.
Variable E : env.
Variable subrev : mangler -> xstate -> tval -> outcome tval.
Variable m : mangler.

Definition skipped (e : melem) : bool := negb (xexported (sfo_name (me_in e))).

(* out is what the loop produces from the groups, field by field *)
Inductive groups_rel : list melem -> list (list fvt) -> list fvt -> Prop :=
| GR_nil : groups_rel [] [] []
| GR_skip e r g gr o : skipped e = true -> groups_rel r gr o ->
    groups_rel (e :: r) (g :: gr) ((zero_sf, (TIface, VNil)) :: o)
| GR_cons e r g gr o v : skipped e = false -> unmangle_field E subrev m e g = Ok v ->
    groups_rel r gr o -> groups_rel (e :: r) (g :: gr) ((sfo_or_zero (me_in e), v) :: o).

Lemma rev_groups_ok elems gs out : length gs = length elems ->
  (rev_groups E subrev m elems gs = Ok out <-> groups_rel elems gs out).
Proof.
  revert gs out; induction elems as [|e r IH]; intros gs out Hl.
  - destruct gs; [| discriminate]. simpl. split; intros H.
    + inversion H. constructor.
    + inversion H. reflexivity.
  - destruct gs as [|g gr]; [discriminate|]. simpl in Hl. injection Hl as Hl.
    simpl. fold (skipped e). destruct (skipped e) eqn:Sk.
    + split; intros H.
      * destruct (rev_groups E subrev m r gr) as [rest| |] eqn:R; simpl in H; try discriminate.
        inversion H; subst. apply GR_skip; [assumption|]. apply IH; assumption.
      * inversion H; subst; [| congruence].
        match goal with X : groups_rel r gr _ |- _ => apply IH in X; [rewrite X | assumption] end.
        reflexivity.
    + split; intros H.
      * destruct (unmangle_field E subrev m e g) as [nv| |] eqn:U; simpl in H; try discriminate.
        destruct (rev_groups E subrev m r gr) as [rest| |] eqn:R; simpl in H; try discriminate.
        inversion H; subst. apply GR_cons; [assumption | assumption |]. apply IH; assumption.
      * inversion H; subst; [congruence|].
        match goal with X : unmangle_field _ _ _ _ _ = Ok _ |- _ => rewrite X end. simpl.
        match goal with X : groups_rel r gr _ |- _ => apply IH in X; [rewrite X | assumption] end.
        reflexivity.
Qed.

(* the first field whose unmangling fails decides the outcome of the layer,
   with its own error class: later fields cannot mask it, earlier fields only
   by failing themselves *)
Lemma rev_groups_first_failure pre e post gpre g gpost opre c :
  groups_rel pre gpre opre -> skipped e = false ->
  unmangle_field E subrev m e g = Err c ->
  rev_groups E subrev m (pre ++ e :: post) (gpre ++ g :: gpost) = Err c.
Proof.
  intros Hpre Sk U. induction Hpre; simpl.
  - fold (skipped e). rewrite Sk. rewrite U. reflexivity.
  - fold (skipped e0). rewrite H. rewrite IHHpre. reflexivity.
  - fold (skipped e0). rewrite H. rewrite H0. simpl. rewrite IHHpre. reflexivity.
Qed.
End Pointwise.
