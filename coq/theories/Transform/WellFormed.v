(* The types and chains the C10 theorems quantify over (definitions only):
   wf_fields = the shape Pointerify produces (every field xexported and
   nil-able: a pointer to a pointerified struct, a pointer to a non-pointer
   leaf, a slice, a map or an interface; embedded fields are pointers to
   structs); empty_ok = the manglers covered by chain_empty. *)
From Coq Require Import List NArith ZArith Bool.
From Dials Require Import Base.Outcome Base.Runes Reflect.Ty Transform.RType Transform.Manglers.
Import ListNotations.
Open Scope N_scope.

Definition is_struct_ptr (t : ty) : bool :=
  match t with TPtr (TStruct _ _) => true | _ => false end.

Fixpoint wf_ty (t : ty) : bool :=
  match t with
  | TPtr (TStruct fs _) => wf_fields fs
  | TPtr (TPtr _) => false
  | TPtr _ | TSlice _ _ | TMap _ _ _ | TIface => true
  | _ => false
  end
with wf_fields (fs : fields) : bool :=
  match fs with
  | FNil => true
  | FCons n _ an t r =>
      xexported n && wf_ty t && (if an then is_struct_ptr t else true) && wf_fields r
  end.

Definition wf_sf (f : sfield) : bool :=
  xexported (sf_name f) && wf_ty (sf_ty f) && (if sf_anon f then is_struct_ptr (sf_ty f) else true).

Definition is_basic (t : ty) : bool := match t with TBasic _ _ => true | _ => false end.

(* flatten with the UpperCamel field-name encoder (every shipped chain);
   substitution between scalar types; no text-unmarshaler stage *)
Definition empty_ok (m : mangler) : Prop :=
  match m with
  | MFlatten _ ne _ => ne = 0
  | MSubst from to => is_basic from = true /\ is_basic to = true
  | MTextU => False
  | _ => True
  end.

Definition is_flat (m : mangler) : bool := match m with MFlatten _ _ _ => true | _ => false end.

(* a string-cast stage must come after a flatten stage (as in every shipped
   chain): it turns embedded struct fields into embedded *string fields, which
   later flattening stages cannot name *)
Definition stage_ok (flat : bool) (m : mangler) : Prop :=
  empty_ok m /\ match m with MStrCast => flat = true | _ => True end.

Fixpoint chain_ok (flat : bool) (ms : list mangler) : Prop :=
  match ms with
  | [] => True
  | m :: r => stage_ok flat m /\ chain_ok (flat || is_flat m) r
  end.

(* ---- the types the by-name specification theorems quantify over: pointerified
   shape whose leaves are scalars, pointers, maps and slices/arrays of
   non-struct elements (no interface leaves, no slices of structs) ---- *)
Definition leaf_ok (t : ty) : bool :=
  match t with
  | TPtr (TStruct _ _) | TPtr (TPtr _) => false
  | TPtr _ | TMap _ _ _ => true
  | TSlice e _ => negb (kind_struct e)
  | _ => false
  end.

Fixpoint simple_ty (t : ty) : bool :=
  match t with
  | TPtr (TStruct fs _) => simple_fields fs
  | _ => leaf_ok t
  end
with simple_fields (fs : fields) : bool :=
  match fs with
  | FNil => true
  | FCons _ _ _ t r => simple_ty t && simple_fields r
  end.
