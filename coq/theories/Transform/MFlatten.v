(* Model of /repo/transform/flatten_mangler.go: Mangle / flattenStruct /
   getTag and Unmangle / populateStruct.  Both walks share the depth-first
   field order; populateStruct allocates a parent only if a child is set. *)
From Coq Require Import String.
From Coq Require Import List NArith ZArith Bool.
From Dials Require Import Base.Outcome Base.Runes Reflect.Ty Text.CaseConv Transform.RType.
Import ListNotations.
Open Scope N_scope.

Definition dialsfieldpath : str := s2r "dialsfieldpath"%string.

(* caseconversion encoders / decoders by number *)
Definition encode_by (e : N) : list str -> str :=
  match e with
  | 0 => encode_upper_camel | 1 => encode_lower_camel | 2 => encode_lower_snake
  | 3 => encode_upper_snake | 4 => encode_kebab | _ => encode_cp_snake
  end.
Definition decode_by (d : N) : str -> outcome (list str) :=
  match d with
  | 0 => decode_upper_camel | 1 => decode_lower_camel | 2 => decode_lower_snake
  | 3 => decode_upper_snake | 4 => decode_kebab | 5 => decode_cp_snake
  | 6 => decode_go_camel | _ => decode_go_tags
  end.

Section Flatten.
Variables (tag : str) (nenc tenc : N).

(* getTag: the new struct tag of the field and the extended tag-word prefix *)
Definition fl_get_tag (n : str) (tg : tags) (an : bool) (prefix path : list str)
  : outcome (tags * list str) :=
  tgs <- match tag_lookup tag tg with
         | Some v => Ok (prefix ++ [v])
         | None => if an then Ok prefix else (ws <- decode_go_camel n ;; Ok (prefix ++ ws))
         end ;;
  Ok (tag_set dialsfieldpath (join_s [comma] path) (tag_set tag (encode_by tenc tgs) tg), tgs).

(* getUnderlyingKindType(t) is a struct that is not a TextUnmarshaler *)
Fixpoint under_is_struct (t : ty) : bool :=
  match t with TPtr e => under_is_struct e | TStruct _ _ => true | _ => false end.

(* flattenStruct; `full` is the field's declared type, `t` walks through its pointers *)
Fixpoint fl_ty (names tgs path : list str) (full : ty) (newtag : tags) (t : ty) {struct t}
  : outcome (list sfield) :=
  match t with
  | TPtr e => fl_ty names tgs path full newtag e
  | TStruct fs _ => fl_fields names tgs path fs
  | _ => Ok [SF (encode_by nenc names) newtag false full]
  end
with fl_fields (names tgs path : list str) (fs : fields) {struct fs} : outcome (list sfield) :=
  match fs with
  | FNil => Ok []
  | FCons n tg an t r =>
      let names' := if an then names else names ++ [n] in
      let path' := path ++ [n] in
      nt <- fl_get_tag n tg an tgs path' ;;
      a <- fl_ty names' (snd nt) path' t (fst nt) t ;;
      b <- fl_fields names tgs path r ;;
      Ok (a ++ b)
  end.

Definition flatten_mangle (sf : sfield) : outcome (list sfield) :=
  match sf_ty sf with
  | TPtr _ | TMap _ _ _ | TSlice _ _ | TIface =>
      nt <- fl_get_tag (sf_name sf) (sf_tags sf) (sf_anon sf) [] [sf_name sf] ;;
      if under_is_struct (sf_ty sf) then
        fl_ty (if sf_anon sf then [] else [sf_name sf]) (snd nt) [sf_name sf] (sf_ty sf) (fst nt) (sf_ty sf)
      else Ok [SF (encode_by nenc [sf_name sf]) (fst nt) false (sf_ty sf)]
  | _ => Err 1
  end.

End Flatten.

(* populateStruct.  Result: the value of the slot of type `full` (zero when
   nothing below it was set), the values not yet consumed (inputIndex), and
   anyChildSet. *)
Fixpoint pop_ty (full : ty) (t : ty) (vs : list tval) {struct t} : outcome (val * list tval * bool) :=
  match t with
  | TPtr e => pop_ty full e vs
  | TStruct fs _ =>
      r <- pop_fields fs vs ;;
      let '(fvals, rest, any) := r in
      if any then
        (if assignable (TPtr t) full then Ok (VPtr (VStruct fvals), rest, true) else Panic 3)
      else Ok (zero full, rest, false)
  | _ =>
      match vs with
      | [] => Panic 2
      | v :: rest =>
          a <- assign_or_convert v full ;;
          match a with
          | None => Err 2
          | Some v' => if soft_is_nil v' then Ok (zero full, rest, false) else Ok (snd v', rest, true)
          end
      end
  end
with pop_fields (fs : fields) (vs : list tval) {struct fs} : outcome (list val * list tval * bool) :=
  match fs with
  | FNil => Ok ([], vs, false)
  | FCons n _ _ t r =>
      a <- (if negb (xexported n) then Err 4
            else if under_is_struct t then pop_ty t t vs
            else match vs with
                 | [] => Panic 2
                 | v :: rest =>
                     c <- assign_or_convert v t ;;
                     match c with
                     | None => Err 2
                     | Some v' => if soft_is_nil v' then Ok (zero t, rest, false) else Ok (snd v', rest, true)
                     end
                 end) ;;
      let '(x, vs', any1) := a in
      b <- pop_fields r vs' ;;
      let '(xs, vs'', any2) := b in
      Ok (x :: xs, vs'', any1 || any2)
  end.

Definition flatten_unmangle (sfo : option sfield) (fvs : list fvt) : outcome tval :=
  match sfo with
  | None => Panic 11
  | Some sf =>
      r <- pop_ty (sf_ty sf) (sf_ty sf) (map snd fvs) ;;
      let '(x, rest, _) := r in
      match rest with [] => Ok (sf_ty sf, x) | _ :: _ => Err 3 end
  end.
