From Coq Require Import List NArith ZArith Bool.
From Dials Require Import Base.Outcome Base.Runes Reflect.Ty Reflect.Ptrify Stack.Overlay
  Transform.RType Transform.Manglers Transform.Transformer Transform.TransformingSource.
Import ListNotations.
Open Scope N_scope.

Section P.
Variables (fuel : nat) (E : env) (ms : list mangler) (verify : list val -> bool).

(* Value: translate, inner, reverse *)
Lemma ts_value_transparent t inner ttr x v' :
  translate fuel ms t = Ok (ttr, x) -> inner ttr = Ok v' ->
  ts_value fuel E ms t inner = reverse fuel E ms x v'.
Proof. intros H1 H2. unfold ts_value. rewrite H1. simpl. rewrite H2. reflexivity. Qed.

(* the Dials built on the wrapped source starts exactly as one built on a
   native source that returns the unmangled value *)
Lemma ts_config_transparent fs defaults t inner ttr x v' :
  translate fuel ms t = Ok (ttr, x) -> inner ttr = Ok v' ->
  dials_config fs defaults verify (ts_value fuel E ms t inner) =
  dials_config fs defaults verify (reverse fuel E ms x v').
Proof. intros H1 H2. now rewrite (ts_value_transparent t inner ttr x v' H1 H2). Qed.

(* every report of the wrapped watcher is the report of a native source for
   the reverse-translated value; an un-reversible value becomes an error *)
Lemma wrapped_is_native x vs :
  wrapped_reports fuel E ms x vs = native_reports (map (reverse fuel E ms x) vs).
Proof.
  induction vs as [|v r IH]; simpl; [reflexivity|].
  unfold ts_report. destruct (reverse fuel E ms x v) as [u|c|p]; simpl; try rewrite IH; reflexivity.
Qed.

(* hence the monitor goes through the same states, step for step *)
Lemma updates_transparent fs defaults s x vs :
  (rs <- wrapped_reports fuel E ms x vs ;; dials_run fs defaults verify s rs) =
  (rs <- native_reports (map (reverse fuel E ms x) vs) ;; dials_run fs defaults verify s rs).
Proof. now rewrite wrapped_is_native. Qed.

(* an un-reversible value is never forwarded: it is an error event and the view stays *)
Lemma unreversible_not_forwarded fs defaults s x v c :
  reverse fuel E ms x v = Err c ->
  (r <- ts_report fuel E ms x v ;; dials_step fs defaults verify s r) = Ok (DS (d_view s) (d_errors s + 1)).
Proof. intros H. unfold ts_report. rewrite H. reflexivity. Qed.

Lemma reversible_is_forwarded fs defaults s x v u :
  reverse fuel E ms x v = Ok u ->
  (r <- ts_report fuel E ms x v ;; dials_step fs defaults verify s r) = dials_step fs defaults verify s (RValue u).
Proof. intros H. unfold ts_report. rewrite H. reflexivity. Qed.

(* errors are propagated, never swallowed *)
Lemma value_translate_error t inner c :
  translate fuel ms t = Err c -> ts_value fuel E ms t inner = Err c.
Proof. intros H. unfold ts_value. now rewrite H. Qed.

Lemma value_inner_error t inner ttr x c :
  translate fuel ms t = Ok (ttr, x) -> inner ttr = Err c -> ts_value fuel E ms t inner = Err c.
Proof. intros H1 H2. unfold ts_value. rewrite H1. simpl. now rewrite H2. Qed.

Lemma value_reverse_error t inner ttr x v' c :
  translate fuel ms t = Ok (ttr, x) -> inner ttr = Ok v' -> reverse fuel E ms x v' = Err c ->
  ts_value fuel E ms t inner = Err c.
Proof. intros H1 H2 H3. rewrite (ts_value_transparent t inner ttr x v' H1 H2). exact H3. Qed.

Lemma watch_inner_error t iw ttr x c :
  translate fuel ms t = Ok (ttr, x) -> iw ttr = Err c -> ts_watch fuel ms t iw = Err c.
Proof. intros H1 H2. unfold ts_watch. rewrite H1. simpl. now rewrite H2. Qed.

Lemma watch_translate_error t iw c :
  translate fuel ms t = Err c -> ts_watch fuel ms t iw = Err c.
Proof. intros H. unfold ts_watch. now rewrite H. Qed.

Lemma config_error_propagates fs defaults first c :
  first = Err c -> dials_config fs defaults verify first = Err c.
Proof. intros ->. reflexivity. Qed.
(* ---- the return value of the wrapped report methods ---- *)

(* a reversible value: the wrapped (Blocking)ReportNewValue behaves, state and
   return value, exactly like the native method of the same name on the
   reverse-translated value *)
Lemma report_ret_is_native x blocking fs defaults s v u :
  reverse fuel E ms x v = Ok u ->
  ts_report_ret fuel E ms x blocking fs defaults verify s v =
  native_report_ret blocking fs defaults verify s u.
Proof. intros H. unfold ts_report_ret. now rewrite H. Qed.

(* the blocking report returns the verdict of its own re-stack: nil means the
   view now is the stack of the defaults with exactly this (reverse-translated)
   value and it passed Verify; an error means nothing was installed and one
   error event was emitted *)
Lemma blocking_verdict x fs defaults s v u s' ret :
  reverse fuel E ms x v = Ok u ->
  ts_report_ret fuel E ms x true fs defaults verify s v = Ok (s', ret) ->
  (ret = false -> compose fs defaults [snd u] = Ok (d_view s') /\ verify (d_view s') = true /\
                  d_errors s' = d_errors s) /\
  (ret = true -> d_view s' = d_view s /\ d_errors s' = (d_errors s + 1)%N /\
                 (forall view, compose fs defaults [snd u] = Ok view -> verify view = false)).
Proof.
  intros H R. rewrite (report_ret_is_native x true fs defaults s v u H) in R.
  unfold native_report_ret, restack in R.
  destruct (compose fs defaults [snd u]) as [view|c|p] eqn:C; simpl in R; try discriminate.
  - destruct (verify view) eqn:V; simpl in R; inversion R; subst; simpl; split; intros X; try discriminate.
    + auto.
    + repeat split; auto. intros view' Hv. inversion Hv; subst. exact V.
  - inversion R; subst. simpl. split; intros X; try discriminate. repeat split; auto. intros view Hv. discriminate.
Qed.

(* the non-blocking report of a reversible value returns nil whatever the re-stack does *)
Lemma nonblocking_returns_nil x fs defaults s v u s' ret :
  reverse fuel E ms x v = Ok u ->
  ts_report_ret fuel E ms x false fs defaults verify s v = Ok (s', ret) -> ret = false.
Proof.
  intros H R. rewrite (report_ret_is_native x false fs defaults s v u H) in R.
  unfold native_report_ret in R. destruct (restack fs defaults verify s (snd u)) as [a| |]; simpl in R; inversion R. reflexivity.
Qed.

(* an un-reversible value: both variants return an error, the view stays, one error event *)
Lemma unreversible_returns_error x blocking fs defaults s v c :
  reverse fuel E ms x v = Err c ->
  ts_report_ret fuel E ms x blocking fs defaults verify s v = Ok (DS (d_view s) (d_errors s + 1), true).
Proof. intros H. unfold ts_report_ret. now rewrite H. Qed.

(* the state reached is the one dials_step reaches for the forwarded report *)
Lemma report_ret_state x blocking fs defaults s v :
  omap fst (ts_report_ret fuel E ms x blocking fs defaults verify s v) =
  (r <- ts_report fuel E ms x v ;; dials_step fs defaults verify s r).
Proof.
  unfold ts_report_ret, ts_report. destruct (reverse fuel E ms x v) as [u|c|p]; simpl; try reflexivity.
  unfold native_report_ret. destruct u as [ut uv]. simpl.
  destruct (restack fs defaults verify s uv) as [a| |]; reflexivity.
Qed.
End P.
