From Coq Require Import List NArith ZArith Bool.
From Dials Require Import Base.Outcome Base.Runes Reflect.Ty Reflect.Ptrify Stack.Overlay
  Transform.RType Transform.Manglers Transform.Transformer Transform.TransformingSource.
Import ListNotations.
Open Scope N_scope.

Section P.
Variables (fuel : nat) (E : env) (ms : list mangler).

(* Value: translate, inner, reverse *)
Lemma ts_value_transparent t inner ttr x v' :
  translate fuel ms t = Ok (ttr, x) -> inner ttr = Ok v' ->
  ts_value fuel E ms t inner = reverse fuel E ms x v'.
Proof. intros H1 H2. unfold ts_value. rewrite H1. simpl. rewrite H2. reflexivity. Qed.

(* the Dials built on the wrapped source starts exactly as one built on a
   native source that returns the unmangled value *)
Lemma ts_config_transparent fs defaults t inner ttr x v' :
  translate fuel ms t = Ok (ttr, x) -> inner ttr = Ok v' ->
  dials_config fs defaults (ts_value fuel E ms t inner) =
  dials_config fs defaults (reverse fuel E ms x v').
Proof. intros H1 H2. now rewrite (ts_value_transparent t inner ttr x v' H1 H2). Qed.

(* every report of the wrapped watcher is the report of a native source for
   the reverse-translated value; an un-reversible value becomes an error *)
Lemma wrapped_is_native x vs :
  wrapped_reports fuel E ms x vs = native_reports (map (reverse fuel E ms x) vs).
Proof.
  induction vs as [|v r IH]; simpl; [reflexivity|].
  unfold ts_report. destruct (reverse fuel E ms x v) as [u|c|p]; simpl; try rewrite IH; reflexivity.
Qed.

(* hence the monitor goes through the same states, step for step *)
Lemma updates_transparent fs defaults s x vs :
  (rs <- wrapped_reports fuel E ms x vs ;; dials_run fs defaults s rs) =
  (rs <- native_reports (map (reverse fuel E ms x) vs) ;; dials_run fs defaults s rs).
Proof. now rewrite wrapped_is_native. Qed.

(* an un-reversible value is never forwarded: it is an error event and the view stays *)
Lemma unreversible_not_forwarded fs defaults s x v c :
  reverse fuel E ms x v = Err c ->
  (r <- ts_report fuel E ms x v ;; dials_step fs defaults s r) = Ok (DS (d_view s) (d_errors s + 1)).
Proof. intros H. unfold ts_report. rewrite H. reflexivity. Qed.

Lemma reversible_is_forwarded fs defaults s x v u :
  reverse fuel E ms x v = Ok u ->
  (r <- ts_report fuel E ms x v ;; dials_step fs defaults s r) = dials_step fs defaults s (RValue u).
Proof. intros H. unfold ts_report. rewrite H. reflexivity. Qed.

(* errors are propagated, never swallowed *)
Lemma value_translate_error t inner c :
  translate fuel ms t = Err c -> ts_value fuel E ms t inner = Err c.
Proof. intros H. unfold ts_value. now rewrite H. Qed.

Lemma value_inner_error t inner ttr x c :
  translate fuel ms t = Ok (ttr, x) -> inner ttr = Err c -> ts_value fuel E ms t inner = Err c.
Proof. intros H1 H2. unfold ts_value. rewrite H1. simpl. now rewrite H2. Qed.

Lemma value_reverse_error t inner ttr x v' c :
  translate fuel ms t = Ok (ttr, x) -> inner ttr = Ok v' -> reverse fuel E ms x v' = Err c ->
  ts_value fuel E ms t inner = Err c.
Proof. intros H1 H2 H3. rewrite (ts_value_transparent t inner ttr x v' H1 H2). exact H3. Qed.

Lemma watch_inner_error t iw ttr x c :
  translate fuel ms t = Ok (ttr, x) -> iw ttr = Err c -> ts_watch fuel ms t iw = Err c.
Proof. intros H1 H2. unfold ts_watch. rewrite H1. simpl. now rewrite H2. Qed.

Lemma watch_translate_error t iw c :
  translate fuel ms t = Err c -> ts_watch fuel ms t iw = Err c.
Proof. intros H. unfold ts_watch. now rewrite H. Qed.

Lemma config_error_propagates fs defaults first c :
  first = Err c -> dials_config fs defaults first = Err c.
Proof. intros ->. reflexivity. Qed.
End P.
