(* Proofs about the generic transformer (Transform/Transformer.v): the
   positional bookkeeping of ReverseTranslate against what TranslateType
   recorded, at every recursion level (the lemmas are about xlate_layer /
   rev_layer, which every level of the recursion uses, for arbitrary
   sub-transformer functions). *)
From Coq Require Import List NArith ZArith Bool Lia PeanoNat.
From Dials Require Import Base.Outcome Base.Runes Reflect.Ty Transform.RType Transform.MAlias
  Transform.Manglers Transform.Transformer.
Import ListNotations.
Local Open Scope nat_scope.

(* ---------- generic list facts: consecutive slices ---------- *)
Fixpoint slices {A} (ns : list nat) (l : list A) (off : nat) : list (list A) :=
  match ns with
  | [] => []
  | n :: r => firstn n (skipn off l) :: slices r l (off + n)
  end.

Definition sum (ns : list nat) : nat := fold_right Nat.add 0 ns.

Lemma skipn_add {A} (l : list A) a b : skipn (a + b) l = skipn b (skipn a l).
Proof.
  revert l; induction a as [|a IH]; intros l; simpl; [reflexivity|].
  destruct l as [|x l]; simpl; [now rewrite skipn_nil| apply IH].
Qed.

Lemma slices_concat {A} (ns : list nat) (l : list A) off :
  length l = off + sum ns -> concat (slices ns l off) = skipn off l.
Proof.
  revert off; induction ns as [|n r IH]; intros off H; simpl in *.
  - rewrite skipn_all2; [reflexivity | lia].
  - rewrite IH by lia. rewrite skipn_add. apply firstn_skipn.
Qed.

Lemma slices_length {A} (ns : list nat) (l : list A) off :
  off + sum ns <= length l ->
  map (@length A) (slices ns l off) = ns.
Proof.
  revert off; induction ns as [|n r IH]; intros off H; simpl in *; [reflexivity|].
  rewrite IH by lia. f_equal. rewrite firstn_length, skipn_length. lia.
Qed.

Lemma slices_map {A B} (f : A -> B) ns (l : list A) off :
  map (map f) (slices ns l off) = slices ns (map f l) off.
Proof.
  revert off; induction ns as [|n r IH]; intros off; simpl; [reflexivity|].
  rewrite IH. f_equal. now rewrite <- firstn_map, <- skipn_map.
Qed.

(* slicing a concatenation by the lengths of its pieces gives the pieces *)
Lemma slices_of_concat {A} (gs : list (list A)) (pre : list A) :
  slices (map (@length A) gs) (pre ++ concat gs) (length pre) = gs.
Proof.
  revert pre; induction gs as [|g gs IH]; intros pre; simpl; [reflexivity|].
  f_equal.
  - rewrite skipn_app, skipn_all, Nat.sub_diag. simpl.
    rewrite firstn_app, firstn_all, Nat.sub_diag. simpl. now rewrite app_nil_r.
  - specialize (IH (pre ++ g)). rewrite app_length in IH. rewrite <- app_assoc in IH. exact IH.
Qed.

(* ---------- the reverse walk takes consecutive slices ---------- *)
Definition arity (e : melem) : nat :=
  if xexported (sfo_name (me_in e)) then length (me_out e) else 0.

Section RevLayer.
Variable E : env.
Variable subrev : mangler -> xstate -> tval -> outcome tval.

(* the same loop, fed with one explicit group of mangled values per input field *)
Fixpoint rev_groups (m : mangler) (elems : list melem) (gs : list (list fvt)) : outcome (list fvt) :=
  match elems, gs with
  | e :: r, g :: gr =>
      if negb (xexported (sfo_name (me_in e))) then
        rest <- rev_groups m r gr ;; Ok ((zero_sf, (TIface, VNil)) :: rest)
      else
        nv <- unmangle_field E subrev m e g ;;
        rest <- rev_groups m r gr ;;
        Ok ((sfo_or_zero (me_in e), nv) :: rest)
  | _, _ => Ok []
  end.

Lemma rev_layer_slices m elems lv off :
  off + sum (map arity elems) <= length lv ->
  rev_layer E subrev m elems lv off = rev_groups m elems (slices (map arity elems) lv off).
Proof.
  revert off; induction elems as [|e r IH]; intros off H; simpl in *; [reflexivity|].
  destruct (xexported (sfo_name (me_in e))) eqn:Ex; simpl.
  - assert (Ha : arity e = length (me_out e)) by (unfold arity; now rewrite Ex).
    rewrite Ha in *.
    destruct (Nat.ltb (length lv) (off + length (me_out e))) eqn:L.
    + apply Nat.ltb_lt in L. lia.
    + rewrite IH by lia. reflexivity.
  - assert (Ha : arity e = 0) by (unfold arity; now rewrite Ex).
    rewrite Ha in *. rewrite Nat.add_0_r. rewrite IH by lia. reflexivity.
Qed.
End RevLayer.

(* ---------- what TranslateType records ---------- *)
Definition out_names (e : melem) : list str := map (fun o => sf_name (fst o)) (me_out e).

Section XlateLayer.
Variable sub : mangler -> ty -> outcome (ty * xstate).

Lemma recurse_out_name m f r : recurse_out sub m f = Ok r ->
  sf_name (fst r) = sf_name f /\ fst (snd r) = f.
Proof.
  unfold recurse_out. intros H.
  destruct (structish_inner (sf_ty f)) as [inner|]; [| inversion H; auto].
  destruct (negb (should_recurse m)); [inversion H; auto|].
  destruct (either_implements_tu inner); [inversion H; auto|].
  destruct (sub m inner) as [[t' x]| |]; simpl in H; inversion H; auto.
Qed.

Lemma recurse_outs_names m outs rec : recurse_outs sub m outs = Ok rec ->
  map (fun a => sf_name (fst a)) rec = map sf_name outs /\ map (fun a => fst (snd a)) rec = outs.
Proof.
  revert rec; induction outs as [|f r IH]; intros rec H; simpl in H.
  - inversion H; auto.
  - destruct (recurse_out sub m f) as [a| |] eqn:Ha; simpl in H; try discriminate.
    destruct (recurse_outs sub m r) as [b| |] eqn:Hb; simpl in H; try discriminate.
    inversion H; subst. simpl. apply recurse_out_name in Ha as [H1 H2].
    destruct (IH b eq_refl) as [H3 H4]. rewrite H1, H2, H3, H4. auto.
Qed.

(* the translated layer is the concatenation, input field by input field, of
   the recorded output fields (recursion rewrites their types, not their
   names); unexported input fields record nothing *)
Lemma xlate_layer_records m lf lf' st : xlate_layer sub m lf = Ok (lf', st) ->
  map sf_name lf' = concat (map out_names st) /\
  map arity st = map (fun e => length (out_names e)) st /\
  length st = length lf.
Proof.
  revert lf' st; induction lf as [|f r IH]; intros lf' st H; simpl in H.
  - inversion H; subst. simpl. auto.
  - destruct (xexported (sf_name f)) eqn:Ex; simpl in H.
    + destruct (mangle m f) as [outs| |]; simpl in H; try discriminate.
      destruct (recurse_outs sub m outs) as [rec| |] eqn:Hr; simpl in H; try discriminate.
      destruct (xlate_layer sub m r) as [[o s]| |] eqn:Hx; simpl in H; try discriminate.
      injection H as H1 H2. subst lf' st. destruct (IH o s eq_refl) as (I1 & I2 & I3).
      apply recurse_outs_names in Hr as [R1 R2].
      simpl. unfold out_names at 1. simpl. rewrite map_app, I1, map_map.
      split; [| split].
      * f_equal. rewrite R1. rewrite <- R2 at 1. rewrite !map_map. reflexivity.
      * f_equal; [| exact I2]. unfold arity, out_names. simpl. rewrite Ex. now rewrite !map_length.
      * now rewrite I3.
    + destruct (xlate_layer sub m r) as [[o s]| |] eqn:Hx; simpl in H; try discriminate.
      injection H as H1 H2. subst lf' st. destruct (IH o s eq_refl) as (I1 & I2 & I3).
      simpl. split; [exact I1 | split; [| now rewrite I3]].
      f_equal. exact I2.
Qed.
End XlateLayer.

(* offsets_partition: for a value of the translated layer (one tuple per
   translated field, in order), the slices [offset, offset + len out) taken by
   ReverseTranslate's loop are, input field by input field, exactly the
   fields that TranslateType recorded as that field's outputs, they are
   consecutive and together they cover the whole layer. *)
Theorem offsets_partition_l :
  forall sub E subrev m lf lf' st (lv : list fvt),
    xlate_layer sub m lf = Ok (lf', st) ->
    map (fun fv => sf_name (fst fv)) lv = map sf_name lf' ->
    let gs := slices (map arity st) lv 0 in
    rev_layer E subrev m st lv 0 = rev_groups E subrev m st gs /\
    map (map (fun fv => sf_name (fst fv))) gs = map out_names st /\
    concat gs = lv.
Proof.
  intros sub E subrev m lf lf' st lv Hx Hn gs.
  destruct (xlate_layer_records sub m lf lf' st Hx) as (N1 & N2 & N3).
  assert (Hsum : forall (l : list melem), length (concat (map out_names l)) = sum (map (fun e => length (out_names e)) l)).
  { induction l as [|e r IH]; simpl; [reflexivity|]. rewrite app_length, IH. reflexivity. }
  assert (Hlen : length lv = sum (map arity st)).
  { pose proof (f_equal (@length str) Hn) as HL. rewrite !map_length in HL.
    rewrite N2, <- Hsum, <- N1, map_length. exact HL. }
  split; [| split].
  - apply rev_layer_slices. simpl. lia.
  - unfold gs. rewrite slices_map. rewrite Hn, N1, N2.
    rewrite <- (map_map out_names (@length str)).
    exact (slices_of_concat (map out_names st) []).
  - unfold gs. rewrite slices_concat; [reflexivity | simpl; lia].
Qed.

(* ---------- the result has exactly the original type ---------- *)
Lemma assemble_length ofs lv vals : assemble ofs lv = Ok vals -> length vals = length ofs.
Proof.
  revert lv vals; induction ofs as [|o r IH]; intros lv vals H; simpl in H.
  - match type of H with context [if ?c then _ else _] => destruct c end; inversion H; reflexivity.
  - destruct lv as [|[f v] lr].
    + destruct (assemble r []) as [x| |] eqn:A; simpl in H; inversion H; subst.
      simpl. f_equal. eapply IH; eassumption.
    + match type of H with context [obind ?c _] => destruct c as [x| |] end; simpl in H; try discriminate.
      destruct (assemble r lr) as [rest| |] eqn:A; simpl in H; inversion H; subst.
      simpl. f_equal. eapply IH; eassumption.
Qed.

Theorem reverse_type_exact_l : forall fuel E ms x v rt rv,
  reverse fuel E ms x v = Ok (rt, rv) ->
  rt = xs_ty x /\
  exists fs nm vals, xs_ty x = TStruct fs nm /\ rv = VStruct vals /\ length vals = length (unpack fs).
Proof.
  intros fuel E ms x v rt rv H. destruct fuel as [|n]; simpl in H; [discriminate|].
  destruct (rev_layers _ _ _ _) as [lv| |]; simpl in H; try discriminate.
  destruct (xs_ty x) eqn:T; try discriminate.
  destruct (assemble (unpack fs) lv) as [vals| |] eqn:A; simpl in H; try discriminate.
  inversion H; subst. split; [reflexivity|].
  exists fs, name, vals. repeat split; auto. eapply assemble_length; eassumption.
Qed.

(* ---------- chains: the reverse of a chain is the composition of its stages ---------- *)
Section Chain.
Variable E : env.
Variable subrev : mangler -> xstate -> tval -> outcome tval.

(* one stage at the front of the chain is undone last *)
Lemma rev_layers_cons m l mls lv :
  rev_layers E subrev ((m, l) :: mls) lv =
  (lv' <- rev_layers E subrev mls lv ;; rev_layer E subrev m l lv' 0).
Proof. reflexivity. Qed.

Fixpoint compose_specs (specs : list (list fvt -> outcome (list fvt))) (lv : list fvt) : outcome (list fvt) :=
  match specs with
  | [] => Ok lv
  | sp :: r => lv' <- compose_specs r lv ;; sp lv'
  end.

(* if every stage's reverse walk is described by a map S_i (its counterpart
   map), any chain of them is described by the composition of these maps *)
Lemma chain_compose mls specs :
  Forall2 (fun ml sp => forall lv, rev_layer E subrev (fst ml) (snd ml) lv 0 = sp lv) mls specs ->
  forall lv, rev_layers E subrev mls lv = compose_specs specs lv.
Proof.
  induction 1 as [|[m l] sp mls specs H _ IH]; intros lv; simpl; [reflexivity|].
  rewrite IH. destruct (compose_specs specs lv); simpl; auto.
Qed.
End Chain.

(* TranslateType of a chain: stage by stage, each on the output of the previous *)
Lemma xlate_layers_cons sub m ms lf :
  xlate_layers sub (m :: ms) lf =
  (a <- xlate_layer sub m lf ;; b <- xlate_layers sub ms (fst a) ;; Ok (fst b, snd a :: snd b)).
Proof. reflexivity. Qed.
