(* The alias stage in front of a flatten stage, against the by-name
   specification: [alias; flatten] (the flag / pflag chains). *)
From Coq Require Import List NArith ZArith Bool Lia PeanoNat.
From Dials Require Import Base.Outcome Base.Runes Reflect.Ty Text.CaseConv Transform.RType
  Transform.MAlias Transform.MFlatten Transform.MOthers Transform.Manglers Transform.Transformer
  Transform.WellFormed Transform.CounterpartSpec Transform.TransformerProofs Transform.AliasProofs
  Transform.ManglerProofs Transform.EmptyProofs Transform.FlattenProofs Transform.SpecProofs Transform.ValEq.
Import ListNotations.
Local Open Scope nat_scope.

(* ---------- C1: Mangle doubles exactly the fields the specification calls aliased ---------- *)
Definition has_alias (tags : list str) (tg : list (str * str)) : bool :=
  existsb (fun t => match tag_lookup (t ++ alias_sfx) tg with Some _ => true | None => false end) tags.

Lemma alias_scan_none tags sft :
  has_alias tags sft = false -> snd (fst (alias_scan tags sft)) = [] /\ snd (alias_scan tags sft) = sft.
Proof.
  revert sft; induction tags as [|t r IH]; intros sft H; simpl in *; [auto|].
  apply orb_false_iff in H as [H1 H2].
  destruct (tag_lookup (t ++ alias_sfx) sft); [discriminate|].
  destruct (alias_scan r sft) as [[os als] sft'] eqn:A. simpl.
  specialize (IH sft H2). rewrite A in IH. exact IH.
Qed.

Lemma alias_scan_some tags sft :
  has_alias tags sft = true -> snd (fst (alias_scan tags sft)) <> [].
Proof.
  revert sft; induction tags as [|t r IH]; intros sft H; simpl in *; [discriminate|].
  destruct (tag_lookup (t ++ alias_sfx) sft) eqn:L.
  - destruct (alias_scan r (tag_delete (t ++ alias_sfx) sft)) as [[os als] sft']. simpl. discriminate.
  - simpl in H. destruct (alias_scan r sft) as [[os als] sft'] eqn:A. simpl.
    specialize (IH sft H). rewrite A in IH. exact IH.
Qed.

Lemma alias_mangle_cases tags f outs : alias_mangle tags f = Ok outs ->
  (has_alias tags (sf_tags f) = false /\ outs = [f]) \/
  (has_alias tags (sf_tags f) = true /\
   exists t1 t2, outs = [SF (sf_name f) t1 (sf_anon f) (sf_ty f);
                         SF (sf_name f ++ alias_field_suffix) t2 (sf_anon f) (sf_ty f)]).
Proof.
  intros H. unfold alias_mangle in H.
  destruct (has_alias tags (sf_tags f)) eqn:A.
  - right. split; [reflexivity|]. pose proof (alias_scan_some tags (sf_tags f) A) as N.
    destruct (alias_scan tags (sf_tags f)) as [[os als] sft']. simpl in N.
    destruct als; [congruence|]. inversion H. eauto.
  - left. split; [reflexivity|]. destruct (alias_scan_none tags (sf_tags f) A) as [N1 N2].
    destruct (alias_scan tags (sf_tags f)) as [[os als] sft']. simpl in N1, N2. subst. inversion H.
    destruct f; reflexivity.
Qed.

(* ---------- the names the specification looks up, in the translated type's leaf order ---------- *)
Section ANames.
Variable tags : list str.

Fixpoint anames_ty (names : list str) (t : ty) : list (list str) :=
  match t with
  | TPtr (TStruct fs _) => anames_fields names fs
  | _ => [names]
  end
with anames_fields (names : list str) (fs : fields) : list (list str) :=
  match fs with
  | FNil => []
  | FCons n tg an t r =>
      anames_ty (if an then names else names ++ [n]) t ++
      (if has_alias tags tg then anames_ty (names ++ [n ++ alias_field_suffix]) t else []) ++
      anames_fields names r
  end.

(* ... and the declared types of those leaves, in the same order *)
Fixpoint aleaves_ty (t : ty) : list ty :=
  match t with
  | TPtr (TStruct fs _) => aleaves_fields fs
  | _ => [t]
  end
with aleaves_fields (fs : fields) : list ty :=
  match fs with
  | FNil => []
  | FCons _ tg _ t r =>
      aleaves_ty t ++ (if has_alias tags tg then aleaves_ty t else []) ++ aleaves_fields r
  end.

Lemma anames_fields_cons names n tg an t r :
  anames_fields names (FCons n tg an t r) =
  anames_ty (if an then names else names ++ [n]) t ++
  (if has_alias tags tg then anames_ty (names ++ [n ++ alias_field_suffix]) t else []) ++
  anames_fields names r.
Proof. reflexivity. Qed.

(* no alias tag on an embedded field (it has no name to alias; with a
   flattening stage the two copies would collide) *)
Fixpoint alias_ok_ty (t : ty) : bool :=
  match t with
  | TPtr (TStruct fs _) => alias_ok_fields fs
  | _ => true
  end
with alias_ok_fields (fs : fields) : bool :=
  match fs with
  | FNil => true
  | FCons _ tg an t r => negb (an && has_alias tags tg) && alias_ok_ty t && alias_ok_fields r
  end.
End ANames.

(* ---------- C3: in the specification a struct is nil iff none of the leaves looked up below it is set ---------- *)
Lemma val_eqb_nil v : val_eqb v VNil = is_vnil v.
Proof. destruct v; reflexivity. Qed.

Lemma pick_nil n t p a x : wf_ty t = true -> pick n t p a = Ok x -> is_vnil x = is_vnil p && is_vnil a.
Proof.
  intros W. unfold pick. rewrite (proj1 (proj2 (wf_ty_nilable t W))). rewrite !val_eqb_nil.
  destruct (is_vnil p) eqn:P, (is_vnil a) eqn:A; simpl; intros H; inversion H; subst; auto.
Qed.

Lemma pick_both_nil n t p a : wf_ty t = true -> is_vnil p = true -> is_vnil a = true -> pick n t p a = Ok p.
Proof.
  intros W P A. unfold pick. rewrite (proj1 (proj2 (wf_ty_nilable t W))). rewrite !val_eqb_nil, P, A. reflexivity.
Qed.

Section SpecNil.
Variables (E : env) (env : named) (tags : list str).
Let sh : shape := Shape tags (Some 0%N) false false false.
Let fty := fspec_ty E sh env 0%N.
Let ffs := fspec_fields E sh env 0%N.
Let XS (l : list (list str)) : list val := map (valof env) (map enc0 l).

Lemma nspec_leaf_sh t tr v : wf_ty t = true -> leaf_ok t = true -> nspec_ty sh t tr v = Ok v.
Proof.
  intros W L. destruct t as [| |e|e nm| |k v' nm| | | |]; simpl in W, L; try discriminate.
  - destruct e; try discriminate; reflexivity.
  - destruct e; try discriminate; reflexivity.
  - reflexivity.
Qed.

Lemma fty_leaf names t : wf_ty t = true -> leaf_ok t = true -> under_is_struct t = false ->
  bound env (enc0 names) -> fty names t = Ok (valof env (enc0 names)).
Proof.
  intros W L U B.
  assert (F : fty names t = fspec_leaf E sh env 0%N names t).
  { unfold fty. destruct t as [| |e| | | | | | |]; try reflexivity. destruct e; try reflexivity. simpl in U. discriminate. }
  rewrite F. unfold fspec_leaf, valof, bound, enc0 in *.
  destruct (assoc_s (encode_by 0 names) env) as [[tr v]|]; [| congruence].
  unfold fleaf. simpl. now apply nspec_leaf_sh.
Qed.

Lemma ffs_cons names n tg an t r :
  ffs names (FCons n tg an t r) =
  (x <- (if negb (xexported n) then Ok (zero t)
         else
           p <- fty (if an then names else names ++ [n]) t ;;
           if has_alias tags tg then
             a <- fty (names ++ [n ++ alias_field_suffix]) t ;; pick n t p a
           else Ok p) ;;
   rest <- ffs names r ;;
   Ok (x :: rest)).
Proof. reflexivity. Qed.

Lemma fty_struct names fs nm :
  fty names (TPtr (TStruct fs nm)) =
  (vals <- ffs names fs ;; if all_vnil vals then Ok VNil else Ok (VPtr (VStruct vals))).
Proof. reflexivity. Qed.

Definition nil_ty (t : ty) : Prop :=
  forall names, Forall (bound env) (map enc0 (anames_ty tags names t)) ->
    (forallb is_vnil (XS (anames_ty tags names t)) = true -> fty names t = Ok VNil) /\
    (forall v, fty names t = Ok v -> is_vnil v = forallb is_vnil (XS (anames_ty tags names t))).
Definition nil_fields (fs : fields) : Prop :=
  forall names, Forall (bound env) (map enc0 (anames_fields tags names fs)) ->
    (forallb is_vnil (XS (anames_fields tags names fs)) = true ->
       exists vals, ffs names fs = Ok vals /\ all_vnil vals = true) /\
    (forall vals, ffs names fs = Ok vals -> all_vnil vals = forallb is_vnil (XS (anames_fields tags names fs))).

Lemma nil_leaf t : wf_ty t = true -> leaf_ok t = true -> under_is_struct t = false -> nil_ty t.
Proof.
  intros W L U names B.
  assert (N : anames_ty tags names t = [names]).
  { destruct t as [| |e| | | | | | |]; try reflexivity. destruct e; try reflexivity. simpl in U. discriminate. }
  rewrite N in *. simpl in B. apply Forall_cons_iff in B as [B _].
  rewrite fty_leaf by assumption. unfold XS. simpl. rewrite andb_true_r. split.
  - intros H. destruct (valof env (enc0 names)); try discriminate. reflexivity.
  - intros v H. inversion H. reflexivity.
Qed.

Lemma spec_nil :
  (forall t, (wf_ty t = true -> simple_ty t = true -> nil_ty t) /\
             (forall fs nm, t = TStruct fs nm -> wf_fields fs = true -> simple_fields fs = true -> nil_fields fs)) /\
  (forall fs, wf_fields fs = true -> simple_fields fs = true -> nil_fields fs).
Proof.
  apply ty_fields_ind.
  - intros k nm. split; [intros W; discriminate | intros; discriminate].
  - intros id pr. split; [intros W; discriminate | intros; discriminate].
  - intros e [_ IHs]. split; [| intros; discriminate].
    intros W S. destruct (wf_leaf_or_struct (TPtr e) W) as [(U & _ & _) | (fs & nm & Eq & Wf)].
    + apply nil_leaf; auto. destruct e; simpl in U, S |- *; try discriminate; auto.
    + inversion Eq; subst e. clear Eq. simpl in S. specialize (IHs fs nm eq_refl Wf S).
      intros names B. simpl anames_ty in *. destruct (IHs names B) as [I1 I2]. rewrite fty_struct. split.
      * intros H. destruct (I1 H) as (vals & Hv & Hn). rewrite Hv. cbn [obind]. now rewrite Hn.
      * intros v H. destruct (ffs names fs) as [vals| |] eqn:Hv; simpl in H; try discriminate.
        pose proof (I2 vals eq_refl) as Q. destruct (all_vnil vals); inversion H; subst; simpl; exact Q.
  - intros e IH nm. split; [| intros; discriminate]. intros W S. apply nil_leaf; auto.
  - intros n e IH. split; [intros W; discriminate | intros; discriminate].
  - intros k IHk v IHv nm. split; [| intros; discriminate]. intros W S. apply nil_leaf; auto.
  - intros fs IH nm. split; [intros W; discriminate|].
    intros fs' nm' Eq W S. inversion Eq; subst. now apply IH.
  - split; [| intros; discriminate]. intros W S. simpl in S. discriminate.
  - split; [intros W; discriminate | intros; discriminate].
  - split; [intros W; discriminate | intros; discriminate].
  - intros _ _ names _. split; [intros _; exists []; split; reflexivity | intros vals H; inversion H; reflexivity].
  - intros n tg an t [IHt _] r IHr W S names B. simpl in W, S.
    apply andb_true_iff in W as [W Wr]. apply andb_true_iff in W as [W Wan]. apply andb_true_iff in W as [Wex Wt].
    apply andb_true_iff in S as [St Sr].
    rewrite anames_fields_cons in *. unfold XS in *. cbv beta in *. rewrite !map_app in B. rewrite !map_app.
    apply Forall_app in B as [B1 B]. apply Forall_app in B as [B2 B3].
    rewrite !forallb_app. rewrite ffs_cons, Wex. cbn [negb].
    destruct (IHt Wt St _ B1) as [P1 P2]. destruct (IHr Wr Sr names B3) as [R1 R2].
    destruct (has_alias tags tg) eqn:A.
    + destruct (IHt Wt St _ B2) as [A1 A2]. split.
      * intros H. apply andb_true_iff in H as [H1 H]. apply andb_true_iff in H as [H2 H3].
        rewrite (P1 H1). cbn [obind]. rewrite (A1 H2). cbn [obind].
        rewrite pick_both_nil by auto. cbn [obind].
        destruct (R1 H3) as (vals & Hv & Hn). rewrite Hv. cbn [obind]. exists (VNil :: vals). split; [reflexivity | exact Hn].
      * intros vals H.
        destruct (fty (if an then names else names ++ [n]) t) as [p| |] eqn:Hp; cbn [obind] in H; try discriminate.
        destruct (fty (names ++ [n ++ alias_field_suffix]) t) as [a| |] eqn:Ha; cbn [obind] in H; try discriminate.
        destruct (pick n t p a) as [x| |] eqn:Hx; cbn [obind] in H; try discriminate.
        destruct (ffs names r) as [rest| |] eqn:Hr; cbn [obind] in H; try discriminate.
        inversion H; subst. simpl.
        rewrite (pick_nil _ _ _ _ _ Wt Hx), (P2 _ eq_refl), (A2 _ eq_refl), (R2 _ eq_refl).
        now rewrite andb_assoc.
    + simpl. split.
      * intros H. apply andb_true_iff in H as [H1 H3].
        rewrite (P1 H1). cbn [obind]. destruct (R1 H3) as (vals & Hv & Hn). rewrite Hv. cbn [obind].
        exists (VNil :: vals). split; [reflexivity | exact Hn].
      * intros vals H.
        destruct (fty (if an then names else names ++ [n]) t) as [p| |] eqn:Hp; cbn [obind] in H; try discriminate.
        destruct (ffs names r) as [rest| |] eqn:Hr; cbn [obind] in H; try discriminate.
        inversion H; subst. simpl.
        now rewrite (P2 _ eq_refl), (R2 _ eq_refl).
Qed.
End SpecNil.

(* ---------- C4: the alias stage (with its sub-transformers) against the specification ---------- *)
Section AliasStage.
Variables (E : env) (env : named) (tags : list str).
Local Notation m_a := (MAlias tags).
Local Notation sh := (Shape tags (Some 0%N) false false false).
Local Notation fty := (fspec_ty E sh env 0%N).
Local Notation ffs := (fspec_fields E sh env 0%N).
Local Notation XSv l := (map (valof env) (map enc0 l)).

Definition fnames (names : list str) (g : sfield) : list str :=
  if sf_anon g then names else names ++ [sf_name g].

(* what is known about the alias sub-transformer of a nested struct at fuel n *)
Definition subA (n : nat) : Prop :=
  forall ifs inm tin1 x, wf_fields ifs = true -> simple_fields ifs = true -> alias_ok_fields tags ifs = true ->
    translate n [m_a] (TStruct ifs inm) = Ok (tin1, x) ->
    exists ifs1, tin1 = TStruct ifs1 [] /\ wf_fields ifs1 = true /\
      (forall names, names_fields names ifs1 = anames_fields tags names ifs) /\
      leaves_fields ifs1 = aleaves_fields tags ifs /\
      (forall names, Forall (bound env) (map enc0 (anames_fields tags names ifs)) ->
         reverse n E [m_a] x (tin1, VStruct (build_fields ifs1 (XSv (names_fields names ifs1)))) =
         (vals <- ffs names ifs ;; Ok (TStruct ifs inm, VStruct vals))).

Lemma recurse_out_leaf sub m g : wf_ty (sf_ty g) = true -> leaf_ok (sf_ty g) = true ->
  recurse_out sub m g = Ok (g, (g, None)).
Proof.
  intros W L. unfold recurse_out.
  destruct (sf_ty g) as [| |e|e nm| |k v nm| | | |] eqn:T; simpl in W, L; try discriminate.
  - destruct e; simpl in *; try discriminate; try reflexivity.
    destruct (negb (should_recurse m)); [reflexivity|]. destruct ptr_recv; reflexivity.
  - simpl. destruct (kind_struct e); [discriminate | reflexivity].
  - reflexivity.
Qed.

Section WithSub.
Variable n : nat.
Hypothesis HA : subA n.
Local Notation sub_n := (fun (m : mangler) (ft : ty) => translate n [m] ft).
Local Notation subrev_n := (fun (m : mangler) (sx : xstate) (sv : tval) => reverse n E [m] sx sv).

Lemma one_copy g r ia :
  wf_sf g = true -> simple_ty (sf_ty g) = true -> alias_ok_ty tags (sf_ty g) = true ->
  recurse_out sub_n m_a g = Ok r ->
  wf_sf (fst r) = true /\ sf_name (fst r) = sf_name g /\ sf_anon (fst r) = sf_anon g /\ fst (snd r) = g /\
  (forall names', names_ty names' (sf_ty (fst r)) = anames_ty tags names' (sf_ty g)) /\
  leaves_ty (sf_ty (fst r)) = aleaves_ty tags (sf_ty g) /\
  (forall names' f', Forall (bound env) (map enc0 (anames_ty tags names' (sf_ty g))) ->
     rec_unmangle_one subrev_n m_a ia (snd r)
       (f', (sf_ty (fst r), build_ty (sf_ty (fst r)) (XSv (names_ty names' (sf_ty (fst r)))))) =
     (v <- fty names' (sf_ty g) ;; Ok (f', (sf_ty g, v)))).
Proof.
  intros W S A H. destruct (wf_sf_parts g W) as (Wn & Wt & Wa).
  destruct (wf_leaf_or_struct (sf_ty g) Wt) as [(U & Lv & _) | (ifs & inm & Eq & Wf)].
  - (* a leaf: no sub-transformer *)
    assert (L : leaf_ok (sf_ty g) = true).
    { destruct (sf_ty g) as [| |e| | | | | | |]; simpl in S, U |- *; auto. destruct e; simpl in *; auto; discriminate. }
    rewrite (recurse_out_leaf sub_n m_a g Wt L) in H. inversion H; subst. simpl.
    assert (N : forall names', names_ty names' (sf_ty g) = [names'] /\ anames_ty tags names' (sf_ty g) = [names']).
    { intros names'. destruct (sf_ty g) as [| |e| | | | | | |]; try (split; reflexivity).
      destruct e; try (split; reflexivity). simpl in U. discriminate. }
    assert (Lf : leaves_ty (sf_ty g) = aleaves_ty tags (sf_ty g)).
    { destruct (sf_ty g) as [| |e| | | | | | |]; try reflexivity. destruct e; try reflexivity. simpl in U. discriminate. }
    repeat split; auto.
    + intros names'. destruct (N names') as [-> ->]. reflexivity.
    + intros names' f' B. destruct (N names') as [N1 N2]. rewrite N1. rewrite N2 in B. simpl in B.
      apply Forall_cons_iff in B as [B _].
      simpl. rewrite build_leaf by exact U.
      rewrite (fty_leaf E env tags names' (sf_ty g) Wt L U B). reflexivity.
  - (* a pointer to a struct: the alias sub-transformer *)
    unfold recurse_out in H. rewrite Eq in H. simpl in H.
    destruct (sub_n m_a (TStruct ifs inm)) as [[tin1 x]| |] eqn:Sb; simpl in H; try discriminate.
    inversion H; subst r. clear H. simpl.
    rewrite Eq in S, A. simpl in S, A.
    destruct (HA ifs inm tin1 x Wf S A Sb) as (ifs1 & E1 & W1 & Nm & Lf & Rv). subst tin1.
    repeat split; auto.
    + unfold wf_sf. simpl. rewrite Wn, W1. simpl. rewrite Eq in Wa. destruct (sf_anon g); reflexivity.
    + intros names'. rewrite Eq. simpl. apply Nm.
    + rewrite Eq. simpl. exact Lf.
    + intros names' f' B. rewrite Eq in B |- *. simpl in B. simpl names_ty. cbn [build_ty].
      destruct (spec_nil E env tags) as [_ SN]. destruct (SN ifs Wf S names' B) as [SN1 SN2].
      assert (Xeq : XSv (names_fields names' ifs1) = map (valof env) (map enc0 (anames_fields tags names' ifs)))
        by (now rewrite Nm).
      rewrite (fty_struct E env tags names' ifs inm).
      destruct (any_set (XSv (names_fields names' ifs1))) eqn:Any.
      * unfold rec_unmangle_one. cbn [snd fst]. cbv beta. rewrite (Rv names' B).
        destruct (ffs names' ifs) as [vals| |] eqn:Fv; cbn [obind]; try reflexivity.
        rewrite (SN2 vals eq_refl). rewrite <- Xeq. unfold any_set in Any. apply negb_true_iff in Any. rewrite Any.
        reflexivity.
      * unfold rec_unmangle_one. cbn [snd fst].
        unfold any_set in Any. apply negb_false_iff in Any. rewrite Xeq in Any.
        destruct (SN1 Any) as (vals & Fv & Nv). rewrite Fv. cbn [obind]. rewrite Nv.
        unfold zero_tv. rewrite Eq. reflexivity.
Qed.

(* one step of ReverseTranslate's loop, with the slice made explicit *)
Lemma rev_layer_step subrev m e r (pre chunk rest : list fvt) :
  xexported (sfo_name (me_in e)) = true -> length chunk = length (me_out e) ->
  rev_layer E subrev m (e :: r) (pre ++ chunk ++ rest) (length pre) =
  (nv <- unmangle_field E subrev m e chunk ;;
   rs <- rev_layer E subrev m r ((pre ++ chunk) ++ rest) (length (pre ++ chunk)) ;;
   Ok ((sfo_or_zero (me_in e), nv) :: rs)).
Proof.
  intros Ex L. cbn [rev_layer]. rewrite Ex. cbn [negb]. rewrite <- L.
  destruct (Nat.ltb _ _) eqn:Lt.
  { apply Nat.ltb_lt in Lt. rewrite !app_length in Lt. lia. }
  rewrite firstn_skipn_mid. rewrite <- app_assoc. rewrite app_length. reflexivity.
Qed.

Lemma alias_unmangle_pick f f1 f2 t vp va :
  alias_unmangle (Some f) [(f1, (t, vp)); (f2, (t, va))] = (x <- pick (sf_name f) t vp va ;; Ok (t, x)).
Proof.
  unfold alias_unmangle, pick, go_is_zero. cbn [fst snd sfo_name].
  destruct (val_eqb vp (zero t)), (val_eqb va (zero t)); reflexivity.
Qed.

Definition SEG (names : list str) (lf1 : list sfield) : list fvt :=
  map (fun g => (g, (sf_ty g, build_ty (sf_ty g) (XSv (names_ty (fnames names g) (sf_ty g)))))) lf1.
Definition zipv (lf : list sfield) (vals : list val) : list fvt := combine lf (combine (map sf_ty lf) vals).

Lemma ffs_pack_cons names f r :
  ffs names (pack (f :: r)) =
  (x <- (if negb (xexported (sf_name f)) then Ok (zero (sf_ty f))
         else
           p <- fty (fnames names f) (sf_ty f) ;;
           if has_alias tags (sf_tags f) then
             a <- fty (names ++ [sf_name f ++ alias_field_suffix]) (sf_ty f) ;; pick (sf_name f) (sf_ty f) p a
           else Ok p) ;;
   rest <- ffs names (pack r) ;;
   Ok (x :: rest)).
Proof. reflexivity. Qed.

Lemma anames_pack_cons names f r :
  anames_fields tags names (pack (f :: r)) =
  anames_ty tags (fnames names f) (sf_ty f) ++
  (if has_alias tags (sf_tags f) then anames_ty tags (names ++ [sf_name f ++ alias_field_suffix]) (sf_ty f) else []) ++
  anames_fields tags names (pack r).
Proof. reflexivity. Qed.

Lemma alias_layer_rev : forall lf lf1 st,
  xlate_layer sub_n m_a lf = Ok (lf1, st) ->
  Forall (fun f => wf_sf f = true) lf -> simple_fields (pack lf) = true -> alias_ok_fields tags (pack lf) = true ->
  Forall (fun g => wf_sf g = true) lf1 /\
  (forall names, concat (map (fun g => names_ty (fnames names g) (sf_ty g)) lf1) = anames_fields tags names (pack lf)) /\
  concat (map (fun g => leaves_ty (sf_ty g)) lf1) = aleaves_fields tags (pack lf) /\
  (forall names pre, Forall (bound env) (map enc0 (anames_fields tags names (pack lf))) ->
     rev_layer E subrev_n m_a st (pre ++ SEG names lf1) (length pre) =
     (vals <- ffs names (pack lf) ;; Ok (zipv lf vals))).
Proof.
  induction lf as [|f r IH]; intros lf1 st H W S A; simpl in H.
  - inversion H; subst. split; [constructor | split; [reflexivity | split; [reflexivity | intros; reflexivity]]].
  - apply Forall_cons_iff in W as [Wf Wr]. destruct (wf_sf_parts f Wf) as (Wn & Wt & Wa).
    simpl in S, A. apply andb_true_iff in S as [St Sr].
    apply andb_true_iff in A as [A Ar]. apply andb_true_iff in A as [Aan At].
    rewrite Wn in H. simpl in H.
    destruct (alias_mangle tags f) as [outs| |] eqn:Hm; simpl in H; try discriminate.
    destruct (recurse_outs sub_n m_a outs) as [rec| |] eqn:Hr; simpl in H; try discriminate.
    destruct (xlate_layer sub_n m_a r) as [[lfr str]| |] eqn:Hx; simpl in H; try discriminate.
    injection H as El Est. subst lf1 st.
    destruct (IH lfr str eq_refl Wr Sr Ar) as (I1 & I2 & I2' & I3).
    destruct (alias_mangle_cases tags f outs Hm) as [[Al Eo] | [Al (t1 & t2 & Eo)]]; subst outs.
    + (* not aliased *)
      simpl in Hr. destruct (recurse_out sub_n m_a f) as [ra| |] eqn:Ra; simpl in Hr; try discriminate.
      inversion Hr; subst rec. clear Hr.
      destruct (one_copy f ra (is_array_ty (sf_ty f)) Wf St At Ra) as (C1 & C2 & C3 & C4 & C5 & C5' & C6).
      assert (Fn : forall names, fnames names (fst ra) = fnames names f) by (intros; unfold fnames; now rewrite C2, C3).
      split; [constructor; assumption|]. split; [| split].
      * intros names. cbn [app map concat]. rewrite Fn, C5, I2, anames_pack_cons, Al. reflexivity.
      * cbn [app map concat]. rewrite C5', I2'. cbn [pack aleaves_fields]. rewrite Al. reflexivity.
      * intros names pre B. rewrite anames_pack_cons, Al in B. simpl app in B. rewrite map_app in B.
        apply Forall_app in B as [B1 B2].
        simpl map. unfold SEG. cbn [app map]. fold (SEG names lfr).
        change (pre ++ ?x :: SEG names lfr) with (pre ++ [x] ++ SEG names lfr).
        rewrite rev_layer_step by (simpl; auto).
        unfold unmangle_field. cbn [me_in me_out rec_unmangle]. rewrite Fn.
        rewrite (C6 (fnames names f) (fst ra)) by exact B1.
        rewrite ffs_pack_cons, Wn, Al. cbn [negb].
        destruct (fty (fnames names f) (sf_ty f)) as [v| |] eqn:Fv; cbn [obind]; try reflexivity.
        cbn [unmangle alias_unmangle].
        rewrite (I3 names (pre ++ [(fst ra, (sf_ty (fst ra), build_ty (sf_ty (fst ra)) (XSv (names_ty (fnames names f) (sf_ty (fst ra))))))]) B2).
        destruct (ffs names (pack r)) as [vals| |]; reflexivity.
    + (* aliased: two copies *)
      assert (An : sf_anon f = false) by (destruct (sf_anon f); [rewrite Al in Aan; discriminate | reflexivity]).
      simpl in Hr.
      destruct (recurse_out sub_n m_a _) as [ra| |] eqn:Ra in Hr; simpl in Hr; try discriminate.
      destruct (recurse_out sub_n m_a _) as [rb| |] eqn:Rb in Hr; simpl in Hr; try discriminate.
      inversion Hr; subst rec. clear Hr.
      set (p := SF (sf_name f) t1 (sf_anon f) (sf_ty f)) in *.
      set (a := SF (sf_name f ++ alias_field_suffix) t2 (sf_anon f) (sf_ty f)) in *.
      assert (Wp : wf_sf p = true) by (unfold wf_sf, p; simpl; rewrite Wn, Wt; exact Wa).
      assert (Wq : wf_sf a = true).
      { unfold wf_sf, a. simpl. rewrite exported_app by exact Wn. rewrite Wt. exact Wa. }
      destruct (one_copy p ra (is_array_ty (sf_ty f)) Wp St At Ra) as (P1 & P2 & P3 & P4 & P5 & P5' & P6).
      destruct (one_copy a rb (is_array_ty (sf_ty f)) Wq St At Rb) as (Q1 & Q2 & Q3 & Q4 & Q5 & Q5' & Q6).
      assert (Fp : forall names, fnames names (fst ra) = names ++ [sf_name f]).
      { intros. unfold fnames. rewrite P2, P3. unfold p. simpl. now rewrite An. }
      assert (Fq : forall names, fnames names (fst rb) = names ++ [sf_name f ++ alias_field_suffix]).
      { intros. unfold fnames. rewrite Q2, Q3. unfold a. simpl. now rewrite An. }
      assert (Ff : forall names, fnames names f = names ++ [sf_name f]) by (intros; unfold fnames; now rewrite An).
      split; [constructor; [assumption | constructor; assumption]|]. split; [| split].
      * intros names. cbn [app map concat]. rewrite Fp, Fq, P5, Q5, I2, anames_pack_cons, Al, Ff. unfold p, a. cbn [sf_ty].
        reflexivity.
      * cbn [app map concat]. rewrite P5', Q5', I2'. unfold p, a. cbn [sf_ty pack aleaves_fields]. rewrite Al. reflexivity.
      * intros names pre B. rewrite anames_pack_cons, Al, Ff in B. rewrite !map_app in B.
        apply Forall_app in B as [B1 B]. apply Forall_app in B as [B2 B3].
        unfold SEG. cbn [app map]. fold (SEG names lfr).
        change (pre ++ ?x :: ?y :: SEG names lfr) with (pre ++ [x; y] ++ SEG names lfr).
        rewrite rev_layer_step by (simpl; auto).
        unfold unmangle_field. cbn [me_in me_out rec_unmangle]. rewrite Fp, Fq.
        rewrite (P6 (names ++ [sf_name f]) (fst ra)) by (unfold p; simpl; exact B1).
        rewrite ffs_pack_cons, Wn, Al, Ff. cbn [negb].
        unfold p at 1. cbn [sf_ty].
        destruct (fty (names ++ [sf_name f]) (sf_ty f)) as [vp| |] eqn:Fv; cbn [obind]; try reflexivity.
        rewrite (Q6 (names ++ [sf_name f ++ alias_field_suffix]) (fst rb)) by (unfold a; simpl; exact B2).
        unfold a at 1. cbn [sf_ty].
        destruct (fty (names ++ [sf_name f ++ alias_field_suffix]) (sf_ty f)) as [va| |] eqn:Fa; cbn [obind]; try reflexivity.
        cbn [unmangle]. unfold p, a. cbn [sf_ty]. rewrite alias_unmangle_pick.
        destruct (pick (sf_name f) (sf_ty f) vp va) as [x| |]; cbn [obind]; try reflexivity.
        match goal with |- context [rev_layer E _ _ str (?pp ++ SEG names lfr) _] => rewrite (I3 names pp B3) end.
        destruct (ffs names (pack r)) as [vals| |]; reflexivity.
Qed.
End WithSub.

Lemma pack_unpack fs : pack (unpack fs) = fs.
Proof. induction fs as [|n tg an t r IH]; simpl; [reflexivity | now rewrite IH]. Qed.

Lemma names_fields_pack names lf :
  names_fields names (pack lf) = concat (map (fun g => names_ty (fnames names g) (sf_ty g)) lf).
Proof. induction lf as [|g r IH]; simpl; [reflexivity | now rewrite IH]. Qed.

Lemma leaves_fields_pack lf : leaves_fields (pack lf) = concat (map (fun g => leaves_ty (sf_ty g)) lf).
Proof. induction lf as [|g r IH]; simpl; [reflexivity | now rewrite IH]. Qed.

Lemma ffs_length names fs vals : ffs names fs = Ok vals -> length vals = length (unpack fs).
Proof.
  revert vals; induction fs as [|n tg an t r IH]; intros vals H.
  - inversion H. reflexivity.
  - rewrite (ffs_cons E env tags) in H.
    match type of H with obind ?c _ = _ => destruct c as [x| |] end; cbn [obind] in H; try discriminate.
    destruct (fspec_fields E sh env 0%N names r) as [rest| |] eqn:R; cbn [obind] in H; try discriminate.
    inversion H; subst. simpl. f_equal. now apply IH.
Qed.

Lemma assemble_zipv lf vals : Forall (fun f => wf_sf f = true) lf -> length vals = length lf ->
  assemble lf (zipv lf vals) = Ok vals.
Proof.
  intros W. revert vals; induction W as [|f r Wf _ IH]; intros [|v vs] L; simpl in L; try discriminate; [reflexivity|].
  destruct (wf_sf_parts f Wf) as (Wn & Wt & _).
  unfold zipv. cbn [map combine]. rewrite assemble_cons. rewrite Wn. cbn [negb fst].
  rewrite convertible_refl. cbn [negb].
  assert (C : convert (sf_ty f, v) (sf_ty f) = Ok (sf_ty f, v)).
  { unfold convert. rewrite convertible_refl. simpl. destruct (sf_ty f); simpl in Wt; try discriminate; reflexivity. }
  rewrite C. cbn [obind]. unfold set_into. cbn [fst snd]. rewrite assignable_refl. cbn [obind].
  fold (zipv r vs). rewrite IH by lia. reflexivity.
Qed.

Lemma SEG_unpack names lf1 :
  Forall (fun g => wf_sf g = true) lf1 ->
  unpack_value (TStruct (pack lf1) [], VStruct (build_fields (pack lf1) (XSv (names_fields names (pack lf1))))) =
  SEG names lf1.
Proof.
  intros W. unfold unpack_value. rewrite unpack_pack. rewrite names_fields_pack.
  rewrite !concat_map, !map_map.
  pose proof (build_fields_per_field (pack lf1)
                (fun g => XSv (names_ty (fnames names g) (sf_ty g)))) as B.
  rewrite unpack_pack in B. rewrite B.
  - unfold SEG. clear. induction lf1 as [|g r IH]; simpl; [reflexivity | now rewrite IH].
  - apply Forall_forall. intros g _. rewrite !map_length. apply names_len.
Qed.

Theorem subA_all : forall n, subA n.
Proof.
  induction n as [|n IH]; intros ifs inm tin1 x W S A H; [discriminate|].
  cbn [translate unpack_ty] in H. rewrite xlate_layers_cons in H.
  destruct (xlate_layer _ m_a (unpack ifs)) as [[lf1 st]| |] eqn:X; simpl in H; try discriminate.
  unfold struct_of in H. destruct (has_dup (map sf_name lf1)); [discriminate|].
  simpl in H. destruct (existsb _ lf1); [discriminate|]. simpl in H. injection H as Et Ex. subst tin1 x.
  pose proof (proj1 (wf_fields_forall ifs) W) as Wl.
  assert (S' : simple_fields (pack (unpack ifs)) = true) by (now rewrite pack_unpack).
  assert (A' : alias_ok_fields tags (pack (unpack ifs)) = true) by (now rewrite pack_unpack).
  destruct (alias_layer_rev n IH (unpack ifs) lf1 st X Wl S' A') as (I1 & I2 & I2' & I3).
  exists (pack lf1). split; [reflexivity|]. split; [now apply wf_fields_pack|]. split; [| split].
  - intros names. rewrite names_fields_pack, I2, pack_unpack. reflexivity.
  - rewrite leaves_fields_pack, I2', pack_unpack. reflexivity.
  - intros names B. cbn [reverse xs_layers xs_ty combine rev_layers]. cbn [obind].
    rewrite SEG_unpack by exact I1.
    rewrite <- (pack_unpack ifs) in B.
    pose proof (I3 names [] B) as R. simpl app in R. simpl length in R. rewrite R.
    rewrite pack_unpack.
    destruct (ffs names ifs) as [vals| |] eqn:Fv; cbn [obind]; try reflexivity.
    rewrite assemble_zipv; [reflexivity | exact Wl | eapply ffs_length; eassumption].
Qed.
End AliasStage.

(* ---------- the flag / pflag chains: [alias; flatten] ---------- *)
Theorem alias_flatten_chain_spec_l : forall fuel E tags tag te fs nm tt x filled,
  wf_fields fs = true -> simple_fields fs = true -> alias_ok_fields tags fs = true ->
  translate fuel [MAlias tags; MFlatten tag 0%N te] (TStruct fs nm) = Ok (tt, x) ->
  length filled = length (unpack_ty tt) ->
  Some (reverse fuel E [MAlias tags; MFlatten tag 0%N te] x (tt, VStruct filled)) =
  counterpart_spec E [MAlias tags; MFlatten tag 0%N te] (TStruct fs nm) tt filled.
Proof.
  intros fuel E tags tag te fs nm tt x filled W S A H L.
  destruct fuel as [|n]; [discriminate|]. cbn [translate unpack_ty] in H.
  set (sub := fun (m : mangler) (ft : ty) => translate n [m] ft) in *.
  rewrite xlate_layers_cons in H.
  destruct (xlate_layer sub (MAlias tags) (unpack fs)) as [[lf1 st1]| |] eqn:X1; cbn [obind fst snd] in H; try discriminate.
  rewrite xlate_layers_cons in H.
  destruct (xlate_layer sub (MFlatten tag 0%N te) lf1) as [[lf2 st2]| |] eqn:X2; cbn [obind fst snd xlate_layers] in H; try discriminate.
  unfold struct_of in H. destruct (has_dup (map sf_name lf2)) eqn:D; [discriminate|].
  simpl in H. destruct (existsb _ lf2); [discriminate|]. simpl in H. injection H as Et Ex. subst tt x.
  pose proof (proj1 (wf_fields_forall fs) W) as Wl.
  assert (S' : simple_fields (pack (unpack fs)) = true) by (now rewrite pack_unpack).
  assert (A' : alias_ok_fields tags (pack (unpack fs)) = true) by (now rewrite pack_unpack).
  cbn [unpack_ty] in L. rewrite unpack_pack in L.
  destruct (name_fields_env_of lf2 filled L) as (N1 & N2 & N3 & N4).
  set (seg := combine lf2 (combine (map sf_ty lf2) filled)) in *.
  set (env := env_of seg).
  destruct (alias_layer_rev E env tags n (subA_all E env tags n) (unpack fs) lf1 st1 X1 Wl S' A') as (I1 & I2 & _ & I3).
  destruct (flatten_layer_names _ tag te _ _ _ X2 I1) as [Nm Ty].
  assert (Hn : NoDup (map fst (env_of ([] ++ seg)))).
  { simpl. fold env. unfold env. rewrite <- N1, N4. now apply has_dup_nodup. }
  cbn [reverse xs_layers xs_ty combine rev_layers]. cbn [obind].
  assert (U : unpack_value (TStruct (pack lf2) [], VStruct filled) = seg).
  { unfold unpack_value. rewrite unpack_pack. reflexivity. }
  rewrite U.
  pose proof (flatten_stage_rev _ E (fun m sx sv => reverse n E [m] sx sv) tag te _ _ _ X2 I1 [] seg N2
                (conv_of_exact seg lf2 (flat_layer_nilable _ tag te _ _ _ X2 I1) N3) Hn) as R.
  simpl app in R. simpl length in R. rewrite R. cbn [obind].
  fold env.
  assert (B : Forall (bound env) (map enc0 (anames_fields tags [] (pack (unpack fs))))).
  { rewrite <- I2. apply Forall_forall. intros k Hk. apply assoc_in. unfold env. rewrite <- N1, N4, Nm. exact Hk. }
  pose proof (I3 [] [] B) as R2. simpl app in R2. simpl length in R2.
  unfold SEG in R2. unfold top_names. unfold fnames in R2. simpl app in R2.
  rewrite R2. rewrite pack_unpack.
  unfold counterpart_spec. cbn [shape_of shape_body flat_tail sh_flat]. rewrite N1. fold env.
  destruct (fspec_fields E (Shape tags (Some 0%N) false false false) env 0%N [] fs) as [vals| |] eqn:Fv; cbn [obind]; try reflexivity.
  rewrite (assemble_zipv (unpack fs) vals Wl); [reflexivity|].
  eapply ffs_length; eassumption.
Qed.

(* ---------- C14 at source level: the value given under either name is the field's value ---------- *)
Lemma spec_aliased_leaf E env tags names n tg t r :
  wf_ty t = true -> leaf_ok t = true -> under_is_struct t = false -> xexported n = true ->
  has_alias tags tg = true ->
  bound env (enc0 (names ++ [n])) -> bound env (enc0 (names ++ [n ++ alias_field_suffix])) ->
  fspec_fields E (Shape tags (Some 0%N) false false false) env 0%N names (FCons n tg false t r) =
  (x <- pick n t (valof env (enc0 (names ++ [n]))) (valof env (enc0 (names ++ [n ++ alias_field_suffix]))) ;;
   rest <- fspec_fields E (Shape tags (Some 0%N) false false false) env 0%N names r ;;
   Ok (x :: rest)).
Proof.
  intros W L U Ex Al B1 B2. rewrite (ffs_cons E env tags). rewrite Ex, Al. cbn [negb].
  rewrite (fty_leaf E env tags (names ++ [n]) t W L U B1). cbn [obind].
  rewrite (fty_leaf E env tags (names ++ [n ++ alias_field_suffix]) t W L U B2). cbn [obind]. reflexivity.
Qed.

Lemma pick_cases n t p a : wf_ty t = true ->
  (is_vnil p = false -> is_vnil a = true -> pick n t p a = Ok p) /\
  (is_vnil p = true -> is_vnil a = false -> pick n t p a = Ok a) /\
  (is_vnil p = true -> is_vnil a = true -> pick n t p a = Ok VNil) /\
  (is_vnil p = false -> is_vnil a = false -> pick n t p a = Err (alias_both_code n)).
Proof.
  intros W. unfold pick. rewrite (proj1 (proj2 (wf_ty_nilable t W))). rewrite !val_eqb_nil.
  repeat split; intros P A; rewrite P, A; try reflexivity. destruct p; try discriminate. reflexivity.
Qed.
