(* The alias stage in front of a flatten stage, against the by-name
   specification: [alias; flatten] (the flag / pflag chains). *)
From Coq Require Import List NArith ZArith Bool Lia PeanoNat.
From Dials Require Import Base.Outcome Base.Runes Reflect.Ty Text.CaseConv Transform.RType
  Transform.MAlias Transform.MFlatten Transform.MOthers Transform.Manglers Transform.Transformer
  Transform.WellFormed Transform.CounterpartSpec Transform.TransformerProofs Transform.AliasProofs
  Transform.ManglerProofs Transform.EmptyProofs Transform.FlattenProofs Transform.SpecProofs Transform.ValEq.
Import ListNotations.
Local Open Scope nat_scope.

(* ---------- C1: Mangle doubles exactly the fields the specification calls aliased ---------- *)
Definition has_alias (tags : list str) (tg : list (str * str)) : bool :=
  existsb (fun t => match tag_lookup (t ++ alias_sfx) tg with Some _ => true | None => false end) tags.

Lemma alias_scan_none tags sft :
  has_alias tags sft = false -> snd (fst (alias_scan tags sft)) = [] /\ snd (alias_scan tags sft) = sft.
Proof.
  revert sft; induction tags as [|t r IH]; intros sft H; simpl in *; [auto|].
  apply orb_false_iff in H as [H1 H2].
  destruct (tag_lookup (t ++ alias_sfx) sft); [discriminate|].
  destruct (alias_scan r sft) as [[os als] sft'] eqn:A. simpl.
  specialize (IH sft H2). rewrite A in IH. exact IH.
Qed.

Lemma alias_scan_some tags sft :
  has_alias tags sft = true -> snd (fst (alias_scan tags sft)) <> [].
Proof.
  revert sft; induction tags as [|t r IH]; intros sft H; simpl in *; [discriminate|].
  destruct (tag_lookup (t ++ alias_sfx) sft) eqn:L.
  - destruct (alias_scan r (tag_delete (t ++ alias_sfx) sft)) as [[os als] sft']. simpl. discriminate.
  - simpl in H. destruct (alias_scan r sft) as [[os als] sft'] eqn:A. simpl.
    specialize (IH sft H). rewrite A in IH. exact IH.
Qed.

Lemma alias_mangle_cases tags f outs : alias_mangle tags f = Ok outs ->
  (has_alias tags (sf_tags f) = false /\ outs = [f]) \/
  (has_alias tags (sf_tags f) = true /\
   exists t1 t2, outs = [SF (sf_name f) t1 (sf_anon f) (sf_ty f);
                         SF (sf_name f ++ alias_field_suffix) t2 (sf_anon f) (sf_ty f)]).
Proof.
  intros H. unfold alias_mangle in H.
  destruct (has_alias tags (sf_tags f)) eqn:A.
  - right. split; [reflexivity|]. pose proof (alias_scan_some tags (sf_tags f) A) as N.
    destruct (alias_scan tags (sf_tags f)) as [[os als] sft']. simpl in N.
    destruct als; [congruence|]. inversion H. eauto.
  - left. split; [reflexivity|]. destruct (alias_scan_none tags (sf_tags f) A) as [N1 N2].
    destruct (alias_scan tags (sf_tags f)) as [[os als] sft']. simpl in N1, N2. subst. inversion H.
    destruct f; reflexivity.
Qed.

(* ---------- the names the specification looks up, in the translated type's leaf order ---------- *)
Section ANames.
Variable tags : list str.

Fixpoint anames_ty (names : list str) (t : ty) : list (list str) :=
  match t with
  | TPtr (TStruct fs _) => anames_fields names fs
  | _ => [names]
  end
with anames_fields (names : list str) (fs : fields) : list (list str) :=
  match fs with
  | FNil => []
  | FCons n tg an t r =>
      anames_ty (if an then names else names ++ [n]) t ++
      (if has_alias tags tg then anames_ty (names ++ [n ++ alias_field_suffix]) t else []) ++
      anames_fields names r
  end.

Lemma anames_fields_cons names n tg an t r :
  anames_fields names (FCons n tg an t r) =
  anames_ty (if an then names else names ++ [n]) t ++
  (if has_alias tags tg then anames_ty (names ++ [n ++ alias_field_suffix]) t else []) ++
  anames_fields names r.
Proof. reflexivity. Qed.

(* no alias tag on an embedded field (it has no name to alias; with a
   flattening stage the two copies would collide) *)
Fixpoint alias_ok_ty (t : ty) : bool :=
  match t with
  | TPtr (TStruct fs _) => alias_ok_fields fs
  | _ => true
  end
with alias_ok_fields (fs : fields) : bool :=
  match fs with
  | FNil => true
  | FCons _ tg an t r => negb (an && has_alias tags tg) && alias_ok_ty t && alias_ok_fields r
  end.
End ANames.

(* ---------- C3: in the specification a struct is nil iff none of the leaves looked up below it is set ---------- *)
Lemma val_eqb_nil v : val_eqb v VNil = is_vnil v.
Proof. destruct v; reflexivity. Qed.

Lemma pick_nil n t p a x : wf_ty t = true -> pick n t p a = Ok x -> is_vnil x = is_vnil p && is_vnil a.
Proof.
  intros W. unfold pick. rewrite (proj1 (proj2 (wf_ty_nilable t W))). rewrite !val_eqb_nil.
  destruct (is_vnil p) eqn:P, (is_vnil a) eqn:A; simpl; intros H; inversion H; subst; auto.
Qed.

Lemma pick_both_nil n t p a : wf_ty t = true -> is_vnil p = true -> is_vnil a = true -> pick n t p a = Ok p.
Proof.
  intros W P A. unfold pick. rewrite (proj1 (proj2 (wf_ty_nilable t W))). rewrite !val_eqb_nil, P, A. reflexivity.
Qed.

Section SpecNil.
Variables (E : env) (env : named) (tags : list str).
Let sh : shape := Shape tags (Some 0%N) false false false.
Let fty := fspec_ty E sh env 0%N.
Let ffs := fspec_fields E sh env 0%N.
Let XS (l : list (list str)) : list val := map (valof env) (map enc0 l).

Lemma nspec_leaf_sh t tr v : wf_ty t = true -> leaf_ok t = true -> nspec_ty sh t tr v = Ok v.
Proof.
  intros W L. destruct t as [| |e|e nm| |k v' nm| | | |]; simpl in W, L; try discriminate.
  - destruct e; try discriminate; reflexivity.
  - destruct e; try discriminate; reflexivity.
  - reflexivity.
Qed.

Lemma fty_leaf names t : wf_ty t = true -> leaf_ok t = true -> under_is_struct t = false ->
  bound env (enc0 names) -> fty names t = Ok (valof env (enc0 names)).
Proof.
  intros W L U B.
  assert (F : fty names t = fspec_leaf E sh env 0%N names t).
  { unfold fty. destruct t as [| |e| | | | | | |]; try reflexivity. destruct e; try reflexivity. simpl in U. discriminate. }
  rewrite F. unfold fspec_leaf, valof, bound, enc0 in *.
  destruct (assoc_s (encode_by 0 names) env) as [[tr v]|]; [| congruence].
  unfold fleaf. simpl. now apply nspec_leaf_sh.
Qed.

Lemma ffs_cons names n tg an t r :
  ffs names (FCons n tg an t r) =
  (x <- (if negb (exported n) then Ok (zero t)
         else
           p <- fty (if an then names else names ++ [n]) t ;;
           if has_alias tags tg then
             a <- fty (names ++ [n ++ alias_field_suffix]) t ;; pick n t p a
           else Ok p) ;;
   rest <- ffs names r ;;
   Ok (x :: rest)).
Proof. reflexivity. Qed.

Lemma fty_struct names fs nm :
  fty names (TPtr (TStruct fs nm)) =
  (vals <- ffs names fs ;; if all_vnil vals then Ok VNil else Ok (VPtr (VStruct vals))).
Proof. reflexivity. Qed.

Definition nil_ty (t : ty) : Prop :=
  forall names, Forall (bound env) (map enc0 (anames_ty tags names t)) ->
    (forallb is_vnil (XS (anames_ty tags names t)) = true -> fty names t = Ok VNil) /\
    (forall v, fty names t = Ok v -> is_vnil v = forallb is_vnil (XS (anames_ty tags names t))).
Definition nil_fields (fs : fields) : Prop :=
  forall names, Forall (bound env) (map enc0 (anames_fields tags names fs)) ->
    (forallb is_vnil (XS (anames_fields tags names fs)) = true ->
       exists vals, ffs names fs = Ok vals /\ all_vnil vals = true) /\
    (forall vals, ffs names fs = Ok vals -> all_vnil vals = forallb is_vnil (XS (anames_fields tags names fs))).

Lemma nil_leaf t : wf_ty t = true -> leaf_ok t = true -> under_is_struct t = false -> nil_ty t.
Proof.
  intros W L U names B.
  assert (N : anames_ty tags names t = [names]).
  { destruct t as [| |e| | | | | | |]; try reflexivity. destruct e; try reflexivity. simpl in U. discriminate. }
  rewrite N in *. simpl in B. apply Forall_cons_iff in B as [B _].
  rewrite fty_leaf by assumption. unfold XS. simpl. rewrite andb_true_r. split.
  - intros H. destruct (valof env (enc0 names)); try discriminate. reflexivity.
  - intros v H. inversion H. reflexivity.
Qed.

Lemma spec_nil :
  (forall t, (wf_ty t = true -> simple_ty t = true -> nil_ty t) /\
             (forall fs nm, t = TStruct fs nm -> wf_fields fs = true -> simple_fields fs = true -> nil_fields fs)) /\
  (forall fs, wf_fields fs = true -> simple_fields fs = true -> nil_fields fs).
Proof.
  apply ty_fields_ind.
  - intros k nm. split; [intros W; discriminate | intros; discriminate].
  - intros id pr. split; [intros W; discriminate | intros; discriminate].
  - intros e [_ IHs]. split; [| intros; discriminate].
    intros W S. destruct (wf_leaf_or_struct (TPtr e) W) as [(U & _ & _) | (fs & nm & Eq & Wf)].
    + apply nil_leaf; auto. destruct e; simpl in U, S |- *; try discriminate; auto.
    + inversion Eq; subst e. clear Eq. simpl in S. specialize (IHs fs nm eq_refl Wf S).
      intros names B. simpl anames_ty in *. destruct (IHs names B) as [I1 I2]. rewrite fty_struct. split.
      * intros H. destruct (I1 H) as (vals & Hv & Hn). rewrite Hv. cbn [obind]. now rewrite Hn.
      * intros v H. destruct (ffs names fs) as [vals| |] eqn:Hv; simpl in H; try discriminate.
        pose proof (I2 vals eq_refl) as Q. destruct (all_vnil vals); inversion H; subst; simpl; exact Q.
  - intros e IH nm. split; [| intros; discriminate]. intros W S. apply nil_leaf; auto.
  - intros n e IH. split; [intros W; discriminate | intros; discriminate].
  - intros k IHk v IHv nm. split; [| intros; discriminate]. intros W S. apply nil_leaf; auto.
  - intros fs IH nm. split; [intros W; discriminate|].
    intros fs' nm' Eq W S. inversion Eq; subst. now apply IH.
  - split; [| intros; discriminate]. intros W S. simpl in S. discriminate.
  - split; [intros W; discriminate | intros; discriminate].
  - split; [intros W; discriminate | intros; discriminate].
  - intros _ _ names _. split; [intros _; exists []; split; reflexivity | intros vals H; inversion H; reflexivity].
  - intros n tg an t [IHt _] r IHr W S names B. simpl in W, S.
    apply andb_true_iff in W as [W Wr]. apply andb_true_iff in W as [W Wan]. apply andb_true_iff in W as [Wex Wt].
    apply andb_true_iff in S as [St Sr].
    rewrite anames_fields_cons in *. unfold XS in *. cbv beta in *. rewrite !map_app in B. rewrite !map_app.
    apply Forall_app in B as [B1 B]. apply Forall_app in B as [B2 B3].
    rewrite !forallb_app. rewrite ffs_cons, Wex. cbn [negb].
    destruct (IHt Wt St _ B1) as [P1 P2]. destruct (IHr Wr Sr names B3) as [R1 R2].
    destruct (has_alias tags tg) eqn:A.
    + destruct (IHt Wt St _ B2) as [A1 A2]. split.
      * intros H. apply andb_true_iff in H as [H1 H]. apply andb_true_iff in H as [H2 H3].
        rewrite (P1 H1). cbn [obind]. rewrite (A1 H2). cbn [obind].
        rewrite pick_both_nil by auto. cbn [obind].
        destruct (R1 H3) as (vals & Hv & Hn). rewrite Hv. cbn [obind]. exists (VNil :: vals). split; [reflexivity | exact Hn].
      * intros vals H.
        destruct (fty (if an then names else names ++ [n]) t) as [p| |] eqn:Hp; cbn [obind] in H; try discriminate.
        destruct (fty (names ++ [n ++ alias_field_suffix]) t) as [a| |] eqn:Ha; cbn [obind] in H; try discriminate.
        destruct (pick n t p a) as [x| |] eqn:Hx; cbn [obind] in H; try discriminate.
        destruct (ffs names r) as [rest| |] eqn:Hr; cbn [obind] in H; try discriminate.
        inversion H; subst. simpl.
        rewrite (pick_nil _ _ _ _ _ Wt Hx), (P2 _ eq_refl), (A2 _ eq_refl), (R2 _ eq_refl).
        now rewrite andb_assoc.
    + simpl. split.
      * intros H. apply andb_true_iff in H as [H1 H3].
        rewrite (P1 H1). cbn [obind]. destruct (R1 H3) as (vals & Hv & Hn). rewrite Hv. cbn [obind].
        exists (VNil :: vals). split; [reflexivity | exact Hn].
      * intros vals H.
        destruct (fty (if an then names else names ++ [n]) t) as [p| |] eqn:Hp; cbn [obind] in H; try discriminate.
        destruct (ffs names r) as [rest| |] eqn:Hr; cbn [obind] in H; try discriminate.
        inversion H; subst. simpl.
        now rewrite (P2 _ eq_refl), (R2 _ eq_refl).
Qed.
End SpecNil.
