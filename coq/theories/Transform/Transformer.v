(* Model of /repo/transform/transformer.go: TranslateType (per mangler, per
   field; the recorded transformMappingElement{in,out}; recursive
   single-mangler sub-transformers) and ReverseTranslate (backwards over the
   manglers with the running mangledfieldOffset, maybeRecursivelyUnmangle,
   final ConvertibleTo + Convert + Set).

   The recursion of the Go code follows the nesting of the config type; here
   it is on explicit fuel (Err out_of_fuel when exhausted; type_depth bounds
   the fuel needed, see TransformerProofs). *)
From Coq Require Import List NArith ZArith Bool.
From Dials Require Import Base.Outcome Base.Runes Reflect.Ty Transform.RType Transform.MAlias Transform.Manglers.
Import ListNotations.
Open Scope N_scope.

(* Transformer after TranslateType: its type t and mState; out fields keep the
   field as returned by Mangle (before recursion) and the sub-transformer *)
Inductive xstate :=
| XS (t : ty) (layers : list (list melem))
with melem :=
| ME (m_in : option sfield) (m_out : list (sfield * option xstate)).

Definition me_in (e : melem) : option sfield := match e with ME i _ => i end.
Definition me_out (e : melem) : list (sfield * option xstate) := match e with ME _ o => o end.
Definition xs_ty (x : xstate) : ty := match x with XS t _ => t end.
Definition xs_layers (x : xstate) : list (list melem) := match x with XS _ l => l end.

(* unpackFields *)
Definition unpack_ty (t : ty) : list sfield :=
  match t with TStruct fs _ => unpack fs | _ => [] end.

(* isStructishTypedField: the struct type below at most one pointer / array /
   slice.  Opaque TextUnmarshaler structs count (they are excluded from
   recursion separately, also as elements of a slice or array). *)
Definition structish_inner (t : ty) : option ty :=
  match t with
  | TStruct _ _ | TTextU _ _ => Some t
  | TPtr e | TArray _ e | TSlice e _ => if kind_struct e then Some e else None
  | _ => None
  end.

Definition rewrap (orig inner' : ty) : ty :=
  match orig with
  | TPtr _ => TPtr inner'
  | TArray n _ => TArray n inner'
  | TSlice _ _ => TSlice inner' []
  | _ => inner'
  end.

(* the end of TranslateType: a duplicate field name in the final layer is an
   error (fix: commit; reflect.StructOf panicked on it), then reflect.StructOf,
   which still panics on an unexported name produced by a mangler (only
   reachable with >= 1 mangler; with none the fields are those of the input
   type and keep their PkgPath) *)
Definition dup_name_err : N := 22.
Definition struct_of (checked : bool) (fs : list sfield) : outcome ty :=
  if has_dup (map sf_name fs) then Err dup_name_err
  else if checked && existsb (fun f => negb (xexported (sf_name f))) fs then Panic 6
  else Ok (TStruct (pack fs) []).

Section Translate.
(* sub m ft: TranslateType of the sub-transformer {manglers: [m], t: ft} *)
Variable sub : mangler -> ty -> outcome (ty * xstate).

(* maybeRecursivelyMangle for one output field *)
Definition recurse_out (m : mangler) (f : sfield) : outcome (sfield * (sfield * option xstate)) :=
  match structish_inner (sf_ty f) with
  | None => Ok (f, (f, None))
  | Some inner =>
      if negb (should_recurse m) then Ok (f, (f, None))
      else if either_implements_tu inner then Ok (f, (f, None))   (* asked of the stripped struct type (fix: commit) *)
      else
        r <- sub m inner ;;
        Ok (SF (sf_name f) (sf_tags f) (sf_anon f) (rewrap (sf_ty f) (fst r)), (f, Some (snd r)))
  end.

Fixpoint recurse_outs (m : mangler) (outs : list sfield) : outcome (list (sfield * (sfield * option xstate))) :=
  match outs with
  | [] => Ok []
  | f :: r => a <- recurse_out m f ;; b <- recurse_outs m r ;; Ok (a :: b)
  end.

(* one mangler over the fields of the current layer *)
Fixpoint xlate_layer (m : mangler) (lf : list sfield) : outcome (list sfield * list melem) :=
  match lf with
  | [] => Ok ([], [])
  | f :: r =>
      if negb (xexported (sf_name f)) then
        b <- xlate_layer m r ;; Ok (fst b, ME None [] :: snd b)
      else
        outs <- mangle m f ;;
        rec <- recurse_outs m outs ;;
        b <- xlate_layer m r ;;
        Ok (map fst rec ++ fst b, ME (Some f) (map snd rec) :: snd b)
  end.

Fixpoint xlate_layers (ms : list mangler) (lf : list sfield) : outcome (list sfield * list (list melem)) :=
  match ms with
  | [] => Ok (lf, [])
  | m :: r =>
      a <- xlate_layer m lf ;;
      b <- xlate_layers r (fst a) ;;
      Ok (fst b, snd a :: snd b)
  end.
End Translate.

Definition is_nil_list {A} (l : list A) : bool := match l with [] => true | _ => false end.

(* Transformer.TranslateType *)
Fixpoint translate (fuel : nat) (ms : list mangler) (t : ty) {struct fuel} : outcome (ty * xstate) :=
  match fuel with
  | O => Err out_of_fuel
  | S n =>
      a <- xlate_layers (fun m ft => translate n [m] ft) ms (unpack_ty t) ;;
      t' <- struct_of (negb (is_nil_list ms)) (fst a) ;;
      Ok (t', XS t (snd a))
  end.

(* ---------------- ReverseTranslate ---------------- *)

(* unpackValueFields *)
Definition unpack_value (v : tval) : list fvt :=
  match v with
  | (TStruct fs _, VStruct vs) => combine (unpack fs) (combine (map sf_ty (unpack fs)) vs)
  | _ => []
  end.

Definition sfo_or_zero (o : option sfield) : sfield := match o with Some f => f | None => zero_sf end.

Section Reverse.
Variable E : env.
(* subrev m x v: ReverseTranslate of the recorded sub-transformer x (manglers [m]) *)
Variable subrev : mangler -> xstate -> tval -> outcome tval.

Fixpoint rev_elems (m : mangler) (x : xstate) (et : ty) (l : list val) : outcome (list tval) :=
  match l with
  | [] => Ok []
  | v :: r => a <- subrev m x (et, v) ;; b <- rev_elems m x et r ;; Ok (a :: b)
  end.

(* store the unmangled elements into a container whose element type is `slot` *)
Fixpoint store_elems (checked : option ty) (slot : ty) (l : list tval) : outcome (list val) :=
  match l with
  | [] => Ok []
  | v :: r =>
      _ <- match checked with
           | Some et => if assignable (fst v) et then Ok tt else Err 21
           | None => Ok tt
           end ;;
      x <- set_into slot v ;;
      b <- store_elems checked slot r ;;
      Ok (x :: b)
  end.

Definition elem_of (t : ty) : ty :=
  match t with TPtr e | TSlice e _ | TArray _ e | TMap _ e _ => e | _ => TIface end.

(* maybeRecursivelyUnmangle for one mangled field; in_kind_array says whether
   fieldState.in.Type is an array *)
Definition rec_unmangle_one (m : mangler) (in_is_array : bool) (o : sfield * option xstate) (fv : fvt)
  : outcome fvt :=
  match snd o with
  | None => Ok fv
  | Some x =>
      let v := snd fv in
      let ot := sf_ty (fst o) in
      match fst v with
      | TPtr e =>
          match snd v with
          | VNil => Ok (fst fv, zero_tv ot)
          | VPtr pv => r <- subrev m x (e, pv) ;; Ok (fst fv, (TPtr (fst r), VPtr (snd r)))
          | _ => Panic 250
          end
      | TStruct _ _ | TTextU _ _ =>
          r <- subrev m x v ;; Ok (fst fv, r)
      | TSlice e _ =>
          match snd v with
          | VNil => Ok (fst fv, zero_tv ot)
          | VList l =>
              rs <- rev_elems m x e l ;;
              xs <- store_elems (Some (elem_of ot)) (elem_of ot) rs ;;
              Ok (fst fv, (ot, VList xs))
          | _ => Panic 250
          end
      | TArray _ e =>
          match snd v with
          | VList l =>
              rs <- rev_elems m x e l ;;
              (* only when the mangler's input field was an array is a fresh
                 array of the out type made; otherwise the elements are set
                 into the mangled value itself *)
              let ct := if in_is_array then ot else fst v in
              xs <- store_elems (Some (elem_of ot)) (elem_of ct) rs ;;
              Ok (fst fv, (ct, VList xs))
          | _ => Panic 250
          end
      | _ => Ok fv
      end
  end.

Fixpoint rec_unmangle (m : mangler) (in_is_array : bool) (outs : list (sfield * option xstate))
  (fvs : list fvt) : outcome (list fvt) :=
  match outs, fvs with
  | o :: outs', fv :: fvs' =>
      a <- rec_unmangle_one m in_is_array o fv ;;
      b <- rec_unmangle m in_is_array outs' fvs' ;;
      Ok (a :: b)
  | _, _ => Ok fvs     (* lengths agree by construction of the slice *)
  end.

Definition is_array_ty (t : ty) : bool := match t with TArray _ _ => true | _ => false end.

(* unmangleField *)
Definition unmangle_field (m : mangler) (e : melem) (fvs : list fvt) : outcome tval :=
  let in_arr := match me_in e with Some f => is_array_ty (sf_ty f) | None => false end in
  mf <- rec_unmangle m in_arr (me_out e) fvs ;;
  unmangle E m (me_in e) mf.

(* the loop over t.mState[manglerNum] with the running mangledfieldOffset *)
Fixpoint rev_layer (m : mangler) (elems : list melem) (lv : list fvt) (offset : nat)
  : outcome (list fvt) :=
  match elems with
  | [] => Ok []
  | e :: r =>
      let n := length (me_out e) in
      if negb (xexported (sfo_name (me_in e))) then
        (* an unexported field skipped by TranslateType: nothing to unmangle *)
        rest <- rev_layer m r lv offset ;;
        Ok ((zero_sf, (TIface, VNil)) :: rest)
      else if Nat.ltb (length lv) (offset + n) then Panic 2
      else
        nv <- unmangle_field m e (firstn n (skipn offset lv)) ;;
        rest <- rev_layer m r lv (offset + n) ;;
        Ok ((sfo_or_zero (me_in e), nv) :: rest)
  end.

(* backwards over the manglers: `mls` pairs each mangler with its recorded layer *)
Fixpoint rev_layers (mls : list (mangler * list melem)) (lv : list fvt) : outcome (list fvt) :=
  match mls with
  | [] => Ok lv
  | (m, elems) :: r =>
      lv' <- rev_layers r lv ;;
      rev_layer m elems lv' 0
  end.
End Reverse.

(* reassembly of the original struct: fields are addressed through the
   preserved Index of the first mangler's input fields, i.e. positionally *)
Fixpoint assemble (ofs : list sfield) (lv : list fvt) {struct ofs} : outcome (list val) :=
  match ofs with
  | [] => if existsb (fun fv => xexported (sf_name (fst fv))) lv then Panic 2 else Ok []
  | o :: ofs' =>
      match lv with
      | [] => r <- assemble ofs' [] ;; Ok (zero (sf_ty o) :: r)
      | (f, v) :: r =>
          x <- (if negb (xexported (sf_name f)) then Ok (zero (sf_ty o))
                else if negb (convertible (fst v) (sf_ty o)) then Err 20
                else (c <- convert v (sf_ty o) ;; set_into (sf_ty o) c)) ;;
          rest <- assemble ofs' r ;;
          Ok (x :: rest)
      end
  end.

(* Transformer.ReverseTranslate *)
Fixpoint reverse (fuel : nat) (E : env) (ms : list mangler) (x : xstate) (v : tval) {struct fuel}
  : outcome tval :=
  match fuel with
  | O => Err out_of_fuel
  | S n =>
      lv <- rev_layers E (fun m sx sv => reverse n E [m] sx sv)
              (combine ms (xs_layers x)) (unpack_value v) ;;
      match xs_ty x with
      | TStruct fs _ => vals <- assemble (unpack fs) lv ;; Ok (xs_ty x, VStruct vals)
      | _ => Panic 1
      end
  end.

(* fuel sufficient for a type: nesting depth of struct types + 1 *)
Fixpoint type_depth (t : ty) : nat :=
  match t with
  | TPtr e | TSlice e _ | TArray _ e => type_depth e
  | TMap k v _ => Nat.max (type_depth k) (type_depth v)
  | TStruct fs _ => S (fields_depth fs)
  | _ => O
  end
with fields_depth (fs : fields) : nat :=
  match fs with
  | FNil => O
  | FCons _ _ _ t r => Nat.max (type_depth t) (fields_depth r)
  end.

Definition fuel_for (t : ty) : nat := S (S (type_depth t)).
