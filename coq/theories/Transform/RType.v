(* Reflect-level vocabulary shared by the transformer and mangler models:
   struct-field descriptors (reflect.StructField), dynamically typed values
   (reflect.Value = type + tree value), tag operations (fatih/structtag on
   association lists), type identity / assignability / convertibility as
   reflect decides them on the modelled universe, and small string helpers.

   Panic codes used by the Transform models (reflect / runtime panics):
     1 NumField/Field on a non-struct        2 index or slice bounds out of range
     3 reflect.Set/Append/SetMapIndex with a non-assignable value
     4 IsNil on a non-nilable kind           5 (unused since the fix: StructOf duplicate field)
     6 reflect.StructOf: unexported / invalid field name
     7 Addr of an unaddressable value        8 failed interface type assertion
     9 Type.Elem of a wrong kind            10 Convert of a non-convertible value
    11 method call on the nil Type of a zero StructField
   250 a conversion/shape outside the modelled universe (never expected)
   Err codes: 1 flatten: field not pointerized   2 flatten: value type not assignable
     3 flatten: number of values <> number of leaves   4 flatten: cannot set (unexported)
    10 alias: expected 1 or 2 tuples   20 final assembly: incompatible types   22 duplicate field name after mangling
    21 recursive unmangle: element not assignable   30/31 set-slice: not a slice / wrong element
    40 text-unmarshaler: UnmarshalText failed   255 out of fuel
    alias "both set": alias_both_code name (>= 2^32, carries the field name);
    errors of the case decoders keep their own small codes. *)
From Coq Require Import String.
From Coq Require Import List NArith ZArith Bool.
From Dials Require Import Base.Outcome Base.Runes Reflect.Ty.
Import ListNotations.
Open Scope N_scope.

(* ast.IsExported beyond ASCII: Reflect/Ty.v's `exported` knows A..Z only; field
   names may also start with one of these non-ASCII upper-case letters
   (Ä Ö Ü É Đ Ω Ж - the ones the harness generates) *)
Definition upper_x : list rune := [196; 214; 220; 201; 272; 937; 1046].
Definition is_upper_x (c : rune) : bool := existsb (N.eqb c) upper_x.
Definition xexported (name : str) : bool :=
  match name with c :: _ => is_upper c || is_upper_x c | [] => false end.

Record sfield := SF { sf_name : str; sf_tags : list (str * str); sf_anon : bool; sf_ty : ty }.
Definition tval := (ty * val)%type.
Definition fvt := (sfield * tval)%type.   (* transform.FieldValueTuple *)

(* the zero reflect.StructField (its Type is nil; TIface is a placeholder
   that is never inspected: manglers receive `None` instead) *)
Definition zero_sf : sfield := SF [] [] false TIface.

Fixpoint unpack (fs : fields) : list sfield :=
  match fs with
  | FNil => []
  | FCons n tg an t r => SF n tg an t :: unpack r
  end.
Fixpoint pack (l : list sfield) : fields :=
  match l with
  | [] => FNil
  | f :: r => FCons (sf_name f) (sf_tags f) (sf_anon f) (sf_ty f) (pack r)
  end.

Definition oerr {A} (c : N) : outcome A := Err c.
Definition out_of_fuel : N := 255.

(* ---- kinds ---- *)
Definition is_vnil (v : val) : bool := match v with VNil => true | _ => false end.

(* kinds on which reflect.Value.IsNil is defined *)
Definition can_nil (t : ty) : bool :=
  match t with TPtr _ | TSlice _ _ | TMap _ _ _ | TIface | TChan | TFunc => true | _ => false end.

Definition go_is_nil (tv : tval) : outcome bool :=
  if can_nil (fst tv) then Ok (is_vnil (snd tv)) else Panic 4.

(* reflect.Value.IsZero: nil for the nilable kinds, the zero value otherwise *)
Definition go_is_zero (tv : tval) : bool := val_eqb (snd tv) (zero (fst tv)).

(* transform.isNil (flatten_mangler.go): false on non-nilable kinds *)
Definition soft_is_nil (tv : tval) : bool := can_nil (fst tv) && is_vnil (snd tv).

Definition kind_struct (t : ty) : bool :=
  match t with TStruct _ _ | TTextU _ _ => true | _ => false end.

(* t.Implements(TextUnmarshaler) / reflect.PtrTo(t).Implements(TextUnmarshaler) *)
Definition implements_tu (t : ty) : bool :=
  match t with TTextU _ false => true | TPtr (TTextU _ _) => true | _ => false end.
Definition ptr_implements_tu (t : ty) : bool :=
  match t with TTextU _ _ => true | _ => false end.
Definition either_implements_tu (t : ty) : bool := implements_tu t || ptr_implements_tu t.

(* ---- names, identity, assignability, convertibility ---- *)
Definition nonempty_s (s : str) : bool := match s with [] => false | _ => true end.

Definition ty_name (t : ty) : str :=
  match t with
  | TBasic _ n | TSlice _ n | TMap _ _ n | TStruct _ n => n
  | TTextU id _ => id
  | _ => []
  end.
Definition is_named (t : ty) : bool := nonempty_s (ty_name t).

Definition strip_name (t : ty) : ty :=
  match t with
  | TBasic k _ => TBasic k []
  | TSlice e _ => TSlice e []
  | TMap k v _ => TMap k v []
  | TStruct fs _ => TStruct fs []
  | _ => t
  end.

Definition is_iface (t : ty) : bool := match t with TIface => true | _ => false end.

(* Type.AssignableTo: identical, or identical underlying types with at least
   one side unnamed; anything is assignable to the (empty) interface type *)
Definition assignable (v t : ty) : bool :=
  ty_eqb v t || is_iface t ||
  ((negb (is_named v) || negb (is_named t)) && ty_eqb (strip_name v) (strip_name t)).

(* struct tags are ignored by conversion, at every depth *)
Fixpoint erase_tags (t : ty) : ty :=
  match t with
  | TPtr e => TPtr (erase_tags e)
  | TSlice e n => TSlice (erase_tags e) n
  | TArray k e => TArray k (erase_tags e)
  | TMap k v n => TMap (erase_tags k) (erase_tags v) n
  | TStruct fs n => TStruct (erase_tags_fields fs) n
  | _ => t
  end
with erase_tags_fields (fs : fields) : fields :=
  match fs with
  | FNil => FNil
  | FCons n _ an t r => FCons n [] an (erase_tags t) (erase_tags_fields r)
  end.

Definition under_notags (t : ty) : ty := strip_name (erase_tags t).

Definition numeric_kind (k : kind) : bool :=
  match k with KInt _ | KUint _ | KFloat _ => true | _ => false end.
Definition complex_kind (k : kind) : bool := match k with KComplex _ => true | _ => false end.

(* Type.ConvertibleTo on the modelled universe *)
Definition convertible (s d : ty) : bool :=
  assignable s d ||
  ty_eqb (under_notags s) (under_notags d) ||
  match s, d with
  | TPtr a, TPtr b => ty_eqb (under_notags a) (under_notags b)
  | TBasic ks _, TBasic kd _ =>
      (numeric_kind ks && numeric_kind kd) || (complex_kind ks && complex_kind kd)
  | _, _ => false
  end.

(* Value.Convert: the tree value is unchanged whenever source and target have
   the same representation; numeric conversions between different kinds are
   outside the modelled universe *)
Definition convert (tv : tval) (d : ty) : outcome tval :=
  let (s, v) := tv in
  if negb (convertible s d) then Panic 10
  else match s, d with
       | TBasic ks _, TBasic kd _ => if kind_eqb ks kd then Ok (d, v) else Panic 250
       | _, _ => Ok (d, v)
       end.

(* assignableOrConverted (flatten_mangler.go): the value in a form that can be
   Set on a slot of type t, or None *)
Definition assign_or_convert (v : tval) (t : ty) : outcome (option tval) :=
  if assignable (fst v) t then Ok (Some v)
  else if convertible (fst v) t then (c <- convert v t ;; Ok (Some c))
  else Ok None.

(* Value.Set into a slot of type t *)
Definition set_into (t : ty) (tv : tval) : outcome val :=
  if assignable (fst tv) t then Ok (snd tv) else Panic 3.

Definition zero_tv (t : ty) : tval := (t, zero t).

Definition type_elem (t : ty) : outcome ty :=
  match t with
  | TPtr e | TSlice e _ | TArray _ e | TMap _ e _ => Ok e
  | _ => Panic 9
  end.

(* ---- struct tags (association lists; fatih/structtag) ---- *)
Definition tags := list (str * str).

Fixpoint tag_replace (k v : str) (t : tags) : tags * bool :=
  match t with
  | [] => ([], false)
  | (k', v') :: r =>
      let (r', f) := tag_replace k v r in
      if str_eqb k k' then ((k', v) :: r', true) else ((k', v') :: r', f)
  end.
(* Tags.Set: replace in place, else append *)
Definition tag_set (k v : str) (t : tags) : tags :=
  let (t', found) := tag_replace k v t in if found then t' else t ++ [(k, v)].
Definition tag_delete (k : str) (t : tags) : tags :=
  filter (fun kv => negb (str_eqb k (fst kv))) t.

Definition comma : rune := 44.
(* Tag.Name: the value up to the first comma *)
Fixpoint tag_name (v : str) : str :=
  match v with
  | [] => []
  | c :: r => if c =? comma then [] else c :: tag_name r
  end.
(* StructTag.Get: "" when absent *)
Definition tag_get (k : str) (t : tags) : str :=
  match tag_lookup k t with Some v => v | None => [] end.

(* ---- strings ---- *)
Fixpoint join_s (sep : str) (ws : list str) : str :=
  match ws with
  | [] => []
  | [w] => w
  | w :: r => w ++ sep ++ join_s sep r
  end.

Fixpoint str_leb (a b : str) : bool :=
  match a, b with
  | [], _ => true
  | _ :: _, [] => false
  | x :: a', y :: b' => if x <? y then true else if y <? x then false else str_leb a' b'
  end.
Fixpoint insert_s (x : str) (l : list str) : list str :=
  match l with
  | [] => [x]
  | y :: r => if str_leb x y then x :: l else y :: insert_s x r
  end.
Definition sort_s (l : list str) : list str := fold_right insert_s [] l.

Fixpoint has_dup (l : list str) : bool :=
  match l with
  | [] => false
  | x :: r => existsb (str_eqb x) r || has_dup r
  end.

Definition string_ty : ty := TBasic KString (s2r "string"%string).
Definition str_ptr_ty : ty := TPtr string_ty.
Definition empty_struct_ty : ty := TStruct FNil [].
