(* flatten is lossless: populateStruct rebuilds, from the values of the
   flattened fields (in flattenStruct's depth-first order), a value whose
   leaves read back - in the same order - are exactly those values, with a
   parent struct allocated iff one of the leaves below it is set. *)
From Coq Require Import List NArith ZArith Bool Lia PeanoNat.
From Dials Require Import Base.Outcome Base.Runes Reflect.Ty Text.CaseConv Transform.RType
  Transform.MFlatten Transform.Manglers Transform.WellFormed Transform.ManglerProofs Transform.EmptyProofs.
Import ListNotations.
Local Open Scope nat_scope.

(* declared types of the leaves below a field, depth first *)
Fixpoint leaves_ty (t : ty) : list ty :=
  match t with
  | TPtr (TStruct fs _) => leaves_fields fs
  | _ => [t]
  end
with leaves_fields (fs : fields) : list ty :=
  match fs with
  | FNil => []
  | FCons _ _ _ t r => leaves_ty t ++ leaves_fields r
  end.

(* the leaves of an original value, depth first; below a nil struct pointer every leaf is unset *)
Fixpoint read_ty (t : ty) (v : val) : list val :=
  match t with
  | TPtr (TStruct fs _) =>
      match v with
      | VPtr (VStruct vals) => read_fields fs vals
      | _ => map (fun _ => VNil) (leaves_fields fs)
      end
  | _ => [v]
  end
with read_fields (fs : fields) (vals : list val) : list val :=
  match fs with
  | FNil => []
  | FCons _ _ _ t r =>
      match vals with
      | v :: vr => read_ty t v ++ read_fields r vr
      | [] => []
      end
  end.

Definition any_set (xs : list val) : bool := negb (forallb is_vnil xs).

(* the value populateStruct builds from the leaf values, positionally *)
Fixpoint build_ty (t : ty) (xs : list val) : val :=
  match t with
  | TPtr (TStruct fs _) => if any_set xs then VPtr (VStruct (build_fields fs xs)) else VNil
  | _ => hd VNil xs
  end
with build_fields (fs : fields) (xs : list val) : list val :=
  match fs with
  | FNil => []
  | FCons _ _ _ t r =>
      build_ty t (firstn (length (leaves_ty t)) xs) :: build_fields r (skipn (length (leaves_ty t)) xs)
  end.

Lemma all_nil_repeat xs : forallb is_vnil xs = true -> xs = map (fun _ => VNil) xs.
Proof.
  induction xs as [|x r IH]; simpl; [reflexivity|]. intros H. apply andb_true_iff in H as [H1 H2].
  destruct x; try discriminate. now rewrite <- IH.
Qed.

Lemma map_const_length {A B} (l : list A) (l' : list B) (c : val) :
  length l = length l' -> map (fun _ => c) l = map (fun _ => c) l'.
Proof. revert l'; induction l as [|a r IH]; intros [|b r'] H; simpl in *; try discriminate; [reflexivity|]. f_equal. apply IH. lia. Qed.

Lemma combine_app {A B} (l1 l2 : list A) (x1 x2 : list B) : length l1 = length x1 ->
  combine (l1 ++ l2) (x1 ++ x2) = combine l1 x1 ++ combine l2 x2.
Proof.
  revert x1; induction l1 as [|a r IH]; intros [|b x1] H; simpl in *; try discriminate; [reflexivity|].
  f_equal. apply IH. lia.
Qed.

Lemma pop_ty_struct fs nm vs :
  pop_ty (TPtr (TStruct fs nm)) (TPtr (TStruct fs nm)) vs =
  (r <- pop_fields fs vs ;;
   let '(fvals, rest, any) := r in
   if any then Ok (VPtr (VStruct fvals), rest, true) else Ok (VNil, rest, false)).
Proof.
  change (pop_ty (TPtr (TStruct fs nm)) (TPtr (TStruct fs nm)) vs)
    with (r <- pop_fields fs vs ;;
          let '(fvals, rest, any) := r in
          if any then (if assignable (TPtr (TStruct fs nm)) (TPtr (TStruct fs nm))
                       then Ok (VPtr (VStruct fvals), rest, true) else Panic 3)
          else Ok (zero (TPtr (TStruct fs nm)), rest, false)).
  rewrite assignable_refl. reflexivity.
Qed.

Lemma pop_ty_leaf t x rest : wf_ty t = true -> under_is_struct t = false ->
  pop_ty t t ((t, x) :: rest) = Ok (x, rest, negb (is_vnil x)).
Proof.
  intros W U.
  assert (pop_ty t t ((t, x) :: rest) =
          (a <- assign_or_convert (t, x) t ;;
           match a with
           | None => Err 2
           | Some v' => if soft_is_nil v' then Ok (zero t, rest, false) else Ok (snd v', rest, true)
           end)) as ->.
  { destruct t as [| |e| | | | | | |]; simpl in W; try discriminate; try reflexivity.
    destruct e; simpl in W, U; try discriminate; reflexivity. }
  unfold assign_or_convert. cbn [fst]. rewrite assignable_refl. cbn [obind].
  unfold soft_is_nil. cbn [fst snd]. rewrite (proj1 (wf_ty_nilable t W)). cbn [andb].
  destruct x; simpl; try reflexivity. now rewrite (proj1 (proj2 (wf_ty_nilable t W))).
Qed.

Lemma wf_leaf_or_struct t : wf_ty t = true ->
  (under_is_struct t = false /\ leaves_ty t = [t] /\ (forall v, read_ty t v = [v])) \/
  (exists fs nm, t = TPtr (TStruct fs nm) /\ wf_fields fs = true).
Proof.
  intros W. destruct t as [| |e| | | | | | |]; simpl in W; try discriminate;
    try (left; repeat split; reflexivity).
  destruct e; try discriminate; try (left; repeat split; reflexivity).
  right. eauto.
Qed.

Definition ty_stmt (t : ty) : Prop :=
  forall xs rest, length xs = length (leaves_ty t) ->
    exists v, pop_ty t t (combine (leaves_ty t) xs ++ rest) = Ok (v, rest, any_set xs) /\
              read_ty t v = xs /\ (any_set xs = false -> v = VNil) /\ v = build_ty t xs.
Definition fields_stmt (fs : fields) : Prop :=
  forall xs rest, length xs = length (leaves_fields fs) ->
    exists vals, pop_fields fs (combine (leaves_fields fs) xs ++ rest) = Ok (vals, rest, any_set xs) /\
                 read_fields fs vals = xs /\ vals = build_fields fs xs.

Lemma leaf_stmt t : wf_ty t = true -> under_is_struct t = false -> leaves_ty t = [t] ->
  (forall v, read_ty t v = [v]) -> ty_stmt t.
Proof.
  intros W U Lv Rd xs rest L. rewrite Lv in *.
  destruct xs as [|x [|? ?]]; simpl in L; try discriminate.
  exists x. simpl combine. simpl app. rewrite pop_ty_leaf by assumption.
  unfold any_set. simpl. rewrite andb_true_r. repeat split; [apply Rd | |].
  - intros N. destruct x; simpl in N; try discriminate. reflexivity.
  - destruct t as [| |e| | | | | | |]; try reflexivity. destruct e; try reflexivity. simpl in U. discriminate.
Qed.

Lemma any_set_app xs ys : any_set (xs ++ ys) = any_set xs || any_set ys.
Proof. unfold any_set. rewrite forallb_app. now rewrite negb_andb. Qed.

Lemma build_leaf t x : under_is_struct t = false -> build_ty t [x] = x.
Proof. destruct t as [| |e| | | | | | |]; try reflexivity. destruct e; try reflexivity. simpl. discriminate. Qed.

Lemma build_fields_app n tg an t r x1 x2 : length x1 = length (leaves_ty t) ->
  build_fields (FCons n tg an t r) (x1 ++ x2) = build_ty t x1 :: build_fields r x2.
Proof.
  intros L. cbn [build_fields]. rewrite <- L.
  rewrite firstn_app, firstn_all, Nat.sub_diag. simpl firstn. rewrite app_nil_r.
  rewrite skipn_app, skipn_all, Nat.sub_diag. reflexivity.
Qed.

Lemma pop_readback :
  (forall t, (wf_ty t = true -> ty_stmt t) /\
             (forall fs nm, t = TStruct fs nm -> wf_fields fs = true -> fields_stmt fs)) /\
  (forall fs, wf_fields fs = true -> fields_stmt fs).
Proof.
  apply ty_fields_ind.
  - intros k nm. split; [intros W; discriminate | intros; discriminate].
  - intros id pr. split; [intros W; discriminate | intros; discriminate].
  - (* TPtr e *)
    intros e [_ IHs]. split; [| intros; discriminate].
    intros W. destruct (wf_leaf_or_struct (TPtr e) W) as [(U & Lv & Rd) | (fs & nm & E & Wf)].
    + now apply leaf_stmt.
    + inversion E; subst e. clear E.
      specialize (IHs fs nm eq_refl Wf). intros xs rest L.
      destruct (IHs xs rest L) as (vals & P & R & B).
      rewrite pop_ty_struct. simpl leaves_ty. rewrite P. cbn [obind].
      destruct (any_set xs) eqn:A.
      * exists (VPtr (VStruct vals)). repeat split; [exact R | discriminate | cbn [build_ty]; now rewrite A, B].
      * exists VNil. split; [reflexivity|]. split; [| split; [reflexivity | cbn [build_ty]; now rewrite A]]. simpl.
        unfold any_set in A. apply negb_false_iff in A.
        rewrite (all_nil_repeat xs A). apply map_const_length. now rewrite L.
  - intros e IH nm. split; [| intros; discriminate].
    intros W. apply leaf_stmt; auto.
  - intros n e IH. split; [intros W; discriminate | intros; discriminate].
  - intros k IHk v IHv nm. split; [| intros; discriminate].
    intros W. apply leaf_stmt; auto.
  - (* TStruct *)
    intros fs IH nm. split; [intros W; discriminate|].
    intros fs' nm' E W. inversion E; subst. now apply IH.
  - split; [| intros; discriminate]. intros W. apply leaf_stmt; auto.
  - split; [intros W; discriminate | intros; discriminate].
  - split; [intros W; discriminate | intros; discriminate].
  - (* FNil *) intros _ xs rest L. destruct xs; [| discriminate]. exists []. simpl. auto.
  - (* FCons *)
    intros n tg an t [IHt _] r IHr W xs rest L. simpl in W.
    apply andb_true_iff in W as [W Wr]. apply andb_true_iff in W as [W Wan].
    apply andb_true_iff in W as [Wex Wt].
    simpl leaves_fields in *. rewrite app_length in L.
    set (n1 := length (leaves_ty t)) in *.
    assert (X : xs = firstn n1 xs ++ skipn n1 xs) by (symmetry; apply firstn_skipn).
    set (x1 := firstn n1 xs) in *. set (x2 := skipn n1 xs) in *.
    assert (L1 : length x1 = n1) by (unfold x1; rewrite firstn_length; lia).
    assert (L2 : length x2 = length (leaves_fields r)) by (unfold x2; rewrite skipn_length; lia).
    rewrite X. rewrite combine_app by (symmetry; exact L1). rewrite <- app_assoc.
    rewrite pop_fields_cons. rewrite Wex. cbn [negb].
    destruct (IHr Wr x2 rest L2) as (vr & Pr & Rr & Br).
    destruct (wf_leaf_or_struct t Wt) as [(U & Lv & Rd) | (fs & nm & E & Wf)].
    + rewrite U. unfold n1 in L1. rewrite Lv in *. simpl in L1.
      destruct x1 as [|x [|? ?]]; simpl in L1; try discriminate.
      simpl combine. simpl app.
      unfold assign_or_convert. cbn [fst]. rewrite assignable_refl. cbn [obind].
      unfold soft_is_nil. cbn [fst snd]. rewrite (proj1 (wf_ty_nilable t Wt)). cbn [andb].
      change (x :: x2) with ([x] ++ x2). rewrite any_set_app.
      assert (RF : forall v0 vr0, read_fields (FCons n tg an t r) (v0 :: vr0) = read_ty t v0 ++ read_fields r vr0)
        by reflexivity.
      destruct (is_vnil x) eqn:Nx.
      * cbn [obind]. rewrite Pr. cbn [obind]. exists (zero t :: vr).
        destruct x; try discriminate. rewrite (proj1 (proj2 (wf_ty_nilable t Wt))).
        split; [reflexivity|]. split; [now rewrite RF, Rd, Rr|].
        rewrite (build_fields_app n tg an t r [VNil] x2) by (rewrite Lv; reflexivity). rewrite <- Br.
        now rewrite build_leaf by exact U.
      * cbn [obind snd]. rewrite Pr. cbn [obind]. exists (x :: vr).
        split; [unfold any_set at 2; simpl; rewrite Nx; reflexivity|]. split; [now rewrite RF, Rd, Rr|].
        rewrite (build_fields_app n tg an t r [x] x2) by (rewrite Lv; reflexivity). rewrite <- Br.
        now rewrite build_leaf by exact U.
    + subst t. assert (U : under_is_struct (TPtr (TStruct fs nm)) = true) by reflexivity. rewrite U.
      destruct (IHt Wt x1 (combine (leaves_fields r) x2 ++ rest) L1) as (v & P & R & _ & Bv).
      rewrite P. cbn [obind]. rewrite Pr. cbn [obind]. exists (v :: vr).
      rewrite any_set_app. split; [reflexivity|].
      change (read_fields (FCons n tg an (TPtr (TStruct fs nm)) r) (v :: vr))
        with (read_ty (TPtr (TStruct fs nm)) v ++ read_fields r vr).
      split; [now rewrite R, Rr|].
      rewrite (build_fields_app n tg an (TPtr (TStruct fs nm)) r x1 x2) by exact L1. now rewrite Bv, Br.
Qed.

(* the types of the fields flattenStruct produces are the declared types of the leaves, in order *)
Lemma fl_types tag tenc :
  (forall t names tgs path full newtag outs,
      wf_ty full = true ->
      (t = full \/ (full = TPtr t /\ match t with TPtr _ => False | _ => True end)) ->
      fl_ty tag 0 tenc names tgs path full newtag t = Ok outs ->
      map sf_ty outs = leaves_ty full) /\
  (forall fs names tgs path outs,
      wf_fields fs = true ->
      fl_fields tag 0 tenc names tgs path fs = Ok outs ->
      map sf_ty outs = leaves_fields fs).
Proof.
  assert (LEAF : forall t names tgs path full newtag outs,
             wf_ty full = true ->
             (t = full \/ (full = TPtr t /\ match t with TPtr _ => False | _ => True end)) ->
             match t with TPtr _ | TStruct _ _ => False | _ => True end ->
             fl_ty tag 0 tenc names tgs path full newtag t = Ok outs ->
             map sf_ty outs = leaves_ty full).
  { intros t names tgs path full newtag outs W Sh Ht H.
    assert (outs = [SF (encode_by 0 names) newtag false full]) as ->
      by (destruct t; try contradiction; simpl in H; inversion H; reflexivity).
    simpl. destruct Sh as [<- | [-> _]]; destruct t; try contradiction; reflexivity. }
  apply ty_fields_ind.
  - intros; eapply LEAF; [eassumption | | | eassumption]; [eassumption | exact I].
  - intros; eapply LEAF; [eassumption | | | eassumption]; [eassumption | exact I].
  - intros e IH names tgs path full newtag outs W Sh H.
    destruct Sh as [Sh | [_ F]]; [| contradiction]. subst full. simpl in H.
    eapply IH; [exact W | | exact H].
    right. split; [reflexivity|]. destruct e; simpl in W; try discriminate; exact I.
  - intros; eapply LEAF; [eassumption | | | eassumption]; [eassumption | exact I].
  - intros; eapply LEAF; [eassumption | | | eassumption]; [eassumption | exact I].
  - intros; eapply LEAF; [eassumption | | | eassumption]; [eassumption | exact I].
  - intros fs IH nm names tgs path full newtag outs W Sh H.
    destruct Sh as [Sh | [Sh _]]; subst full; simpl in W; [discriminate|]. simpl in H.
    simpl. eapply IH; eassumption.
  - intros; eapply LEAF; [eassumption | | | eassumption]; [eassumption | exact I].
  - intros; eapply LEAF; [eassumption | | | eassumption]; [eassumption | exact I].
  - intros; eapply LEAF; [eassumption | | | eassumption]; [eassumption | exact I].
  - intros names tgs path outs _ H. simpl in H. inversion H. reflexivity.
  - intros n tg an t IHt r IHr names tgs path outs W H.
    rewrite (fl_fields_cons tag tenc) in H. simpl in W.
    apply andb_true_iff in W as [W Wr]. apply andb_true_iff in W as [W Wan].
    apply andb_true_iff in W as [Wex Wt].
    dob H nt Hnt. dob H a Ha. dob H b Hb. inversion H; subst.
    rewrite map_app. simpl. f_equal.
    + eapply IHt; [exact Wt | left; reflexivity | exact Ha].
    + eapply IHr; eassumption.
Qed.

(* flatten, one field: from ANY values written to the flattened fields of
   the field f, Unmangle rebuilds a value of f's type whose leaves, read back
   depth first, are exactly those values; it is nil (no parent allocated) iff
   none of them is set *)
Theorem flatten_lossless_l : forall tag te f outs (fvs : list fvt) xs,
  wf_sf f = true -> flatten_mangle tag 0 te f = Ok outs ->
  length xs = length outs -> map snd fvs = combine (map sf_ty outs) xs ->
  exists v, flatten_unmangle (Some f) fvs = Ok (sf_ty f, v) /\
            read_ty (sf_ty f) v = xs /\
            (forallb is_vnil xs = true -> v = VNil).
Proof.
  intros tag te f outs fvs xs W H L Hv.
  destruct (wf_sf_parts f W) as (Wn & Wt & Wa).
  rewrite flatten_mangle_wf in H by exact Wt. dob H nt Hnt.
  assert (T : map sf_ty outs = leaves_ty (sf_ty f)).
  { destruct (under_is_struct (sf_ty f)) eqn:U.
    - eapply (proj1 (fl_types tag te)); [exact Wt | left; reflexivity | exact H].
    - inversion H; subst. simpl.
      destruct (wf_leaf_or_struct (sf_ty f) Wt) as [(_ & Lv & _) | (fs & nm & E & _)]; [now rewrite Lv|].
      rewrite E in U. discriminate. }
  assert (L' : length xs = length (leaves_ty (sf_ty f))) by (rewrite <- T, map_length; exact L).
  destruct (proj1 pop_readback (sf_ty f)) as [St _].
  destruct (St Wt xs [] L') as (v & P & R & N & _).
  exists v. unfold flatten_unmangle. rewrite Hv, T. rewrite app_nil_r in P. rewrite P.
  repeat split; [exact R|]. intros A. apply N. unfold any_set. now rewrite A.
Qed.

(* ---------- flatten's leaf order is the order of the dialsfieldpath tags ----------
   paths_ty / names_ty enumerate, depth first (the order of leaves_ty and
   read_ty), the path of every leaf (all field names from the root, embedded
   ones included) and its name components (embedded ones left out). *)
Fixpoint paths_ty (path : list str) (t : ty) : list (list str) :=
  match t with
  | TPtr (TStruct fs _) => paths_fields path fs
  | _ => [path]
  end
with paths_fields (path : list str) (fs : fields) : list (list str) :=
  match fs with
  | FNil => []
  | FCons n _ _ t r => paths_ty (path ++ [n]) t ++ paths_fields path r
  end.

Fixpoint names_ty (names : list str) (t : ty) : list (list str) :=
  match t with
  | TPtr (TStruct fs _) => names_fields names fs
  | _ => [names]
  end
with names_fields (names : list str) (fs : fields) : list (list str) :=
  match fs with
  | FNil => []
  | FCons n _ an t r => names_ty (if an then names else names ++ [n]) t ++ names_fields names r
  end.

Lemma tag_replace_fst k v t : map fst (fst (tag_replace k v t)) = map fst t.
Proof.
  induction t as [|[k' v'] r IH]; simpl; [reflexivity|].
  destruct (tag_replace k v r) as [r' f]. simpl in *. destruct (str_eqb k k'); simpl; now rewrite IH.
Qed.

Lemma tag_lookup_replace k v t : snd (tag_replace k v t) = true ->
  tag_lookup k (fst (tag_replace k v t)) = Some v.
Proof.
  induction t as [|[k' v'] r IH]; simpl; [discriminate|].
  destruct (tag_replace k v r) as [r' f] eqn:R. simpl in *.
  destruct (str_eqb k k') eqn:E; simpl; rewrite E; [reflexivity|]. auto.
Qed.

Lemma tag_lookup_absent k v t : snd (tag_replace k v t) = false -> tag_lookup k (t ++ [(k, v)]) = Some v.
Proof.
  induction t as [|[k' v'] r IH]; simpl.
  - intros _. now rewrite str_eqb_refl.
  - destruct (tag_replace k v r) as [r' f] eqn:R. simpl in *.
    destruct (str_eqb k k') eqn:E; simpl; [discriminate|]. auto.
Qed.

Lemma tag_get_set k v t : tag_get k (tag_set k v t) = v.
Proof.
  unfold tag_get, tag_set. destruct (tag_replace k v t) as [t' f] eqn:R. destruct f.
  - pose proof (tag_lookup_replace k v t) as L. rewrite R in L. simpl in L. now rewrite L.
  - pose proof (tag_lookup_absent k v t) as L. rewrite R in L. simpl in L. now rewrite L.
Qed.

Definition fieldpath_of (o : sfield) : str := tag_get dialsfieldpath (sf_tags o).

Lemma fl_get_tag_path tag te n tg an prefix path nt :
  fl_get_tag tag te n tg an prefix path = Ok nt ->
  tag_get dialsfieldpath (fst nt) = join_s [comma] path.
Proof.
  unfold fl_get_tag. intros H. dob H tgs Ht. inversion H; subst. simpl. apply tag_get_set.
Qed.

Lemma fl_order tag ne te :
  (forall t names tgs path full newtag outs,
      wf_ty full = true ->
      (t = full \/ (full = TPtr t /\ match t with TPtr _ => False | _ => True end)) ->
      tag_get dialsfieldpath newtag = join_s [comma] path ->
      fl_ty tag ne te names tgs path full newtag t = Ok outs ->
      map fieldpath_of outs = map (join_s [comma]) (paths_ty path full) /\
      map sf_name outs = map (encode_by ne) (names_ty names full)) /\
  (forall fs names tgs path outs,
      wf_fields fs = true ->
      fl_fields tag ne te names tgs path fs = Ok outs ->
      map fieldpath_of outs = map (join_s [comma]) (paths_fields path fs) /\
      map sf_name outs = map (encode_by ne) (names_fields names fs)).
Proof.
  assert (LEAF : forall t names tgs path full newtag outs,
             wf_ty full = true ->
             (t = full \/ (full = TPtr t /\ match t with TPtr _ => False | _ => True end)) ->
             match t with TPtr _ | TStruct _ _ => False | _ => True end ->
             tag_get dialsfieldpath newtag = join_s [comma] path ->
             fl_ty tag ne te names tgs path full newtag t = Ok outs ->
             map fieldpath_of outs = map (join_s [comma]) (paths_ty path full) /\
             map sf_name outs = map (encode_by ne) (names_ty names full)).
  { intros t names tgs path full newtag outs W Sh Ht Hp H.
    assert (outs = [SF (encode_by ne names) newtag false full]) as ->
      by (destruct t; try contradiction; simpl in H; inversion H; reflexivity).
    assert (paths_ty path full = [path] /\ names_ty names full = [names]) as [-> ->].
    { destruct Sh as [<- | [-> _]]; destruct t; try contradiction; split; reflexivity. }
    simpl. unfold fieldpath_of. simpl. now rewrite Hp. }
  apply ty_fields_ind.
  - intros; eapply LEAF; [eassumption | | | eassumption | eassumption]; [eassumption | exact I].
  - intros; eapply LEAF; [eassumption | | | eassumption | eassumption]; [eassumption | exact I].
  - intros e IH names tgs path full newtag outs W Sh Hp H.
    destruct Sh as [Sh | [_ F]]; [| contradiction]. subst full. simpl in H.
    eapply IH; [exact W | | exact Hp | exact H].
    right. split; [reflexivity|]. destruct e; simpl in W; try discriminate; exact I.
  - intros; eapply LEAF; [eassumption | | | eassumption | eassumption]; [eassumption | exact I].
  - intros; eapply LEAF; [eassumption | | | eassumption | eassumption]; [eassumption | exact I].
  - intros; eapply LEAF; [eassumption | | | eassumption | eassumption]; [eassumption | exact I].
  - intros fs IH nm names tgs path full newtag outs W Sh Hp H.
    destruct Sh as [Sh | [Sh _]]; subst full; simpl in W; [discriminate|]. simpl in H.
    simpl. eapply IH; eassumption.
  - intros; eapply LEAF; [eassumption | | | eassumption | eassumption]; [eassumption | exact I].
  - intros; eapply LEAF; [eassumption | | | eassumption | eassumption]; [eassumption | exact I].
  - intros; eapply LEAF; [eassumption | | | eassumption | eassumption]; [eassumption | exact I].
  - intros names tgs path outs _ H. simpl in H. inversion H. split; reflexivity.
  - intros n tg an t IHt r IHr names tgs path outs W H.
    rewrite (fl_fields_cons tag te) in H. simpl in W.
    apply andb_true_iff in W as [W Wr]. apply andb_true_iff in W as [W Wan].
    apply andb_true_iff in W as [Wex Wt].
    dob H nt Hnt. dob H a Ha. dob H b Hb. inversion H; subst.
    destruct (IHt _ _ _ t (fst nt) a Wt (or_introl eq_refl) (fl_get_tag_path _ _ _ _ _ _ _ _ Hnt) Ha) as [A1 A2].
    destruct (IHr _ _ _ b Wr Hb) as [B1 B2].
    simpl. rewrite !map_app, A1, A2, B1, B2. split; reflexivity.
Qed.

(* Mangle of one field: the i-th flattened field carries the path of the i-th
   leaf (depth first) in its dialsfieldpath tag, its name is the encoding of
   the leaf's name components, its type the leaf's declared type *)
Theorem flatten_order_l : forall tag ne te f outs,
  wf_sf f = true -> flatten_mangle tag ne te f = Ok outs ->
  map fieldpath_of outs = map (join_s [comma]) (paths_ty [sf_name f] (sf_ty f)) /\
  (under_is_struct (sf_ty f) = true ->
   map sf_name outs = map (encode_by ne) (names_ty (if sf_anon f then [] else [sf_name f]) (sf_ty f))) /\
  (under_is_struct (sf_ty f) = false -> map sf_name outs = [encode_by ne [sf_name f]]).
Proof.
  intros tag ne te f outs W H. destruct (wf_sf_parts f W) as (Wn & Wt & Wa).
  rewrite flatten_mangle_wf in H by exact Wt. dob H nt Hnt.
  pose proof (fl_get_tag_path _ _ _ _ _ _ _ _ Hnt) as Hp.
  destruct (under_is_struct (sf_ty f)) eqn:U.
  - destruct (proj1 (fl_order tag ne te) _ _ _ _ (sf_ty f) (fst nt) outs Wt (or_introl eq_refl) Hp H) as [A1 A2].
    repeat split; auto. discriminate.
  - inversion H; subst. simpl. unfold fieldpath_of. simpl. rewrite Hp.
    destruct (wf_leaf_or_struct (sf_ty f) Wt) as [(_ & _ & _) | (fs & nm & E & _)].
    + assert (paths_ty [sf_name f] (sf_ty f) = [[sf_name f]]) as ->.
      { destruct (sf_ty f) as [| |e| | | | | | |]; try reflexivity. destruct e; try reflexivity. simpl in U. discriminate. }
      repeat split; auto. discriminate.
    + rewrite E in U. discriminate.
Qed.

(* the same with the rebuilt value made explicit *)
Lemma flatten_unmangle_build : forall tag te f outs (fvs : list fvt) xs,
  wf_sf f = true -> flatten_mangle tag 0 te f = Ok outs ->
  length xs = length outs -> map snd fvs = combine (map sf_ty outs) xs ->
  flatten_unmangle (Some f) fvs = Ok (sf_ty f, build_ty (sf_ty f) xs).
Proof.
  intros tag te f outs fvs xs W H L Hv.
  destruct (wf_sf_parts f W) as (Wn & Wt & Wa).
  rewrite flatten_mangle_wf in H by exact Wt. dob H nt Hnt.
  assert (T : map sf_ty outs = leaves_ty (sf_ty f)).
  { destruct (under_is_struct (sf_ty f)) eqn:U.
    - eapply (proj1 (fl_types tag te)); [exact Wt | left; reflexivity | exact H].
    - inversion H; subst. simpl.
      destruct (wf_leaf_or_struct (sf_ty f) Wt) as [(_ & Lv & _) | (fs & nm & E & _)]; [now rewrite Lv|].
      rewrite E in U. discriminate. }
  assert (L' : length xs = length (leaves_ty (sf_ty f))) by (rewrite <- T, map_length; exact L).
  destruct (proj1 pop_readback (sf_ty f)) as [St _].
  destruct (St Wt xs [] L') as (v & P & R & N & B).
  unfold flatten_unmangle. rewrite Hv, T. rewrite app_nil_r in P. rewrite P. now rewrite B.
Qed.

(* ---------- values whose dynamic type is only convertible to the leaf's type ----------
   (what a string-cast stage hands to flatten: *uint8 for a *Level leaf): since
   the repair of finding 7 populateStruct converts them, so only their contents matter *)
Definition conv_ok (tv : tval) (lt : ty) : Prop :=
  convertible (fst tv) lt = true /\ (assignable (fst tv) lt = true -> can_nil (fst tv) = true).

Lemma conv_exact lt x : wf_ty lt = true -> conv_ok (lt, x) lt.
Proof. intros W. split; [apply convertible_refl | intros _; apply (wf_ty_nilable lt W)]. Qed.

Lemma leaf_conv {A} tv lt (kN : outcome A) (kS : val -> outcome A) : wf_ty lt = true -> conv_ok tv lt ->
  (c <- assign_or_convert tv lt ;;
   match c with
   | None => Err 2
   | Some v' => if soft_is_nil v' then kN else kS (snd v')
   end) =
  (if is_vnil (snd tv) then kN else kS (snd tv)).
Proof.
  intros W [C As']. destruct tv as [t x]. simpl in *. unfold assign_or_convert. cbn [fst snd].
  destruct (wf_ty_nilable lt W) as (Nl & Zl & _).
  destruct (assignable t lt) eqn:As.
  - cbn [obind]. unfold soft_is_nil. cbn [fst snd]. rewrite (As' eq_refl). reflexivity.
  - rewrite C. unfold convert. rewrite C. cbn [negb].
    destruct lt; simpl in W; try discriminate; destruct t; cbn [obind]; unfold soft_is_nil; cbn [fst snd can_nil andb]; reflexivity.
Qed.

Lemma Forall2_length {A B} (R : A -> B -> Prop) l1 l2 : Forall2 R l1 l2 -> length l1 = length l2.
Proof. induction 1; simpl; auto. Qed.

Definition exact_of (ltys : list ty) (tvs : list tval) : list tval := combine ltys (map snd tvs).

Lemma pop_ty_leaf_form t tv rest : wf_ty t = true -> under_is_struct t = false ->
  pop_ty t t (tv :: rest) =
  (a <- assign_or_convert tv t ;;
   match a with
   | None => Err 2
   | Some v' => if soft_is_nil v' then Ok (zero t, rest, false) else Ok (snd v', rest, true)
   end).
Proof.
  intros W U. destruct t as [| |e| | | | | | |]; simpl in W; try discriminate; try reflexivity.
  destruct e; simpl in W, U; try discriminate; reflexivity.
Qed.

Definition conv_ty (t : ty) : Prop :=
  forall tvs rest, Forall2 conv_ok tvs (leaves_ty t) ->
    pop_ty t t (tvs ++ rest) = pop_ty t t (exact_of (leaves_ty t) tvs ++ rest).
Definition conv_fields (fs : fields) : Prop :=
  forall tvs rest, Forall2 conv_ok tvs (leaves_fields fs) ->
    pop_fields fs (tvs ++ rest) = pop_fields fs (exact_of (leaves_fields fs) tvs ++ rest).

Lemma conv_leaf t : wf_ty t = true -> under_is_struct t = false -> leaves_ty t = [t] -> conv_ty t.
Proof.
  intros W U Lv tvs rest F. rewrite Lv in *. inversion F as [|tv lt r1 r2 C Fr]; subst. inversion Fr; subst.
  unfold exact_of. cbn [map combine app].
  rewrite !pop_ty_leaf_form by assumption.
  rewrite (leaf_conv tv t _ (fun x => Ok (x, rest, true)) W C).
  rewrite (leaf_conv (t, snd tv) t _ (fun x => Ok (x, rest, true)) W (conv_exact t (snd tv) W)). reflexivity.
Qed.

Lemma exact_of_app l1 l2 t1 t2 : length t1 = length l1 ->
  exact_of (l1 ++ l2) (t1 ++ t2) = exact_of l1 t1 ++ exact_of l2 t2.
Proof. intros L. unfold exact_of. rewrite map_app. apply combine_app. now rewrite map_length. Qed.

Lemma pop_ty_exact t tvs rest : wf_ty t = true -> length tvs = length (leaves_ty t) ->
  pop_ty t t (exact_of (leaves_ty t) tvs ++ rest) = Ok (build_ty t (map snd tvs), rest, any_set (map snd tvs)).
Proof.
  intros W L. destruct (proj1 pop_readback t) as [St _].
  assert (Lx : length (map snd tvs) = length (leaves_ty t)) by (now rewrite map_length).
  destruct (St W (map snd tvs) rest Lx) as (v & P & _ & _ & B). unfold exact_of. rewrite B in P. exact P.
Qed.

Lemma pop_conv :
  (forall t, (wf_ty t = true -> conv_ty t) /\
             (forall fs nm, t = TStruct fs nm -> wf_fields fs = true -> conv_fields fs)) /\
  (forall fs, wf_fields fs = true -> conv_fields fs).
Proof.
  apply ty_fields_ind.
  - intros k nm. split; [intros W; discriminate | intros; discriminate].
  - intros id pr. split; [intros W; discriminate | intros; discriminate].
  - intros e [_ IHs]. split; [| intros; discriminate].
    intros W. destruct (wf_leaf_or_struct (TPtr e) W) as [(U & Lv & _) | (fs & nm & Eq & Wf)].
    + now apply conv_leaf.
    + inversion Eq; subst e. clear Eq. specialize (IHs fs nm eq_refl Wf).
      intros tvs rest F. simpl leaves_ty in *. rewrite !pop_ty_struct. now rewrite (IHs tvs rest F).
  - intros e IH nm. split; [| intros; discriminate]. intros W. apply conv_leaf; auto.
  - intros n e IH. split; [intros W; discriminate | intros; discriminate].
  - intros k IHk v IHv nm. split; [| intros; discriminate]. intros W. apply conv_leaf; auto.
  - intros fs IH nm. split; [intros W; discriminate|].
    intros fs' nm' Eq W. inversion Eq; subst. now apply IH.
  - split; [| intros; discriminate]. intros W. apply conv_leaf; auto.
  - split; [intros W; discriminate | intros; discriminate].
  - split; [intros W; discriminate | intros; discriminate].
  - intros _ tvs rest F. inversion F. reflexivity.
  - intros n tg an t [IHt _] r IHr W tvs rest F. simpl in W.
    apply andb_true_iff in W as [W Wr]. apply andb_true_iff in W as [W Wan]. apply andb_true_iff in W as [Wex Wt].
    simpl leaves_fields in *. apply Forall2_app_inv_r in F as (t1 & t2 & F1 & F2 & ->).
    pose proof (Forall2_length _ _ _ F1) as L1.
    rewrite exact_of_app by exact L1. rewrite <- !app_assoc.
    rewrite !pop_fields_cons. rewrite Wex. cbn [negb].
    destruct (wf_leaf_or_struct t Wt) as [(U & Lv & _) | (fs & nm & Eq & Wf)].
    + rewrite U. rewrite Lv in F1. inversion F1 as [|tv lt r1 r2 C Fr]; subst. inversion Fr; subst.
      unfold exact_of at 1. rewrite Lv. cbn [map combine app].
      rewrite (leaf_conv tv t _ (fun x => Ok (x, t2 ++ rest, true)) Wt C).
      rewrite (leaf_conv (t, snd tv) t _ (fun x => Ok (x, exact_of (leaves_fields r) t2 ++ rest, true)) Wt (conv_exact t (snd tv) Wt)).
      cbn [snd]. destruct (is_vnil (snd tv)); cbn [obind]; rewrite (IHr Wr t2 rest F2); reflexivity.
    + subst t. assert (U : under_is_struct (TPtr (TStruct fs nm)) = true) by reflexivity. rewrite U.
      rewrite (IHt Wt t1 (t2 ++ rest) F1).
      rewrite !pop_ty_exact by assumption. cbn [obind]. rewrite (IHr Wr t2 rest F2). reflexivity.
Qed.

Lemma flatten_unmangle_build_conv : forall tag te f outs (fvs : list fvt),
  wf_sf f = true -> flatten_mangle tag 0 te f = Ok outs ->
  Forall2 conv_ok (map snd fvs) (map sf_ty outs) ->
  flatten_unmangle (Some f) fvs = Ok (sf_ty f, build_ty (sf_ty f) (map (fun fv => snd (snd fv)) fvs)).
Proof.
  intros tag te f outs fvs W H F.
  destruct (wf_sf_parts f W) as (Wn & Wt & Wa).
  assert (T : map sf_ty outs = leaves_ty (sf_ty f)).
  { pose proof H as H'. rewrite flatten_mangle_wf in H' by exact Wt. dob H' nt Hnt.
    destruct (under_is_struct (sf_ty f)) eqn:U.
    - eapply (proj1 (fl_types tag te)); [exact Wt | left; reflexivity | exact H'].
    - inversion H'; subst. simpl.
      destruct (wf_leaf_or_struct (sf_ty f) Wt) as [(_ & Lv & _) | (fs & nm & E & _)]; [now rewrite Lv|].
      rewrite E in U. discriminate. }
  rewrite T in F.
  destruct (proj1 pop_conv (sf_ty f)) as [Cv _].
  pose proof (Cv Wt (map snd fvs) [] F) as P. rewrite !app_nil_r in P.
  set (xs := map snd (map snd fvs)).
  assert (Lx : length xs = length outs).
  { unfold xs. rewrite !map_length. apply (Forall2_length _ _ _) in F. rewrite map_length in F. rewrite F, <- T, map_length. reflexivity. }
  pose proof (flatten_unmangle_build tag te f outs (combine outs (exact_of (leaves_ty (sf_ty f)) (map snd fvs))) xs W H Lx) as B.
  assert (Ms : map snd (combine outs (exact_of (leaves_ty (sf_ty f)) (map snd fvs))) = combine (map sf_ty outs) xs).
  { rewrite T. unfold exact_of. fold xs.
    assert (length outs = length (combine (leaves_ty (sf_ty f)) xs)).
    { rewrite combine_length, <- T, map_length, Lx. lia. }
    clear - H0. revert H0. generalize (combine (leaves_ty (sf_ty f)) xs). intros l.
    revert l; induction outs as [|o r IH]; intros [|y l] Hl; simpl in Hl; try discriminate; [reflexivity|].
    simpl. f_equal. apply IH. lia. }
  specialize (B Ms). unfold flatten_unmangle in *. rewrite P. rewrite Ms in B. rewrite T in B.
  unfold exact_of. fold xs. rewrite B. unfold xs. rewrite map_map. reflexivity.
Qed.
