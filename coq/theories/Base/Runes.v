(* Runes and strings.  A Go string is modelled at rune granularity as a list
   of code points (N).  Classification is the ASCII restriction of Go's
   unicode tables; generators of the correspondence check stay inside ASCII
   for everything compared against this model. *)
From Coq Require Import List NArith Bool Lia.
Import ListNotations.
Open Scope N_scope.

Definition rune := N.
Definition str := list rune.

Definition is_upper (r : rune) : bool := (65 <=? r) && (r <=? 90).
Definition is_lower (r : rune) : bool := (97 <=? r) && (r <=? 122).
Definition is_digit (r : rune) : bool := (48 <=? r) && (r <=? 57).
Definition is_letter (r : rune) : bool := is_upper r || is_lower r.
Definition to_lower (r : rune) : rune := if is_upper r then r + 32 else r.
Definition to_upper (r : rune) : rune := if is_lower r then r - 32 else r.

Definition lower_s (s : str) : str := map to_lower s.
Definition upper_s (s : str) : str := map to_upper s.

Fixpoint str_eqb (a b : str) : bool :=
  match a, b with
  | [], [] => true
  | x :: a', y :: b' => (x =? y) && str_eqb a' b'
  | _, _ => false
  end.

Lemma str_eqb_eq a b : str_eqb a b = true <-> a = b.
Proof.
  revert b; induction a as [|x a IH]; intros [|y b]; simpl; split; intro H;
    try discriminate; try reflexivity.
  - apply andb_true_iff in H as [H1 H2]. apply N.eqb_eq in H1. apply IH in H2. congruence.
  - inversion H; subst. rewrite N.eqb_refl. simpl. apply IH. reflexivity.
Qed.

Lemma str_eqb_refl a : str_eqb a a = true.
Proof. apply str_eqb_eq. reflexivity. Qed.

Fixpoint strs_eqb (a b : list str) : bool :=
  match a, b with
  | [], [] => true
  | x :: a', y :: b' => str_eqb x y && strs_eqb a' b'
  | _, _ => false
  end.

Lemma strs_eqb_eq a b : strs_eqb a b = true <-> a = b.
Proof.
  revert b; induction a as [|x a IH]; intros [|y b]; simpl; split; intro H;
    try discriminate; try reflexivity.
  - apply andb_true_iff in H as [H1 H2]. apply str_eqb_eq in H1. apply IH in H2. congruence.
  - inversion H; subst. rewrite str_eqb_refl. simpl. apply IH. reflexivity.
Qed.

(* is_prefix p s : p is a prefix of s; strip_prefix returns the remainder *)
Fixpoint strip_prefix (p s : str) : option str :=
  match p, s with
  | [], _ => Some s
  | x :: p', y :: s' => if x =? y then strip_prefix p' s' else None
  | _ :: _, [] => None
  end.

(* Readable literals for examples: Coq strings to rune lists. *)
From Coq Require Import String Ascii.
Fixpoint s2r (s : string) : str :=
  match s with
  | EmptyString => []
  | String a s' => N_of_ascii a :: s2r s'
  end.
