(* Outcomes of Go calls: a value, a returned error, or a panic.  Panics are
   values of the model so that "does not panic" is a theorem. *)
From Coq Require Import List NArith.
Import ListNotations.

Inductive outcome (A : Type) : Type :=
| Ok (a : A)
| Err (code : N)      (* error class; texts are never modelled *)
| Panic (code : N).   (* panic class *)
Arguments Ok {A} a.
Arguments Err {A} code.
Arguments Panic {A} code.

Definition obind {A B} (o : outcome A) (f : A -> outcome B) : outcome B :=
  match o with Ok a => f a | Err c => Err c | Panic c => Panic c end.

Definition omap {A B} (f : A -> B) (o : outcome A) : outcome B :=
  match o with Ok a => Ok (f a) | Err c => Err c | Panic c => Panic c end.

Definition is_ok {A} (o : outcome A) : bool :=
  match o with Ok _ => true | _ => false end.
Definition is_panic {A} (o : outcome A) : bool :=
  match o with Panic _ => true | _ => false end.

(* Outcome classes, used when only the class is observable. *)
Inductive oclass := COk | CErr | CPanic.
Definition class_of {A} (o : outcome A) : oclass :=
  match o with Ok _ => COk | Err _ => CErr | Panic _ => CPanic end.

Notation "x <- a ;; b" := (obind a (fun x => b))
  (at level 61, a at next level, right associativity).
