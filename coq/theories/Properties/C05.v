(* Property C05 - incremental re-stacking equals a fresh stack; serials count
   installs.  Statements only. *)
From Coq Require Import List NArith Bool.
From Dials Require Import Base.Outcome Core.CbMgr Core.Monitor Core.System
  Core.MonitorProofs Core.SystemProofs.
Import ListNotations.
Open Scope N_scope.

(* every schedule: whenever the monitor is back at its select, the published
   config is spec_view of the messages received so far - the fresh stack of each
   source's latest value, or the last view that was accepted - and the monitor's
   slots are exactly those latest values *)
Theorem view_is_fresh_stack : forall (cfg sv : Type) (stack : list sv -> option cfg) (verify : cfg -> bool)
    (p : params) (on_new on_err : bool) (cbcap : N) (inits : list sv) (watching : list bool)
    (s0 : sys cfg sv) (ls : list (label sv)) (s : sys cfg sv) (st : mon_state sv),
  snd (sys_init stack verify p inits watching) = Ok s0 ->
  run stack verify p on_new on_err cbcap s0 ls = Some s ->
  s_mon s = MRun st [] ->
  snd (s_value s) = spec_view stack verify inits (snd (s_value s0)) (p_delay p) (recvs (s_log s)) /\
  m_slots st = latest inits (recvs (s_log s)).
Proof. exact @sys_view_is_fresh_stack_l. Qed.

(* the same for the monitor alone, from any state, for every message history *)
Theorem view_is_fresh_stack_seq : forall (cfg sv : Type) (stack : list sv -> option cfg) (verify : cfg -> bool)
    (p : params) (ins : list (mon_in sv)) (cur : vcfg cfg) (st : mon_state sv),
  snd (final_cur stack verify p cur st ins) = spec_view stack verify (m_slots st) (snd cur) (m_skip st) ins /\
  m_skip (final_st stack verify p cur st ins) = spec_skip stack verify (m_slots st) (snd cur) (m_skip st) ins.
Proof. exact @view_is_fresh_stack_l. Qed.

(* every schedule: the k-th install has serial k, the published serial is the
   number of installs, the published pair is the last pair stored (config and
   serial are read together from one atomic pointer: System.api_start OpView) *)
Theorem serial_counts_installs : forall (cfg sv : Type) (stack : list sv -> option cfg) (verify : cfg -> bool)
    (p : params) (on_new on_err : bool) (cbcap : N) (inits : list sv) (watching : list bool)
    (s0 : sys cfg sv) (ls : list (label sv)) (s : sys cfg sv),
  snd (sys_init stack verify p inits watching) = Ok s0 ->
  run stack verify p on_new on_err cbcap s0 ls = Some s ->
  consecutive_from 0 (map fst (stores_of (mon_hist (s_log s)))) /\
  fst (s_value s) = N.of_nat (length (stores_of (mon_hist (s_log s)))) /\
  s_value s = last (stores_of (mon_hist (s_log s))) (s_value s0).
Proof. exact @sys_serial_counts_installs_l. Qed.

(* the Events channel is offered exactly the stored configs, in store order *)
Theorem events_follow_stores : forall (cfg sv : Type) (stack : list sv -> option cfg) (verify : cfg -> bool)
    (p : params) (ins : list (mon_in sv)) (cur : vcfg cfg) (st : mon_state sv),
  updates_of (trace stack verify p cur st ins) = stores_of (trace stack verify p cur st ins).
Proof. exact @events_follow_stores_l. Qed.

Print Assumptions view_is_fresh_stack.
Print Assumptions view_is_fresh_stack_seq.
Print Assumptions serial_counts_installs.
Print Assumptions events_follow_stores.
