(* Property C06 - callbacks: serialized, in order, never stale, catch-up
   exactly when due, none after unregister, no skip without overflow, old is
   the predecessor.  Statements only; proofs in Core/CbMgrProofs.v (the callback
   goroutine's loop as a fold over any queue content) and Core/MonitorProofs.v
   (what the monitor puts into the queue).

   Well-formedness of a queue content evs:
     incr_from 0 evs   the serials of new-config events strictly increase
     Forall ev_wf evs  a new-config event's new config carries its serial and
                       its old config the previous one
     reg_once h evs    handle h is registered at most once
   All three are proved for the queue of the whole system in every schedule
   (queue_well_formed, handles_enqueued_once below). *)
From Coq Require Import List NArith Bool.
From Dials Require Import Base.Outcome Core.CbMgr Core.Monitor Core.System Core.CbMgrProofs Core.MonitorProofs
  Core.SystemProofs Core.QueueProofs Core.HistoryProofs.
Import ListNotations.
Open Scope N_scope.

(* per handle the delivered serials strictly increase and are all above the
   serial it registered with; a handle never registered receives nothing *)
Theorem never_stale : forall (cfg : Type) (on_new on_err : bool) (h : N) (evs : list (cb_event cfg)),
  incr_from 0 evs -> Forall ev_wf evs -> reg_once h evs ->
  match first_reg h evs with
  | Some tok => sorted_above (tok_serial tok) (deliveries h (outs on_new on_err cb_init evs))
  | None => deliveries h (outs on_new on_err cb_init evs) = []
  end.
Proof. exact @never_stale_l. Qed.

(* an immediate call happens exactly when the token is valid and its serial is
   below the last serial announced before the registration is processed; its
   arguments are the token's config and the last announced config *)
Theorem catchup_iff : forall (cfg : Type) (on_new on_err : bool) (pre : list (cb_event cfg)) (h : N)
    (tok : option (N * cfg)),
  Forall ev_wf pre ->
  let st := after on_new on_err cb_init pre in
  let L := last_announced 0 pre in
  match tok with
  | Some tc =>
      if fst tc <? L
      then exists lv, cb_last_version st = Some lv /\ fst lv = L /\
                      snd (cb_step on_new on_err st (EvReg h tok)) = [OInv (InvUser h tc (Some lv) true)]
      else snd (cb_step on_new on_err st (EvReg h tok)) = []
  | None => snd (cb_step on_new on_err st (EvReg h tok)) = []
  end.
Proof. exact @catchup_iff_l. Qed.

(* once the unregister event of h has been processed (its done channel is
   closed in that same iteration, after the removal: outs_unreg_split) no
   invocation of h follows, whatever is processed afterwards *)
Theorem none_after_unregister : forall (cfg : Type) (on_new on_err : bool) (pre : list (cb_event cfg))
    (h ack : N) (post : list (cb_event cfg)) (st : cb_state cfg),
  no_reg h post ->
  existsb (is_user_inv_of h) (outs on_new on_err (after on_new on_err st (pre ++ [EvUnreg h ack])) post) = false.
Proof. exact @none_after_unregister_l. Qed.

Theorem ack_follows_removal : forall (cfg : Type) (on_new on_err : bool) (pre : list (cb_event cfg))
    (h ack : N) (post : list (cb_event cfg)) (st : cb_state cfg),
  outs on_new on_err st (pre ++ EvUnreg h ack :: post)
  = outs on_new on_err st pre ++ [OAck ack] ++ outs on_new on_err (after on_new on_err st (pre ++ [EvUnreg h ack])) post.
Proof. exact @outs_unreg_split. Qed.

(* every announced version above the registered serial reaches a handle that
   is registered and not yet unregistered: nothing is skipped unless the event
   itself was dropped by the monitor on overflow *)
Theorem no_skip_without_overflow : forall (cfg : Type) (on_new on_err : bool) (pre : list (cb_event cfg)) (h : N)
    (tok : option (vcfg cfg)) (mid : list (cb_event cfg)) (old new : vcfg cfg) (k : N) (sup : bool)
    (post : list (cb_event cfg)) (st : cb_state cfg),
  no_unreg h mid -> tok_serial tok < k ->
  In (OInv (InvUser h old (Some new) false))
     (outs on_new on_err st (pre ++ EvReg h tok :: mid ++ EvNew old new k sup :: post)).
Proof. exact @no_skip_l. Qed.

(* in every ordinary call, of a registered callback and of OnNewConfig, the
   old config is the immediate predecessor of the new one *)
Theorem ordinary_old_is_predecessor : forall (cfg : Type) (on_new on_err : bool) (evs : list (cb_event cfg))
    (st : cb_state cfg) (h : N) (old new : vcfg cfg),
  Forall ev_wf evs ->
  In (OInv (InvUser h old (Some new) false)) (outs on_new on_err st evs) -> fst old + 1 = fst new.
Proof. exact @old_is_predecessor_l. Qed.

Theorem global_old_is_predecessor : forall (cfg : Type) (on_new on_err : bool) (evs : list (cb_event cfg))
    (st : cb_state cfg) (old new : vcfg cfg),
  Forall ev_wf evs ->
  In (OInv (InvNewGlobal old new)) (outs on_new on_err st evs) -> fst old + 1 = fst new.
Proof. exact @global_old_is_predecessor_l. Qed.

(* OnNewConfig runs in installation order *)
Theorem callbacks_in_install_order : forall (cfg : Type) (on_new on_err : bool) (evs : list (cb_event cfg))
    (st : cb_state cfg),
  incr_from (cb_last_serial st) evs -> Forall ev_wf evs ->
  sorted_above (cb_last_serial st) (global_news (outs on_new on_err st evs)).
Proof. exact @in_install_order_l. Qed.

(* a registered callback is never handed a nil new config *)
Theorem user_new_not_nil : forall (cfg : Type) (on_new on_err : bool) (evs : list (cb_event cfg))
    (st : cb_state cfg) (h : N) (old : vcfg cfg) (cu : bool),
  Forall ev_wf evs -> version_inv st ->
  ~ In (OInv (InvUser h old None cu)) (outs on_new on_err st evs).
Proof. exact @user_new_not_nil_l. Qed.

(* what the monitor submits, in every message history: new-config events are
   well-formed (old = the config current when the update was received, new = the
   config just stored, under its serial) and their serials strictly increase *)
Theorem monitor_events_well_formed : forall (cfg sv : Type) (stack : list sv -> option cfg) (verify : cfg -> bool)
    (p : params) (ins : list (mon_in sv)) (cur : vcfg cfg) (st : mon_state sv),
  Forall ev_wf (submits_of (trace stack verify p cur st ins)) /\
  incr_from (fst cur) (submits_of (trace stack verify p cur st ins)) /\
  last_announced (fst cur) (submits_of (trace stack verify p cur st ins)) <= fst (final_cur stack verify p cur st ins).
Proof. exact @submitted_events_wf_l. Qed.

(* ---- the whole system, every schedule (monitor, callback goroutine, API
   calls, cancellations, drops on overflow) ---- *)

(* callbacks_serialized: in the history callback entries and returns
   alternate: a callback is entered only after every earlier one returned *)
Theorem callbacks_serialized : forall (cfg sv : Type) (stack : list sv -> option cfg) (verify : cfg -> bool)
    (p : params) (on_new on_err : bool) (cbcap : N) (inits : list sv) (watching : list bool)
    (s0 : sys cfg sv) (ls : list (label sv)) (s : sys cfg sv),
  snd (sys_init stack verify p inits watching) = Ok s0 ->
  run stack verify p on_new on_err cbcap s0 ls = Some s ->
  call_state false (s_log s) = Some (in_call (s_cb s)).
Proof. exact @callbacks_serialized_l. Qed.

(* cbch is FIFO, and everything the callback goroutine has done so far is a
   prefix of the fold cb_run over the events it has taken: the theorems above
   apply to the real queue content *)
Theorem callback_history_is_fold : forall (cfg sv : Type) (stack : list sv -> option cfg) (verify : cfg -> bool)
    (p : params) (on_new on_err : bool) (cbcap : N) (inits : list sv) (watching : list bool)
    (s0 : sys cfg sv) (ls : list (label sv)) (s : sys cfg sv),
  snd (sys_init stack verify p inits watching) = Ok s0 ->
  run stack verify p on_new on_err cbcap s0 ls = Some s ->
  enq_of (s_log s) = taken_of (s_log s) ++ s_cbq s /\
  exists rest, cb_hist (s_log s) ++ rest = outs on_new on_err cb_init (taken_of (s_log s)).
Proof. exact @callback_history_is_fold_l. Qed.

(* whatever is in the queue is well-formed with strictly increasing serials,
   whatever was dropped on overflow and however registrations interleave *)
Theorem queue_well_formed : forall (cfg sv : Type) (stack : list sv -> option cfg) (verify : cfg -> bool)
    (p : params) (on_new on_err : bool) (cbcap : N) (inits : list sv) (watching : list bool)
    (s0 : sys cfg sv) (ls : list (label sv)) (s : sys cfg sv),
  snd (sys_init stack verify p inits watching) = Ok s0 ->
  run stack verify p on_new on_err cbcap s0 ls = Some s ->
  inv_wf s /\ inv_q on_new on_err s.
Proof. exact @queue_well_formed_l. Qed.

Theorem sys_callbacks_in_install_order : forall (cfg sv : Type) (stack : list sv -> option cfg) (verify : cfg -> bool)
    (p : params) (on_new on_err : bool) (cbcap : N) (inits : list sv) (watching : list bool)
    (s0 : sys cfg sv) (ls : list (label sv)) (s : sys cfg sv),
  snd (sys_init stack verify p inits watching) = Ok s0 ->
  run stack verify p on_new on_err cbcap s0 ls = Some s ->
  sorted_above 0 (global_news (cb_hist (s_log s))).
Proof. exact @sys_callbacks_in_install_order_l. Qed.

Theorem sys_old_is_predecessor : forall (cfg sv : Type) (stack : list sv -> option cfg) (verify : cfg -> bool)
    (p : params) (on_new on_err : bool) (cbcap : N) (inits : list sv) (watching : list bool)
    (s0 : sys cfg sv) (ls : list (label sv)) (s : sys cfg sv),
  snd (sys_init stack verify p inits watching) = Ok s0 ->
  run stack verify p on_new on_err cbcap s0 ls = Some s ->
  (forall h old new, In (OInv (InvUser h old (Some new) false)) (cb_hist (s_log s)) -> fst old + 1 = fst new) /\
  (forall old new, In (OInv (InvNewGlobal old new)) (cb_hist (s_log s)) -> fst old + 1 = fst new) /\
  (forall h old cu, ~ In (OInv (InvUser h old None cu)) (cb_hist (s_log s))).
Proof. exact @sys_old_is_predecessor_l. Qed.

(* every handle reaches the queue at most once (each RegisterCallback makes a
   fresh handle and enqueues it at most once) *)
Theorem handles_enqueued_once : forall (cfg sv : Type) (stack : list sv -> option cfg) (verify : cfg -> bool)
    (p : params) (on_new on_err : bool) (cbcap : N) (inits : list sv) (watching : list bool)
    (s0 : sys cfg sv) (ls : list (label sv)) (s : sys cfg sv) (h : N),
  snd (sys_init stack verify p inits watching) = Ok s0 ->
  run stack verify p on_new on_err cbcap s0 ls = Some s ->
  reg_once h (enq_of (s_log s)).
Proof. exact @handles_enqueued_once_l. Qed.

(* never stale, for every schedule of the whole system: the serials a handle
   has been called with strictly increase and exceed the serial it registered
   with; a handle whose registration has not been processed has not been called *)
Theorem sys_never_stale : forall (cfg sv : Type) (stack : list sv -> option cfg) (verify : cfg -> bool)
    (p : params) (on_new on_err : bool) (cbcap : N) (inits : list sv) (watching : list bool)
    (s0 : sys cfg sv) (ls : list (label sv)) (s : sys cfg sv) (h : N),
  snd (sys_init stack verify p inits watching) = Ok s0 ->
  run stack verify p on_new on_err cbcap s0 ls = Some s ->
  match first_reg h (taken_of (s_log s)) with
  | Some tok => sorted_above (tok_serial tok) (deliveries h (cb_hist (s_log s)))
  | None => deliveries h (cb_hist (s_log s)) = []
  end.
Proof. exact @sys_never_stale_l. Qed.

(* none after unregister, for every schedule: once the callback goroutine has
   taken the unregister event of a handle whose registration it had processed
   (the only way an unregister function for h can exist), it emits the ack right
   there and nothing it does afterwards is an invocation of h; so after the
   unregister function has seen the closed done channel and returned true, h is
   never invoked *)
Theorem sys_none_after_unregister : forall (cfg sv : Type) (stack : list sv -> option cfg) (verify : cfg -> bool)
    (p : params) (on_new on_err : bool) (cbcap : N) (inits : list sv) (watching : list bool)
    (s0 : sys cfg sv) (ls : list (label sv)) (s : sys cfg sv) (h a : N) (tok : option (vcfg cfg))
    (pre post : list (cb_event cfg)),
  snd (sys_init stack verify p inits watching) = Ok s0 ->
  run stack verify p on_new on_err cbcap s0 ls = Some s ->
  taken_of (s_log s) = pre ++ EvUnreg h a :: post -> In (EvReg h tok) pre ->
  exists rest,
    cb_hist (s_log s) ++ rest =
      outs on_new on_err cb_init pre ++ [OAck a]
        ++ outs on_new on_err (after on_new on_err cb_init (pre ++ [EvUnreg h a])) post /\
    existsb (is_user_inv_of h) (outs on_new on_err (after on_new on_err cb_init (pre ++ [EvUnreg h a])) post) = false.
Proof. exact @sys_none_after_unregister_l. Qed.

(* the callback history exactly: what has been logged, plus the rest of the
   iteration the goroutine is in, is the fold over the events taken; nothing is
   pending while the goroutine is at its receive or gone *)
Theorem callback_history_exact : forall (cfg sv : Type) (stack : list sv -> option cfg) (verify : cfg -> bool)
    (p : params) (on_new on_err : bool) (cbcap : N) (inits : list sv) (watching : list bool)
    (s0 : sys cfg sv) (ls : list (label sv)) (s : sys cfg sv),
  snd (sys_init stack verify p inits watching) = Ok s0 ->
  run stack verify p on_new on_err cbcap s0 ls = Some s ->
  cb_hist (s_log s) ++ pending_of s = outs on_new on_err cb_init (taken_of (s_log s)) /\
  (forall cst, s_cb s = CRun cst [] -> pending_of s = []) /\
  (s_cb s = CExited -> pending_of s = []).
Proof. exact @callback_history_exact_l. Qed.

(* catch-up, every schedule: at the place of a registration the goroutine has
   taken, its outputs have the immediate call (token config, last announced
   config) iff the token is valid and below the last serial announced to the
   goroutine before it took that registration; nothing otherwise *)
Theorem sys_catchup_iff : forall (cfg sv : Type) (stack : list sv -> option cfg) (verify : cfg -> bool)
    (p : params) (on_new on_err : bool) (cbcap : N) (inits : list sv) (watching : list bool)
    (s0 : sys cfg sv) (ls : list (label sv)) (s : sys cfg sv) (h : N) (tok : option (vcfg cfg))
    (pre post : list (cb_event cfg)),
  snd (sys_init stack verify p inits watching) = Ok s0 ->
  run stack verify p on_new on_err cbcap s0 ls = Some s ->
  taken_of (s_log s) = pre ++ EvReg h tok :: post ->
  let L := last_announced 0 pre in
  exists call,
    cb_hist (s_log s) ++ pending_of s =
      outs on_new on_err cb_init pre ++ call
        ++ outs on_new on_err (after on_new on_err cb_init (pre ++ [EvReg h tok])) post /\
    match tok with
    | Some tc =>
        if fst tc <? L
        then exists lv, fst lv = L /\ call = [OInv (InvUser h tc (Some lv) true)]
        else call = []
    | None => call = []
    end.
Proof. exact @sys_catchup_iff_l. Qed.

(* no skip, every schedule: a handle registered in the queue history and not
   unregistered since gets every version announced after it and above its
   token - the call has been produced, or is produced by the fold over what is
   still queued *)
Theorem sys_no_skip_without_overflow : forall (cfg sv : Type) (stack : list sv -> option cfg) (verify : cfg -> bool)
    (p : params) (on_new on_err : bool) (cbcap : N) (inits : list sv) (watching : list bool)
    (s0 : sys cfg sv) (ls : list (label sv)) (s : sys cfg sv) (pre : list (cb_event cfg)) (h : N)
    (tok : option (vcfg cfg)) (mid : list (cb_event cfg)) (old new : vcfg cfg) (k : N) (sup : bool)
    (post : list (cb_event cfg)),
  snd (sys_init stack verify p inits watching) = Ok s0 ->
  run stack verify p on_new on_err cbcap s0 ls = Some s ->
  enq_of (s_log s) = pre ++ EvReg h tok :: mid ++ EvNew old new k sup :: post ->
  no_unreg h mid -> tok_serial tok < k ->
  In (OInv (InvUser h old (Some new) false))
     (cb_hist (s_log s) ++ pending_of s
        ++ outs on_new on_err (after on_new on_err cb_init (taken_of (s_log s))) (s_cbq s)).
Proof. exact @sys_no_skip_l. Qed.

(* ... and without overflow nothing is missing from the queue history: if no
   submit of a new-config event ever found cbch full or the context done, then
   whenever the monitor is back at its select the new-config events enqueued so
   far are exactly the stored configs, one per Store, in store order *)
Theorem no_drop_every_store_announced : forall (cfg sv : Type) (stack : list sv -> option cfg) (verify : cfg -> bool)
    (p : params) (on_new on_err : bool) (cbcap : N) (inits : list sv) (watching : list bool)
    (s0 : sys cfg sv) (ls : list (label sv)) (s : sys cfg sv) (st : mon_state sv),
  snd (sys_init stack verify p inits watching) = Ok s0 ->
  run stack verify p on_new on_err cbcap s0 ls = Some s ->
  no_new_drop (s_log s) = true -> s_mon s = MRun st [] ->
  new_cfgs (enq_of (s_log s)) = stores_of (mon_hist (s_log s)).
Proof. exact @no_drop_every_store_announced_l. Qed.

(* the unregister function returns true only after the callback goroutine
   has logged the ack of exactly that call's done channel; with
   sys_none_after_unregister: no invocation of h is logged after that return *)
Theorem unregister_true_after_ack : forall (cfg sv : Type) (stack : list sv -> option cfg) (verify : cfg -> bool)
    (p : params) (on_new on_err : bool) (cbcap : N) (inits : list sv) (watching : list bool)
    (s0 : sys cfg sv) (ls : list (label sv)) (s : sys cfg sv) (tid : N) (l1 l2 : list (gevent cfg sv)),
  snd (sys_init stack verify p inits watching) = Ok s0 ->
  run stack verify p on_new on_err cbcap s0 ls = Some s ->
  s_log s = l1 ++ GRet tid (RetBool true) :: l2 -> In (GAck tid) l1.
Proof. exact @unregister_true_after_ack_l. Qed.

Print Assumptions never_stale.
Print Assumptions catchup_iff.
Print Assumptions none_after_unregister.
Print Assumptions ack_follows_removal.
Print Assumptions no_skip_without_overflow.
Print Assumptions ordinary_old_is_predecessor.
Print Assumptions global_old_is_predecessor.
Print Assumptions callbacks_in_install_order.
Print Assumptions user_new_not_nil.
Print Assumptions monitor_events_well_formed.
Print Assumptions callbacks_serialized.
Print Assumptions callback_history_is_fold.
Print Assumptions queue_well_formed.
Print Assumptions sys_callbacks_in_install_order.
Print Assumptions sys_old_is_predecessor.
Print Assumptions handles_enqueued_once.
Print Assumptions sys_never_stale.
Print Assumptions sys_none_after_unregister.
Print Assumptions callback_history_exact.
Print Assumptions sys_catchup_iff.
Print Assumptions sys_no_skip_without_overflow.
Print Assumptions no_drop_every_store_announced.
Print Assumptions unregister_true_after_ack.
