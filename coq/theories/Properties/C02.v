(* Property C02 - config versions are isolated snapshots; inputs are never
   modified.  Statements only; proofs live in Stack/ComposeHProofs.v,
   Stack/ComposeHShift.v, Stack/HistoryProofs.v (on top of Copy/DeepCopyInv.v,
   Copy/DeepCopyShift.v).

   compose_h fuel fs h n0 d layers  (Stack/ComposeH.v) is the heap-level model
   of compose: deep copy of the defaults at address d, then for every layer
   (address of the cell holding the source's value) a deep copy with a new
   copier and overlayStruct onto the copy of the defaults.  n0 is the position
   of the (monotone) allocator when the call starts; h is the whole heap at
   that moment: the caller's defaults, every value a source returned or
   reported, every earlier config version.  The result is the new heap, the
   new allocator position and the address d' of the stacked config.
   The theorems are conditional on the call returning (Done): that it does is
   C01 (types, no panic) and C03 (graphs, termination).
   Guards: wf_heapb h n0 - the heap is finite and closed below n0; the
   defaults and the layers live in it.  Reachability (`reach`, Reflect/Heap.v)
   is through exported fields; memory reachable only through unexported
   fields is outside the property. *)
From Coq Require Import List NArith.
From Dials Require Import Base.Outcome Reflect.Ty Reflect.Heap Copy.DeepCopy Copy.DeepCopySpec
  Stack.ComposeH Stack.ComposeHProofs Stack.History Stack.HistoryProofs Stack.ComposeHTyping Stack.ComposeHTotal
  Stack.HistoryTotal Stack.ComposeHFacts.
Import ListNotations.
Open Scope N_scope.

(* Every address reachable from the result through exported fields was
   allocated by this call: it is at or above n0, where the heap before the
   call has nothing. *)
Theorem compose_fresh : forall fuel fs h n0 d layers h' n' d',
  wf_heapb h n0 = true -> d <? n0 = true -> layers_below n0 layers = true ->
  compose_h fuel fs h n0 d layers = Done ((h', n'), d') ->
  n0 <= d' < n' /\
  forall a, reach h' [(RCell, d')] a -> n0 <= a < n' /\ hget h a = None.
Proof. exact compose_fresh_b. Qed.

(* The old heap is a sub-heap of the new one: the defaults, every layer and
   every earlier version are bit-identical afterwards. *)
Theorem compose_inputs_unchanged : forall fuel fs h n0 d layers h' n' d',
  wf_heapb h n0 = true -> d <? n0 = true -> layers_below n0 layers = true ->
  compose_h fuel fs h n0 d layers = Done ((h', n'), d') ->
  (forall a, a < n0 -> hget h' a = hget h a) /\
  (forall a o, hget h a = Some o -> hget h' a = Some o).
Proof. exact compose_inputs_unchanged_b. Qed.

(* compose returns on every well-formed input: c02_guard (Stack/ComposeHTyping.v,
   decidable) = the C03 guards on the heap (finite, closed, ranked, kind-correct)
   + C01's type universe cfg_ok fs + a store typing S0 of the spines (the cell of
   the defaults holds a struct of the config type, every layer cell one of the
   pointerified type, and so on along struct / pointer-to-struct fields; the
   pointee cells of wrapped leaves exist).  Fuel: the C03 bound, once. *)
Theorem compose_h_total : forall fuel fs h n0 R D rk S0 d layers,
  c02_guard h n0 R D rk S0 fs d layers = true -> (copy_fuel n0 R D <= fuel)%nat ->
  exists h' n' d', compose_h fuel fs h n0 d layers = Done ((h', n'), d').
Proof. exact compose_h_total_b. Qed.

(* ... so freshness and "inputs unchanged" hold without "if the call returns" *)
Theorem compose_snapshot : forall fuel fs h n0 R D rk S0 d layers,
  c02_guard h n0 R D rk S0 fs d layers = true -> (copy_fuel n0 R D <= fuel)%nat ->
  exists h' n' d', compose_h fuel fs h n0 d layers = Done ((h', n'), d') /\
    n0 <= d' < n' /\
    (forall a, reach h' [(RCell, d')] a -> n0 <= a < n' /\ hget h a = None) /\
    (forall a, a < n0 -> hget h' a = hget h a) /\
    (forall a o, hget h a = Some o -> hget h' a = Some o).
Proof. exact compose_snapshot_b. Qed.

(* Two stackings of the same inputs (the second call starts where the first
   one stopped): the second result is the first one with every address the
   call allocated renamed by the allocator offset a |-> a + (n1 - n0) - an
   injective renaming, so the two configs are deeply equal - the first call's
   objects and all inputs are untouched by the second, and nothing is
   reachable from both results. *)
Theorem compose_deterministic : forall fuel fs h n0 d layers h1 n1 d1,
  wf_heapb h n0 = true -> d <? n0 = true -> layers_below n0 layers = true ->
  compose_h fuel fs h n0 d layers = Done ((h1, n1), d1) ->
  let dl := n1 - n0 in
  exists h2, compose_h fuel fs h1 n1 d layers = Done ((h2, n1 + dl), d1 + dl) /\
    (forall a o, n0 <= a -> hget h1 a = Some o -> hget h2 (a + dl) = Some (map_addr_obj (fun x => x + dl) o)) /\
    (forall a, a < n1 -> hget h2 a = hget h1 a) /\
    (forall a, reach h2 [(RCell, d1)] a -> reach h2 [(RCell, d1 + dl)] a -> False).
Proof. exact compose_deterministic_b. Qed.

(* Over any run of Config - pristine copy of the defaults, then any sequence
   of re-stacks, sources allocating the values they report in between - no
   object is reachable from two versions, or from a version and the caller's
   defaults, the pristine copy or any value a source ever supplied; and
   nothing that existed before Config is changed. *)
Theorem versions_pairwise_disjoint : forall fuel fs h n0 defaults evs H N d vs,
  wf_heapb h n0 = true -> defaults <? n0 = true ->
  config_h fuel fs h n0 defaults evs = Done ((H, N), d, vs) ->
  (forall u v a, In u vs -> In v vs -> u <> v ->
     reach H [(RCell, v_root u)] a -> reach H [(RCell, v_root v)] a -> False) /\
  (forall v x a, In v vs ->
     (x = defaults \/ x = d \/ exists e, In e evs /\ In x (ev_layers e)) ->
     reach H [(RCell, v_root v)] a -> reach H [(RCell, x)] a -> False) /\
  (forall a o, hget h a = Some o -> hget H a = Some o).
Proof. exact versions_pairwise_disjoint_b. Qed.

(* ... and the whole run returns.  For a replayed history (Config, then re-stacks
   over values that already live in the heap; layerss = the source values in
   force at every stacking) under the decidable guard c02_history_guard: the
   entry copy returns, and with fuel for a heap of n1 = c_next st1 addresses
   every compose of the run does, with all versions pairwise disjoint and
   disjoint from every input.  (The guards of the pristine copy are re-derived:
   Copy/DeepCopyGuard.v.) *)
Theorem versions_total : forall fuel fs h n0 R D rk S0 defaults layerss,
  c02_history_guard h n0 R D rk S0 fs defaults layerss = true ->
  (copy_fuel n0 R D <= fuel)%nat ->
  let evs := map (mk_event []) layerss in
  exists st1 d,
    deep_copy true fuel h n0 (HPtr (Some defaults)) = Done (st1, HPtr (Some d)) /\
    ((copy_fuel (c_next st1) R D <= fuel)%nat ->
     exists H N vs, config_h fuel fs h n0 defaults evs = Done ((H, N), d, vs) /\
       (forall u v a, In u vs -> In v vs -> u <> v ->
          reach H [(RCell, v_root u)] a -> reach H [(RCell, v_root v)] a -> False) /\
       (forall v x a, In v vs ->
          (x = defaults \/ x = d \/ exists e, In e evs /\ In x (ev_layers e)) ->
          reach H [(RCell, v_root v)] a -> reach H [(RCell, x)] a -> False) /\
       (forall a o, hget h a = Some o -> hget H a = Some o)).
Proof. exact versions_total_l. Qed.

Print Assumptions compose_fresh.
Print Assumptions compose_inputs_unchanged.
Print Assumptions compose_h_total.
Print Assumptions compose_snapshot.
Print Assumptions compose_deterministic.
Print Assumptions versions_pairwise_disjoint.
Print Assumptions versions_total.
