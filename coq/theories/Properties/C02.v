(* placeholder until the proofs land *)
From Dials Require Import Reflect.Heap Copy.DeepCopy Stack.ComposeH.
