(* Property C12 - flag sources: only flags given on the command line override
   anything.  Statements only; proofs in Sources/FlagsProofs.v, examples in
   Sources/FlagsFacts.v.

   Level: proof (partial).  Outside the model (trusted, validated by the
   correspondence check): the packages' argv tokenisation, their built-in
   setters beyond the integer / bool / duration grammars of Text/ParseText.v
   (floats, complex), pflag's CSV quoting, and parse.StringSlice / splitMap
   beyond the simple alphabet.

   Vocabulary (Sources/Flags.v): p - package (std flag / pflag); ne, te -
   NameConfig casings; fs, tmpl - config type and template value;
   flag_regs - registerFlags: one reg per flattened leaf (name, kind of flag
   if any, template value); occs - ordered (flag name, text) occurrences;
   run_occs - Parse; flag_value - Set.Value; flag_keys p fs - the pointerified,
   alias-expanded type; set_all k st texts - Set folded over one flag's texts. *)
From Coq Require Import String.
From Coq Require Import List NArith ZArith Bool.
Open Scope string_scope.
Open Scope list_scope.
From Dials Require Import Base.Outcome Base.Runes Reflect.Ty Reflect.Ptrify Stack.Overlay Text.ParseInt Text.ParseIntProofs Text.Split Text.ParseText
  Sources.Flatten Sources.FlattenSpec Sources.Env Sources.EnvSpec Sources.Flags Sources.FlagsProofs Sources.FlagsFacts
  Sources.EnvGuards Sources.FlagsDefaults Stack.StackSpec Sources.LayerBetween Sources.SourceLayers.
Import ListNotations.

(* Every leaf's flag is named by its source-specific tag if present, else by
   the NameConfig's tag casing (kebab by default) applied to the dials tags and
   field-name words along its path. *)
Theorem flag_names : forall p ne te fs tmpl regs,
  flag_regs p ne te fs tmpl = Ok regs ->
  Forall2 (fun r pt => exists parts, raw_parts (fst pt) = Ok parts /\
             rg_name r = match tag_lookup (src_tag p) (leaf_tags (fst pt)) with
                         | Some n => n
                         | None => tag_enc te parts
                         end)
          regs (paths (flag_keys p fs)).
Proof. exact flag_names_l. Qed.

(* Registration never shadows: when the flags are registered (no error), no
   two leaves share a flag name (the "-" tag, which suppresses registration,
   aside), and - std package - no registered name is one the flag package
   rejects.  Otherwise the constructor returns an error (Err 32 / 33 in the
   model; the repository fixes made these errors: before, a colliding flag
   was silently dropped and the other flag's value written into its field,
   and a name beginning with '-' panicked). *)
Theorem flag_registration_never_shadows : forall p ne te fs tmpl regs,
  flag_regs p ne te fs tmpl = Ok regs ->
  has_dup (filter named (map rg_name regs)) = false /\
  (p = PStd -> forallb (fun r => dash_tag p (rg_leaf r) || negb (bad_std_name (rg_name r))) regs = true).
Proof. exact flag_registration_never_shadows_l. Qed.

(* The default every flag is registered with is the template's value of its
   leaf, read POSITIONALLY from the template (tl_fields: the leaves of the
   config type in flattening order; a nil pointer on the way, or a nil user
   pointer, means "no value" and the flag gets the zero value of the leaf's
   concrete type) - i.e. transform.GetField's walk by field names arrives at
   exactly the leaf's position, for config types without interface fields,
   **struct fields and alias tags whose structs have distinct field names. *)
Theorem flag_defaults_are_template : forall p ne te fs tmpl regs,
  cfg_ok fs = true -> names_ok fs = true -> alias_free (flag_alias_keys p) fs = true ->
  flag_regs p ne te fs tmpl = Ok regs ->
  Forall2 (fun r o => rg_init r = match o with
                                  | Some v => v
                                  | None => zero (strip_ptr_ty (lf_ty (rg_leaf r)))
                                  end)
          regs (tl_fields fs (Some tmpl)).
Proof. exact flag_defaults_are_template_l. Qed.

(* ... and what FlagSet.VisitAll advertises is the canonical rendering of that
   default, for every registered flag. *)
Theorem flag_advertised_is_default : forall p ne te fs tmpl regs,
  flag_regs p ne te fs tmpl = Ok regs ->
  Forall (fun r => rg_init r = template_value fs tmpl (rg_leaf r) /\
                   forall k, rg_kind r = Some k ->
                             In (rg_name r, canon_default k (template_value fs tmpl (rg_leaf r)))
                                (flag_advertised regs)) regs.
Proof. exact flag_defaults_l. Qed.

(* Exactly the visited flags set their leaves: a leaf whose flag does not
   occur stays unset (so lower layers show through, property C01), a leaf
   whose flag occurs holds what Value writes for the flag's final state. *)
Theorem flag_only_visited_set : forall p ne te fs tmpl occs vs,
  alias_free (flag_alias_keys p) (ptrify_fields fs) = true -> wf_fields (ptrify_fields fs) = true ->
  flag_value p ne te fs tmpl occs = Ok vs ->
  exists regs states,
    flag_regs p ne te fs tmpl = Ok regs /\ run_occs regs [] occs = Ok states /\
    Forall2 (fun r x =>
               (~ In (rg_name r) (map fst occs) -> x = VNil) /\
               (forall st k, st_lookup (rg_name r) states = Some st -> rg_kind r = Some k ->
                             write_leaf p k (lf_ty (rg_leaf r)) (st_val st) = Ok x))
            regs (leaves_of (ptrify_fields fs) vs).
Proof. exact flag_only_visited_set_l. Qed.

(* ... where a flag's final state is Set folded over its own occurrences, in
   order, whatever other flags are interleaved. *)
Theorem flag_state_is_fold : forall regs occs st0 st,
  run_occs regs st0 occs = Ok st ->
  forall n r k, find_reg n regs = Some r -> rg_kind r = Some k ->
    let start := match st_lookup n st0 with Some s => s | None => mkFstate (rg_init r) true end in
    match texts_of n occs with
    | [] => st_lookup n st = st_lookup n st0
    | ts => exists s', set_all k start ts = Ok s' /\ st_lookup n st = Some s'
    end.
Proof. exact run_occs_project. Qed.

(* Repeated slice flags accumulate; the first occurrence replaces the default. *)
Theorem flag_accumulate : forall native dflt texts wss,
  Forall2 (fun t ws => flag_set (FkStrSlice native) (mkFstate VNil true) t = Ok (mkFstate (VList (map VStr ws)) false))
          texts wss ->
  texts <> [] ->
  exists st', set_all (FkStrSlice native) (mkFstate dflt true) texts = Ok st' /\
              st_val st' = VList (map VStr (concat wss)).
Proof. exact flag_accumulate_l. Qed.

Theorem flag_accumulate_ints : forall sg b dflt texts vss,
  Forall2 (fun t vs => int_slice sg b t = Ok vs) texts vss -> texts <> [] ->
  exists st', set_all (FkIntSlice sg b) (mkFstate dflt true) texts = Ok st' /\
              st_val st' = VList (concat vss).
Proof. exact flag_accumulate_ints_l. Qed.

(* Maps, sets and maps of slices: the first occurrence replaces, later ones
   merge; the texts are read by package parse (C15's map_ss_parse, string_set,
   mss_parse). *)
Theorem flag_accumulate_maps : forall st text,
  (forall kvs, map_ss_parse isp0 text = Ok kvs ->
     flag_set FkStrMap st text =
     Ok (mkFstate (VMap (fold_left (fun m kv => map_put (VStr (fst kv)) (VStr (snd kv)) m) kvs
                                   (if st_defaulted st then [] else vmap_of (st_val st)))) false)) /\
  (forall ws, string_set isp0 text = Ok ws ->
     flag_set FkStrSet st text =
     Ok (mkFstate (VMap (fold_left (fun m w => map_put (VStr w) set_unit m) ws
                                   (if st_defaulted st then [] else vmap_of (st_val st)))) false)) /\
  (forall kvs, mss_parse isp0 text = Ok kvs ->
     flag_set FkStrSliceMap st text =
     Ok (mkFstate (VMap (merge_mss kvs (if st_defaulted st then [] else vmap_of (st_val st)))) false)).
Proof. exact flag_accumulate_maps_l. Qed.

(* A value outside the leaf type's range is an error: the std package's
   overflow check before narrowing, pflag's natively sized parse; and an error
   on any visited flag, or a text that does not parse, yields no value. *)
Theorem flag_out_of_range_is_error : forall k w nm z,
  (match k with FkInt _ | FkUint _ | FkDuration => True | _ => False end) ->
  in_int_range w z = false ->
  write_leaf PStd k (TPtr (TBasic (KInt w) nm)) (VInt z) = Err 31.
Proof. exact write_leaf_overflow. Qed.

Theorem flag_out_of_range_is_error_unsigned : forall k w nm z,
  (match k with FkInt _ | FkUint _ | FkDuration => True | _ => False end) ->
  ((0 <=? z)%Z && in_uint_range w (Z.to_N z)) = false ->
  write_leaf PStd k (TPtr (TBasic (KUint w) nm)) (VInt z) = Err 31.
Proof. exact write_leaf_overflow_u. Qed.

Theorem flag_out_of_range_is_error_float32 : forall nm z,
  (float_max 32 * 1024 < Z.abs z)%Z ->       (* beyond math.MaxFloat32 - also where it would round to it *)
  Z.abs z <> float_inf ->                    (* an infinity given on the command line is not an overflow *)
  write_leaf PStd (FkFloat 64) (TPtr (TBasic (KFloat 32) nm)) (VFloat z) = Err 31.
Proof. exact write_leaf_overflow_f32. Qed.

(* the packages' own integer setters (pflag: at the leaf's width) return the
   literal's value inside the range of that size, or an error - C15's
   characterisation of strconv.ParseInt *)
Theorem flag_native_parse_in_range : forall b s z, good_bits b -> parse_int s b = Ok z ->
  lit_value s = Some z /\ (- Z.of_N (2 ^ (b - 1)) <= z < Z.of_N (2 ^ (b - 1)))%Z.
Proof. exact parse_int_range. Qed.

Theorem flag_bad_value_is_error : forall p ne te fs tmpl occs regs states r st k,
  flag_regs p ne te fs tmpl = Ok regs -> run_occs regs [] occs = Ok states ->
  In r regs -> st_lookup (rg_name r) states = Some st -> rg_kind r = Some k ->
  (forall x, write_leaf p k (lf_ty (rg_leaf r)) (st_val st) <> Ok x) ->
  forall vs, flag_value p ne te fs tmpl occs <> Ok vs.
Proof. exact flag_bad_value_is_error_l. Qed.

Theorem flag_parse_error_is_error : forall p ne te fs tmpl occs regs c,
  flag_regs p ne te fs tmpl = Ok regs -> run_occs regs [] occs = Err c ->
  flag_value p ne te fs tmpl occs = Err c.
Proof. exact flag_parse_error_is_error_l. Qed.

(* DESIGN finding 17 (fixed): on the pinned std source a net.IP flag given on
   the command line made Value panic; documentation of the old behaviour. *)
Theorem flag_netip_pre_fix_refuted :
  class_of (flag_value_with write_leaf_pre_fix PStd 0 0 ex_fs ex_tmpl [(S "addr", S "10.0.0.1")]) = CPanic /\
  class_of (flag_value_with write_leaf_pre_fix PPflag 0 0 ex_fs ex_tmpl [(S "addr", S "10.0.0.1")]) = COk /\
  class_of (flag_value PStd 0 0 ex_fs ex_tmpl [(S "addr", S "10.0.0.1")]) = COk.
Proof. exact flag_netip_pre_fix_refuted_l. Qed.

(* fixed: on the std source a leaf of a DECLARED complex type given on the
   command line made Value panic; documentation of the old behaviour. *)
Theorem flag_named_complex_pre_fix_refuted :
  class_of (flag_value_with write_leaf_pre_fix2 PStd 0 0 named_fs named_tmpl [(S "gain", S "2i")]) = CPanic /\
  class_of (flag_value_with write_leaf_pre_fix2 PPflag 0 0 named_fs named_tmpl [(S "gain", S "2i")]) = COk /\
  class_of (flag_value PStd 0 0 named_fs named_tmpl [(S "gain", S "2i")]) = COk.
Proof. exact flag_named_complex_pre_fix_refuted_l. Qed.

(* End to end with C01 (flag_layer_between): either flag source between a
   lower and a higher layer - dials' compose succeeds, is the by-name
   stacking, and leaf by leaf (over; see C11's layer_between_leaf) the result
   is the higher layer's leaf if set, else the flag's leaf if the flag was
   given, else the lower layer's if set, else the default: unset flags do not
   shadow lower layers. *)
Theorem flag_layer_between : forall p ne te fs tmpl occs d lo hi src,
  cfg_both fs -> alias_free (flag_alias_keys p) fs = true ->
  Dials.Stack.Spine.spine_fields fs d = true ->
  Dials.Stack.Spine.spine_fields (ptrify_fields fs) lo = true ->
  Dials.Stack.Spine.spine_fields (ptrify_fields fs) hi = true ->
  flag_value p ne te fs tmpl occs = Ok src ->
  compose fs d [VStruct lo; VStruct src; VStruct hi] = Ok (stack fs d [VStruct lo; VStruct src; VStruct hi]) /\
  eff_fields fs (Some (stack fs d [VStruct lo; VStruct src; VStruct hi])) =
    over (ltys fs) (over (ltys fs) (over (ltys fs) (eff_fields fs (Some d)) (leaves_of (ptrify_fields fs) lo))
                         (leaves_of (ptrify_fields fs) src))
         (leaves_of (ptrify_fields fs) hi) /\
  exists regs states,
    flag_regs p ne te fs tmpl = Ok regs /\ run_occs regs [] occs = Ok states /\
    Forall2 (fun r x =>
               (~ In (rg_name r) (map fst occs) -> x = VNil) /\
               (forall st k, st_lookup (rg_name r) states = Some st -> rg_kind r = Some k ->
                             write_leaf p k (lf_ty (rg_leaf r)) (st_val st) = Ok x))
            regs (leaves_of (ptrify_fields fs) src).
Proof. exact flag_layer_between_l. Qed.

Print Assumptions flag_names.
Print Assumptions flag_layer_between.
Print Assumptions flag_registration_never_shadows.
Print Assumptions flag_out_of_range_is_error_float32.
Print Assumptions flag_named_complex_pre_fix_refuted.
Print Assumptions flag_defaults_are_template.
Print Assumptions flag_advertised_is_default.
Print Assumptions flag_accumulate_ints.
Print Assumptions flag_only_visited_set.
Print Assumptions flag_state_is_fold.
Print Assumptions flag_accumulate.
Print Assumptions flag_accumulate_maps.
Print Assumptions flag_out_of_range_is_error.
Print Assumptions flag_out_of_range_is_error_unsigned.
Print Assumptions flag_native_parse_in_range.
Print Assumptions flag_bad_value_is_error.
Print Assumptions flag_parse_error_is_error.
Print Assumptions flag_netip_pre_fix_refuted.
