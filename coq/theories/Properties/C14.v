(* Property C14 - aliases: either name sets the field, both together are an
   error naming the field.  Statements only; proofs are in
   Transform/AliasProofs.v, TransformerProofs.v.  The alias mangler is the
   first stage of the env, flag and pflag chains and of ez's decoder wrap, so
   it is undone last: its two inputs per aliased field are the values the rest
   of the chain rebuilt for the primary and for the alias copy of the field
   (for a struct-typed field: the two structs; at any depth: the same rule is
   applied by the alias sub-transformer of the enclosing struct, which is the
   very same function, see alias_every_depth). *)
From Coq Require Import List NArith ZArith Bool.
From Dials Require Import Base.Outcome Base.Runes Reflect.Ty Transform.RType Transform.MAlias
  Transform.MFlatten Transform.Manglers Transform.Transformer Transform.TransformerProofs Transform.AliasProofs
  Transform.WellFormed Transform.CounterpartSpec Transform.SpecProofs Transform.AliasSpecProofs
  Transform.EnvChainProofs.
Import ListNotations.

(* an aliased field becomes exactly two fields of the same type: itself and the copy *)
Theorem alias_doubles_the_field : forall tags sf outs, alias_mangle tags sf = Ok outs ->
  outs = [sf] \/
  exists t1 t2, outs = [SF (sf_name sf) t1 (sf_anon sf) (sf_ty sf);
                        SF (sf_name sf ++ alias_field_suffix) t2 (sf_anon sf) (sf_ty sf)].
Proof. exact alias_mangle_shape. Qed.

(* e: the recorded mapping element of an aliased field; g: its slice of the
   translated layer; up/ua: the two values after the nested structs below them
   (if any) have been reverse-translated by the alias sub-transformer *)
Theorem alias_either_sets : forall E subrev tags e g fp fa up ua,
  rec_unmangle subrev (MAlias tags)
    (match me_in e with Some f => is_array_ty (sf_ty f) | None => false end) (me_out e) g
    = Ok [(fp, up); (fa, ua)] ->
  (go_is_zero up = false -> go_is_zero ua = true -> unmangle_field E subrev (MAlias tags) e g = Ok up) /\
  (go_is_zero up = true -> go_is_zero ua = false -> unmangle_field E subrev (MAlias tags) e g = Ok ua).
Proof.
  intros E subrev tags e g fp fa up ua H. unfold unmangle_field. rewrite H. simpl obind. simpl unmangle.
  split; intros H1 H2; [now apply (alias_primary_only (me_in e) fp fa) | now apply (alias_alias_only (me_in e) fp fa)].
Qed.

Theorem alias_neither_unset : forall E subrev tags e g fp fa up ua,
  rec_unmangle subrev (MAlias tags)
    (match me_in e with Some f => is_array_ty (sf_ty f) | None => false end) (me_out e) g
    = Ok [(fp, up); (fa, ua)] ->
  go_is_zero up = true -> go_is_zero ua = true ->
  unmangle_field E subrev (MAlias tags) e g = Ok up /\ go_is_zero up = true.
Proof.
  intros E subrev tags e g fp fa up ua H H1 H2. unfold unmangle_field. rewrite H. simpl obind. simpl unmangle.
  split; [now apply (alias_neither (me_in e) fp fa) | exact H1].
Qed.

(* both set: an error whose class carries the name of the field, and the name
   can be read back from the class *)
Theorem alias_both_is_error_naming_field : forall E subrev tags e g fp fa up ua,
  rec_unmangle subrev (MAlias tags)
    (match me_in e with Some f => is_array_ty (sf_ty f) | None => false end) (me_out e) g
    = Ok [(fp, up); (fa, ua)] ->
  go_is_zero up = false -> go_is_zero ua = false ->
  unmangle_field E subrev (MAlias tags) e g = Err (alias_both_code (sfo_name (me_in e))) /\
  (Forall rune_ok (sfo_name (me_in e)) -> (length (sfo_name (me_in e)) < 200)%nat ->
   alias_err_name (alias_both_code (sfo_name (me_in e))) = Some (sfo_name (me_in e))).
Proof.
  intros E subrev tags e g fp fa up ua H H1 H2. unfold unmangle_field. rewrite H. simpl obind. simpl unmangle.
  split; [now apply (alias_both (me_in e) fp fa) | apply alias_err_names].
Qed.

(* the class determines the field: different fields, different classes *)
Theorem alias_error_class_injective : forall a b, Forall rune_ok a -> Forall rune_ok b ->
  (length a < 200)%nat -> (length b < 200)%nat -> alias_both_code a = alias_both_code b -> a = b.
Proof. exact alias_both_code_inj. Qed.

(* independence: in the alias stage every field is computed from its own
   slice only (whatever the other fields hold) ... *)
Theorem alias_independent : forall E subrev tags elems gs out, length gs = length elems ->
  (rev_groups E subrev (MAlias tags) elems gs = Ok out <-> groups_rel E subrev (MAlias tags) elems gs out).
Proof. intros. now apply rev_groups_ok. Qed.

(* ... and an aliased field given under both names fails the whole layer with
   its own class unless an earlier field already failed *)
Theorem alias_error_reaches_caller : forall E subrev tags pre e post gpre g gpost opre c,
  groups_rel E subrev (MAlias tags) pre gpre opre ->
  xexported (sfo_name (me_in e)) = true ->
  unmangle_field E subrev (MAlias tags) e g = Err c ->
  rev_groups E subrev (MAlias tags) (pre ++ e :: post) (gpre ++ g :: gpost) = Err c.
Proof.
  intros. eapply rev_groups_first_failure; eauto. unfold skipped. now rewrite H0.
Qed.

(* every depth: the struct below a pointer field of the alias stage is
   reverse-translated by ReverseTranslate of the alias sub-transformer, i.e.
   by the same rules applied to the nested struct's own fields *)
Theorem alias_every_depth : forall subrev tags ia o x f e pv,
  snd o = Some x ->
  rec_unmangle_one subrev (MAlias tags) ia o (f, (TPtr e, VPtr pv)) =
  (r <- subrev (MAlias tags) x (e, pv) ;; Ok (f, (TPtr (fst r), VPtr (snd r)))).
Proof. intros subrev tags ia o x f e pv H. unfold rec_unmangle_one. rewrite H. reflexivity. Qed.

(* the alias mangler itself never panics (after the fix: commit; IsNil did) *)
Theorem alias_never_panics : forall sfo fvs, is_panic (alias_unmangle sfo fvs) = false.
Proof. exact alias_unmangle_no_panic. Qed.

(* SOURCE LEVEL (std flag and pflag sources: chain [alias; flatten]).  What
   ReverseTranslate returns for the translated value the source filled from the
   flags that were given IS the by-name specification ... *)
Theorem alias_chain_is_spec : forall fuel E tags tag te fs nm tt x filled,
  wf_fields fs = true -> simple_fields fs = true -> alias_ok_fields tags fs = true ->
  translate fuel [MAlias tags; MFlatten tag 0%N te] (TStruct fs nm) = Ok (tt, x) ->
  length filled = length (unpack_ty tt) ->
  Some (reverse fuel E [MAlias tags; MFlatten tag 0%N te] x (tt, VStruct filled)) =
  counterpart_spec E [MAlias tags; MFlatten tag 0%N te] (TStruct fs nm) tt filled.
Proof. exact alias_flatten_chain_spec_l. Qed.

(* the same for the env source's chain [alias; flatten; reformat; tag copy;
   string cast], for texts that parse at their leaf's type *)
Theorem alias_env_chain_is_spec : forall fuel E tags tag te tg fs nm tt x filled,
  Forall (fun m => is_tagstage m = true) tg ->
  wf_fields fs = true -> simple_fields fs = true -> alias_ok_fields tags fs = true ->
  translate fuel (MAlias tags :: MFlatten tag 0%N te :: tg ++ [MStrCast]) (TStruct fs nm) = Ok (tt, x) ->
  Forall2 (text_ok E) filled (aleaves_fields tags fs) ->
  Some (reverse fuel E (MAlias tags :: MFlatten tag 0%N te :: tg ++ [MStrCast]) x (tt, VStruct filled)) =
  counterpart_spec E (MAlias tags :: MFlatten tag 0%N te :: tg ++ [MStrCast]) (TStruct fs nm) tt filled.
Proof. exact env_chain_spec_l. Qed.

(* ... and in the specification an aliased leaf field, at ANY depth (names is
   the path of enclosing field names), is computed from exactly the two
   translated fields named by its primary and its alias-copy path: *)
Theorem alias_value_reaches_field : forall E env tags names n tg t r,
  wf_ty t = true -> leaf_ok t = true -> under_is_struct t = false -> xexported n = true ->
  has_alias tags tg = true ->
  bound env (enc0 (names ++ [n])) -> bound env (enc0 (names ++ [n ++ alias_field_suffix])) ->
  fspec_fields E (Shape tags (Some 0%N) false false false) env 0%N names (FCons n tg false t r) =
  (x <- pick n t (valof env (enc0 (names ++ [n]))) (valof env (enc0 (names ++ [n ++ alias_field_suffix]))) ;;
   rest <- fspec_fields E (Shape tags (Some 0%N) false false false) env 0%N names r ;;
   Ok (x :: rest)).
Proof. exact spec_aliased_leaf. Qed.

(* ... where the value under the primary name alone is the field's value, the
   value under the alias name alone is the field's value, neither leaves it
   unset, and both is the error naming the field *)
Theorem alias_pick_cases : forall n t p a, wf_ty t = true ->
  (is_vnil p = false -> is_vnil a = true -> pick n t p a = Ok p) /\
  (is_vnil p = true -> is_vnil a = false -> pick n t p a = Ok a) /\
  (is_vnil p = true -> is_vnil a = true -> pick n t p a = Ok VNil) /\
  (is_vnil p = false -> is_vnil a = false -> pick n t p a = Err (alias_both_code n)).
Proof. exact pick_cases. Qed.

Print Assumptions alias_chain_is_spec.
Print Assumptions alias_env_chain_is_spec.
Print Assumptions alias_value_reaches_field.
Print Assumptions alias_pick_cases.
Print Assumptions alias_doubles_the_field.
Print Assumptions alias_either_sets.
Print Assumptions alias_neither_unset.
Print Assumptions alias_both_is_error_naming_field.
Print Assumptions alias_error_class_injective.
Print Assumptions alias_independent.
Print Assumptions alias_error_reaches_caller.
Print Assumptions alias_every_depth.
Print Assumptions alias_never_panics.
