(* Property C11 - environment source: documented names, exact values, nothing
   else touched.  Statements only; proofs live in Sources/*Proofs.v, examples
   and refutation witnesses in Sources/EnvFacts.v.

   Vocabulary (Sources/Env.v, EnvSpec.v, FlattenSpec.v):
     pfs                 the pointerified config type handed to the source
     env_plan prefix pfs the flattened leaves in depth-first order, each with
                         the variable env.go looks up for it
     env_value           the model of env.Source.Value (Ok / Err / Panic)
     paths pfs           the depth-first leaf paths (name, tags, embedded?) of pfs
     leaves_of pfs vs    the leaves of a returned value, read back depth first
                         (below a nil struct pointer every leaf reads as unset)
     spec_var prefix p   the documented variable: the dialsenv tag, else
                         PREFIX_ + UPPER_SNAKE of the words of the dials tags /
                         field names along p
     env_supported pfs   no alias tags (property C14), struct fields are *struct,
                         leaves are nil-able - true for Pointerify's output on
                         types without **struct                                   *)
From Coq Require Import String.
From Coq Require Import List NArith ZArith.
From Dials Require Import Base.Outcome Base.Runes Reflect.Ty Stack.Overlay Text.ParseInt Text.ParseText
  Sources.Flatten Sources.FlattenSpec Sources.Env Sources.EnvSpec Sources.EnvProofs Sources.EnvFacts
  Reflect.Ptrify Text.CaseConv Text.GoCamelSpec Sources.EnvGuards Stack.StackSpec Sources.LayerBetween Sources.SourceLayers.
Import ListNotations.
Open Scope string_scope.
Open Scope list_scope.

(* The variable looked up for a leaf is the documented one, for every leaf
   whose path is inside the decidable guard (with a dialsenv tag: the derived
   tag is non-empty; without: camel_join_safe, i.e. the UpperCamel join of the
   parts along the path splits again into the words of the components). *)
Theorem env_name_spec : forall prefix pfs plan,
  alias_free env_alias_keys pfs = true ->
  env_plan prefix pfs = Ok plan ->
  Forall2 (fun lv pt => name_guard (fst pt) = true -> spec_var prefix (fst pt) = Ok (snd lv))
          plan (paths pfs).
Proof. exact env_name_spec_l. Qed.

(* The guard is not vacuous: struct{ A struct{ B int; C int `dials:"c_tag"` } }
   reads AB and AC_TAG where A_B and A_C_TAG are documented (known finding C11/1). *)
Theorem env_name_refuted :
  env_supported ref_pfs = true /\
  omap (map snd) (env_plan [] ref_pfs) = Ok [S "AB"; S "AC_TAG"] /\
  map (fun pt => spec_var [] (fst pt)) (paths ref_pfs) = [Ok (S "A_B"); Ok (S "A_C_TAG")] /\
  map (fun pt => camel_join_safe (fst pt)) (paths ref_pfs) = [false; false].
Proof. exact env_name_refuted_l. Qed.

(* A leaf is set exactly when its variable is present. *)
Theorem env_sets_exactly_present : forall prefix pfs env vs,
  env_supported pfs = true -> env_value prefix pfs env = Ok vs ->
  exists plan, env_plan prefix pfs = Ok plan /\
    Forall2 (fun lv x => is_set x = true <-> lookup_env env (snd lv) <> None) plan (leaves_of pfs vs).
Proof. exact env_sets_exactly_present_l. Qed.

(* A set leaf holds the parsed value of its own variable at the leaf type:
   cast is parse.String at the pointed-to type (wrapped in a pointer) for
   scalars, at the type itself for slices and maps (env_cast_is_parse). *)
Theorem env_value_parsed : forall prefix pfs env vs,
  env_supported pfs = true -> env_value prefix pfs env = Ok vs ->
  exists plan, env_plan prefix pfs = Ok plan /\
    Forall2 (fun lv x => forall s, lookup_env env (snd lv) = Some s ->
               cast (lf_ty (fst lv)) (Some s) = Ok x)
            plan (leaves_of pfs vs).
Proof. exact env_value_parsed_l. Qed.

Theorem env_cast_is_parse : forall t s,
  cast (TPtr t) (Some s) = omap VPtr (parse_text t s) /\
  (forall e n, cast (TSlice e n) (Some s) = parse_text (TSlice e n) s) /\
  (forall k e n, cast (TMap k e n) (Some s) = parse_text (TMap k e n) s).
Proof. exact cast_char. Qed.

(* Frame: the whole outcome depends only on the bindings of the variables
   named by the leaves - for any type and any two environments. *)
Theorem env_frame : forall prefix pfs env env',
  (forall plan, env_plan prefix pfs = Ok plan ->
                Forall (fun lv => lookup_env env (snd lv) = lookup_env env' (snd lv)) plan) ->
  env_value prefix pfs env = env_value prefix pfs env'.
Proof. exact env_frame_l. Qed.

(* ... in particular decoy variables (prefixes, suffixes, case variants of real
   names: anything that is not exactly a leaf's variable) change nothing. *)
Theorem env_frame_decoys : forall prefix pfs env extra,
  (forall plan, env_plan prefix pfs = Ok plan ->
                Forall (fun lv => lookup_env extra (snd lv) = None) plan) ->
  env_value prefix pfs (extra ++ env) = env_value prefix pfs env /\
  env_value prefix pfs (env ++ extra) = env_value prefix pfs env.
Proof. exact env_frame_decoys_l. Qed.

(* A present variable whose text does not parse at the leaf type makes the
   whole call fail: never a zero or partial value. *)
Theorem env_bad_value_is_error : forall prefix pfs env plan l var s,
  env_plan prefix pfs = Ok plan -> In (l, var) plan ->
  lookup_env env var = Some s -> (forall x, cast (lf_ty l) (Some s) <> Ok x) ->
  forall vs, env_value prefix pfs env <> Ok vs.
Proof. exact env_bad_value_is_error_l. Qed.

(* ... and "parses" is the model of package parse (property C15): for an
   integer leaf of any width and any declared or predeclared type of that
   kind, a value is returned exactly when the text is a Go integer literal
   whose VALUE lies in the leaf's range - never a wrapped, truncated or
   saturated value (corollaries of C15's int_never_wraps / uint_never_wraps). *)
Theorem env_int_never_truncated : forall w name s v,
  str_eqb name duration_name = false ->
  (parse_text (TBasic (KInt w) name) s = Ok v <->
   exists z, v = VInt z /\ lit_value s = Some z /\ in_srange (sw_of w) z = true).
Proof. exact parse_text_int_spec. Qed.

Theorem env_uint_never_truncated : forall w name s v,
  str_eqb name duration_name = false -> (w =? 1)%N = false ->
  (parse_text (TBasic (KUint w) name) s = Ok v <->
   exists n, v = VInt (Z.of_N n) /\ lit_uvalue s = Some n /\ in_urange (uw_of w) n = true).
Proof. exact parse_text_uint_spec. Qed.

(* The side conditions hold for Pointerify's output on every config type
   without interface fields, **struct fields and alias tags ... *)
Theorem env_supported_for_config_types : forall fs,
  cfg_ok fs = true -> alias_free env_alias_keys fs = true -> env_supported (ptrify_fields fs) = true.
Proof. exact env_supported_ptrify. Qed.

(* ... and the name guard holds for every untagged path whose words are of the
   form [a-z][a-z][a-z0-9]* inside C19's go_guard: the guard of env_name_spec
   excludes only the fusing shapes of finding 8. *)
Theorem env_name_guard_for_ordinary_words : forall p ws,
  untagged p -> tag_lookup dialsenv_tag (leaf_tags p) = None ->
  raw_parts p = Ok ws -> words_ok ws -> name_guard p = true.
Proof. exact name_guard_words. Qed.

(* End to end with C01: the environment source between a lower and a higher
   layer.  For every config type inside C01's quantifier without **struct
   fields and alias tags, every default and every two layers of the
   pointerified type: dials' compose succeeds, is the by-name stacking, and
   the effective leaves of the result (eff_fields: depth first, a leaf below a
   nil struct pointer counting as its zero value) are, leaf by leaf (over),
   the higher layer's leaf if set, else the source's leaf if set, else the
   lower layer's if set, else the default - where the source sets a leaf
   exactly when its variable is present, to the parse of that variable. *)
Theorem env_layer_between : forall prefix fs env d lo hi src,
  cfg_both fs -> alias_free env_alias_keys fs = true ->
  Dials.Stack.Spine.spine_fields fs d = true ->
  Dials.Stack.Spine.spine_fields (ptrify_fields fs) lo = true ->
  Dials.Stack.Spine.spine_fields (ptrify_fields fs) hi = true ->
  env_value prefix (ptrify_fields fs) env = Ok src ->
  compose fs d [VStruct lo; VStruct src; VStruct hi] = Ok (stack fs d [VStruct lo; VStruct src; VStruct hi]) /\
  eff_fields fs (Some (stack fs d [VStruct lo; VStruct src; VStruct hi])) =
    over (ltys fs) (over (ltys fs) (over (ltys fs) (eff_fields fs (Some d)) (leaves_of (ptrify_fields fs) lo))
                         (leaves_of (ptrify_fields fs) src))
         (leaves_of (ptrify_fields fs) hi) /\
  exists plan, env_plan prefix (ptrify_fields fs) = Ok plan /\
    Forall2 (fun lv x => cast (lf_ty (fst lv)) (lookup_env env (snd lv)) = Ok x /\
                         (is_set x = true <-> lookup_env env (snd lv) <> None))
            plan (leaves_of (ptrify_fields fs) src).
Proof. exact env_layer_between_l. Qed.

(* ... `over` three times, at one leaf: *)
Theorem layer_between_leaf : forall ts ds los ss his i t dv lo s hi,
  nth_error ts i = Some t -> nth_error ds i = Some dv -> nth_error los i = Some lo ->
  nth_error ss i = Some s -> nth_error his i = Some hi ->
  nth_error (over ts (over ts (over ts ds los) ss) his) i =
  Some (if negb (is_vnil hi) then unwrap t hi
        else if negb (is_vnil s) then unwrap t s
        else if negb (is_vnil lo) then unwrap t lo else dv).
Proof. exact over3_nth. Qed.

Print Assumptions env_name_spec.
Print Assumptions env_layer_between.
Print Assumptions layer_between_leaf.
Print Assumptions env_supported_for_config_types.
Print Assumptions env_name_guard_for_ordinary_words.
Print Assumptions env_name_refuted.
Print Assumptions env_sets_exactly_present.
Print Assumptions env_value_parsed.
Print Assumptions env_cast_is_parse.
Print Assumptions env_frame.
Print Assumptions env_frame_decoys.
Print Assumptions env_bad_value_is_error.
Print Assumptions env_int_never_truncated.
Print Assumptions env_uint_never_truncated.
