(* Property C16, text half - no textual input makes the text layer panic or
   hang.  Statements only; proofs live in Text/NoPanicProofs.v.

   total o  :=  is_panic o = false /\ o <> Err hang
   i.e. the model call returned a value or an error: it did not reach a Go
   panic (index out of range, reflect misuse ... are Panic values of the
   models) and it did not exhaust its fuel (Err hang is the models' outcome
   for "the Go loop would not terminate"; every other model function is
   structurally recursive).  All statements are for every rune list, every
   IsPrint table, every type code of the dispatcher.

   The type/reflect half of C16 (manglers, sources, decoders over generated
   config types) is a separate engine of lib/props.d/C16.json. *)
From Coq Require Import List NArith ZArith.
From Dials Require Import Base.Outcome Base.Runes Text.CaseConv Text.GoCamelFacts Text.ParseInt Text.Quote
  Text.Split Text.ParseString Text.CasePipeline Text.CaseTitle Text.NoPanicProofs.
Import ListNotations.

(* ---- tagformat/caseconversion: the eight decoders ---- *)
Theorem decode_upper_camel_total : forall s, total (decode_upper_camel s).
Proof. exact decode_upper_camel_total_l. Qed.
Theorem decode_lower_camel_total : forall s, total (decode_lower_camel s).
Proof. exact decode_lower_camel_total_l. Qed.
Theorem decode_lower_snake_total : forall s, total (decode_lower_snake s).
Proof. exact decode_lower_snake_total_l. Qed.
Theorem decode_upper_snake_total : forall s, total (decode_upper_snake s).
Proof. exact decode_upper_snake_total_l. Qed.
Theorem decode_kebab_total : forall s, total (decode_kebab s).
Proof. exact decode_kebab_total_l. Qed.
Theorem decode_cp_snake_total : forall s, total (decode_cp_snake s).
Proof. exact decode_cp_snake_total_l. Qed.
Theorem decode_go_camel_total : forall s, total (decode_go_camel s).
Proof. exact decode_go_camel_total_l. Qed.
Theorem decode_go_tags_total : forall s, total (decode_go_tags s).
Proof. exact decode_go_tags_total_l. Qed.
(* extractInitialisms' outer loop terminates for the source's current list *)
Theorem extract_initialisms_terminates : forall s, extract_initialisms s <> None.
Proof. exact extract_total. Qed.

(* ---- the six encoders (total functions words -> str; encode_by e, decode_by d
   address them by number): every word list - empty words and the empty list
   included - is encoded to a string on which every decoder is total, and the
   decode -> encode -> decode pipelines of the tag manglers are total on every
   rune list ---- *)
Theorem encode_then_decode_total : forall e d ws, total (decode_by d (encode_by e ws)).
Proof. exact encode_then_decode_total_l. Qed.
(* the same through the faithful model of x/text's title casing (Text/CaseTitle.v) *)
Theorem encode_go_then_decode_total : forall e d ws, total (decode_by d (encode_by_go e ws)).
Proof. exact encode_go_then_decode_total_l. Qed.
Theorem pipeline_total : forall d1 e d2 s, total (pipeline d1 e d2 s).
Proof. exact pipeline_total_l. Qed.

(* ---- parse: numbers, quoting ---- *)
Theorem parse_number_int_total : forall w s, total (parse_number_int w s).
Proof. exact parse_number_int_total_l. Qed.
Theorem parse_number_uint_total : forall w s, total (parse_number_uint w s).
Proof. exact parse_number_uint_total_l. Qed.
Theorem signed_slice_total : forall w s, total (signed_slice w s).
Proof. exact signed_slice_total_l. Qed.
Theorem unsigned_slice_total : forall w s, total (unsigned_slice w s).
Proof. exact unsigned_slice_total_l. Qed.
Theorem unquote_total : forall s, total (unquote s).
Proof. exact unquote_total_l. Qed.

(* ---- parse: the scanner-driven splitters, for every callback that is total ---- *)
Theorem split_strings_slice_total : forall isp (A : Type) (add : A -> str -> outcome A),
  (forall a x, total (add a x)) -> forall s a, total (split_strings_slice isp add s a).
Proof. exact (fun isp A => @split_strings_slice_total_l isp A). Qed.
Theorem split_map_total : forall isp fixed (A : Type) (add : A -> str -> str -> outcome A),
  (forall a k v, total (add a k v)) -> forall s a, total (split_map isp fixed add s a).
Proof. exact (fun isp fixed A => @split_map_total_l isp fixed A). Qed.
Theorem string_slice_total : forall isp s, total (string_slice isp s).
Proof. exact string_slice_total_l. Qed.
Theorem string_set_total : forall isp s, total (string_set isp s).
Proof. exact string_set_total_l. Qed.
Theorem map_ss_parse_total : forall isp s, total (map_ss_parse isp s).
Proof. exact map_ss_parse_total_l. Qed.
Theorem mss_parse_total : forall isp s, total (mss_parse isp s).
Proof. exact mss_parse_total_l. Qed.

(* ---- parse.String at every modelled type (after the fix: commit for the
   nested-slice panic; the pinned code is refuted by
   NoPanicProofs.parse_string_pre_fix_refuted) ---- *)
Theorem parse_string_total : forall isp t s, total (parse_string isp true true t s).
Proof. exact parse_string_total_l. Qed.

Print Assumptions decode_upper_camel_total.
Print Assumptions decode_lower_camel_total.
Print Assumptions decode_lower_snake_total.
Print Assumptions decode_upper_snake_total.
Print Assumptions decode_kebab_total.
Print Assumptions decode_cp_snake_total.
Print Assumptions decode_go_camel_total.
Print Assumptions decode_go_tags_total.
Print Assumptions extract_initialisms_terminates.
Print Assumptions encode_then_decode_total.
Print Assumptions encode_go_then_decode_total.
Print Assumptions pipeline_total.
Print Assumptions parse_number_int_total.
Print Assumptions parse_number_uint_total.
Print Assumptions signed_slice_total.
Print Assumptions unsigned_slice_total.
Print Assumptions unquote_total.
Print Assumptions split_strings_slice_total.
Print Assumptions split_map_total.
Print Assumptions string_slice_total.
Print Assumptions string_set_total.
Print Assumptions map_ss_parse_total.
Print Assumptions mss_parse_total.
Print Assumptions parse_string_total.
