(* Property C01 - layer precedence: the last source that sets a leaf wins,
   else the default.  Statements only; proofs in Stack/StackProofs.v.

   compose / overlay_struct mirror dials' compose / overlayStruct (two cursors);
   stack is the specification: every config field is paired with the layer
   field OF THE SAME NAME, a leaf takes the value of the last layer where it
   is non-nil (else the default), structs and pointers to structs merge field
   by field (recursively the same rule), skipped fields keep the default. *)
From Coq Require Import List NArith ZArith Bool.
From Dials Require Import Base.Outcome Base.Runes Reflect.Ty Reflect.Ptrify Stack.Overlay Stack.StackSpec
  Stack.Spine Stack.StackProofs Stack.StackFacts Stack.StackIdem.
Import ListNotations.

(* For every config struct type inside C01's quantifier (cfg_ok: no
   interface-typed fields, distinct field names), every default value, every
   number and order of layers of the pointerified type and every set/unset
   pattern: stacking never fails or panics, the positional walk over the
   pointerified fields is aligned with the config's fields, and the result is
   exactly the by-name, last-set-wins specification. *)
Theorem compose_eq_stack : forall fs d ls,
  cfg_ok fs = true -> spine_fields fs d = true -> forallb (layer_ok fs) ls = true ->
  compose fs d ls = Ok (stack fs d ls).
Proof. intros fs d ls H1 H2 H3. exact (proj1 (compose_eq_stack_l fs H1 ls d H2 H3)). Qed.

(* each leaf = value of the last layer that set the same-named field, else the default *)
Theorem stack_leaf_last_wins : forall fs i bvs names layers n tags t b,
  nth_field i fs = Some (n, tags, t) -> omit_field n tags || is_chan_func t = false -> is_leaf t = true ->
  nth_error bvs i = Some b -> length bvs = fields_len fs ->
  nth_error (stack_fields fs bvs names layers) i =
  Some (match last_set (map (by_name n names) layers) with Some lv => unwrap t lv | None => b end).
Proof. exact stack_leaf_last_wins_l. Qed.

(* nested structs merge field by field, by the same rule, over the layers that set them *)
Theorem stack_struct_merges : forall fs i bvs names layers n tags sfs sname sb,
  nth_field i fs = Some (n, tags, TStruct sfs sname) -> omit_field n tags = false ->
  nth_error bvs i = Some (VStruct sb) -> length bvs = fields_len fs ->
  nth_error (stack_fields fs bvs names layers) i =
  Some (VStruct (stack_fields sfs sb (field_names (ptrify_fields sfs))
                   (sub_layers (map (by_name n names) layers)))).
Proof. exact stack_struct_merges_l. Qed.

(* a source that sets nothing changes nothing, wherever it sits in the stack *)
Theorem stack_unset_layer_id : forall fs d ls1 l ls2, all_unset l = true ->
  stack fs d (ls1 ++ l :: ls2) = stack fs d (ls1 ++ ls2).
Proof. exact stack_unset_layer_id_l. Qed.

(* skipped fields (unexported, dials:"-", chan, func) keep their default for
   any layers - and, by compose_eq_stack, no value is ever shifted into a neighbour *)
Theorem stack_skipped_frame : forall fs i bvs names layers n tags t,
  nth_field i fs = Some (n, tags, t) -> omit_field n tags || is_chan_func t = true ->
  length bvs = fields_len fs ->
  nth_error (stack_fields fs bvs names layers) i = nth_error bvs i.
Proof. exact stack_skipped_frame_l. Qed.

(* layers compose: stacking is a left fold of the one-layer merge *)
Theorem stack_layers_compose : forall fs bvs names l1 l2,
  stack_fields fs bvs names (l1 ++ l2) = stack_fields fs (stack_fields fs bvs names l1) names l2.
Proof. exact (proj2 stack_app). Qed.

(* a layer that occurs twice in a row anywhere in the stack counts once: a source
   that reports again the value it reported before changes nothing (proved by
   mutual induction over the type, Stack/StackIdem.v) - for the specification ... *)
Theorem stack_repeated_layer_once : forall fs d ls1 l ls2,
  stack fs d (ls1 ++ l :: l :: ls2) = stack fs d (ls1 ++ l :: ls2).
Proof. exact stack_repeat_l. Qed.

(* ... and, by compose_eq_stack, for the model of dials.compose itself *)
Theorem compose_repeated_layer_once : forall fs d ls1 l ls2,
  cfg_ok fs = true -> spine_fields fs d = true -> forallb (layer_ok fs) (ls1 ++ l :: ls2) = true ->
  compose fs d (ls1 ++ l :: l :: ls2) = compose fs d (ls1 ++ l :: ls2).
Proof.
  intros fs d ls1 l ls2 H1 H2 H3.
  rewrite (compose_eq_stack fs d (ls1 ++ l :: ls2) H1 H2 H3).
  rewrite (compose_eq_stack fs d (ls1 ++ l :: l :: ls2) H1 H2).
  - rewrite stack_repeat_l. reflexivity.
  - rewrite forallb_app in *. cbn [forallb] in *.
    apply andb_true_iff in H3 as [Ha Hb]. apply andb_true_iff in Hb as [Hl Hb].
    rewrite Ha, Hl, Hb. reflexivity.
Qed.

Print Assumptions compose_eq_stack.
Print Assumptions stack_leaf_last_wins.
Print Assumptions stack_struct_merges.
Print Assumptions stack_unset_layer_id.
Print Assumptions stack_skipped_frame.
Print Assumptions stack_layers_compose.
Print Assumptions stack_repeated_layer_once.
Print Assumptions compose_repeated_layer_once.
