(* placeholder until the proofs land *)
From Dials Require Import Stack.Overlay Stack.StackSpec.
