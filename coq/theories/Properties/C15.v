(* Property C15 - text parsing inverts formatting and never wraps out-of-range
   numbers.  Statements only; proofs live in Text/*Proofs.v.

   Vocabulary (models in Text/ParseInt.v, Quote.v, Split.v, FlagHelpers.v):
   parse_number_int/uint w  = parse.String at an integer type of width w
                              (strconv.ParseInt(s,0,64), reflect overflow check, narrowing);
   signed_slice/unsigned_slice w = parse.SignedIntegralSlice/UnsignedIntegralSlice;
   lit_value / lit_uvalue   = the mathematical value of a Go base-0 integer literal;
   format_int / format_uint = strconv.FormatInt/FormatUint base 10;
   quote / unquote          = strconv.Quote / strconv.Unquote;
   string_slice, string_set, map_ss_parse, mss_parse = parse.StringSlice, StringSet,
                              Map at map[string]string, StringStringSliceMap over the
                              modelled text/scanner;
   slice_string, set_string, map_ss_string, mss_string = the flag helpers' String().
   isp is unicode.IsPrint: every theorem holds for every table that agrees with
   Go's on ASCII.  str_valid s: every rune of s is a Unicode scalar value or a raw
   (invalid UTF-8) byte of the front end Text/Utf8.v - true of every Go string. *)
From Coq Require Import List NArith ZArith Permutation.
From Dials Require Import Base.Outcome Base.Runes Text.ParseInt Text.Quote Text.Split
  Text.FlagHelpers Text.ParseString Text.ParseFloat Text.IntGrammar Text.ParseDuration Text.ParseIntProofs Text.IntGrammarProofs Text.DurationProofs Text.Utf8 Text.Utf8Proofs Text.NamedProofs Text.QuoteProofs Text.SplitProofs.
Import ListNotations.
Open Scope N_scope.

(* ---- integers: round trip, every width ---- *)
Theorem int_roundtrip : forall w z, in_srange w z = true ->
  parse_number_int w (format_int z) = Ok z.
Proof. exact int_roundtrip_signed. Qed.

Theorem uint_roundtrip : forall w n, in_urange w n = true ->
  parse_number_uint w (format_uint n) = Ok n.
Proof. exact int_roundtrip_unsigned. Qed.

Theorem int_slice_roundtrip : forall w zs, Forall (fun z => in_srange w z = true) zs ->
  signed_slice w (int_slice_string zs) = Ok zs.
Proof. exact int_slice_roundtrip_l. Qed.

Theorem uint_slice_roundtrip : forall w ns, Forall (fun n => in_urange w n = true) ns ->
  unsigned_slice w (uint_slice_string ns) = Ok ns.
Proof. exact uint_slice_roundtrip_l. Qed.

(* ---- integers: a returned value is the literal's value and in range; a
   literal whose value is outside the range is an error (never a wrapped,
   truncated or saturated value) ---- *)
Theorem int_never_wraps : forall w s z,
  parse_number_int w s = Ok z <-> lit_value s = Some z /\ in_srange w z = true.
Proof. exact parse_number_int_spec. Qed.

Theorem uint_never_wraps : forall w s n,
  parse_number_uint w s = Ok n <-> lit_uvalue s = Some n /\ in_urange w n = true.
Proof. exact parse_number_uint_spec. Qed.

Theorem int_out_of_range_is_error : forall w s v,
  lit_value s = Some v -> in_srange w v = false -> exists c, parse_number_int w s = Err c.
Proof. exact int_out_of_range_signed. Qed.

Theorem uint_out_of_range_is_error : forall w s v,
  lit_uvalue s = Some v -> in_urange w v = false -> exists c, parse_number_uint w s = Err c.
Proof. exact int_out_of_range_unsigned. Qed.

Theorem int_slice_never_wraps : forall w s zs, signed_slice w s = Ok zs ->
  (s = [] /\ zs = []) \/
  Forall2 (fun p z => lit_value (trim_space p) = Some z /\ in_srange w z = true) (split_on comma s) zs.
Proof. exact (signed_slice_sound true). Qed.

Theorem uint_slice_never_wraps : forall w s ns, unsigned_slice w s = Ok ns ->
  (s = [] /\ ns = []) \/
  Forall2 (fun p n => lit_uvalue (trim_space p) = Some n /\ in_urange w n = true) (split_on comma s) ns.
Proof. exact (unsigned_slice_sound true). Qed.

Theorem int_slice_out_of_range_is_error : forall w s, s <> [] ->
  Exists (fun p => exists v, lit_value (trim_space p) = Some v /\ in_srange w v = false) (split_on comma s) ->
  exists c, signed_slice w s = Err c.
Proof. exact (signed_slice_rejects true). Qed.

Theorem uint_slice_out_of_range_is_error : forall w s, s <> [] ->
  Exists (fun p => exists v, lit_uvalue (trim_space p) = Some v /\ in_urange w v = false) (split_on comma s) ->
  exists c, unsigned_slice w s = Err c.
Proof. exact (unsigned_slice_rejects true). Qed.

(* ---- Go literal forms, in full.  Text/IntGrammar.v is the grammar of Go base-0
   integer literals as a data type:
       literal  = [ "+" | "-" ] form
       form     = nonzero-digit { ["_"] digit }                  (decimal)
                | "0" { ["_"] octal-digit }                       (legacy octal, "0" itself)
                | "0" (b|B|o|O|x|X) ["_"] digit { ["_"] digit }   (binary, octal, hex; digits below the base)
   with render_lit (its text), lit_val (its positional value; separators do not
   count), strip_lit (the same literal without separators), wf_lit (digits are
   below the base etc.).  For every width: a literal of the grammar whose value is
   in range parses to that value - as written, without its separators, and as a
   slice element with blanks around it; out of range it is an error; and
   conversely every text the parser accepts is a literal of the grammar with
   that value (so a misplaced or doubled "_", a missing digit after a prefix, a
   digit not below the base ... are all rejected). ---- *)
Theorem int_accepts_go_forms : forall w g, wf_lit g = true ->
  (in_srange w (lit_val g) = true ->
     parse_number_int w (render_lit g) = Ok (lit_val g) /\
     parse_number_int w (render_lit (strip_lit g)) = Ok (lit_val g) /\
     forall a b, Forall (fun c => is_space c = true) a -> Forall (fun c => is_space c = true) b ->
       signed_elem w (a ++ render_lit g ++ b) = Ok (lit_val g)) /\
  (in_srange w (lit_val g) = false ->
     (exists c, parse_number_int w (render_lit g) = Err c) /\
     forall a b, Forall (fun c => is_space c = true) a -> Forall (fun c => is_space c = true) b ->
       exists c, signed_elem w (a ++ render_lit g ++ b) = Err c).
Proof. exact go_forms_signed. Qed.

Theorem uint_accepts_go_forms : forall w f, wf_form f = true ->
  (in_urange w (form_val f) = true ->
     parse_number_uint w (render_form f) = Ok (form_val f) /\
     forall a b, Forall (fun c => is_space c = true) a -> Forall (fun c => is_space c = true) b ->
       unsigned_elem w (a ++ render_form f ++ b) = Ok (form_val f)) /\
  (in_urange w (form_val f) = false -> exists c, parse_number_uint w (render_form f) = Err c).
Proof. exact go_forms_unsigned. Qed.

Theorem int_accepts_only_go_forms : forall w s z, parse_number_int w s = Ok z ->
  exists g, wf_lit g = true /\ render_lit g = s /\ lit_val g = z.
Proof. exact go_forms_complete_signed. Qed.

Theorem uint_accepts_only_go_forms : forall w s n, parse_number_uint w s = Ok n ->
  exists f, wf_form f = true /\ render_form f = s /\ form_val f = n.
Proof. exact go_forms_complete_unsigned. Qed.

Theorem digit_separators_do_not_count : forall g, wf_lit g = true ->
  wf_lit (strip_lit g) = true /\ lit_val (strip_lit g) = lit_val g.
Proof. exact strip_lit_ok. Qed.

(* ---- strings.  A Go string is a byte list; the models see it through the UTF-8 front
   end Text/Utf8.v (utf8.DecodeRune: an invalid byte is consumed alone and shown as a raw
   pseudo rune).  str_valid s - every rune is a Unicode scalar value or a raw byte - is the
   only hypothesis of the string theorems below, and it holds for whatever a byte string
   decodes to, so they cover every Go string, valid UTF-8 or not. ---- *)
Theorem every_go_string_is_valid : forall bs, Forall (fun b => b < 256) bs -> str_valid (utf8_decode bs).
Proof. exact decode_valid. Qed.

Theorem utf8_decode_encode : forall s, Forall (fun r => valid_rune r = true) s -> utf8_decode (utf8_encode s) = s.
Proof. exact decode_encode. Qed.

Theorem quote_unquote : forall isp, (forall r, r < 128 -> isp r = ascii_print r) ->
  forall s, str_valid s -> unquote (quote isp s) = Ok s.
Proof. exact quote_unquote_l. Qed.

Theorem slice_roundtrip : forall isp, (forall r, r < 128 -> isp r = ascii_print r) ->
  forall l, Forall str_valid l -> string_slice isp (slice_string isp l) = Ok l.
Proof. exact slice_roundtrip_l. Qed.

Theorem set_roundtrip : forall isp, (forall r, r < 128 -> isp r = ascii_print r) ->
  forall l, NoDup l -> Forall str_valid l ->
  exists l', string_set isp (set_string isp l) = Ok l' /\ Permutation l' l.
Proof. exact set_roundtrip_l. Qed.

Theorem map_roundtrip : forall isp, (forall r, r < 128 -> isp r = ascii_print r) ->
  forall m, NoDup (map fst m) -> Forall pair_valid m ->
  exists m', map_ss_parse isp (map_ss_string isp m) = Ok m' /\ Permutation m' m.
Proof. exact map_roundtrip_l. Qed.

(* slices of string KIND that are not exactly []string - []Label with type Label string, and
   type Names []string - go through parse.String's element loop; their members are parsed as
   strings and are not trimmed, so the quoted form round-trips every string, blanks at the ends
   included; the third conjunct is the exact []string type through the same entry point *)
Theorem named_slice_roundtrip : forall isp, (forall r, r < 128 -> isp r = ascii_print r) ->
  forall l, Forall str_valid l ->
  ParseString.parse_string isp true true (ParseString.TSlice (ParseString.TNamed ParseString.TStr)) (slice_string isp l)
    = Ok (ParseString.VList (map ParseString.VStr l)) /\
  ParseString.parse_string isp true true (ParseString.TNamed (ParseString.TSlice ParseString.TStr)) (slice_string isp l)
    = Ok (ParseString.VList (map ParseString.VStr l)) /\
  ParseString.parse_string isp true true (ParseString.TSlice ParseString.TStr) (slice_string isp l)
    = Ok (ParseString.VList (map ParseString.VStr l)).
Proof. exact named_slice_roundtrip_l. Qed.

(* guard (finding 11): no value slice is empty; its complement is refuted by
   SplitProofs.mss_roundtrip_refuted and is known-finding class C15/3 *)
Theorem mss_roundtrip : forall isp, (forall r, r < 128 -> isp r = ascii_print r) ->
  forall m, NoDup (map fst m) -> Forall entry_valid m -> Forall (fun kv => snd kv <> []) m ->
  exists m', mss_parse isp (mss_string isp m) = Ok m' /\ Permutation m' m.
Proof. exact mss_roundtrip_l. Qed.

Theorem bool_roundtrip : forall b, parse_bool (format_bool b) = Ok b.
Proof. exact bool_roundtrip_l. Qed.

(* ---- durations (time.ParseDuration behind parse.String at time.Duration).
   dur_spec s is the unbounded sum of the terms of s (DVal sign total), DBig when a
   single term already exceeds 2^63 ns, DSyntax when s is no duration text.  Below
   2^64 ns the parser returns exactly that sum when it lies in the int64 range and an
   error otherwise - it never wraps.  The guard total < 2^64 is part of the statement:
   at 2^64 the uint64 accumulator of the Go standard library does wrap
   (DurationProofs.duration_wraps_refuted; known finding C15/4).  Fractions use
   the exact quotient of Text/ParseDuration.v (see there for the float64 step). ---- *)
Theorem duration_never_wraps : forall s,
  match dur_spec s with
  | DVal neg t => t < two64 ->
      if neg then (if t <=? two63 then parse_duration s = Ok (- Z.of_N t)%Z else exists c, parse_duration s = Err c)
      else (if t <=? two63 - 1 then parse_duration s = Ok (Z.of_N t) else exists c, parse_duration s = Err c)
  | _ => exists c, parse_duration s = Err c
  end.
Proof. exact duration_never_wraps_l. Qed.

(* Duration.String() of every int64 nanosecond count - every unit form (ns, µs, ms, s, m, h),
   fractions with trailing zeros dropped, the minimum -2^63 included - parses back to it *)
Theorem duration_roundtrip : forall z, (- Z.of_N two63 <= z < Z.of_N two63)%Z ->
  parse_duration (dur_string z) = Ok z.
Proof. exact duration_roundtrip_l. Qed.

(* ---- floats: given strconv's print/parse round trip ---- *)
Theorem float_roundtrip_given_strconv :
  forall (F64 F32 : Type) (parse_float : N -> str -> outcome F64) (overflow32 : F64 -> bool)
         (to32 : F64 -> F32) (of32 : F32 -> F64) (fmt64 : F64 -> str) (fmt32 : F32 -> str),
  (forall f, parse_float 64 (fmt64 f) = Ok f) ->
  (forall f, parse_float 32 (fmt32 f) = Ok (of32 f)) ->
  (forall f, to32 (of32 f) = f) ->
  (forall f, overflow32 (of32 f) = false) ->
  (forall f, parse_number_f64 F64 parse_float (fmt64 f) = Ok f) /\
  (forall f, parse_number_f32 F64 F32 parse_float overflow32 to32 (fmt32 f) = Ok f).
Proof. exact float_roundtrip_given_strconv_l. Qed.

Print Assumptions int_roundtrip.
Print Assumptions uint_roundtrip.
Print Assumptions int_slice_roundtrip.
Print Assumptions uint_slice_roundtrip.
Print Assumptions int_never_wraps.
Print Assumptions uint_never_wraps.
Print Assumptions int_out_of_range_is_error.
Print Assumptions uint_out_of_range_is_error.
Print Assumptions int_slice_never_wraps.
Print Assumptions uint_slice_never_wraps.
Print Assumptions int_slice_out_of_range_is_error.
Print Assumptions uint_slice_out_of_range_is_error.
Print Assumptions int_accepts_go_forms.
Print Assumptions uint_accepts_go_forms.
Print Assumptions int_accepts_only_go_forms.
Print Assumptions uint_accepts_only_go_forms.
Print Assumptions digit_separators_do_not_count.
Print Assumptions every_go_string_is_valid.
Print Assumptions utf8_decode_encode.
Print Assumptions quote_unquote.
Print Assumptions slice_roundtrip.
Print Assumptions named_slice_roundtrip.
Print Assumptions set_roundtrip.
Print Assumptions map_roundtrip.
Print Assumptions mss_roundtrip.
Print Assumptions duration_never_wraps.
Print Assumptions duration_roundtrip.
Print Assumptions bool_roundtrip.
Print Assumptions float_roundtrip_given_strconv.
