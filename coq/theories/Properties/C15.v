(* placeholder while the models are being validated *)
From Dials Require Import Text.ParseInt.
