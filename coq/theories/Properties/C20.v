(* placeholder until the statements land *)
From Dials Require Import Transform.TransformingSourceProofs.
