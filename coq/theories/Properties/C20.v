(* Property C20 - source wrappers are transparent.
   PART 1 (this file, so far): the transforming source / decoder
   (sourcewrap/transforming_source.go).  The Blank half (sourcewrap/blank.go)
   is to be appended below by its owner; lib/props.d/C20.json lists engines
   and theorem groups separately for the same reason.
   Statements only; proofs are in Transform/TransformingSourceProofs.v. *)
From Coq Require Import List NArith ZArith Bool.
From Dials Require Import Base.Outcome Base.Runes Reflect.Ty Reflect.Ptrify Stack.Overlay
  Transform.RType Transform.Manglers Transform.Transformer Transform.TransformingSource
  Transform.TransformingSourceProofs.
Import ListNotations.

(* ===== transforming source ===== *)

(* Value: what Dials receives is the reverse translation of what the inner
   source produced for the translated type; the Dials built on it starts
   exactly like one fed natively with that value *)
Theorem wrapped_value_transparent : forall fuel E ms fs defaults t inner ttr x v',
  translate fuel ms t = Ok (ttr, x) -> inner ttr = Ok v' ->
  ts_value fuel E ms t inner = reverse fuel E ms x v' /\
  dials_config fs defaults (ts_value fuel E ms t inner) = dials_config fs defaults (reverse fuel E ms x v').
Proof.
  intros. split; [eapply ts_value_transparent | eapply ts_config_transparent]; eassumption.
Qed.

(* Watch: for ANY sequence of values reported by the inner watcher, the
   monitor fed through the wrapped watch arguments goes through exactly the
   states of a monitor fed natively with the reverse-translated values, an
   un-reversible value being an error report in both *)
Theorem wrapped_updates_transparent : forall fuel E ms fs defaults s x vs,
  (rs <- wrapped_reports fuel E ms x vs ;; dials_run fs defaults s rs) =
  (rs <- native_reports (map (reverse fuel E ms x) vs) ;; dials_run fs defaults s rs).
Proof. exact updates_transparent. Qed.

(* an un-reversible value is reported as an error and the view stays; a
   reversible one is forwarded reverse-translated *)
Theorem unreversible_update_is_an_error : forall fuel E ms fs defaults s x v c,
  reverse fuel E ms x v = Err c ->
  (r <- ts_report fuel E ms x v ;; dials_step fs defaults s r) = Ok (DS (d_view s) (d_errors s + 1)).
Proof. exact unreversible_not_forwarded. Qed.

Theorem reversible_update_is_forwarded : forall fuel E ms fs defaults s x v u,
  reverse fuel E ms x v = Ok u ->
  (r <- ts_report fuel E ms x v ;; dials_step fs defaults s r) = dials_step fs defaults s (RValue u).
Proof. exact reversible_is_forwarded. Qed.

(* errors are propagated, never swallowed: translation, inner Value, reverse
   translation, inner Watch *)
Theorem errors_propagate : forall fuel E ms t,
  (forall inner c, translate fuel ms t = Err c -> ts_value fuel E ms t inner = Err c) /\
  (forall inner ttr x c, translate fuel ms t = Ok (ttr, x) -> inner ttr = Err c ->
     ts_value fuel E ms t inner = Err c) /\
  (forall inner ttr x v' c, translate fuel ms t = Ok (ttr, x) -> inner ttr = Ok v' ->
     reverse fuel E ms x v' = Err c -> ts_value fuel E ms t inner = Err c) /\
  (forall iw ttr x c, translate fuel ms t = Ok (ttr, x) -> iw ttr = Err c -> ts_watch fuel ms t iw = Err c) /\
  (forall iw c, translate fuel ms t = Err c -> ts_watch fuel ms t iw = Err c) /\
  (forall fs defaults c, dials_config fs defaults (Err c) = Err c).
Proof.
  intros. repeat split; intros.
  - now apply value_translate_error.
  - eapply value_inner_error; eassumption.
  - eapply value_reverse_error; eassumption.
  - eapply watch_inner_error; eassumption.
  - now apply watch_translate_error.
Qed.

Print Assumptions wrapped_value_transparent.
Print Assumptions wrapped_updates_transparent.
Print Assumptions unreversible_update_is_an_error.
Print Assumptions reversible_update_is_forwarded.
Print Assumptions errors_propagate.

(* ===== Blank (sourcewrap/blank.go): to be added ===== *)
