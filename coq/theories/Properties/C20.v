(* Property C20 - source wrappers are transparent.  Statements only.
   PART B: sourcewrap.Blank (proofs in Ez/EzProofs.v, model in Ez/Ez.v).
   (Part A, the transforming source/decoder, is stated in Properties/C20A.v.) *)
From Coq Require Import List NArith ZArith Bool.
From Dials Require Import Base.Outcome Base.Runes Reflect.Ty Reflect.Ptrify Stack.Overlay
  Ez.SeqDials Ez.Ez Ez.EzProofs.
Import ListNotations.
Open Scope N_scope.

(* A successful SetSource makes the Blank delegate to the new inner source;
   what reaches the config is exactly one value update of the Blank's slot
   with the inner source's own value - as if the inner source had produced it
   natively - and the caller gets the re-stack's verdict. *)
Theorem blank_delegates_latest : forall fs defaults verify prm b st s v,
  src_value s = Ok v -> d_alive st = true ->
  (forall old, b_inner b = Some old -> is_watcher old = false) ->
  let '(b', st', r) := blank_set_source fs defaults verify prm b st s in
  b_inner b' = Some s /\ blank_value fs b' = Ok v /\
  st' = fst (d_update fs defaults verify prm st 0 v) /\
  (is_ok r = true -> snd (d_update fs defaults verify prm st 0 v) = Ok tt).
Proof. exact blank_delegates_latest_l. Qed.

(* a watching inner source is never replaced: the call fails, nothing changes *)
Theorem blank_refuses_replacing_watcher : forall fs defaults verify prm b st old s,
  b_inner b = Some old -> is_watcher old = true ->
  blank_set_source fs defaults verify prm b st s = (b, st, Err 20).
Proof. exact blank_refuses_replacing_watcher_l. Qed.

(* errors are propagated, not swallowed: a source whose Value fails is not
   installed, the config is untouched and SetSource returns a failure *)
Theorem blank_failed_value_keeps_old : forall fs defaults verify prm b st s,
  is_ok (src_value s) = false ->
  (forall old, b_inner b = Some old -> is_watcher old = false) ->
  exists r, blank_set_source fs defaults verify prm b st s = (b, st, r) /\ is_ok r = false.
Proof. exact blank_failed_value_keeps_old_l. Qed.

(* Done is forwarded exactly while the Blank still owns the watch slot *)
Theorem blank_done_only_while_owner : forall b st,
  blank_done b st =
  match b_inner b with
  | Some s => if is_watcher s then st else if b_has_wa b then d_done st 0 else st
  | None => if b_has_wa b then d_done st 0 else st
  end.
Proof. exact blank_done_only_while_owner_l. Qed.

(* for EVERY later history of SetSource / Done / report operations: once a
   watching source is inside, it stays, and the slot is never signalled Done *)
Theorem watcher_sticky : forall fs defaults verify prm ops b st w,
  b_inner b = Some w -> is_watcher w = true ->
  let '(b', st') := fold_left (fun bs o => fst (blank_step fs defaults verify prm bs o)) ops (b, st) in
  b' = b /\ d_watching st' = d_watching st.
Proof. exact watcher_sticky_l. Qed.

Print Assumptions blank_delegates_latest.
Print Assumptions blank_refuses_replacing_watcher.
Print Assumptions blank_failed_value_keeps_old.
Print Assumptions blank_done_only_while_owner.
Print Assumptions watcher_sticky.
