(* Property C20 - source wrappers are transparent.
   PART A: the transforming source / decoder (sourcewrap/transforming_source.go);
   proofs in Transform/TransformingSourceProofs.v.
   PART B: sourcewrap.Blank (sourcewrap/blank.go); model Ez/Ez.v, proofs Ez/EzProofs.v.
   Statements only. *)
From Coq Require Import List NArith ZArith Bool.
From Dials Require Import Base.Outcome Base.Runes Reflect.Ty Reflect.Ptrify Stack.Overlay
  Transform.RType Transform.Manglers Transform.Transformer Transform.TransformingSource
  Transform.TransformingSourceProofs.
Import ListNotations.

(* ===== transforming source ===== *)

(* Value: what Dials receives is the reverse translation of what the inner
   source produced for the translated type; the Dials built on it starts
   exactly like one fed natively with that value *)
Theorem wrapped_value_transparent : forall fuel E ms verify fs defaults t inner ttr x v',
  translate fuel ms t = Ok (ttr, x) -> inner ttr = Ok v' ->
  ts_value fuel E ms t inner = reverse fuel E ms x v' /\
  dials_config fs defaults verify (ts_value fuel E ms t inner) = dials_config fs defaults verify (reverse fuel E ms x v').
Proof.
  intros. split; [eapply ts_value_transparent | eapply ts_config_transparent]; eassumption.
Qed.

(* Watch: for ANY sequence of values reported by the inner watcher, the
   monitor fed through the wrapped watch arguments goes through exactly the
   states of a monitor fed natively with the reverse-translated values, an
   un-reversible value being an error report in both *)
Theorem wrapped_updates_transparent : forall fuel E ms verify fs defaults s x vs,
  (rs <- wrapped_reports fuel E ms x vs ;; dials_run fs defaults verify s rs) =
  (rs <- native_reports (map (reverse fuel E ms x) vs) ;; dials_run fs defaults verify s rs).
Proof. intros. apply updates_transparent. Qed.

(* an un-reversible value is reported as an error and the view stays; a
   reversible one is forwarded reverse-translated *)
Theorem unreversible_update_is_an_error : forall fuel E ms verify fs defaults s x v c,
  reverse fuel E ms x v = Err c ->
  (r <- ts_report fuel E ms x v ;; dials_step fs defaults verify s r) = Ok (DS (d_view s) (d_errors s + 1)).
Proof. intros. eapply unreversible_not_forwarded; eassumption. Qed.

Theorem reversible_update_is_forwarded : forall fuel E ms verify fs defaults s x v u,
  reverse fuel E ms x v = Ok u ->
  (r <- ts_report fuel E ms x v ;; dials_step fs defaults verify s r) = dials_step fs defaults verify s (RValue u).
Proof. intros. eapply reversible_is_forwarded; eassumption. Qed.

(* the return value of the wrapped report methods (the config may have a
   Verify method: `verify` is arbitrary).  For a reversible value the wrapped
   ReportNewValue / BlockingReportNewValue behave - state reached AND value
   returned to the reporting watcher - exactly like the native method of the
   same name on the reverse-translated value ... *)
Theorem wrapped_report_returns_as_native : forall fuel E ms verify x blocking fs defaults s v u,
  reverse fuel E ms x v = Ok u ->
  ts_report_ret fuel E ms x blocking fs defaults verify s v =
  native_report_ret blocking fs defaults verify s u.
Proof. intros. now apply report_ret_is_native. Qed.

(* ... so a blocking report returns the verdict of its own re-stack: nil iff
   the view now is the stack of the defaults with exactly this value and it
   passed Verify; an error iff nothing was installed (view unchanged, one error
   event) because stacking or Verify failed - the error is not swallowed *)
Theorem wrapped_blocking_report_returns_verdict : forall fuel E ms verify x fs defaults s v u s' ret,
  reverse fuel E ms x v = Ok u ->
  ts_report_ret fuel E ms x true fs defaults verify s v = Ok (s', ret) ->
  (ret = false -> compose fs defaults [snd u] = Ok (d_view s') /\ verify (d_view s') = true /\
                  d_errors s' = d_errors s) /\
  (ret = true -> d_view s' = d_view s /\ d_errors s' = (d_errors s + 1)%N /\
                 (forall view, compose fs defaults [snd u] = Ok view -> verify view = false)).
Proof. intros. eapply blocking_verdict; eassumption. Qed.

(* the non-blocking report of a reversible value returns nil; an un-reversible
   value makes both variants return an error (view unchanged, one error event) *)
Theorem wrapped_report_other_returns : forall fuel E ms verify x fs defaults s v,
  (forall u s' ret, reverse fuel E ms x v = Ok u ->
     ts_report_ret fuel E ms x false fs defaults verify s v = Ok (s', ret) -> ret = false) /\
  (forall c blocking, reverse fuel E ms x v = Err c ->
     ts_report_ret fuel E ms x blocking fs defaults verify s v = Ok (DS (d_view s) (d_errors s + 1), true)).
Proof.
  intros. split; intros.
  - eapply nonblocking_returns_nil; eassumption.
  - eapply unreversible_returns_error; eassumption.
Qed.

(* and the state reached by a report is the one the monitor reaches for the forwarded report *)
Theorem wrapped_report_state : forall fuel E ms verify x blocking fs defaults s v,
  omap fst (ts_report_ret fuel E ms x blocking fs defaults verify s v) =
  (r <- ts_report fuel E ms x v ;; dials_step fs defaults verify s r).
Proof. intros. apply report_ret_state. Qed.

(* errors are propagated, never swallowed: translation, inner Value, reverse
   translation, inner Watch *)
Theorem errors_propagate : forall fuel E ms t,
  (forall inner c, translate fuel ms t = Err c -> ts_value fuel E ms t inner = Err c) /\
  (forall inner ttr x c, translate fuel ms t = Ok (ttr, x) -> inner ttr = Err c ->
     ts_value fuel E ms t inner = Err c) /\
  (forall inner ttr x v' c, translate fuel ms t = Ok (ttr, x) -> inner ttr = Ok v' ->
     reverse fuel E ms x v' = Err c -> ts_value fuel E ms t inner = Err c) /\
  (forall iw ttr x c, translate fuel ms t = Ok (ttr, x) -> iw ttr = Err c -> ts_watch fuel ms t iw = Err c) /\
  (forall iw c, translate fuel ms t = Err c -> ts_watch fuel ms t iw = Err c) /\
  (forall verify fs defaults c, dials_config fs defaults verify (Err c) = Err c).
Proof.
  intros. repeat split; intros.
  - now apply value_translate_error.
  - eapply value_inner_error; eassumption.
  - eapply value_reverse_error; eassumption.
  - eapply watch_inner_error; eassumption.
  - now apply watch_translate_error.
Qed.

Print Assumptions wrapped_value_transparent.
Print Assumptions wrapped_updates_transparent.
Print Assumptions unreversible_update_is_an_error.
Print Assumptions reversible_update_is_forwarded.
Print Assumptions wrapped_report_returns_as_native.
Print Assumptions wrapped_blocking_report_returns_verdict.
Print Assumptions wrapped_report_other_returns.
Print Assumptions wrapped_report_state.
Print Assumptions errors_propagate.

(* ===== PART B: Blank ===== *)
From Dials Require Import Ez.SeqDials Ez.Ez Ez.EzProofs.
Open Scope N_scope.

(* A successful SetSource makes the Blank delegate to the new inner source;
   what reaches the config is exactly one value update of the Blank's slot
   with the inner source's own value - as if the inner source had produced it
   natively - and the caller gets the re-stack's verdict. *)
Theorem blank_delegates_latest : forall fs defaults verify prm b st s v,
  src_value s = Ok v -> d_alive st = true ->
  (forall old, b_inner b = Some old -> is_watcher old = false) ->
  let '(b', st', r) := blank_set_source fs defaults verify prm b st s in
  b_inner b' = Some s /\ blank_value fs b' = Ok v /\
  st' = fst (d_update fs defaults verify prm st 0 v) /\
  (is_ok r = true -> snd (d_update fs defaults verify prm st 0 v) = Ok tt).
Proof. exact blank_delegates_latest_l. Qed.

(* a watching inner source is never replaced: the call fails, nothing changes *)
Theorem blank_refuses_replacing_watcher : forall fs defaults verify prm b st old s,
  b_inner b = Some old -> is_watcher old = true ->
  blank_set_source fs defaults verify prm b st s = (b, st, Err 20).
Proof. exact blank_refuses_replacing_watcher_l. Qed.

(* errors are propagated, not swallowed: a source whose Value fails is not
   installed, the config is untouched and SetSource returns a failure *)
Theorem blank_failed_value_keeps_old : forall fs defaults verify prm b st s,
  is_ok (src_value s) = false ->
  (forall old, b_inner b = Some old -> is_watcher old = false) ->
  exists r, blank_set_source fs defaults verify prm b st s = (b, st, r) /\ is_ok r = false.
Proof. exact blank_failed_value_keeps_old_l. Qed.

(* Done is forwarded exactly while the Blank still owns the watch slot *)
Theorem blank_done_only_while_owner : forall b st,
  blank_done b st =
  match b_inner b with
  | Some s => if is_watcher s then st else if b_has_wa b then d_done st 0 else st
  | None => if b_has_wa b then d_done st 0 else st
  end.
Proof. exact blank_done_only_while_owner_l. Qed.

(* for EVERY later history of SetSource / Done / report operations: once a
   watching source is inside, it stays, and the slot is never signalled Done *)
Theorem watcher_sticky : forall fs defaults verify prm ops b st w,
  b_inner b = Some w -> is_watcher w = true ->
  let '(b', st') := fold_left (fun bs o => fst (blank_step fs defaults verify prm bs o)) ops (b, st) in
  b' = b /\ d_watching st' = d_watching st.
Proof. exact watcher_sticky_l. Qed.

Print Assumptions blank_delegates_latest.
Print Assumptions blank_refuses_replacing_watcher.
Print Assumptions blank_failed_value_keeps_old.
Print Assumptions blank_done_only_while_owner.
Print Assumptions watcher_sticky.
