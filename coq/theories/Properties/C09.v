(* Property C09 - delayed verification: never early, atomic switch-on, precise
   suppression.  Statements only. *)
From Coq Require Import List NArith Bool.
From Dials Require Import Base.Outcome Core.CbMgr Core.Monitor Core.System
  Core.MonitorProofs Core.SystemProofs.
Import ListNotations.
Open Scope N_scope.

(* every schedule: under Delay, Verify is not called - not by Config, not by
   the monitor - before an EnableVerification request has reached the monitor *)
Theorem no_verify_before_enable : forall (cfg sv : Type) (stack : list sv -> option cfg) (verify : cfg -> bool)
    (p : params) (on_new on_err : bool) (cbcap : N) (inits : list sv) (watching : list bool)
    (s0 : sys cfg sv) (ls : list (label sv)) (s : sys cfg sv),
  p_delay p = true ->
  snd (sys_init stack verify p inits watching) = Ok s0 ->
  run stack verify p on_new on_err cbcap s0 ls = Some s ->
  s_mon s <> MNone ->
  forallb (fun i => negb (is_enable i)) (recvs (s_log s)) = true ->
  verifies_of (mon_hist (s_log s)) = [].
Proof. exact @sys_no_verify_before_enable_l. Qed.

Theorem config_no_verify_under_delay : forall (cfg sv : Type) (stack : list sv -> option cfg) (verify : cfg -> bool)
    (p : params) (inits : list sv) (watching : list bool),
  p_delay p = true ->
  cr_verify_log (config_init stack verify p inits watching) = [] /\
  (forall v st, cr_out (config_init stack verify p inits watching) = Ok (v, st) -> m_skip st = true).
Proof. exact @config_no_verify_under_delay_l. Qed.

(* an enable request while the delay is in force: exactly one Verify call, on
   the installed config; success returns that config with its serial and turns
   verification on; failure returns the error and leaves the delay in force *)
Theorem enable_verifies_installed : forall (cfg sv : Type) (stack : list sv -> option cfg) (verify : cfg -> bool)
    (p : params) (cur : vcfg cfg) (st : mon_state sv) (rid : N),
  m_skip st = true ->
  mon_recv stack verify p cur st (InEnable rid) =
    if verify (snd cur)
    then (mkMon (m_slots st) (m_watch st) false, [AVerify (snd cur) true; AEnableReply rid (EOk cur)])
    else (st, [AVerify (snd cur) false; AEnableReply rid EErr]).
Proof. exact @enable_verifies_installed_l. Qed.

Theorem enable_when_active : forall (cfg sv : Type) (stack : list sv -> option cfg) (verify : cfg -> bool)
    (p : params) (cur : vcfg cfg) (st : mon_state sv) (rid : N),
  m_skip st = false -> mon_recv stack verify p cur st (InEnable rid) = (st, [AEnableReply rid (EOk cur)]).
Proof. exact @enable_when_active_l. Qed.

(* the delay is cleared by a successful enable and by nothing else, and never set again *)
Theorem skip_only_cleared_by_successful_enable : forall (cfg sv : Type) (stack : list sv -> option cfg)
    (verify : cfg -> bool) (p : params) (cur : vcfg cfg) (st : mon_state sv) (i : mon_in sv),
  m_skip (fst (mon_recv stack verify p cur st i)) =
  match i with InEnable _ => m_skip st && negb (verify (snd cur)) | _ => m_skip st end.
Proof. exact @skip_only_cleared_by_successful_enable_l. Qed.

(* from a successful enable on every re-stack is verified *)
Theorem after_enable_all_verified : forall (cfg sv : Type) (stack : list sv -> option cfg) (verify : cfg -> bool)
    (p : params) (pre : list (mon_in sv)) (rid : N) (post : list (mon_in sv)) (cur : vcfg cfg) (st : mon_state sv),
  verify (snd (final_cur stack verify p cur st pre)) = true ->
  Forall (fun v => verify (snd v) = true)
    (stores_of (trace stack verify p (final_cur stack verify p cur st (pre ++ [InEnable rid]))
                      (final_st stack verify p cur st (pre ++ [InEnable rid])) post)).
Proof. exact @after_enable_all_verified_l. Qed.

(* OnNewConfig is withheld for an install exactly when skipVerify && option at
   that moment; an error reported by a source is submitted to OnWatchedError
   unless skipVerify && option, i.e. in every one of the other states *)
Theorem suppression_exact : forall (cfg sv : Type) (stack : list sv -> option cfg) (verify : cfg -> bool)
    (p : params) (cur : vcfg cfg) (st : mon_state sv),
  (forall src v rid ev, In (ATrySubmit ev) (snd (mon_recv stack verify p cur st (InUpdate src v rid))) ->
     match ev with
     | EvNew _ _ _ sup => sup = m_skip st && p_suppress p
     | _ => True
     end) /\
  (forall src, submits_of (snd (mon_recv stack verify p cur st (InSrcErr src))) =
     if m_skip st && p_suppress p then [] else [EvErr ESource cur None]).
Proof. exact @suppression_exact_l. Qed.

(* without watching sources: verify the installed config, return it and its serial *)
Theorem enable_without_monitor : forall (cfg : Type) (verify : cfg -> bool) (p : params) (cur : vcfg cfg),
  p_delay p = true ->
  enable_nomon verify p cur =
    if verify (snd cur) then ([(snd cur, true)], EOk cur) else ([(snd cur, false)], EErr).
Proof. exact @enable_without_monitor_l. Qed.

Theorem enable_noop_without_delay : forall (cfg : Type) (verify : cfg -> bool) (p : params) (cur : vcfg cfg),
  p_delay p = false -> enable_nomon verify p cur = ([], EOk cur).
Proof. exact @enable_noop_without_delay_l. Qed.

Print Assumptions no_verify_before_enable.
Print Assumptions config_no_verify_under_delay.
Print Assumptions enable_verifies_installed.
Print Assumptions enable_when_active.
Print Assumptions skip_only_cleared_by_successful_enable.
Print Assumptions after_enable_all_verified.
Print Assumptions suppression_exact.
Print Assumptions enable_without_monitor.
Print Assumptions enable_noop_without_delay.
