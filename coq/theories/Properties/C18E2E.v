(* Property C18, end to end - defaults < file < environment < flags with every
   layer coming from its source's model.  Statement only; proof in
   Sources/E2EProofs.v (a corollary of C01's compose_eq_stack through
   LayerBetween.stack_between, C13's decoders_agree, C11's env_layer_between
   and C12's flag_layer_between); non-vacuity in Sources/E2EFacts.v.

   Vocabulary: fs - the config type, pfs its pointerified form; d - the
   defaults; decode f dc pfs - the model of the file decoder of format f on
   document dc (Sources/Decoders.v); env_value prefix pfs env - the model of
   env.Source.Value on the environment env (Sources/Env.v); flag_value p ne te
   fs d occs - the model of the flag source of package p with the defaults as
   template on the flag occurrences occs (Sources/Flags.v); compose - dials'
   stacking, stack - C01's by-name specification of it; eff_fields - the
   effective leaves of a config value (depth first, a leaf below a nil struct
   pointer counting as its zero value), ltys their types, leaves_of the leaves
   of a layer read positionally.  Side conditions: cfg_both (C01's and the
   sources' conditions on the type: Pointerify's output for config types
   without interface fields and **struct), no alias tags, structs only where
   the transformer recurses (dec_ok), no explicitly empty format tag. *)
From Coq Require Import List NArith ZArith Bool.
From Dials Require Import Base.Outcome Base.Runes Reflect.Ty Reflect.Ptrify Stack.Overlay Stack.StackSpec
  Stack.StackProofs Text.ParseText
  Sources.Flatten Sources.FlattenSpec Sources.TimeText
  Sources.Decoders Sources.DecodersSpec Sources.DecodersFacts
  Sources.Env Sources.EnvSpec Sources.Flags Sources.FlagsProofs Sources.LayerBetween
  Sources.E2EProofs Sources.E2EFacts.
Import ListNotations.

(* The value dials computes from the three sources is, leaf by leaf, the
   flag's value if the flag layer sets the leaf (only leaves whose flag was
   given are set), else the environment's value if its variable is present,
   else the file's value if the decoder set it, else the default. *)
Theorem e2e_precedence : forall f dc prefix env p ne te occs fs d fl el gl,
  cfg_both fs ->
  alias_free env_alias_keys fs = true -> alias_free (flag_alias_keys p) fs = true ->
  dec_ok (ptrify_fields fs) = true -> tags_wf f (ptrify_fields fs) = true ->
  Dials.Stack.Spine.spine_fields fs d = true ->
  decode f dc (ptrify_fields fs) = Ok fl ->
  env_value prefix (ptrify_fields fs) env = Ok el ->
  flag_value p ne te fs d occs = Ok gl ->
  let pfs := ptrify_fields fs in
  let r := stack fs d [VStruct fl; VStruct el; VStruct gl] in
  compose fs d [VStruct fl; VStruct el; VStruct gl] = Ok r /\
  (forall i t dv x e g,
     nth_error (ltys fs) i = Some t -> nth_error (eff_fields fs (Some d)) i = Some dv ->
     nth_error (leaves_of pfs fl) i = Some x -> nth_error (leaves_of pfs el) i = Some e ->
     nth_error (leaves_of pfs gl) i = Some g ->
     nth_error (eff_fields fs (Some r)) i =
     Some (if negb (is_vnil g) then unwrap t g
           else if negb (is_vnil e) then unwrap t e
           else if negb (is_vnil x) then unwrap t x else dv)) /\
  spec_decode f dc pfs = Ok fl /\
  (exists plan, env_plan prefix pfs = Ok plan /\
     Forall2 (fun lv x => cast (lf_ty (fst lv)) (lookup_env env (snd lv)) = Ok x /\
                          (is_set x = true <-> lookup_env env (snd lv) <> None))
             plan (leaves_of pfs el)) /\
  (exists regs states,
     flag_regs p ne te fs d = Ok regs /\ run_occs regs [] occs = Ok states /\
     Forall2 (fun rg x =>
                (~ In (rg_name rg) (map fst occs) -> x = VNil) /\
                (forall st k, st_lookup (rg_name rg) states = Some st -> rg_kind rg = Some k ->
                              write_leaf p k (lf_ty (rg_leaf rg)) (st_val st) = Ok x))
             regs (leaves_of pfs gl)).
Proof. exact e2e_precedence_l. Qed.

(* Non-vacuity: a type inside every side condition and a concrete run - name
   from the file, port from the environment over the file, sub.wait from the
   flag over environment and file, sub.on the default. *)
Theorem e2e_precedence_example :
  (cfg_both e2e_fs /\ alias_free env_alias_keys e2e_fs = true /\ alias_free (flag_alias_keys PStd) e2e_fs = true /\
   dec_ok (ptrify_fields e2e_fs) = true /\ tags_wf FJson (ptrify_fields e2e_fs) = true /\
   Dials.Stack.Spine.spine_fields e2e_fs e2e_defaults = true) /\
  (let pfs := ptrify_fields e2e_fs in
   exists fl el gl,
     decode FJson e2e_doc pfs = Ok fl /\ env_value [] pfs e2e_env = Ok el /\
     flag_value PStd 0 0 e2e_fs e2e_defaults e2e_occs = Ok gl /\
     compose e2e_fs e2e_defaults [VStruct fl; VStruct el; VStruct gl] =
     Ok e2e_result).    (* {Name: "f", Port: 3, Sub: {Wait: 3s, On: false}} *)
Proof. exact (conj e2e_side_conditions e2e_example). Qed.

Print Assumptions e2e_precedence.
Print Assumptions e2e_precedence_example.
