(* Property C07 - a blocking report returns only after its value is stacked (or
   rejected).  Statements only. *)
From Coq Require Import List NArith Bool.
From Dials Require Import Base.Outcome Reflect.Ty Stack.Overlay Ez.SeqDials Core.CbMgr Core.Monitor Core.System
  Core.MonitorProofs Core.SystemProofs Core.SeqBridge.
Import ListNotations.
Open Scope N_scope.

(* every schedule: a blocking report's call returns nil only if the monitor has
   sent nil on its reply channel ... *)
Theorem blocking_nil_needs_reply : forall (cfg sv : Type) (stack : list sv -> option cfg) (verify : cfg -> bool)
    (p : params) (on_new on_err : bool) (cbcap : N) (inits : list sv) (watching : list bool)
    (s0 : sys cfg sv) (ls : list (label sv)) (s : sys cfg sv) (tid : N) (t : thread cfg sv) (arm : N)
    (s' : sys cfg sv) (t' : thread cfg sv),
  snd (sys_init stack verify p inits watching) = Ok s0 ->
  run stack verify p on_new on_err cbcap s0 ls = Some s ->
  lookup tid (s_thr s) = Some t -> t_pc t = PAwaitReply ->
  api_act cbcap s tid arm = Some s' -> lookup tid (s_thr s') = Some t' -> t_pc t' = PDone RetNil ->
  In (AReply tid RNil) (mon_hist (s_log s)).
Proof. exact @nil_return_needs_reply_l. Qed.

(* ... and in every schedule every such nil was sent immediately after the Store
   (and the Events try-send) of one config, whose serial the published serial
   has reached and never falls below again: View returns that config or a later one *)
Theorem blocking_nil_after_store : forall (cfg sv : Type) (stack : list sv -> option cfg) (verify : cfg -> bool)
    (p : params) (on_new on_err : bool) (cbcap : N) (inits : list sv) (watching : list bool)
    (s0 : sys cfg sv) (ls : list (label sv)) (s : sys cfg sv) (j : nat) (rid : N),
  snd (sys_init stack verify p inits watching) = Ok s0 ->
  run stack verify p on_new on_err cbcap s0 ls = Some s ->
  nth_error (mon_hist (s_log s)) j = Some (AReply rid RNil) ->
  exists v, (2 <= j)%nat /\ nth_error (mon_hist (s_log s)) (j - 2) = Some (AStore v) /\
            nth_error (mon_hist (s_log s)) (j - 1) = Some (ATryUpdates v) /\
            fst v <= fst (s_value s).
Proof. exact @sys_reply_after_store_l. Qed.

(* the config stored for an accepted update is the stack of the slots with this
   update's value written into its source's slot *)
Theorem accepted_update_stacks_its_value : forall (cfg sv : Type) (stack : list sv -> option cfg) (verify : cfg -> bool)
    (p : params) (cur : vcfg cfg) (st : mon_state sv) (src : nat) (v : sv) (rid : option N),
  rejected stack verify st src v = false ->
  exists c vl,
    stack (set_nth src v (m_slots st)) = Some c /\
    snd (mon_recv stack verify p cur st (InUpdate src v rid)) =
      vl ++ AStore (fst cur + 1, c) :: ATryUpdates (fst cur + 1, c) :: reply_to rid RNil
         ++ [ATrySubmit (EvNew cur (fst cur + 1, c) (fst cur + 1) (m_skip st && p_suppress p))]
    /\ vl = (if m_skip st then [] else [AVerify c true])
    /\ (m_skip st = false -> verify c = true).
Proof. exact @update_accepted_acts. Qed.

(* when stacking or verification of the value fails the call is answered with
   that error and nothing is stored in that batch: the view is unchanged *)
Theorem blocking_error_view_unchanged : forall (cfg sv : Type) (stack : list sv -> option cfg) (verify : cfg -> bool)
    (p : params) (cur : vcfg cfg) (st : mon_state sv) (src : nat) (v : sv) (rid : N),
  rejected stack verify st src v = true ->
  stores_of (snd (mon_recv stack verify p cur st (InUpdate src v (Some rid)))) = [] /\
  In (AReply rid (snd (rej_kind stack st src v))) (snd (mon_recv stack verify p cur st (InUpdate src v (Some rid)))).
Proof. exact @error_reply_no_store_l. Qed.

(* every schedule: whatever the monitor has left to do can be done at once -
   in particular its reply to a caller that has long gone (capacity-1 channel,
   written once): the monitor is never left blocked on the caller *)
Theorem monitor_never_blocks_on_reply : forall (cfg sv : Type) (stack : list sv -> option cfg) (verify : cfg -> bool)
    (p : params) (on_new on_err : bool) (cbcap : N) (inits : list sv) (watching : list bool)
    (s0 : sys cfg sv) (ls : list (label sv)) (s : sys cfg sv) (st : mon_state sv) (a : mon_act cfg)
    (rest : list (mon_act cfg)),
  snd (sys_init stack verify p inits watching) = Ok s0 ->
  run stack verify p on_new on_err cbcap s0 ls = Some s ->
  s_mon s = MRun st (a :: rest) ->
  exists drop s', mon_act_step cbcap s drop = Some s'.
Proof. exact @monitor_always_enabled_l. Qed.

(* when its context ends first the call can return at once from wherever it
   stands (from the offering select it returns by itself) *)
Theorem blocking_ctx_returns : forall (cfg sv : Type) (cbcap : N) (s : sys cfg sv) (tid : N) (t : thread cfg sv),
  lookup tid (s_thr s) = Some t -> t_cancel t = true ->
  match t_pc t with
  | PDone _ => True
  | POffer _ => False
  | _ => exists s' r, api_act cbcap s tid 0 = Some s' /\
                      lookup tid (s_thr s') = Some (mkThr (t_op t) (PDone r) true)
  end \/ (exists m, t_pc t = POffer m).
Proof. exact @cancelled_call_returns_l. Qed.

Theorem offering_ctx_returns : forall (cfg sv : Type) (s : sys cfg sv) (tid : N) (t : thread cfg sv) (m : msg sv),
  lookup tid (s_thr s) = Some t -> t_pc t = POffer m -> t_cancel t = false ->
  exists s' r, cancel_call s tid = Some s' /\ lookup tid (s_thr s') = Some (mkThr (t_op t) (PDone r) true).
Proof. exact @cancel_offering_returns_l. Qed.

(* ======================================================================
   BRIDGE to the sequential model Ez/SeqDials.v (used for ez and Blank: C18,
   C20).  SeqDials assumes that its caller blocks until the monitor has
   answered; these theorems justify that reading against the small-step system.
   The core model is instantiated with configs = field-value lists, source
   values = layers, stacking = C01's compose (stackB; a panic of compose is
   excluded), params = pB prm.  abs s st reads a SeqDials state off a system
   state whose monitor (state st) is at its select: slots, watching bits,
   skipVerify from st; config and serial from the atomic value; the Events
   channel; the Verify receivers, OnNewConfig and OnWatchedError invocations
   from the ghost history.
   ====================================================================== *)

(* Params.Config *)
Theorem seq_config_refines_system : forall (fs : fields) (defaults : cfgv) (verify : cfgv -> bool) (prm : dparams)
    (layers : list val) (watching : list bool),
  existsb (fun b => b) watching = true ->
  (forall c, compose fs defaults layers <> Panic c) ->
  match d_config fs defaults verify prm layers watching with
  | Ok d0 => exists s0 st0, snd (sys_init (stackB fs defaults) verify (pB prm) layers watching) = Ok s0 /\
                            s_mon s0 = MRun st0 [] /\ s_cb s0 = CRun cb_init [] /\ s_cbq s0 = [] /\ abs s0 st0 = d0
  | Err _ => exists c, snd (sys_init (stackB fs defaults) verify (pB prm) layers watching) = Err c
  | Panic _ => False
  end.
Proof. exact @seq_config_refines_system_l. Qed.

(* a blocking report of source i: from any state whose monitor is at its
   select and whose callback goroutine is idle with an empty queue, the
   schedule "reporter offers; monitor receives and performs all its pending
   actions; reporter takes the reply; callback goroutine takes the event, every
   callback returns" ends in a state abstracting to fst (d_update st i v) - the
   whole dstate, callback logs included - and the reporter returns the class of
   snd (d_update st i v) *)
Theorem seq_update_refines_system : forall (fs : fields) (defaults : cfgv) (verify : cfgv -> bool) (prm : dparams)
    (on_new on_err : bool) (cbcap : N) (s : sys cfgv val) (st : mon_state val) (tid : N)
    (i : nat) (v : val) (cst : cb_state cfgv),
  s_mon s = MRun st [] ->
  lookup tid (s_thr s) = None -> lookup tid (s_replies s) = None ->
  (forall c, compose fs defaults (Monitor.set_nth i v (m_slots st)) <> Panic c) ->
  on_new = true -> on_err = true -> 0 < cbcap ->
  s_cb s = CRun cst [] -> s_cbq s = [] ->
  let d := d_update fs defaults verify prm (abs s st) i v in
  exists ls s' st' r cst',
    run (stackB fs defaults) verify (pB prm) on_new on_err cbcap s ls = Some s' /\
    s_mon s' = MRun st' [] /\ s_cb s' = CRun cst' [] /\ s_cbq s' = [] /\
    abs s' st' = fst d /\
    lookup tid (s_thr s') = Some (mkThr (OpOffer (MsgUpdate i v true)) (PDone r) false) /\
    ret_matches (snd d) r.
Proof. exact @seq_update_refines_system_full_l. Qed.

(* the same without any assumption on the callback goroutine, for the fields
   the monitor owns (mon_eq: everything but the two callback logs); the event is
   put into the queue unless it is full *)
Theorem seq_update_refines_system_monitor_side : forall (fs : fields) (defaults : cfgv) (verify : cfgv -> bool) (prm : dparams)
    (on_new on_err : bool) (cbcap : N) (s : sys cfgv val) (st : mon_state val) (tid : N)
    (i : nat) (v : val),
  s_mon s = MRun st [] ->
  lookup tid (s_thr s) = None -> lookup tid (s_replies s) = None ->
  (forall c, compose fs defaults (Monitor.set_nth i v (m_slots st)) <> Panic c) ->
  let d := d_update fs defaults verify prm (abs s st) i v in
  exists ls s' st' r,
    run (stackB fs defaults) verify (pB prm) on_new on_err cbcap s
      (LApiStart tid (OpOffer (MsgUpdate i v true)) :: LMonRecv (ROffer tid) :: ls) = Some s' /\
    s_mon s' = MRun st' [] /\
    mon_eq (abs s' st') (fst d) /\
    lookup tid (s_thr s') = Some (mkThr (OpOffer (MsgUpdate i v true)) (PDone r) false) /\
    ret_matches (snd d) r /\
    s_cb s' = s_cb s /\
    s_cbq s' = s_cbq s ++
      (if has_room cbcap s
       then submits_of (snd (mon_recv (stackB fs defaults) verify (pB prm) (s_value s) st (InUpdate i v (Some tid))))
       else []) /\
    newcfg_of (s_log s') = newcfg_of (s_log s) /\ errcb_of (s_log s') = errcb_of (s_log s).
Proof. exact @seq_update_refines_system_l. Qed.

(* EnableVerification (no request pending in monCtl) *)
Theorem seq_enable_refines_system : forall (fs : fields) (defaults : cfgv) (verify : cfgv -> bool) (prm : dparams)
    (on_new on_err : bool) (cbcap : N) (s : sys cfgv val) (st : mon_state val) (tid : N),
  s_mon s = MRun st [] -> s_ctl s = [] ->
  lookup tid (s_thr s) = None -> lookup tid (s_eresps s) = None ->
  let d := d_enable verify prm (abs s st) in
  exists ls s' st' r,
    run (stackB fs defaults) verify (pB prm) on_new on_err cbcap s (LApiStart tid OpEnable :: ls) = Some s' /\
    s_mon s' = MRun st' [] /\
    mon_eq (abs s' st') (fst d) /\
    lookup tid (s_thr s') = Some (mkThr OpEnable (PDone r) false) /\
    enable_matches (snd d) r /\
    s_cb s' = s_cb s /\ s_cbq s' = s_cbq s.
Proof. exact @seq_enable_refines_system_l. Qed.

(* WatchArgs.Done of source i: the monitor's next pending list is empty iff
   SeqDials says the monitor stays alive; otherwise its next step is the exit *)
Theorem seq_done_refines_system : forall (fs : fields) (defaults : cfgv) (verify : cfgv -> bool) (prm : dparams)
    (on_new on_err : bool) (cbcap : N) (s : sys cfgv val) (st : mon_state val) (tid : N) (i : nat),
  s_mon s = MRun st [] -> lookup tid (s_thr s) = None ->
  let d := d_done (abs s st) i in
  exists s' st',
    run (stackB fs defaults) verify (pB prm) on_new on_err cbcap s
      [LApiStart tid (OpOffer (MsgDone i)); LMonRecv (ROffer tid)] = Some s' /\
    s_mon s' = MRun st' (if d_alive d then [] else [AExit]) /\
    (d_slots (abs s' st') = d_slots d /\ d_watching (abs s' st') = d_watching d /\ d_cur (abs s' st') = d_cur d /\
     d_serial (abs s' st') = d_serial d /\ d_skipv (abs s' st') = d_skipv d /\ d_events (abs s' st') = d_events d /\
     d_vlog (abs s' st') = d_vlog d) /\
    lookup tid (s_thr s') = Some (mkThr (OpOffer (MsgDone i)) (PDone RetUnit) false) /\
    s_cb s' = s_cb s /\ s_cbq s' = s_cbq s /\
    (d_alive d = false ->
       exists s'', step (stackB fs defaults) verify (pB prm) on_new on_err cbcap s' (LMonAct false) = Some s'' /\
                   s_mon s'' = MExited /\ s_done s'' = true).
Proof. exact @seq_done_refines_system_l. Qed.

Print Assumptions blocking_nil_needs_reply.
Print Assumptions blocking_nil_after_store.
Print Assumptions accepted_update_stacks_its_value.
Print Assumptions blocking_error_view_unchanged.
Print Assumptions monitor_never_blocks_on_reply.
Print Assumptions blocking_ctx_returns.
Print Assumptions offering_ctx_returns.
Print Assumptions seq_config_refines_system.
Print Assumptions seq_update_refines_system.
Print Assumptions seq_update_refines_system_monitor_side.
Print Assumptions seq_enable_refines_system.
Print Assumptions seq_done_refines_system.
