(* Property C07 - a blocking report returns only after its value is stacked (or
   rejected).  Statements only. *)
From Coq Require Import List NArith Bool.
From Dials Require Import Base.Outcome Core.CbMgr Core.Monitor Core.System
  Core.MonitorProofs Core.SystemProofs.
Import ListNotations.
Open Scope N_scope.

(* every schedule: a blocking report's call returns nil only if the monitor has
   sent nil on its reply channel ... *)
Theorem blocking_nil_needs_reply : forall (cfg sv : Type) (stack : list sv -> option cfg) (verify : cfg -> bool)
    (p : params) (on_new on_err : bool) (cbcap : N) (inits : list sv) (watching : list bool)
    (s0 : sys cfg sv) (ls : list (label sv)) (s : sys cfg sv) (tid : N) (t : thread cfg sv) (arm : N)
    (s' : sys cfg sv) (t' : thread cfg sv),
  snd (sys_init stack verify p inits watching) = Ok s0 ->
  run stack verify p on_new on_err cbcap s0 ls = Some s ->
  lookup tid (s_thr s) = Some t -> t_pc t = PAwaitReply ->
  api_act cbcap s tid arm = Some s' -> lookup tid (s_thr s') = Some t' -> t_pc t' = PDone RetNil ->
  In (AReply tid RNil) (mon_hist (s_log s)).
Proof. exact @nil_return_needs_reply_l. Qed.

(* ... and in every schedule every such nil was sent immediately after the Store
   (and the Events try-send) of one config, whose serial the published serial
   has reached and never falls below again: View returns that config or a later one *)
Theorem blocking_nil_after_store : forall (cfg sv : Type) (stack : list sv -> option cfg) (verify : cfg -> bool)
    (p : params) (on_new on_err : bool) (cbcap : N) (inits : list sv) (watching : list bool)
    (s0 : sys cfg sv) (ls : list (label sv)) (s : sys cfg sv) (j : nat) (rid : N),
  snd (sys_init stack verify p inits watching) = Ok s0 ->
  run stack verify p on_new on_err cbcap s0 ls = Some s ->
  nth_error (mon_hist (s_log s)) j = Some (AReply rid RNil) ->
  exists v, (2 <= j)%nat /\ nth_error (mon_hist (s_log s)) (j - 2) = Some (AStore v) /\
            nth_error (mon_hist (s_log s)) (j - 1) = Some (ATryUpdates v) /\
            fst v <= fst (s_value s).
Proof. exact @sys_reply_after_store_l. Qed.

(* the config stored for an accepted update is the stack of the slots with this
   update's value written into its source's slot *)
Theorem accepted_update_stacks_its_value : forall (cfg sv : Type) (stack : list sv -> option cfg) (verify : cfg -> bool)
    (p : params) (cur : vcfg cfg) (st : mon_state sv) (src : nat) (v : sv) (rid : option N),
  rejected stack verify st src v = false ->
  exists c vl,
    stack (set_nth src v (m_slots st)) = Some c /\
    snd (mon_recv stack verify p cur st (InUpdate src v rid)) =
      vl ++ AStore (fst cur + 1, c) :: ATryUpdates (fst cur + 1, c) :: reply_to rid RNil
         ++ [ATrySubmit (EvNew cur (fst cur + 1, c) (fst cur + 1) (m_skip st && p_suppress p))]
    /\ vl = (if m_skip st then [] else [AVerify c true])
    /\ (m_skip st = false -> verify c = true).
Proof. exact @update_accepted_acts. Qed.

(* when stacking or verification of the value fails the call is answered with
   that error and nothing is stored in that batch: the view is unchanged *)
Theorem blocking_error_view_unchanged : forall (cfg sv : Type) (stack : list sv -> option cfg) (verify : cfg -> bool)
    (p : params) (cur : vcfg cfg) (st : mon_state sv) (src : nat) (v : sv) (rid : N),
  rejected stack verify st src v = true ->
  stores_of (snd (mon_recv stack verify p cur st (InUpdate src v (Some rid)))) = [] /\
  In (AReply rid (snd (rej_kind stack st src v))) (snd (mon_recv stack verify p cur st (InUpdate src v (Some rid)))).
Proof. exact @error_reply_no_store_l. Qed.

(* every schedule: whatever the monitor has left to do can be done at once -
   in particular its reply to a caller that has long gone (capacity-1 channel,
   written once): the monitor is never left blocked on the caller *)
Theorem monitor_never_blocks_on_reply : forall (cfg sv : Type) (stack : list sv -> option cfg) (verify : cfg -> bool)
    (p : params) (on_new on_err : bool) (cbcap : N) (inits : list sv) (watching : list bool)
    (s0 : sys cfg sv) (ls : list (label sv)) (s : sys cfg sv) (st : mon_state sv) (a : mon_act cfg)
    (rest : list (mon_act cfg)),
  snd (sys_init stack verify p inits watching) = Ok s0 ->
  run stack verify p on_new on_err cbcap s0 ls = Some s ->
  s_mon s = MRun st (a :: rest) ->
  exists drop s', mon_act_step cbcap s drop = Some s'.
Proof. exact @monitor_always_enabled_l. Qed.

(* when its context ends first the call can return at once from wherever it
   stands (from the offering select it returns by itself) *)
Theorem blocking_ctx_returns : forall (cfg sv : Type) (cbcap : N) (s : sys cfg sv) (tid : N) (t : thread cfg sv),
  lookup tid (s_thr s) = Some t -> t_cancel t = true ->
  match t_pc t with
  | PDone _ => True
  | POffer _ => False
  | _ => exists s' r, api_act cbcap s tid 0 = Some s' /\
                      lookup tid (s_thr s') = Some (mkThr (t_op t) (PDone r) true)
  end \/ (exists m, t_pc t = POffer m).
Proof. exact @cancelled_call_returns_l. Qed.

Theorem offering_ctx_returns : forall (cfg sv : Type) (s : sys cfg sv) (tid : N) (t : thread cfg sv) (m : msg sv),
  lookup tid (s_thr s) = Some t -> t_pc t = POffer m -> t_cancel t = false ->
  exists s' r, cancel_call s tid = Some s' /\ lookup tid (s_thr s') = Some (mkThr (t_op t) (PDone r) true).
Proof. exact @cancel_offering_returns_l. Qed.

Print Assumptions blocking_nil_needs_reply.
Print Assumptions blocking_nil_after_store.
Print Assumptions accepted_update_stacks_its_value.
Print Assumptions blocking_error_view_unchanged.
Print Assumptions monitor_never_blocks_on_reply.
Print Assumptions blocking_ctx_returns.
Print Assumptions offering_ctx_returns.
