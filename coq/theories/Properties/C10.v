(* Property C10 - type manglers are lossless: translate, fill, reverse
   restores the original.  Statements only; proofs are in Transform/*Proofs.v.
   The model is Transform/{RType,MAlias,MFlatten,MOthers,Manglers,Transformer}.v. *)
From Coq Require Import List NArith ZArith Bool.
From Dials Require Import Base.Outcome Base.Runes Reflect.Ty Transform.RType Transform.MAlias
  Transform.MFlatten Transform.MOthers Transform.Manglers Transform.Transformer
  Transform.WellFormed Transform.TransformerProofs Transform.AliasProofs Transform.ManglerProofs
  Transform.EmptyProofs Transform.FlattenProofs Transform.FuelProofs Transform.CounterpartSpec
  Transform.SpecProofs Transform.AliasSpecProofs Transform.EnvChainProofs.
Import ListNotations.

(* ReverseTranslate's running offset against what TranslateType recorded, for
   ANY mangler, any fields, any sub-transformer behaviour (hence at every
   recursion level): for a value of the translated layer the slices
   [offset, offset+len out) are, field by field, exactly the recorded output
   fields, consecutive, and together the whole layer. *)
Theorem offsets_partition :
  forall sub E subrev m lf lf' st (lv : list fvt),
    xlate_layer sub m lf = Ok (lf', st) ->
    map (fun fv => sf_name (fst fv)) lv = map sf_name lf' ->
    let gs := slices (map arity st) lv 0 in
    rev_layer E subrev m st lv 0 = rev_groups E subrev m st gs /\
    map (map (fun fv => sf_name (fst fv))) gs = map out_names st /\
    concat gs = lv.
Proof. exact offsets_partition_l. Qed.

(* every field of the layer is unmangled from its own group only *)
Theorem layer_is_pointwise : forall E subrev m elems gs out, length gs = length elems ->
  (rev_groups E subrev m elems gs = Ok out <-> groups_rel E subrev m elems gs out).
Proof. exact rev_groups_ok. Qed.

(* alias: the field is the non-unset one of its two translated fields; none: unset; both: error *)
Theorem alias_lossless : forall sfo fp fa up ua,
  (go_is_zero up = false -> go_is_zero ua = true -> alias_unmangle sfo [(fp, up); (fa, ua)] = Ok up) /\
  (go_is_zero up = true -> go_is_zero ua = false -> alias_unmangle sfo [(fp, up); (fa, ua)] = Ok ua) /\
  (go_is_zero up = true -> go_is_zero ua = true -> alias_unmangle sfo [(fp, up); (fa, ua)] = Ok up) /\
  (go_is_zero up = false -> go_is_zero ua = false ->
   alias_unmangle sfo [(fp, up); (fa, ua)] = Err (alias_both_code (sfo_name sfo))) /\
  (forall f u, alias_unmangle sfo [(f, u)] = Ok u).
Proof.
  intros. repeat split; intros.
  - now apply alias_primary_only.
  - now apply alias_alias_only.
  - now apply alias_neither.
  - now apply alias_both.
Qed.

(* flatten, one field, ANY filling: from the values written to the flattened
   fields (typed as those fields) Unmangle rebuilds a value whose leaves, read
   back depth first (read_ty: below a nil struct pointer every leaf is unset),
   are exactly those values - nothing else is set - and no parent is allocated
   when none of them is set *)
Theorem flatten_lossless : forall tag te f outs (fvs : list fvt) xs,
  wf_sf f = true -> flatten_mangle tag 0 te f = Ok outs ->
  length xs = length outs -> map snd fvs = combine (map sf_ty outs) xs ->
  exists v, flatten_unmangle (Some f) fvs = Ok (sf_ty f, v) /\
            read_ty (sf_ty f) v = xs /\
            (forallb is_vnil xs = true -> v = VNil).
Proof. exact flatten_lossless_l. Qed.

(* the remaining one-to-one manglers keep one field per field *)
Theorem one_to_one_manglers : forall m sf outs, one_to_one m = true -> mangle m sf = Ok outs ->
  exists o, outs = [o] /\ sf_name o = sf_name sf /\ sf_anon o = sf_anon sf.
Proof. exact one_to_one_arity. Qed.

(* tag copy / tag reformat: the written value comes back unchanged *)
Theorem tag_manglers_lossless : forall sfo f v, kind_struct (fst v) = false -> tag_unmangle sfo [(f, v)] = Ok v.
Proof. exact tag_lossless. Qed.

(* string cast: the field is parse.String of the written text at the original leaf type *)
Theorem strcast_lossless : forall parse sf f s,
  (forall e, sf_ty sf = TPtr e ->
     strcast_unmangle parse (Some sf) [(f, (str_ptr_ty, VPtr (VStr s)))] = parse s e) /\
  (forall e n, sf_ty sf = TSlice e n ->
     strcast_unmangle parse (Some sf) [(f, (str_ptr_ty, VPtr (VStr s)))] = parse s (TSlice e n)) /\
  (forall k v n, sf_ty sf = TMap k v n ->
     strcast_unmangle parse (Some sf) [(f, (str_ptr_ty, VPtr (VStr s)))] = parse s (TMap k v n)) /\
  strcast_unmangle parse (Some sf) [(f, (str_ptr_ty, VNil))] = Ok (zero_tv (sf_ty sf)).
Proof.
  intros. repeat split; intros.
  - now apply strcast_lossless_ptr.
  - now apply strcast_lossless_slice.
  - now apply strcast_lossless_map.
Qed.

(* set <-> slice: non-set fields untouched, an unset slice is an unset set, and
   a non-nil slice becomes the set of exactly its elements, each once *)
Theorem setslice_lossless : forall sf f,
  (forall v, is_set_ty (sf_ty sf) = false -> setslice_unmangle (Some sf) [(f, v)] = Ok v) /\
  (forall k n, sf_ty sf = TMap k empty_struct_ty n ->
     setslice_unmangle (Some sf) [(f, (TSlice k [], VNil))] = Ok (zero_tv (sf_ty sf))) /\
  (forall k n nm l, sf_ty sf = TMap k empty_struct_ty n ->
     exists kvs, setslice_unmangle (Some sf) [(f, (TSlice k nm, VList l))] = Ok (sf_ty sf, VMap kvs) /\
                 (forall x, In x (map fst kvs) <-> In x l) /\
                 NoDup (map fst kvs) /\ Forall (fun kv => snd kv = VStruct []) kvs).
Proof.
  intros. split; [| split]; intros.
  - now apply setslice_other.
  - eapply setslice_empty; eassumption.
  - eapply setslice_elements; eassumption.
Qed.

(* flatten's leaf order IS the order of the dialsfieldpath tags: the i-th
   flattened field carries the path of the i-th leaf (depth first) and is named
   by the encoding of the leaf's name components *)
Theorem flatten_order : forall tag ne te f outs,
  wf_sf f = true -> flatten_mangle tag ne te f = Ok outs ->
  map fieldpath_of outs = map (join_s [comma]) (paths_ty [sf_name f] (sf_ty f)) /\
  (under_is_struct (sf_ty f) = true ->
   map sf_name outs = map (encode_by ne) (names_ty (if sf_anon f then [] else [sf_name f]) (sf_ty f))) /\
  (under_is_struct (sf_ty f) = false -> map sf_name outs = [encode_by ne [sf_name f]]).
Proof. exact flatten_order_l. Qed.

(* enough fuel: above the nesting depth of the type the outcome of TranslateType
   does not depend on the fuel (so Err out_of_fuel is never the result with
   fuel_for t, unless a mangler itself returned that code) *)
Theorem translate_fuel_enough : forall f ms fs nm, Forall depth_ok ms ->
  (fuel_for (TStruct fs nm) <= f)%nat ->
  translate f ms (TStruct fs nm) = translate (fuel_for (TStruct fs nm)) ms (TStruct fs nm).
Proof. exact translate_fuel_enough_l. Qed.

(* the by-name specification (Transform/CounterpartSpec.v): for the chain
   [flatten] and every pointerified type with scalar / pointer / map / slice
   leaves, ANY filling of the translated fields reverses to exactly what the
   specification computes by looking every leaf up under its flattened name *)
Theorem flatten_chain_spec : forall fuel E tag te fs nm tt x filled,
  wf_fields fs = true -> simple_fields fs = true ->
  translate fuel [MFlatten tag 0%N te] (TStruct fs nm) = Ok (tt, x) ->
  length filled = length (unpack_ty tt) ->
  Some (reverse fuel E [MFlatten tag 0%N te] x (tt, VStruct filled)) =
  counterpart_spec E [MFlatten tag 0%N te] (TStruct fs nm) tt filled.
Proof. exact flatten_chain_spec_l. Qed.

(* an all-unset translated value reverses to the all-unset original, for every
   chain accepted by chain_ok (every mangler except the text-unmarshaler one;
   flatten with the UpperCamel name encoder; substitution between scalar
   types; string-cast only after a flatten stage - all shipped chains, see
   Transform/Examples.v) and every pointerified type: parents are not
   allocated, so a source that found nothing cannot clobber a lower layer *)
Theorem chain_empty : forall fuel E ms fs nm tt x,
  chain_ok false ms -> wf_fields fs = true ->
  translate fuel ms (TStruct fs nm) = Ok (tt, x) ->
  reverse fuel E ms x (tt, VStruct (map (fun _ => VNil) (unpack_ty tt))) =
  Ok (TStruct fs nm, VStruct (map (fun _ => VNil) (unpack fs))).
Proof. exact chain_empty_l. Qed.

(* ... and the translated type is again a pointerified-shaped type *)
Theorem translated_type_wf : forall fuel ms fs nm tt x,
  chain_ok false ms -> wf_fields fs = true ->
  translate fuel ms (TStruct fs nm) = Ok (tt, x) ->
  exists fs', tt = TStruct fs' [] /\ wf_fields fs' = true.
Proof. exact translate_keeps_wf. Qed.

(* chains: if every stage's reverse walk is its counterpart map, the chain's is their composition *)
Theorem chain_lossless : forall E subrev mls specs,
  Forall2 (fun ml sp => forall lv, rev_layer E subrev (fst ml) (snd ml) lv 0 = sp lv) mls specs ->
  forall lv, rev_layers E subrev mls lv = compose_specs specs lv.
Proof. exact chain_compose. Qed.

(* the result has exactly the original type: a struct with one value per original field *)
Theorem reverse_type_exact : forall fuel E ms x v rt rv,
  reverse fuel E ms x v = Ok (rt, rv) ->
  rt = xs_ty x /\
  exists fs nm vals, xs_ty x = TStruct fs nm /\ rv = VStruct vals /\ length vals = length (unpack fs).
Proof. exact reverse_type_exact_l. Qed.

(* the flag and pflag chains end to end: [alias; flatten].  For every
   pointerified type with scalar / pointer / map / slice leaves and no alias tag
   on an embedded field, ANY filling of the translated fields reverses to
   exactly the value (or the error, with its class) that the by-name
   specification computes: every leaf looked up under its flattened name, an
   aliased field (at any depth, leaf or struct) the one of its two copies that
   is set, both set an error naming it, structs nil iff nothing below is set *)
Theorem flag_chain_lossless : forall fuel E tags tag te fs nm tt x filled,
  wf_fields fs = true -> simple_fields fs = true -> alias_ok_fields tags fs = true ->
  translate fuel [MAlias tags; MFlatten tag 0%N te] (TStruct fs nm) = Ok (tt, x) ->
  length filled = length (unpack_ty tt) ->
  Some (reverse fuel E [MAlias tags; MFlatten tag 0%N te] x (tt, VStruct filled)) =
  counterpart_spec E [MAlias tags; MFlatten tag 0%N te] (TStruct fs nm) tt filled.
Proof. exact alias_flatten_chain_spec_l. Qed.

(* the env chain end to end: [alias; flatten; (reformat | tag copy)*; string
   cast].  Same types as above; filled: one text (or nil) per translated field,
   in flattened order, each text parsing at the type of its leaf to a value
   convertible to that type (text_ok; aleaves_fields lists the leaf types with
   the alias copies).  Then ReverseTranslate returns exactly what the by-name
   specification computes (parse.String of the text found under the leaf's
   flattened name, aliases picked, structs nil iff nothing below is set), or
   the "both names" error with its class. *)
Theorem env_chain_lossless : forall fuel E tags tag te tg fs nm tt x filled,
  Forall (fun m => is_tagstage m = true) tg ->
  wf_fields fs = true -> simple_fields fs = true -> alias_ok_fields tags fs = true ->
  translate fuel (MAlias tags :: MFlatten tag 0%N te :: tg ++ [MStrCast]) (TStruct fs nm) = Ok (tt, x) ->
  Forall2 (text_ok E) filled (aleaves_fields tags fs) ->
  Some (reverse fuel E (MAlias tags :: MFlatten tag 0%N te :: tg ++ [MStrCast]) x (tt, VStruct filled)) =
  counterpart_spec E (MAlias tags :: MFlatten tag 0%N te :: tg ++ [MStrCast]) (TStruct fs nm) tt filled.
Proof. exact env_chain_spec_l. Qed.

Print Assumptions flag_chain_lossless.
Print Assumptions env_chain_lossless.
Print Assumptions offsets_partition.
Print Assumptions layer_is_pointwise.
Print Assumptions alias_lossless.
Print Assumptions flatten_lossless.
Print Assumptions one_to_one_manglers.
Print Assumptions tag_manglers_lossless.
Print Assumptions strcast_lossless.
Print Assumptions setslice_lossless.
Print Assumptions flatten_order.
Print Assumptions translate_fuel_enough.
Print Assumptions flatten_chain_spec.
Print Assumptions chain_empty.
Print Assumptions translated_type_wf.
Print Assumptions chain_lossless.
Print Assumptions reverse_type_exact.
