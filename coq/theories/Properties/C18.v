(* Property C18 - ez: defaults < file < environment < flags, verified once on
   the full stack.  Statements only; proofs in Ez/EzProofs.v.

   ez_run models ez.ConfigFileEnvFlagDecoderFactoryParams as a sequential
   script over the dials operations it performs (Ez/SeqDials.v, Ez/Ez.v);
   `stack` is C01's specification of stacking, so precedence is per leaf.
   Hypotheses: the config type is inside C01's quantifier and every layer the
   three sources return is well-formed for the pointerified type. *)
From Coq Require Import List NArith ZArith Bool.
From Dials Require Import Base.Outcome Base.Runes Reflect.Ty Reflect.Ptrify Stack.Overlay Stack.StackSpec
  Stack.Spine Stack.StackProofs Ez.SeqDials Ez.Ez Ez.EzProofs Ez.EzFacts.
Import ListNotations.
Open Scope N_scope.

Section C18.
  Variable fs : fields.
  Variable defaults : cfgv.
  Variable verify : cfgv -> bool.
  Variable env_layer flag_layer : val.
  Variable config_path : cfgv -> option str.
  Variable file_value : str -> outcome val.
  Variable watch : bool.
  Hypothesis Hcfg : cfg_ok fs = true.
  Hypothesis Hd : spine_fields fs defaults = true.
  Hypothesis Henv : layer_ok fs env_layer = true.
  Hypothesis Hflag : layer_ok fs flag_layer = true.
  Hypothesis Hfile : forall p l, file_value p = Ok l -> layer_ok fs l = true.

  Notation run := (ez_run fs defaults verify env_layer flag_layer config_path file_value watch).
  Notation v0 := (stack fs defaults [env_layer; flag_layer]).          (* the file-less intermediate *)
  Notation full fl := (stack fs defaults [fl; env_layer; flag_layer]). (* defaults < file < env < flags *)

  (* the first visible config is the full stack, the path being ConfigPath()
     evaluated on defaults+env+flags; Events is empty and verification is on *)
  Theorem ez_first_view : ez_ok run = true ->
    exists st, ez_state run = Some st /\ d_events st = None /\ d_skipv st = false /\
      match config_path v0 with
      | Some p => exists fl, file_value p = Ok fl /\ d_cur st = full fl /\ verify (full fl) = true
      | None => d_cur st = v0 /\ verify v0 = true
      end.
  Proof. exact (ez_first_view_l fs defaults verify env_layer flag_layer config_path file_value watch Hcfg Hd Henv Hflag Hfile). Qed.

  (* Verify runs only on the fully stacked config - never on the file-less
     intermediate when a file is named -, exactly once, and its failure is the
     entry point's error; a missing or invalid file is an error without any Verify call *)
  Theorem ez_verify_only_full :
    match config_path v0 with
    | Some p => match file_value p with
                | Ok fl => ez_vlog run = [full fl] /\ ez_ok run = verify (full fl)
                | _ => ez_vlog run = [] /\ ez_ok run = false
                end
    | None => ez_vlog run = [v0] /\ ez_ok run = verify v0
    end.
  Proof. exact (ez_verify_only_full_l fs defaults verify env_layer flag_layer config_path file_value watch Hcfg Hd Henv Hflag Hfile). Qed.

  (* neither Events nor the global callbacks ever expose the intermediate
     config: no global callback runs while the entry point runs, the Events
     channel is empty when it returns, and the drain never blocks *)
  Theorem ez_intermediate_hidden :
    ez_newcfg_calls run = O /\ ez_err_calls run = O /\ ez_hang run = false /\
    (forall st, ez_state run = Some st -> d_events st = None).
  Proof. exact (ez_intermediate_hidden_l fs defaults verify env_layer flag_layer config_path file_value watch Hcfg Hd Henv Hflag Hfile). Qed.

  (* with file watching on, every later file content re-stacks under the
     same precedence and is verified before it is installed *)
  Theorem ez_restack_same_precedence : forall st fl0 fl, layer_ok fs fl = true ->
    d_slots st = [fl0; env_layer; flag_layer] -> d_skipv st = false ->
    let st' := ez_file_update fs defaults verify st fl in
    (verify (full fl) = true -> d_cur st' = full fl /\ d_serial st' = d_serial st + 1) /\
    (verify (full fl) = false -> d_cur st' = d_cur st /\ d_serial st' = d_serial st) /\
    d_vlog st' = d_vlog st ++ [full fl] /\
    d_slots st' = [fl; env_layer; flag_layer] /\ d_skipv st' = false.
  Proof.
    intros st fl0 fl Hfl Hsl Hsk.
    destruct (ez_restack_l fs defaults verify env_layer flag_layer Hcfg Hd Henv Hflag st fl0 fl Hfl Hsl Hsk)
      as (A & B & C & D).
    unfold EzProofs.full in *. cbn zeta in *. repeat split; try tauto.
    destruct (verify (full fl)); [apply A|apply B]; reflexivity.
  Qed.
End C18.

Print Assumptions ez_first_view.
Print Assumptions ez_verify_only_full.
Print Assumptions ez_intermediate_hidden.
Print Assumptions ez_restack_same_precedence.
