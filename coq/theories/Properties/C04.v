(* placeholder, filled below *)
From Dials Require Import Core.CbMgrProofs Core.MonitorProofs.
