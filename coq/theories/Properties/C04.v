(* Property C04 - only verified configs become visible; rejected updates change
   nothing.  Statements only; proofs are in Core/MonitorProofs.v (the monitor as
   a sequential machine, all message histories) and Core/SystemProofs.v (the
   small-step system, all schedules).  stack/verify/params are arbitrary. *)
From Coq Require Import List NArith Bool.
From Dials Require Import Base.Outcome Core.CbMgr Core.Monitor Core.System
  Core.MonitorProofs Core.SystemProofs Core.ObservedProofs.
Import ListNotations.
Open Scope N_scope.

(* every schedule of the whole system (monitor, callback goroutine, any number
   of API calls, cancellations): with neither Skip nor Delay, every config the
   monitor ever stored, and the one currently published, has passed Verify *)
Theorem installed_verified : forall (cfg sv : Type) (stack : list sv -> option cfg) (verify : cfg -> bool)
    (p : params) (on_new on_err : bool) (cbcap : N) (inits : list sv) (watching : list bool)
    (s0 : sys cfg sv) (ls : list (label sv)) (s : sys cfg sv),
  p_skip_initial p = false -> p_delay p = false ->
  snd (sys_init stack verify p inits watching) = Ok s0 ->
  run stack verify p on_new on_err cbcap s0 ls = Some s ->
  Forall (fun v => verify (snd v) = true) (stores_of (mon_hist (s_log s))) /\
  verify (snd (s_value s)) = true.
Proof. exact @sys_installed_verified_l. Qed.

(* from any point of any message history at which verification is active - in
   particular with SkipInitialVerification from the start, and with Delay after a
   successful EnableVerification - every later install has passed Verify *)
Theorem installed_verified_from : forall (cfg sv : Type) (stack : list sv -> option cfg) (verify : cfg -> bool)
    (p : params) (pre post : list (mon_in sv)) (cur : vcfg cfg) (st : mon_state sv),
  m_skip (final_st stack verify p cur st pre) = false ->
  Forall (fun v => verify (snd v) = true)
    (stores_of (trace stack verify p (final_cur stack verify p cur st pre) (final_st stack verify p cur st pre) post)).
Proof. exact @installed_verified_from_l. Qed.

(* Config itself fails when the initial stack does not verify *)
Theorem config_rejects_invalid_initial : forall (cfg sv : Type) (stack : list sv -> option cfg) (verify : cfg -> bool)
    (p : params) (inits : list sv) (watching : list bool) (c : cfg),
  p_skip_initial p = false -> p_delay p = false ->
  stack inits = Some c -> verify c = false ->
  cr_out (config_init stack verify p inits watching) = Err 2.
Proof. exact @config_rejects_invalid_initial_l. Qed.

Theorem config_verifies_initial : forall (cfg sv : Type) (stack : list sv -> option cfg) (verify : cfg -> bool)
    (p : params) (inits : list sv) (watching : list bool) (v : vcfg cfg) (st : mon_state sv),
  p_skip_initial p = false -> p_delay p = false ->
  cr_out (config_init stack verify p inits watching) = Ok (v, st) ->
  verify (snd v) = true /\ m_skip st = false /\ fst v = 0.
Proof. exact @config_verifies_initial_l. Qed.

(* an update whose stack fails, or fails Verify while verification is active:
   nothing is stored (view and version unchanged), exactly one error event is
   submitted, carrying the current config and - iff stacking succeeded - the
   rejected one, a blocking reporter is answered with that error and never with
   nil, and the verification mode is unchanged *)
Theorem rejected_changes_nothing : forall (cfg sv : Type) (stack : list sv -> option cfg) (verify : cfg -> bool)
    (p : params) (cur : vcfg cfg) (st : mon_state sv) (src : nat) (v : sv) (rid : option N),
  rejected stack verify st src v = true ->
  let acts := snd (mon_recv stack verify p cur st (InUpdate src v rid)) in
  let e := fst (rej_kind stack st src v) in
  let r := snd (rej_kind stack st src v) in
  stores_of acts = [] /\ cur_after cur acts = cur /\
  submits_of acts = [EvErr e cur (stack (set_nth src v (m_slots st)))] /\
  r <> RNil /\
  (forall i, rid = Some i -> In (AReply i r) acts /\ ~ In (AReply i RNil) acts) /\
  m_skip (fst (mon_recv stack verify p cur st (InUpdate src v rid))) = m_skip st.
Proof. exact @rejected_changes_nothing_l. Qed.

(* ... and that event, unless the callback queue was full or the Config context
   done when it was submitted (the overflow escape: System.mon_act_step), is
   handed to OnWatchedError with exactly these arguments *)
Theorem error_event_is_delivered : forall (cfg : Type) (on_new : bool) (cst : cb_state cfg) e old rej,
  snd (cb_step on_new true cst (EvErr e old rej)) = [OInv (InvErrGlobal e old rej)].
Proof. exact @error_event_is_delivered_l. Qed.

(* observed_are_installed, every schedule: whatever config a program observes
   at some event of the history (obs_configs: the pair returned by a
   View/ViewVersion read, received from or sent on Events, returned by
   EnableVerification, or passed as old or new argument to OnNewConfig, to a
   registered callback - catch-up included - or as current config to
   OnWatchedError) is the pair published by Config or the pair of a Store that is
   earlier in the history; with installed_verified: it has passed Verify *)
Theorem observed_are_installed : forall (cfg sv : Type) (stack : list sv -> option cfg) (verify : cfg -> bool)
    (p : params) (on_new on_err : bool) (cbcap : N) (inits : list sv) (watching : list bool)
    (s0 : sys cfg sv) (ls : list (label sv)) (s : sys cfg sv)
    (l1 : list (gevent cfg sv)) (g : gevent cfg sv) (l2 : list (gevent cfg sv)) (v : vcfg cfg),
  snd (sys_init stack verify p inits watching) = Ok s0 ->
  run stack verify p on_new on_err cbcap s0 ls = Some s ->
  s_log s = l1 ++ g :: l2 -> In v (obs_configs g) ->
  v = s_value s0 \/ In v (stores_of (mon_hist l1)).
Proof. exact @observed_are_installed_l. Qed.

Print Assumptions installed_verified.
Print Assumptions installed_verified_from.
Print Assumptions config_rejects_invalid_initial.
Print Assumptions config_verifies_initial.
Print Assumptions rejected_changes_nothing.
Print Assumptions error_event_is_delivered.
Print Assumptions observed_are_installed.
