(* Property C17 - watched files: the view converges to the file's final
   content.  Statements only.  The model is Sources/FileWatch.v (hand-written
   Gallina mirror of sources/file/file.go), proofs are in
   Sources/FileWatchProofs.v, non-vacuity examples and the refutation for the
   pinned tree's updateDirWatches in Sources/FileWatchFacts.v.

   Every theorem quantifies over the decoder, the keyed checksum (assumed
   injective where it matters: HMAC-SHA256 collisions are excluded), the config
   path cfg, the initial content c0 / value v0 / resolved path r0, and ARBITRARY
   traces: finite lists of environment items
     Fs f          what reading the path returns changes to f,
     In i          the loop's select receives i (fs event with a name, tick,
                   reload, watcher error, its own recheck token, ctx done,
                   closed channel) and one whole pass of the loop body runs,
     InRead i, Cont  the same pass split in two (Source.Value / the rest), so
                   that the file system may change in between,
     KernelDrop p  inotify removed the watch registered under p.
   `after udw cfg c0 v0 r0 t` is the loop state after trace t, started right
   after Watch() returned; udw is the updateDirWatches in use (the first four
   theorems hold for any, the last two are about the repaired one). *)
From Coq Require Import List NArith Bool.
From Dials Require Import Base.Outcome Base.Runes Sources.FileWatch Sources.FileWatchProofs
  Sources.FileWatchNoLost.
Import ListNotations.
Open Scope N_scope.

(* A decodable content c read in any reachable state is suppressed if and only
   if c is the content of the value that was last decoded AND reported;
   otherwise exactly decode(c) is reported. *)
Theorem dedupe_sound : forall decode hmac udw cfg c0 v0 r0 t f c v,
  (forall a b, hmac a = hmac b -> a = b) -> decode c0 = Some v0 ->
  fs_read f = Content c -> decode c = Some v ->
  let st := after decode hmac udw cfg c0 v0 r0 t in
  (st_reports (reload decode hmac udw cfg f st) = st_reports st <-> view st = Some (c, v)) /\
  (st_reports (reload decode hmac udw cfg f st) = st_reports st \/
   st_reports (reload decode hmac udw cfg f st) = RValue c v :: st_reports st).
Proof. exact dedupe_sound_l. Qed.

(* While the file keeps the content of the current view (rewritten with
   identical bytes, atomically replaced by an identical file, moved behind
   another symlink), no history of inputs produces any report: no new version. *)
Theorem identical_content_no_new_version : forall decode hmac udw cfg c0 v0 r0 t1 t2 c v,
  (forall a b, hmac a = hmac b -> a = b) -> decode c0 = Some v0 ->
  view (after decode hmac udw cfg c0 v0 r0 t1) = Some (c, v) ->
  fs_read (fs_after decode hmac udw cfg c0 v0 r0 t1) = Content c ->
  forallb (same_content c) t2 = true ->
  st_reports (after decode hmac udw cfg c0 v0 r0 (t1 ++ t2)) =
  st_reports (after decode hmac udw cfg c0 v0 r0 t1).
Proof. exact identical_content_no_new_version_l. Qed.

(* Whenever the loop receives an input that makes it re-read (receives: it is
   blocked in its select, the input is not a stop and passes the filter): an
   I/O error or undecodable content is reported as an error; a missing file is
   tolerated silently. *)
Theorem errors_forwarded : forall decode hmac udw cfg f st i,
  receives cfg st i = true ->
  (bad_read decode (fs_read f) ->
   st_reports (step decode hmac udw cfg f st i) = RError :: st_reports st) /\
  (fs_read f = NotExist -> st_reports (step decode hmac udw cfg f st i) = st_reports st).
Proof. exact errors_forwarded_l. Qed.

(* After ctx.Done (or a closed watcher channel) is received (the loop is at its
   select: no pass is half done) the loop has returned, every watch is
   released, and nothing that happens later changes the state. *)
Theorem loop_exits_on_cancel : forall decode hmac udw cfg c0 v0 r0 t1 i t2,
  stops i = true -> st_pending (after decode hmac udw cfg c0 v0 r0 t1) = None ->
  st_running (after decode hmac udw cfg c0 v0 r0 (t1 ++ In i :: t2)) = false /\
  st_watches (after decode hmac udw cfg c0 v0 r0 (t1 ++ In i :: t2)) = [] /\
  after decode hmac udw cfg c0 v0 r0 (t1 ++ In i :: t2) = after decode hmac udw cfg c0 v0 r0 (t1 ++ [In i]).
Proof. exact loop_exits_on_cancel_l. Qed.

(* The repaired read-before-watch order: whenever the second half of a pass
   adds a watch that was not there (other than refreshing the watch of the
   directory it already believes watched), a token is left in the recheck channel
   (the loop also starts with one: init_state), and a waiting token is received
   like any input and makes the loop read the file once more - now with the
   watch in place. *)
Theorem recheck_after_new_watch : forall cfg f st p,
  mem (dir (st_resolved st)) (st_watches st) = true ->     (* the believed target directory is watched, *)
  path_eqb (dir (st_resolved st)) cfg = false ->           (* as the watch-set invariant says *)
  mem p (st_watches st) = false ->
  mem p (st_watches (cont_phase update_dir_watches cfg f st)) = true ->
  st_recheck (cont_phase update_dir_watches cfg f st) = true.
Proof. exact recheck_after_new_watch_l. Qed.

Theorem recheck_token_rereads : forall decode hmac udw cfg f st,
  at_select st = true -> st_recheck st = true ->
  step decode hmac udw cfg f st IRecheck = reload decode hmac udw cfg f (take IRecheck st) /\
  st_recheck (take IRecheck st) = false /\ receives cfg st IRecheck = true.
Proof. exact recheck_token_rereads_l. Qed.

(* Watch-set invariant of the repaired code: along every history whose
   environment is well formed (trace_ok: watches can be added while the file
   exists; the kernel drops neither the config directory's watch nor the
   current target directory's), in every reachable running state
   (winv) the config's own directory and the resolved target's directory are
   watched, the file is believed watched whenever it existed at the last read,
   and the file watch is really present unless the kernel dropped it. *)
Theorem watchset_invariant : forall decode hmac cfg c0 v0 r0 t,
  cfg <> [] -> path_eqb (dir r0) cfg = false ->
  trace_ok decode hmac update_dir_watches cfg t (init_fs cfg c0 r0) (init_state hmac cfg c0 v0 r0) = true ->
  winv cfg (after decode hmac update_dir_watches cfg c0 v0 r0 t) = true.
Proof. exact watchset_invariant_l. Qed.

(* Convergence under E-notify.  Let the file system reach its final state f
   after t1 and let t2 contain no further change.  If the environment
   satisfies E-notify (e_notify: every change is followed by an input that
   makes the running loop re-read - an event passing the name filter, a tick,
   a reload, a watcher error - provided the watch-set invariant held when the
   change happened), then at the end:
   - f decodable: the view is decode(f);
   - f undecodable or unreadable: the view is still the one from before the
     change (last good) and the last report is an error;
   - f absent: nothing at all has been reported since. *)
Theorem converges_given_notification : forall decode hmac cfg c0 v0 r0 t1 f t2,
  (forall a b, hmac a = hmac b -> a = b) -> decode c0 = Some v0 ->
  cfg <> [] -> path_eqb (dir r0) cfg = false ->
  forallb (fun it => negb (is_fs it)) t2 = true ->
  trace_ok decode hmac update_dir_watches cfg (t1 ++ Fs f :: t2) (init_fs cfg c0 r0) (init_state hmac cfg c0 v0 r0) = true ->
  e_notify decode hmac update_dir_watches cfg (t1 ++ Fs f :: t2) (init_fs cfg c0 r0) (init_state hmac cfg c0 v0 r0) = true ->
  let st1 := after decode hmac update_dir_watches cfg c0 v0 r0 t1 in
  let st := after decode hmac update_dir_watches cfg c0 v0 r0 (t1 ++ Fs f :: t2) in
  match fs_read f with
  | Content c =>
      match decode c with
      | Some v => view st = Some (c, v)
      | None => view st = view st1 /\ last_is_error (st_reports st) = true
      end
  | IOErr => view st = view st1 /\ last_is_error (st_reports st) = true
  | NotExist => st_reports st = st_reports st1
  end.
Proof. exact converges_given_notification_l. Qed.

(* No lost update, for every interleaving.  File-system changes may fall
   anywhere, in particular between a pass's read (InRead) and its second half
   (Cont) and between dials.Config's initial Value() and Watch().  The
   environment is only asked for what inotify can do (e_covered): a change is
   followed by an input that makes the loop re-read IF one of the directories
   in which it shows was watched AT THE MOMENT it happened.  env_ok: every
   change shows in the config's own directory or in the directory where the
   file was (or, for a dangling symlink, will re-appear); a change of that
   location involves the config's own directory; that directory is not deleted.
   Then, once the loop is idle (blocked in its select, no recheck token
   waiting), a read has happened after the last change: the view is
   decode(final), or last good + error reported, or - file absent - nothing was
   reported since.  Refuted for the loop without the token by
   no_lost_update_pre_fix_refuted (FileWatchFacts.v), same hypotheses. *)
Theorem no_lost_update : forall decode hmac cfg,
  cfg <> [] -> (forall a b, hmac a = hmac b -> a = b) ->
  forall c0 v0 r0 t1 f t2,
  decode c0 = Some v0 -> path_eqb (dir r0) cfg = false ->
  forallb (fun it => negb (is_fs it)) t2 = true ->
  let t := t1 ++ Fs f :: t2 in
  let x0 := (init_fs cfg c0 r0, init_state hmac cfg c0 v0 r0) in
  trace_ok decode hmac update_dir_watches cfg t (fst x0) (snd x0) = true ->
  env_ok decode hmac update_dir_watches cfg t (fst x0) (snd x0) = true ->
  e_covered decode hmac update_dir_watches cfg t (fst x0) (snd x0) = true ->
  idle (snd (run decode hmac update_dir_watches cfg t x0)) = true ->
  let st1 := snd (run decode hmac update_dir_watches cfg t1 x0) in
  let st := snd (run decode hmac update_dir_watches cfg t x0) in
  match fs_read f with
  | Content c =>
      match decode c with
      | Some v => view st = Some (c, v)
      | None => view st = view st1 /\ last_is_error (st_reports st) = true
      end
  | IOErr => view st = view st1 /\ last_is_error (st_reports st) = true
  | NotExist => st_reports st = st_reports st1
  end.
Proof. exact no_lost_update_l. Qed.

Print Assumptions dedupe_sound.
Print Assumptions identical_content_no_new_version.
Print Assumptions errors_forwarded.
Print Assumptions loop_exits_on_cancel.
Print Assumptions recheck_after_new_watch.
Print Assumptions recheck_token_rereads.
Print Assumptions watchset_invariant.
Print Assumptions converges_given_notification.
Print Assumptions no_lost_update.
