(* Property C08 - no deadlock, crash or leak in any interleaving; clean
   shutdown.  Statements only; proofs in Core/SystemProofs.v.  Partial: the
   release of real goroutines and OS resources is outside the model (checked on
   the implementation by the harness after every schedule). *)
From Coq Require Import List NArith Bool.
From Dials Require Import Base.Outcome Core.CbMgr Core.Monitor Core.System
  Core.CbMgrProofs Core.MonitorProofs Core.SystemProofs Core.LivenessProofs.
Import ListNotations.
Open Scope N_scope.

(* no schedule reaches a Panic state (the model's only panicking operation
   after the fixes is closing monDone twice; cbch is never closed, the
   unregister arm allocates with a non-negative capacity) *)
Theorem no_panic : forall (cfg sv : Type) (stack : list sv -> option cfg) (verify : cfg -> bool)
    (p : params) (on_new on_err : bool) (cbcap : N) (inits : list sv) (watching : list bool)
    (s0 : sys cfg sv) (ls : list (label sv)) (s : sys cfg sv),
  snd (sys_init stack verify p inits watching) = Ok s0 ->
  run stack verify p on_new on_err cbcap s0 ls = Some s -> s_panic s = false.
Proof. exact @no_panic_l. Qed.

(* the loop body of the callback goroutine is total (second unregister included) *)
Theorem unregister_never_panics : forall (cfg : Type) (on_new on_err : bool) (st : cb_state cfg) (h a : N),
  exists st', cb_step on_new on_err st (EvUnreg h a) = (st', [OAck a]).
Proof. exact @unregister_total_after_fix. Qed.

(* whatever the callback goroutine and the callbacks do, the monitor's next
   action is always enabled ... *)
Theorem monitor_independent_of_callbacks : forall (cfg sv : Type) (stack : list sv -> option cfg) (verify : cfg -> bool)
    (p : params) (on_new on_err : bool) (cbcap : N) (inits : list sv) (watching : list bool)
    (s0 : sys cfg sv) (ls : list (label sv)) (s : sys cfg sv) (st : mon_state sv) (a : mon_act cfg)
    (rest : list (mon_act cfg)),
  snd (sys_init stack verify p inits watching) = Ok s0 ->
  run stack verify p on_new on_err cbcap s0 ls = Some s ->
  s_mon s = MRun st (a :: rest) ->
  exists drop s', mon_act_step cbcap s drop = Some s'.
Proof. exact @monitor_always_enabled_l. Qed.

(* ... hence with a callback blocked for ever the monitor, by steps of its own
   only, finishes every update it has received (store included) and is back at
   its select, ready for the next report *)
Theorem monitor_drains_without_callbacks : forall (cfg sv : Type) (stack : list sv -> option cfg) (verify : cfg -> bool)
    (p : params) (on_new on_err : bool) (cbcap : N) (inits : list sv) (watching : list bool)
    (s0 : sys cfg sv) (ls : list (label sv)) (s : sys cfg sv),
  snd (sys_init stack verify p inits watching) = Ok s0 ->
  run stack verify p on_new on_err cbcap s0 ls = Some s ->
  exists ms s', Forall (fun l => match l with LMonAct _ => True | _ => False end) ms /\
    run stack verify p on_new on_err cbcap s ms = Some s' /\ pend_of s' = [] /\
    (length ms <= length (pend_of s))%nat.
Proof. exact @monitor_drains_without_callbacks_l. Qed.

(* after the Config context is cancelled the monitor, once at its select,
   leaves within two steps of its own and signals monDone (the last watcher's
   Done leads to the same AExit: Monitor.mon_recv) ... *)
Theorem shutdown_monitor : forall (cfg sv : Type) (stack : list sv -> option cfg) (verify : cfg -> bool)
    (p : params) (on_new on_err : bool) (cbcap : N) (s : sys cfg sv) (st : mon_state sv),
  s_main s = true -> s_mon s = MRun st [] ->
  exists s2, run stack verify p on_new on_err cbcap s [LMonRecv RCtx; LMonAct false] = Some s2 /\
             s_mon s2 = MExited /\ s_done s2 = true.
Proof. exact @shutdown_monitor_l. Qed.

(* ... the callback goroutine takes whatever is queued and leaves when the
   queue is empty *)
Theorem shutdown_callbacks : forall (cfg sv : Type) (on_new on_err : bool) (s : sys cfg sv) (cst : cb_state cfg),
  s_done s = true -> s_cb s = CRun cst [] -> s_cbq s = [] ->
  exists s', cb_take_step on_new on_err s = Some s' /\ s_cb s' = CExited.
Proof. exact @shutdown_callbacks_l. Qed.

Theorem callbacks_drain : forall (cfg sv : Type) (on_new on_err : bool) (s : sys cfg sv) (cst : cb_state cfg)
    (ev : cb_event cfg) (rest : list (cb_event cfg)),
  s_cb s = CRun cst [] -> s_cbq s = ev :: rest -> exists s', cb_take_step on_new on_err s = Some s'.
Proof. exact @callbacks_drain_l. Qed.

(* calls started after the monitor's exit: register returns nil, unregister -
   also a second one - returns false, both at once; no report, Done or enable
   request is ever received again, so those calls end with their context *)
Theorem late_calls_fail : forall (cfg sv : Type) (stack : list sv -> option cfg) (verify : cfg -> bool)
    (p : params) (s : sys cfg sv) (tid : N) (op : api_op sv) (s' : sys cfg sv),
  s_done s = true -> s_mon s = MExited -> api_start verify p s tid op = Some s' ->
  match op with
  | OpRegister _ _ => exists t, lookup tid (s_thr s') = Some t /\ t_pc t = PDone RetRegNil
  | OpUnregister _ => exists t, lookup tid (s_thr s') = Some t /\ t_pc t = PDone (RetBool false)
  | _ => True
  end /\ (forall src, mon_recv_step stack verify p s' src = None).
Proof. exact @late_calls_fail_l. Qed.

(* every pending call returns no later than its context *)
Theorem pending_call_returns_with_ctx : forall (cfg sv : Type) (cbcap : N) (s : sys cfg sv) (tid : N) (t : thread cfg sv),
  lookup tid (s_thr s) = Some t -> t_cancel t = true ->
  match t_pc t with
  | PDone _ => True
  | POffer _ => False
  | _ => exists s' r, api_act cbcap s tid 0 = Some s' /\
                      lookup tid (s_thr s') = Some (mkThr (t_op t) (PDone r) true)
  end \/ (exists m, t_pc t = POffer m).
Proof. exact @cancelled_call_returns_l. Qed.

(* no reachable state is a trap: from every reachable state there is a finite
   schedule - the monitor performs what it has pending, the Config context is
   cancelled, callbacks return - after which the monitor is gone, monDone is
   closed and the callback goroutine is gone.  A possibility statement;
   liveness under a fairness assumption on the scheduler is not formalised
   (partial). *)
Theorem shutdown_always_possible : forall (cfg sv : Type) (stack : list sv -> option cfg) (verify : cfg -> bool)
    (p : params) (on_new on_err : bool) (cbcap : N) (inits : list sv) (watching : list bool)
    (s0 : sys cfg sv) (ls : list (label sv)) (s : sys cfg sv),
  snd (sys_init stack verify p inits watching) = Ok s0 ->
  run stack verify p on_new on_err cbcap s0 ls = Some s ->
  s_mon s <> MNone ->
  exists ls' s', run stack verify p on_new on_err cbcap s ls' = Some s' /\
                 s_mon s' = MExited /\ s_done s' = true /\ (s_cb s' = CExited \/ s_cb s' = CNone).
Proof. exact @shutdown_always_possible_l. Qed.

Print Assumptions no_panic.
Print Assumptions unregister_never_panics.
Print Assumptions monitor_independent_of_callbacks.
Print Assumptions monitor_drains_without_callbacks.
Print Assumptions shutdown_monitor.
Print Assumptions shutdown_callbacks.
Print Assumptions callbacks_drain.
Print Assumptions late_calls_fail.
Print Assumptions pending_call_returns_with_ctx.
Print Assumptions shutdown_always_possible.
