(* Property C19 - case conversion: matched encoders and decoders are inverse;
   Go-identifier decoding splits names into exactly their words.
   This file contains statements only; proofs live in Text/*Proofs.v. *)
From Coq Require Import List NArith String.
From Dials Require Import Base.Outcome Base.Runes Text.CaseConv Text.GoCamelSpec
  Text.CaseConvProofs Text.GoCamelProofs Text.GoCamelFacts Text.CaseTitle Text.CaseTitleProofs Text.CaseInjective.
Import ListNotations.

(* lword w : w matches [a-z][a-z0-9]*.  An identifier has at least one word;
   the empty list encodes to "" which every decoder rejects. *)

Theorem decode_encode_upper_camel : forall ws, Forall lword ws -> ws <> [] ->
  decode_upper_camel (encode_upper_camel ws) = Ok ws.
Proof. exact decode_encode_upper_camel_l. Qed.

Theorem decode_encode_lower_camel : forall ws, Forall lword ws -> ws <> [] ->
  decode_lower_camel (encode_lower_camel ws) = Ok ws.
Proof. exact decode_encode_lower_camel_l. Qed.

Theorem decode_encode_lower_snake : forall ws, Forall lword ws -> ws <> [] ->
  decode_lower_snake (encode_lower_snake ws) = Ok ws.
Proof. exact decode_encode_lower_snake_l. Qed.

Theorem decode_encode_upper_snake : forall ws, Forall lword ws -> ws <> [] ->
  decode_upper_snake (encode_upper_snake ws) = Ok ws.
Proof. exact decode_encode_upper_snake_l. Qed.

Theorem decode_encode_kebab : forall ws, Forall lword ws -> ws <> [] ->
  decode_kebab (encode_kebab ws) = Ok ws.
Proof. exact decode_encode_kebab_l. Qed.

Theorem decode_encode_cp_snake : forall ws, Forall lword ws -> ws <> [] ->
  decode_cp_snake (encode_cp_snake ws) = Ok ws.
Proof. exact decode_encode_cp_snake_l. Qed.

(* The camel laws above are stated with CaseConv.v's `title` (upper-case the first
   rune).  The faithful ASCII model of x/text's cases.Title(NoLower) algorithm
   (Text/CaseTitle.v: word boundaries, mid-word punctuation, casing after digits)
   gives the same encoders on these word lists, so the laws hold for it too; the
   correspondence check compares the implementation with the faithful model on
   arbitrary ASCII words. *)
Theorem camel_encoders_faithful_on_words : forall ws, Forall lword ws ->
  encode_upper_camel_go ws = encode_upper_camel ws /\ encode_lower_camel_go ws = encode_lower_camel ws.
Proof. exact encode_camel_go_lwords. Qed.

(* Names assembled from capitalised words [A-Z][a-z][a-z0-9]* and runs of
   initialisms of the source's list (any number of segments, any order) are
   split into exactly those tokens, for every name inside the decidable guard
   go_guard; the guard's complement is the four known-finding classes, each
   refuted with a witness in Text/GoCamelFacts.v. *)
Theorem go_camel_splits : forall ss,
  ss <> [] -> Forall (fun s => wf_seg s = true) ss -> go_guard ss = true ->
  decode_go_camel (render ss) = Ok (expected ss).
Proof. exact go_camel_splits_l. Qed.

(* extractInitialisms terminates on every input for the current list *)
Theorem extract_initialisms_terminates : forall s, extract_initialisms s <> None.
Proof. exact extract_total. Qed.

(* Consequences users rely on (Text/CaseInjective.v).  No two distinct word lists
   share a name in any of the six cases: two configuration leaves whose word
   lists differ can never collide on an environment variable, flag or file key
   because of the case conversion. *)
Theorem encoders_injective : forall enc, In enc six_encoders ->
  forall ws1 ws2, Forall lword ws1 -> ws1 <> [] -> Forall lword ws2 -> ws2 <> [] ->
  enc ws1 = enc ws2 -> ws1 = ws2.
Proof. exact six_encoders_injective_l. Qed.

(* Re-casing (what tagformat.ReformatDialsTagSource does: decode the tag in one
   case, encode it in another) loses nothing: reading the re-cased name back with
   the matching decoder gives the words of the original name.  Stated for the
   pair the shipped sources use (lowerCamel tags re-cased to UPPER_SNAKE for the
   environment, to kebab for flags). *)
Theorem recase_lower_camel_to_upper_snake : forall ws, Forall lword ws -> ws <> [] ->
  match decode_lower_camel (encode_lower_camel ws) with
  | Ok ws' => decode_upper_snake (encode_upper_snake ws') | Err e => Err e | Panic p => Panic p end = Ok ws.
Proof. exact (recase_lossless _ _ decode_encode_lower_camel_l _ _ decode_encode_upper_snake_l). Qed.

Theorem recase_lower_camel_to_kebab : forall ws, Forall lword ws -> ws <> [] ->
  match decode_lower_camel (encode_lower_camel ws) with
  | Ok ws' => decode_kebab (encode_kebab ws') | Err e => Err e | Panic p => Panic p end = Ok ws.
Proof. exact (recase_lossless _ _ decode_encode_lower_camel_l _ _ decode_encode_kebab_l). Qed.

(* non-vacuity: the hypotheses are met by a concrete two-word name *)
Example lwords_exist : Forall lword [s2r "max"%string; s2r "conns2"%string]
  /\ [s2r "max"%string; s2r "conns2"%string] <> ([] : words).
Proof. split; [repeat constructor | discriminate]. Qed.

Print Assumptions decode_encode_upper_camel.
Print Assumptions decode_encode_lower_camel.
Print Assumptions decode_encode_lower_snake.
Print Assumptions decode_encode_upper_snake.
Print Assumptions decode_encode_kebab.
Print Assumptions decode_encode_cp_snake.
Print Assumptions camel_encoders_faithful_on_words.
Print Assumptions go_camel_splits.
Print Assumptions extract_initialisms_terminates.
Print Assumptions encoders_injective.
Print Assumptions recase_lower_camel_to_upper_snake.
Print Assumptions recase_lower_camel_to_kebab.
