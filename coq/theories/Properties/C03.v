(* Property C03 - cyclic and shared reference graphs are copied safely and
   faithfully.  Statements only; proofs live in Copy/DeepCopy*.v.

   The model (Copy/DeepCopy.v, `copy true`) is the deep copier AFTER the commit
   "fix: deep copy of interface values consults the pointer and map memos";
   `copy false` is the pinned code, for which deep_copy_terminates is false
   (Copy/DeepCopyFacts.v: c03_unfixed_refuted, _map, _slice).

   deep_copy fx fuel h n0 v: a new deepCopier copies the value v living in the
   heap h; the allocator starts at n0.  The result state st' holds the final
   heap, the allocator position, ptrMap (c_pm) and mapMap (c_mm).

   Guards (all decidable, Copy/DeepCopySpec.v):
     wf_heapb h n0       h is finite and closed: objects and references below n0
     wf_rankb h R D rk   nesting depth of inline values <= D; rk ranks backing
                         arrays so that a slice held inline in an array's
                         elements refers to an array of smaller rank (< R):
                         excludes exactly the cycles made of slices and
                         interface values only (s[0] = s), for which the copier
                         has no memo; such cycles are outside the property.
   Interior pointers are not modelled (Reflect/Heap.v). *)
From Coq Require Import List NArith.
From Dials Require Import Base.Outcome Reflect.Ty Reflect.Heap Copy.DeepCopy Copy.DeepCopySpec
  Copy.DeepCopyInv Copy.DeepCopyTerm Copy.DeepCopyBisim Copy.DeepCopySharing Copy.DeepCopyTotal Copy.DeepCopyFacts
  Copy.DeepCopyGuard Copy.PtrifyWalk Copy.PtrifyWalkProofs Stack.ComposeH Stack.History Stack.ConfigGraphs.
Import ListNotations.
Open Scope N_scope.

(* Termination with an explicit bound on the recursion depth:
   copy_fuel n0 R D = (2*n0 + 1) * (R + 1) * (D + 1). *)
Theorem deep_copy_terminates : forall h n0 R D rk v fuel,
  c03_guard h n0 R D rk v = true -> (copy_fuel n0 R D <= fuel)%nat ->
  deep_copy true fuel h n0 v <> OutOfFuel.
Proof. exact deep_copy_terminates_l. Qed.

(* ... and succeeds: on a kind-correct heap (every reference leads to an object
   of its kind, every slice lies inside its backing array, interface values
   hold concrete values - c03_guard_total adds wf_kindsb to c03_guard) the
   copy returns; the fixed copier has no panic or error outcome. *)
Theorem deep_copy_succeeds : forall h n0 R D rk v fuel,
  c03_guard_total h n0 R D rk v = true -> (copy_fuel n0 R D <= fuel)%nat ->
  exists st' v', deep_copy true fuel h n0 v = Done (st', v').
Proof. exact deep_copy_succeeds_l. Qed.

(* ... and every pointer / map node is expanded at most once *)
Theorem deep_copy_expands_once : forall h n0 v fuel st' v',
  wf_heapb h n0 = true -> refs_belowb n0 (refs v) = true ->
  deep_copy true fuel h n0 v = Done (st', v') ->
  NoDup (map fst (c_pm st')) /\ NoDup (map fst (c_mm st')).
Proof. exact deep_copy_expands_once_b. Qed.

(* The result is bisimilar to the input under R = ptrMap U mapMap: the roots
   are related and related nodes have related contents (same shape, leaves,
   dynamic types, lengths and capacities; references related again). *)
Theorem deep_copy_bisimilar : forall h n0 v fuel st' v',
  wf_heapb h n0 = true -> refs_belowb n0 (refs v) = true ->
  deep_copy true fuel h n0 v = Done (st', v') ->
  vrel (c_pm st') (c_mm st') (c_heap st') v v' /\ bisim (c_pm st') (c_mm st') (c_heap st').
Proof. exact deep_copy_bisimilar_b. Qed.

(* R is functional and injective and total on the reachable pointer and map
   nodes: identical references stay identical and conversely; a node that
   reaches itself is copied to a node that reaches itself. *)
Theorem deep_copy_sharing : forall h n0 v fuel st' v',
  wf_heapb h n0 = true -> refs_belowb n0 (refs v) = true ->
  deep_copy true fuel h n0 v = Done (st', v') ->
  let pm := c_pm st' in let mm := c_mm st' in let H := c_heap st' in
  functional pm /\ functional mm /\ injective (pm ++ mm) /\
  (forall k a, wreach h v k a -> exists a', related pm mm k a a' /\ wreach H v' k a') /\
  (forall a a' x x', In (a, a') pm -> hget H a = Some (OCell x) -> hget H a' = Some (OCell x') ->
     wreach H x RCell a -> wreach H x' RCell a').
Proof. exact deep_copy_sharing_b. Qed.

(* The range of R is disjoint from the input heap; the result and every new
   object refer to new objects only; the input heap is unchanged. *)
Theorem deep_copy_fresh : forall h n0 v fuel st' v',
  wf_heapb h n0 = true -> refs_belowb n0 (refs v) = true ->
  deep_copy true fuel h n0 v = Done (st', v') ->
  (forall a b, In (a, b) (c_pm st' ++ c_mm st') -> n0 <= b < c_next st' /\ hget h b = None) /\
  refs_fresh n0 (c_next st') (refs v') /\
  (forall a o, hget (c_heap st') a = Some o -> n0 <= a -> refs_fresh n0 (c_next st') (obj_refs o)) /\
  (forall a, a < n0 -> hget (c_heap st') a = hget h a).
Proof. exact deep_copy_fresh_b. Qed.

(* The Config path on graphs, memory part (Stack/History.v: config_h with the
   single event "Config's own stacking, no source"): entry copy of the defaults,
   then compose copies that copy again and overlays nothing.  If the call
   returns, the config is bisimilar to the caller's defaults (under the
   composition of the two memo relations), allocated by the call, and the
   caller's heap is untouched.  PARTIAL: conditional on the call returning
   (each single copy terminates by deep_copy_terminates, but that the first
   copy's output satisfies the rank/depth guard again is not proved), and
   ptrify.Pointerify's walk over the interface payloads of the template is not
   modelled (covered by the correspondence check, mode 1, only). *)
Theorem config_on_graphs_partial : forall fuel fs h n0 defaults H N d vs,
  wf_heapb h n0 = true -> defaults <? n0 = true ->
  config_h fuel fs h n0 defaults [mk_event [] []] = Done ((H, N), d, vs) ->
  exists v pm mm, vs = [v] /\
    vrel pm mm H (HPtr (Some defaults)) (HPtr (Some (v_root v))) /\ bisim pm mm H /\
    (forall a, reach H [(RCell, v_root v)] a -> n0 <= a /\ hget h a = None) /\
    (forall a o, hget h a = Some o -> hget H a = Some o).
Proof. exact config_on_graphs_partial_b. Qed.

(* The heap a copy leaves behind satisfies the guards again (with a ranking
   rk' in which every new backing array has the rank of the array it was
   copied from): copies can be iterated - Config's entry copy followed by
   compose's copy, re-stacks from the pristine copy. *)
Theorem deep_copy_guard_preserved : forall h n0 R D rk v fuel st' v',
  wf_heap h n0 -> wf_rank h R D rk -> wf_kinds h -> wf_root n0 R D rk v -> vok h v ->
  deep_copy true fuel h n0 v = Done (st', v') ->
  exists rk', wf_heap (c_heap st') (c_next st') /\ wf_rank (c_heap st') R D rk' /\ wf_kinds (c_heap st') /\
              wf_root (c_next st') R D rk' v' /\ vok (c_heap st') v'.
Proof. exact deep_copy_guard_l. Qed.

(* The Config path on graphs (memory part), no longer conditional on returning:
   under the decidable guard the entry copy returns, and with fuel for a heap of
   n1 = c_next st1 addresses (the allocator position the entry copy left) the
   whole call returns a config bisimilar to the caller's defaults, allocated by
   the call, the caller's heap untouched.  (ptrify.Pointerify's walk over the
   template's interface payloads: pointerify_walk_terminates below.) *)
Theorem config_on_graphs : forall fuel fs h n0 R D rk defaults,
  c03_guard_total h n0 R D rk (HPtr (Some defaults)) = true ->
  (copy_fuel n0 R D <= fuel)%nat ->
  exists st1 d,
    deep_copy true fuel h n0 (HPtr (Some defaults)) = Done (st1, HPtr (Some d)) /\
    ((copy_fuel (c_next st1) R D <= fuel)%nat ->
     exists H N v pm mm,
       config_h fuel fs h n0 defaults [mk_event [] []] = Done ((H, N), d, [v]) /\
       vrel pm mm H (HPtr (Some defaults)) (HPtr (Some (v_root v))) /\ bisim pm mm H /\
       (forall a, reach H [(RCell, v_root v)] a -> n0 <= a /\ hget h a = None) /\
       (forall a o, hget h a = Some o -> hget H a = Some o)).
Proof. exact config_on_graphs_b. Qed.

(* ptrify.Pointerify's walk over the template value (Copy/PtrifyWalk.v: the
   repaired code, with the set of interface-held pointers on the current path)
   terminates on every finite closed heap in which no cycle runs through typed
   pointer-to-struct fields alone (decidable guard wf_prankb; such a cycle
   needs a Go type that reaches itself: finding 15), with the explicit bound
   pwalk_fuel n0 P D = (n0+1)(P+1)(D+1).  Before the fix it does not
   (Copy/PtrifyWalkProofs.v: c03_pointerify_unfixed_refuted, n.Any = n). *)
Theorem pointerify_walk_terminates : forall h n0 P D prk v fuel,
  wf_heapb h n0 = true -> wf_prankb h P D prk = true -> pwalk_root_ok n0 P D prk v = true ->
  (pwalk_fuel n0 P D <= fuel)%nat ->
  pwalk false fuel h [] v <> OutOfFuel.
Proof. exact pointerify_walk_terminates_l. Qed.

Print Assumptions deep_copy_terminates.
Print Assumptions deep_copy_succeeds.
Print Assumptions deep_copy_expands_once.
Print Assumptions deep_copy_bisimilar.
Print Assumptions deep_copy_sharing.
Print Assumptions deep_copy_fresh.
Print Assumptions config_on_graphs_partial.
Print Assumptions deep_copy_guard_preserved.
Print Assumptions config_on_graphs.
Print Assumptions pointerify_walk_terminates.
