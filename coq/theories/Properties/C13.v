(* Property C13 - file decoders agree: same data in JSON, YAML, TOML or Cue,
   same config.  Statements only; proofs in Sources/DecodersProofs.v, examples
   and the refutation witness in Sources/DecodersFacts.v.

   Level: proof (partial).  What is proved is that the DIALS SIDE of the four
   decoders (duration substitution, tag copy with "existing format tag wins",
   reverse translation) is transparent over ONE generic strict tag-directed
   decoder on abstract documents (Sources/Decoders.v: keyed_decode).  That
   encoding/json, yaml.v2, go-toml and cue behave like that generic decoder on
   the generated input class is ASSUMED and sampled by the correspondence
   check, not proved.

   Vocabulary: pfs - pointerified config type; decode f d pfs - the model of
   Decoder.Decode for format f on document d; spec_decode f - the strict
   decoder keyed, per field, by the format tag if present, else the dials tag,
   reading durations as strings or integer nanoseconds;
   dec_ok pfs - structs sit only where the transformer recurses (field,
   *struct, []struct, [N]struct); tags_wf f pfs - no explicitly empty format tag. *)
From Coq Require Import List NArith ZArith.
From Dials Require Import Base.Outcome Base.Runes Reflect.Ty Reflect.Ptrify Stack.Overlay Text.ParseText
  Sources.Flatten Sources.TimeText Sources.Decoders Sources.DecodersSpec Sources.DecodersProofs Sources.DecodersFacts
  Sources.AnonFlat Sources.AnonFlatProofs Sources.AnonFlatFacts.
Import ListNotations.

(* Each decoder returns exactly what the specification decoder returns: keys
   from the dials tags, a format-specific tag overriding where present. *)
Theorem decoders_agree : forall f d pfs,
  dec_ok pfs = true -> tags_wf f pfs = true -> decode f d pfs = spec_decode f d pfs.
Proof. exact decoders_agree_l. Qed.

(* Same data, same config: without format-specific tags any two of the four
   decoders return the same outcome on every document tree. *)
Theorem decoders_agree_all : forall f g d pfs,
  dec_ok pfs = true -> no_fmt_fields pfs = true ->
  time_free pfs = true \/ no_time_str d = true ->
  decode f d pfs = decode g d pfs.
Proof. exact decoders_agree_all_l. Qed.

(* The timestamp guard is not vacuous: a STRING spelling a timestamp is read
   into a time.Time by JSON, YAML and Cue and rejected by TOML. *)
Theorem time_string_refuted :
  let d := time_str_doc in      (* {"at": "2021-03-04T05:06:07Z"} for struct{ At time.Time `dials:"at"`; ... } *)
  dec_ok time_pfs = true /\ no_fmt_fields time_pfs = true /\
  time_free time_pfs = false /\ no_time_str d = false /\
  map (fun f => class_of (decode f d time_pfs)) [FJson; FYaml; FToml; FCue] = [COk; COk; CErr; COk].
Proof. exact time_string_refuted_l. Qed.

(* The guard is not vacuous: a struct as map value is reached neither by the
   tag copy nor by the duration substitution (known finding C13/2). *)
Theorem decoders_agree_refuted :
  dec_ok (ptrify_fields ref_fs) = false /\
  map (fun f => class_of (decode f ref_doc (ptrify_fields ref_fs))) [FJson; FYaml; FToml; FCue] =
  [CErr; COk; COk; CErr].
Proof. exact decoders_agree_refuted_l. Qed.

(* A key that is absent from the document leaves its field unset. *)
Theorem absent_is_unset : forall f kvs pfs vs,
  dec_ok pfs = true -> tags_wf f pfs = true -> decode f (DMap kvs) pfs = Ok vs ->
  Forall2 (fun fld v => doc_lookup (spec_key f (fst (fst fld)) (snd (fst fld))) kvs = None -> v = zero (snd fld))
          (fields_list pfs) vs.
Proof. exact absent_is_unset_l. Qed.

(* Durations: a string of the duration grammar or integer nanoseconds, in
   every format (JSON and Cue see the substituted type). *)
Theorem duration_forms : forall (f : format) (key : str -> list (str * str) -> str),
  (forall s, keyed_decode (lib_native_time f) (lib_native_dur f) key (DStr s) (dur_leaf_seen f) =
             omap VPtr (omap VInt (parse_duration s))) /\
  (forall z, keyed_decode (lib_native_time f) (lib_native_dur f) key (DInt z) (dur_leaf_seen f) =
             omap VPtr (decode_int 64 z)).
Proof. exact duration_forms_l. Qed.

(* Timestamps: a time.Time leaf is untouched by the dials side and read, in
   every format, from the format's own way of writing a timestamp (TOML: its
   datetime token, the others: a string) as the instant time.Parse(RFC3339)
   gives (Sources/TimeText.v: time_value). *)
Theorem time_forms : forall (f : format) (key : str -> list (str * str) -> str) (s : str),
  subst_ty time_leaf = time_leaf /\
  keyed_decode (lib_native_time f) (lib_native_dur f) key (own_time f s) time_leaf = omap VPtr (time_value s) /\
  keyed_decode (lib_native_time f) (lib_native_dur f) key (DTime s) time_leaf = omap VPtr (time_value s).
Proof. exact time_forms_l. Qed.

(* Sets written as lists: with the set-slice wrapper (ez puts it around every
   file decoder) a set field is read from a list in every format. *)
Theorem set_as_list : forall f d pfs,
  dec_ok (setslice_fields pfs) = true -> tags_wf f (setslice_fields pfs) = true ->
  decode_wrapped f d pfs = spec_wrapped f d pfs.
Proof. exact set_as_list_l. Qed.

(* decoders/yaml with FlattenAnonymous: rewriting the type (hoist the fields of
   embedded structs one level, recursively inside struct fields), decoding and
   regrouping the hoisted values returns exactly what the direct reading
   returns - the fields of an embedded struct / *struct are read from the
   enclosing mapping under their own dials (or yaml) keys, an embedded *struct
   none of whose fields is set stays nil.  anon_ok: the fields of an embedded
   *struct are of nilable types (pointerified positions); uniq_fields: the
   hoisting brings no two fields of one Go name together. *)
Theorem yaml_flatten : forall d pfs,
  dec_ok pfs = true -> tags_wf FYaml pfs = true -> anon_ok pfs = true ->
  uniq_fields (anonflat_fields (tagcopy_fields dials_tag yaml_tag pfs)) = true ->
  decode_yaml_flat d pfs = spec_yaml_flat d pfs.
Proof. exact yaml_flatten_l. Qed.

(* The two guards are not vacuous: a hoisted field meeting a field of the same
   Go name is an error of the rewrite (in Go the outer field would shadow) ... *)
Theorem yaml_flatten_name_clash_refuted :
  let pfs := ptrify_fields clash_fs in
  uniq_fields pfs = true /\
  uniq_fields (anonflat_fields (tagcopy_fields dials_tag yaml_tag pfs)) = false /\
  decode_yaml_flat clash_doc pfs = Err e_dup_names /\
  spec_yaml_flat clash_doc pfs = Ok [VPtr (VInt 1); VNil].
Proof. exact flat_name_clash_refuted_l. Qed.

(* ... and inside a slice element an absent plain struct embedding a *struct
   with a non-nilable field gets that pointer allocated. *)
Theorem yaml_flatten_alloc_refuted :
  let pfs := ptrify_fields alloc_fs in
  dec_ok pfs = true /\ anon_ok pfs = false /\
  decode_yaml_flat alloc_doc pfs = Ok [VList [VStruct [VStruct [VPtr (VStruct [VInt 0])]; VInt 1]]] /\
  spec_yaml_flat alloc_doc pfs = Ok [VList [VStruct [VStruct [VNil]; VInt 1]]].
Proof. exact flat_alloc_refuted_l. Qed.

(* An ill-typed, out-of-range or malformed value anywhere under a present key
   makes the whole decode fail: never a partially filled value. *)
Theorem error_is_total : forall f kvs pfs n tags t d,
  dec_ok pfs = true -> tags_wf f pfs = true ->
  In (n, tags, t) (fields_list pfs) -> doc_lookup (spec_key f n tags) kvs = Some d ->
  (forall v, spec_ty f d t <> Ok v) ->
  forall vs, decode f (DMap kvs) pfs <> Ok vs.
Proof. exact error_is_total_l. Qed.

Print Assumptions decoders_agree.
Print Assumptions decoders_agree_all.
Print Assumptions decoders_agree_refuted.
Print Assumptions absent_is_unset.
Print Assumptions duration_forms.
Print Assumptions time_forms.
Print Assumptions yaml_flatten.
Print Assumptions yaml_flatten_name_clash_refuted.
Print Assumptions yaml_flatten_alloc_refuted.
Print Assumptions time_string_refuted.
Print Assumptions error_is_total.
Print Assumptions set_as_list.
