(* placeholder until the proofs land *)
From Dials Require Import Sources.Decoders.
