(* Heap-level model of compose (/repo/dials.go) and of overlayField /
   overlayStruct (/repo/overlay.go) - definitions only.  Same control flow as
   the tree-level model Stack/Overlay.v (same panic / error codes), but values
   are heap values: a pointer assignment base.Set(overlay) stores the ADDRESS
   held by the (deep-copied) layer, a pointer-to-struct merge reads and writes
   the pointee cell of the base, reflect.New allocates from the allocator.

   compose_h fuel fs h n d layers:
     d       address of the defaults (the *T handed to compose),
     layers  addresses of the cells holding the source values (a struct of the
             pointerified type; a pointer value is dereferenced by compose),
     n       allocator position.
   Mirrors compose: realDeepCopy(t), then for every source a new overlayer
   (a new deepCopier), deep copy of the source value, overlayStruct onto the
   copy of the defaults.  Interface-typed config fields are not modelled
   (RErr 99, as in Stack/Overlay.v). *)
From Coq Require Import List NArith ZArith Bool.
From Dials Require Import Base.Outcome Base.Runes Reflect.Ty Reflect.Ptrify Reflect.Heap Stack.Overlay Copy.DeepCopy.
Import ListNotations.
Open Scope N_scope.

Definition is_hnil (v : hv) : bool :=
  match v with HPtr None | HMap None | HSlice None | HNilIface => true | _ => false end.

Fixpoint repeat_hv (n : nat) (v : hv) : list hv :=
  match n with O => [] | S k => v :: repeat_hv k v end.

(* reflect.Zero / reflect.New of a type, as a heap value (holds no reference) *)
Fixpoint hzero (t : ty) : hv :=
  match t with
  | TPtr _ => HPtr None
  | TSlice _ _ => HSlice None
  | TMap _ _ _ => HMap None
  | TIface => HNilIface
  | TArray n t' => HArray (repeat_hv (N.to_nat n) (hzero t'))
  | TStruct fs _ => HStruct (hzero_fields fs)
  | TTextU _ _ => HStruct [HLeaf (VStr [])]
  | TBasic _ _ | TChan | TFunc => HLeaf (zero t)
  end
with hzero_fields (fs : fields) : list hv :=
  match fs with
  | FNil => []
  | FCons n _ _ t r => (if exported n then hzero t else HPriv (hzero t)) :: hzero_fields r
  end.

Definition hst := (heap * addr)%type.

Definition get_struct (h : heap) (a : addr) : option (list hv) :=
  match hget h a with Some (OCell (HStruct vs)) => Some vs | _ => None end.

(* the default branch of overlayField: base.Set(overlay.Elem()) or base.Set(overlay) *)
Definition ov_default (bt : ty) (hs : hst) (ot : ty) (ov : hv) : res (hst * hv) :=
  match ot, ov with
  | TPtr oe, HPtr (Some oa) =>
      if ty_eqb oe bt then
        match hget (fst hs) oa with Some (OCell x) => Done (hs, x) | _ => IllFormed end
      else RPanic 3
  | _, _ => if ty_eqb ot bt then Done (hs, ov) else RPanic 3
  end.

(* base is a struct implementing TextUnmarshaler: shallow copy *)
Definition ov_textu (bt : ty) (hs : hst) (ot : ty) (ov : hv) : res (hst * hv) :=
  match ot, ov with
  | TPtr oe, HPtr (Some oa) =>
      if ty_eqb oe bt then
        match hget (fst hs) oa with Some (OCell x) => Done (hs, x) | _ => IllFormed end
      else RPanic 3
  | TTextU _ _, _ => if ty_eqb ot bt then Done (hs, ov) else RErr 5
  | _, _ => RErr 5
  end.

Fixpoint overlay_field_h (bt : ty) (hs : hst) (bv : hv) (ot : ty) (ov : hv) {struct bt} : res (hst * hv) :=
  if nilable_kind ot && is_hnil ov then Done (hs, bv) else
  match bt with
  | TPtr be =>
      match bv with
      | HPtr None =>
          match ot with
          | TPtr oe =>
              if ty_eqb be oe then Done (hs, ov)     (* base.Set(overlay): the layer's address *)
              else match be with
                   | TStruct bfs _ =>
                       match oe, ov with
                       | TStruct ofs _, HPtr (Some oa) =>
                           match get_struct (fst hs) oa with
                           | Some ovs =>
                               (* base.Set(reflect.New(...)); overlayStruct(base.Elem(), overlay.Elem()) *)
                               let a' := snd hs in
                               p <~ overlay_struct_h bfs (fst hs, a' + 1) (hzero_fields bfs) ofs ovs ;;
                               Done ((hset (fst (fst p)) a' (OCell (HStruct (snd p))), snd (fst p)), HPtr (Some a'))
                           | None => IllFormed
                           end
                       | _, _ => RPanic 1
                       end
                   | TTextU _ _ => RErr 2
                   | _ => RErr 1
                   end
          | _ => RPanic 3
          end
      | HPtr (Some ba) =>
          match be with
          | TTextU _ _ =>
              if ty_eqb ot bt then Done (hs, ov)
              else if ty_eqb ot be then Done ((hset (fst hs) ba (OCell ov), snd hs), bv)  (* base.Elem().Set(overlay) *)
              else Done (hs, bv)
          | TStruct bfs _ =>
              match ot, ov with
              | TPtr (TStruct ofs _), HPtr (Some oa) =>
                  match get_struct (fst hs) ba, get_struct (fst hs) oa with
                  | Some bvs, Some ovs =>
                      (* overlayStruct(base.Elem(), overlay.Elem()): merges into the pointee of the base *)
                      p <~ overlay_struct_h bfs hs bvs ofs ovs ;;
                      Done ((hset (fst (fst p)) ba (OCell (HStruct (snd p))), snd (fst p)), bv)
                  | _, _ => IllFormed
                  end
              | _, _ => RPanic 1
              end
          | _ => if ty_eqb ot bt then Done (hs, ov) else RErr 4
          end
      | _ => IllFormed
      end
  | TIface => RErr 99
  | TTextU _ _ => ov_textu bt hs ot ov
  | TStruct bfs _ =>
      match bv with
      | HStruct bvs =>
          match ot, ov with
          | TPtr (TStruct ofs _), HPtr (Some oa) =>
              match get_struct (fst hs) oa with
              | Some ovs => p <~ overlay_struct_h bfs hs bvs ofs ovs ;; Done (fst p, HStruct (snd p))
              | None => IllFormed
              end
          | TStruct ofs _, HStruct ovs => p <~ overlay_struct_h bfs hs bvs ofs ovs ;; Done (fst p, HStruct (snd p))
          | _, _ => RPanic 1
          end
      | _ => IllFormed
      end
  | _ => ov_default bt hs ot ov
  end
with overlay_struct_h (bfs : fields) (hs : hst) (bvs : list hv) (ofs : fields) (ovs : list hv) {struct bfs}
  : res (hst * list hv) :=
  match bfs, bvs with
  | FNil, _ => Done (hs, [])
  | FCons n tags _ t r, bv :: bvs' =>
      if omit_field n tags then p <~ overlay_struct_h r hs bvs' ofs ovs ;; Done (fst p, bv :: snd p)
      else if is_chan_func t then p <~ overlay_struct_h r hs bvs' ofs ovs ;; Done (fst p, bv :: snd p)
      else match ofs, ovs with
           | FCons _ _ _ ot ofs', ov :: ovs' =>
               p <~ overlay_field_h t hs bv ot ov ;;
               q <~ overlay_struct_h r (fst p) bvs' ofs' ovs' ;;
               Done (fst q, snd p :: snd q)
           | _, _ => RPanic 2
           end
  | FCons _ _ _ _ _, [] => IllFormed
  end.

Fixpoint compose_layers (fuel : nat) (fs : fields) (hs : hst) (d' : addr) (layers : list addr) : res hst :=
  match layers with
  | [] => Done hs
  | l :: rest =>
      (* o := newOverlayer(); sv := o.dc.deepCopyValue(s) *)
      p <~ deep_copy true fuel (fst hs) (snd hs) (HPtr (Some l)) ;;
      match snd p with
      | HPtr (Some l') =>
          let h1 := c_heap (fst p) in
          match get_struct h1 d', get_struct h1 l' with
          | Some bvs, Some ovs =>
              q <~ overlay_struct_h fs (h1, c_next (fst p)) bvs (ptrify_fields fs) ovs ;;
              compose_layers fuel fs (hset (fst (fst q)) d' (OCell (HStruct (snd q))), snd (fst q)) d' rest
          | _, _ => RPanic 1
          end
      | _ => IllFormed
      end
  end.

Definition compose_h (fuel : nat) (fs : fields) (h : heap) (n : addr) (d : addr) (layers : list addr)
  : res (hst * addr) :=
  p <~ deep_copy true fuel h n (HPtr (Some d)) ;;      (* copyValuePtr := realDeepCopy(t) *)
  match snd p with
  | HPtr (Some d') =>
      q <~ compose_layers fuel fs (c_heap (fst p), c_next (fst p)) d' layers ;;
      Done (q, d')
  | _ => IllFormed
  end.

(* decidable guard of the C02 theorems: the layers live in the heap below n0 *)
Definition layers_below (n0 : N) (layers : list addr) : bool := forallb (fun l => l <? n0) layers.
