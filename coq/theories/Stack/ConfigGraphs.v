(* The Config path on object graphs, memory part: Config(ctx, &defaults) with
   no source copies the defaults on entry and compose copies that copy again
   (nothing is overlaid).  If the call returns, the config it returns is
   bisimilar to the caller's defaults under the composition of the two memo
   relations, and allocated entirely by the call.
   PARTIAL: (1) conditional on the call returning - termination of each single
   copy is deep_copy_terminates / deep_copy_succeeds, but that the first copy's
   output again satisfies the rank/depth guard is not proved; (2) Pointerify's
   walk over the interface payloads of the template is not modelled. *)
From Coq Require Import List NArith ZArith Bool Lia.
From Dials Require Import Base.Outcome Base.Runes Reflect.Ty Reflect.Ptrify Reflect.Heap Stack.Overlay
  Copy.DeepCopy Copy.DeepCopySpec Copy.DeepCopyBasics Copy.DeepCopyInv Copy.DeepCopyTerm Copy.DeepCopyBisim Copy.DeepCopySharing
  Stack.ComposeH Stack.ComposeHProofs Stack.History Stack.HistoryProofs.
Import ListNotations.
Open Scope N_scope.
Local Arguments hset : simpl never.
Local Arguments hget : simpl never.

(* relational composition of two memo tables *)
Definition comp (m1 m2 : amap) : amap :=
  flat_map (fun ab => flat_map (fun bc => if snd ab =? fst bc then [(fst ab, snd bc)] else []) m2) m1.

Lemma in_comp m1 m2 a c : In (a, c) (comp m1 m2) <-> exists b, In (a, b) m1 /\ In (b, c) m2.
Proof.
  unfold comp. rewrite in_flat_map. split.
  - intros [[a' b] [H1 H2]]. rewrite in_flat_map in H2. destruct H2 as [[b' c'] [H2 H3]]. simpl in H3.
    destruct (N.eqb_spec b b'); [|contradiction]. destruct H3 as [E|[]]. inversion E; subst. exists b'. auto.
  - intros [b [H1 H2]]. exists (a, b). split; auto. rewrite in_flat_map. exists (b, c). split; auto.
    simpl. rewrite N.eqb_refl. left; reflexivity.
Qed.

Section Comp.
Variables (pm1 mm1 pm2 mm2 : amap) (H : heap).

Lemma vrel_comp :
  (forall v v1, vrel pm1 mm1 H v v1 -> forall v2, vrel pm2 mm2 H v1 v2 -> vrel (comp pm1 pm2) (comp mm1 mm2) H v v2) /\
  (forall l l1, vrels pm1 mm1 H l l1 -> forall l2, vrels pm2 mm2 H l1 l2 -> vrels (comp pm1 pm2) (comp mm1 mm2) H l l2).
Proof.
  apply vrel_vrels_ind; intros;
    try match goal with Hx : vrel pm2 mm2 H _ _ |- _ => inversion Hx; subst; clear Hx end;
    try match goal with Hx : vrels pm2 mm2 H _ _ |- vrels _ _ _ _ _ => inversion Hx; subst; clear Hx end;
    try (constructor; auto; fail).
  - constructor. apply in_comp. eauto.
  - constructor. apply in_comp. eauto.
  - match goal with A : hget H (s_arr s') = Some (OArr ?e1), B : hget H (s_arr s') = Some (OArr ?e2) |- _ =>
      rewrite A in B; inversion B; subst end.
    eapply vr_slice; eauto; congruence.
Qed.

Lemma kvrels_comp l l1 : kvrels pm1 mm1 H l l1 -> forall l2, kvrels pm2 mm2 H l1 l2 ->
  kvrels (comp pm1 pm2) (comp mm1 mm2) H l l2.
Proof.
  induction 1; intros l2 Hx; inversion Hx; subst; constructor; auto; eapply (proj1 vrel_comp); eauto.
Qed.

Lemma bisim_comp : bisim pm1 mm1 H -> bisim pm2 mm2 H -> bisim (comp pm1 pm2) (comp mm1 mm2) H.
Proof.
  intros [Bp1 Bm1] [Bp2 Bm2]. split.
  - intros a c Hin. apply in_comp in Hin as (b & H1 & H2).
    destruct (Bp1 a b H1) as (x & x1 & G1 & G2 & R1). destruct (Bp2 b c H2) as (y & y2 & G3 & G4 & R2).
    rewrite G2 in G3. inversion G3; subst. exists x, y2. split; [auto|split; [auto|]].
    eapply (proj1 vrel_comp); eauto.
  - intros a c Hin. apply in_comp in Hin as (b & H1 & H2).
    destruct (Bm1 a b H1) as (x & x1 & G1 & G2 & R1). destruct (Bm2 b c H2) as (y & y2 & G3 & G4 & R2).
    rewrite G2 in G3. inversion G3; subst. exists x, y2. split; [auto|split; [auto|]].
    eapply kvrels_comp; eauto.
Qed.

End Comp.

Lemma bisim_mono pm mm H H' : (forall a o, hget H a = Some o -> hget H' a = Some o) ->
  bisim pm mm H -> bisim pm mm H'.
Proof.
  intros Hm [Bp Bm]. split.
  - intros a a' Hin. destruct (Bp a a' Hin) as (x & x' & G1 & G2 & R). exists x, x'.
    split; [auto|split; [auto|]]. eapply vrel_mono; [| | |exact R]; auto using incl_refl.
  - intros a a' Hin. destruct (Bm a a' Hin) as (x & x' & G1 & G2 & R). exists x, x'.
    split; [auto|split; [auto|]]. eapply kvrels_mono; [| | |exact R]; auto using incl_refl.
Qed.

Theorem config_on_graphs_partial_l : forall fuel fs h n0 defaults H N d vs,
  wf_heap h n0 -> defaults < n0 ->
  config_h fuel fs h n0 defaults [mk_event [] []] = Done ((H, N), d, vs) ->
  exists v pm mm, vs = [v] /\
    (* the returned config is bisimilar to the caller's defaults ... *)
    vrel pm mm H (HPtr (Some defaults)) (HPtr (Some (v_root v))) /\ bisim pm mm H /\
    (* ... allocated by this call, and the caller's graph is untouched *)
    (forall a, reach H [(RCell, v_root v)] a -> n0 <= a /\ hget h a = None) /\
    (forall a o, hget h a = Some o -> hget H a = Some o).
Proof.
  intros fuel fs h n0 defaults H N d vs Hwf Hdef Hc.
  destruct (versions_pairwise_disjoint_l fuel fs h n0 defaults _ H N d vs Hwf Hdef Hc) as (_ & _ & Hsub).
  unfold config_h in Hc.
  apply rbind_done in Hc as [[st1 v1] [H1 Hc]]. simpl in Hc.
  destruct v1 as [ | [d1|] | | | | | | | ]; try discriminate.
  apply rbind_done in Hc as [[hs2 vs2] [H2 Hc]]. simpl in Hc. inversion Hc; subst. clear Hc.
  simpl in H2. unfold compose_h in H2.
  apply rbind_done in H2 as [[[hs3 d3] ] [H2 H3]].
  apply rbind_done in H2 as [[st2 v2] [H2 H4]]. simpl in H4.
  destruct v2 as [ | [d2|] | | | | | | | ]; try discriminate.
  simpl in H4. inversion H4; subst. clear H4. simpl in H3. inversion H3; subst. clear H3.
  (* first copy *)
  assert (Hb : refs_below n0 (refs (HPtr (Some defaults)))) by (intros k b [E|[]]; inversion E; subst; auto).
  destruct (deep_copy_bisimilar_l h n0 _ fuel st1 _ Hwf Hb H1) as [R1 B1].
  pose proof (deep_copy_cinv h n0 Hwf fuel (h, n0) defaults st1 _ (cinv_init h n0 Hwf) Hdef H1) as (C1 & L1 & F1).
  apply fresh_ptr in F1. simpl in L1.
  pose proof (cinv_wf _ _ _ Hwf C1) as Hwf1. simpl in Hwf1.
  (* second copy, on the heap the first one left *)
  assert (Hb1 : refs_below (c_next st1) (refs (HPtr (Some d)))) by (intros k b [E|[]]; inversion E; subst; lia).
  destruct (deep_copy_bisimilar_l _ _ _ fuel st2 _ Hwf1 Hb1 H2) as [R2 B2].
  pose proof (deep_copy_cinv _ _ Hwf1 fuel (c_heap st1, c_next st1) d st2 _ (cinv_init _ _ Hwf1) (proj2 F1) H2) as (C2 & L2 & F2).
  apply fresh_ptr in F2. simpl in L2.
  assert (Hm : forall x o, hget (c_heap st1) x = Some o -> hget (c_heap st2) x = Some o).
  { intros x o G. rewrite (c_frame _ _ _ C2); auto. apply Hwf1 in G. tauto. }
  eexists. exists (comp (c_pm st1) (c_pm st2)), (comp (c_mm st1) (c_mm st2)).
  split; [reflexivity|]. simpl. split; [|split; [|split]].
  - eapply (proj1 (vrel_comp _ _ _ _ _)); [|exact R2].
    eapply vrel_mono; [| | |exact R1]; auto using incl_refl.
  - apply bisim_comp; auto. eapply bisim_mono; eauto.
  - intros y Hr. simpl in Hr.
    assert (Ha : c_next st1 <= y < c_next st2).
    { eapply reach_closed; [|exact Hr|].
      - intros x o Hx Hge _. apply (c_region _ _ _ C2 x o Hx Hge).
      - intros k b [E|[]]. inversion E; subst. auto. }
    split; [lia|]. destruct (hget h y) eqn:G; auto. apply Hwf in G. lia.
  - exact Hsub.
Qed.

Theorem config_on_graphs_partial_b : forall fuel fs h n0 defaults H N d vs,
  wf_heapb h n0 = true -> defaults <? n0 = true ->
  config_h fuel fs h n0 defaults [mk_event [] []] = Done ((H, N), d, vs) ->
  exists v pm mm, vs = [v] /\
    vrel pm mm H (HPtr (Some defaults)) (HPtr (Some (v_root v))) /\ bisim pm mm H /\
    (forall a, reach H [(RCell, v_root v)] a -> n0 <= a /\ hget h a = None) /\
    (forall a o, hget h a = Some o -> hget H a = Some o).
Proof.
  intros fuel fs h n0 defaults H N d vs G1 G2 Hc.
  apply (config_on_graphs_partial_l fuel fs h n0 defaults H N d vs); auto.
  - apply wf_heapb_ok; auto.
  - apply N.ltb_lt; auto.
Qed.

(* ---- the Config path on graphs, in full for the memory part: both copies
   terminate and succeed.  The entry copy does so by deep_copy_succeeds; its
   output satisfies the guards again (Copy/DeepCopyGuard.v: new backing arrays
   inherit the rank of the array they were copied from), so compose's copy of
   the pristine copy does too - with the fuel bound taken at the allocator
   position n1 the entry copy left (the second copy's input heap has n1
   addresses). ---- *)
From Dials Require Import Copy.DeepCopyTotal Copy.DeepCopyGuard.

Theorem config_on_graphs_l : forall fuel fs h n0 R D rk defaults,
  wf_heap h n0 -> wf_rank h R D rk -> wf_kinds h ->
  wf_root n0 R D rk (HPtr (Some defaults)) -> vok h (HPtr (Some defaults)) ->
  (copy_fuel n0 R D <= fuel)%nat ->
  exists st1 d,
    (* the entry copy returns ... *)
    deep_copy true fuel h n0 (HPtr (Some defaults)) = Done (st1, HPtr (Some d)) /\
    (* ... and, with fuel for a heap of c_next st1 addresses, so does the whole call *)
    ((copy_fuel (c_next st1) R D <= fuel)%nat ->
     exists H N v pm mm,
       config_h fuel fs h n0 defaults [mk_event [] []] = Done ((H, N), d, [v]) /\
       vrel pm mm H (HPtr (Some defaults)) (HPtr (Some (v_root v))) /\ bisim pm mm H /\
       (forall a, reach H [(RCell, v_root v)] a -> n0 <= a /\ hget h a = None) /\
       (forall a o, hget h a = Some o -> hget H a = Some o)).
Proof.
  intros fuel fs h n0 R D rk defaults Hwf Hrk Hk Hroot V Hf.
  destruct (deep_copy_succeeds_P h n0 R D rk _ fuel Hwf Hrk Hk Hroot V Hf) as (st1 & v1 & H1).
  assert (Hb : refs_below n0 (refs (HPtr (Some defaults)))) by (apply Hroot).
  assert (Hdef : defaults < n0) by (apply (Hb RCell defaults); simpl; auto).
  destruct (deep_copy_bisimilar_l h n0 _ fuel st1 v1 Hwf Hb H1) as [R1 _].
  inversion R1; subst. rename a' into d.
  exists st1, d. split; [exact H1|]. intro Hf2.
  destruct (deep_copy_guard_l h n0 R D rk _ fuel st1 _ Hwf Hrk Hk Hroot V H1) as (rk1 & Hwf1 & Hrk1 & Hk1 & Hroot1 & V1).
  destruct (deep_copy_succeeds_P _ _ R D rk1 _ fuel Hwf1 Hrk1 Hk1 Hroot1 V1 Hf2) as (st2 & v2 & H2).
  assert (Hb1 : refs_below (c_next st1) (refs (HPtr (Some d)))) by (apply Hroot1).
  destruct (deep_copy_bisimilar_l _ _ _ fuel st2 v2 Hwf1 Hb1 H2) as [R2 _].
  inversion R2; subst. rename a' into d2.
  assert (Hc : config_h fuel fs h n0 defaults [mk_event [] []] =
               Done ((c_heap st2, c_next st2), d, [mk_version d2 (c_next st1) (c_next st2)])).
  { unfold config_h. rewrite H1. simpl. unfold compose_h. rewrite H2. reflexivity. }
  destruct (config_on_graphs_partial_l fuel fs h n0 defaults _ _ d _ Hwf Hdef Hc) as (v & pm & mm & Ev & Q1 & Q2 & Q3 & Q4).
  inversion Ev; subst v.
  exists (c_heap st2), (c_next st2), (mk_version d2 (c_next st1) (c_next st2)), pm, mm.
  split; [exact Hc|]. auto.
Qed.

Theorem config_on_graphs_b : forall fuel fs h n0 R D rk defaults,
  c03_guard_total h n0 R D rk (HPtr (Some defaults)) = true ->
  (copy_fuel n0 R D <= fuel)%nat ->
  exists st1 d,
    deep_copy true fuel h n0 (HPtr (Some defaults)) = Done (st1, HPtr (Some d)) /\
    ((copy_fuel (c_next st1) R D <= fuel)%nat ->
     exists H N v pm mm,
       config_h fuel fs h n0 defaults [mk_event [] []] = Done ((H, N), d, [v]) /\
       vrel pm mm H (HPtr (Some defaults)) (HPtr (Some (v_root v))) /\ bisim pm mm H /\
       (forall a, reach H [(RCell, v_root v)] a -> n0 <= a /\ hget h a = None) /\
       (forall a o, hget h a = Some o -> hget H a = Some o)).
Proof.
  intros fuel fs h n0 R D rk defaults G Hf. unfold c03_guard_total in G.
  apply andb_true_iff in G as [G G3]. apply andb_true_iff in G as [G1 G2].
  unfold c03_guard in G1. apply andb_true_iff in G1 as [G1 Gr]. apply andb_true_iff in G1 as [Gw Grk].
  unfold root_kindsb in G3. apply andb_true_iff in G3 as [G3 C]. apply andb_true_iff in G3 as [A B].
  apply (config_on_graphs_l fuel fs h n0 R D rk defaults); auto using wf_heapb_ok, wf_rankb_ok, wf_rootb_ok, wf_kindsb_ok.
  split; [auto|split; auto].
Qed.
