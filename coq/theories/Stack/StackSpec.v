(* Specification of stacking (property C01), independent of cursors: each
   config field is paired with the layer field OF THE SAME NAME; leaves take
   the value of the last layer that set them, else the default; structs and
   pointers to structs merge field by field; skipped fields keep the default. *)
From Coq Require Import List NArith ZArith Bool.
From Dials Require Import Base.Outcome Base.Runes Reflect.Ty Reflect.Ptrify Stack.Overlay.
Import ListNotations.
Open Scope N_scope.

(* value of the field called `n` in a layer whose field names are `names` *)
Fixpoint by_name (n : str) (names : list str) (vs : list val) : val :=
  match names, vs with
  | m :: names', v :: vs' => if str_eqb n m then v else by_name n names' vs'
  | _, _ => VNil
  end.

Fixpoint last_set (lvs : list val) : option val :=
  match lvs with
  | [] => None
  | v :: r => match last_set r with Some x => Some x | None => if is_vnil v then None else Some v end
  end.

(* the pointerified field of a scalar / array / TextU struct holds a pointer
   to the value; slices, maps and user pointers are held as they are *)
Definition wrapped (t : ty) : bool :=
  match t with TBasic _ _ | TTextU _ _ | TArray _ _ => true | _ => false end.

Definition unwrap (t : ty) (lv : val) : val :=
  if wrapped t then match lv with VPtr x => x | _ => lv end else lv.

Definition sub_layers (lvs : list val) : list (list val) :=
  flat_map (fun v => match v with VPtr (VStruct vs) => [vs] | _ => [] end) lvs.

Fixpoint stack_field (t : ty) (b : val) (lvs : list val) {struct t} : val :=
  match t with
  | TStruct fs _ =>
      match b with
      | VStruct bvs => VStruct (stack_fields fs bvs (field_names (ptrify_fields fs)) (sub_layers lvs))
      | _ => b
      end
  | TPtr (TStruct fs _) =>
      match b, sub_layers lvs with
      | VNil, [] => VNil
      | VNil, subs => VPtr (VStruct (stack_fields fs (zero_fields fs) (field_names (ptrify_fields fs)) subs))
      | VPtr (VStruct bvs), subs => VPtr (VStruct (stack_fields fs bvs (field_names (ptrify_fields fs)) subs))
      | _, _ => b
      end
  | _ => match last_set lvs with Some lv => unwrap t lv | None => b end
  end
with stack_fields (fs : fields) (bvs : list val) (names : list str) (layers : list (list val)) {struct fs}
  : list val :=
  match fs, bvs with
  | FCons n tags _ t r, b :: bvs' =>
      (if omit_field n tags || is_chan_func t then b
       else stack_field t b (map (by_name n names) layers))
      :: stack_fields r bvs' names layers
  | _, _ => []
  end.

Definition stack (fs : fields) (defaults : list val) (layers : list val) : list val :=
  stack_fields fs defaults (field_names (ptrify_fields fs))
    (flat_map (fun l => match layer_fields l with Some vs => [vs] | None => [] end) layers).

(* which types C01 quantifies over: no interface-typed config fields (at the
   level of struct fields; slice/map/array elements are never looked into) *)
Fixpoint supported (t : ty) : bool :=
  match t with
  | TIface => false
  | TStruct fs _ => supported_fields fs
  | TPtr (TStruct fs _) => supported_fields fs
  | _ => true
  end
with supported_fields (fs : fields) : bool :=
  match fs with
  | FNil => true
  | FCons n tags _ t r => (omit_field n tags || supported t) && supported_fields r
  end.
