(* Proofs for C01: the cursor-walking overlay model computes the by-name
   n-ary stacking specification. *)
From Coq Require Import List NArith ZArith Bool Lia.
From Dials Require Import Base.Outcome Base.Runes Reflect.Ty Reflect.Ptrify Stack.Overlay Stack.StackSpec Stack.Spine
  Stack.SelfPtrified.
Import ListNotations.

(* ---- reflexivity of the boolean type equality ---- *)
Lemma kind_eqb_refl k : kind_eqb k k = true.
Proof. destruct k; cbn; try reflexivity; apply N.eqb_refl. Qed.

Lemma tags_eqb_refl l : tags_eqb l l = true.
Proof. induction l as [|[k v] l IH]; cbn; [reflexivity|]. rewrite !str_eqb_refl, IH. reflexivity. Qed.

Lemma bool_eqb_refl b : Bool.eqb b b = true.
Proof. destruct b; reflexivity. Qed.

Lemma ty_fields_eqb_refl :
  (forall t, ty_eqb t t = true) /\ (forall fs, fields_eqb fs fs = true).
Proof.
  apply ty_fields_ind; intros; cbn;
    rewrite ?kind_eqb_refl, ?str_eqb_refl, ?bool_eqb_refl, ?N.eqb_refl, ?tags_eqb_refl; cbn;
    repeat match goal with H : _ = true |- _ => rewrite H; clear H end; reflexivity.
Qed.
Definition ty_eqb_refl := proj1 ty_fields_eqb_refl.
Definition fields_eqb_refl := proj2 ty_fields_eqb_refl.

(* ---- by-name lookup ---- *)
Lemma by_name_skip n pre lpre names vs :
  name_in n pre = false -> length pre = length lpre ->
  by_name n (pre ++ names) (lpre ++ vs) = by_name n names vs.
Proof.
  revert lpre; induction pre as [|m pre IH]; intros [|v lpre] Hn Hl; cbn in *; try discriminate; [reflexivity|].
  apply orb_false_iff in Hn as [Hm Hn]. rewrite Hm. apply IH; [exact Hn|lia].
Qed.

Lemma by_name_head n names v vs : by_name n (n :: names) (v :: vs) = v.
Proof. cbn. rewrite str_eqb_refl. reflexivity. Qed.

Ltac ty_cases :=
  apply ty_fields_ind;
  [intros k name|intros id pr|intros t IH|intros t IH name|intros n t IH|intros kt IHk vt IHv name
  |intros fs IH name| | | | |intros n tags anon t IHt r IHr].

(* ---- zero values have the right spine ---- *)
Lemma spine_zero :
  (forall t, spine t (zero t) = true) /\ (forall fs, spine_fields fs (zero_fields fs) = true).
Proof.
  ty_cases; cbn; try reflexivity.
  - destruct t; reflexivity.
  - exact IH.
  - rewrite IHt, IHr. reflexivity.
Qed.

(* ---- no layers: identity ---- *)
Lemma stack_nil :
  (forall t b, spine t b = true -> stack_field t b [] = b) /\
  (forall fs bvs names, spine_fields fs bvs = true -> stack_fields fs bvs names [] = bvs).
Proof.
  ty_cases; try (intros; reflexivity).
  - (* TPtr *) intros b Hb. destruct t; try reflexivity.
    cbn in Hb. cbn [stack_field sub_layers flat_map].
    destruct b as [| | | | | |bx| | | |]; try discriminate; [reflexivity|].
    destruct bx as [| | | | | | | | |bvs|]; try discriminate.
    specialize (IH (VStruct bvs) Hb). cbn in IH. inversion IH as [E]. rewrite !E. reflexivity.
  - (* TStruct *) intros b Hb. cbn in Hb. destruct b; try discriminate. cbn [stack_field sub_layers flat_map].
    rewrite IH by exact Hb. reflexivity.
  - (* FNil *) intros bvs names Hb. destruct bvs; [reflexivity|discriminate].
  - (* FCons *) intros bvs names Hb. destruct bvs as [|b bvs]; [discriminate|]. cbn in Hb.
    apply andb_true_iff in Hb as [H1 H2].
    cbn [stack_fields map]. rewrite IHr by exact H2. rewrite IHt by exact H1.
    destruct (omit_field n tags || is_chan_func t); reflexivity.
Qed.

(* ---- one layer: the cursor walk computes the by-name merge ---- *)
Lemma chan_func_ptrify t : is_chan_func t = true <-> ptrify_ty t = None.
Proof.
  destruct t; cbn; split; intro H; try discriminate; try reflexivity.
  destruct t; discriminate.
Qed.

Lemma name_in_app n a b : name_in n (a ++ b) = name_in n a || name_in n b.
Proof. induction a as [|m a IH]; cbn; [reflexivity|]. rewrite IH, orb_assoc. reflexivity. Qed.

Definition fresh_for (names pre : list str) : Prop :=
  forall n, name_in n names = true -> name_in n pre = false.

Lemma str_eqb_sym a b : str_eqb a b = str_eqb b a.
Proof.
  destruct (str_eqb a b) eqn:E.
  - apply str_eqb_eq in E. subst. symmetry. apply str_eqb_refl.
  - destruct (str_eqb b a) eqn:E'; [|reflexivity]. apply str_eqb_eq in E'. subst.
    rewrite str_eqb_refl in E. discriminate.
Qed.

Lemma name_in_true n l : name_in n l = true <-> In n l.
Proof.
  induction l as [|m l IH]; cbn; [split; [discriminate|tauto]|].
  rewrite orb_true_iff, IH. split; intros [H|H]; auto.
  - left. apply str_eqb_eq in H. auto.
  - left. subst. apply str_eqb_refl.
Qed.

(* ---- a struct type identical to its own pointerified type: merging a layer
   into the zero struct gives the layer itself ---- *)
Definition self_field (t : ty) : Prop :=
  ptrify_ty t = Some t -> supported t = true -> wf_ty t = true ->
  forall lv, spine t lv = true -> stack_field t (zero t) [lv] = lv.

Definition self_fields (fs : fields) : Prop :=
  ptrify_fields fs = fs -> supported_fields fs = true -> wf_fields fs = true ->
  forall lvs pre lpre, spine_fields fs lvs = true -> length pre = length lpre ->
    fresh_for (field_names fs) pre -> nodup_names (field_names fs) = true ->
    stack_fields fs (zero_fields fs) (pre ++ field_names fs) [lpre ++ lvs] = lvs.

Definition self_ty (t : ty) : Prop :=
  self_field t /\ match t with TStruct fs _ => self_fields fs | _ => True end.

Lemma self_leaf lv : (match last_set [lv] with Some l => l | None => VNil end) = lv.
Proof. cbn. destruct lv; reflexivity. Qed.

Lemma self_ptrified : (forall t, self_ty t) /\ (forall fs, self_fields fs).
Proof.
  ty_cases.
  - split; [|exact I]. intros H. cbn in H. inversion H.
  - split; [|exact I]. intros H. cbn in H. inversion H.
  - (* TPtr *) split; [|exact I]. destruct IH as [_ IHs].
    intros Hp Hsup Hwf lv Hlv.
    destruct t as [k0 n0|i0 p0|t0|t0 n0|n0 t0|k0 v0 n0|fs n0| | |];
      try (cbn [stack_field zero]; unfold unwrap; cbn [wrapped]; apply self_leaf).
    (* pointer to a struct identical to its pointerified form *)
    cbn in Hp. inversion Hp as [[Hfs Hn]]. subst n0.
    cbn [wf_ty] in Hwf. apply andb_true_iff in Hwf as [Hnd Hwf]. cbn [supported] in Hsup. rewrite Hfs in Hnd.
    cbn in Hlv. cbn [stack_field zero].
    destruct lv as [| | | | | |x| | | |]; try discriminate; [reflexivity|].
    destruct x as [| | | | | | | | |lvs|]; try discriminate.
    cbn [sub_layers flat_map app]. rewrite !Hfs.
    specialize (IHs Hfs Hsup Hwf lvs [] [] Hlv eq_refl). cbn [app] in IHs.
    rewrite IHs; [reflexivity|intros m _; reflexivity|exact Hnd].
  - (* TSlice *) split; [|exact I]. intros _ _ _ lv _. cbn [stack_field zero]. unfold unwrap. cbn [wrapped]. apply self_leaf.
  - split; [|exact I]. intros H. cbn in H. inversion H.
  - (* TMap *) split; [|exact I]. intros _ _ _ lv _. cbn [stack_field zero]. unfold unwrap. cbn [wrapped]. apply self_leaf.
  - (* TStruct *) split; [|exact IH]. intros H. cbn in H. inversion H.
  - split; [|exact I]. intros _ H. discriminate.
  - split; [|exact I]. intros H. discriminate.
  - split; [|exact I]. intros H. discriminate.
  - (* FNil *) intros _ _ _ lvs pre lpre Hl _ _ _. destruct lvs; [reflexivity|discriminate].
  - (* FCons *) destruct IHt as [IHt _].
    intros Hp Hsup Hwf lvs pre lpre Hl Hlen Hfresh Hnd.
    destruct (self_ptrified_cons n tags anon t r Hp) as (Hom & Hpt & Hpr).
    cbn in Hsup, Hwf. rewrite Hom in Hsup, Hwf. cbn [orb] in Hsup, Hwf.
    apply andb_true_iff in Hsup as [Hsupt Hsupr]. apply andb_true_iff in Hwf as [Hwft Hwfr].
    destruct lvs as [|lv lvs]; [discriminate|]. cbn in Hl. apply andb_true_iff in Hl as [Hlv Hlvs].
    cbn [field_names nodup_names] in Hnd. apply andb_true_iff in Hnd as [Hnin Hnd]. apply negb_true_iff in Hnin.
    assert (Hcf : is_chan_func t = false).
    { destruct (is_chan_func t) eqn:E; [|reflexivity]. apply chan_func_ptrify in E. congruence. }
    cbn [stack_fields zero_fields field_names map]. rewrite Hom, Hcf. cbn [orb].
    assert (Hpre : name_in n pre = false) by (apply Hfresh; cbn; rewrite str_eqb_refl; reflexivity).
    rewrite (by_name_skip n pre lpre _ _ Hpre Hlen), by_name_head.
    rewrite (IHt Hpt Hsupt Hwft lv Hlv). f_equal.
    specialize (IHr Hpr Hsupr Hwfr lvs (pre ++ [n]) (lpre ++ [lv]) Hlvs).
    rewrite <- !app_assoc in IHr. cbn [app] in IHr. apply IHr; [rewrite !app_length; cbn; lia| |exact Hnd].
    intros m Hm. rewrite name_in_app. cbn. rewrite orb_false_r.
    rewrite (Hfresh m) by (cbn; rewrite Hm; apply orb_true_r). cbn.
    destruct (str_eqb m n) eqn:E; [|reflexivity]. apply str_eqb_eq in E. subst m. congruence.
Qed.

Definition one_layer_field (t : ty) : Prop :=
  forall b lv pt, wf_ty t = true -> supported t = true -> ptrify_ty t = Some pt ->
    spine t b = true -> spine pt lv = true ->
    overlay_field t b pt lv = Ok (stack_field t b [lv]) /\ spine t (stack_field t b [lv]) = true.

Definition one_layer_fields (fs : fields) : Prop :=
  forall bvs lvs pre lpre, wf_fields fs = true -> supported_fields fs = true ->
    spine_fields fs bvs = true -> spine_fields (ptrify_fields fs) lvs = true ->
    length pre = length lpre ->
    fresh_for (field_names (ptrify_fields fs)) pre ->
    nodup_names (field_names (ptrify_fields fs)) = true ->
    overlay_struct fs bvs (ptrify_fields fs) lvs
    = Ok (stack_fields fs bvs (pre ++ field_names (ptrify_fields fs)) [lpre ++ lvs]) /\
    spine_fields fs (stack_fields fs bvs (pre ++ field_names (ptrify_fields fs)) [lpre ++ lvs]) = true.

Lemma one_layer_leaf_wrapped t b lv :
  wrapped t = true -> spine (TPtr t) lv = true ->
  (forall x, overlay_field t b (TPtr t) (VPtr x) = if ty_eqb t t then Ok x else Panic 3) ->
  overlay_field t b (TPtr t) VNil = Ok b ->
  overlay_field t b (TPtr t) lv = Ok (stack_field t b [lv]) /\ spine t (stack_field t b [lv]) = true.
Proof.
  intros Hw Hs Hx Hn. split; [|destruct t; try discriminate; reflexivity].
  assert (Hsf : stack_field t b [lv] = match last_set [lv] with Some l => unwrap t l | None => b end).
  { destruct t; try discriminate; reflexivity. }
  rewrite Hsf. unfold unwrap. rewrite Hw.
  destruct t; try discriminate; cbn in Hs; destruct lv; try discriminate; cbn [last_set is_vnil];
    try exact Hn; rewrite Hx, ty_eqb_refl; reflexivity.
Qed.

Definition one_layer_ty (t : ty) : Prop :=
  one_layer_field t /\ match t with TStruct fs _ => one_layer_fields fs | _ => True end.

Lemma obind_ok {A B} (a : A) (f : A -> outcome B) : obind (Ok a) f = f a.
Proof. reflexivity. Qed.

Lemma struct_case fs name :
  one_layer_fields fs -> one_layer_field (TStruct fs name).
Proof.
  intros Q b lv pt Hwf Hsup Hpt Hb Hlv. cbn in Hpt. inversion Hpt; subst pt. clear Hpt.
  cbn in Hwf, Hsup, Hb. apply andb_true_iff in Hwf as [Hnd Hwf].
  destruct b as [| | | | | | | | |bvs|]; try discriminate.
  cbn in Hlv. destruct lv as [| | | | | |x| | | |]; try discriminate.
  - (* unset *) cbn. rewrite (proj2 stack_nil) by exact Hb. split; [reflexivity|exact Hb].
  - destruct x as [| | | | | | | | |lvs|]; try discriminate.
    cbn [overlay_field nilable_kind is_vnil andb].
    destruct (Q bvs lvs [] [] Hwf Hsup Hb Hlv eq_refl) as [E S]; [intros n _; reflexivity|exact Hnd|].
    rewrite E. split; [reflexivity|exact S].
Qed.

Lemma one_layer : (forall t, one_layer_ty t) /\ (forall fs, one_layer_fields fs).
Proof.
  ty_cases.
  - (* TBasic *) split; [|exact I]. intros b lv pt _ _ Hpt _ Hlv. cbn in Hpt. inversion Hpt; subst pt.
    apply one_layer_leaf_wrapped; [reflexivity|exact Hlv|intros x; reflexivity|reflexivity].
  - (* TTextU *) split; [|exact I]. intros b lv pt _ _ Hpt _ Hlv. cbn in Hpt. inversion Hpt; subst pt.
    apply one_layer_leaf_wrapped; [reflexivity|exact Hlv|intros x; reflexivity|reflexivity].
  - (* TPtr *) split; [|exact I]. destruct IH as [IHf IHs].
    intros b lv pt Hwf Hsup Hpt Hb Hlv.
    destruct t as [k0 n0|i0 p0|t0|t0 n0|n0 t0|k0 v0 n0|fs n0| | |].
    7: { (* pointer to struct *)
      cbn in Hpt. inversion Hpt; subst pt. clear Hpt.
      pose proof Hwf as Hwf0. pose proof Hsup as Hsup0.
      cbn [wf_ty] in Hwf. apply andb_true_iff in Hwf as [Hnd Hwf].
      cbn [supported] in Hsup.
      cbn in Hb, Hlv.
      destruct lv as [| | | | | |x| | | |]; try discriminate.
      { (* unset *) cbn [overlay_field nilable_kind is_vnil andb].
        destruct b as [| | | | | |bx| | | |]; try discriminate; [split; reflexivity|].
        destruct bx as [| | | | | | | | |bvs|]; try discriminate.
        cbn [stack_field sub_layers flat_map]. rewrite (proj2 stack_nil) by exact Hb.
        split; [reflexivity|exact Hb]. }
      destruct x as [| | | | | | | | |lvs|]; try discriminate.
      destruct b as [| | | | | |bx| | | |]; try discriminate.
      - (* base nil *)
        cbn [overlay_field nilable_kind is_vnil andb].
        destruct (ty_eqb (TStruct fs n0) (TStruct (ptrify_fields fs) [])) eqn:Hne.
        { (* identical types: the layer's pointer is assigned directly *)
          apply ty_eqb_eq in Hne. injection Hne as Hfs Hn. subst n0.
          assert (Hself : stack_field (TPtr (TStruct fs [])) VNil [VPtr (VStruct lvs)] = VPtr (VStruct lvs)).
          { apply (proj1 (proj1 self_ptrified (TPtr (TStruct fs [])))); [cbn; rewrite <- Hfs; reflexivity|exact Hsup0|exact Hwf0|].
            cbn. rewrite Hfs. exact Hlv. }
          rewrite Hself. split; [reflexivity|]. cbn. rewrite Hfs. exact Hlv. }
        (* different types: allocate and merge into the zero struct *)
        destruct (IHs (zero_fields fs) lvs [] [] Hwf Hsup (proj2 spine_zero fs) Hlv eq_refl) as [E S];
          [intros n _; reflexivity|exact Hnd|].
        rewrite E. split; [reflexivity|exact S].
      - destruct bx as [| | | | | | | | |bvs|]; try discriminate.
        cbn [overlay_field nilable_kind is_vnil andb].
        destruct (IHs bvs lvs [] [] Hwf Hsup Hb Hlv eq_refl) as [E S]; [intros n _; reflexivity|exact Hnd|].
        rewrite E. split; [reflexivity|exact S]. }
    all: cbn in Hpt; inversion Hpt; subst pt; clear Hpt; cbn in Hb, Hlv;
      destruct lv as [| | | | | |x| | | |]; try discriminate;
      destruct b as [| | | | | |bx| | | |]; try discriminate;
      cbn [overlay_field nilable_kind is_vnil andb stack_field last_set unwrap wrapped];
      rewrite ?ty_eqb_refl; split; reflexivity.
  - (* TSlice *) split; [|exact I]. intros b lv pt _ _ Hpt _ _. cbn in Hpt. inversion Hpt; subst pt.
    destruct lv; cbn [overlay_field nilable_kind is_vnil andb stack_field last_set unwrap wrapped];
      rewrite ?ty_eqb_refl; split; reflexivity.
  - (* TArray *) split; [|exact I]. intros b lv pt _ _ Hpt _ Hlv. cbn in Hpt. inversion Hpt; subst pt.
    apply one_layer_leaf_wrapped; [reflexivity|exact Hlv|intros x; reflexivity|reflexivity].
  - (* TMap *) split; [|exact I]. intros b lv pt _ _ Hpt _ _. cbn in Hpt. inversion Hpt; subst pt.
    destruct lv; cbn [overlay_field nilable_kind is_vnil andb stack_field last_set unwrap wrapped];
      rewrite ?ty_eqb_refl; split; reflexivity.
  - (* TStruct *) split; [apply struct_case; exact IH|exact IH].
  - (* TIface *) split; [|exact I]. intros b lv pt _ Hsup. discriminate.
  - (* TChan *) split; [|exact I]. intros b lv pt _ _ Hpt. discriminate.
  - (* TFunc *) split; [|exact I]. intros b lv pt _ _ Hpt. discriminate.
  - (* FNil *) intros bvs lvs pre lpre _ _ Hb Hl _ _ _. destruct bvs; [split; reflexivity|discriminate].
  - (* FCons *) destruct IHt as [IHt _].
    intros bvs lvs pre lpre Hwf Hsup Hb Hl Hlen Hfresh Hnd.
    destruct bvs as [|bv bvs]; [discriminate|]. cbn in Hb. apply andb_true_iff in Hb as [Hbv Hbvs].
    cbn in Hwf, Hsup. apply andb_true_iff in Hwf as [Hwft Hwfr]. apply andb_true_iff in Hsup as [Hsupt Hsupr].
    cbn [overlay_struct stack_fields].
    destruct (omit_field n tags) eqn:Hom.
    + (* omitted: keeps the default, consumes no layer field *)
      cbn [ptrify_fields] in *. rewrite Hom in *. cbn [orb].
      destruct (IHr bvs lvs pre lpre Hwfr Hsupr Hbvs Hl Hlen Hfresh Hnd) as [E S]. rewrite E.
      split; [reflexivity|]. cbn [spine_fields]. rewrite Hbv, S. reflexivity.
    + cbn [orb] in *. destruct (is_chan_func t) eqn:Hcf.
      * pose proof (proj1 (chan_func_ptrify t) Hcf) as Hnone.
        cbn [ptrify_fields] in *. rewrite Hom, Hnone in *.
        destruct (IHr bvs lvs pre lpre Hwfr Hsupr Hbvs Hl Hlen Hfresh Hnd) as [E S]. rewrite E.
        split; [reflexivity|]. cbn [spine_fields]. rewrite Hbv, S. reflexivity.
      * destruct (ptrify_ty t) as [pt|] eqn:Hpt;
          [|apply chan_func_ptrify in Hpt; congruence].
        cbn [ptrify_fields] in *. rewrite Hom, Hpt in *.
        destruct lvs as [|lv lvs]; [discriminate|]. cbn in Hl. apply andb_true_iff in Hl as [Hlv Hlvs].
        cbn [field_names] in *. cbn [nodup_names] in Hnd. apply andb_true_iff in Hnd as [Hnin Hnd].
        apply negb_true_iff in Hnin.
        destruct (IHt bv lv pt Hwft Hsupt Hpt Hbv Hlv) as [Et St]. rewrite Et, obind_ok.
        assert (Hpre : name_in n pre = false).
        { apply Hfresh. cbn. rewrite str_eqb_refl. reflexivity. }
        cbn [map]. rewrite (by_name_skip n pre lpre _ _ Hpre Hlen), by_name_head.
        specialize (IHr bvs lvs (pre ++ [n]) (lpre ++ [lv]) Hwfr Hsupr Hbvs Hlvs).
        rewrite <- !app_assoc in IHr. cbn [app] in IHr.
        destruct IHr as [E S]; [| |exact Hnd|].
        -- rewrite !app_length. cbn. lia.
        -- intros m Hm. rewrite name_in_app. cbn. rewrite orb_false_r.
           rewrite (Hfresh m) by (cbn; rewrite Hm; apply orb_true_r). cbn.
           destruct (str_eqb m n) eqn:E; [|reflexivity]. apply str_eqb_eq in E. subst m. congruence.
        -- rewrite E. split; [reflexivity|]. cbn [spine_fields]. rewrite St, S. reflexivity.
Qed.

(* ---- layers compose: stacking l1 ++ l2 = stacking l2 over the result of l1 ---- *)
Lemma last_set_app a b :
  last_set (a ++ b) = match last_set b with Some x => Some x | None => last_set a end.
Proof.
  induction a as [|v a IH]; cbn.
  - destruct (last_set b); reflexivity.
  - rewrite IH. destruct (last_set b); reflexivity.
Qed.

Lemma sub_layers_app a b : sub_layers (a ++ b) = sub_layers a ++ sub_layers b.
Proof. unfold sub_layers. apply flat_map_app. Qed.

Definition app_field (t : ty) : Prop :=
  forall b l1 l2, stack_field t b (l1 ++ l2) = stack_field t (stack_field t b l1) l2.
Definition app_fields (fs : fields) : Prop :=
  forall bvs names l1 l2,
    stack_fields fs bvs names (l1 ++ l2) = stack_fields fs (stack_fields fs bvs names l1) names l2.
Definition app_ty (t : ty) : Prop :=
  app_field t /\ match t with TStruct fs _ => app_fields fs | _ => True end.

Lemma app_leaf t :
  (forall b l, stack_field t b l = match last_set l with Some lv => unwrap t lv | None => b end) ->
  app_field t.
Proof.
  intros H b l1 l2. rewrite !H, last_set_app. destruct (last_set l2); reflexivity.
Qed.

Lemma stack_app : (forall t, app_ty t) /\ (forall fs, app_fields fs).
Proof.
  ty_cases; try (split; [apply app_leaf; intros; reflexivity|exact I]).
  - (* TPtr *) split; [|exact I]. destruct t; try (apply app_leaf; intros; reflexivity).
    destruct IH as [_ IH]. intros b l1 l2.
    cbn [stack_field]. rewrite sub_layers_app.
    destruct b as [| | | | | |bx| | | |]; try reflexivity.
    + (* nil base *)
      destruct (sub_layers l1) as [|s1 r1].
      * cbn [app]. reflexivity.
      * cbn [app].
        change (s1 :: r1 ++ sub_layers l2) with ((s1 :: r1) ++ sub_layers l2).
        rewrite (IH (zero_fields fs) _ (s1 :: r1) (sub_layers l2)).
        destruct (sub_layers l2); reflexivity.
    + destruct bx as [| | | | | | | | |bvs|]; try reflexivity.
      rewrite (IH bvs _ (sub_layers l1) (sub_layers l2)). reflexivity.
  - (* TStruct *) split; [|exact IH]. intros b l1 l2. cbn [stack_field]. rewrite sub_layers_app.
    destruct b; try reflexivity. rewrite IH. reflexivity.
  - (* FNil *) intros bvs names l1 l2. reflexivity.
  - (* FCons *) destruct IHt as [IHt _]. intros bvs names l1 l2.
    destruct bvs as [|b bvs]; [reflexivity|]. cbn [stack_fields].
    rewrite IHr. rewrite map_app.
    destruct (omit_field n tags || is_chan_func t); [reflexivity|]. rewrite IHt. reflexivity.
Qed.

(* ---- compose = the n-ary by-name specification ---- *)
Definition layers_of (ls : list val) : list (list val) :=
  flat_map (fun l => match layer_fields l with Some vs => [vs] | None => [] end) ls.

Definition cfg_ok (fs : fields) : bool :=
  wf_fields fs && supported_fields fs && nodup_names (field_names (ptrify_fields fs)).

Lemma compose_eq_stack_l fs : cfg_ok fs = true ->
  forall ls cur, spine_fields fs cur = true -> forallb (layer_ok fs) ls = true ->
  compose fs cur ls = Ok (stack fs cur ls) /\ spine_fields fs (stack fs cur ls) = true.
Proof.
  intros Hok. unfold cfg_ok in Hok. apply andb_true_iff in Hok as [Hok Hnd]. apply andb_true_iff in Hok as [Hwf Hsup].
  induction ls as [|l rest IH]; intros cur Hcur Hls.
  - unfold stack. cbn. rewrite (proj2 stack_nil) by exact Hcur. split; [reflexivity|exact Hcur].
  - cbn in Hls. apply andb_true_iff in Hls as [Hl Hrest].
    unfold layer_ok in Hl. cbn [compose]. destruct (layer_fields l) as [lvs|] eqn:El; [|discriminate].
    destruct (proj2 one_layer fs cur lvs [] [] Hwf Hsup Hcur Hl eq_refl) as [E S];
      [intros n _; reflexivity|exact Hnd|].
    cbn [app] in E, S. rewrite E, obind_ok.
    destruct (IH _ S Hrest) as [E' S'].
    assert (Hst : stack fs cur (l :: rest) =
                  stack fs (stack_fields fs cur (field_names (ptrify_fields fs)) [lvs]) rest).
    { unfold stack. cbn [flat_map]. rewrite El.
      change ([lvs] ++ ?x) with ([lvs] ++ x). rewrite (proj2 stack_app). reflexivity. }
    rewrite Hst. split; assumption.
Qed.

(* a layer that sets nothing *)
Definition all_unset (l : val) : bool :=
  match layer_fields l with Some vs => forallb is_vnil vs | None => false end.

Lemma by_name_unset n names vs : forallb is_vnil vs = true -> by_name n names vs = VNil.
Proof.
  revert vs; induction names as [|m names IH]; intros [|v vs] H; cbn in *; try reflexivity.
  apply andb_true_iff in H as [Hv Hvs]. destruct (str_eqb n m); [destruct v; try discriminate; reflexivity|].
  apply IH, Hvs.
Qed.

Lemma last_set_drop_nil a b : last_set (a ++ VNil :: b) = last_set (a ++ b).
Proof. rewrite !last_set_app. cbn. destruct (last_set b); reflexivity. Qed.

Lemma sub_layers_drop_nil a b : sub_layers (a ++ VNil :: b) = sub_layers (a ++ b).
Proof. rewrite !sub_layers_app. reflexivity. Qed.

Lemma stack_field_drop_nil t b l1 l2 : stack_field t b (l1 ++ VNil :: l2) = stack_field t b (l1 ++ l2).
Proof.
  destruct t; cbn [stack_field]; rewrite ?last_set_drop_nil, ?sub_layers_drop_nil; reflexivity.
Qed.

Lemma stack_fields_drop_unset fs : forall bvs names l1 vs l2, forallb is_vnil vs = true ->
  stack_fields fs bvs names (l1 ++ vs :: l2) = stack_fields fs bvs names (l1 ++ l2).
Proof.
  induction fs as [|n tags anon t r IH]; intros bvs names l1 vs l2 Hvs; [reflexivity|].
  destruct bvs as [|b bvs]; [reflexivity|]. cbn [stack_fields]. rewrite IH by exact Hvs.
  rewrite !map_app. cbn [map]. rewrite (by_name_unset n names vs Hvs), stack_field_drop_nil. reflexivity.
Qed.

Lemma layers_of_app a b : layers_of (a ++ b) = layers_of a ++ layers_of b.
Proof. unfold layers_of. apply flat_map_app. Qed.

Lemma stack_unset_layer_id_l fs d ls1 l ls2 : all_unset l = true ->
  stack fs d (ls1 ++ l :: ls2) = stack fs d (ls1 ++ ls2).
Proof.
  intros H. unfold all_unset in H. destruct (layer_fields l) as [vs|] eqn:E; [|discriminate].
  unfold stack. fold (layers_of (ls1 ++ l :: ls2)). fold (layers_of (ls1 ++ ls2)).
  rewrite !layers_of_app. unfold layers_of at 2. cbn [flat_map]. rewrite E. cbn [app].
  apply stack_fields_drop_unset, H.
Qed.

(* skipped fields keep the default, whatever the layers contain *)
Fixpoint nth_field (i : nat) (fs : fields) : option (str * list (str * str) * ty) :=
  match fs, i with
  | FNil, _ => None
  | FCons n tags _ t _, O => Some (n, tags, t)
  | FCons _ _ _ _ r, S j => nth_field j r
  end.

Lemma stack_skipped_frame_l fs : forall i bvs names layers n tags t,
  nth_field i fs = Some (n, tags, t) -> omit_field n tags || is_chan_func t = true ->
  length bvs = fields_len fs ->
  nth_error (stack_fields fs bvs names layers) i = nth_error bvs i.
Proof.
  induction fs as [|n0 tags0 anon0 t0 r IH]; intros i bvs names layers n tags t Hn Hs Hl; [destruct i; discriminate|].
  destruct bvs as [|b bvs]; [cbn in Hl; discriminate|]. cbn in Hl. cbn [stack_fields].
  destruct i as [|j]; cbn in Hn |- *.
  - inversion Hn; subst. rewrite Hs. reflexivity.
  - apply (IH j bvs names layers n tags t Hn Hs). lia.
Qed.

(* a retained leaf (anything but a struct or pointer to struct) takes the
   value of the LAST layer in which the same-named field is set, else the default *)
Definition is_leaf (t : ty) : bool :=
  match t with TStruct _ _ => false | TPtr (TStruct _ _) => false | _ => true end.

Lemma stack_leaf_last_wins_l fs : forall i bvs names layers n tags t b,
  nth_field i fs = Some (n, tags, t) -> omit_field n tags || is_chan_func t = false -> is_leaf t = true ->
  nth_error bvs i = Some b -> length bvs = fields_len fs ->
  nth_error (stack_fields fs bvs names layers) i =
  Some (match last_set (map (by_name n names) layers) with Some lv => unwrap t lv | None => b end).
Proof.
  induction fs as [|n0 tags0 anon0 t0 r IH]; intros i bvs names layers n tags t b Hn Hs Hleaf Hb Hl; [destruct i; discriminate|].
  destruct bvs as [|b0 bvs]; [cbn in Hl; discriminate|]. cbn in Hl. cbn [stack_fields].
  destruct i as [|j]; cbn in Hn, Hb |- *.
  - inversion Hn; subst. inversion Hb; subst. rewrite Hs.
    destruct t; try discriminate; try reflexivity. destruct t; try discriminate; reflexivity.
  - apply (IH j bvs names layers n tags t b Hn Hs Hleaf Hb). lia.
Qed.

(* nested structs merge field by field: the struct-typed field of the result
   is the stack of the sub-layers (those layers in which the field is set) *)
Lemma stack_struct_merges_l fs : forall i bvs names layers n tags sfs sname sb,
  nth_field i fs = Some (n, tags, TStruct sfs sname) -> omit_field n tags = false ->
  nth_error bvs i = Some (VStruct sb) -> length bvs = fields_len fs ->
  nth_error (stack_fields fs bvs names layers) i =
  Some (VStruct (stack_fields sfs sb (field_names (ptrify_fields sfs))
                   (sub_layers (map (by_name n names) layers)))).
Proof.
  induction fs as [|n0 tags0 anon0 t0 r IH]; intros i bvs names layers n tags sfs sname sb Hn Hs Hb Hl; [destruct i; discriminate|].
  destruct bvs as [|b0 bvs]; [cbn in Hl; discriminate|]. cbn in Hl. cbn [stack_fields].
  destruct i as [|j]; cbn in Hn, Hb |- *.
  - inversion Hn; subst. inversion Hb; subst. rewrite Hs. reflexivity.
  - apply (IH j bvs names layers n tags sfs sname sb Hn Hs Hb). lia.
Qed.
