(* C02 on the heap-level model: everything compose returns was allocated by
   this call, and nothing that existed before the call is written. *)
From Coq Require Import List NArith ZArith Bool Lia.
From Dials Require Import Base.Outcome Base.Runes Reflect.Ty Reflect.Ptrify Reflect.Heap Stack.Overlay
  Copy.DeepCopy Copy.DeepCopySpec Copy.DeepCopyBasics Copy.DeepCopyInv Stack.ComposeH.
Import ListNotations.
Open Scope N_scope.
Local Arguments hset : simpl never.
Local Arguments hget : simpl never.

(* ---- zero values hold no reference ---- *)
Lemma refs_repeat n v : refs v = [] -> flat_map refs (repeat_hv n v) = [].
Proof. intro H. induction n; simpl; auto. rewrite H, IHn. reflexivity. Qed.

Lemma hzero_refs : (forall t, refs (hzero t) = []) /\ (forall fs, flat_map refs (hzero_fields fs) = []).
Proof.
  apply ty_fields_ind; intros; simpl; auto.
  - apply refs_repeat; auto.
  - destruct (exported f_name); simpl; rewrite ?H; auto.
Qed.

Section Compose.
Variables (h0 : heap) (n0 : N).
Hypothesis Hwf : wf_heap h0 n0.

(* the heap part of the copier's invariant *)
Record cinv (hs : hst) : Prop := {
  c_lo : n0 <= snd hs;
  c_bound : forall a o, hget (fst hs) a = Some o -> a < snd hs;
  c_frame : forall a, a < n0 -> hget (fst hs) a = hget h0 a;
  c_region : forall a o, hget (fst hs) a = Some o -> n0 <= a -> refs_fresh n0 (snd hs) (obj_refs o) }.

Lemma cinv_inv hs : cinv hs -> inv h0 n0 (init_cst (fst hs) (snd hs)).
Proof.
  intros [A B C D]. split; simpl; auto; try (intros ? ? []); constructor.
Qed.

Lemma inv_cinv st : inv h0 n0 st -> cinv (c_heap st, c_next st).
Proof. intros I. split; simpl; [apply (i_next _ _ _ I)|apply (i_bound _ _ _ I)|apply (i_frame _ _ _ I)|apply (i_fresh _ _ _ I)]. Qed.

Lemma cinv_init : cinv (h0, n0).
Proof. apply (inv_cinv _ (inv_init h0 n0 Hwf)). Qed.

Lemma cinv_bump h n : cinv (h, n) -> cinv (h, n + 1).
Proof.
  intros [A B C D]; simpl in *. split; simpl; auto; try lia.
  - intros a o H. apply B in H. lia.
  - intros a o H Hge. eapply refs_fresh_mono; [|eapply D; eauto]. lia.
Qed.

Lemma cinv_set h n a o : cinv (h, n) -> n0 <= a < n -> refs_fresh n0 n (obj_refs o) -> cinv (hset h a o, n).
Proof.
  intros [A B C D] Ha Ho; simpl in *. split; simpl; auto.
  - intros x o' H. destruct (N.eq_dec x a); [subst; lia|]. rewrite hget_hset_ne in H by auto. eauto.
  - intros x Hx. rewrite hget_hset_ne by lia. auto.
  - intros x o' H Hge. destruct (N.eq_dec x a).
    + subst. rewrite hget_hset_eq in H. inversion H; subst. auto.
    + rewrite hget_hset_ne in H by auto. eauto.
Qed.

(* contents of a cell in the fresh region are fresh *)
Lemma cell_fresh hs a x : cinv hs -> n0 <= a -> hget (fst hs) a = Some (OCell x) -> refs_fresh n0 (snd hs) (refs x).
Proof. intros C Ha H. apply (c_region _ C _ _ H Ha). Qed.

Lemma get_struct_fresh hs a vs : cinv hs -> n0 <= a -> get_struct (fst hs) a = Some vs ->
  refs_fresh n0 (snd hs) (refs_list vs).
Proof.
  unfold get_struct. intros C Ha H. destruct (hget (fst hs) a) as [[[]| |]|] eqn:G; try discriminate.
  inversion H; subst. apply (cell_fresh hs a _ C Ha G).
Qed.

Lemma get_struct_some h a vs : get_struct h a = Some vs -> hget h a = Some (OCell (HStruct vs)).
Proof. unfold get_struct. destruct (hget h a) as [[[]| |]|]; try discriminate. intro H; inversion H; auto. Qed.

Lemma fresh_ptr lo hi a : refs_fresh lo hi (refs (HPtr (Some a))) -> lo <= a < hi.
Proof. intro H. apply (H RCell a). simpl; auto. Qed.

Definition fpost (hs hs' : hst) (rs : list (rkind * addr)) : Prop :=
  cinv hs' /\ snd hs <= snd hs' /\ refs_fresh n0 (snd hs') rs.

Lemma ov_default_ok bt hs ot ov hs' v' : cinv hs -> refs_fresh n0 (snd hs) (refs ov) ->
  ov_default bt hs ot ov = Done (hs', v') -> fpost hs hs' (refs v').
Proof.
  intros C Fo H. unfold ov_default in H.
  assert (Hd : (if ty_eqb ot bt then Done (hs, ov) else RPanic 3) = Done (hs', v') -> fpost hs hs' (refs v')).
  { destruct (ty_eqb ot bt); [|discriminate]. intro E; inversion E; subst. split; [auto|split; [lia|auto]]. }
  destruct ot; auto. destruct ov as [ | [oa|] | | | | | | | ]; auto.
  destruct (ty_eqb ot bt); [|discriminate].
  destruct (hget (fst hs) oa) as [[x| |]|] eqn:G; try discriminate. inversion H; subst.
  split; [auto|split; [lia|]]. apply fresh_ptr in Fo. eapply cell_fresh; eauto. lia.
Qed.

Lemma ov_textu_ok bt hs ot ov hs' v' : cinv hs -> refs_fresh n0 (snd hs) (refs ov) ->
  ov_textu bt hs ot ov = Done (hs', v') -> fpost hs hs' (refs v').
Proof.
  intros C Fo H. unfold ov_textu in H.
  destruct ot; try discriminate.
  - destruct (ty_eqb _ bt); [|discriminate]. inversion H; subst. split; [auto|split; [lia|auto]].
  - destruct ov as [ | [oa|] | | | | | | | ]; try discriminate.
    destruct (ty_eqb ot bt); [|discriminate].
    destruct (hget (fst hs) oa) as [[x| |]|] eqn:G; try discriminate. inversion H; subst.
    split; [auto|split; [lia|]]. apply fresh_ptr in Fo. eapply cell_fresh; eauto. lia.
Qed.

Definition Pf (bt : ty) : Prop :=
  forall hs bv ot ov hs' v', cinv hs ->
    refs_fresh n0 (snd hs) (refs bv) -> refs_fresh n0 (snd hs) (refs ov) ->
    overlay_field_h bt hs bv ot ov = Done (hs', v') -> fpost hs hs' (refs v').

Definition Ps (bfs : fields) : Prop :=
  forall hs bvs ofs ovs hs' vs', cinv hs ->
    refs_fresh n0 (snd hs) (refs_list bvs) -> refs_fresh n0 (snd hs) (refs_list ovs) ->
    overlay_struct_h bfs hs bvs ofs ovs = Done (hs', vs') -> fpost hs hs' (refs_list vs').

Definition Pt (bt : ty) : Prop :=
  Pf bt /\ match bt with TStruct fs _ => Ps fs | _ => True end.

Lemma fresh_cons lo hi x r : refs_fresh lo hi (refs_list (x :: r)) ->
  refs_fresh lo hi (refs x) /\ refs_fresh lo hi (refs_list r).
Proof.
  unfold refs_list; simpl. intro H. split; intros k b Hin; apply (H k b); apply in_or_app; auto.
Qed.

Lemma fresh_cons_mk lo hi x r : refs_fresh lo hi (refs x) -> refs_fresh lo hi (refs_list r) ->
  refs_fresh lo hi (refs_list (x :: r)).
Proof. unfold refs_list; simpl. apply refs_fresh_app. Qed.

Lemma pf_nil_keep hs bv : cinv hs -> refs_fresh n0 (snd hs) (refs bv) -> fpost hs hs (refs bv).
Proof. intros. split; [auto|split; [lia|auto]]. Qed.

Lemma overlay_ok : (forall t, Pt t) /\ (forall fs, Ps fs).
Proof.
  apply ty_fields_ind.
  - (* TBasic *) intros k name. split; [|exact I]. intros hs bv ot ov hs' v' C Fb Fo H. simpl in H.
    destruct (nilable_kind ot && is_hnil ov); [inversion H; subst; apply pf_nil_keep; auto|].
    eapply ov_default_ok; eauto.
  - (* TTextU *) intros id pr. split; [|exact I]. intros hs bv ot ov hs' v' C Fb Fo H. simpl in H.
    destruct (nilable_kind ot && is_hnil ov); [inversion H; subst; apply pf_nil_keep; auto|].
    eapply ov_textu_ok; eauto.
  - (* TPtr *) intros be [IHf IHs]. split; [|exact I]. intros hs bv ot ov hs' v' C Fb Fo H. simpl in H.
    destruct (nilable_kind ot && is_hnil ov); [inversion H; subst; apply pf_nil_keep; auto|].
    destruct bv as [ | [ba|] | | | | | | | ]; try discriminate.
    + (* base pointer not nil *)
      apply fresh_ptr in Fb.
      destruct be as [k nm | id pr | t | t nm | n t | k v nm | bfs nm | | | ];
        try (destruct (ty_eqb ot _); [|discriminate]; inversion H; subst; split; [auto|split; [lia|auto]]).
      * (* TTextU *)
        destruct (ty_eqb ot (TPtr (TTextU id pr))); [inversion H; subst; split; [auto|split; [lia|auto]]|].
        destruct (ty_eqb ot (TTextU id pr)); inversion H; subst.
        -- destruct hs as [h n]; simpl in *. split; [apply cinv_set; auto|split; [simpl; lia|]].
           simpl. intros k b [E|[]]. inversion E; subst. lia.
        -- split; [auto|split; [lia|]]. intros k b [E|[]]. inversion E; subst. lia.
      * (* TStruct: merge into the pointee *)
        destruct ot as [ | | ot' | | | | | | | ]; try discriminate.
        destruct ot' as [ | | | | | | ofs onm | | | ]; try discriminate.
        destruct ov as [ | [oa|] | | | | | | | ]; try discriminate.
        destruct (get_struct (fst hs) ba) as [bvs|] eqn:Gb; try discriminate.
        destruct (get_struct (fst hs) oa) as [ovs|] eqn:Go; try discriminate.
        apply rbind_done in H as [[hs2 r] [H1 H2]]. simpl in H2. inversion H2; subst. clear H2.
        apply fresh_ptr in Fo.
        apply IHs in H1 as (C2 & L2 & F2); auto.
        2:{ eapply get_struct_fresh; eauto. lia. }
        2:{ eapply get_struct_fresh; eauto. lia. }
        destruct hs2 as [h2 n2]; simpl in *.
        split; [apply cinv_set; auto; lia|split; [simpl; lia|]].
        simpl. intros k b [E|[]]. inversion E; subst. lia.
    + (* base pointer nil *)
      destruct ot as [ | | oe | | | | | | | ]; try discriminate.
      destruct (ty_eqb be oe); [inversion H; subst; split; [auto|split; [lia|auto]]|].
      destruct be as [ | | | | | | bfs nm | | | ]; try discriminate.
      destruct oe as [ | | | | | | ofs onm | | | ]; try discriminate.
      destruct ov as [ | [oa|] | | | | | | | ]; try discriminate.
      destruct (get_struct (fst hs) oa) as [ovs|] eqn:Go; try discriminate.
      apply rbind_done in H as [[hs2 r] [H1 H2]]. simpl in H2. inversion H2; subst. clear H2.
      apply fresh_ptr in Fo. destruct hs as [h n]; simpl in *.
      apply IHs in H1 as (C2 & L2 & F2).
      * destruct hs2 as [h2 n2]; simpl in *.
        pose proof (c_lo _ C) as Hlo; simpl in Hlo.
        split; [apply cinv_set; auto; lia|split; [simpl; lia|]].
        simpl. intros k b [E|[]]. inversion E; subst. lia.
      * apply cinv_bump; auto.
      * simpl. unfold refs_list. rewrite (proj2 hzero_refs). apply refs_fresh_nil.
      * simpl. eapply refs_fresh_mono; [|eapply (get_struct_fresh (h, n)); eauto]; simpl; lia.
  - (* TSlice *) intros t IH name. split; [|exact I]. intros hs bv ot ov hs' v' C Fb Fo H. simpl in H.
    destruct (nilable_kind ot && is_hnil ov); [inversion H; subst; apply pf_nil_keep; auto|].
    eapply ov_default_ok; eauto.
  - (* TArray *) intros n t IH. split; [|exact I]. intros hs bv ot ov hs' v' C Fb Fo H. simpl in H.
    destruct (nilable_kind ot && is_hnil ov); [inversion H; subst; apply pf_nil_keep; auto|].
    eapply ov_default_ok; eauto.
  - (* TMap *) intros k IHk v IHv name. split; [|exact I]. intros hs bv ot ov hs' v' C Fb Fo H. simpl in H.
    destruct (nilable_kind ot && is_hnil ov); [inversion H; subst; apply pf_nil_keep; auto|].
    eapply ov_default_ok; eauto.
  - (* TStruct *) intros bfs IHs name. split; [|exact IHs]. intros hs bv ot ov hs' v' C Fb Fo H. simpl in H.
    destruct (nilable_kind ot && is_hnil ov); [inversion H; subst; apply pf_nil_keep; auto|].
    destruct bv as [ | | | | | | | bvs | ]; try discriminate.
    destruct ot as [ | | ot' | | | | ofs onm | | | ]; try discriminate.
    + destruct ot' as [ | | | | | | ofs onm | | | ]; try discriminate.
      destruct ov as [ | [oa|] | | | | | | | ]; try discriminate.
      destruct (get_struct (fst hs) oa) as [ovs|] eqn:Go; try discriminate.
      apply rbind_done in H as [[hs2 r] [H1 H2]]. simpl in H2. inversion H2; subst. clear H2.
      apply fresh_ptr in Fo.
      apply IHs in H1; auto. eapply get_struct_fresh; eauto. lia.
    + destruct ov as [ | | | | | | | ovs | ]; try discriminate.
      apply rbind_done in H as [[hs2 r] [H1 H2]]. simpl in H2. inversion H2; subst. clear H2.
      apply IHs in H1; auto.
  - (* TIface *) split; [|exact I]. intros hs bv ot ov hs' v' C Fb Fo H. simpl in H.
    destruct (nilable_kind ot && is_hnil ov); [inversion H; subst; apply pf_nil_keep; auto|discriminate].
  - (* TChan *) split; [|exact I]. intros hs bv ot ov hs' v' C Fb Fo H. simpl in H.
    destruct (nilable_kind ot && is_hnil ov); [inversion H; subst; apply pf_nil_keep; auto|].
    eapply ov_default_ok; eauto.
  - (* TFunc *) split; [|exact I]. intros hs bv ot ov hs' v' C Fb Fo H. simpl in H.
    destruct (nilable_kind ot && is_hnil ov); [inversion H; subst; apply pf_nil_keep; auto|].
    eapply ov_default_ok; eauto.
  - (* FNil *) intros hs bvs ofs ovs hs' vs' C Fb Fo H. simpl in H. inversion H; subst.
    split; [auto|split; [lia|apply refs_fresh_nil]].
  - (* FCons *) intros n tags anon t [IHt _] r IHr hs bvs ofs ovs hs' vs' C Fb Fo H. simpl in H.
    destruct bvs as [|bv bvs']; try discriminate. apply fresh_cons in Fb as [Fbv Fbr].
    assert (Hskip : forall hs' vs', (p <~ overlay_struct_h r hs bvs' ofs ovs ;; Done (fst p, bv :: snd p)) = Done (hs', vs') ->
                    fpost hs hs' (refs_list vs')).
    { intros hs1 vs1 Hs. apply rbind_done in Hs as [[hs2 r'] [H1 H2]]. simpl in H2. inversion H2; subst.
      apply IHr in H1 as (C2 & L2 & F2); auto. split; [auto|split; [auto|]].
      apply fresh_cons_mk; auto. eapply refs_fresh_mono; eauto. }
    destruct (omit_field n tags); [apply Hskip; auto|].
    destruct (is_chan_func t); [apply Hskip; auto|].
    destruct ofs as [|on otags oanon ot ofs']; try discriminate.
    destruct ovs as [|ov ovs']; try discriminate. apply fresh_cons in Fo as [Fov For].
    apply rbind_done in H as [[hs1 v1] [H1 H]]. apply rbind_done in H as [[hs2 r'] [H2 H3]].
    simpl in *. inversion H3; subst. clear H3.
    apply IHt in H1 as (C1 & L1 & F1); auto.
    apply IHr in H2 as (C2 & L2 & F2); auto.
    + split; [auto|split; [lia|]]. apply fresh_cons_mk; auto. eapply refs_fresh_mono; eauto.
    + eapply refs_fresh_mono; eauto.
    + eapply refs_fresh_mono; eauto.
Qed.

Lemma overlay_struct_ok fs hs bvs ofs ovs hs' vs' : cinv hs ->
  refs_fresh n0 (snd hs) (refs_list bvs) -> refs_fresh n0 (snd hs) (refs_list ovs) ->
  overlay_struct_h fs hs bvs ofs ovs = Done (hs', vs') -> fpost hs hs' (refs_list vs').
Proof. apply (proj2 overlay_ok). Qed.

(* one deep copy started from a compose state; the copied value lives below n0 *)
Lemma deep_copy_cinv fuel hs a st' v' : cinv hs -> a < n0 ->
  deep_copy true fuel (fst hs) (snd hs) (HPtr (Some a)) = Done (st', v') ->
  cinv (c_heap st', c_next st') /\ snd hs <= c_next st' /\ refs_fresh n0 (c_next st') (refs v').
Proof.
  intros C Ha H. unfold deep_copy in H.
  apply (copy_post h0 n0 Hwf) in H as (I & E & F).
  - split; [apply inv_cinv; auto|split; [apply (e_next _ _ E)|auto]].
  - apply cinv_inv; auto.
  - intros k b [E|[]]. inversion E; subst. auto.
Qed.

Lemma compose_layers_ok fuel fs : forall layers hs d' hs', cinv hs -> n0 <= d' < snd hs ->
  Forall (fun l => l < n0) layers ->
  compose_layers fuel fs hs d' layers = Done hs' -> cinv hs' /\ snd hs <= snd hs'.
Proof.
  induction layers as [|l rest IH]; intros hs d' hs' C Hd Hl H; simpl in H.
  - inversion H; subst. split; [auto|lia].
  - inversion Hl as [|? ? Hl1 Hl2]; subst.
    apply rbind_done in H as [[st1 v1] [H1 H]]. simpl in H.
    destruct v1 as [ | [l'|] | | | | | | | ]; try discriminate.
    apply deep_copy_cinv in H1 as (C1 & L1 & F1); auto. apply fresh_ptr in F1.
    destruct (get_struct (c_heap st1) d') as [bvs|] eqn:Gb; try discriminate.
    destruct (get_struct (c_heap st1) l') as [ovs|] eqn:Go; try discriminate.
    apply rbind_done in H as [[hs2 r] [Ho H]]. simpl in H.
    apply overlay_struct_ok in Ho as (C2 & L2 & F2); auto; simpl in *.
    2:{ apply (get_struct_fresh (c_heap st1, c_next st1) d'); auto; lia. }
    2:{ apply (get_struct_fresh (c_heap st1, c_next st1) l'); auto; lia. }
    destruct hs2 as [h2 n2]; simpl in *.
    apply IH in H as (C3 & L3); auto.
    + split; [auto|simpl in *; lia].
    + apply cinv_set; auto. lia.
    + simpl. lia.
Qed.

Lemma compose_h_ok fuel fs d layers hs' d' : d < n0 -> Forall (fun l => l < n0) layers ->
  compose_h fuel fs h0 n0 d layers = Done (hs', d') -> cinv hs' /\ n0 <= d' < snd hs'.
Proof.
  intros Hd Hl H. unfold compose_h in H.
  apply rbind_done in H as [[st1 v1] [H1 H]]. simpl in H.
  destruct v1 as [ | [x|] | | | | | | | ]; try discriminate.
  apply rbind_done in H as [hs2 [H2 H]]. inversion H; subst. clear H.
  apply (deep_copy_cinv fuel (h0, n0)) in H1 as (C1 & L1 & F1); auto; [|apply cinv_init].
  apply fresh_ptr in F1.
  apply compose_layers_ok in H2 as (C2 & L2); auto. simpl in *. split; [auto|lia].
Qed.

End Compose.

(* reachability stays inside a closed region *)
Lemma reach_closed h lo hi rs a :
  (forall x o, hget h x = Some o -> lo <= x -> x < hi -> refs_fresh lo hi (obj_refs o)) ->
  reach h rs a -> refs_fresh lo hi rs -> lo <= a < hi.
Proof.
  intros Hc Hr. induction Hr; intro Hf.
  - apply (Hf k a); auto.
  - apply IHHr. apply (Hf k b) in H. eapply Hc; eauto; lia.
Qed.

Lemma layers_below_ok n0 layers : layers_below n0 layers = true -> Forall (fun l => l < n0) layers.
Proof.
  unfold layers_below. rewrite forallb_forall. intro H. apply Forall_forall. intros x Hx. apply N.ltb_lt; auto.
Qed.

(* every address reachable from the result through exported fields was
   allocated by this call *)
Theorem compose_fresh_l : forall fuel fs h n0 d layers h' n' d',
  wf_heap h n0 -> d < n0 -> Forall (fun l => l < n0) layers ->
  compose_h fuel fs h n0 d layers = Done ((h', n'), d') ->
  n0 <= d' < n' /\
  forall a, reach h' [(RCell, d')] a -> n0 <= a < n' /\ hget h a = None.
Proof.
  intros fuel fs h n0 d layers h' n' d' Hwf Hd Hl H.
  destruct (compose_h_ok h n0 Hwf _ _ _ _ _ _ Hd Hl H) as [C Hd']. simpl in *.
  split; auto. intros a Hr.
  assert (Ha : n0 <= a < n').
  { eapply reach_closed; [|exact Hr|].
    - intros x o Hx Hge _. apply (c_region _ _ _ C x o Hx Hge).
    - intros k b [E|[]]. inversion E; subst. auto. }
  split; auto. destruct (hget h a) eqn:G; auto. apply Hwf in G. lia.
Qed.

(* the old heap is a sub-heap of the new one: defaults, every layer, every
   earlier version and anything else that existed are bit-identical *)
Theorem compose_inputs_unchanged_l : forall fuel fs h n0 d layers h' n' d',
  wf_heap h n0 -> d < n0 -> Forall (fun l => l < n0) layers ->
  compose_h fuel fs h n0 d layers = Done ((h', n'), d') ->
  (forall a, a < n0 -> hget h' a = hget h a) /\
  (forall a o, hget h a = Some o -> hget h' a = Some o).
Proof.
  intros fuel fs h n0 d layers h' n' d' Hwf Hd Hl H.
  destruct (compose_h_ok h n0 Hwf _ _ _ _ _ _ Hd Hl H) as [C Hd']. simpl in *.
  split; [apply (c_frame _ _ _ C)|].
  intros a o G. rewrite (c_frame _ _ _ C); auto. apply Hwf in G. tauto.
Qed.

(* the state after a compose (or a deep copy) is again a well-formed heap *)
Lemma cinv_wf h n hs : wf_heap h n -> cinv h n hs -> wf_heap (fst hs) (snd hs).
Proof.
  intros Hwf C a o Hg. split; [apply (c_bound _ _ _ C _ _ Hg)|].
  destruct (N.lt_ge_cases a n) as [Hlt|Hge].
  - rewrite (c_frame _ _ _ C) in Hg by auto. apply Hwf in Hg as [_ Hr].
    intros k b Hin. apply Hr in Hin. pose proof (c_lo _ _ _ C). lia.
  - intros k b Hin. apply (c_region _ _ _ C _ _ Hg Hge) in Hin. lia.
Qed.
