(* Totality of a whole run (Config, then any number of re-stacks over values
   that already live in the heap): every compose of the history returns, so
   versions_pairwise_disjoint holds without "if the run returns". *)
From Coq Require Import List NArith ZArith Bool Lia.
From Dials Require Import Base.Outcome Base.Runes Reflect.Ty Reflect.Ptrify Reflect.Heap Stack.Overlay
  Stack.StackSpec Stack.Spine Stack.StackProofs
  Copy.DeepCopy Copy.DeepCopySpec Copy.DeepCopyBasics Copy.DeepCopyInv Copy.DeepCopyTerm Copy.DeepCopyBisim
  Copy.DeepCopyTotal Copy.DeepCopyGuard
  Stack.ComposeH Stack.ComposeHProofs Stack.ComposeHTyping Stack.ComposeHTotal Stack.History Stack.HistoryProofs.
Import ListNotations.
Open Scope N_scope.
Local Arguments hset : simpl never.
Local Arguments hget : simpl never.

(* an event of a replayed history: no new objects, layers among the typed inputs *)
Definition event_ok (h : heap) (n0 : N) (S0 : styping) (fs : fields) (e : event) : Prop :=
  ev_objs e = [] /\ Forall (fun l => input_ok h n0 S0 l (ptrify_fields fs)) (ev_layers e).

Section Run.
Variables (h1 : heap) (n1 : N) (R D : nat) (rk : list (addr * nat)) (S1 : styping) (fs : fields).
Hypothesis Hwf : wf_heap h1 n1.
Hypothesis Hrk : wf_rank h1 R D rk.
Hypothesis Hk : wf_kinds h1.
Hypothesis HD : (1 <= D)%nat.
Hypothesis Hcfg : cfg_ok fs = true.

Lemma run_history_total fuel d : (copy_fuel n1 R D <= fuel)%nat -> input_ok h1 n1 S1 d fs ->
  forall evs hs S acc, Forall (event_ok h1 n1 S1 fs) evs ->
  cinv h1 n1 hs -> tst S hs -> sext S1 S -> (forall v, In v acc -> n1 <= v_lo v) ->
  exists hs' vs', run_history fuel fs (fst hs) (snd hs) d acc evs = Done (hs', vs').
Proof.
  intros Hf Hd. induction evs as [|e rest IH]; intros hs S acc He C T X Hacc.
  - simpl. destruct hs. eauto.
  - inversion He as [|? ? (Ho & Hl) Hrest]; subst.
    cbn [run_history]. rewrite Ho. cbn [place fst snd].
    assert (Hs : src_ok acc (snd hs) e = true).
    { unfold src_ok. rewrite Ho. simpl. apply forallb_forall. intros l Hin.
      rewrite Forall_forall in Hl. destruct (Hl l Hin) as (Hl1 & _).
      pose proof (c_lo _ _ _ C) as Hlo. apply andb_true_iff. split; [apply N.ltb_lt; lia|].
      apply negb_true_iff. unfold in_versions. destruct (existsb (fun v => in_version v l) acc) eqn:Q; auto.
      apply existsb_exists in Q as (v & Hv & Hin'). apply in_version_iff in Hin'. apply Hacc in Hv. lia. }
    rewrite Hs.
    destruct (compose_h_total_gen h1 n1 R D rk S1 fs Hwf Hrk Hk HD Hcfg fuel d (ev_layers e) hs S Hf C T X Hd Hl)
      as (hs' & d' & S' & E & C' & T' & X' & L').
    rewrite (rbind_eq' _ _ _ E). cbn [fst snd].
    destruct (IH hs' S' (mk_version d' (snd hs) (snd hs') :: acc) Hrest C' T' (sext_trans _ _ _ X X')) as (hs2 & vs2 & E2).
    + intros v [<-|Hv]; [simpl; apply (c_lo _ _ _ C)|auto].
    + eauto.
Qed.

End Run.

Theorem config_h_total_l : forall fuel fs h n0 R D rk S0 defaults evs,
  wf_heap h n0 -> wf_rank h R D rk -> wf_kinds h -> (1 <= D)%nat -> cfg_ok fs = true ->
  wt S0 h -> sbound S0 n0 -> input_ok h n0 S0 defaults fs -> Forall (event_ok h n0 S0 fs) evs ->
  (copy_fuel n0 R D <= fuel)%nat ->
  exists st1 d,
    deep_copy true fuel h n0 (HPtr (Some defaults)) = Done (st1, HPtr (Some d)) /\
    ((copy_fuel (c_next st1) R D <= fuel)%nat ->
     exists H N vs, config_h fuel fs h n0 defaults evs = Done ((H, N), d, vs)).
Proof.
  intros fuel fs h n0 R D rk S0 defaults evs Hwf Hrk Hk HD Hcfg W B (Hd1 & Hd2 & Hd3) Hev Hf.
  pose proof (cinv_init h n0 Hwf) as C0. pose proof (tst_init _ _ _ Hwf W B) as T0.
  destruct (copy_done h n0 R D rk Hwf Hrk Hk HD (h, n0) defaults fuel C0 Hd1 Hd2 Hf) as (st1 & d & H1).
  exists st1, d. split; [exact H1|]. intro Hf2. simpl in H1.
  destruct (copy_typed h n0 D Hwf HD S0 (h, n0) defaults fuel st1 d _ C0 T0 Hd1 Hd3 H1) as (T1 & X1 & Sd & L1 & C1).
  set (S1 := copied_typing S0 (c_pm st1) ++ S0) in *.
  assert (Hroot : wf_root n0 R D rk (HPtr (Some defaults))).
  { split; [intros k b [E|[]]; inversion E; subst; auto|split; [simpl; lia|intros s []]]. }
  destruct (deep_copy_guard_l h n0 R D rk _ fuel st1 _ Hwf Hrk Hk Hroot Hd2 H1) as (rk1 & Hwf1 & Hrk1 & Hk1 & Hroot1 & V1).
  assert (Hsub : forall a o, hget h a = Some o -> hget (c_heap st1) a = Some o).
  { intros a o G. rewrite (c_frame _ _ _ C1); auto. apply Hwf in G. tauto. }
  assert (Hd' : input_ok (c_heap st1) (c_next st1) S1 d fs).
  { split; [apply (proj1 Hroot1 RCell d); simpl; auto|split; [exact V1|exact Sd]]. }
  assert (Hev' : Forall (event_ok (c_heap st1) (c_next st1) S1 fs) evs).
  { apply Forall_forall. intros e He. rewrite Forall_forall in Hev. destruct (Hev e He) as [Ho Hl].
    split; [exact Ho|]. apply Forall_forall. intros l Hin. rewrite Forall_forall in Hl.
    destruct (Hl l Hin) as (Q1 & (Q2 & Q3 & Q4) & Q5). simpl in L1.
    split; [lia|split; [|apply X1; exact Q5]].
    split; [eapply refs_ok_mono; eauto|split; auto]. }
  pose proof (cinv_init _ _ Hwf1) as Cb.
  destruct (run_history_total (c_heap st1) (c_next st1) R D rk1 S1 fs Hwf1 Hrk1 Hk1 HD Hcfg fuel d Hf2 Hd'
              evs (c_heap st1, c_next st1) S1 [] Hev' Cb T1 (sext_refl _)) as (hs' & vs' & E).
  { intros v []. }
  destruct hs' as [H N]. exists H, N, vs'.
  unfold config_h. rewrite (rbind_eq' _ _ _ H1). cbn [fst snd]. simpl in E. rewrite E. reflexivity.
Qed.

(* with the decidable guard, and the disjointness of everything the run produces *)
Theorem versions_total_l : forall fuel fs h n0 R D rk S0 defaults layerss,
  c02_history_guard h n0 R D rk S0 fs defaults layerss = true ->
  (copy_fuel n0 R D <= fuel)%nat ->
  let evs := map (mk_event []) layerss in
  exists st1 d,
    deep_copy true fuel h n0 (HPtr (Some defaults)) = Done (st1, HPtr (Some d)) /\
    ((copy_fuel (c_next st1) R D <= fuel)%nat ->
     exists H N vs, config_h fuel fs h n0 defaults evs = Done ((H, N), d, vs) /\
       (forall u v a, In u vs -> In v vs -> u <> v ->
          reach H [(RCell, v_root u)] a -> reach H [(RCell, v_root v)] a -> False) /\
       (forall v x a, In v vs ->
          (x = defaults \/ x = d \/ exists e, In e evs /\ In x (ev_layers e)) ->
          reach H [(RCell, v_root v)] a -> reach H [(RCell, x)] a -> False) /\
       (forall a o, hget h a = Some o -> hget H a = Some o)).
Proof.
  intros fuel fs h n0 R D rk S0 defaults layerss G Hf evs. unfold c02_history_guard in G.
  repeat (apply andb_true_iff in G as [G ?]).
  apply wf_heapb_ok in G. apply wf_rankb_ok in H6. apply wf_kindsb_ok in H5. apply Nat.leb_le in H4.
  apply wtb_ok in H2. apply sboundb_ok in H1. apply root_ok_ok in H0.
  assert (Hev : Forall (event_ok h n0 S0 fs) evs).
  { apply Forall_forall. intros e He. unfold evs in He. apply in_map_iff in He as (ls & <- & Hls).
    split; [reflexivity|]. simpl. apply Forall_forall. intros l Hl. apply root_ok_ok.
    rewrite forallb_forall in H. specialize (H _ Hls). rewrite forallb_forall in H. auto. }
  destruct (config_h_total_l fuel fs h n0 R D rk S0 defaults evs G H6 H5 H4 H3 H2 H1 H0 Hev Hf) as (st1 & d & E1 & E2).
  exists st1, d. split; [exact E1|]. intro Hf2. destruct (E2 Hf2) as (Hh & N & vs & Ec).
  exists Hh, N, vs. split; [exact Ec|].
  destruct H0 as (Hd & _).
  exact (versions_pairwise_disjoint_l fuel fs h n0 defaults evs Hh N d vs G Hd Ec).
Qed.
