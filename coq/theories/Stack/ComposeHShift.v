(* compose is parametric in the allocator position: stacking the same inputs
   with the allocator dl further up gives the same result with every address
   allocated by the call shifted by dl. *)
From Coq Require Import List NArith ZArith Bool Lia.
From Dials Require Import Base.Outcome Base.Runes Reflect.Ty Reflect.Ptrify Reflect.Heap Stack.Overlay
  Copy.DeepCopy Copy.DeepCopySpec Copy.DeepCopyBasics Copy.DeepCopyInv Copy.DeepCopyShift
  Stack.ComposeH Stack.ComposeHProofs.
Import ListNotations.
Open Scope N_scope.
Local Arguments hset : simpl never.
Local Arguments hget : simpl never.

Lemma rbind_eq {A B} (r : res A) (f : A -> res B) a : r = Done a -> rbind r f = f a.
Proof. intros ->. reflexivity. Qed.

Section Shift.
Variables (h0 : heap) (n0 dl : N).
Hypothesis Hwf : wf_heap h0 n0.

Notation F := (F dl).
Notation Fo := (Fo dl).
Notation hsim := (hsim n0 dl).
Notation cinv := (cinv h0 n0).

Definition hssim (hs hs2 : hst) : Prop := hsim (fst hs) (fst hs2) /\ snd hs2 = snd hs + dl.

Lemma F_is_hnil v : is_hnil (F v) = is_hnil v.
Proof. destruct v as [ | [|] | [|] | [|] | | | | | ]; reflexivity. Qed.

Lemma F_repeat n v : F v = v -> map F (repeat_hv n v) = repeat_hv n v.
Proof. intro H. induction n; simpl; auto. rewrite H, IHn. reflexivity. Qed.

Lemma F_hzero : (forall t, F (hzero t) = hzero t) /\ (forall fs, map F (hzero_fields fs) = hzero_fields fs).
Proof.
  apply ty_fields_ind; intros; simpl; auto.
  - unfold DeepCopyShift.F; simpl. f_equal. apply F_repeat; auto.
  - unfold DeepCopyShift.F in *; simpl. f_equal. auto.
  - f_equal; auto. destruct (exported f_name); auto.
Qed.

Lemma get_struct_sim h h2 a vs : hsim h h2 -> n0 <= a -> get_struct h a = Some vs ->
  get_struct h2 (a + dl) = Some (map F vs).
Proof.
  intros [_ S] Ha H. apply get_struct_some in H. apply S in H; auto. unfold get_struct. rewrite H. reflexivity.
Qed.

Lemma cell_sim h h2 a x : hsim h h2 -> n0 <= a -> hget h a = Some (OCell x) ->
  hget h2 (a + dl) = Some (OCell (F x)).
Proof. intros [_ S] Ha H. apply S in H; auto. Qed.

Lemma refs_list_map_nil vs : refs_list vs = refs_list vs. Proof. reflexivity. Qed.

Definition spost (hs' hs2' : hst) : Prop := hssim hs' hs2'.

Lemma ov_default_shift bt hs ot ov hs' v' hs2 : cinv hs -> refs_fresh n0 (snd hs) (refs ov) -> hssim hs hs2 ->
  ov_default bt hs ot ov = Done (hs', v') ->
  exists hs2', ov_default bt hs2 ot (F ov) = Done (hs2', F v') /\ hssim hs' hs2'.
Proof.
  intros C Fo' S H. unfold ov_default in *.
  assert (Hd : forall w, (if ty_eqb ot bt then Done (hs, w) else RPanic 3) = Done (hs', v') ->
               exists hs2', (if ty_eqb ot bt then Done (hs2, F w) else RPanic 3) = Done (hs2', F v') /\ hssim hs' hs2').
  { intros w E. destruct (ty_eqb ot bt); [|discriminate]. inversion E; subst. exists hs2. auto. }
  destruct ot; try (apply Hd; exact H).
  destruct ov as [ | [oa|] | [|] | [|] | | | | | ]; try (apply Hd; exact H).
  simpl. destruct (ty_eqb ot bt); [|discriminate].
  destruct (hget (fst hs) oa) as [[x| |]|] eqn:G; try discriminate. inversion H; subst.
  apply fresh_ptr in Fo'. rewrite (cell_sim _ _ _ _ (proj1 S) (proj1 Fo') G). exists hs2. auto.
Qed.

Lemma ov_textu_shift bt hs ot ov hs' v' hs2 : cinv hs -> refs_fresh n0 (snd hs) (refs ov) -> hssim hs hs2 ->
  ov_textu bt hs ot ov = Done (hs', v') ->
  exists hs2', ov_textu bt hs2 ot (F ov) = Done (hs2', F v') /\ hssim hs' hs2'.
Proof.
  intros C Fo' S H. unfold ov_textu in *.
  destruct ot; try discriminate.
  - destruct (ty_eqb _ bt); [|discriminate]. inversion H; subst. exists hs2. split; auto.
  - destruct ov as [ | [oa|] | [|] | [|] | | | | | ]; try discriminate.
    simpl. destruct (ty_eqb ot bt); [|discriminate].
    destruct (hget (fst hs) oa) as [[x| |]|] eqn:G; try discriminate. inversion H; subst.
    apply fresh_ptr in Fo'. rewrite (cell_sim _ _ _ _ (proj1 S) (proj1 Fo') G). exists hs2. auto.
Qed.

Definition Qf (bt : ty) : Prop :=
  forall hs bv ot ov hs' v' hs2, cinv hs ->
    refs_fresh n0 (snd hs) (refs bv) -> refs_fresh n0 (snd hs) (refs ov) -> hssim hs hs2 ->
    overlay_field_h bt hs bv ot ov = Done (hs', v') ->
    exists hs2', overlay_field_h bt hs2 (F bv) ot (F ov) = Done (hs2', F v') /\ hssim hs' hs2'.

Definition Qs (bfs : fields) : Prop :=
  forall hs bvs ofs ovs hs' vs' hs2, cinv hs ->
    refs_fresh n0 (snd hs) (refs_list bvs) -> refs_fresh n0 (snd hs) (refs_list ovs) -> hssim hs hs2 ->
    overlay_struct_h bfs hs bvs ofs ovs = Done (hs', vs') ->
    exists hs2', overlay_struct_h bfs hs2 (map F bvs) ofs (map F ovs) = Done (hs2', map F vs') /\ hssim hs' hs2'.

Definition Qt (bt : ty) : Prop :=
  Qf bt /\ match bt with TStruct fs _ => Qs fs | _ => True end.

Lemma keep_shift hs hs2 bv : hssim hs hs2 ->
  exists hs2', Done (hs2, F bv) = Done (hs2', F bv) /\ hssim hs hs2'.
Proof. intro S. exists hs2. auto. Qed.

Ltac refold := change (map_addr (fun a : addr => a + dl)) with (DeepCopyShift.F dl) in *.

Ltac nil_case H S :=
  rewrite F_is_hnil;
  destruct (nilable_kind _ && is_hnil _); [inversion H; subst; eexists; split; [reflexivity|exact S]|].

Lemma overlay_shift : (forall t, Qt t) /\ (forall fs, Qs fs).
Proof.
  apply ty_fields_ind.
  - (* TBasic *) intros k name. split; [|exact I]. intros hs bv ot ov hs' v' hs2 C Fb Fo' S H. simpl in *.
    nil_case H S. eapply ov_default_shift; eauto.
  - (* TTextU *) intros id pr. split; [|exact I]. intros hs bv ot ov hs' v' hs2 C Fb Fo' S H. simpl in *.
    nil_case H S. eapply ov_textu_shift; eauto.
  - (* TPtr *) intros be [IHf IHs]. split; [|exact I]. intros hs bv ot ov hs' v' hs2 C Fb Fo' S H. simpl in *.
    nil_case H S.
    destruct bv as [ | [ba|] | | | | | | | ]; try discriminate; simpl.
    + (* base pointer not nil *)
      apply fresh_ptr in Fb.
      destruct be as [k nm | id pr | t | t nm | n t | k v nm | bfs nm | | | ];
        try (destruct (ty_eqb ot _); [|discriminate]; inversion H; subst; exists hs2; split; [reflexivity|exact S]).
      * (* TTextU *)
        destruct (ty_eqb ot (TPtr (TTextU id pr))); [inversion H; subst; exists hs2; split; [reflexivity|exact S]|].
        destruct (ty_eqb ot (TTextU id pr)); inversion H; subst.
        -- eexists. split; [reflexivity|]. destruct S as [S1 S2]. split; simpl; auto.
           apply (hsim_set n0 dl _ _ ba (OCell ov) S1). lia.
        -- exists hs2. split; [reflexivity|exact S].
      * (* TStruct *)
        destruct ot as [ | | ot' | | | | | | | ]; try discriminate.
        destruct ot' as [ | | | | | | ofs onm | | | ]; try discriminate.
        destruct ov as [ | [oa|] | | | | | | | ]; try discriminate. simpl.
        destruct (get_struct (fst hs) ba) as [bvs|] eqn:Gb; try discriminate.
        destruct (get_struct (fst hs) oa) as [ovs|] eqn:Go; try discriminate.
        apply rbind_done in H as [[hs1 r] [H1 H2]]. simpl in H2. inversion H2; subst. clear H2.
        apply fresh_ptr in Fo'.
        rewrite (get_struct_sim _ _ _ _ (proj1 S) (proj1 Fb) Gb).
        rewrite (get_struct_sim _ _ _ _ (proj1 S) (proj1 Fo') Go).
        assert (Fbvs : refs_fresh n0 (snd hs) (refs_list bvs)) by (eapply get_struct_fresh; eauto; lia).
        assert (Fovs : refs_fresh n0 (snd hs) (refs_list ovs)) by (eapply get_struct_fresh; eauto; lia).
        destruct (IHs _ _ _ _ _ _ _ C Fbvs Fovs S H1) as (hs3 & G & [S31 S32]).
        rewrite G. simpl. eexists. split; [reflexivity|]. split; simpl; auto.
        apply (hsim_set n0 dl _ _ ba (OCell (HStruct r)) S31). lia.
    + (* base pointer nil *)
      destruct ot as [ | | oe | | | | | | | ]; try discriminate.
      destruct (ty_eqb be oe); [inversion H; subst; exists hs2; split; [reflexivity|exact S]|].
      destruct be as [ | | | | | | bfs nm | | | ]; try discriminate.
      destruct oe as [ | | | | | | ofs onm | | | ]; try discriminate.
      destruct ov as [ | [oa|] | | | | | | | ]; try discriminate. simpl.
      destruct (get_struct (fst hs) oa) as [ovs|] eqn:Go; try discriminate.
      apply rbind_done in H as [[hs1 r] [H1 H2]]. simpl in H2. inversion H2; subst. clear H2.
      apply fresh_ptr in Fo'.
      rewrite (get_struct_sim _ _ _ _ (proj1 S) (proj1 Fo') Go).
      destruct hs as [h n]; destruct hs2 as [h2 n2]; destruct S as [S1 S2]; simpl in *. subst n2.
      assert (C1 : cinv (h, n + 1)) by (apply cinv_bump; auto).
      assert (Fz : refs_fresh n0 (n + 1) (refs_list (hzero_fields bfs))).
      { unfold refs_list. rewrite (proj2 hzero_refs). apply refs_fresh_nil. }
      assert (Fovs : refs_fresh n0 (n + 1) (refs_list ovs)).
      { eapply refs_fresh_mono; [|eapply (get_struct_fresh h0 n0 (h, n)); eauto]; simpl; lia. }
      assert (S' : hssim (h, n + 1) (h2, n + dl + 1)) by (split; simpl; auto; lia).
      destruct (IHs _ _ _ _ _ _ _ C1 Fz Fovs S' H1) as (hs3 & G & [S31 S32]).
      rewrite (proj2 F_hzero) in G. rewrite G. simpl. eexists. split; [reflexivity|]. split; simpl; auto.
      apply (hsim_set n0 dl _ _ n (OCell (HStruct r)) S31). apply (c_lo _ _ _ C).
  - (* TSlice *) intros t IH name. split; [|exact I]. intros hs bv ot ov hs' v' hs2 C Fb Fo' S H. simpl in *.
    nil_case H S. eapply ov_default_shift; eauto.
  - (* TArray *) intros n t IH. split; [|exact I]. intros hs bv ot ov hs' v' hs2 C Fb Fo' S H. simpl in *.
    nil_case H S. eapply ov_default_shift; eauto.
  - (* TMap *) intros k IHk v IHv name. split; [|exact I]. intros hs bv ot ov hs' v' hs2 C Fb Fo' S H. simpl in *.
    nil_case H S. eapply ov_default_shift; eauto.
  - (* TStruct *) intros bfs IHs name. split; [|exact IHs]. intros hs bv ot ov hs' v' hs2 C Fb Fo' S H. simpl in *.
    nil_case H S.
    destruct bv as [ | | | | | | | bvs | ]; try discriminate. simpl.
    destruct ot as [ | | ot' | | | | ofs onm | | | ]; try discriminate.
    + destruct ot' as [ | | | | | | ofs onm | | | ]; try discriminate.
      destruct ov as [ | [oa|] | | | | | | | ]; try discriminate. simpl.
      destruct (get_struct (fst hs) oa) as [ovs|] eqn:Go; try discriminate.
      apply rbind_done in H as [[hs1 r] [H1 H2]]. simpl in H2. inversion H2; subst. clear H2.
      apply fresh_ptr in Fo'.
      rewrite (get_struct_sim _ _ _ _ (proj1 S) (proj1 Fo') Go).
      assert (Fovs : refs_fresh n0 (snd hs) (refs_list ovs)) by (eapply get_struct_fresh; eauto; lia).
      destruct (IHs _ _ _ _ _ _ _ C Fb Fovs S H1) as (hs3 & G & S3).
      refold. rewrite G. simpl. eexists. split; [reflexivity|exact S3].
    + destruct ov as [ | | | | | | | ovs | ]; try discriminate. simpl.
      apply rbind_done in H as [[hs1 r] [H1 H2]]. simpl in H2. inversion H2; subst. clear H2.
      destruct (IHs _ _ _ _ _ _ _ C Fb Fo' S H1) as (hs3 & G & S3).
      refold. rewrite G. simpl. eexists. split; [reflexivity|exact S3].
  - (* TIface *) split; [|exact I]. intros hs bv ot ov hs' v' hs2 C Fb Fo' S H. simpl in *.
    nil_case H S. discriminate.
  - (* TChan *) split; [|exact I]. intros hs bv ot ov hs' v' hs2 C Fb Fo' S H. simpl in *.
    nil_case H S. eapply ov_default_shift; eauto.
  - (* TFunc *) split; [|exact I]. intros hs bv ot ov hs' v' hs2 C Fb Fo' S H. simpl in *.
    nil_case H S. eapply ov_default_shift; eauto.
  - (* FNil *) intros hs bvs ofs ovs hs' vs' hs2 C Fb Fo' S H. simpl in *. inversion H; subst.
    exists hs2. auto.
  - (* FCons *) intros n tags anon t [IHt _] r IHr hs bvs ofs ovs hs' vs' hs2 C Fb Fo' S H. simpl in H.
    destruct bvs as [|bv bvs']; try discriminate. apply fresh_cons in Fb as [Fbv Fbr].
    assert (Hskip : forall hs' vs', (p <~ overlay_struct_h r hs bvs' ofs ovs ;; Done (fst p, bv :: snd p)) = Done (hs', vs') ->
       exists hs2', (p <~ overlay_struct_h r hs2 (map F bvs') ofs (map F ovs) ;; Done (fst p, F bv :: snd p)) = Done (hs2', map F vs') /\ hssim hs' hs2').
    { intros hs1 vs1 Hs. apply rbind_done in Hs as [[hs3 r'] [H1 H2]]. simpl in H2. inversion H2; subst.
      destruct (IHr _ _ _ _ _ _ _ C Fbr Fo' S H1) as (hs4 & G & S4). rewrite G. simpl. eexists. split; [reflexivity|exact S4]. }
    simpl. destruct (omit_field n tags); [apply Hskip; auto|].
    destruct (is_chan_func t); [apply Hskip; auto|].
    destruct ofs as [|on otags oanon ot ofs']; try discriminate.
    destruct ovs as [|ov ovs']; try discriminate. apply fresh_cons in Fo' as [Fov For]. simpl.
    apply rbind_done in H as [[hs1 v1] [H1 H]]. apply rbind_done in H as [[hs3 r'] [H2 H3]].
    simpl in *. inversion H3; subst. clear H3.
    destruct (IHt _ _ _ _ _ _ _ C Fbv Fov S H1) as (hs4 & G1 & S4).
    destruct (proj1 (overlay_ok h0 n0) t) as [Pft _].
    destruct (Pft _ _ _ _ _ _ C Fbv Fov H1) as (C1 & L1 & F1).
    assert (Fbr1 : refs_fresh n0 (snd hs1) (refs_list bvs')) by (eapply refs_fresh_mono; eauto).
    assert (For1 : refs_fresh n0 (snd hs1) (refs_list ovs')) by (eapply refs_fresh_mono; eauto).
    destruct (IHr _ _ _ _ _ _ _ C1 Fbr1 For1 S4 H2) as (hs5 & G2 & S5).
    rewrite G1. simpl. rewrite G2. simpl. eexists. split; [reflexivity|exact S5].
Qed.

Lemma overlay_struct_shift fs hs bvs ofs ovs hs' vs' hs2 : cinv hs ->
  refs_fresh n0 (snd hs) (refs_list bvs) -> refs_fresh n0 (snd hs) (refs_list ovs) -> hssim hs hs2 ->
  overlay_struct_h fs hs bvs ofs ovs = Done (hs', vs') ->
  exists hs2', overlay_struct_h fs hs2 (map F bvs) ofs (map F ovs) = Done (hs2', map F vs') /\ hssim hs' hs2'.
Proof. apply (proj2 overlay_shift). Qed.

(* one deep copy from a compose state, in both runs *)
Lemma deep_copy_shift fuel hs hs2 a st' v' : cinv hs -> a < n0 -> hssim hs hs2 ->
  deep_copy true fuel (fst hs) (snd hs) (HPtr (Some a)) = Done (st', v') ->
  exists st2', deep_copy true fuel (fst hs2) (snd hs2) (HPtr (Some a)) = Done (st2', F v') /\
               ssim n0 dl st' st2'.
Proof.
  intros C Ha [S1 S2] H. unfold deep_copy in *.
  assert (Hb : refs_below n0 (refs (HPtr (Some a)))) by (intros k b [E|[]]; inversion E; subst; auto).
  assert (S0 : ssim n0 dl (init_cst (fst hs) (snd hs)) (init_cst (fst hs2) (snd hs2))) by (split; simpl; auto).
  exact (copy_shift h0 n0 dl Hwf _ _ _ _ _ _ (cinv_inv _ _ _ C) Hb S0 H).
Qed.

Lemma compose_layers_shift fuel fs : forall layers hs d' hs' hs2, cinv hs -> n0 <= d' < snd hs ->
  Forall (fun l => l < n0) layers -> hssim hs hs2 ->
  compose_layers fuel fs hs d' layers = Done hs' ->
  exists hs2', compose_layers fuel fs hs2 (d' + dl) layers = Done hs2' /\ hssim hs' hs2'.
Proof.
  induction layers as [|l rest IH]; intros hs d' hs' hs2 C Hd Hl S H; simpl in H.
  - inversion H; subst. exists hs2. auto.
  - inversion Hl as [|? ? Hl1 Hl2]; subst.
    apply rbind_done in H as [[st1 v1] [H1 H]]. simpl in H.
    destruct v1 as [ | [l'|] | | | | | | | ]; try discriminate.
    destruct (deep_copy_shift _ _ _ _ _ _ C Hl1 S H1) as (st2 & G1 & S1).
    apply (deep_copy_cinv h0 n0 Hwf) in H1 as (C1 & L1 & F1); auto. apply fresh_ptr in F1.
    destruct (get_struct (c_heap st1) d') as [bvs|] eqn:Gb; try discriminate.
    destruct (get_struct (c_heap st1) l') as [ovs|] eqn:Go; try discriminate.
    apply rbind_done in H as [[hs3 r] [Ho H]]. simpl in H.
    assert (Fbvs : refs_fresh n0 (c_next st1) (refs_list bvs)).
    { apply (get_struct_fresh h0 n0 (c_heap st1, c_next st1) d'); auto; lia. }
    assert (Fovs : refs_fresh n0 (c_next st1) (refs_list ovs)).
    { apply (get_struct_fresh h0 n0 (c_heap st1, c_next st1) l'); auto; lia. }
    assert (S1' : hssim (c_heap st1, c_next st1) (c_heap st2, c_next st2)).
    { split; simpl; [apply (s_heap _ _ _ _ S1)|apply (s_next _ _ _ _ S1)]. }
    destruct (overlay_struct_shift _ _ _ _ _ _ _ _ C1 Fbvs Fovs S1' Ho) as (hs4 & G2 & [S41 S42]).
    pose proof (overlay_struct_ok h0 n0 _ _ _ _ _ _ _ C1 Fbvs Fovs Ho) as (C3 & L3 & F3).
    destruct hs3 as [h3 n3]; simpl in *.
    assert (C4 : cinv (hset h3 d' (OCell (HStruct r)), n3)) by (apply cinv_set; auto; lia).
    assert (S4 : hssim (hset h3 d' (OCell (HStruct r)), n3) (hset (fst hs4) (d' + dl) (OCell (HStruct (map F r))), snd hs4)).
    { split; simpl; auto. apply (hsim_set n0 dl _ _ d' (OCell (HStruct r)) S41). lia. }
    destruct (IH _ _ _ _ C4 (conj (proj1 Hd) (N.lt_le_trans _ _ _ (proj2 Hd) (N.le_trans _ _ _ L1 L3))) Hl2 S4 H) as (hs5 & G3 & S5).
    exists hs5. split; [|exact S5]. cbn [compose_layers]. rewrite (rbind_eq _ _ _ G1). cbn [fst snd].
    change (F (HPtr (Some l'))) with (HPtr (Some (l' + dl))). cbv iota beta.
    rewrite (get_struct_sim _ _ _ _ (s_heap _ _ _ _ S1) (proj1 Hd) Gb).
    rewrite (get_struct_sim _ _ _ _ (s_heap _ _ _ _ S1) (proj1 F1) Go).
    rewrite (rbind_eq _ _ _ G2). cbn [fst snd]. exact G3.
Qed.

End Shift.

(* Stacking the same inputs twice.  The first call runs with the allocator at
   n0 on heap h; the second one with the allocator at m0 >= n0 on any heap h2
   that agrees with h below n0 (for instance the heap the first call left
   behind, m0 its final allocator position).  The second result is the first
   one with every address allocated by the call shifted by m0 - n0: the two
   configs are equal up to this (injective) renaming, hence deeply equal, and
   they occupy disjoint address ranges when m0 is at or above the first
   call's final allocator position. *)
Theorem compose_deterministic_l : forall fuel fs h n0 d layers h1 n1 d1 h2 m0,
  wf_heap h n0 -> d < n0 -> Forall (fun l => l < n0) layers ->
  compose_h fuel fs h n0 d layers = Done ((h1, n1), d1) ->
  n0 <= m0 -> (forall a, a < n0 -> hget h2 a = hget h a) ->
  let dl := m0 - n0 in
  exists h2', compose_h fuel fs h2 m0 d layers = Done ((h2', n1 + dl), d1 + dl) /\
    (forall a o, n0 <= a -> hget h1 a = Some o -> hget h2' (a + dl) = Some (map_addr_obj (fun x => x + dl) o)) /\
    (forall a, a < n0 -> hget h2' a = hget h1 a).
Proof.
  intros fuel fs h n0 d layers h1 n1 d1 h2 m0 Hwf Hd Hl H Hm Hag dl.
  unfold compose_h in H.
  apply rbind_done in H as [[st1 v1] [H1 H]]. simpl in H.
  destruct v1 as [ | [x|] | | | | | | | ]; try discriminate.
  apply rbind_done in H as [hs3 [H2 H]]. inversion H; subst. clear H.
  assert (S0 : hssim n0 dl (h, n0) (h2, m0)).
  { split; simpl; [|unfold dl; lia]. split; auto. intros a o Ha Hg. apply Hwf in Hg. lia. }
  destruct (deep_copy_shift h n0 dl Hwf fuel (h, n0) (h2, m0) d st1 _ (cinv_init h n0 Hwf) Hd S0 H1) as (st2 & G1 & S1).
  apply (deep_copy_cinv h n0 Hwf fuel (h, n0)) in H1 as (C1 & L1 & F1); auto; [|apply cinv_init].
  apply fresh_ptr in F1. simpl in *.
  assert (S1' : hssim n0 dl (c_heap st1, c_next st1) (c_heap st2, c_next st2)).
  { split; simpl; [apply (s_heap _ _ _ _ S1)|apply (s_next _ _ _ _ S1)]. }
  destruct (compose_layers_shift h n0 dl Hwf fuel fs layers _ d1 _ _ C1 F1 Hl S1' H2) as (hs4 & G2 & [S41 S42]).
  destruct hs4 as [h4 n4]; simpl in *. subst n4.
  exists h4. split; [|split].
  - unfold compose_h. simpl in G1. rewrite (rbind_eq _ _ _ G1). cbn [fst snd].
    change (DeepCopyShift.F dl (HPtr (Some d1))) with (HPtr (Some (d1 + dl))). cbv iota beta.
    simpl in G2. rewrite (rbind_eq _ _ _ G2). reflexivity.
  - intros a o Ha Hg. apply (proj2 S41); auto.
  - intros a Ha. apply (proj1 S41); auto.
  - exact Hwf.
Qed.
