(* Idempotence of stacking: a layer that occurs twice in a row anywhere in the
   stack counts once (a source reporting the value it reported before changes
   nothing - re-stacking after an identical update yields the same config). *)
From Coq Require Import List NArith ZArith Bool.
From Dials Require Import Base.Outcome Base.Runes Reflect.Ty Reflect.Ptrify Stack.Overlay Stack.StackSpec
  Stack.Spine Stack.StackProofs.
Import ListNotations.

Definition dup_field (t : ty) : Prop :=
  forall b x, stack_field t b [x; x] = stack_field t b [x].
Definition dup_fields (fs : fields) : Prop :=
  forall bvs names l, stack_fields fs bvs names [l; l] = stack_fields fs bvs names [l].
Definition dup_ty (t : ty) : Prop :=
  dup_field t /\ match t with TStruct fs _ => dup_fields fs | _ => True end.

Lemma last_set_dup x : last_set [x; x] = last_set [x].
Proof. cbn. destruct (is_vnil x); reflexivity. Qed.

Lemma dup_leaf t :
  (forall b l, stack_field t b l = match last_set l with Some lv => unwrap t lv | None => b end) ->
  dup_field t.
Proof. intros H b x. rewrite !H, last_set_dup. reflexivity. Qed.

Lemma sub_layers_dup x :
  (sub_layers [x] = [] /\ sub_layers [x; x] = []) \/
  (exists vs, sub_layers [x] = [vs] /\ sub_layers [x; x] = [vs; vs]).
Proof.
  destruct x as [| | | | | |px| | | |]; try (left; split; reflexivity).
  destruct px as [| | | | | | | | |vs|]; try (left; split; reflexivity).
  right. exists vs. split; reflexivity.
Qed.

Lemma stack_dup : (forall t, dup_ty t) /\ (forall fs, dup_fields fs).
Proof.
  ty_cases; try (split; [apply dup_leaf; intros; reflexivity|exact I]).
  - (* TPtr *) split; [|exact I]. destruct t; try (apply dup_leaf; intros; reflexivity).
    destruct IH as [_ IH]. intros b x. cbn [stack_field].
    destruct (sub_layers_dup x) as [[E1 E2]|[vs [E1 E2]]]; rewrite E1, E2; [reflexivity|].
    destruct b as [| | | | | |bx| | | |]; try reflexivity.
    + rewrite IH. reflexivity.
    + destruct bx as [| | | | | | | | |bvs|]; try reflexivity. rewrite IH. reflexivity.
  - (* TStruct *) split; [|exact IH]. intros b x. cbn [stack_field].
    destruct b; try reflexivity.
    destruct (sub_layers_dup x) as [[E1 E2]|[vs [E1 E2]]]; rewrite E1, E2; [reflexivity|].
    rewrite IH. reflexivity.
  - (* FNil *) intros bvs names l. reflexivity.
  - (* FCons *) destruct IHt as [IHt _]. intros bvs names l.
    destruct bvs as [|b bvs]; [reflexivity|]. cbn [stack_fields map].
    rewrite IHr. destruct (omit_field n tags || is_chan_func t); [reflexivity|]. rewrite IHt. reflexivity.
Qed.

(* anywhere in the stack *)
Lemma stack_fields_repeat_l fs bvs names pre l post :
  stack_fields fs bvs names (pre ++ l :: l :: post) = stack_fields fs bvs names (pre ++ l :: post).
Proof.
  change (l :: l :: post) with ([l; l] ++ post). change (l :: post) with ([l] ++ post).
  rewrite !(proj2 stack_app fs bvs names pre), !(proj2 stack_app fs _ names _ post).
  rewrite (proj2 stack_dup fs). reflexivity.
Qed.

Lemma stack_repeat_l fs d ls1 l ls2 :
  stack fs d (ls1 ++ l :: l :: ls2) = stack fs d (ls1 ++ l :: ls2).
Proof.
  unfold stack. rewrite !flat_map_app. cbn [flat_map].
  destruct (layer_fields l) as [vs|]; cbn [app]; [|reflexivity].
  apply stack_fields_repeat_l.
Qed.
