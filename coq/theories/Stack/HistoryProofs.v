(* Over any sequence of re-stacks with the monotone allocator the reachable
   sets of all versions are pairwise disjoint and disjoint from everything
   reachable from the defaults (the caller's and the pristine copy) and from
   every value a source ever reported. *)
From Coq Require Import List NArith ZArith Bool Lia.
From Dials Require Import Base.Outcome Base.Runes Reflect.Ty Reflect.Ptrify Reflect.Heap Stack.Overlay
  Copy.DeepCopy Copy.DeepCopySpec Copy.DeepCopyBasics Copy.DeepCopyInv Stack.ComposeH Stack.ComposeHProofs Stack.History.
Import ListNotations.
Open Scope N_scope.
Local Arguments hset : simpl never.
Local Arguments hget : simpl never.

Definition outside (vs : list version) (a : addr) : Prop := in_versions vs a = false.

Lemma outside_cons v vs a : outside (v :: vs) a <-> in_version v a = false /\ outside vs a.
Proof. unfold outside; simpl. rewrite orb_false_iff. tauto. Qed.

Lemma in_version_iff v a : in_version v a = true <-> v_lo v <= a < v_hi v.
Proof. unfold in_version. rewrite andb_true_iff, N.leb_le, N.ltb_lt. tauto. Qed.

Lemma in_version_false v a : in_version v a = false <-> ~ (v_lo v <= a < v_hi v).
Proof. rewrite <- in_version_iff. destruct (in_version v a); split; intros; congruence. Qed.

Lemma in_versions_in vs v a : In v vs -> v_lo v <= a < v_hi v -> in_versions vs a = true.
Proof.
  intros Hin Ha. unfold in_versions. apply existsb_exists. exists v. split; auto. apply in_version_iff; auto.
Qed.

(* the invariant of a run *)
Record hinv (h : heap) (n : addr) (d : addr) (vs : list version) : Prop := {
  h_wf : wf_heap h n;
  h_vers : forall v, In v vs -> v_lo v <= v_root v < v_hi v /\ v_hi v <= n /\
             (forall x o, hget h x = Some o -> v_lo v <= x -> x < v_hi v -> refs_fresh (v_lo v) (v_hi v) (obj_refs o));
  h_out : forall x o, hget h x = Some o -> outside vs x -> forall k b, In (k, b) (obj_refs o) -> outside vs b;
  h_d : d < n /\ outside vs d }.

(* intervals of a list of versions (newest first) do not overlap *)
Fixpoint ordered (vs : list version) : Prop :=
  match vs with
  | [] => True
  | v :: r => (forall u, In u r -> v_hi u <= v_lo v) /\ ordered r
  end.

Lemma place_spec : forall objs h n, (forall a o, hget h a = Some o -> a < n) ->
  n <= snd (place h n objs) /\
  (forall a, a < n -> hget (fst (place h n objs)) a = hget h a) /\
  (forall a o, hget (fst (place h n objs)) a = Some o -> a < snd (place h n objs)) /\
  (forall a o, hget (fst (place h n objs)) a = Some o -> n <= a -> In o objs).
Proof.
  induction objs as [|o r IH]; intros h n Hb; simpl.
  - split; [lia|]. split; [auto|]. split; [auto|]. intros a o Hg Hge. apply Hb in Hg. lia.
  - destruct (IH (hset h n o) (n + 1)) as (L & F & B & N').
    { intros a o' Hg. destruct (N.eq_dec a n); [subst; lia|]. rewrite hget_hset_ne in Hg by auto. apply Hb in Hg. lia. }
    split; [lia|]. split; [|split; [auto|]].
    + intros a Ha. rewrite F by lia. apply hget_hset_ne. lia.
    + intros a o' Hg Hge. destruct (N.eq_dec a n).
      * subst. rewrite F in Hg by lia. rewrite hget_hset_eq in Hg. inversion Hg; auto.
      * right. apply (N' a o' Hg). lia.
Qed.

Lemma src_ok_spec acc n1 e : src_ok acc n1 e = true ->
  (forall o k b, In o (ev_objs e) -> In (k, b) (obj_refs o) -> b < n1 /\ outside acc b) /\
  (forall l, In l (ev_layers e) -> l < n1 /\ outside acc l).
Proof.
  unfold src_ok. rewrite andb_true_iff, !forallb_forall. intros [H1 H2]. split.
  - intros o k b Ho Hb. apply H1 in Ho. rewrite forallb_forall in Ho. apply Ho in Hb. simpl in Hb.
    apply andb_true_iff in Hb as [A B]. apply N.ltb_lt in A. apply negb_true_iff in B. auto.
  - intros l Hl. apply H2 in Hl. apply andb_true_iff in Hl as [A B]. apply N.ltb_lt in A. apply negb_true_iff in B. auto.
Qed.

Lemma run_history_inv fuel fs d : forall evs h n acc hs' vs',
  hinv h n d acc -> ordered acc ->
  run_history fuel fs h n d acc evs = Done (hs', vs') ->
  hinv (fst hs') (snd hs') d vs' /\ ordered vs' /\
  (forall x, x < n -> outside acc x -> outside vs' x) /\
  (forall e l, In e evs -> In l (ev_layers e) -> outside vs' l) /\
  (forall a o, hget h a = Some o -> hget (fst hs') a = Some o).
Proof.
  induction evs as [|e rest IH]; intros h n acc hs' vs' HI Ho H; simpl in H.
  - inversion H; subst. simpl. split; [auto|split; [auto|split; [auto|split; [intros ? ? []|auto]]]].
  - destruct (place h n (ev_objs e)) as [h1 n1] eqn:Hp. simpl in H.
    destruct (src_ok acc n1 e) eqn:Hs; [|discriminate].
    apply rbind_done in H as [[[h2 n2] r] [Hc H]]. simpl in H.
    destruct HI as [Hwf Hv Hout [Hd Hdo]].
    destruct (place_spec (ev_objs e) h n) as (L & F & B & N').
    { intros a o Hg. apply Hwf in Hg. tauto. }
    rewrite Hp in L, F, B, N'. simpl in L, F, B, N'.
    destruct (src_ok_spec _ _ _ Hs) as [So Sl].
    assert (Hwf1 : wf_heap h1 n1).
    { intros a o Hg. split; [eapply B; eauto|]. destruct (N.lt_ge_cases a n) as [Hlt|Hge].
      - rewrite F in Hg by auto. apply Hwf in Hg as [_ Hr]. intros k b Hin. apply Hr in Hin. lia.
      - intros k b Hin. eapply So; eauto. }
    assert (Hl : Forall (fun l => l < n1) (ev_layers e)).
    { apply Forall_forall. intros l Hin. apply Sl in Hin. tauto. }
    assert (Hd1 : d < n1) by lia.
    destruct (compose_h_ok h1 n1 Hwf1 _ _ _ _ _ _ Hd1 Hl Hc) as [C Hr]. simpl in Hr.
    pose proof (cinv_wf _ _ _ Hwf1 C) as Hwf2. simpl in Hwf2.
    set (v := mk_version r n1 n2) in *.
    assert (Hlow : forall x, x < n1 -> in_version v x = false).
    { intros x Hx. apply in_version_false. simpl. lia. }
    assert (HI2 : hinv h2 n2 d (v :: acc)).
    { split.
      - exact Hwf2.
      - intros u [<-|Hu].
        + simpl. split; [lia|split; [lia|]]. intros x o Hg H1 H2. apply (c_region _ _ _ C x o Hg H1).
        + destruct (Hv u Hu) as (R1 & R2 & R3). split; [auto|split; [lia|]].
          intros x o Hg H1 H2. apply (R3 x o); auto.
          rewrite (c_frame _ _ _ C) in Hg by (simpl; lia). simpl in Hg. rewrite F in Hg by lia. exact Hg.
      - intros x o Hg Hx k b Hin. apply outside_cons in Hx as [Hxv Hxa]. apply outside_cons.
        assert (Hx1 : x < n1).
        { apply in_version_false in Hxv. simpl in Hxv. pose proof (c_bound _ _ _ C _ _ Hg). simpl in *. lia. }
        rewrite (c_frame _ _ _ C) in Hg by (simpl; lia). simpl in Hg.
        destruct (N.lt_ge_cases x n) as [Hlt|Hge].
        * rewrite F in Hg by auto. split.
          -- apply Hlow. apply Hwf in Hg as [_ Hrf]. apply Hrf in Hin. lia.
          -- eapply Hout; eauto.
        * apply N' in Hg; auto. destruct (So _ _ _ Hg Hin) as [S1 S2]. split; [apply Hlow|]; auto.
      - split; [lia|]. apply outside_cons. split; [apply Hlow; lia|auto]. }
    assert (Ho2 : ordered (v :: acc)).
    { simpl. split; auto. intros u Hu. destruct (Hv u Hu) as (_ & R2 & _). lia. }
    apply IH in H as (HI3 & Ho3 & Hm3 & Hl3 & Hs3); auto. simpl in *.
    split; [auto|split; [auto|split; [|split]]].
    + intros x Hx Hxo. apply Hm3; [lia|]. apply outside_cons. split; [apply Hlow; lia|auto].
    + intros e' l [<-|He] Hin.
      * destruct (Sl l Hin) as [S1 S2]. apply Hm3; [lia|]. apply outside_cons. split; [apply Hlow|]; auto.
      * eapply Hl3; eauto.
    + intros a o Hg. apply Hs3. assert (a < n) by (apply Hwf in Hg; tauto).
      rewrite (c_frame _ _ _ C) by (simpl; lia). simpl. rewrite F by auto. auto.
Qed.

Lemma reach_outside H vs : (forall x o, hget H x = Some o -> outside vs x -> forall k b, In (k, b) (obj_refs o) -> outside vs b) ->
  forall rs a, reach H rs a -> (forall k b, In (k, b) rs -> outside vs b) -> outside vs a.
Proof.
  intros Hc rs a Hr. induction Hr; intro Hrs.
  - eapply Hrs; eauto.
  - apply IHHr. intros k' b' Hin. eapply Hc; eauto.
Qed.

Lemma ordered_disjoint vs : ordered vs -> forall u v, In u vs -> In v vs -> u <> v ->
  v_hi u <= v_lo v \/ v_hi v <= v_lo u.
Proof.
  induction vs as [|w r IH]; intros Ho u v Hu Hv Hne; [contradiction|].
  destruct Ho as [Hw Hr]. destruct Hu as [<-|Hu], Hv as [<-|Hv].
  - congruence.
  - right. apply Hw; auto.
  - left. apply Hw; auto.
  - apply IH; auto.
Qed.

Theorem versions_pairwise_disjoint_l : forall fuel fs h n0 defaults evs H N d vs,
  wf_heap h n0 -> defaults < n0 ->
  config_h fuel fs h n0 defaults evs = Done ((H, N), d, vs) ->
  (* any two versions: nothing reachable from both *)
  (forall u v a, In u vs -> In v vs -> u <> v ->
     reach H [(RCell, v_root u)] a -> reach H [(RCell, v_root v)] a -> False) /\
  (* a version and an input (the caller's defaults, the pristine copy, any value a source reported) *)
  (forall v x a, In v vs ->
     (x = defaults \/ x = d \/ exists e, In e evs /\ In x (ev_layers e)) ->
     reach H [(RCell, v_root v)] a -> reach H [(RCell, x)] a -> False) /\
  (* everything that existed before Config is still there, unchanged *)
  (forall a o, hget h a = Some o -> hget H a = Some o).
Proof.
  intros fuel fs h n0 defaults evs H N d vs Hwf Hdef Hc. unfold config_h in Hc.
  apply rbind_done in Hc as [[st1 v1] [H1 Hc]]. simpl in Hc.
  destruct v1 as [ | [d1|] | | | | | | | ]; try discriminate.
  apply rbind_done in Hc as [[hs2 vs2] [H2 Hc]]. simpl in Hc. inversion Hc; subst. clear Hc.
  pose proof (deep_copy_cinv h n0 Hwf fuel (h, n0) defaults st1 _ (cinv_init h n0 Hwf) Hdef H1) as (C1 & L1 & F1).
  simpl in L1. apply fresh_ptr in F1.
  pose proof (cinv_wf _ _ _ Hwf C1) as Hwf1. simpl in Hwf1.
  assert (HI : hinv (c_heap st1) (c_next st1) d [] ).
  { split.
    - exact Hwf1.
    - intros v [].
    - intros; reflexivity.
    - split; [lia|reflexivity]. }
  destruct (run_history_inv fuel fs d evs _ _ _ _ _ HI I H2) as (HI2 & Ho2 & Hm2 & Hl2 & Hs2). simpl in *.
  destruct HI2 as [Hwf2 Hv2 Hout2 [Hd2 Hdo2]].
  assert (Hin_v : forall v a, In v vs -> reach H [(RCell, v_root v)] a -> v_lo v <= a < v_hi v).
  { intros v a Hv Hr. destruct (Hv2 v Hv) as (R1 & R2 & R3).
    eapply reach_closed; [|exact Hr|].
    - intros x o Hg Hge Hlt. apply (R3 x o); auto.
    - intros k b [E|[]]. inversion E; subst. auto. }
  assert (Hout_r : forall x a, outside vs x -> reach H [(RCell, x)] a -> outside vs a).
  { intros x a Hx Hr. eapply reach_outside; [exact Hout2|exact Hr|].
    intros k b [E|[]]. inversion E; subst. auto. }
  split; [|split].
  - intros u v a Hu Hv Hne Hru Hrv. apply Hin_v in Hru; auto. apply Hin_v in Hrv; auto.
    destruct (ordered_disjoint vs Ho2 u v Hu Hv Hne); lia.
  - intros v x a Hv Hx Hrv Hrx. apply Hin_v in Hrv; auto.
    assert (Hxo : outside vs x).
    { destruct Hx as [->|[->|(e & He & Hl)]].
      - apply Hm2; [lia|reflexivity].
      - auto.
      - eapply Hl2; eauto. }
    apply (Hout_r x a Hxo) in Hrx. unfold outside in Hrx.
    rewrite (in_versions_in vs v a Hv Hrv) in Hrx. discriminate.
  - intros a o Hg. apply Hs2. assert (a < n0) by (apply Hwf in Hg; tauto).
    rewrite (c_frame _ _ _ C1) by auto. auto.
Qed.
