(* Model of /repo/overlay.go (overlayField, overlayStruct) and of compose
   (/repo/dials.go) on tree values.  Mirrors the Go control flow: the two
   cursors of overlayStruct are the recursion over the base field list `bfs`
   (i) carrying the remaining overlay fields `ofs`/`ovs` (j).  reflect panics
   are Panic outcomes:
     1 = overlayStruct "non-struct call"       2 = index out of range (overlay.Field(j))
     3 = reflect.Set with a non-assignable value / Type.Elem of a wrong kind
     8 = ill-typed input (value does not have the stated type)
   Err codes: 1 unexpected kind for mangled pointer target, 2 shallow-copy
   struct as pointer target, 4 user pointer type mismatch, 5 TextU struct not
   assignable, 99 interface-typed field (overlayInterface is not modelled). *)
From Coq Require Import List NArith ZArith Bool.
From Dials Require Import Base.Outcome Base.Runes Reflect.Ty Reflect.Ptrify.
Import ListNotations.
Open Scope N_scope.

Definition is_vnil (v : val) : bool := match v with VNil => true | _ => false end.

Definition nilable_kind (t : ty) : bool :=
  match t with TSlice _ _ | TPtr _ | TIface | TMap _ _ _ => true | _ => false end.

Fixpoint overlay_field (bt : ty) (bv : val) (ot : ty) (ov : val) {struct bt} : outcome val :=
  if nilable_kind ot && is_vnil ov then Ok bv else
  match bt with
  | TPtr be =>
      match bv with
      | VNil =>
          match ot with
          | TPtr oe =>
              if ty_eqb be oe then Ok ov
              else match be with
                   | TStruct bfs _ =>
                       match oe, ov with
                       | TStruct ofs _, VPtr (VStruct ovs) =>
                           r <- overlay_struct bfs (zero_fields bfs) ofs ovs ;; Ok (VPtr (VStruct r))
                       | _, _ => Panic 1
                       end
                   | TTextU _ _ => Err 2
                   | _ => Err 1
                   end
          | _ => Panic 3
          end
      | VPtr bx =>
          match be with
          | TTextU _ _ =>
              if ty_eqb ot bt then Ok ov
              else if ty_eqb ot be then Ok (VPtr ov) else Ok bv
          | TStruct bfs _ =>
              match bx, ot, ov with
              | VStruct bvs, TPtr (TStruct ofs _), VPtr (VStruct ovs) =>
                  r <- overlay_struct bfs bvs ofs ovs ;; Ok (VPtr (VStruct r))
              | _, _, _ => Panic 1
              end
          | _ =>
              (* user-declared pointer to a non-struct: replaced as a whole
                 (fix: commit for finding 1; the pinned code panicked here) *)
              if ty_eqb ot bt then Ok ov else Err 4
          end
      | _ => Panic 8
      end
  | TIface => Err 99
  | TTextU _ _ =>
      match ot, ov with
      | TPtr oe, VPtr x => if ty_eqb oe bt then Ok x else Panic 3
      | TTextU _ _, _ => if ty_eqb ot bt then Ok ov else Err 5
      | _, _ => Err 5
      end
  | TStruct bfs _ =>
      match bv with
      | VStruct bvs =>
          match ot, ov with
          | TPtr (TStruct ofs _), VPtr (VStruct ovs) => r <- overlay_struct bfs bvs ofs ovs ;; Ok (VStruct r)
          | TStruct ofs _, VStruct ovs => r <- overlay_struct bfs bvs ofs ovs ;; Ok (VStruct r)
          | _, _ => Panic 1
          end
      | _ => Panic 8
      end
  | _ =>
      match ot, ov with
      | TPtr oe, VPtr x => if ty_eqb oe bt then Ok x else Panic 3
      | _, _ => if ty_eqb ot bt then Ok ov else Panic 3
      end
  end
with overlay_struct (bfs : fields) (bvs : list val) (ofs : fields) (ovs : list val) {struct bfs}
  : outcome (list val) :=
  match bfs, bvs with
  | FNil, _ => Ok []
  | FCons n tags _ t r, bv :: bvs' =>
      if omit_field n tags then r' <- overlay_struct r bvs' ofs ovs ;; Ok (bv :: r')
      else if is_chan_func t then r' <- overlay_struct r bvs' ofs ovs ;; Ok (bv :: r')
      else match ofs, ovs with
           | FCons _ _ _ ot ofs', ov :: ovs' =>
               v <- overlay_field t bv ot ov ;;
               r' <- overlay_struct r bvs' ofs' ovs' ;; Ok (v :: r')
           | _, _ => Panic 2
           end
  | FCons _ _ _ _ _, [] => Panic 8
  end.

(* compose (dials.go): layers in argument order onto (a fresh copy of) the
   defaults; a pointer layer is dereferenced automatically.  The layer's type
   is the pointerified config type handed to every source. *)
Definition layer_fields (l : val) : option (list val) :=
  match l with
  | VStruct vs => Some vs
  | VPtr (VStruct vs) => Some vs
  | _ => None
  end.

Fixpoint compose (fs : fields) (cur : list val) (layers : list val) : outcome (list val) :=
  match layers with
  | [] => Ok cur
  | l :: rest =>
      match layer_fields l with
      | Some lvs => cur' <- overlay_struct fs cur (ptrify_fields fs) lvs ;; compose fs cur' rest
      | None => Panic 1
      end
  end.
