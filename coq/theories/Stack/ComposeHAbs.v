(* The tree value of a heap value (definitions only): the unfolding C01's
   harness prints (rty.ValTerm) - pointers and interface values become VPtr,
   maps VMap, slices the list of their len elements, unexported fields their
   contents.  Used by the C02 check to tie the heap-level compose to C01's
   specification `stack` on every shipped case whose defaults have an
   alias-free spine.  (The corresponding THEOREM, compose_h_contents, is not
   proved - see notes/C02.md.) *)
From Coq Require Import List NArith ZArith Bool.
From Dials Require Import Base.Outcome Base.Runes Reflect.Ty Reflect.Ptrify Reflect.Heap Stack.Overlay
  Stack.StackSpec Copy.DeepCopy Stack.ComposeH.
Import ListNotations.
Open Scope N_scope.

Fixpoint all_opt {A} (l : list (option A)) : option (list A) :=
  match l with
  | [] => Some []
  | Some x :: r => match all_opt r with Some r' => Some (x :: r') | None => None end
  | None :: _ => None
  end.

Fixpoint habs (fuel : nat) (h : heap) (v : hv) {struct fuel} : option val :=
  match fuel with
  | O => None
  | S f =>
    match v with
    | HLeaf x => Some x
    | HPtr None | HMap None | HSlice None | HNilIface => Some VNil
    | HPtr (Some a) =>
        match hget h a with Some (OCell x) => option_map VPtr (habs f h x) | _ => None end
    | HMap (Some a) =>
        match hget h a with
        | Some (OMap kvs) =>
            option_map VMap (all_opt (map (fun kv =>
              match habs f h (fst kv), habs f h (snd kv) with Some k, Some x => Some (k, x) | _, _ => None end) kvs))
        | _ => None
        end
    | HSlice (Some s) =>
        match hget h (s_arr s) with
        | Some (OArr es) =>
            option_map VList (all_opt (map (habs f h) (firstn (N.to_nat (s_len s)) (window es (s_off s) (s_cap s)))))
        | _ => None
        end
    | HIface _ x => option_map VPtr (habs f h x)
    | HPriv x => habs f h x
    | HStruct l => option_map VStruct (all_opt (map (habs f h) l))
    | HArray l => option_map VList (all_opt (map (habs f h) l))
    end
  end.

(* cells of the spine of a value of type t: the pointees of its pointer-to-struct fields, recursively *)
Fixpoint scells (h : heap) (t : ty) (v : hv) {struct t} : list addr :=
  match t with
  | TStruct fs _ => match v with HStruct vs => scells_fields h fs vs | _ => [] end
  | TPtr (TStruct fs _) =>
      match v with
      | HPtr (Some a) => a :: match get_struct h a with Some vs => scells_fields h fs vs | None => [] end
      | _ => []
      end
  | _ => []
  end
with scells_fields (h : heap) (fs : fields) (vs : list hv) {struct fs} : list addr :=
  match fs, vs with
  | FCons n tags _ t r, v :: vs' =>
      (if omit_field n tags || is_chan_func t then [] else scells h t v) ++ scells_fields h r vs'
  | _, _ => []
  end.

Fixpoint nodup_addrs (l : list addr) : bool :=
  match l with
  | [] => true
  | a :: r => negb (existsb (N.eqb a) r) && nodup_addrs r
  end.

(* the spine of the struct in cell d is alias free: every spine cell is referenced once along the spine *)
Definition spine_alias_free (h : heap) (fs : fields) (d : addr) : bool :=
  match get_struct h d with Some vs => nodup_addrs (scells_fields h fs vs) | None => false end.

(* the harness's walker prints a TextUnmarshaler struct (struct{ S string }) as the struct it
   is, C01's tree values as the opaque leaf VText s: identify the two *)
Fixpoint norm_text (v : val) : val :=
  match v with
  | VText s => VStruct [VStr s]
  | VPtr x => VPtr (norm_text x)
  | VList l => VList (map norm_text l)
  | VMap kvs => VMap (map (fun kv => (norm_text (fst kv), norm_text (snd kv))) kvs)
  | VStruct l => VStruct (map norm_text l)
  | _ => v
  end.

(* contents of the stacked config = C01's specification on the tree values of the inputs *)
Definition contents_agree (fuel : nat) (fs : fields) (h : heap) (d : addr) (layers : list addr)
           (hm : heap) (dm : addr) : bool :=
  match habs fuel h (HPtr (Some d)), all_opt (map (fun l => habs fuel h (HPtr (Some l))) layers),
        habs fuel hm (HPtr (Some dm)) with
  | Some (VPtr (VStruct dvs)), Some lvs, Some (VPtr (VStruct r)) =>
      val_eqb (norm_text (VList r)) (norm_text (VList (stack fs dvs lvs)))
  | _, _, _ => false
  end.
