(* Spine typing: the part of "value v has type t" that stacking depends on
   (struct shapes along struct / pointer-to-struct fields; pointers are nil
   or non-nil).  Contents of leaves are unconstrained. *)
From Coq Require Import List NArith ZArith Bool.
From Dials Require Import Base.Outcome Base.Runes Reflect.Ty Reflect.Ptrify Stack.Overlay Stack.StackSpec.
Import ListNotations.

Fixpoint spine (t : ty) (v : val) {struct t} : bool :=
  match t with
  | TStruct fs _ => match v with VStruct vs => spine_fields fs vs | _ => false end
  | TPtr (TStruct fs _) =>
      match v with VNil => true | VPtr (VStruct vs) => spine_fields fs vs | _ => false end
  | TPtr _ => match v with VNil | VPtr _ => true | _ => false end
  | _ => true
  end
with spine_fields (fs : fields) (vs : list val) {struct fs} : bool :=
  match fs, vs with
  | FNil, [] => true
  | FCons _ _ _ t r, v :: vs' => spine t v && spine_fields r vs'
  | _, _ => false
  end.

(* the names of the retained fields are distinct in every struct type
   reachable along the spine (Go guarantees it for all fields) *)
Fixpoint name_in (n : str) (l : list str) : bool :=
  match l with [] => false | m :: r => str_eqb n m || name_in n r end.

Fixpoint nodup_names (l : list str) : bool :=
  match l with [] => true | n :: r => negb (name_in n r) && nodup_names r end.

Fixpoint wf_ty (t : ty) : bool :=
  match t with
  | TStruct fs _ => nodup_names (field_names (ptrify_fields fs)) && wf_fields fs
  | TPtr (TStruct fs n) => nodup_names (field_names (ptrify_fields fs)) && wf_fields fs
  | _ => true
  end
with wf_fields (fs : fields) : bool :=
  match fs with
  | FNil => true
  | FCons n tags _ t r => (omit_field n tags || wf_ty t) && wf_fields r
  end.

Definition layer_ok (fs : fields) (l : val) : bool :=
  match layer_fields l with Some vs => spine_fields (ptrify_fields fs) vs | None => false end.
