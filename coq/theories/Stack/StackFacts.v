(* Non-vacuity examples for C01: a nested config type with skipped fields in
   the middle, three layers, every hypothesis of the theorems satisfied. *)
From Coq Require Import String.
From Coq Require Import List NArith ZArith Bool.
From Dials Require Import Base.Outcome Base.Runes Reflect.Ty Reflect.Ptrify Stack.Overlay Stack.StackSpec
  Stack.Spine Stack.StackProofs.
Import ListNotations.
Open Scope string_scope.
Open Scope list_scope.

Definition tint := TBasic (KInt 64) [].
Definition tstr := TBasic KString [].
Definition F (n : string) (t : ty) (r : fields) := FCons (s2r n) [] false t r.
Definition Fskip (n : string) (t : ty) (r : fields) := FCons (s2r n) [(s2r "dials", s2r "-")] false t r.

(* struct { A int; hidden string; B struct{ X int; Skip int `dials:"-"`; Y string };
            C chan; P *struct{ Z int }; S []string; U *int } *)
Definition inner := F "X" tint (Fskip "Skip" tint (F "Y" tstr FNil)).
Definition pinner := F "Z" tint FNil.
Definition cfg : fields :=
  F "A" tint (F "hidden" tstr (F "B" (TStruct inner (s2r "Inner"))
  (F "C" TChan (F "P" (TPtr (TStruct pinner (s2r "PInner"))) (F "S" (TSlice tstr []) (F "U" (TPtr tint) FNil)))))).

Definition I (z : Z) := VInt z.
Definition S (s : string) := VStr (s2r s).
Definition defaults : list val :=
  [I 1; S "h"; VStruct [I 10; I 11; S "y0"]; VOpaque 7; VNil; VList [S "s0"]; VPtr (I 5)].
(* layers of the pointerified type { A *int; B *{X *int; Y *string}; P *{Z *int}; S []string; U *int } *)
Definition l1 : val := VStruct [VPtr (I 2); VPtr (VStruct [VPtr (I 20); VNil]); VNil; VNil; VNil].
Definition l2 : val := VStruct [VNil; VPtr (VStruct [VNil; VPtr (S "y2")]); VPtr (VStruct [VPtr (I 9)]); VList [S "s2"]; VPtr (I 6)].
Definition l3 : val := VPtr (VStruct [VPtr (I 3); VNil; VNil; VNil; VNil]).

Example hypotheses_hold :
  cfg_ok cfg && spine_fields cfg defaults && forallb (layer_ok cfg) [l1; l2; l3] = true.
Proof. vm_compute. reflexivity. Qed.

Example stacked :
  compose cfg defaults [l1; l2; l3] =
  Ok [I 3; S "h"; VStruct [I 20; I 11; S "y2"]; VOpaque 7; VPtr (VStruct [I 9]); VList [S "s2"]; VPtr (I 6)].
Proof. vm_compute. reflexivity. Qed.
