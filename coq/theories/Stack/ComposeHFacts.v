(* Examples (non-vacuity) and the C02 theorems with decidable guards. *)
From Coq Require Import List NArith ZArith Bool Lia.
From Dials Require Import Base.Outcome Base.Runes Reflect.Ty Reflect.Ptrify Reflect.Heap Stack.Overlay
  Copy.DeepCopy Copy.DeepCopySpec Copy.DeepCopyBasics Copy.DeepCopyInv Copy.DeepCopyTerm Copy.Canon
  Stack.ComposeH Stack.ComposeHProofs Stack.ComposeHShift Stack.History Stack.HistoryProofs
  Stack.StackProofs Stack.ComposeHTyping Stack.ComposeHTotal.
Import ListNotations.
Open Scope N_scope.

(* type Cfg struct { M map[string]int64; P *int64; N int64; S struct{ Q *int64 } } *)
Definition t_i64 : ty := TBasic (KInt 64) [].
Definition ex_fs : fields :=
  FCons [77] [] false (TMap (TBasic KString []) t_i64 [])
 (FCons [80] [] false (TPtr t_i64)
 (FCons [78] [] false t_i64
 (FCons [83] [] false (TStruct (FCons [81] [] false (TPtr t_i64) FNil) []) FNil))).

(* defaults at 0; one map (1) and one int (2) are SHARED between the defaults
   and the first layer (3); the second layer (6) shares the map with both and
   sets the nested struct *)
Definition ex_heap : heap :=
  [(0, OCell (HStruct [HMap (Some 1); HPtr (Some 2); HLeaf (VInt 5); HStruct [HPtr None]]));
   (1, OMap [(HLeaf (VStr [107]), HLeaf (VInt 1))]);
   (2, OCell (HLeaf (VInt 7)));
   (3, OCell (HStruct [HMap (Some 1); HPtr (Some 2); HPtr (Some 4); HPtr None]));
   (4, OCell (HLeaf (VInt 9)));
   (6, OCell (HStruct [HMap (Some 1); HPtr None; HPtr None; HPtr (Some 7)]));
   (7, OCell (HStruct [HPtr (Some 2)]))].

Example ex_guard : wf_heapb ex_heap 8 = true /\ layers_below 8 [3; 6] = true.
Proof. split; vm_compute; reflexivity. Qed.

Example ex_compose :
  match compose_h 100 ex_fs ex_heap 8 0 [3; 6] with
  | Done ((h', n'), d') =>
      (* merged contents: M and P from the layers (copies), N = 9, S.Q set by the second layer *)
      match hget h' d' with
      | Some (OCell (HStruct [HMap (Some m); HPtr (Some p); HLeaf (VInt 9); HStruct [HPtr (Some q)]])) =>
          (8 <=? m) && (8 <=? p) && (8 <=? q) && negb (p =? q)
      | _ => false
      end &&
      match reach_addrs 100 h' (HPtr (Some d')) with Done l => all_ge 8 l | _ => false end
  | _ => false
  end = true.
Proof. vm_compute. reflexivity. Qed.

(* a run: Config stacks [3], then an update makes the sources' values [3; 6] *)
Example ex_history :
  match config_h 100 ex_fs ex_heap 8 0 [mk_event [] [3]; mk_event [] [3; 6]] with
  | Done ((H, N), d, vs) => (length vs =? 2)%nat
  | _ => false
  end = true.
Proof. vm_compute. reflexivity. Qed.

(* ---- decidable-guard forms ---- *)
Theorem compose_fresh_b : forall fuel fs h n0 d layers h' n' d',
  wf_heapb h n0 = true -> d <? n0 = true -> layers_below n0 layers = true ->
  compose_h fuel fs h n0 d layers = Done ((h', n'), d') ->
  n0 <= d' < n' /\
  forall a, reach h' [(RCell, d')] a -> n0 <= a < n' /\ hget h a = None.
Proof.
  intros fuel fs h n0 d layers h' n' d' H1 H2 H3 H4.
  apply (compose_fresh_l fuel fs h n0 d layers h' n' d'); auto using wf_heapb_ok, layers_below_ok.
  apply N.ltb_lt; auto.
Qed.

Theorem compose_inputs_unchanged_b : forall fuel fs h n0 d layers h' n' d',
  wf_heapb h n0 = true -> d <? n0 = true -> layers_below n0 layers = true ->
  compose_h fuel fs h n0 d layers = Done ((h', n'), d') ->
  (forall a, a < n0 -> hget h' a = hget h a) /\
  (forall a o, hget h a = Some o -> hget h' a = Some o).
Proof.
  intros fuel fs h n0 d layers h' n' d' H1 H2 H3 H4.
  apply (compose_inputs_unchanged_l fuel fs h n0 d layers h' n' d'); auto using wf_heapb_ok, layers_below_ok.
  apply N.ltb_lt; auto.
Qed.

Theorem versions_pairwise_disjoint_b : forall fuel fs h n0 defaults evs H N d vs,
  wf_heapb h n0 = true -> defaults <? n0 = true ->
  config_h fuel fs h n0 defaults evs = Done ((H, N), d, vs) ->
  (forall u v a, In u vs -> In v vs -> u <> v ->
     reach H [(RCell, v_root u)] a -> reach H [(RCell, v_root v)] a -> False) /\
  (forall v x a, In v vs ->
     (x = defaults \/ x = d \/ exists e, In e evs /\ In x (ev_layers e)) ->
     reach H [(RCell, v_root v)] a -> reach H [(RCell, x)] a -> False) /\
  (forall a o, hget h a = Some o -> hget H a = Some o).
Proof.
  intros fuel fs h n0 defaults evs H N d vs H1 H2 H3.
  apply (versions_pairwise_disjoint_l fuel fs h n0 defaults evs H N d vs); auto using wf_heapb_ok.
  apply N.ltb_lt; auto.
Qed.

(* stacking the same inputs twice, one call after the other *)
Theorem compose_deterministic_b : forall fuel fs h n0 d layers h1 n1 d1,
  wf_heapb h n0 = true -> d <? n0 = true -> layers_below n0 layers = true ->
  compose_h fuel fs h n0 d layers = Done ((h1, n1), d1) ->
  let dl := n1 - n0 in
  exists h2, compose_h fuel fs h1 n1 d layers = Done ((h2, n1 + dl), d1 + dl) /\
    (forall a o, n0 <= a -> hget h1 a = Some o -> hget h2 (a + dl) = Some (map_addr_obj (fun x => x + dl) o)) /\
    (forall a, a < n1 -> hget h2 a = hget h1 a) /\
    (forall a, reach h2 [(RCell, d1)] a -> reach h2 [(RCell, d1 + dl)] a -> False).
Proof.
  intros fuel fs h n0 d layers h1 n1 d1 G1 G2 G3 H dl.
  apply wf_heapb_ok in G1. apply N.ltb_lt in G2. apply layers_below_ok in G3.
  destruct (compose_h_ok h n0 G1 _ _ _ _ _ _ G2 G3 H) as [C Hd1]. simpl in Hd1.
  pose proof (c_lo _ _ _ C) as Hlo. simpl in Hlo.
  assert (Hag : forall a, a < n0 -> hget h1 a = hget h a) by (apply (c_frame _ _ _ C)).
  destruct (compose_deterministic_l fuel fs h n0 d layers h1 n1 d1 h1 n1 G1 G2 G3 H Hlo Hag) as (h2 & E & Sh & Lo).
  fold dl in E, Sh. exists h2. split; [exact E|split; [exact Sh|]].
  pose proof (cinv_wf _ _ _ G1 C) as Hwf1. simpl in Hwf1.
  assert (G2' : d < n1) by lia.
  assert (G3' : Forall (fun l => l < n1) layers).
  { apply Forall_forall. intros l Hl. rewrite Forall_forall in G3. apply G3 in Hl. lia. }
  destruct (compose_inputs_unchanged_l _ _ _ _ _ _ _ _ _ Hwf1 G2' G3' E) as [Un _].
  split; [exact Un|].
  intros a R1 R2.
  destruct (compose_fresh_l _ _ _ _ _ _ _ _ _ Hwf1 G2' G3' E) as [_ Fr2].
  apply Fr2 in R2 as [R2 _].
  assert (R1' : n0 <= a < n1).
  { eapply reach_closed; [|exact R1|].
    - intros x o Hx Hge Hlt. rewrite Un in Hx by auto. apply (c_region _ _ _ C x o Hx Hge).
    - intros k b [Eq|[]]. inversion Eq; subst. auto. }
  lia.
Qed.

(* ---- totality: the guard of compose_h_total holds on the example (store typing
   of the spine: defaults at 0, layers at 3 and 6, the nested struct cell 7, the
   pointee cells 2 and 4) and compose returns; so the four theorems above apply
   unconditionally ---- *)
Definition ex_sub : fields := FCons [81] [] false (TPtr t_i64) FNil.
Definition ex_typing : styping :=
  [(0, CStruct ex_fs); (3, CStruct (ptrify_fields ex_fs)); (6, CStruct (ptrify_fields ex_fs));
   (7, CStruct (ptrify_fields ex_sub)); (2, CCell); (4, CCell)].

Example ex_total_guard : c02_guard ex_heap 8 0 3 [] ex_typing ex_fs 0 [3; 6] = true.
Proof. vm_compute. reflexivity. Qed.

Theorem compose_h_total_b : forall fuel fs h n0 R D rk S0 d layers,
  c02_guard h n0 R D rk S0 fs d layers = true -> (copy_fuel n0 R D <= fuel)%nat ->
  exists h' n' d', compose_h fuel fs h n0 d layers = Done ((h', n'), d').
Proof. exact compose_h_total_l. Qed.

Lemma c02_guard_parts h n0 R D rk S0 fs d layers : c02_guard h n0 R D rk S0 fs d layers = true ->
  wf_heapb h n0 = true /\ d <? n0 = true /\ layers_below n0 layers = true.
Proof.
  unfold c02_guard. intro G. repeat (apply andb_true_iff in G as [G ?]).
  split; [auto|split].
  - unfold root_ok in H0. apply andb_true_iff in H0 as [Q _]. apply andb_true_iff in Q as [Q _]. auto.
  - unfold layers_below. apply forallb_forall. intros l Hl. rewrite forallb_forall in H. apply H in Hl.
    unfold root_ok in Hl. apply andb_true_iff in Hl as [Q _]. apply andb_true_iff in Q as [Q _]. auto.
Qed.

(* the C02 theorems without the "if the call returns" *)
Theorem compose_snapshot_b : forall fuel fs h n0 R D rk S0 d layers,
  c02_guard h n0 R D rk S0 fs d layers = true -> (copy_fuel n0 R D <= fuel)%nat ->
  exists h' n' d', compose_h fuel fs h n0 d layers = Done ((h', n'), d') /\
    n0 <= d' < n' /\
    (forall a, reach h' [(RCell, d')] a -> n0 <= a < n' /\ hget h a = None) /\
    (forall a, a < n0 -> hget h' a = hget h a) /\
    (forall a o, hget h a = Some o -> hget h' a = Some o).
Proof.
  intros fuel fs h n0 R D rk S0 d layers G Hf.
  destruct (compose_h_total_l _ _ _ _ _ _ _ _ _ _ G Hf) as (h' & n' & d' & E).
  destruct (c02_guard_parts _ _ _ _ _ _ _ _ _ G) as (G1 & G2 & G3).
  destruct (compose_fresh_b _ _ _ _ _ _ _ _ _ G1 G2 G3 E) as [F1 F2].
  destruct (compose_inputs_unchanged_b _ _ _ _ _ _ _ _ _ G1 G2 G3 E) as [U1 U2].
  exists h', n', d'. auto.
Qed.
