(* Model of a run of Config with watching sources, as far as memory is
   concerned (definitions only): the pristine copy of the defaults made on
   entry, then one compose per event (the first event is Config's own initial
   stacking).  Everything allocates from one monotone allocator: a source
   builds the objects of a value it reports at the allocator position, then
   compose runs.  A source that hands out memory belonging to a config version
   is outside the model (IllFormed): sources do not see versions. *)
From Coq Require Import List NArith ZArith Bool.
From Dials Require Import Base.Outcome Base.Runes Reflect.Ty Reflect.Ptrify Reflect.Heap Stack.Overlay
  Copy.DeepCopy Stack.ComposeH.
Import ListNotations.
Open Scope N_scope.

Record event := mk_event {
  ev_objs : list obj;        (* objects of the newly reported value(s), placed at n, n+1, ... *)
  ev_layers : list addr }.   (* current value of every source, in stacking order *)

Fixpoint place (h : heap) (n : addr) (objs : list obj) : heap * addr :=
  match objs with
  | [] => (h, n)
  | o :: r => place (hset h n o) (n + 1) r
  end.

Record version := mk_version { v_root : addr; v_lo : addr; v_hi : addr }.

Definition in_version (v : version) (a : addr) : bool := (v_lo v <=? a) && (a <? v_hi v).
Definition in_versions (vs : list version) (a : addr) : bool := existsb (fun v => in_version v a) vs.

(* what a source may hand over: objects closed below the new allocator position
   and not referring into any version; layer addresses likewise *)
Definition src_ok (vs : list version) (n1 : addr) (e : event) : bool :=
  forallb (fun o => forallb (fun kb => (snd kb <? n1) && negb (in_versions vs (snd kb))) (obj_refs o)) (ev_objs e) &&
  forallb (fun l => (l <? n1) && negb (in_versions vs l)) (ev_layers e).

Fixpoint run_history (fuel : nat) (fs : fields) (h : heap) (n : addr) (d : addr)
         (acc : list version) (evs : list event) : res (hst * list version) :=
  match evs with
  | [] => Done ((h, n), acc)
  | e :: rest =>
      let hn1 := place h n (ev_objs e) in
      if src_ok acc (snd hn1) e then
        p <~ compose_h fuel fs (fst hn1) (snd hn1) d (ev_layers e) ;;
        run_history fuel fs (fst (fst p)) (snd (fst p)) d
                    (mk_version (snd p) (snd hn1) (snd (fst p)) :: acc) rest
      else IllFormed
  end.

(* Config(ctx, &defaults, sources...): tVal := realDeepCopy(t), then the history *)
Definition config_h (fuel : nat) (fs : fields) (h : heap) (n : addr) (defaults : addr) (evs : list event)
  : res (hst * addr * list version) :=
  p <~ deep_copy true fuel h n (HPtr (Some defaults)) ;;
  match snd p with
  | HPtr (Some d) =>
      q <~ run_history fuel fs (c_heap (fst p)) (c_next (fst p)) d [] evs ;;
      Done (fst q, d, snd q)
  | _ => IllFormed
  end.
