(* Store typing for the heap-level compose (definitions and basic facts):
   which cells hold structs of which field list (the spine of the defaults and
   of the layers), so that "overlayStruct finds the shapes it expects" can be
   stated without following pointers.  Only shapes along struct / pointer-to-
   struct fields and the existence of pointee cells matter - exactly Stack/Spine.v
   (C01) transported to heap values. *)
From Coq Require Import List NArith ZArith Bool Lia.
From Dials Require Import Base.Outcome Base.Runes Reflect.Ty Reflect.Ptrify Reflect.Heap Stack.Overlay
  Stack.StackSpec Stack.Spine Stack.StackProofs Copy.DeepCopy Copy.DeepCopySpec Stack.ComposeH.
Import ListNotations.
Open Scope N_scope.

(* ---- boolean equality of types is equality ---- *)
Lemma kind_eqb_eq a b : kind_eqb a b = true -> a = b.
Proof. destruct a, b; simpl; intro H; try discriminate; try reflexivity; apply N.eqb_eq in H; subst; reflexivity. Qed.

Lemma tags_eqb_eq : forall a b, tags_eqb a b = true -> a = b.
Proof.
  induction a as [|[k v] a IH]; intros [|[k' v'] b]; simpl; intro H; try discriminate; auto.
  apply andb_true_iff in H as [H H3]. apply andb_true_iff in H as [H1 H2].
  apply str_eqb_eq in H1. apply str_eqb_eq in H2. apply IH in H3. subst. reflexivity.
Qed.

Lemma ty_fields_eqb_eq :
  (forall a b, ty_eqb a b = true -> a = b) /\ (forall a b, fields_eqb a b = true -> a = b).
Proof.
  apply ty_fields_ind; intros.
  - destruct b; simpl in H; try discriminate. apply andb_true_iff in H as [H1 H2].
    apply kind_eqb_eq in H1. apply str_eqb_eq in H2. subst. reflexivity.
  - destruct b; simpl in H; try discriminate. apply andb_true_iff in H as [H1 H2].
    apply str_eqb_eq in H1. apply Bool.eqb_prop in H2. subst. reflexivity.
  - destruct b; simpl in H0; try discriminate. apply H in H0. subst. reflexivity.
  - destruct b; simpl in H0; try discriminate. apply andb_true_iff in H0 as [H1 H2].
    apply H in H1. apply str_eqb_eq in H2. subst. reflexivity.
  - destruct b; simpl in H0; try discriminate. apply andb_true_iff in H0 as [H1 H2].
    apply N.eqb_eq in H1. apply H in H2. subst. reflexivity.
  - destruct b; simpl in H1; try discriminate. apply andb_true_iff in H1 as [H1 H3].
    apply andb_true_iff in H1 as [H1 H2]. apply H in H1. apply H0 in H2. apply str_eqb_eq in H3. subst. reflexivity.
  - destruct b; simpl in H0; try discriminate. apply andb_true_iff in H0 as [H1 H2].
    apply H in H1. apply str_eqb_eq in H2. subst. reflexivity.
  - destruct b; simpl in H; try discriminate. reflexivity.
  - destruct b; simpl in H; try discriminate. reflexivity.
  - destruct b; simpl in H; try discriminate. reflexivity.
  - destruct b; simpl in H; try discriminate. reflexivity.
  - destruct b; simpl in H1; try discriminate.
    apply andb_true_iff in H1 as [H1 H5]. apply andb_true_iff in H1 as [H1 H4].
    apply andb_true_iff in H1 as [H1 H3]. apply andb_true_iff in H1 as [H1 H2].
    apply str_eqb_eq in H1. apply tags_eqb_eq in H2. apply Bool.eqb_prop in H3. apply H in H4. apply H0 in H5.
    subst. reflexivity.
Qed.

Definition fields_eqb_eq := proj2 ty_fields_eqb_eq.

(* ---- store typing ---- *)
Inductive cty := CStruct (fs : fields) | CCell.

Definition styping := list (addr * cty).

Fixpoint slook (S : styping) (a : addr) : option cty :=
  match S with
  | [] => None
  | (b, c) :: r => if a =? b then Some c else slook r a
  end.

(* shape of a heap value at a type, relative to a store typing (never follows a pointer) *)
Fixpoint shp (S : styping) (t : ty) (v : hv) {struct t} : Prop :=
  match t with
  | TStruct fs _ => match v with HStruct vs => shp_fields S fs vs | _ => False end
  | TPtr (TStruct fs _) =>
      match v with
      | HPtr None => True
      | HPtr (Some a) => slook S a = Some (CStruct fs)
      | _ => False
      end
  | TPtr _ =>
      match v with
      | HPtr None => True
      | HPtr (Some a) => slook S a <> None
      | _ => False
      end
  | _ => True
  end
with shp_fields (S : styping) (fs : fields) (vs : list hv) {struct fs} : Prop :=
  match fs, vs with
  | FNil, [] => True
  | FCons n tags _ t r, v :: vs' =>
      (omit_field n tags = true \/ is_chan_func t = true \/ shp S t v) /\ shp_fields S r vs'
  | _, _ => False
  end.

(* the heap is well typed: every typed cell holds what the typing says *)
Definition wt (S : styping) (h : heap) : Prop :=
  forall a c, slook S a = Some c ->
    match c with
    | CStruct fs => exists vs, get_struct h a = Some vs /\ shp_fields S fs vs
    | CCell => exists x, hget h a = Some (OCell x)
    end.

Definition sbound (S : styping) (n : N) : Prop := forall a c, slook S a = Some c -> a < n.
Definition sext (S S' : styping) : Prop := forall a c, slook S a = Some c -> slook S' a = Some c.

(* ---- decidable forms (the guard of compose_h_total) ---- *)
Fixpoint shpb (S : styping) (t : ty) (v : hv) {struct t} : bool :=
  match t with
  | TStruct fs _ => match v with HStruct vs => shpb_fields S fs vs | _ => false end
  | TPtr (TStruct fs _) =>
      match v with
      | HPtr None => true
      | HPtr (Some a) => match slook S a with Some (CStruct fs') => fields_eqb fs' fs | _ => false end
      | _ => false
      end
  | TPtr _ =>
      match v with
      | HPtr None => true
      | HPtr (Some a) => match slook S a with Some _ => true | None => false end
      | _ => false
      end
  | _ => true
  end
with shpb_fields (S : styping) (fs : fields) (vs : list hv) {struct fs} : bool :=
  match fs, vs with
  | FNil, [] => true
  | FCons n tags _ t r, v :: vs' =>
      (omit_field n tags || is_chan_func t || shpb S t v) && shpb_fields S r vs'
  | _, _ => false
  end.

Definition wtb (S : styping) (h : heap) : bool :=
  forallb (fun ac =>
    match slook S (fst ac) with
    | Some (CStruct fs) => match get_struct h (fst ac) with Some vs => shpb_fields S fs vs | None => false end
    | Some CCell => match hget h (fst ac) with Some (OCell _) => true | _ => false end
    | None => true
    end) S.

Definition sboundb (S : styping) (n : N) : bool := forallb (fun ac => fst ac <? n) S.

Definition is_cstruct (S : styping) (a : addr) (fs : fields) : bool :=
  match slook S a with Some (CStruct fs') => fields_eqb fs' fs | _ => false end.

(* ---- the decidable guard of compose_h_total ----
   h, n0        the heap before the call and the allocator position
   R, D, rk     the C03 guards (rank bound, depth bound >= 1, ranking of backing arrays)
   S0           store typing of the spines: the defaults' cell d holds a struct of
                the config type fs, every layer cell one of the pointerified type,
                and so on along struct / pointer-to-struct fields
   cfg_ok fs    C01's type universe *)
Definition root_ok (h : heap) (n0 : N) (S0 : styping) (a : addr) (lfs : fields) : bool :=
  (a <? n0) && root_kindsb h (HPtr (Some a)) && is_cstruct S0 a lfs.

Definition c02_guard (h : heap) (n0 : N) (R D : nat) (rk : list (addr * nat)) (S0 : styping)
           (fs : fields) (d : addr) (layers : list addr) : bool :=
  wf_heapb h n0 && wf_rankb h R D rk && wf_kindsb h && Nat.leb 1 D && cfg_ok fs &&
  wtb S0 h && sboundb S0 n0 &&
  root_ok h n0 S0 d fs && forallb (fun l => root_ok h n0 S0 l (ptrify_fields fs)) layers.

(* ---- a store typing read off the heap along the types (used by the
   correspondence check to evaluate c02_guard on every shipped input; the guard
   re-checks it, so nothing has to be proved about this computation) ---- *)
Fixpoint infer_typing (h : heap) (t : ty) (v : hv) {struct t} : styping :=
  match t with
  | TStruct fs _ => match v with HStruct vs => infer_fields h fs vs | _ => [] end
  | TPtr (TStruct fs _) =>
      match v with
      | HPtr (Some a) =>
          (a, CStruct fs) :: match get_struct h a with Some vs => infer_fields h fs vs | None => [] end
      | _ => []
      end
  | TPtr _ => match v with HPtr (Some a) => [(a, CCell)] | _ => [] end
  | _ => []
  end
with infer_fields (h : heap) (fs : fields) (vs : list hv) {struct fs} : styping :=
  match fs, vs with
  | FCons n tags _ t r, v :: vs' =>
      (if omit_field n tags || is_chan_func t then [] else infer_typing h t v) ++ infer_fields h r vs'
  | _, _ => []
  end.

Definition infer_root (h : heap) (a : addr) (lfs : fields) : styping :=
  (a, CStruct lfs) :: match get_struct h a with Some vs => infer_fields h lfs vs | None => [] end.

Definition infer_inputs (h : heap) (fs : fields) (d : addr) (layers : list addr) : styping :=
  infer_root h d fs ++ flat_map (fun l => infer_root h l (ptrify_fields fs)) layers.

(* guard for a replayed history: every event only re-stacks values that already live in the heap *)
Definition c02_history_guard (h : heap) (n0 : N) (R D : nat) (rk : list (addr * nat)) (S0 : styping)
           (fs : fields) (defaults : addr) (layerss : list (list addr)) : bool :=
  wf_heapb h n0 && wf_rankb h R D rk && wf_kindsb h && Nat.leb 1 D && cfg_ok fs &&
  wtb S0 h && sboundb S0 n0 && root_ok h n0 S0 defaults fs &&
  forallb (forallb (fun l => root_ok h n0 S0 l (ptrify_fields fs))) layerss.
