(* C01, the former residue: a pointer to a struct type whose pointerified type
   is IDENTICAL to it (an unnamed struct all of whose fields are slices, maps
   or pointers).  With a nil base overlayField assigns the layer's pointer
   directly (base.Type().Elem() == overlay.Type().Elem()); this file proves
   that this coincides with merging the layer into the zero struct. *)
From Coq Require Import List NArith ZArith Bool Lia.
From Dials Require Import Base.Outcome Base.Runes Reflect.Ty Reflect.Ptrify Stack.Overlay Stack.StackSpec Stack.Spine.
Import ListNotations.

(* ---- boolean type equality decides equality ---- *)
Lemma kind_eqb_eq a b : kind_eqb a b = true -> a = b.
Proof. destruct a, b; cbn; intro H; try discriminate; try reflexivity; apply N.eqb_eq in H; subst; reflexivity. Qed.

Lemma tags_eqb_eq a : forall b, tags_eqb a b = true -> a = b.
Proof.
  induction a as [|[k v] a IH]; intros [|[k' v'] b] H; cbn in H; try discriminate; [reflexivity|].
  apply andb_true_iff in H as [H H3]. apply andb_true_iff in H as [H1 H2].
  apply str_eqb_eq in H1, H2. apply IH in H3. subst. reflexivity.
Qed.

Lemma bool_eqb_eq a b : Bool.eqb a b = true -> a = b.
Proof. destruct a, b; cbn; intro; try discriminate; reflexivity. Qed.

Lemma ty_fields_eqb_eq :
  (forall a b, ty_eqb a b = true -> a = b) /\ (forall a b, fields_eqb a b = true -> a = b).
Proof.
  apply ty_fields_ind.
  - intros k n b H. destruct b; cbn in H; try discriminate. apply andb_true_iff in H as [H1 H2].
    apply kind_eqb_eq in H1. apply str_eqb_eq in H2. subst. reflexivity.
  - intros i p b H. destruct b; cbn in H; try discriminate. apply andb_true_iff in H as [H1 H2].
    apply str_eqb_eq in H1. apply bool_eqb_eq in H2. subst. reflexivity.
  - intros t IH b H. destruct b; cbn in H; try discriminate. f_equal. apply IH, H.
  - intros t IH n b H. destruct b; cbn in H; try discriminate. apply andb_true_iff in H as [H1 H2].
    apply IH in H1. apply str_eqb_eq in H2. subst. reflexivity.
  - intros n t IH b H. destruct b; cbn in H; try discriminate. apply andb_true_iff in H as [H1 H2].
    apply N.eqb_eq in H1. apply IH in H2. subst. reflexivity.
  - intros k IHk v IHv n b H. destruct b; cbn in H; try discriminate. apply andb_true_iff in H as [H H3].
    apply andb_true_iff in H as [H1 H2]. apply IHk in H1. apply IHv in H2. apply str_eqb_eq in H3. subst. reflexivity.
  - intros fs IH n b H. destruct b; cbn in H; try discriminate. apply andb_true_iff in H as [H1 H2].
    apply IH in H1. apply str_eqb_eq in H2. subst. reflexivity.
  - intros b H. destruct b; cbn in H; try discriminate. reflexivity.
  - intros b H. destruct b; cbn in H; try discriminate. reflexivity.
  - intros b H. destruct b; cbn in H; try discriminate. reflexivity.
  - intros b H. destruct b; cbn in H; try discriminate. reflexivity.
  - intros n tg an t IHt r IHr b H. destruct b; cbn in H; try discriminate.
    apply andb_true_iff in H as [H H5]. apply andb_true_iff in H as [H H4].
    apply andb_true_iff in H as [H H3]. apply andb_true_iff in H as [H1 H2].
    apply str_eqb_eq in H1. apply tags_eqb_eq in H2. apply bool_eqb_eq in H3. apply IHt in H4. apply IHr in H5.
    subst. reflexivity.
Qed.
Definition ty_eqb_eq := proj1 ty_fields_eqb_eq.

(* Pointerify never adds fields *)
Lemma ptrify_len fs : (fields_len (ptrify_fields fs) <= fields_len fs)%nat.
Proof.
  induction fs as [|n tags anon t r IH]; cbn; [lia|].
  destruct (omit_field n tags); [lia|]. destruct (ptrify_ty t); cbn; lia.
Qed.

Lemma self_ptrified_cons n tags anon t r :
  ptrify_fields (FCons n tags anon t r) = FCons n tags anon t r ->
  omit_field n tags = false /\ ptrify_ty t = Some t /\ ptrify_fields r = r.
Proof.
  cbn. pose proof (ptrify_len r) as L.
  destruct (omit_field n tags).
  - intro H. rewrite H in L. cbn in L. lia.
  - destruct (ptrify_ty t) as [t'|].
    + intro H. inversion H as [[H1 H2]]. subst t'. repeat split; try reflexivity. rewrite !H2. reflexivity.
    + intro H. rewrite H in L. cbn in L. lia.
Qed.
